#!/usr/bin/env python3
"""Regenerates MANIFEST.json from the per-property table below (keeps it schema-valid)."""
import json
from pathlib import Path

ROOT = Path(__file__).resolve().parent.parent
ALL = [f"C{i:02d}" for i in range(1, 21)]

COMMON_NOTE = ("Trusted: Lean 4.33 kernel (+leanchecker in the thorough tier); axioms propext/Classical.choice/Quot.sound only "
               "(audited per theorem on every run, no sorry/native_decide/bv_decide/own axioms); tools/translate.py; the correspondence "
               "harness (generators, adapters, line protocol); where the claim names translated functions the hand-written model is proved "
               "equal to definitions translated from the source text on every run (trusted: tools/py2lean.py, tools/py2leanu.py, their "
               "run-time libraries Model/PyRt.lean, Model/PyU*.lean and the plug-ins' introspection; validated by the g-* / pyu streams), "
               "everything else of the model is tied to the code by differential execution, not by proof. ")

CLAIMED = {
    "C20": dict(
        text="Lean theorems over the model of utils.xor / netbios / pack / unpack / checksum8 / stager classifiers / random_stager_uri / "
             "find_staged_beacon gate, for all inputs (xor_involutive, xor_length, xor_identity, netbios_decode_encode, netbios_roundtrip, "
             "unpack_pack, pack_unpack, pack_overflow_iff, isStagerX86_iff, isStagerX64_iff, randomStagerUri_sound, staged_gate); model tied to "
             "the code twice: (1) the source text of xor, netbios_encode/decode, pack, unpack, checksum8, is_stager_x86/x64 and the u8..p64be "
             "partials is translated to Lean on every run (tools/py2lean.py -> Gen/PyUtils.lean) and proved equal to the model for all arguments "
             "(C20Gen.gen_*, 29 theorems), (2) an exhaustive+random correspondence run (all URIs up to length 2/3 over printable ASCII, length "
             "grids, width limits) of both the model and the translated definitions against the real functions.",
        note="The translator and the Python semantics it relies on (Model/PyRt.lean) are trusted and validated by the g-* streams; "
             "CPython built-ins (int.from_bytes/to_bytes incl. the width-0 quirk, bytes(), re.match) are modelled, not verified; "
             "random.choice is a scripted stream; BeaconConfig.from_bytes is stubbed in the gate stream.",
        design="§4 C20, §12",
        technique="Lean 4 theorems about an executable model; model tied to the code by source-to-Lean translation (proved equal) and by a "
                  "model/implementation correspondence check",
    ),
    "C05": dict(
        text="Lean 4 proof over an executable model of pad, encrypt_data, decrypt_data, encrypt_packet, decrypt_packet, raise_for_signature, "
             "dumps and the client/server iter_encrypted_packets: the round trip returns plaintext plus 1-16 bytes of 'A'; the signature is "
             "HMAC[:16] over the ciphertext; with verification, acceptance is exactly 'key present, non-empty and MAC equal'; rejection is "
             "ValueError with AES never invoked (call-log theorem); client and server framings invert concatenation for all packet lists "
             "(client_frames_roundtrip by induction). AES-CBC and HMAC-SHA256 are parameters constrained only by CryptoLaws (satisfiable toy "
             "instance given); rejection of a modified ciphertext / different key is proved under the explicit hypothesis that the truncated MACs differ. "
             "The source text of pad, encrypt_data, decrypt_data, encrypt_packet, decrypt_packet, EncryptedPacket.dumps/raise_for_signature and "
             "derive_aes_hmac_keys is translated to Lean on every run (tools/py2lean.py -> Gen/PyC2.lean, primitives as parameters) and proved equal "
             "to the model for all arguments and primitives (C05Gen.gen_*).",
        note="Model tied to the code by running the real library against the compiled model with primitive results supplied from pycryptodome/hmac "
             "called directly and the ordered primitive-call log compared: every plaintext length 0-48, every single-bit flip and truncation of "
             "ciphertext and signature of 20 (quick) / 300 (thorough) packets, HMAC-key faults, verify=False, streams of 1-6 packets, malformed "
             "frames. BytesIO, cstruct uint32 and int.to_bytes semantics are modelled; crypto hardness is not assumed silently.",
        design="§4 C05, §1.2, §12",
        technique="Lean 4 theorems about an executable model; model tied to the code by source-to-Lean translation (proved equal) and by a "
                  "model/implementation correspondence check",
    ),
    "C06": dict(
        text="Lean 4 proof: for every metadata whose integer fields fit their declared widths, every 16-byte aes_rand and every info with "
             "59+|info| <= k-11 (RSA-1024/2048 as corollaries), decrypt_metadata(encrypt_metadata(m)) returns m field for field with "
             "size = |dumps|-8, under explicit assumptions on RSA/PKCS#1 v1.5 (CryptoLaws, satisfiable). Every blob that fails to decrypt, has "
             "the wrong length, is short, truncated or lacks the 0xBEEF magic yields ValueError and nothing else (decrypt_only_valueError). "
             "AES and HMAC keys are the two 16-byte halves of SHA-256(aes_rand). The struct layout is a generated table re-proved by decide. "
             "decrypt_metadata and encrypt_metadata are translated from their source text on every run (tools/gen/py_c2m.py -> Gen/PyC2M.lean; the "
             "cstruct parse / dumps over the generated layout, PKCS#1 as parameters) and proved equal to the model for every blob, every metadata, "
             "any key object and all primitives incl. every raising branch (C06Gen.gen_decrypt_metadata, gen_encrypt_metadata; metadata_roundtrip, "
             "decrypt_only_valueError restated; 13 theorems).",
        note="RSA and SHA-256 are model parameters, not verified; dissect.cstruct read/write semantics are modelled from measurements and "
             "exercised by dedicated dumps/parse streams against the real package. Layout from tools/gen/c2struct.py. Correspondence uses "
             "pycryptodome keys from corpus/C06/*.pem plus one seed-derived key, against the compiled model and an independent struct.pack oracle.",
        design="§4 C06, §1.2, §12.6",
        technique="Lean 4 theorems about an executable model; model tied to the code by source-to-Lean translation (proved equal) and by a "
                  "model/implementation correspondence check",
    ),
    "C15": dict(
        text="Lean theorems over the executable model of iter_find_needle and iter_artifactkit_payloads: for every file content, position, file "
             "kind, non-empty needle, buffer size B>=1 and start, the no-limit scan returns exactly the occurrences >= start, ascending "
             "(needle_exact, via the carry-buffer loop invariant; buffer-size independence, no duplicates, non-negativity as corollaries); under a "
             "limit the exact result and final file position are a closed form in B, start and max_offset (needle_limit_exact, "
             "needle_limit_reported_iff: the limit is compared with a block start and with an index into the carry buffer - a documented quirk), with "
             "soundness (needle_limit_sound) and completeness for occurrences ending before the limit (needle_limit_complete, limitKeeps_before) as "
             "corollaries. The ArtifactKit scanner reports exactly artifactHits with payload = xor(slice, key) "
             "(artifact_exact, artifact_offsets_iff, artifact_payload). Loops are well-founded recursions (termination proved, no fuel). "
             "iter_find_needle and iter_artifactkit_payloads are translated from their source text on every run (tools/gen/py_scan.py -> "
             "Gen/PyScan.lean; the file object threaded as a value, io.DEFAULT_BUFFER_SIZE a parameter) and proved equal to the model for every "
             "file (content, position, kind), every argument incl. the empty needle, B = 0 and a negative limit, and every fuel above the file "
             "length (C15Gen.gen_iter_find_needle, gen_iter_artifactkit_payloads; needle_exact, needle_limit_exact, artifact_exact restated).",
        note="CPython bytes.find, slicing and file-object semantics are modelled (bytesFind?/PyFile) and exercised by dedicated streams, not verified; "
             "u32/xor reuse the C20 models. Correspondence: exhaustive over alphabet {00,01,ff} (haystacks <=7 x needles <=3 x B 1..5 x start x limit), "
             "planted boundary-straddling occurrences for B in {1,3,7,64,8192}, BytesIO and real files. Under a limit the streams are property-relevant with an independent closed-form oracle "
             "(limits on every block start +-1 and on the buffer index of planted occurrences +-1). Empty needle and B=0 are outside the property.",
        design="§4 C15, §12.5",
        technique="Lean 4 theorems about an executable model; model tied to the code by source-to-Lean translation (proved equal) and by a "
                  "model/implementation correspondence check",
    ),
    "C16": dict(
        text="Lean theorems over an executable model of parse_raw_http: the body is everything after the first CRLFCRLF (body_preserved); a start "
             "line that is not three tokens gives exactly ValueError and no other exception is possible for any input (malformed_rejected, "
             "only_valueError); every well-formed response (any HTTP/ version token, any status of at most 4300 digits, any single-token reason) and "
             "every well-formed request (any admissible ASCII path incl. ';', ':', '@', '%', arbitrary parameter bytes percent-encoded on the wire, "
             "header maps, any body) round-trips through render and parse (response_roundtrip, request_roundtrip); percent-decoding inverts "
             "percent-encoding (unquote_quote); headers and parameters have dict semantics. The source text of parse_raw_http is translated to "
             "Lean on every run (untyped translator tools/py2leanu.py -> Gen/PyC2U.lean, urlsplit / parse_qsl as parameters instantiated with the "
             "C16 sub-models) and proved equal to the model for every bytes argument (C16Gen.gen_parse_raw_http); the central theorems are restated "
             "for the translated definition (gen_only_valueError, gen_malformed_rejected, gen_request_roundtrip, gen_response_roundtrip).",
        technique="Lean 4 theorems about an executable model; model tied to the code by source-to-Lean translation (proved equal) and by a "
                  "model/implementation correspondence check",
        note="The untyped translator and its run-time library (Model/PyU.lean) are trusted and validated by the g-* and pyu streams. CPython 3.12.1 built-ins (bytes.partition/split/rstrip/upper, UTF-8 and ASCII-ignore decoding, int(str) incl. Unicode digits from "
             "generated tables and the 4300-digit limit, urllib.parse.urlsplit on bytes incl. netloc/IPv6 checks, parse_qsl, dict) are modelled and "
             "checked by exhaustive (all URI targets of length <=4 over a 15-letter alphabet) and random correspondence streams, not verified.",
        design="§4 C16, §12.3",
    ),
    "C02": dict(
        text="Lean 4 theorems over the model of iter_settings / settings_map / the four views: for every well-formed settings list and any trailing "
             "bytes, decoding the big-endian TLV serialization returns exactly that list (parse_serialize; 00 00 or end of data); truncation at any "
             "byte drops only the incomplete record; an over-long 0x80 User-Agent continues to the next NUL or end of data; decoding is total for "
             "arbitrary bytes and re-serializes to a prefix of the block (parse_sound). The name-, const- and enum-keyed mappings are re-keyings of "
             "each other with Python dict semantics for duplicates (const-keyed under a stated no-mixed-36 hypothesis), raw and pretty agree off the "
             "generated SETTING_TO_PRETTYFUNC key set, SHORT/INT are unsigned 16/32-bit, the name key is injective, unknown indices get a synthetic "
             "name and index 36 is named by its type. iter_settings, BeaconConfig.__init__, settings_map, setting_enums, max_setting_enum and the bodies of "
             "the four view properties are translated from their source text on every run (tools/gen/py_beaconcfg.py -> Gen/PyBeaconCfg.lean) and "
             "proved equal to the model for every bytes/BytesIO argument, every settings list and arbitrary index_type/pretty/parse values "
             "(C02Gen.gen_*, 16 theorems; parse_serialize, parse_sound, truncated_drops_partial, useragent_continuation, views_agree restated for the "
             "translated definitions).",
        note="Enum tables, struct layout and the pretty-function key set are regenerated by introspection (tools/gen/beacon.py) and pinned by decide "
             "obligations. Pretty-function content is an abstract, possibly raising parameter (C03's subject); dissect.cstruct/BytesIO/dict semantics "
             "are modelled, not verified; view caching is C14's subject. Tied to the code by ~48k/~300k in-process comparisons plus an independent "
             "Python TLV decoder as oracle.",
        design="§4 C02, §12.4",
        technique="Lean 4 theorems about an executable model; model tied to the code by source-to-Lean translation (proved equal) and by a "
                  "model/implementation correspondence check",
    ),
    "C03": dict(
        text="Lean 4 round-trip theorems for every structured-setting decoder: for all well-formed transform/recover programs over the full opcode "
             "set with arbitrary arguments and any number of BUILD blocks (transform_roundtrip, recover_roundtrip by induction), all execute lists "
             "(valid UTF-8 names, offsets, NUL padding), process-inject transforms, section tables, pivot frames, NUL-terminated strings, the DNS idle "
             "quad and all BeaconGate enabled sets (gate_sound_complete, stated over sets, not by enumerating 2^23), the model of the parser returns "
             "exactly the encoded steps in order and nothing else; domain/URI pairs, protocol, port, kill date, watermark, trial flag derive "
             "consistently. Opcode tables and SETTING_TO_PRETTYFUNC keys are regenerated from the imported package and proved equal to hand-written "
             "Cobalt Strike numbering on every run. "
             "The decoders null_terminated_bytes/str, parse_pivot_frame, parse_process_injection_transform_steps, parse_gargle, parse_recover_binary, "
             "parse_transform_binary and parse_execute_list are additionally translated from their source text on every run (untyped translator "
             "tools/py2leanu.py -> Gen/PyBeacon.lean over Model/PyU.lean) and proved equal to the model for all inputs (C03Gen.gen_*, 10 theorems).",
        note="BytesIO, int.from_bytes, UTF-8/latin-1 decoding, dissect.cstruct enum/flag naming and ipaddress are modelled and validated by "
             "correspondence (0.25M quick / 2.4M thorough cases, directly and through BeaconConfig(block).settings), not verified; SHA-256 is a "
             "parameter. BeaconProtocol names for combined/undefined flag values and wrongly-typed settings are outside the theorems. Known finding "
             "C03-killdate-legacy-fallback-dead (full statement kept as killdate_legacy_full with a proof of its negation).",
        design="§4 C03, §12.2",
        technique="Lean 4 theorems about an executable model; model tied to the code by source-to-Lean translation (proved equal) and by a "
                  "model/implementation correspondence check",
    ),
    "C04": dict(
        text="Lean 4 proofs over an executable model of HttpDataTransform: each of the seven encoders is inverted by its decoder on all byte strings "
             "(incl. CPython's lenient base64 decoder with the appended '==', proved by induction on 3-byte groups), any chain is invertible "
             "(chain_inverse), and for every valid program (static decorations, any number of build blocks whose placements are not overwritten, "
             "client and server/int-argument form), all payloads, all mask values and any initial request, recover(transform(d)) = d "
             "(recover_transform_partial, recover_transform_server); library-encoded messages decode with an independent reference decoder and "
             "reference-encoded (unpadded base64url) messages are recovered by the library (ref_decodes_model, model_decodes_ref). "
             "HttpDataTransform.__init__, .transform and .recover are translated from their source text on every run (tools/gen/py_c2t.py -> "
             "Gen/PyC2T.lean; base64 and getrandbits as parameters) and proved equal to the model for every step list of the explicit domain "
             "C04Gen.stepsOf (ASCII step names in any case - the step.lower() classification is proved), every mask stream, payload, request and "
             "response (C04Gen.gen_http_data_transform_init, gen_transform, gen_recover; recover_transform_partial and the server round trip restated).",
        note="Partial in one point: uri-append with a non-empty initial URI is the recorded known finding C04-uri-append-initial-uri; the full "
             "statement is kept as recover_transform_full and proved false at a concrete witness. CPython base64/partition/dict, struct.pack and the "
             "C20 xor/netbios models are modelled and validated (exhaustive short-input base64 stream), not verified; getrandbits is scripted; "
             "step arguments are assumed well typed.",
        design="§4 C04, §12.4",
        technique="Lean 4 theorems about an executable model; model tied to the code by source-to-Lean translation (proved equal) and by a "
                  "model/implementation correspondence check",
    ),
    "C14": dict(
        text="Lean 4 proof over an explicit heap model of the Python list objects: for all operation sequences (view access, settings_map, C2Http "
             "with every key variant, client dry-run, profile generation, transform/recover, mutation attempts) the deep snapshot of the four "
             "settings views is unchanged (config_invariant, by induction), every result equals the result on a fresh configuration "
             "(history_independent), mappings reject item assignment, and no object handed out shares a list with the configuration "
             "(views_alias_free). The pre-9ab9399 aliasing variant is proved to violate each of these (non-vacuity). Configurations carrying a "
             "setting whose pretty function raises have their own small model (Model/C14R.lean: only a returned mapping is cached): a rendered "
             "view is never cached, every use gives the fresh-configuration result, an error included (raising_never_caches_rendered, "
             "raising_history_independent, raising_result; the fill-the-slot-first variant is proved history dependent).",
        note="The model abstracts values to interned ids and keeps only the object graph; its faithfulness is checked by replaying random histories "
             "(1-25 ops) on the 7 sample beacons and synthetic TLV configurations against the compiled model, with an independent deepcopy-snapshot / "
             "fresh-configuration / object-identity oracle on every case. settings_tuple is assumed unwritten (snapshot-checked, not modelled). "
             "Callers that mutate a list they obtained from a view are outside the property. Model/C14R.lean is tied to the code by the stream "
             "`raising` (synthetic configuration + a SETTING_BEACON_GATE value shorter than its bitmap; 2-9 uses) with the same independent "
             "oracle restricted to what such a configuration still shows; which constructor reads which view first is stated in that model, "
             "not derived from the source.",
        design="§4 C14, §11 round 5",
    ),
    "C19": dict(
        text="Lean 4 proof over an executable model of client.py: the beacon id is even and in [0,2^31) or rejected, with the exact rejection set "
             "(beacon_id_range, beacon_id_rejected_iff); keys are a function of the presented id; the sleep time lies in the jitter band in exact "
             "arithmetic; metadata.info is at most 51 bytes and exactly the longest whole-character prefix, so metadata fits 1024/2048-bit RSA; for "
             "every registration script and every task sequence (known and unknown command ids) the loop invokes exactly the registered handlers "
             "(plus on_<name>, else the catch-alls) once each, in order, leaving task_map unchanged (dispatch_exact, induction with an explicit heap); "
             "the pre-repair behaviours (list aliasing, unguarded enum lookup, character-level truncation) are proved to violate the statements. "
             "The anchored pieces of client.py are translated from their source on every run (tools/gen/py_client.py -> Gen/PyClient.lean): the "
             "beacon-id, session-key and info statement slices of HttpBeaconClient.run (located by what they assign), register_task, the handle / "
             "catch_all decorators, get_handlers and the dispatch part of _beacon_loop; each is proved equal to the model for all arguments "
             "(C19Gen.gen_*, 24 theorems; beacon_id_range, keys_function_of_id, info_fits, dispatch_exact restated for the source text).",
        note="Mersenne Twister and sha256 are parameters; CPython's UTF-8 codec, int and dict semantics are hand-modelled and exercised by dedicated "
             "streams. Float rounding of get_sleep_time is not modelled: the real expression is run on Fractions and the float path is only "
             "band-checked with a 1e-9 tolerance. Handlers are abstract (callable/truthy/raises/responds); get_task, send_callback, time.sleep are stubbed "
             "while the real _beacon_loop runs.",
        design="§4 C19, §12.4",
        technique="Lean 4 theorems about an executable model; model tied to the code by source-to-Lean translation (proved equal) and by a "
                  "model/implementation correspondence check",
    ),
    "C12": dict(
        text="Lean proof for ALL byte strings: value_to_string output is the per-byte escape concatenation (repr plus both str.replace calls act "
             "unit-wise: valueToString_unitwise), string_token_to_bytes of it returns the bytes (literal_roundtrip), and the STRING regex matches "
             "exactly the literal whatever follows (literal_single_token); the regex is modelled both as a derived scanner and as a literal "
             "lazy/backtracking reading and the two are proved equal (scanString_eq_rxMatch). Every documented escape decodes to its byte between "
             "arbitrary units (escape_table, decode_units); a trailing backslash is kept and truncated escapes raise ValueError. The grammar's STRING "
             "pattern is a generated obligation (pattern_is_modelled). value_to_string, string_token_to_bytes and the class StringIterator are "
             "translated from their source text on every run (tools/gen/py_c2prof.py -> Gen/PyC2Prof.lean; the iterator object threaded through "
             "its methods, StopIteration explicit) and proved equal to the model for all bytes, all latin-1 str and every STRING token of arbitrary "
             "code points (C12Gen.gen_value_to_string(_str), gen_string_token_to_bytes; literal_roundtrip, literal_single_token restated).",
        note="CPython built-ins (repr(bytes), str.replace, int(s,16) for |s|<=2, bytes()) and re are modelled and compared exhaustively (all byte "
             "strings of length <=2 over 0x00-0xff, length <=4 over the syntax alphabet; scanner vs re.match on all strings <=6/8 over a 4-letter "
             "alphabet). Lark's parser/contextual lexer is not modelled: embedded literals are compared against from_text().as_dict() and lark's own "
             "lexer. Oracle: decode(encode b) = b, ast.literal_eval of the text = b, exactly one STRING token.",
        design="§4 C12, §12.5",
        technique="Lean 4 theorems about an executable model; model tied to the code by source-to-Lean translation (proved equal) and by a "
                  "model/implementation correspondence check",
    ),
    "C09": dict(
        text="Machine-checked refinement (Lean 4): for every layout stub++nonce(4)++size(4)++enc, every nonce, both kinds of underlying file and "
             "EVERY history of seek(any offset, any whence)/read(any n)/tell - no hypothesis on the history - the model of XorEncodedFile produces "
             "exactly the outputs (including exceptions) of io.BytesIO over rollDecode(nonce,enc), and tell advances by the bytes returned "
             "(history_refines_all_seeks, trace_refines_all_seeks, read_refines for all n; read_nonce proved correct at every alignment incl. the "
             "0-3 splice; the pre-fix seek and the pre-fix read_nonce are kept as separate definitions and refuted). Detection is proved for the "
             "REAL marker scanner (the C15 model of iter_find_needle, every buffer size): candidates are exactly marker hits + size-relation "
             "offsets (real_candidates_characterised, true_offset_is_candidate_real), tried in Counter.most_common order, the first passing the MZ "
             "check wins, ValueError otherwise (detect_ok_iff_real, detect_first_passing_real, detect_rejects_real, detect_sound_real), and a stage "
             "whose decoded content starts with a PE image is found under byte-level hypotheses only (detect_correct_real_clean). "
             "iter_nonce_offsets and XorEncodedFile.__init__ / read_nonce / tell / seek / read are translated from their source text on every run "
             "(tools/gen/py_xor.py -> Gen/PyXor.lean; the view object owning its file threaded through every method) and proved equal to the "
             "model for every file, offset, whence and size (C09Gen.gen_*, 17 theorems); the refinement is restated for histories run through the "
             "translated methods (gen_history_refines_all_seeks, gen_read_refines).",
        note="Inherent partial: detect_correct_* need NoSpuriousCandidate (the code returns the first passing candidate). The marker-scan limit cut "
             "is exact for B >= maxrange+3 (the shipped 8192/1024) and sound/complete/bounded for every B. Out of model: seek offsets beyond the "
             "file-offset limits (2^44 on this ext4, 2^63 - (nonce_offset+8) on BytesIO), whence < 0, closed files. PyFile, Counter.most_common and "
             "cstruct reads are modelled, not verified. Tied to the code by ~35k (quick) / ~390k (thorough) in-process comparisons on BytesIO and on "
             "buffered and unbuffered temp files incl. negative seeks and invalid whence values, with a plain io.BytesIO replay as independent oracle; "
             "exhaustive (seek p, read n, tell, read m, tell) for len <= 9 (<= 13 thorough). Two defects found here were repaired (fix: f64b15d, 13416c7).",
        design="§4 C09, §12.5",
        technique="Lean 4 theorems about an executable model; model tied to the code by source-to-Lean translation (proved equal) and by a "
                  "model/implementation correspondence check",
    ),
    "C17": dict(
        text="Lean proof: an unmasked Guardrails configuration is reported only if payload_checksum+1 equals the stored checksum (only_if_checksum, "
             "unconditional, also end to end through the from_file fallback); the marker scan never raises and reports exactly the offsets "
             "satisfying the marker relation with room for a configuration in front (scan_reports_iff); guard unmasking round-trips; a protected "
             "area at any offset is found with exactly its offsets, settings and masked areas (marker_found); otherwise the guard metadata alone is "
             "reported (no_match_metadata_only); recovery of (config, key, settings, offsets) is proved under explicit dominance / no-collision "
             "hypotheses (recover_partial, key_is_candidate, zero_padding_dominates) and periodic keys are recovered up to their root. "
             "payload_checksum is additionally translated from its source text on every run (Gen/PyGuard.lean) and proved equal to the model "
             "(C17Gen.gen_payload_checksum); iter_guardrail_configs_with_beacon, find_xor_key_candidates and iter_guardrail_configs are translated "
             "too (tools/gen/py_guardu.py -> Gen/PyGuardU.lean) and proved equal to the model for every file object, buffer size and mask key "
             "(C17Gen.gen_*, 20 theorems): only_if_checksum holds for the source text of the selection loop whatever the scan and the candidate "
             "generator return (gen_only_if_checksum), and for the composition of the three translated functions (gen_only_if_checksum_pipeline).",
        note="Recovery is partial by nature: the full statement is refuted in Lean (recover_full_fails: periodic keys; the weak additive checksum "
             "admits same-length collisions, demonstrated). The XorEncoded view, PE helpers and the ordinary extraction path are parameters. cstruct, "
             "BufferedReader.peek and Counter.most_common are modelled and exercised by dedicated streams; constants come from tools/gen/guardrails.py. "
             "The compiled driver uses csimp-proved fast versions of xor and the Counter insert. Correspondence over all key lengths 2..256 "
             "(thorough), all 15 option subsets, positions, corruptions, plus a builder validated against the real protected sample.",
        design="§4 C17, §12.4",
        technique="Lean 4 theorems about an executable model; model tied to the code by source-to-Lean translation (proved equal) and by a "
                  "model/implementation correspondence check",
    ),
    "C18": dict(
        text="Lean-proved for all stages P ++ I whose image has a signed 0 < e_lfanew < maxrange and machine x86/x64, with |P| < maxrange and no "
             "earlier candidate: find_mz_offset = |P|; architecture, compile and export stamp (first containing section, else None), magic MZ/PE, "
             "prepend and append equal the image's fields at their absolute offsets, independent of P, the initial file position and the file kind "
             "(mz_found and its parts). Version: parsing any string of the documented shape returns its fields (version_parse_format); the "
             "export-stamp / max-enum precedence is as stated (version_precedence, config_version). Both tables are monotone in (tuple, date), of the "
             "documented shape, and their texts parse to what the real BeaconVersion computes - rechecked by kernel evaluation on the regenerated "
             "tables at every run. The six pe.py helpers (find_mz_offset, find_architecture, find_compile_stamps, find_magic_mz, find_magic_pe, "
             "find_stage_prepend_append), BeaconVersion.from_pe_export_stamp / from_max_setting_enum and the property BeaconConfig.version are "
             "translated from their source text on every run (tools/gen/py_pe.py -> Gen/PyPe.lean; cstruct reads over introspected layouts, the "
             "file object threaded) and proved equal to the model for every file content, position and kind, every start_offset (None or any int) "
             "and every int maxrange - result AND final file position (C18Gen.gen_*, 25 theorems; stage_call_at, mz_found_at, "
             "pe_position_independent, version_precedence restated).",
        note="Stage theorems hold for every start_offset and maxrange (stage = junk ++ P ++ I searched from |junk|: *_found_at, mz_found_at, "
             "stage_call_at incl. the exact final file position; the reported offset is absolute and the prepend includes the bytes before "
             "start_offset - modelled as coded), results are position-independent (pe_position_independent) and histories of helper calls are "
             "history-independent (pe_history_independent_at). Negative start_offset is outside the PyFile-level model. cstruct struct reads, CPython re (this regex), _strptime "
             "for '%b %d, %Y', datetime validity, int(), bytes.find/rstrip and file objects are modelled and exercised, not verified; struct layouts "
             "and both tables are regenerated from the imported package (tools/gen/pestruct.py, version.py). Correspondence ~20k quick / ~136k thorough "
             "on BytesIO and real files incl. truncations at every struct boundary, all table keys +-1, every key pair.",
        design="§4 C18, §12.8",
        technique="Lean 4 theorems about an executable model; model tied to the code by source-to-Lean translation (proved equal) and by a "
                  "model/implementation correspondence check",
    ),
    "C10": dict(
        text="For every grammar table satisfying the decidable obligations PrintWF/IdsOK/KwClean/TerminatedWF (re-proved by decide +kernel against "
             "Lark's loaded grammar - 246 compiled rules folded into 171 forms with a self-check by re-expansion - on each run), every derivation's "
             "Lark tree is reconstructed to exactly its source token sequence, whichever production and split the Reconstructor picks "
             "(print_eq_source, print_any_choice); as_text's whitespace post-processor and join preserve the tokens (postproc_tokens, join_eq_concat), "
             "and for every source the model parser accepts, the regenerated text lexes to the same tokens and parses back to the identical "
             "derivation (roundtrip_tokens, reparse_same_tree). The grammar is proved unambiguous at the derivation level: under the (strengthened, "
             "generated-table-checked) one-token-lookahead condition ParseWF two well-formed derivations with the same yield are equal "
             "(derivation_unique, unique_readability, unique_readability_gen), the model parser is complete and exactly characterised "
             "(parse_complete, parse_spec: it returns d iff d is a well-formed start derivation with those token texts), and every derivation's text "
             "parses back to it (text_of_derivation_parses). Table obligations additionally state that every alias is printed under its own "
             "keyword (gen_aliasesDistinctPerKeyword, gen_labelNaming with a pinned exception list) - exactly what the repaired module_x64 alias bug violated. "
             "The whitespace post-processor nested in as_text is translated from its source (tools/gen/py_c2text.py) and proved equal to "
             "C10.postproc for every item list (C10Gen.gen_as_text_postproc; postproc_tokens, as_text_relex restated).",
        note="Lark's LALR parser, contextual lexer and Earley-based Reconstructor are modelled and compared, not verified: tree, printed items, exact "
             "as_text text, re-lex and re-parse on ~3.2k profiles (quick) / ~55k (thorough) covering every form, plus mutated/hand-made trees, token "
             "soups, arbitrary postproc inputs and malformed sentences. The earlier ParseWF was too weak (three 3-form counter-example tables are "
             "kept and refuted: parseWF0_ambiguous, parseWF0_too_weak); the strengthened ParseWF/ParseWFT/DepthOK hold for the generated table by "
             "decide +kernel. Still trusted: that Lark's LALR(1) parser computes the model parser's function. The '# dns_resolver' production is "
             "unreachable from text.",
        design="§4 C10, §12.5",
        technique="Lean 4 theorems about an executable model; model tied to the code by source-to-Lean translation (proved equal) and by a "
                  "model/implementation correspondence check",
    ),
    "C07": dict(
        text="Machine-checked (Lean 4) composition of the C04, C05, C06 and C16 theorems: for every well-formed, wire-safe HTTP configuration, every "
             "history of check-ins, tasks and (multi-)callbacks and every kind of sufficient key material, the raw HTTP bytes (C16 rendering) of the "
             "client's and a reference team server's messages decode with one decoder object to exactly the packets sent, in order (session_decodes, "
             "induction over events with a decoder-state invariant; RSA-only decoders from the message after the first check-in - "
             "keys_read_before_metadata pins the evaluation order). Routing is characterised exactly by verb and URI prefix (routing_decision, "
             "routing_ignores_rest), and unrelated requests give ValueError with no state change and no primitive call (unrelated_rejected). "
             "C2Http.__init__, get_transform_for_http and the generator iter_recover_http are translated from their source text on every run "
             "(tools/gen/py_c2h.py -> Gen/PyC2H.lean; calls of parse_raw_http, HttpDataTransform, decrypt_metadata, decrypt_packet are calls of the "
             "definitions translated for C16, C04, C06, C05) and proved equal to the model (C07Gen.gen_get_transform_for_http = routing_decision, "
             "gen_c2http_init = every exception in order and every attribute, gen_iter_recover_http = packets and decoder state afterwards, or the "
             "exception; 17 theorems).",
        note="Crypto primitives are parameters with explicit laws; the harness supplies their results computed independently. Not proved: httpx/h11's "
             "actual serialisation (the differences to the C16 rendering are checked on every captured message), uri-append with the client's "
             "non-empty initial URI (known finding C07-uri-append-initial-uri, same root cause as C04's), configurations outside WireCfg "
             "(non-token verbs, unclean paths, empty static parameter values). The real HttpBeaconClient plus a capturing peer and "
             "C2Http.iter_recover_http under the three key variants are compared with the model on generated sessions (sample beacons + synthetic "
             "configurations with own RSA keys).",
        design="§4 C07, §12.6",
        technique="Lean 4 theorems about an executable model; model tied to the code by source-to-Lean translation (proved equal) and by a "
                  "model/implementation correspondence check",
    ),
    "C01": dict(
        text="Machine-checked (Lean 4): for every file content, key list, all-keys mode, detector answer, residual key order, Guardrails outcome, "
             "file kind and read-buffer size >= 1, BeaconConfig.from_file/from_bytes/from_path returns exactly the least candidate in (decoded view "
             "before file, key priority, offset) order (extract_first, extract_eq_spec); its block is xor(view[i:i+4096], key), its key and "
             "xorencoded flag are as found, and its settings are the C02 decoding of that block (extract_settings, extract_planted). With no "
             "candidate the result is the Guardrails outcome, else ValueError, and no other exception occurs (extract_none, "
             "extract_only_valueError). The answer does not depend on buffer size, entry point or initial file position; in all-keys mode the chosen "
             "key is least in the residual order (allkeys_any_order). Built on C15.needle_exact, C09's refinement and C02.parse_serialize. End-to-end "
             "theorems with hypotheses about the payload bytes only (the three parameters discharged by the function the driver runs, "
             "fromFileReal_instantiates / fromFileReal_eq_spec): extract_raw_end_to_end(_bytes), extract_xorencoded_end_to_end, "
             "extract_none_end_to_end, extract_guardrails_end_to_end; fromFile_C08_factors ties C08's composition to the same function. "
             "find_beacon_config_bytes, iter_beacon_config_blocks and BeaconConfig.from_file are translated from their source text on every run in "
             "FIRST-YIELD form (tools/gen/py_extractu.py -> Gen/PyExtract.lean: from_file never resumes a generator after its first yield; an "
             "exact AST rewriting) with file-like objects dispatched between ordinary files and the translated XorEncodedFile methods; "
             "C01Gen.gen_iter_beacon_config_blocks_first proves that the source text yields first exactly the first candidate of the "
             "specification (decoded view before file, key priority, file order, then the residual keys) and never raises, so extract_first and "
             "extract_none hold for the source text (gen_extract_first, gen_extract_none, gen_from_file_found/_fallback/_eq_model; 19 theorems); "
             "the former harness assumption 'first element of the fully consumed run = what from_file observes' is a theorem (first_yield_find/_keys).",
        note="The XorEncoded detector answer (C09), the residual key order and the Guardrails fallback (C17) are parameters of the theorems; the one "
             "detector hypothesis (c + 8 <= file size) is proved for the executable detector used in the runs, which is proved to answer as "
             "C09.fromFileFull. Behaviour of iter_beacon_config_blocks after its first yield, the exact residual key order and CPython's Counter/sort "
             "are correspondence-only. PE artifacts are C18. Constants come from tools/gen/extract.py. Correspondence: an independent payload builder "
             "whose ground truth is a brute-force least-candidate search, all 256 keys, offsets around k*B for B in {7..8192}, every container, "
             "filler and key-list variant.",
        design="§4 C01, §12.7",
        technique="Lean 4 theorems about an executable model; model tied to the code by source-to-Lean translation (proved equal) and by a "
                  "model/implementation correspondence check",
    ),
    "C11": dict(
        text="Machine-checked: for every well-formed derivation of the generated grammar with lexable tokens, as_dict of its tree equals the grouped "
             "specification read off the tree by structural recursion (paths from block keywords and variants, one entry per statement in source "
             "order, list properties decoded to bytes, first raising statement decides the exception) - asDict_eq_spec, via the invariant 'after a "
             "block's statements the stack is again the path of the enclosing blocks' and C10.print_eq_source. The cache returns the dictionary of "
             "the current tree for every modify/access history under a collision-free tree hash (dict_tracks_modification; a counter-example "
             "documents the assumption). Builder call sequences whose tree passes the verified derivation checker yield derivation trees printed as "
             "their own sentence whose text parses back to exactly that derivation (builder_eq_parsed, via C10.text_of_derivation_parses; the "
             "unrestricted statement is refuted by C2Profile().set_option('stage','x'): builder_eq_parsed_full_false), with byte arguments "
             "round-tripping (builder_bytes_roundtrip). C2Profile.as_dict (token walk over the Reconstructor's items, and the cache wrapper) and 14 "
             "builder methods (set_option, _pair, _enable, _header, _parameter, set_config_block, set_non_empty_config_block, "
             "DataTransformBlock.__init__/add_step/add_termination/tree, from_execute_list, from_beacon_gate_option_strings, C2Profile.set_option) "
             "are translated from their source text on every run (tools/gen/py_c2dict.py -> Gen/PyC2Dict.lean) and proved equal to the model "
             "(C11Gen.gen_as_dict_walk for every item list incl. the raising branches, gen_as_dict_cached, gen_build_calls / gen_build_profile for "
             "whole call sequences; asDict_eq_spec, dict_tracks_modification, builder_eq_parsed restated; 38 theorems).",
        note="Grammar facts (form shapes, label/arity lookup, list_props, builder attribute tables) are re-proved by decide on tables regenerated "
             "from the source on every run (tools/gen/grammar.py, profile_api.py). The parse-back direction holds for the model parser (C10.parse_complete); "
             "that Lark's LALR parser equals it is compared, not proved. The Reconstructor, the LALR "
             "parser and Python's str/list/dict semantics are modelled and compared on ~10k (quick) / ~110k (thorough) cases incl. an oracle "
             "written independently of the library. Known finding C11-comment-dns-resolver is modelled faithfully.",
        design="§4 C11, §12.8",
        technique="Lean 4 theorems about an executable model; model tied to the code by source-to-Lean translation (proved equal) and by a "
                  "model/implementation correspondence check",
    ),
    "C13": dict(
        text="Lean 4 proof: for every well-formed configuration, from_beacon_config does not raise (generation_total). Well-formed means any subset "
             "and order of the understood settings, any latin-1 text in text settings, any config.uris including missing ones, all transform/recover "
             "programs with arbitrary byte arguments, all BeaconGate vectors and all execute lists with arbitrary module/function names - no "
             "character restriction anywhere. The tree is a valid derivation of the generated grammar whose text re-lexes to its tokens "
             "(generated_valid, generated_tokens_wellformed, generated_text_relexes), no {} block is empty at any depth (empty_blocks_absent), the "
             "# dns_resolver comment stays on one line, and the dictionary of the re-parsed profile equals the one promised from the configuration "
             "alone, byte-exact via C12's literal_roundtrip (generated_faithful, generated_faithful_tlv, execute_item_faithful, *_literal_decodes). "
             "Generated-table obligations re-proved on every run pin the if/elif chain, every emitted option/statement/block/execute/BeaconGate/"
             "transform name against the grammar, the str->bytes preamble, the SETTING_DOMAINS branch and the encoded execute value to the source. "
             "The whole class method from_beacon_config is additionally translated from its source text on every run (tools/gen/py_c2gen.py -> "
             "Gen/PyC2Gen.lean; builder API external, branches outlined in checked steps) and proved equal to the model: every slice for all "
             "arguments, one run of the loop body = stepOne for any setting number (the 48-test if/elif chain tied to the action table by proof), "
             "and C13Gen.gen_from_beacon_config on the explicit domain shapeOK (which contains every well-formed configuration with valid UTF-8 "
             "execute items); generation_total, generated_valid, empty_blocks_absent, generated_faithful restated (19 theorems).",
        note="The LALR parser step (from_text(as_text()).tree == tree) and as_dict = specDict (C11's subject) are compared on every case (19k quick / "
             "117k thorough), not proved; generated_text_relexes excludes trees carrying the # dns_resolver comment. Execute items are modelled as "
             "the UTF-8 bytes of the pretty str (invalid UTF-8 is C03's subject and is not generated). Pretty functions and dict semantics are C02/C03's "
             "subject: the harness checks on every case that the library presents exactly the pretty values on the line. Tables come from "
             "tools/gen/profile_gen.py (ast walk of from_beacon_config, DataTransformBlock.__init__, parse_transform_binary, parse_recover_binary, "
             "beacon_gate_options_string, as_dict), grammar.py and strlit.py. Five defects found by this check were repaired in /repo (fix: commits).",
        design="§4 C13, §11, §12.7",
        technique="Lean 4 theorems about an executable model; model tied to the code by source-to-Lean translation (proved equal) and by a "
                  "model/implementation correspondence check",
    ),
    "C08": dict(
        text="Lean 4 proof: for every entry point that accepts untrusted bytes - BeaconConfig.from_bytes/from_file/from_path, XorEncodedFile.from_file, "
             "the six pe.find_* helpers, iter_artifactkit_payloads, parse_raw_http and the Guardrails fallback - the model returns its documented "
             "result or ValueError for every byte string, every initial position and both file kinds (io.BytesIO, OS file): only_value_error_* "
             "(PE helpers and the ArtifactKit scanner never raise at all; find_stage_prepend_append for every largest offset the file object's seek "
             "accepts and any seek failing with OSError/OverflowError/ValueError; the pre-fix code is kept and refuted on a 512-byte witness). Lean's "
             "termination checker accepts every loop; the two fuel/guard-carrying loops are proved never to run out (settings_terminate, "
             "never_diverges_fromFile). The documented not-found values (not_found_values*) and step bounds (guard_scan_bound, artifact_scan_bound, "
             "detector_candidates_bound, detector_step_bound) are theorems. For the PE entry points the statement also holds for the definitions "
             "translated from the source text of pe.py (C08Gen.gen_only_value_error_pe*, 7 theorems: the translated helpers never raise, for every "
             "file, start and maxrange); parse_raw_http, the needle / ArtifactKit scanners, the settings decoder, the Guardrails functions and the "
             "extraction entry points are tied to their source text in C16Gen, C15Gen, C02Gen, C17Gen and C01Gen.",
        note="Wall-clock time is not a Lean notion: the proved bounds are counts, and the correspondence enforces a 30 s / 120 s watchdog on inputs "
             "whose worst case is kept small by construction (the two expensive paths, ~0.02 s per XorEncoded detector candidate and ~0.18 s per "
             "Guardrails marker, are linear in file size: observations, not violations). The composed models of C01/C02/C09/C15/C16/C17/C18 are tied to "
             "the code by their own correspondence; here arbitrary bytes plus every truncation / bit and byte flips / splices of raw, PE-embedded, "
             "XorEncoded and Guardrails payloads and crafted fields (section count 0xffff, e_lfanew out of range, export RVA outside sections, setting "
             "length > remaining, 128-byte User-Agent at EOF, guard markers at offsets 0..6137, unterminated guard config) are run on both file kinds "
             "and outcome classes compared. CPython file objects, dissect.cstruct, urllib and memory allocation are modelled, not verified "
             "(a 4 GiB read(size) in the ArtifactKit scanner needs that much address space: recorded observation).",
        design="§4 C08, §11, §12.8",
        technique="Lean 4 theorems about an executable model; model tied to the code by source-to-Lean translation (proved equal) and by a "
                  "model/implementation correspondence check",
    ),
}

REASON_PENDING = "not claimed yet: model/theorems/correspondence for this property are not built in this revision (see DESIGN.md §7 build order)"


def main():
    checks = []
    for pid, c in CLAIMED.items():
        checks.append({
            "property_id": pid,
            "quick_cmd": f"tools/check.py {pid} --tier quick",
            "thorough_cmd": f"tools/check.py {pid} --tier thorough",
            "evidence_file": f"evidence/{pid}.json",
            "replay_cmd_template": f"tools/check.py {pid} --replay {{path}}",
            "engine": "lean4-proof+correspondence",
            "level_claimed": {"category": "proof", "text": c["text"], "design_ref": c["design"]},
            "level_note": COMMON_NOTE + c["note"],
            "technique": c.get("technique", "Lean 4 theorems about an executable model + model/implementation correspondence check"),
        })
    man = {
        "version": 1,
        "setup_cmd": "tools/setup.sh",
        "hooks": {
            "guard": "FOX_IT_DISSECT_COBALTSTRIKE_VERIF",
            "enable": "tools/check.py exports FOX_IT_DISSECT_COBALTSTRIKE_VERIF=1; no hook commits exist (the harness patches module attributes in-process only)",
            "baseline_off_cmd": "cd /repo && /venv/bin/python -m pytest -ra -q -p no:cacheprovider --timeout=900 --continue-on-collection-errors",
            "source_commits": [],
            "add_only": True,
        },
        "engines": [{
            "name": "lean4-proof+correspondence",
            "path": "tools/check.py",
            "serves_properties": sorted(CLAIMED),
            "kind_free_text": "Lean 4 model + theorems (lean/CsVerif), tables regenerated by tools/translate.py, compiled model drivers compared with the real library by tools/harness/*",
        }],
        "checks": checks,
        "not_applicable": [{"property_id": p, "reason": REASON_PENDING} for p in ALL if p not in CLAIMED],
        "notes": "See DESIGN.md. known_findings.json lists recorded/fixed defects.",
    }
    (ROOT / "MANIFEST.json").write_text(json.dumps(man, indent=1) + "\n")


if __name__ == "__main__":
    main()

import CsVerif.Driver.C20
def main : IO Unit := Proto.run C20.step

import CsVerif.Driver.C18
def main : IO Unit := Proto.run C18.step

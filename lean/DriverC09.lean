import CsVerif.Driver.C09
def main : IO Unit := Proto.run C09.step

import CsVerif.Driver.C01
def main : IO Unit := Proto.run C01.step

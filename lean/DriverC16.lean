import CsVerif.Driver.C16
def main : IO Unit := Proto.run C16.step

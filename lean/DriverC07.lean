import CsVerif.Driver.C07
def main : IO Unit := Proto.run C07.step

import CsVerif.Driver.C10
def main : IO Unit := Proto.run C10.step

import CsVerif.Model.C19Gen
import CsVerif.Lemmas.C19
/-! Helper lemmas for Props/C19Gen.lean: the operations of `PyU` / `PyU_T19` (run-time library of the untyped translator) against
the primitives of the C19 model, and the definitions of `Gen/PyClient.lean` translated from client.py against the functions of
`Model/C19.lean`.  No property statements. -/
namespace C19Gen
open PyU C19 C19.Client
set_option linter.unusedSimpArgs false

/-! ### monad plumbing -/

theorem pure_ok {α : Type} (a : α) : (pure a : Py α) = .ok a := rfl
theorem throw_err {α : Type} (e : PyExc) : (throw e : Py α) = .error e := rfl
theorem st_pure {α : Type} (a : α) (s : V) : (pure a : StateT V Py α) s = .ok (a, s) := rfl
theorem tryCatch_ok {α : Type} (a : α) (h : PyExc → Py α) : tryCatch (Except.ok a : Py α) h = .ok a := rfl
theorem tryCatch_error {α : Type} (e : PyExc) (h : PyExc → Py α) : tryCatch (Except.error e : Py α) h = h e := rfl

/-! ### the beacon id -/

theorem band_mask (x : Int) (m : Nat) : PyRt.band x (Int.ofNat m) = pyAndMask x m := by
  cases x with
  | ofNat n => simp [PyRt.band, pyAndMask]
  | negSucc n => simp [PyRt.band, pyAndMask]

theorem band_int (x : Int) (m : Nat) : PyU.band (.int x) (.int (Int.ofNat m)) = .ok (.int (pyAndMask x m)) := by
  simp only [PyU.band, bitop, ints2, asInt, Except.map, band_mask]

theorem fmod2 (x : Int) : Int.fmod x 2 = x % 2 := by
  rw [Int.fmod_eq_emod_of_nonneg]; omega

theorem mod2_int (x : Int) : PyU.mod (.int x) (.int 2) = .ok (.int (x % 2)) := by
  simp [PyU.mod, ints2, asInt, PyRt.mod, fmod2]; rfl

theorem gen_normalise_beacon_id_proof (g : V → Py V) (x : Int) :
    Gen.PyClient.normalise_beacon_id g (.int x) = (normaliseId x).map .int := by
  have e2 : PyU.sub (.int x) (.int (x % 2)) = .ok (.int (x - x % 2)) := rfl
  have e3 := band_int (x - x % 2) 4294967295
  unfold Gen.PyClient.normalise_beacon_id
  simp only [PyU.isNone, Bool.not_false, if_true, mod2_int, e2, PyRt.ok_bind, pure_ok]
  erw [e3]
  simp only [PyRt.ok_bind, PyU.gt, PyU.lt, asInt, normaliseId]
  by_cases h : pyAndMask (x - x % 2) 4294967295 > 2147483647
  · simp [h, throw_err]; rfl
  · simp [h]; rfl

theorem gen_normalise_beacon_id_none_proof (g : V → Py V) (r : Int) (hg : g (.int 32) = .ok (.int r)) :
    Gen.PyClient.normalise_beacon_id g .none = (defaultId r).map .int := by
  have e0 := band_int r 2147483647
  have e2 (x : Int) : PyU.sub (.int x) (.int (x % 2)) = .ok (.int (x - x % 2)) := rfl
  have e3 (x : Int) := band_int (x - x % 2) 4294967295
  unfold Gen.PyClient.normalise_beacon_id
  simp only [PyU.isNone, Bool.not_true, Bool.false_eq_true, if_false, hg, PyRt.ok_bind]
  erw [e0]
  simp only [mod2_int, e2, PyRt.ok_bind, pure_ok]
  erw [e3]
  simp only [PyRt.ok_bind, PyU.gt, PyU.lt, asInt, normaliseId, defaultId]
  generalize pyAndMask r 2147483647 = x
  by_cases h : pyAndMask (x - x % 2) 4294967295 > 2147483647
  · simp [h, throw_err]; rfl
  · simp [h]; rfl

/-! ### the session keys -/

theorem slice_to_nat (d : Bytes) (n : Nat) : PyU.slice (.bytes d) .none (.int (n : Int)) = .ok (.bytes (d.take n)) := by
  simp only [PyU.slice, bound, asInt, PyRt.slice, PyRt.Bound.bound, id, PyRt.clampIdx, PyRt.ok_bind, pure_ok]
  rw [if_neg (by omega)]
  simp only [List.drop_zero, Int.toNat_natCast]
  by_cases h : n ≤ d.length
  · rw [Nat.min_eq_left h]
  · rw [Nat.min_eq_right (by omega), List.take_of_length_le (l := d) (i := n) (by omega), List.take_of_length_le (Nat.le_refl _)]

theorem slice_from_nat (d : Bytes) (n : Nat) : PyU.slice (.bytes d) (.int (n : Int)) .none = .ok (.bytes (d.drop n)) := by
  simp only [PyU.slice, bound, asInt, PyRt.slice, PyRt.Bound.bound, id, PyRt.clampIdx, PyRt.ok_bind, pure_ok]
  rw [if_neg (by omega), List.take_length]
  simp only [Int.toNat_natCast]
  by_cases h : n ≤ d.length
  · rw [Nat.min_eq_left h]
  · rw [Nat.min_eq_right (by omega), List.drop_eq_nil_of_le (Nat.le_refl _), List.drop_eq_nil_of_le (by omega)]

theorem toBytes16 (n : Int) (h0 : 0 ≤ n) (h1 : n < 340282366920938463463374607431768211456) :
    PyU.toBytes (.int n) (.int 16) (PyU.lit "big") = .ok (.bytes (bytes16 n)) := by
  have ho : PyRt.orderLittle (PyU.cps "big") = .ok false := by decide
  have hf : (decide (0 ≤ n ∧ n < ((256 ^ (16:Int).toNat : Nat) : Int))) = true := by
    simp only [decide_eq_true_eq]
    refine ⟨h0, ?_⟩
    have : ((256 ^ (16:Int).toNat : Nat) : Int) = 340282366920938463463374607431768211456 := by decide
    omega
  simp only [PyU.toBytes, asInt, PyU.lit, PyRt.intToBytes, ho]
  rw [if_neg (by decide)]
  simp only [Bool.false_eq_true, if_false, hf, Bool.not_true]
  rw [if_neg (by omega)]
  rfl

theorem gen_session_keys_proof (mt : Int → Int → Int) (sha : Bytes → Bytes) (bid : Int)
    (hmt : ∀ s, 0 ≤ mt s 128 ∧ mt s 128 < 340282366920938463463374607431768211456) :
    Gen.PyClient.session_keys (seededX mt) (shaX sha) (.int bid) = .ok (encKeys (deriveKeys (primsOf mt sha) bid)) := by
  have e1 : PyU.bxor (.int bid) (.int 2899203565) = .ok (.int (PyRt.bxor bid 2899203565)) := rfl
  unfold Gen.PyClient.session_keys
  simp only [e1, PyRt.ok_bind, seededX, toBytes16 _ (hmt _).1 (hmt _).2, shaX, pure_ok]
  erw [slice_to_nat _ 16, slice_from_nat _ 16]
  rfl

/-! ### info -/

theorem utf8Enc1_eq (c : Nat) : utf8Enc1 c = encodeCp c := by
  unfold utf8Enc1 encodeCp
  by_cases h1 : c < 0x80
  · simp only [h1, if_true]
  · by_cases h2 : c < 0x800
    · simp only [h1, h2, if_true, if_false]
    · by_cases h3 : 0xD800 ≤ c ∧ c ≤ 0xDFFF
      · have : c < 0x10000 := by omega
        have h4 : 0xD800 ≤ c ∧ c < 0xE000 := by omega
        simp only [h1, h2, h3, this, h4, and_self, if_true, if_false]
      · by_cases h5 : c < 0x10000
        · have h4 : ¬ (0xD800 ≤ c ∧ c < 0xE000) := by omega
          simp only [h1, h2, h3, h5, h4, if_true, if_false]
        · simp only [h1, h2, h3, h5, if_false]

theorem utf8Enc_eq (t : Txt) : utf8Enc t = utf8Encode t := by
  induction t with
  | nil => rfl
  | cons c cs ih =>
    simp only [utf8Enc, utf8Encode, utf8Enc1_eq, ih]
    cases encodeCp c with
    | error e => rfl
    | ok b => cases utf8Encode cs <;> rfl

theorem utf8Step_eq (b : UInt8) (rest : Bytes) : utf8Step b rest = decodeStep b rest := rfl

theorem utf8IgnoreGo_eq (k : Nat) (b : Bytes) : utf8IgnoreGo k b = decodeAux k b := by
  induction b generalizing k with
  | nil => cases k <;> rfl
  | cons x rest ih =>
    cases k with
    | succ k => simp only [utf8IgnoreGo, decodeAux, ih]
    | zero =>
      simp only [utf8IgnoreGo, decodeAux, utf8Step_eq]
      cases decodeStep x rest with
      | none => simp only [ih]
      | some p => simp only [ih]

theorem gen_info_proof (c u q : Txt) :
    Gen.PyClient.make_info (.str c) (.str u) (.str q) = (mkInfo c u q).map .bytes := by
  have hf (t : Txt) : PyU.fmt (.str t) "" = .ok t := rfl
  have ht : PyU.cps "\u0009" = [9] := by decide
  unfold Gen.PyClient.make_info
  simp only [hf, PyRt.ok_bind, ht, encodeUtf8, utf8Enc_eq, mkInfo]
  cases henc : utf8Encode (c ++ [9] ++ u ++ [9] ++ q) with
  | error e => rfl
  | ok enc =>
    simp only [Except.map, PyRt.ok_bind]
    erw [slice_to_nat enc 51]
    simp only [PyRt.ok_bind, decodeUtf8Ignore, utf8IgnoreGo_eq, encodeUtf8, utf8Enc_eq, utf8DecodeIgnore, pure_ok]

/-! ### the dict `task_map` as a value -/

/-- `d[k].append(h)` on the dict as a value (first entry with that key) -/
def updFirst (k : Key) (h : Handler) : List (Key × List Handler) → List (Key × List Handler)
  | [] => []
  | (k', hs) :: rest => if k' = k then (k', hs ++ [h]) :: rest else (k', hs) :: updFirst k h rest

/-- `register_task(k, h)` on the dict as a value -/
def regView (v : List (Key × List Handler)) (k : Key) (h : Handler) : List (Key × List Handler) :=
  match v.lookup k with
  | some _ => updFirst k h v
  | none => v ++ [(k, [h])]

theorem view_lookup (c : Client) (k : Key) : c.view.lookup k = (c.lookupKey k).map c.readList := by
  unfold Client.view lookupKey
  induction c.taskMap with
  | nil => rfl
  | cons p ps ih =>
    obtain ⟨a, b⟩ := p
    simp only [List.map_cons, List.lookup_cons]
    cases hk : k == a <;> simp [ih]

theorem updFirst_map (k : Key) (h : Handler) (f g : Nat → List Handler) :
    ∀ (tm : List (Key × Nat)), (tm.map Prod.snd).Nodup → (r : Nat) → tm.lookup k = some r →
      (∀ r', g r' = if r' = r then f r ++ [h] else f r') →
      tm.map (fun kr => (kr.1, g kr.2)) = updFirst k h (tm.map fun kr => (kr.1, f kr.2))
  | [], _, r, hl, _ => by simp [List.lookup] at hl
  | (k', r') :: rest, hnd, r, hl, hg => by
    simp only [List.map_cons, updFirst]
    simp only [List.lookup_cons] at hl
    simp only [List.map_cons, List.nodup_cons] at hnd
    by_cases hk : k' = k
    · subst hk
      simp only [beq_self_eq_true] at hl
      injection hl with hl; subst hl
      simp only [if_true, hg r', List.cons.injEq, true_and]
      apply List.map_congr_left
      intro kr hkr
      have : kr.2 ≠ r' := by
        intro e; apply hnd.1; rw [← e]; exact List.mem_map.2 ⟨kr, hkr, rfl⟩
      simp only [hg kr.2, this, if_false]
    · have hk' : (k == k') = false := by simpa using fun e => hk e.symm
      simp only [hk'] at hl
      have hne : r' ≠ r := by
        intro e; subst e
        apply hnd.1
        exact List.mem_map.2 ⟨(k, r'), lookup_mem hl, rfl⟩
      simp only [hk, if_false, hg r', hne, List.cons.injEq, true_and]
      exact updFirst_map k h f g rest hnd.2 r hl hg

theorem view_registerTask (c : Client) (hw : WF c) (k : Key) (h : Handler) :
    (c.registerTask k h).view = regView c.view k h := by
  unfold regView
  rw [view_lookup]
  unfold registerTask
  cases hl : c.lookupKey k with
  | some r =>
    simp only [Option.map_some]
    have hr := hw.bound _ (lookup_mem hl)
    unfold Client.view
    have : (c.appendTo r h).taskMap = c.taskMap := rfl
    rw [this]
    exact updFirst_map k h c.readList (c.appendTo r h).readList c.taskMap hw.refsNodup r hl
      (fun r' => by rw [readList_appendTo]; by_cases e : r' = r <;> simp [e, hr])
  | none =>
    simp only [Option.map_none, newList]
    unfold Client.view
    simp only [appendTo, List.map_append, List.map_cons, List.map_nil]
    congr 1
    · apply List.map_congr_left
      intro kr hkr
      have := hw.bound _ hkr
      simp only [readList, List.getElem?_modify]
      have hne : ¬ c.heap.length = kr.2 := by omega
      simp [hne, List.getElem?_append_left this]
    · simp [readList]

abbrev View := List (Key × List Handler)
def keysV (v : View) : List V := v.map fun kh => encKey kh.1
def valsV (enc : Handler → V) (v : View) : List V := v.map fun kh => .list (kh.2.map enc)

theorem encView_eq (enc : Handler → V) (v : View) : encView enc v = .dict (keysV v) (valsV enc v) := rfl

theorem keyEq_enc (k k' : Key) : keyEq (encKey k) (encKey k') = (k == k') := by
  cases k <;> cases k' <;> simp [keyEq, PyU.eq, encKey]

theorem hashable_encKey (k : Key) : hashable (encKey k) = true := by cases k <;> rfl

theorem findKey_enc (enc : Handler → V) (v : View) (k : Key) :
    findKey (encKey k) (keysV v) (valsV enc v) = (v.lookup k).map fun hs => .list (hs.map enc) := by
  induction v with
  | nil => rfl
  | cons p rest ih =>
    obtain ⟨a, b⟩ := p
    simp only [keysV, valsV, List.map_cons, findKey, keyEq_enc, List.lookup_cons] at ih ⊢
    cases hk : k == a <;> simp [ih]

theorem setKey_enc (enc : Handler → V) (k : Key) (h : Handler) (v : View) (hs : List Handler) (hl : v.lookup k = some hs) :
    setKey (encKey k) (.list (hs.map enc ++ [enc h])) (keysV v) (valsV enc v) = valsV enc (updFirst k h v) ∧
    keysV (updFirst k h v) = keysV v := by
  induction v with
  | nil => simp [List.lookup] at hl
  | cons p rest ih =>
    obtain ⟨a, b⟩ := p
    simp only [List.lookup_cons] at hl
    simp only [keysV, valsV, List.map_cons, setKey, keyEq_enc, updFirst] at ih ⊢
    by_cases hk : a = k
    · subst hk
      simp only [beq_self_eq_true] at hl
      injection hl with hl; subst hl
      simp
    · have hk' : (k == a) = false := by simpa using fun e => hk e.symm
      simp only [hk'] at hl
      obtain ⟨i1, i2⟩ := ih hl
      simp only [hk', Bool.false_eq_true, if_false, hk, List.map_cons, i1, i2, and_self]

theorem updFirst_fresh (k : Key) (h : Handler) (v : View) (hl : v.lookup k = none) :
    updFirst k h (v ++ [(k, [])]) = v ++ [(k, [h])] := by
  induction v with
  | nil => simp [updFirst]
  | cons p rest ih =>
    obtain ⟨a, b⟩ := p
    simp only [List.lookup_cons] at hl
    by_cases hk : a = k
    · subst hk; simp at hl
    · have hk' : (k == a) = false := by simpa using fun e => hk e.symm
      simp only [hk'] at hl
      simp only [List.cons_append, updFirst, hk, if_false, ih hl]

theorem getAttr_client (enc : Handler → V) (c : Client) :
    PyU.getAttr (encClient enc c) "task_map" = .ok (encView enc c.view) := rfl

theorem setAttr_view (d d' : V) :
    PyU.setAttr (.inst Gen.PyClient.HttpBeaconClientCls [d]) "task_map" d' = .ok (.inst Gen.PyClient.HttpBeaconClientCls [d']) := rfl

theorem getAttr_view (d : V) : PyU.getAttr (.inst Gen.PyClient.HttpBeaconClientCls [d]) "task_map" = .ok d := rfl

theorem gen_register_task_view (enc : Handler → V) (v : View) (k : Key) (h : Handler) :
    Gen.PyClient.register_task (.inst Gen.PyClient.HttpBeaconClientCls [encView enc v]) (encKey k) (enc h)
      = .ok (.inst Gen.PyClient.HttpBeaconClientCls [encView enc (regView v k h)]) := by
  unfold Gen.PyClient.register_task
  simp only [getAttr_view, PyRt.ok_bind, encView_eq, PyU.contains, hashable_encKey, if_true, findKey_enc, regView]
  cases hl : v.lookup k with
  | none =>
    simp only [Option.map_none, Option.isSome_none, Bool.not_false, if_true, PyU.setItem, hashable_encKey, dictInsert, findKey_enc, hl,
      setAttr_view, PyRt.ok_bind, getAttr_view, PyU.getItem]
    have e1 : keysV v ++ [encKey k] = keysV (v ++ [(k, [])]) := by simp [keysV]
    have e2 : valsV enc v ++ [V.list []] = valsV enc (v ++ [(k, [])]) := by simp [valsV]
    have hl2 : (v ++ [(k, ([] : List Handler))]).lookup k = some [] := by
      rw [lookup_append_single, hl]; simp
    rw [e1, e2, findKey_enc, hl2]
    simp only [Option.map_some, List.map_nil, PyU.append, List.nil_append, PyRt.ok_bind, findKey_enc, hl2]
    obtain ⟨i1, i2⟩ := setKey_enc enc k h (v ++ [(k, [])]) [] hl2
    simp only [List.map_nil, List.nil_append] at i1
    rw [i1, pure_ok, updFirst_fresh k h v hl]
    simp [keysV]
  | some hs =>
    simp only [Option.map_some, Option.isSome_some, Bool.not_true, Bool.false_eq_true, if_false, PyU.getItem, hashable_encKey, if_true,
      findKey_enc, hl, PyU.append, PyRt.ok_bind, PyU.setItem, dictInsert, setAttr_view, pure_ok]
    obtain ⟨i1, i2⟩ := setKey_enc enc k h v hs hl
    rw [i1, i2]

/-! ### command names -/

/-- the member table of the translated unit (read from the class `BeaconCommand`) is the table of `tools/gen/commands.py` -/
theorem table_eq : Gen.Commands.commandNames = Gen.PyClient.BeaconCommand.members.map (fun m => ((m.1 : Int), cps m.2)) := by
  simp only [Gen.PyClient.BeaconCommand, List.map_cons, List.map_nil, cps, String.toList_ofList]
  decide +kernel

theorem names_ascii0 : ∀ p ∈ Gen.Commands.commandNames, p.2.all (· < 128) = true := by
  decide +kernel

theorem mem_removeAllAux (pat : Txt) (k : Nat) (s : Txt) : ∀ x ∈ removeAllAux pat k s, x ∈ s := by
  induction s generalizing k with
  | nil => cases k <;> simp [removeAllAux]
  | cons c cs ih =>
    cases k with
    | succ k =>
      intro x hx
      simp only [removeAllAux] at hx
      exact List.mem_cons_of_mem _ (ih k x hx)
    | zero =>
      intro x hx
      simp only [removeAllAux] at hx
      split at hx
      · exact List.mem_cons_of_mem _ (ih _ x hx)
      · rcases List.mem_cons.1 hx with e | hx
        · subst e; exact List.mem_cons_self
        · exact List.mem_cons_of_mem _ (ih 0 x hx)

theorem names_ascii : ∀ p ∈ Gen.Commands.commandNames, (removeAll txtCOMMAND_ p.2).all (· < 128) = true := by
  intro p hp
  have h := names_ascii0 p hp
  rw [List.all_eq_true] at h ⊢
  intro x hx
  exact h x (mem_removeAllAux _ _ _ x hx)

theorem lookup_members (ms : List (Nat × String)) (id : Int) :
    (ms.map (fun m => ((m.1 : Int), cps m.2))).lookup id
      = if 0 ≤ id then (ms.find? (·.1 == id.toNat)).map (fun m => cps m.2) else none := by
  induction ms with
  | nil => simp
  | cons m rest ih =>
    simp only [List.map_cons, List.lookup_cons, List.find?_cons, ih]
    by_cases h0 : 0 ≤ id
    · simp only [h0, if_true]
      by_cases he : m.1 = id.toNat
      · have : (id == (m.1 : Int)) = true := by simp; omega
        have h2 : (m.1 == id.toNat) = true := by simpa using he
        simp only [this, h2, Option.map_some]
      · have : (id == (m.1 : Int)) = false := by simp; omega
        have h2 : (m.1 == id.toNat) = false := by simpa using he
        simp only [this, h2]
    · have : (id == (m.1 : Int)) = false := by simp; omega
      simp [this, h0]

theorem natDigits_core (fuel n : Nat) (ds : List Char) :
    (Nat.toDigitsCore 10 fuel n ds).map Char.toNat = natDigitsAux fuel n (ds.map Char.toNat) := by
  induction fuel generalizing n ds with
  | zero => rfl
  | succ f ih =>
    have hd : (Nat.digitChar (n % 10)).toNat = 48 + n % 10 := by
      have : n % 10 < 10 := Nat.mod_lt _ (by decide)
      generalize n % 10 = d at this
      match d, this with
      | 0, _ | 1, _ | 2, _ | 3, _ | 4, _ | 5, _ | 6, _ | 7, _ | 8, _ | 9, _ => rfl
    simp only [Nat.toDigitsCore, natDigitsAux]
    by_cases h : n / 10 = 0
    · simp [h, hd]
    · simp only [h, if_false, ih, List.map_cons, hd]

theorem decStr_eq (n : Int) : decStr n = intDecimal n := by
  cases n with
  | ofNat n =>
    have : ¬ (Int.ofNat n < 0) := Int.not_lt.2 (Int.natCast_nonneg n)
    simp only [decStr, this, if_false, intDecimal, natDigits, Nat.toDigits]
    show List.map Char.toNat (Nat.toDigitsCore 10 (n + 1) n []) = _
    exact natDigits_core (n + 1) n []
  | negSucc n =>
    have : Int.negSucc n < 0 := Int.negSucc_lt_zero n
    simp only [decStr, this, if_true, intDecimal, natDigits, Nat.toDigits]
    congr 1
    exact natDigits_core _ _ []

/-- the `command_name` of `get_handlers` (without the prefix `on_`) -/
def nameOf : Key → Txt
  | none => txtEmptyTask
  | some id =>
    match commandName id with
    | none => txtUnknown_ ++ intDecimal id
    | some n => if id ≠ 0 then lowerAscii (removeAll txtCOMMAND_ n) else txtEmptyTask

theorem methodName_eq (k : Key) : methodName k = txtOn_ ++ nameOf k := by
  cases k with
  | none => rfl
  | some id =>
    simp only [methodName, nameOf]
    cases commandName id with
    | none => simp
    | some n => by_cases h : id = 0 <;> simp [h]

theorem removeAll_eq (pat : Txt) (hp : pat ≠ []) (k : Nat) (s : Txt) : replaceGo pat [] s k = removeAllAux pat k s := by
  induction s generalizing k with
  | nil => cases k <;> rfl
  | cons c cs ih =>
    cases k with
    | succ k => simp only [replaceGo, removeAllAux, ih]
    | zero =>
      simp only [replaceGo, removeAllAux, hp, ne_eq, not_false_eq_true, true_and, List.nil_append, ih]

theorem cps_command : cps "COMMAND_" = txtCOMMAND_ := by decide
theorem cps_unknown : cps "unknown_" = txtUnknown_ := by decide
theorem cps_empty_task : cps "empty_task" = txtEmptyTask := by decide
theorem cps_on : cps "on_" = txtOn_ := by decide
theorem cps_on_catch_all : cps "on_catch_all" = txtOnCatchAll := by decide

theorem strReplace_command (n : Txt) :
    strReplace (.str n) (lit "COMMAND_") (lit "") = .ok (.str (removeAll txtCOMMAND_ n)) := by
  have e : (cps "" : Txt) = [] := by decide
  have hne : txtCOMMAND_ ≠ [] := by decide
  have hie : txtCOMMAND_.isEmpty = false := by decide
  simp only [strReplace, lit, cps_command, e, replaceL, hie, Bool.false_eq_true, if_false, removeAll_eq _ hne, removeAll]

theorem lower_ascii (t : Txt) (h : t.all (· < 128) = true) : PyU.lower (.str t) = .ok (.str (lowerAscii t)) := by
  simp only [PyU.lower, h, if_true]; rfl

/-- the `try` statement of `get_handlers` -/
theorem gen_get_handlers_name (id : Int) :
    (tryCatch
        (do
          let t1 ← intEnumCall Gen.PyClient.BeaconCommand (V.int id)
          if truthy t1 = true then do
              let t5 ← getAttr t1 "name"
              let t6 ← strReplace t5 (lit "COMMAND_") (lit "")
              let t7 ← lower t6
              (pure () : StateT V Py Unit) t7
            else (pure () : StateT V Py Unit) (lit "empty_task"))
        fun exc0 =>
        if exc0 = PyExc.valueError then do
          let t9 ← fmt (V.int id) ""
          (pure () : StateT V Py Unit) (V.str (cps "unknown_" ++ t9))
        else do
          let __r ← (throw exc0 : Py Unit)
          (pure __r : StateT V Py Unit) V.none : Py (Unit × V)) = .ok ((), .str (nameOf (some id))) := by
  have hl := lookup_members Gen.PyClient.BeaconCommand.members id
  rw [← table_eq] at hl
  simp only [nameOf, commandName, hl]
  by_cases h0 : 0 ≤ id
  · simp only [h0, if_true]
    cases hf : Gen.PyClient.BeaconCommand.members.find? (·.1 == id.toNat) with
    | none =>
      simp only [intEnumCall, asInt, h0, hf, Option.isSome_none, Bool.false_eq_true, and_false, if_false, Option.map_none,
        PyRt.error_bind, tryCatch_error, if_true, fmt, decStr_eq, PyRt.ok_bind, pure_ok, st_pure, cps_unknown]
      rfl
    | some m =>
      have hmem : ((id, cps m.2) : Int × Txt) ∈ Gen.Commands.commandNames := by
        apply lookup_mem
        rw [hl, if_pos h0, hf]; rfl
      have hasc := names_ascii _ hmem
      simp only [intEnumCall, asInt, h0, hf, Option.isSome_some, and_self, if_true, Option.map_some, PyRt.ok_bind, truthy]
      by_cases hz : id = 0
      · subst hz
        simp [tryCatch_ok, pure_ok, st_pure, lit, cps_empty_task]
      · have hz' : (id != 0) = true := by simpa using hz
        have hneg : ¬ id < 0 := by omega
        simp only [hz', if_true, getAttr, hneg, if_false, hf, lit, PyRt.ok_bind]
        have e1 : ("name" == "name") = true := by decide
        simp only [e1, if_true, PyRt.ok_bind]
        have e2 := strReplace_command (cps m.2)
        simp only [lit] at e2
        simp only [e2, PyRt.ok_bind, lower_ascii _ hasc, pure_ok, st_pure, tryCatch_ok, ne_eq, hz, not_false_eq_true, if_true]
  · simp only [h0, if_false]
    have hn : ¬ (0 ≤ id ∧ (Gen.PyClient.BeaconCommand.members.find? (·.1 == id.toNat)).isSome = true) := fun h => h0 h.1
    simp only [intEnumCall, asInt, hn, if_false, PyRt.error_bind, tryCatch_error, if_true, fmt, decStr_eq, PyRt.ok_bind, pure_ok, st_pure, cps_unknown]
    rfl

/-! ### get_handlers -/


theorem stored_view (c : Client) (k : Key) : stored c k = (c.view.lookup k).getD [] := by
  rw [view_lookup]
  unfold stored
  cases c.lookupKey k <;> rfl

theorem dictGet_view (enc : Handler → V) (c : Client) (k : Key) :
    dictGet (encView enc c.view) (encKey k) (.list []) = .ok (.list ((stored c k).map enc)) := by
  simp only [dictGet, encView_eq, hashable_encKey, if_true, findKey_enc, stored_view]
  cases c.view.lookup k <;> rfl

theorem fmt_str (t : Txt) : fmt (.str t) "" = .ok t := rfl

/-- the value of `getattr(self, name, None)` -/
def encO (enc : Handler → V) : Option Handler → V
  | some h => enc h
  | none => .none

theorem truthy_encO (enc : Handler → V) (henc : ∀ h, truthy (enc h) = h.truthy) (o : Option Handler) :
    truthy (encO enc o) = !(truthyAttr o).isEmpty := by
  cases o with
  | none => rfl
  | some h => simp only [encO, henc, truthyAttr]; cases h.truthy <;> rfl

theorem append_encO (enc : Handler → V) (xs : List Handler) (o : Option Handler) (ht : truthy (encO enc o) = true)
    (henc : ∀ h, truthy (enc h) = h.truthy) :
    PyU.append (.list (xs.map enc)) (encO enc o) = .ok (.list ((xs ++ truthyAttr o).map enc)) := by
  cases o with
  | none => simp [encO, truthy] at ht
  | some h =>
    simp only [encO, henc] at ht
    simp [PyU.append, encO, truthyAttr, ht]

theorem getattrX_str (enc : Handler → V) (c : Client) (s : V) (n : Txt) :
    getattrX enc c s (.str n) .none = .ok (encO enc (c.getattr n)) := by
  simp only [getattrX]; cases c.getattr n <;> rfl

theorem listOf_list (xs : List V) : listOf (.list xs) = .ok (.list xs) := rfl

theorem truthy_list_map (enc : Handler → V) (xs : List Handler) : truthy (.list (xs.map enc)) = !xs.isEmpty := by
  cases xs <;> rfl

/-- everything behind the computation of `command_name` -/
theorem gen_get_handlers_tail (enc : Handler → V) (henc : ∀ h, truthy (enc h) = h.truthy) (c : Client) (k : Key) (name : Txt) :
    (do
      let t11 ← getattrX enc c (encClient enc c) (V.str (cps "on_" ++ name)) V.none
      let t12 ← getAttr (encClient enc c) "task_map"
      let t13 ← dictGet t12 (encKey k) (V.list [])
      let t14 ← listOf t13
      if truthy t11 = true then do
          let t15 ← append t14 t11
          if (!truthy t15) = true then do
              let t16 ← getAttr (encClient enc c) "task_map"
              let t17 ← dictGet t16 (V.int (-1)) (V.list [])
              let t18 ← listOf t17
              let t19 ← getattrX enc c (encClient enc c) (lit "on_catch_all") V.none
              if truthy t19 = true then do
                  let t20 ← append t18 t19
                  pure t20
                else pure t18
            else pure t15
        else
          if (!truthy t14) = true then do
            let t16 ← getAttr (encClient enc c) "task_map"
            let t17 ← dictGet t16 (V.int (-1)) (V.list [])
            let t18 ← listOf t17
            let t19 ← getattrX enc c (encClient enc c) (lit "on_catch_all") V.none
            if truthy t19 = true then do
                let t20 ← append t18 t19
                pure t20
              else pure t18
          else pure t14 : Py V) = .ok (.list ((specListC c k (txtOn_ ++ name)).map enc)) := by
  have hm1 : (V.int (-1)) = encKey (some (-1)) := rfl
  have hcatch : (do
            let t16 ← getAttr (encClient enc c) "task_map"
            let t17 ← dictGet t16 (V.int (-1)) (V.list [])
            let t18 ← listOf t17
            let t19 ← getattrX enc c (encClient enc c) (lit "on_catch_all") V.none
            if truthy t19 = true then do
                let t20 ← append t18 t19
                pure t20
              else pure t18 : Py V) = .ok (.list ((stored c (some (-1)) ++ truthyAttr (c.getattr txtOnCatchAll)).map enc)) := by
    simp only [getAttr_client, PyRt.ok_bind, hm1, dictGet_view, listOf_list, lit, cps_on_catch_all, getattrX_str]
    by_cases ht : truthy (encO enc (c.getattr txtOnCatchAll)) = true
    · simp only [ht, if_true, append_encO enc _ _ ht henc, PyRt.ok_bind, pure_ok]
    · have : truthyAttr (c.getattr txtOnCatchAll) = [] := by
        rw [truthy_encO enc henc] at ht
        simpa using ht
      simp only [ht, Bool.false_eq_true, if_false, this, List.append_nil, pure_ok]
  rw [hcatch]
  simp only [cps_on, getattrX_str, PyRt.ok_bind, getAttr_client, dictGet_view, listOf_list, specListC]
  by_cases ht : truthy (encO enc (c.getattr (txtOn_ ++ name))) = true
  · simp only [ht, if_true, append_encO enc _ _ ht henc, PyRt.ok_bind, truthy_list_map]
    by_cases he : (stored c k ++ truthyAttr (c.getattr (txtOn_ ++ name))).isEmpty = true
    · simp only [he, Bool.not_true, Bool.not_false, if_true]
    · simp only [he, Bool.not_false, Bool.not_true, Bool.false_eq_true, if_false, pure_ok]
  · have hnil : truthyAttr (c.getattr (txtOn_ ++ name)) = [] := by
      rw [truthy_encO enc henc] at ht
      simpa using ht
    simp only [ht, Bool.false_eq_true, if_false, hnil, List.append_nil, truthy_list_map]
    by_cases he : (stored c k).isEmpty = true
    · simp only [he, Bool.not_true, Bool.not_false, if_true]
    · simp only [he, Bool.not_false, Bool.not_true, Bool.false_eq_true, if_false, pure_ok]

theorem gen_get_handlers_proof (enc : Handler → V) (henc : ∀ h, truthy (enc h) = h.truthy) (c : Client) (k : Key) :
    Gen.PyClient.get_handlers (getattrX enc c) (encClient enc c) (encKey k)
      = .ok (.list ((specListC c k (methodName k)).map enc)) := by
  have hn1 : PyU.isNone (encKey none) = true := rfl
  have hn2 (id : Int) : PyU.isNone (encKey (some id)) = false := rfl
  have hfl : fmt (lit "empty_task") "" = .ok txtEmptyTask := by rw [← cps_empty_task]; rfl
  unfold Gen.PyClient.get_handlers
  cases k with
  | none =>
    simp only [hn1, Bool.not_true, Bool.false_eq_true, if_false, hfl, PyRt.ok_bind, bind_pure, methodName_eq, nameOf]
    exact gen_get_handlers_tail enc henc c none txtEmptyTask
  | some id =>
    have e : encKey (some id) = .int id := rfl
    simp only [hn2, Bool.not_false, if_true, methodName_eq]
    rw [e, gen_get_handlers_name]
    simp only [PyRt.ok_bind, fmt_str, bind_pure]
    exact gen_get_handlers_tail enc henc c (some id) (nameOf (some id))

/-! ### register_task, the decorators -/

theorem gen_register_task_proof (enc : Handler → V) (c : Client) (hw : WF c) (k : Key) (h : Handler) :
    Gen.PyClient.register_task (encClient enc c) (encKey k) (enc h) = .ok (encClient enc (c.registerTask k h)) := by
  simp only [encClient, gen_register_task_view, view_registerTask c hw]

theorem gen_handle_decorator_proof (enc : Handler → V) (c : Client) (hw : WF c) (a : CmdArg) (h : Handler) :
    Gen.PyClient.handle_decorator (encClient enc c) (encArg a) (enc h)
      = (handleKey a).map fun k => .tuple [enc h, encClient enc (c.registerTask k h)] := by
  unfold Gen.PyClient.handle_decorator
  cases a with
  | none =>
    have e : encArg .none = encKey none := rfl
    simp only [e, handleKey]
    have t : truthy (encKey none) = false := rfl
    simp only [t, Bool.false_and, Bool.false_eq_true, if_false, gen_register_task_proof enc c hw, PyRt.ok_bind, pure_ok, Except.map]
  | int n =>
    have e : encArg (.int n) = encKey (some n) := rfl
    have t : isInstance (encKey (some n)) [Ty.int] = true := rfl
    simp only [e, handleKey, t, Bool.not_true, Bool.and_false, Bool.false_eq_true, if_false, gen_register_task_proof enc c hw,
      PyRt.ok_bind, pure_ok, Except.map]
  | valueObj v =>
    have t1 : truthy (encArg (.valueObj v)) = true := rfl
    have t2 : isInstance (encArg (.valueObj v)) [Ty.int] = false := rfl
    have t3 : getAttr (encArg (.valueObj v)) "value" = .ok (encKey v) := rfl
    simp only [handleKey, t1, t2, t3, Bool.not_false, Bool.and_self, if_true, gen_register_task_proof enc c hw,
      PyRt.ok_bind, pure_ok, Except.map]
  | plainObj =>
    have t1 : truthy (encArg .plainObj) = true := by decide
    have t2 : isInstance (encArg .plainObj) [Ty.int] = false := rfl
    have t3 : getAttr (encArg .plainObj) "value" = .error .attributeError := rfl
    simp only [handleKey, t1, t2, t3, Bool.not_false, Bool.and_self, if_true, PyRt.error_bind, Except.map]

theorem gen_catch_all_decorator_proof (enc : Handler → V) (c : Client) (hw : WF c) (h : Handler) :
    Gen.PyClient.catch_all_decorator (encClient enc c) (enc h)
      = .ok (.tuple [enc h, encClient enc (c.registerTask (some (-1)) h)]) := by
  unfold Gen.PyClient.catch_all_decorator
  have e : (V.int (-1)) = encKey (some (-1)) := rfl
  simp only [e, gen_register_task_proof enc c hw, PyRt.ok_bind, pure_ok]

/-! ### dispatch -/

theorem gen_dispatch_loop (enc : Handler → V) (g : V → V → V → Py V) (callableX : V → Py V) (invokeX : V → V → Py V) (task : V)
    (hc : ∀ h, callableX (enc h) = .ok (.bool h.callable))
    (hi : ∀ h, h.callable = true → invokeX (enc h) task = .ok (encEvents (invokeOne h)))
    (hs : List Handler) (acc : List V) :
    forList (hs.map enc) (Gen.PyClient.dispatch_loop1 g callableX invokeX task) (.list acc)
      = .ok (.list (acc ++ (hs.filter (·.callable)).map fun h => encEvents (invokeOne h))) := by
  induction hs generalizing acc with
  | nil => simp [forList]
  | cons h rest ih =>
    simp only [List.map_cons, forList, Gen.PyClient.dispatch_loop1, hc, PyRt.ok_bind, truthy]
    by_cases hcl : h.callable = true
    · simp only [hcl, if_true, hi h hcl, PyRt.ok_bind, PyU.append, pure_ok, ih, List.filter_cons, List.map_cons, List.append_assoc,
        List.singleton_append]
    · have : h.callable = false := by simpa using hcl
      simp only [this, Bool.false_eq_true, if_false, pure_ok, ih, List.filter_cons]

theorem gen_dispatch_proof (enc : Handler → V) (henc : ∀ h, truthy (enc h) = h.truthy) (callableX : V → Py V) (invokeX : V → V → Py V)
    (c : Client) (t : Option Int)
    (hc : ∀ h, callableX (enc h) = .ok (.bool h.callable))
    (hi : ∀ h, h.callable = true → invokeX (enc h) (encTask t) = .ok (encEvents (invokeOne h))) :
    Gen.PyClient.dispatch (getattrX enc c) callableX invokeX (encClient enc c) (encTask t)
      = .ok (.list (((specListC c t (methodName t)).filter (·.callable)).map fun h => encEvents (invokeOne h))) := by
  unfold Gen.PyClient.dispatch
  cases t with
  | none =>
    have t0 : truthy (encTask none) = false := rfl
    have e : V.none = encKey none := rfl
    simp only [t0, Bool.false_eq_true, if_false, PyRt.ok_bind, pure_ok]
    rw [e, gen_get_handlers_proof enc henc]
    simp only [PyRt.ok_bind, iterList, gen_dispatch_loop enc _ callableX invokeX _ hc hi, List.nil_append, pure_ok]
  | some v =>
    have t0 : truthy (encTask (some v)) = true := rfl
    have t1 : getAttr (encTask (some v)) "command" = .ok (.inst CommandCls [.int v]) := rfl
    have t2 : getAttr (.inst CommandCls [.int v]) "value" = .ok (encKey (some v)) := rfl
    simp only [t0, if_true, t1, t2, PyRt.ok_bind, pure_ok, gen_get_handlers_proof enc henc, iterList,
      gen_dispatch_loop enc _ callableX invokeX _ hc hi, List.nil_append]

/-! ### registration scripts -/

theorem encClient_attrs (enc : Handler → V) (c : Client) (ia ca : List (Txt × Handler)) :
    encClient enc { c with iattrs := ia, cattrs := ca } = encClient enc c := rfl

theorem gen_applyReg_proof (enc : Handler → V) (c : Client) (hw : WF c) (r : Reg) :
    applyRegG enc (encClient enc c) r = (applyReg c r).map (encClient enc) := by
  cases r with
  | handle a h =>
    simp only [applyRegG, gen_handle_decorator_proof enc c hw, applyReg]
    cases handleKey a <;> rfl
  | register k h => simp only [applyRegG, gen_register_task_proof enc c hw, applyReg, Except.map]
  | catchAll h => simp only [applyRegG, gen_catch_all_decorator_proof enc c hw, applyReg, Except.map]; rfl
  | instAttr n h => rfl
  | classAttr n h => rfl

theorem applyReg_wf (c c' : Client) (hw : WF c) (r : Reg) (h : applyReg c r = .ok c') : WF c' := by
  have := (next_spec c hw r).1
  simpa [C19.next, h] using this

theorem gen_applyRegs_proof (enc : Handler → V) (regs : List Reg) : ∀ (c : Client), WF c →
    applyRegsG enc (encClient enc c) regs = (encClient enc (applyRegs c regs).1, (applyRegs c regs).2) := by
  induction regs with
  | nil => intro c _; rfl
  | cons r rs ih =>
    intro c hw
    simp only [applyRegsG, applyRegs, gen_applyReg_proof enc c hw]
    cases h : applyReg c r with
    | error e => simp only [Except.map, ih c hw]
    | ok c1 => simp only [Except.map, ih c1 (applyReg_wf c c1 hw r h)]

theorem newClientG_eq (enc : Handler → V) : newClientG = encClient enc {} := rfl

/-! ### events -/

theorem invoke_filter (hs : List Handler) : invoke hs = (hs.filter (·.callable)).flatMap invokeOne := by
  induction hs with
  | nil => rfl
  | cons h rest ih =>
    simp only [invoke, List.flatMap_cons, List.filter_cons] at ih ⊢
    by_cases hc : h.callable = true
    · simp only [hc, if_true, List.flatMap_cons, ih]
    · have : h.callable = false := by simpa using hc
      simp only [this, Bool.false_eq_true, if_false, ih, invokeOne, List.nil_append]

theorem flattenEvents_map (hs : List Handler) :
    flattenEvents (.list (hs.map fun h => encEvents (invokeOne h))) = some ((hs.flatMap invokeOne).map encEvent) := by
  simp only [flattenEvents]
  induction hs with
  | nil => rfl
  | cons h rest ih =>
    simp only [encEvents] at ih
    simp only [List.map_cons, List.foldr_cons, encEvents, List.flatMap_cons, List.map_append, ih]

theorem specListC_build (regs : List Reg) (k : Key) : specListC (build regs) k (methodName k) = specHandlers regs k := by
  obtain ⟨_, h2, h3⟩ := build_spec regs
  simp only [specListC, specHandlers, h2, h3]

end C19Gen

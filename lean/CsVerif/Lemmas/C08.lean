import CsVerif.Model.C08
import CsVerif.Props.C15
import CsVerif.Props.C09
import CsVerif.Props.C18
import CsVerif.Props.C02
import CsVerif.Props.C17
import CsVerif.Props.C16
import CsVerif.Props.C01
namespace C08

/-! ### (1) PE helpers -/
section pe
open Gen.PeStruct C18

/-- a hit of the scan loop: the loop body accepted at that offset -/
theorem firstHit_some {α} (classify : Int → Option α) (d : Bytes) (start maxrange : Nat) :
    ∀ (offs : List Nat) (o : Nat) (a : α), firstHit classify d start maxrange offs = some (o, a) →
      ∃ m, machineAt d o maxrange = some m := by
  intro offs
  induction offs with
  | nil => intro o a h; simp [firstHit] at h
  | cons off rest ih =>
    intro o a h
    unfold firstHit at h
    split at h
    · rename_i a' hb
      injection h with h
      have ho : start + off = o := congrArg Prod.fst h
      subst ho
      cases hm : machineAt d (start + off) maxrange with
      | none => rw [hm] at hb; simp at hb
      | some m => exact ⟨m, rfl⟩
    · exact ih o a h

/-- what `machineAt` accepting at `o` says about the bytes at `o` -/
theorem machineAt_some (d : Bytes) (o maxrange : Nat) (m : Int) (h : machineAt d o maxrange = some m) :
    ∃ mz, sliceOpt d o dosHeaderSize = some mz ∧ 0 < fieldVal mz dosLfanew ∧ fieldVal mz dosLfanew < (maxrange : Int) := by
  unfold machineAt at h
  split at h
  · cases h
  · rename_i mz hmz
    simp only at h
    split at h
    · rename_i hc
      exact ⟨mz, hmz, hc.1, hc.2⟩
    · cases h

/-- `find_mz_offset` returning an offset: an IMAGE_DOS_HEADER with `0 < e_lfanew < maxrange` is readable there;
the file object changed only its position. -/
theorem findMz_some (f : PyFile) (start : Option Nat) (maxrange : Nat) (o : Nat) (f1 : PyFile)
    (h : findMzOffset f start maxrange = (some o, f1)) :
    f1.data = f.data ∧ f1.kind = f.kind ∧
    ∃ mz, sliceOpt f.data o dosHeaderSize = some mz ∧ 0 < fieldVal mz dosLfanew ∧ fieldVal mz dosLfanew < (maxrange : Int) := by
  obtain ⟨s1, s2, s3⟩ := scanLoop_spec classifyMz (startOf f start) maxrange (List.range maxrange) f
  unfold findMzOffset at h
  rcases hr : scanLoop classifyMz (startOf f start) maxrange (List.range maxrange) f with ⟨r, f'⟩
  rw [hr] at h s1 s2 s3
  simp only at s1 s2 s3
  cases r with
  | none => simp at h
  | some p =>
    obtain ⟨o', u⟩ := p
    simp only [Prod.mk.injEq, Option.some.injEq] at h
    obtain ⟨ho, hf⟩ := h
    subst ho hf
    refine ⟨s2, s3, ?_⟩
    obtain ⟨m, hm⟩ := firstHit_some classifyMz f.data _ maxrange _ o' u s1.symm
    exact machineAt_some _ _ _ _ hm

theorem findMz_none_or_some (f : PyFile) (start : Option Nat) (maxrange : Nat) :
    (findMzOffset f start maxrange).2.data = f.data ∧ (findMzOffset f start maxrange).2.kind = f.kind := by
  obtain ⟨_, s2, s3⟩ := scanLoop_spec classifyMz (startOf f start) maxrange (List.range maxrange) f
  unfold findMzOffset
  rcases hr : scanLoop classifyMz (startOf f start) maxrange (List.range maxrange) f with ⟨r, f'⟩
  rw [hr] at s2 s3
  cases r with
  | none => exact ⟨s2, s3⟩
  | some p => exact ⟨s2, s3⟩

theorem seekSet_ok_of_nonneg (f : PyFile) (x : Int) (h : 0 ≤ x) : ∃ v f', f.seekSet x = .ok (v, f') ∧ f'.data = f.data ∧ f'.kind = f.kind := by
  unfold PyFile.seekSet
  rw [if_neg (by omega)]
  exact ⟨_, _, rfl, rfl, rfl⟩

theorem readStruct_at (f : PyFile) (o n : Nat) : (readStruct (seekNat f o) n).1 = sliceOpt f.data o n := by
  rw [readStruct_fst]; rfl

theorem unsigned_nonneg (buf : Bytes) (fld : Field) (h : fld.signed = false) : 0 ≤ fieldVal buf fld :=
  leNat_nonneg_field buf fld h

/-- the `try` block of `find_compile_stamps` cannot raise once `mz_offset` points at a DOS header with `e_lfanew > 0`:
`mz.e_lfanew + mz_offset` is positive and the export directory offset is a sum of non-negative terms -/
theorem compileStampsAt_ok (f : PyFile) (o : Nat) (mz : Bytes) (hmz : sliceOpt f.data o dosHeaderSize = some mz)
    (hpos : 0 < fieldVal mz dosLfanew) : ∃ r, (compileStampsAt f o).1 = .ok r := by
  unfold compileStampsAt
  dsimp only
  have h1 : (readStruct (seekNat f o) dosHeaderSize).1 = some mz := by rw [readStruct_at]; exact hmz
  rcases hr : readStruct (seekNat f o) dosHeaderSize with ⟨r1, f2⟩
  rw [hr] at h1
  simp only at h1
  subst h1
  simp only
  obtain ⟨v, f3, hs, _, _⟩ := seekSet_ok_of_nonneg f2 (fieldVal mz dosLfanew + (o : Int)) (by omega)
  rw [hs]
  simp only
  split
  · exact ⟨_, rfl⟩
  · split
    · exact ⟨_, rfl⟩
    · split
      · exact ⟨_, rfl⟩
      · split
        · exact ⟨_, rfl⟩
        · split
          · exact ⟨_, rfl⟩
          · rename_i ds hds
            have hc := List.find?_some hds
            simp only [sectionContains, decide_eq_true_eq] at hc
            rename_i opt _ _ _ _ _ _ _
            have hp : 0 ≤ fieldVal ds secPointerToRawData := unsigned_nonneg _ _ rfl
            split
            · rename_i e he
              exfalso
              unfold PyFile.seekSet at he
              rw [if_neg (by omega)] at he
              cases he
            · split <;> exact ⟨_, rfl⟩

/-- `find_magic_pe` after a successful `find_mz_offset`: the struct read succeeds again, the seek is positive -/
theorem magicPeAt_ok (f : PyFile) (o : Nat) (mz : Bytes) (hmz : sliceOpt f.data o dosHeaderSize = some mz)
    (hpos : 0 < fieldVal mz dosLfanew) : ∃ r, (magicPeAt f o).1 = .ok r := by
  unfold magicPeAt
  have h1 : (readStruct (seekNat f o) dosHeaderSize).1 = some mz := by rw [readStruct_at]; exact hmz
  rcases hr : readStruct (seekNat f o) dosHeaderSize with ⟨r1, f2⟩
  rw [hr] at h1
  simp only at h1
  subst h1
  simp only
  obtain ⟨v, f3, hs, _, _⟩ := seekSet_ok_of_nonneg f2 (fieldVal mz dosLfanew + (o : Int)) (by omega)
  rw [hs]
  exact ⟨_, rfl⟩

theorem totalSize_nonneg (opt : Bytes) (is64 : Bool) (secs : List Bytes) : 0 ≤ totalSize opt is64 secs := by
  unfold totalSize
  apply foldl_rawsize_nonneg
  exact leNat_nonneg_field _ _ (optSize_fields is64).2.2.2

theorem seekSet_total (f : PyFile) (o : Nat) (opt : Bytes) (b : Bool) (secs : List Bytes) :
    f.seekSet ((o : Int) + totalSize opt b secs) =
      .ok (((o : Int) + totalSize opt b secs).toNat, { f with pos := ((o : Int) + totalSize opt b secs).toNat }) := by
  have := totalSize_nonneg opt b secs
  unfold PyFile.seekSet
  rw [if_neg (by omega)]

theorem prependAppendAt_ok (f : PyFile) (o : Nat) (mz : Bytes) (hmz : sliceOpt f.data o dosHeaderSize = some mz)
    (hpos : 0 < fieldVal mz dosLfanew) : ∃ r, (prependAppendAt f o).1 = .ok r := by
  unfold prependAppendAt
  dsimp only
  have hd : (if o > 0 then (some ((seekNat f 0).read (o : Int)).1, ((seekNat f 0).read (o : Int)).2) else (none, f)).2.data = f.data := by
    split <;> rfl
  generalize (if o > 0 then (some ((seekNat f 0).read (o : Int)).1, ((seekNat f 0).read (o : Int)).2) else (none, f)) = pf at hd
  have h1 : (readStruct (seekNat pf.2 o) dosHeaderSize).1 = some mz := by rw [readStruct_at, hd]; exact hmz
  rcases hr : readStruct (seekNat pf.2 o) dosHeaderSize with ⟨r1, f2⟩
  rw [hr] at h1
  simp only at h1
  subst h1
  simp only
  obtain ⟨v, f3, hs, _, _⟩ := seekSet_ok_of_nonneg f2 (fieldVal mz dosLfanew + (o : Int) + 4) (by omega)
  rw [hs]
  simp only
  split
  · exact ⟨_, rfl⟩
  · split
    · split
      · exact ⟨_, rfl⟩
      · split
        · exact ⟨_, rfl⟩
        · rw [seekSet_total]
          simp only
          split <;> exact ⟨_, rfl⟩
    · exact ⟨_, rfl⟩

end pe

/-! ### (2) the XorEncoded detector -/
section detect
open C09

/-- at or beyond the end of the raw data a view read returns `b""` -/
theorem read_at_eof (x : XorFile) (n : Option Int) (h : x.fh.data.length ≤ x.fh.pos) (out : Bytes) (x' : XorFile)
    (hr : read x n = .ok (out, x')) : out = [] := by
  rw [read_unfold] at hr
  by_cases h0 : normN n = 0
  · rw [if_pos h0] at hr
    injection hr with hr
    exact (congrArg Prod.fst hr).symm
  · rw [if_neg h0] at hr
    obtain ⟨nonce, hn⟩ := readNonce_restores x
    rw [hn] at hr
    simp only [readLoop_at_eof _ _ _ _ h] at hr
    split at hr
    · injection hr with hr
      exact (congrArg Prod.fst hr).symm
    · split at hr
      · rename_i hgt
        simp only [List.length_nil] at hgt
        have := normN_cases n
        omega
      · injection hr with hr
        have := (congrArg Prod.fst hr).symm
        simpa using this

/-- an accepting iteration of `find_mz_offset` on a view has read 64 bytes behind the raw offset `nonce_offset + 8` -/
theorem mzStep_some_bound (x : XorFile) (start maxrange offset : Nat) (r : Nat) (x' : XorFile)
    (h : mzStep x start maxrange offset = .ok (some r, x')) : x.nonceOff + 8 < x.fh.data.length := by
  unfold mzStep at h
  rw [seek_set_nonneg x _ (by omega)] at h
  dsimp only at h
  obtain ⟨hdr, q1, h1⟩ := read_total (x.withPos ((((start + offset : Nat) : Int) + x.nonceOff + 8).toNat)) (some 64)
  rw [h1] at h
  dsimp only at h
  apply Classical.byContradiction
  intro hlt
  have hnil := read_at_eof (x.withPos ((((start + offset : Nat) : Int) + x.nonceOff + 8).toNat)) (some 64)
    (by simp only [XorFile.withPos]; omega) hdr _ h1
  subst hnil
  rw [if_pos (show ([] : Bytes).length < 64 from by decide)] at h
  injection h with h
  injection h with h _
  cases h

theorem mzLoop_some_bound (start maxrange : Nat) (k : Nat) : ∀ (offset : Nat) (x : XorFile) (r : Nat) (x' : XorFile),
    mzLoop start maxrange k offset x = .ok (some r, x') → x.nonceOff + 8 < x.fh.data.length := by
  induction k with
  | zero =>
    intro offset x r x' h
    have h0 : mzLoop start maxrange 0 offset x = .ok (none, x) := rfl
    rw [h0] at h
    injection h with h
    injection h with h _
    cases h
  | succ k ih =>
    intro offset x r x' h
    rw [mzLoop_succ] at h
    obtain ⟨r1, q, h1⟩ := mzStep_total x start maxrange offset
    rw [h1] at h
    cases r1 with
    | some v => exact mzStep_some_bound x start maxrange offset v _ h1
    | none =>
      have := ih (offset + 1) (x.withPos q) r x' h
      simpa [XorFile.withPos] using this

theorem findMzOffset_some_bound (x : XorFile) (start maxrange : Nat) (r : Nat) (x' : XorFile)
    (h : findMzOffset x start maxrange = .ok (some r, x')) : x.nonceOff + 8 < x.fh.data.length :=
  mzLoop_some_bound start maxrange maxrange 0 x r x' h

attribute [local irreducible] C09.mzLoop

theorem tryCands_cons (g : PyFile) (c : Nat) (cs : List Nat) :
    C01.tryCands g (c :: cs) =
      match mk' g c with
      | .error e => .error e
      | .ok xf =>
        match findMzOffset xf 0 1024 with
        | .error e => .error e
        | .ok (some _, xf1) =>
          match seek xf1 0 0 with
          | .error e => .error e
          | .ok (_, xf') => .ok (some xf', xf'.fh)
        | .ok (none, xf1) => C01.tryCands xf1.fh cs := by rfl

/-- the candidate loop of `XorEncodedFile.from_file` never raises; a returned view has its nonce and size dwords
inside the data -/
theorem tryCands_ok : ∀ (cs : List Nat) (g : PyFile),
    ∃ r g', C01.tryCands g cs = .ok (r, g') ∧ g'.data = g.data ∧ g'.kind = g.kind ∧
      ∀ xf, r = some xf → xf.nonceOff + 8 ≤ g.data.length := by
  intro cs
  induction cs with
  | nil => intro g; exact ⟨none, g, rfl, rfl, rfl, fun _ h => by cases h⟩
  | cons c cs ih =>
    intro g
    obtain ⟨x0, hx0, hn0, hd0, hk0⟩ := mk'_ok g c
    obtain ⟨r, q, hr⟩ := findMzOffset_total x0 0 1024
    rw [tryCands_cons]
    simp only [hx0, hr]
    cases r with
    | some v =>
      simp only [seek0_ok]
      refine ⟨_, _, rfl, ?_, ?_, ?_⟩
      · simp only [XorFile.withPos]; exact hd0
      · simp only [XorFile.withPos]; exact hk0
      · intro xf hxf
        injection hxf with hxf
        subst hxf
        have := findMzOffset_some_bound x0 0 1024 v _ hr
        simp only [XorFile.withPos]
        rw [← hd0]
        omega
    | none =>
      simp only
      obtain ⟨r', g', h', hd', hk', hb'⟩ := ih (x0.withPos q).fh
      refine ⟨r', g', h', ?_, ?_, ?_⟩
      · rw [hd']; simp only [XorFile.withPos]; exact hd0
      · rw [hk']; simp only [XorFile.withPos]; exact hk0
      · intro xf hxf
        have := hb' xf hxf
        simp only [XorFile.withPos] at this
        rw [← hd0]; exact this

theorem needleLoop_frame (B : Nat) (needle : Bytes) (m : Nat) (f : PyFile) (saved : Bytes) :
    (C15.needleLoop B needle m f saved).2.data = f.data ∧ (C15.needleLoop B needle m f saved).2.kind = f.kind := by
  fun_induction C15.needleLoop B needle m f saved with
  | case1 => exact ⟨rfl, rfl⟩
  | case2 => exact ⟨rfl, rfl⟩
  | case3 f saved _ _ _ _ _ _ rest ih =>
    exact ⟨ih.1, ih.2⟩

/-- `XorEncodedFile.from_file` (as composed in `C01.detectRun`) never raises anything: the only exception of the real
function is the explicit `ValueError` (`none` here) -/
theorem detectRun_ok (B : Nat) (f : PyFile) :
    ∃ r f', C01.detectRun B f = .ok (r, f') ∧ f'.data = f.data ∧ f'.kind = f.kind ∧
      ∀ xf, r = some xf → xf.nonceOff + 8 ≤ f.data.length := by
  obtain ⟨l, f1, hl, hd1, hk1⟩ := iterNonceOffsets_ok f 1024
  unfold C01.detectRun
  simp only [hl, C15.iterFindNeedle]
  obtain ⟨hd2, hk2⟩ := needleLoop_frame B [0xff, 0xff, 0xff] 1024 { f1 with pos := 0 } []
  obtain ⟨r, g', h, hd, hk, hb⟩ := tryCands_ok
    (candidates ((C15.needleLoop B [0xff, 0xff, 0xff] 1024 { f1 with pos := 0 } []).1.map Int.toNat) l)
    (C15.needleLoop B [0xff, 0xff, 0xff] 1024 { f1 with pos := 0 } []).2
  refine ⟨r, g', h, ?_, ?_, ?_⟩
  · rw [hd, hd2]; exact hd1
  · rw [hk, hk2]; exact hk1
  · intro xf hxf
    have := hb xf hxf
    rw [hd2] at this
    simpa [hd1] using this

/-- … strictly: the MZ check of the returned view has read payload bytes behind the two dwords -/
theorem tryCands_some_lt : ∀ (cs : List Nat) (g : PyFile) (xf : XorFile) (g' : PyFile),
    C01.tryCands g cs = .ok (some xf, g') → xf.nonceOff + 8 < g.data.length := by
  intro cs
  induction cs with
  | nil =>
    intro g xf g' h
    have h0 : C01.tryCands g [] = .ok (none, g) := rfl
    rw [h0] at h
    injection h with h
    injection h with h _
    cases h
  | cons c cs ih =>
    intro g xf g' h
    obtain ⟨x0, hx0, hn0, hd0, hk0⟩ := mk'_ok g c
    obtain ⟨r, q, hr⟩ := findMzOffset_total x0 0 1024
    rw [tryCands_cons] at h
    simp only [hx0, hr] at h
    cases r with
    | some v =>
      simp only [seek0_ok] at h
      injection h with h
      have h1 := congrArg Prod.fst h
      simp only [Option.some.injEq] at h1
      subst h1
      have := findMzOffset_some_bound x0 0 1024 v _ hr
      simp only [XorFile.withPos]
      rw [← hd0]
      exact this
    | none =>
      simp only at h
      have := ih (x0.withPos q).fh xf g' h
      simp only [XorFile.withPos] at this
      rw [← hd0]; exact this

theorem detectRun_some_lt (B : Nat) (f : PyFile) (xf : XorFile) (f' : PyFile)
    (h : C01.detectRun B f = .ok (some xf, f')) : xf.nonceOff + 8 < f.data.length := by
  obtain ⟨l, f1, hl, hd1, hk1⟩ := iterNonceOffsets_ok f 1024
  unfold C01.detectRun at h
  have hs : f1.seekSet 0 = .ok (0, { f1 with pos := 0 }) := by simp [PyFile.seekSet]
  simp only [hl, C15.iterFindNeedle, hs] at h
  obtain ⟨hd2, _⟩ := needleLoop_frame B [0xff, 0xff, 0xff] 1024 { f1 with pos := 0 } []
  have := tryCands_some_lt _ _ xf f' h
  rw [hd2] at this
  simpa [hd1] using this

end detect

/-! ### (3) the block search -/

/-- the 4-gram counting loop of the all-keys retry (`iter(partial(fxor.read, B), b"")`) reaches `b""`: every file-like
object that behaves as an ordinary file (the file itself; the XorEncoded view, by C09's refinement) makes progress on
every non-empty chunk, so the divergence guard of `C01.countLoop` never fires and nothing is raised -/
theorem countLoop_ok {σ : Type} {F : C01.FileLike σ} {abs : σ → PyFile → Prop} (hS : C01.Sim F abs) (B : Nat) :
    ∀ (n : Nat) (s : σ) (pf : PyFile) (acc : List (Nat × Nat)), abs s pf → pf.data.length - pf.pos ≤ n →
      ∃ r, C01.countLoop F B s acc = .ok r := by
  intro n
  induction n with
  | zero =>
    intro s pf acc ha hn
    obtain ⟨s', hr, _⟩ := hS.read s pf B ha
    have hnil : (pf.read (B : Int)).1 = [] := by
      rw [PyFile.read_nonneg]
      have : pf.data.drop pf.pos = [] := List.drop_eq_nil_iff.mpr (by omega)
      rw [this]; exact List.take_nil
    rw [C01.countLoop, hr]
    simp only [hnil, if_true]
    exact ⟨_, rfl⟩
  | succ n ih =>
    intro s pf acc ha hn
    obtain ⟨s', hr, ha'⟩ := hS.read s pf B ha
    rw [C01.countLoop, hr]
    simp only
    by_cases hnil : (pf.read (B : Int)).1 = []
    · rw [if_pos hnil]; exact ⟨_, rfl⟩
    · rw [if_neg hnil]
      have hp := C15.read_progress pf B hnil
      have hrem : F.remaining s' < F.remaining s := by
        rw [hS.remaining s' _ ha', hS.remaining s pf ha]; exact hp
      rw [dif_pos hrem]
      exact ih s' _ _ ha' (by omega)

theorem leftKeys_ok (B : Nat) (f : PyFile) (det : Option Nat) (hdet : ∀ c, det = some c → c + 8 ≤ f.data.length)
    (failPos : Nat) (ks : List Bytes) : ∃ left, C01.leftKeys B f det failPos ks = .ok left := by
  unfold C01.leftKeys C01.leftCounts
  cases det with
  | none =>
    obtain ⟨r, hr⟩ := countLoop_ok C01.sim_raw B _ ({ f with pos := failPos } : PyFile) _ [] rfl (Nat.le_refl _)
    simp only [hr]
    exact ⟨_, rfl⟩
  | some c =>
    obtain ⟨x, hx, hA⟩ := C01.openView_spec f c (hdet c rfl)
    obtain ⟨r, hr⟩ := countLoop_ok (C01.sim_xor _ _ _ _) B _ x _ [] hA (Nat.le_refl _)
    simp only [hx, hr]
    exact ⟨_, rfl⟩

/-- the search for the first configuration block never raises -/
theorem search_ok (B : Nat) (hB : 1 ≤ B) (f : PyFile) (ks : List Bytes) (allKeys : Bool) (det : Option Nat)
    (hdet : ∀ c, det = some c → c + 8 ≤ f.data.length) (failPos : Nat) :
    ∃ r, search B f ks allKeys det failPos = .ok r := by
  unfold search
  obtain ⟨_, p2⟩ := C01.pass_spec B hB f (C01.effKeys ks) det hdet
  generalize C01.pass B f (C01.effKeys ks) true det = first at p2
  obtain ⟨ys, e⟩ := first
  cases ys with
  | cons y ys' => exact ⟨_, rfl⟩
  | nil =>
    have he := p2 rfl
    simp only at he
    subst he
    simp only
    cases allKeys with
    | false => exact ⟨_, rfl⟩
    | true =>
      simp only [if_true]
      obtain ⟨left, hl⟩ := leftKeys_ok B f det hdet failPos ks
      rw [hl]
      simp only
      obtain ⟨_, q2⟩ := C01.pass_spec B hB f (C01.effKeys left) det hdet
      generalize C01.pass B f (C01.effKeys left) true det = second at q2
      obtain ⟨ys2, e2⟩ := second
      cases ys2 with
      | cons y ys' => exact ⟨_, rfl⟩
      | nil =>
        have he2 := q2 rfl
        simp only at he2
        subst he2
        exact ⟨_, rfl⟩


/-! ### (4) assembly -/
section assembly
open C18

theorem findCompileStamps_ok (f : PyFile) (start : Option Nat) (maxrange : Nat) :
    ∃ r, (findCompileStamps f start maxrange).1 = .ok r := by
  unfold findCompileStamps
  rcases h : findMzOffset f start maxrange with ⟨r, f1⟩
  cases r with
  | none => exact ⟨_, rfl⟩
  | some o =>
    obtain ⟨hd, _, mz, hmz, hpos, _⟩ := findMz_some f start maxrange o f1 h
    exact compileStampsAt_ok f1 o mz (by rw [hd]; exact hmz) hpos

theorem findMagicPe_ok (f : PyFile) (start : Option Nat) (maxrange : Nat) :
    ∃ r, (findMagicPe f start maxrange).1 = .ok r := by
  unfold findMagicPe
  rcases h : findMzOffset f start maxrange with ⟨r, f1⟩
  cases r with
  | none => exact ⟨_, rfl⟩
  | some o =>
    obtain ⟨hd, _, mz, hmz, hpos, _⟩ := findMz_some f start maxrange o f1 h
    exact magicPeAt_ok f1 o mz (by rw [hd]; exact hmz) hpos

theorem findStagePrependAppend_ok (f : PyFile) (start : Option Nat) (maxrange : Nat) :
    ∃ r, (findStagePrependAppend f start maxrange).1 = .ok r := by
  unfold findStagePrependAppend
  rcases h : findMzOffset f start maxrange with ⟨r, f1⟩
  cases r with
  | none => exact ⟨_, rfl⟩
  | some o =>
    obtain ⟨hd, _, mz, hmz, hpos, _⟩ := findMz_some f start maxrange o f1 h
    exact prependAppendAt_ok f1 o mz (by rw [hd]; exact hmz) hpos

theorem peArtifacts_ok (fh : PyFile) : ∃ r, peArtifacts fh = .ok r := by
  unfold peArtifacts
  obtain ⟨r, hr⟩ := findCompileStamps_ok fh (some 0) MAXRANGE
  rcases h : findCompileStamps fh (some 0) MAXRANGE with ⟨r1, f1⟩
  rw [h] at hr
  simp only at hr
  subst hr
  exact ⟨_, rfl⟩

/-- constructing the `BeaconConfig` and attaching the PE artifacts never raises -/
theorem finish_ok (guard : Bool) (xorkey : Bytes) (xorenc : Bool) (block : Bytes) (fh : PyFile) :
    ∃ r, finish guard xorkey xorenc block fh = .ok r := by
  unfold finish
  rw [C02.iterSettingsE_eq]
  obtain ⟨r, hr⟩ := peArtifacts_ok fh
  rw [hr]
  exact ⟨_, rfl⟩

/-- `from_file` raises nothing but ValueError -/
theorem fromFile_error (B : Nat) (hB : 1 ≤ B) (f : PyFile) (ks : List Bytes) (allKeys : Bool) (e : PyExc)
    (h : fromFile B f ks allKeys = .error e) : e = .valueError := by
  unfold fromFile at h
  obtain ⟨dx, fFail, hdet, _, _, hb⟩ := detectRun_ok B f
  rw [hdet] at h
  simp only at h
  have hdetOk : ∀ c, dx.map (·.nonceOff) = some c → c + 8 ≤ f.data.length := by
    intro c hc
    cases dx with
    | none => cases hc
    | some xf =>
      simp only [Option.map_some, Option.some.injEq] at hc
      subst hc
      exact hb xf rfl
  obtain ⟨r, hr⟩ := search_ok B hB f ks allKeys (dx.map (·.nonceOff)) hdetOk fFail.pos
  rw [hr] at h
  cases r with
  | some y =>
    simp only at h
    obtain ⟨x, hx⟩ := finish_ok false y.xorkey y.xorencoded y.block
      (if y.xorencoded = true then fhFor f (dx.map (·.nonceOff)) else f)
    rw [hx] at h
    cases h
  | none =>
    simp only at h
    cases hf : C17.fromFileFallback (fhFor f (dx.map (·.nonceOff))) B with
    | error e' =>
      rw [hf] at h
      simp only at h
      injection h with h
      rw [← h]
      exact C17.fallback_errors_only_valueError _ _ _ hf
    | ok m =>
      rw [hf] at h
      simp only at h
      cases hu : m.unmaskedBeaconConfig with
      | none =>
        rw [hu] at h
        simp only at h
        injection h with h
        exact h.symm
      | some cfg =>
        rw [hu] at h
        simp only at h
        obtain ⟨x, hx⟩ := finish_ok true m.beaconXorKey false cfg (fhFor f (dx.map (·.nonceOff)))
        rw [hx] at h
        cases h

theorem xorEncodedFromFile_error (B : Nat) (f : PyFile) (e : PyExc) (h : xorEncodedFromFile B f = .error e) :
    e = .valueError := by
  unfold xorEncodedFromFile at h
  obtain ⟨dx, fFail, hdet, _⟩ := detectRun_ok B f
  rw [hdet] at h
  cases dx with
  | none => simp only at h; injection h with h; exact h.symm
  | some x => simp only at h; cases h

end assembly

/-! ### (5) the documented not-found values -/
section notfound
open Gen.PeStruct C18

theorem firstHit_none {α} (classify : Int → Option α) (d : Bytes) (start maxrange : Nat) :
    ∀ (l : List Nat), (∀ o ∈ l, (machineAt d (start + o) maxrange).bind classify = none) →
      firstHit classify d start maxrange l = none := by
  intro l
  induction l with
  | nil => intro _; rfl
  | cons o os ih =>
    intro hl
    unfold firstHit
    rw [hl o (by simp)]
    exact ih (fun x hx => hl x (by simp [hx]))

theorem findArchitecture_none (f : PyFile) (start maxrange : Nat)
    (h : NoEarlierCandidate f.data start maxrange maxrange) : (findArchitecture f (some start) maxrange).1 = none := by
  obtain ⟨s1, _, _⟩ := scanLoop_spec classifyArch start maxrange (List.range maxrange) f
  rw [firstHit_none classifyArch f.data start maxrange _
    (fun o ho => noEarlier_arch h o (List.mem_range.mp ho))] at s1
  unfold findArchitecture startOf
  simp only
  rcases hr : scanLoop classifyArch start maxrange (List.range maxrange) f with ⟨r, f1⟩
  rw [hr] at s1
  simp only at s1
  subst s1
  rfl

end notfound

/-! ### (6) `find_stage_prepend_append` on a file object with a largest seekable offset -/
section limit
open Gen.PeStruct C18

theorem seekL_le (L : Nat) (f : PyFile) (off : Int) (h : off ≤ (L : Int)) : seekL L f off = f.seekSet off := by
  unfold seekL
  rw [if_neg]
  omega

theorem seekL_gt (L : Nat) (f : PyFile) (off : Int) (h : (L : Int) < off) :
    ∃ e, seekL L f off = .error e ∧ seekCaught e = true := by
  unfold seekL
  rw [if_pos h]
  cases f.kind
  · exact ⟨_, rfl, rfl⟩
  · exact ⟨_, rfl, rfl⟩

/-- every exception a limited seek can raise is in the `except (OSError, OverflowError, ValueError)` clause -/
theorem seekL_errors_caught (L : Nat) (f : PyFile) (off : Int) (e : PyExc) (h : seekL L f off = .error e) :
    seekCaught e = true := by
  by_cases hgt : (L : Int) < off
  · obtain ⟨e', he', hc⟩ := seekL_gt L f off hgt
    rw [he'] at h
    injection h with h
    rw [← h]; exact hc
  · rw [seekL_le L f off (by omega)] at h
    unfold PyFile.seekSet at h
    split at h
    · injection h with h
      rw [← h]
      unfold PyFile.negSeekExc
      cases f.kind <;> rfl
    · cases h

/-- the guarded final seek: whatever the file object's `seek` raises out of {OSError, OverflowError, ValueError} is
turned into `(prepend, None)`; nothing else can be raised once `mz_offset` points at a DOS header with `e_lfanew > 0` -/
theorem prependAppendAtG_ok (sk : PyFile → Int → Py (Nat × PyFile)) (f : PyFile) (o : Nat) (mz : Bytes)
    (hmz : sliceOpt f.data o dosHeaderSize = some mz) (hpos : 0 < fieldVal mz dosLfanew)
    (hsk : ∀ (g : PyFile) (t : Int) (e : PyExc), sk g t = .error e → seekCaught e = true) :
    ∃ r, (prependAppendAtG true sk f o).1 = .ok r := by
  unfold prependAppendAtG
  dsimp only
  have hd : (if o > 0 then (some ((seekNat f 0).read (o : Int)).1, ((seekNat f 0).read (o : Int)).2) else (none, f)).2.data = f.data := by
    split <;> rfl
  generalize (if o > 0 then (some ((seekNat f 0).read (o : Int)).1, ((seekNat f 0).read (o : Int)).2) else (none, f)) = pf at hd
  have h1 : (readStruct (seekNat pf.2 o) dosHeaderSize).1 = some mz := by rw [readStruct_at, hd]; exact hmz
  rcases hr : readStruct (seekNat pf.2 o) dosHeaderSize with ⟨r1, f2⟩
  rw [hr] at h1
  simp only at h1
  subst h1
  simp only
  obtain ⟨v, f3, hs, _, _⟩ := seekSet_ok_of_nonneg f2 (fieldVal mz dosLfanew + (o : Int) + 4) (by omega)
  rw [hs]
  simp only
  split
  · exact ⟨_, rfl⟩
  · split
    · split
      · exact ⟨_, rfl⟩
      · split
        · exact ⟨_, rfl⟩
        · split
          · rename_i e he
            rw [hsk _ _ e he]
            exact ⟨_, rfl⟩
          · split <;> exact ⟨_, rfl⟩
    · exact ⟨_, rfl⟩

/-- the current `find_stage_prepend_append` on ANY file object whose `seek` raises nothing outside
{OSError, OverflowError, ValueError} -/
theorem findStagePrependAppendG_ok (sk : PyFile → Int → Py (Nat × PyFile)) (f : PyFile)
    (hsk : ∀ (g : PyFile) (t : Int) (e : PyExc), sk g t = .error e → seekCaught e = true) :
    ∃ r, peFindStagePrependAppendG true sk f = .ok r := by
  unfold peFindStagePrependAppendG
  rcases hm : findMzOffset f (some 0) MAXRANGE with ⟨r, f1⟩
  cases r with
  | none => exact ⟨_, rfl⟩
  | some o =>
    obtain ⟨hd, hk, mz, hmz, hpos, _⟩ := findMz_some f (some 0) MAXRANGE o f1 hm
    exact prependAppendAtG_ok sk f1 o mz (by rw [hd]; exact hmz) hpos hsk

theorem findStagePrependAppendL_ok (L : Nat) (f : PyFile) : ∃ r, peFindStagePrependAppendL L f = .ok r :=
  findStagePrependAppendG_ok (seekL L) f (fun g t e h => seekL_errors_caught L g t e h)

/-- with a seek that accepts every non-negative offset the `try/except` is dead code: guarded and unguarded variant are
both the C18 model -/
theorem prependAppendAtG_seekSet (guarded : Bool) (f : PyFile) (o : Nat) :
    prependAppendAtG guarded PyFile.seekSet f o = C18.prependAppendAt f o := by
  unfold prependAppendAtG C18.prependAppendAt
  dsimp only
  generalize (if o > 0 then (some ((seekNat f 0).read (o : Int)).1, ((seekNat f 0).read (o : Int)).2) else (none, f)) = pf
  rcases readStruct (seekNat pf.2 o) dosHeaderSize with ⟨r1, f2⟩
  cases r1 with
  | none => rfl
  | some mz =>
    simp only
    cases f2.seekSet (fieldVal mz dosLfanew + (o : Int) + 4) with
    | error e => rfl
    | ok vf3 =>
      obtain ⟨v, f3⟩ := vf3
      simp only
      rcases readStruct f3 fileHeaderSize with ⟨r4, f4⟩
      cases r4 with
      | none => rfl
      | some img =>
        simp only
        split
        · rcases readStruct f4 (optSize (decide (fieldVal img fhMachine = (machineAmd64 : Int)))) with ⟨r5, f5⟩
          cases r5 with
          | none => rfl
          | some opt =>
            simp only
            rcases readSections (fieldVal img fhNumberOfSections).toNat f5 with ⟨r6, f6⟩
            cases r6 with
            | none => rfl
            | some secs =>
              simp only
              rw [seekSet_total]
        · rfl

theorem readSections_frame : ∀ (n : Nat) (g : PyFile),
    (readSections n g).2.data = g.data ∧ (readSections n g).2.kind = g.kind := by
  intro n
  induction n with
  | zero => intro g; exact ⟨rfl, rfl⟩
  | succ n ih =>
    intro g
    unfold readSections
    obtain ⟨hd, hk⟩ := readStruct_data g sectionSize
    rcases hr : readStruct g sectionSize with ⟨r1, g1⟩
    rw [hr] at hd hk
    simp only at hd hk
    cases r1 with
    | none => exact ⟨hd, hk⟩
    | some s =>
      simp only
      obtain ⟨i1, i2⟩ := ih g1
      rcases hr2 : readSections n g1 with ⟨r2, g2⟩
      rw [hr2] at i1 i2
      simp only at i1 i2
      cases r2 with
      | none => exact ⟨by rw [i1, hd], by rw [i2, hk]⟩
      | some ss => exact ⟨by rw [i1, hd], by rw [i2, hk]⟩

/-- the result of the current code does not depend on the limit of the file object, as long as the file itself fits
below it: a rejected seek and an accepted seek beyond the end of the data both give `(prepend, None)` -/
theorem prependAppendAtG_limit_irrelevant (L : Nat) (f : PyFile) (o : Nat) (hL : f.data.length ≤ L) :
    (prependAppendAtG true (seekL L) f o).1 = (prependAppendAtG true PyFile.seekSet f o).1 := by
  unfold prependAppendAtG
  dsimp only
  have hd : (if o > 0 then (some ((seekNat f 0).read (o : Int)).1, ((seekNat f 0).read (o : Int)).2) else (none, f)).2.data = f.data := by
    split <;> rfl
  generalize (if o > 0 then (some ((seekNat f 0).read (o : Int)).1, ((seekNat f 0).read (o : Int)).2) else (none, f)) = pf at hd
  obtain ⟨hd2, _⟩ := readStruct_data (seekNat pf.2 o) dosHeaderSize
  rcases hr : readStruct (seekNat pf.2 o) dosHeaderSize with ⟨r1, f2⟩
  rw [hr] at hd2
  simp only at hd2
  cases r1 with
  | none => rfl
  | some mz =>
    simp only
    cases hs : f2.seekSet (fieldVal mz dosLfanew + (o : Int) + 4) with
    | error e => rfl
    | ok vf3 =>
      obtain ⟨v, f3⟩ := vf3
      have hd3 : f3.data = f2.data := by
        unfold PyFile.seekSet at hs
        split at hs
        · cases hs
        · injection hs with hs
          rw [← (Prod.mk.inj hs).2]
      simp only
      obtain ⟨hd4, _⟩ := readStruct_data f3 fileHeaderSize
      rcases hr4 : readStruct f3 fileHeaderSize with ⟨r4, f4⟩
      rw [hr4] at hd4
      simp only at hd4
      cases r4 with
      | none => rfl
      | some img =>
        simp only
        split
        · obtain ⟨hd5, _⟩ := readStruct_data f4 (optSize (decide (fieldVal img fhMachine = (machineAmd64 : Int))))
          rcases hr5 : readStruct f4 (optSize (decide (fieldVal img fhMachine = (machineAmd64 : Int)))) with ⟨r5, f5⟩
          rw [hr5] at hd5
          simp only at hd5
          cases r5 with
          | none => rfl
          | some opt =>
            simp only
            obtain ⟨hd6, _⟩ := readSections_frame (fieldVal img fhNumberOfSections).toNat f5
            rcases hr6 : readSections (fieldVal img fhNumberOfSections).toNat f5 with ⟨r6, f6⟩
            rw [hr6] at hd6
            simp only at hd6
            cases r6 with
            | none => rfl
            | some secs =>
              simp only
              have hdata : f6.data = f.data := by rw [hd6, hd5, hd4, hd3, hd2]; exact hd
              have ht0 := totalSize_nonneg opt (decide (fieldVal img fhMachine = (machineAmd64 : Int))) secs
              by_cases hle : (o : Int) + totalSize opt (decide (fieldVal img fhMachine = (machineAmd64 : Int))) secs ≤ (L : Int)
              · rw [seekL_le L f6 _ hle]
              · obtain ⟨e, he, hc⟩ := seekL_gt L f6 ((o : Int) + totalSize opt (decide (fieldVal img fhMachine = (machineAmd64 : Int))) secs) (by omega)
                rw [he, seekSet_total]
                simp only [hc, Bool.and_self, if_true]
                have hemp : (({ f6 with pos := ((o : Int) + totalSize opt (decide (fieldVal img fhMachine = (machineAmd64 : Int))) secs).toNat } : PyFile).read 1024).1 = [] := by
                  rw [show ((1024 : Int)) = ((1024 : Nat) : Int) from rfl, PyFile.read_nonneg]
                  have : f6.data.drop ((o : Int) + totalSize opt (decide (fieldVal img fhMachine = (machineAmd64 : Int))) secs).toNat = [] := by
                    apply List.drop_eq_nil_iff.mpr
                    rw [hdata]; omega
                  simp only [this, List.take_nil]
                rw [hemp]
                rfl
        · rfl

theorem findStagePrependAppendL_eq (L : Nat) (f : PyFile) (hL : f.data.length ≤ L) :
    peFindStagePrependAppendL L f = peFindStagePrependAppend f := by
  unfold peFindStagePrependAppendL peFindStagePrependAppendG peFindStagePrependAppend findStagePrependAppend
  rcases hm : findMzOffset f (some 0) MAXRANGE with ⟨r, f1⟩
  cases r with
  | none => rfl
  | some o =>
    simp only
    obtain ⟨hd, _⟩ := findMz_none_or_some f (some 0) MAXRANGE
    rw [hm] at hd
    simp only at hd
    rw [prependAppendAtG_limit_irrelevant L f1 o (by rw [hd]; exact hL), prependAppendAtG_seekSet]

end limit

/-! ### (7) how many candidates the detector can try -/
section bounds
open C09

theorem counterAdd_length (c : List (Nat × Nat)) (k : Nat) : (counterAdd c k).length ≤ c.length + 1 := by
  induction c with
  | nil => simp [counterAdd]
  | cons p rest ih =>
    obtain ⟨k', n⟩ := p
    simp only [counterAdd]
    split
    · simp
    · simp only [List.length_cons]; omega

theorem foldl_counterAdd_length (xs : List Nat) (c : List (Nat × Nat)) :
    (xs.foldl counterAdd c).length ≤ c.length + xs.length := by
  induction xs generalizing c with
  | nil => simp
  | cons x xs ih =>
    simp only [List.foldl_cons, List.length_cons]
    have := ih (counterAdd c x)
    have := counterAdd_length c x
    omega

/-- the detector tries at most one candidate per marker hit and per size-consistent nonce offset -/
theorem candidates_length (hits offs : List Nat) : (candidates hits offs).length ≤ hits.length + offs.length := by
  unfold candidates
  rw [List.length_map, (mostCommon_perm _).length_eq]
  unfold counter
  have := foldl_counterAdd_length (hits.map (· + 3) ++ offs) []
  simpa using this

theorem nonceLoop_length (rs : Int) (k : Nat) : ∀ (i : Nat) (f : PyFile) (l : List Nat) (f' : PyFile),
    nonceLoop rs k i f = .ok (l, f') → l.length ≤ k := by
  induction k with
  | zero =>
    intro i f l f' h
    simp only [nonceLoop] at h
    injection h with h
    rw [← (Prod.mk.inj h).1]; simp
  | succ k ih =>
    intro i f l f' h
    simp only [nonceLoop, PyFile.seekSet_ok] at h
    split at h
    · injection h with h
      rw [← (Prod.mk.inj h).1]; simp
    · split at h
      · cases h
      · rename_i rest f'' hrec
        have := ih _ _ _ _ hrec
        split at h
        · injection h with h
          rw [← (Prod.mk.inj h).1]; simp; omega
        · injection h with h
          rw [← (Prod.mk.inj h).1]; omega

end bounds

end C08

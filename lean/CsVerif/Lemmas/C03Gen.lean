import CsVerif.Gen.PyBeacon
import CsVerif.Lemmas.C03
import CsVerif.Props.C20Gen
import Mathlib.Tactic.Ring
import Mathlib.Tactic.SplitIfs
/-! Helper lemmas for Props/C03Gen.lean: the operations of `PyU` (run-time library of the untyped translator) against the
primitives of the C03 model, and the translated functions of `Gen/PyBeacon.lean` against the model functions.
The encodings `enc*` of model results as `PyU.V` values are defined here; no property statements. -/
namespace C03Gen
open PyU
set_option linter.unusedSimpArgs false

/-! ### encodings of the model's result types as Python values -/

/-- `str` or `None` -/
def encOptStr : Option String → V
  | none => .none
  | some s => lit s

/-- second component of a `parse_transform_binary` item: `str` / `True` / `bytes` -/
def encTVal : C03.TVal → V
  | .str s => lit s
  | .flag => .bool true
  | .bytes b => .bytes b

/-- `(name, value)` of `parse_transform_binary` -/
def encTOut (o : C03.TOut) : V := .tuple [encOptStr o.1, encTVal o.2]

/-- second component of a `parse_recover_binary` item: `int` / `True` -/
def encRVal : C03.RVal → V
  | .len n => .int n
  | .flag => .bool true

/-- `(name, value)` of `parse_recover_binary` -/
def encROut (o : String × C03.RVal) : V := .tuple [lit o.1, encRVal o.2]

/-- an entry of `parse_execute_list`: `str` (code points) or `None` -/
def encEx : Option (List Nat) → V
  | none => .none
  | some cs => .str cs

/-- `(name, bytes)` of `parse_process_injection_transform_steps` -/
def encInj (o : String × Bytes) : V := .tuple [lit o.1, .bytes o.2]

/-- a latin-1 `str` (the model keeps it as bytes) -/
def encLatin (b : Bytes) : V := .str (b.map (·.toNat))

/-! ### monad plumbing -/

theorem pure_ok {α : Type} (a : α) : (pure a : Py α) = .ok a := rfl
theorem map_ok {α β : Type} (f : α → β) (a : α) : (f <$> (Except.ok a : Py α)) = .ok (f a) := rfl
theorem throw_err {α : Type} (e : PyExc) : (throw e : Py α) = .error e := rfl

/-! ### integers -/

theorem fromLE_eq_leNat (d : Bytes) : C20.fromLE d = C03.leNat d := by
  induction d with
  | nil => rfl
  | cons b bs ih => simp only [C20.fromLE, C03.leNat, ih]

theorem fromLE_append (xs ys : Bytes) : C20.fromLE (xs ++ ys) = C20.fromLE xs + 256 ^ xs.length * C20.fromLE ys := by
  induction xs with
  | nil => simp [C20.fromLE]
  | cons b bs ih =>
    simp only [List.cons_append, C20.fromLE, ih, List.length_cons]
    ring

theorem beNat_eq (d : Bytes) (acc : Nat) : C03.beNat d acc = acc * 256 ^ d.length + C20.fromLE d.reverse := by
  induction d generalizing acc with
  | nil => simp [C03.beNat, C20.fromLE]
  | cons b bs ih =>
    simp only [C03.beNat, ih, List.reverse_cons, fromLE_append, List.length_reverse, List.length_cons, C20.fromLE]
    ring

theorem u32_bytes (d : Bytes) : Gen.PyBeacon.u32 (.bytes d) = .ok (.int (C03.u32le d)) := by
  have := C20Gen.gen_u32 d .little false
  simp only [C20Gen.orderStr] at this
  simp only [Gen.PyBeacon.u32, liftBytesInt, this, Except.map]
  simp [C20.unpack, C20.fromBytes, C20.fromBytesU, pySliceTo, C03.u32le, fromLE_eq_leNat]

theorem u32be_bytes (d : Bytes) : Gen.PyBeacon.u32be (.bytes d) = .ok (.int (C03.u32be d)) := by
  simp only [Gen.PyBeacon.u32be, liftBytesInt, C20Gen.gen_u32be, Except.map]
  simp [C20.unpack, C20.fromBytes, C20.fromBytesU, pySliceTo, C03.u32be, beNat_eq]

theorem u16be_bytes (d : Bytes) : Gen.PyBeacon.u16be (.bytes d) = .ok (.int (C03.u16be d)) := by
  simp only [Gen.PyBeacon.u16be, liftBytesInt, C20Gen.gen_u16be, Except.map]
  simp [C20.unpack, C20.fromBytes, C20.fromBytesU, pySliceTo, C03.u16be, beNat_eq]

/-! ### io.BytesIO -/

/-- a `BytesIO` whose consumed prefix is `pre` and whose unread rest is `s` -/
def mk (pre s : Bytes) : V := .bytesIO (pre ++ s) pre.length

theorem newBytesIO_bytes (d : Bytes) : newBytesIO (.bytes d) = .ok (mk [] d) := rfl

/-- `p.read(k)` is the model's `rdInt` on the unread rest -/
theorem read_mk (pre s : Bytes) (k : Int) :
    PyU.read (mk pre s) (.int k) = .ok (.bytes (C03.rdInt k s).1, mk (pre ++ (C03.rdInt k s).1) (C03.rdInt k s).2) := by
  simp only [PyU.read, mk, asInt, C03.rdInt, List.drop_left]
  split
  · simp
  · simp [List.append_assoc]

theorem rdInt_nat (k : Nat) (s : Bytes) : C03.rdInt (k : Int) s = (s.take k, s.drop k) := by
  simp [C03.rdInt]

theorem rdInt1 (s : Bytes) : C03.rdInt 1 s = (s.take 1, s.drop 1) := rdInt_nat 1 s
theorem rdInt2 (s : Bytes) : C03.rdInt 2 s = (s.take 2, s.drop 2) := rdInt_nat 2 s
theorem rdInt4 (s : Bytes) : C03.rdInt 4 s = (s.take 4, s.drop 4) := rdInt_nat 4 s

/-! ### the loop-free functions -/

/-- `data.partition(b"\x00")[0]` -/
theorem splitAt_zero_fst (d : Bytes) :
    (match splitAt? [(0 : UInt8)] d with | some p => p.1 | none => d) = C03.nullTerminatedBytes d := by
  induction d with
  | nil => rfl
  | cons b bs ih =>
    by_cases hb : b = 0
    · subst hb; simp [splitAt?, List.isPrefixOf, C03.nullTerminatedBytes]
    · have h1 : ([(0 : UInt8)].isPrefixOf (b :: bs)) = false := by
        simp [List.isPrefixOf]; exact fun h => hb h.symm
      simp only [splitAt?, h1, Bool.false_eq_true, if_false, C03.nullTerminatedBytes] at ih ⊢
      rw [List.takeWhile_cons_of_pos (by simpa using hb), ← ih]
      cases splitAt? [(0 : UInt8)] bs <;> rfl

theorem null_terminated_bytes_eq (data : Bytes) :
    Gen.PyBeacon.null_terminated_bytes (.bytes data) = .ok (.bytes (C03.nullTerminatedBytes data)) := by
  simp only [Gen.PyBeacon.null_terminated_bytes, partition, List.isEmpty_cons, Bool.false_eq_true, if_false]
  rw [← splitAt_zero_fst]
  cases splitAt? [(0 : UInt8)] data <;> rfl

theorem null_terminated_str_eq (data : Bytes) :
    Gen.PyBeacon.null_terminated_str (.bytes data) = .ok (encLatin (C03.nullTerminatedStr data)) := by
  simp only [Gen.PyBeacon.null_terminated_str, null_terminated_bytes_eq, PyRt.ok_bind, decodeLatin1]
  rfl

theorem parse_pivot_frame_eq (data : Bytes) :
    Gen.PyBeacon.parse_pivot_frame (.bytes data) = .ok (.bytes (C03.parsePivot data)) := by
  simp only [Gen.PyBeacon.parse_pivot_frame, newBytesIO_bytes, PyRt.ok_bind, read_mk, rdInt2, u16be_bytes, PyU.sub, ints2, asInt,
    Except.map, C03.parsePivot, pure_ok]

theorem truthy_bytes (b : Bytes) : truthy (.bytes b) = !b.isEmpty := rfl

theorem append_list (l : List V) (x : V) : PyU.append (.list l) x = .ok (.list (l ++ [x])) := rfl

theorem isEmpty_false {α : Type} {l : List α} (h : ¬ l = []) : l.isEmpty = false := by
  cases l with
  | nil => exact absurd rfl h
  | cons _ _ => rfl

theorem parse_injt_eq (data : Bytes) :
    Gen.PyBeacon.parse_process_injection_transform_steps (.bytes data)
      = .ok (.list ((C03.parseInjTransform data).map encInj)) := by
  simp only [Gen.PyBeacon.parse_process_injection_transform_steps, newBytesIO_bytes, PyRt.ok_bind, read_mk, rdInt4, truthy_bytes,
    C03.parseInjTransform]
  by_cases h1 : List.take 4 data = []
  · have hd : data = [] := by simpa using h1
    subst hd
    simp [read_mk, rdInt4, truthy_bytes, pure_ok]
  · simp only [isEmpty_false h1, h1, Bool.not_false, if_true, u32be_bytes, PyRt.ok_bind, read_mk, rdInt_nat,
      append_list, List.nil_append, ne_eq, not_false_eq_true, rdInt4]
    by_cases h2 : List.take 4 (List.drop (C03.u32be (List.take 4 data)) (List.drop 4 data)) = []
    · simp only [truthy_bytes, h2, List.isEmpty_nil, Bool.not_true, Bool.false_eq_true, if_false, pure_ok, not_true_eq_false, List.append_nil,
        List.map_cons, List.map_nil, encInj]
    · simp only [truthy_bytes, isEmpty_false h2, h2, Bool.not_false, if_true, pure_ok, not_false_eq_true, u32be_bytes, PyRt.ok_bind, read_mk,
        rdInt_nat, append_list, List.map_cons, List.map_nil, encInj, List.cons_append, List.nil_append, List.map_append]

/-! ### strings -/

theorem cps_append (a b : String) : cps (a ++ b) = cps a ++ cps b := by
  simp [cps, String.toList_append]

theorem cps_ofList (l : List Char) : cps (String.ofList l) = l.map Char.toNat := by
  simp [cps]

theorem fmt_x_nat (n : Nat) : fmt (.int (n : Int)) "x" = .ok (cps (C03.hexStr n)) := by
  have h : ¬ ((n : Int) < 0) := by omega
  simp [fmt, hexStr, h, C03.hexStr, cps_ofList]

theorem eq_pair_zero (a b : Nat) :
    PyU.eq (.tuple [.int (a : Int), .int (b : Int)]) (.tuple [.int 0, .int 0]) = decide ((a, b) = (0, 0)) := by
  simp only [PyU.eq, eqL, Bool.and_true, Prod.mk.injEq]
  by_cases ha : a = 0 <;> by_cases hb : b = 0 <;> simp [ha, hb]

/-! ### parse_gargle -/

theorem gargle_loop (n : Nat) : ∀ (pre s : Bytes) (acc : List V) (fuel : Nat),
    s.length ≤ n → n < fuel →
    ∃ p', whileFuel fuel Gen.PyBeacon.parse_gargle_loop1 (.list acc, mk pre s)
      = .ok (.list (acc ++ (C03.parseGargle s).map lit), p') := by
  induction n with
  | zero =>
    intro pre s acc fuel h hf
    obtain ⟨f, rfl⟩ : ∃ f, fuel = f + 1 := ⟨fuel - 1, by omega⟩
    have hs : s = [] := List.eq_nil_of_length_eq_zero (by omega)
    subst hs
    simp [whileFuel, Gen.PyBeacon.parse_gargle_loop1, read_mk, rdInt4, truthy, pure_ok, C03.parseGargle, C03.parseGarglePairs]
  | succ n ih =>
    intro pre s acc fuel h hf
    obtain ⟨f, rfl⟩ : ∃ f, fuel = f + 1 := ⟨fuel - 1, by omega⟩
    by_cases hs : s = []
    · subst hs
      simp [whileFuel, Gen.PyBeacon.parse_gargle_loop1, read_mk, rdInt4, truthy, pure_ok, C03.parseGargle, C03.parseGarglePairs]
    · have h4 : ¬ (List.take 4 s) = [] := by simp [hs]
      have hlen : (List.drop 4 (List.drop 4 s)).length ≤ n := by
        have := List.length_pos_iff.mpr hs
        simp only [List.length_drop]; omega
      simp only [whileFuel, Gen.PyBeacon.parse_gargle_loop1, read_mk, rdInt4, PyRt.ok_bind, truthy_bytes, u32_bytes,
        isEmpty_false h4, Bool.not_false, Bool.not_true, Bool.false_eq_true, if_false, eq_pair_zero]
      rw [C03.parseGargle, C03.parseGarglePairs]
      simp only [h4, dite_false, ne_eq]
      by_cases hz : (C03.u32le (List.take 4 s), C03.u32le (List.take 4 (List.drop 4 s))) = (0, 0)
      · simp only [hz, decide_true, Bool.not_true, Bool.false_eq_true, if_false, pure_ok, not_true_eq_false]
        exact ih _ _ acc f hlen (by omega)
      · simp only [hz, decide_false, Bool.not_false, if_true, fmt_x_nat, PyRt.ok_bind, append_list, pure_ok,
          not_false_eq_true, List.map_cons]
        obtain ⟨p', hp'⟩ := ih (pre ++ List.take 4 s ++ List.take 4 (List.drop 4 s)) (List.drop 4 (List.drop 4 s))
          (acc ++ [lit (C03.fmtRange (C03.u32le (List.take 4 s), C03.u32le (List.take 4 (List.drop 4 s))))]) f hlen (by omega)
        refine ⟨p', ?_⟩
        rw [C03.parseGargle] at hp'
        simp only [List.append_assoc, List.cons_append, List.nil_append] at hp'
        rw [← hp']
        simp only [C03.fmtRange, lit, cps_append, List.append_assoc]

theorem parse_gargle_eq (fuel : Nat) (data : Bytes) (h : data.length < fuel) :
    Gen.PyBeacon.parse_gargle fuel (.bytes data) = .ok (.list ((C03.parseGargle data).map lit)) := by
  obtain ⟨p', hp'⟩ := gargle_loop data.length [] data [] fuel (Nat.le_refl _) h
  simp only [Gen.PyBeacon.parse_gargle, newBytesIO_bytes, PyRt.ok_bind, hp', pure_ok, List.nil_append]

/-! ### cstruct enums -/

theorem enumMember_ts (n : String) (v : Nat) (h : C03.tsv n = some v) :
    enumMember Gen.PyBeacon.TransformStep n = .ok (.enum Gen.PyBeacon.TransformStep v) := by
  simp only [C03.tsv, C03.enumVal] at h
  simp only [enumMember, Gen.PyBeacon.TransformStep]
  cases hf : List.find? (fun x => x.2 == n) Gen.Beacon.transformStep with
  | none => rw [hf] at h; simp at h
  | some m => rw [hf] at h; simp at h; simp [h]

theorem eq_int_enum (a : Int) (c : EnumCls) (b : Int) : PyU.eq (.int a) (.enum c b) = (a == b) := rfl

theorem int_beq_nat (a b : Nat) : ((a : Int) == (b : Int)) = (a == b) := by
  by_cases h : a = b
  · simp [h]
  · have : ¬ ((a : Int) = (b : Int)) := by omega
    simp [h, this]

theorem fmt_dec_int (n : Int) : fmt (.int n) "" = .ok (decStr n) := by simp [fmt]

/-! ### parse_recover_binary -/

theorem recover_loop (n : Nat) : ∀ (pre s : Bytes) (acc : List V) (fuel : Nat),
    s.length ≤ n → n < fuel →
    ∃ p', whileFuel fuel Gen.PyBeacon.parse_recover_binary_loop1 (.list acc, mk pre s)
      = .ok (.list (acc ++ (C03.parseRecover s).map encROut), p') := by
  obtain ⟨a1, a2, a3, a4, a8, a11, a13, a15⟩ := C03.tsv_vals
  induction n with
  | zero =>
    intro pre s acc fuel h hf
    obtain ⟨f, rfl⟩ : ∃ f, fuel = f + 1 := ⟨fuel - 1, by omega⟩
    have hs : s = [] := List.eq_nil_of_length_eq_zero (by omega)
    subst hs
    simp [whileFuel, Gen.PyBeacon.parse_recover_binary_loop1, read_mk, rdInt4, truthy, pure_ok, C03.parseRecover]
  | succ n ih =>
    intro pre s acc fuel h hf
    obtain ⟨f, rfl⟩ : ∃ f, fuel = f + 1 := ⟨fuel - 1, by omega⟩
    by_cases hs : s = []
    · subst hs
      simp [whileFuel, Gen.PyBeacon.parse_recover_binary_loop1, read_mk, rdInt4, truthy, pure_ok, C03.parseRecover]
    · have h4 : ¬ (List.take 4 s) = [] := by simp [hs]
      have hpos := List.length_pos_iff.mpr hs
      have hf' : n < f := by omega
      have m1 := enumMember_ts _ _ a1
      have m2 := enumMember_ts _ _ a2
      have m3 := enumMember_ts _ _ a3
      have m4 := enumMember_ts _ _ a4
      have m8 := enumMember_ts _ _ a8
      have m11 := enumMember_ts _ _ a11
      have m13 := enumMember_ts _ _ a13
      have m15 := enumMember_ts _ _ a15
      rw [whileFuel, Gen.PyBeacon.parse_recover_binary_loop1]
      simp only [read_mk, rdInt4, PyRt.ok_bind, truthy_bytes, u32be_bytes,
        isEmpty_false h4, Bool.not_false, Bool.not_true, Bool.false_eq_true, if_false]
      trace_state
      simp only [m1, m2, m3, m4, m8, m11, m13, m15, PyRt.ok_bind, eq_int_enum, int_beq_nat, append_list, pure_ok, fmt_dec_int,
        read_mk, rdInt4, u32be_bytes]
      rw [C03.parseRecover]
      simp only [h4, dite_false, a1, a2, a3, a4, a8, a11, a13, a15, Option.some_beq_some]
      have e0 : PyU.eq (V.int ((C03.u32be (List.take 4 s) : Nat) : Int)) (V.int 0) = (C03.u32be (List.take 4 s) == 0) := by
        simp only [PyU.eq]; exact int_beq_nat _ 0
      simp only [e0, beq_iff_eq]
      split_ifs <;>
        first
        | exact ⟨_, rfl⟩
        | (simp only [List.map_cons, encROut, encRVal]
           rw [List.append_cons]
           exact ih _ _ _ f (by simp only [List.length_drop]; omega) hf')
        | exact ih _ _ _ f (by simp only [List.length_drop]; omega) hf'

end C03Gen

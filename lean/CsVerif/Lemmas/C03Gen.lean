import CsVerif.Gen.PyBeacon
import CsVerif.Lemmas.C03
import CsVerif.Props.C20Gen
import Mathlib.Tactic.Ring
import Mathlib.Tactic.SplitIfs
/-! Helper lemmas for Props/C03Gen.lean: the operations of `PyU` (run-time library of the untyped translator) against the
primitives of the C03 model, and the translated functions of `Gen/PyBeacon.lean` against the model functions.
The encodings `enc*` of model results as `PyU.V` values are defined here; no property statements. -/
namespace C03Gen
open PyU
set_option linter.unusedSimpArgs false

/-! ### encodings of the model's result types as Python values -/

/-- `str` or `None` -/
def encOptStr : Option String → V
  | none => .none
  | some s => lit s

/-- second component of a `parse_transform_binary` item: `str` / `True` / `bytes` -/
def encTVal : C03.TVal → V
  | .str s => lit s
  | .flag => .bool true
  | .bytes b => .bytes b

/-- `(name, value)` of `parse_transform_binary` -/
def encTOut (o : C03.TOut) : V := .tuple [encOptStr o.1, encTVal o.2]

/-- second component of a `parse_recover_binary` item: `int` / `True` -/
def encRVal : C03.RVal → V
  | .len n => .int n
  | .flag => .bool true

/-- `(name, value)` of `parse_recover_binary` -/
def encROut (o : String × C03.RVal) : V := .tuple [lit o.1, encRVal o.2]

/-- an entry of `parse_execute_list`: `str` (code points) or `None` -/
def encEx : Option (List Nat) → V
  | none => .none
  | some cs => .str cs

/-- `(name, bytes)` of `parse_process_injection_transform_steps` -/
def encInj (o : String × Bytes) : V := .tuple [lit o.1, .bytes o.2]

/-- a latin-1 `str` (the model keeps it as bytes) -/
def encLatin (b : Bytes) : V := .str (b.map (·.toNat))

/-! ### monad plumbing -/

theorem pure_ok {α : Type} (a : α) : (pure a : Py α) = .ok a := rfl
theorem map_ok {α β : Type} (f : α → β) (a : α) : (f <$> (Except.ok a : Py α)) = .ok (f a) := rfl
theorem throw_err {α : Type} (e : PyExc) : (throw e : Py α) = .error e := rfl

/-! ### integers -/

theorem fromLE_eq_leNat (d : Bytes) : C20.fromLE d = C03.leNat d := by
  induction d with
  | nil => rfl
  | cons b bs ih => simp only [C20.fromLE, C03.leNat, ih]

theorem fromLE_append (xs ys : Bytes) : C20.fromLE (xs ++ ys) = C20.fromLE xs + 256 ^ xs.length * C20.fromLE ys := by
  induction xs with
  | nil => simp [C20.fromLE]
  | cons b bs ih =>
    simp only [List.cons_append, C20.fromLE, ih, List.length_cons]
    ring

theorem beNat_eq (d : Bytes) (acc : Nat) : C03.beNat d acc = acc * 256 ^ d.length + C20.fromLE d.reverse := by
  induction d generalizing acc with
  | nil => simp [C03.beNat, C20.fromLE]
  | cons b bs ih =>
    simp only [C03.beNat, ih, List.reverse_cons, fromLE_append, List.length_reverse, List.length_cons, C20.fromLE]
    ring

theorem u32_bytes (d : Bytes) : Gen.PyBeacon.u32 (.bytes d) = .ok (.int (C03.u32le d)) := by
  have := C20Gen.gen_u32 d .little false
  simp only [C20Gen.orderStr] at this
  simp only [Gen.PyBeacon.u32, liftBytesInt, this, Except.map]
  simp [C20.unpack, C20.fromBytes, C20.fromBytesU, pySliceTo, C03.u32le, fromLE_eq_leNat]

theorem u32be_bytes (d : Bytes) : Gen.PyBeacon.u32be (.bytes d) = .ok (.int (C03.u32be d)) := by
  simp only [Gen.PyBeacon.u32be, liftBytesInt, C20Gen.gen_u32be, Except.map]
  simp [C20.unpack, C20.fromBytes, C20.fromBytesU, pySliceTo, C03.u32be, beNat_eq]

theorem u16be_bytes (d : Bytes) : Gen.PyBeacon.u16be (.bytes d) = .ok (.int (C03.u16be d)) := by
  simp only [Gen.PyBeacon.u16be, liftBytesInt, C20Gen.gen_u16be, Except.map]
  simp [C20.unpack, C20.fromBytes, C20.fromBytesU, pySliceTo, C03.u16be, beNat_eq]

/-! ### io.BytesIO -/

/-- a `BytesIO` whose consumed prefix is `pre` and whose unread rest is `s` -/
def mk (pre s : Bytes) : V := .bytesIO (pre ++ s) pre.length

theorem newBytesIO_bytes (d : Bytes) : newBytesIO (.bytes d) = .ok (mk [] d) := rfl

/-- `p.read(k)` is the model's `rdInt` on the unread rest -/
theorem read_mk (pre s : Bytes) (k : Int) :
    PyU.read (mk pre s) (.int k) = .ok (.bytes (C03.rdInt k s).1, mk (pre ++ (C03.rdInt k s).1) (C03.rdInt k s).2) := by
  simp only [PyU.read, mk, asInt, C03.rdInt, List.drop_left]
  split
  · simp
  · simp [List.append_assoc]

theorem rdInt_nat (k : Nat) (s : Bytes) : C03.rdInt (k : Int) s = (s.take k, s.drop k) := by
  simp [C03.rdInt]

theorem rdInt1 (s : Bytes) : C03.rdInt 1 s = (s.take 1, s.drop 1) := rdInt_nat 1 s
theorem rdInt2 (s : Bytes) : C03.rdInt 2 s = (s.take 2, s.drop 2) := rdInt_nat 2 s
theorem rdInt4 (s : Bytes) : C03.rdInt 4 s = (s.take 4, s.drop 4) := rdInt_nat 4 s

/-! ### the loop-free functions -/

/-- `data.partition(b"\x00")[0]` -/
theorem splitAt_zero_fst (d : Bytes) :
    (match splitAt? [(0 : UInt8)] d with | some p => p.1 | none => d) = C03.nullTerminatedBytes d := by
  induction d with
  | nil => rfl
  | cons b bs ih =>
    by_cases hb : b = 0
    · subst hb; simp [splitAt?, List.isPrefixOf, C03.nullTerminatedBytes]
    · have h1 : ([(0 : UInt8)].isPrefixOf (b :: bs)) = false := by
        simp [List.isPrefixOf]; exact fun h => hb h.symm
      simp only [splitAt?, h1, Bool.false_eq_true, if_false, C03.nullTerminatedBytes] at ih ⊢
      rw [List.takeWhile_cons_of_pos (by simpa using hb), ← ih]
      cases splitAt? [(0 : UInt8)] bs <;> rfl

theorem gen_null_terminated_bytes_proof (data : Bytes) :
    Gen.PyBeacon.null_terminated_bytes (.bytes data) = .ok (.bytes (C03.nullTerminatedBytes data)) := by
  simp only [Gen.PyBeacon.null_terminated_bytes, partition, List.isEmpty_cons, Bool.false_eq_true, if_false]
  rw [← splitAt_zero_fst]
  cases splitAt? [(0 : UInt8)] data <;> rfl

theorem gen_null_terminated_str_proof (data : Bytes) :
    Gen.PyBeacon.null_terminated_str (.bytes data) = .ok (encLatin (C03.nullTerminatedStr data)) := by
  simp only [Gen.PyBeacon.null_terminated_str, gen_null_terminated_bytes_proof, PyRt.ok_bind, decodeLatin1]
  rfl

theorem gen_parse_pivot_frame_proof (data : Bytes) :
    Gen.PyBeacon.parse_pivot_frame (.bytes data) = .ok (.bytes (C03.parsePivot data)) := by
  simp only [Gen.PyBeacon.parse_pivot_frame, newBytesIO_bytes, PyRt.ok_bind, read_mk, rdInt2, u16be_bytes, PyU.sub, ints2, asInt,
    Except.map, C03.parsePivot, pure_ok]

theorem truthy_bytes (b : Bytes) : truthy (.bytes b) = !b.isEmpty := rfl

theorem append_list (l : List V) (x : V) : PyU.append (.list l) x = .ok (.list (l ++ [x])) := rfl

theorem isEmpty_false {α : Type} {l : List α} (h : ¬ l = []) : l.isEmpty = false := by
  cases l with
  | nil => exact absurd rfl h
  | cons _ _ => rfl

theorem gen_parse_process_injection_transform_steps_proof (data : Bytes) :
    Gen.PyBeacon.parse_process_injection_transform_steps (.bytes data)
      = .ok (.list ((C03.parseInjTransform data).map encInj)) := by
  simp only [Gen.PyBeacon.parse_process_injection_transform_steps, newBytesIO_bytes, PyRt.ok_bind, read_mk, rdInt4, truthy_bytes,
    C03.parseInjTransform]
  by_cases h1 : List.take 4 data = []
  · have hd : data = [] := by simpa using h1
    subst hd
    simp [read_mk, rdInt4, truthy_bytes, pure_ok]
  · simp only [isEmpty_false h1, h1, Bool.not_false, if_true, u32be_bytes, PyRt.ok_bind, read_mk, rdInt_nat,
      append_list, List.nil_append, ne_eq, not_false_eq_true, rdInt4]
    by_cases h2 : List.take 4 (List.drop (C03.u32be (List.take 4 data)) (List.drop 4 data)) = []
    · simp only [truthy_bytes, h2, List.isEmpty_nil, Bool.not_true, Bool.false_eq_true, if_false, pure_ok, not_true_eq_false, List.append_nil,
        List.map_cons, List.map_nil, encInj]
    · simp only [truthy_bytes, isEmpty_false h2, h2, Bool.not_false, if_true, pure_ok, not_false_eq_true, u32be_bytes, PyRt.ok_bind, read_mk,
        rdInt_nat, append_list, List.map_cons, List.map_nil, encInj, List.cons_append, List.nil_append, List.map_append]

/-! ### strings -/

theorem cps_append (a b : String) : cps (a ++ b) = cps a ++ cps b := by
  simp [cps, String.toList_append]

theorem cps_ofList (l : List Char) : cps (String.ofList l) = l.map Char.toNat := by
  simp [cps]

theorem fmt_x_nat (n : Nat) : fmt (.int (n : Int)) "x" = .ok (cps (C03.hexStr n)) := by
  have h : ¬ ((n : Int) < 0) := by omega
  simp [fmt, hexStr, h, C03.hexStr, cps_ofList]

theorem eq_pair_zero (a b : Nat) :
    PyU.eq (.tuple [.int (a : Int), .int (b : Int)]) (.tuple [.int 0, .int 0]) = decide ((a, b) = (0, 0)) := by
  simp only [PyU.eq, eqL, Bool.and_true, Prod.mk.injEq]
  by_cases ha : a = 0 <;> by_cases hb : b = 0 <;> simp [ha, hb]

/-! ### parse_gargle -/

theorem gen_parse_gargle_loop (n : Nat) : ∀ (pre s : Bytes) (acc : List V) (fuel : Nat),
    s.length ≤ n → n < fuel →
    ∃ p', whileFuel fuel Gen.PyBeacon.parse_gargle_loop1 (.list acc, mk pre s)
      = .ok (.list (acc ++ (C03.parseGargle s).map lit), p') := by
  induction n with
  | zero =>
    intro pre s acc fuel h hf
    obtain ⟨f, rfl⟩ : ∃ f, fuel = f + 1 := ⟨fuel - 1, by omega⟩
    have hs : s = [] := List.eq_nil_of_length_eq_zero (by omega)
    subst hs
    simp [whileFuel, Gen.PyBeacon.parse_gargle_loop1, read_mk, rdInt4, truthy, pure_ok, C03.parseGargle, C03.parseGarglePairs]
  | succ n ih =>
    intro pre s acc fuel h hf
    obtain ⟨f, rfl⟩ : ∃ f, fuel = f + 1 := ⟨fuel - 1, by omega⟩
    by_cases hs : s = []
    · subst hs
      simp [whileFuel, Gen.PyBeacon.parse_gargle_loop1, read_mk, rdInt4, truthy, pure_ok, C03.parseGargle, C03.parseGarglePairs]
    · have h4 : ¬ (List.take 4 s) = [] := by simp [hs]
      have hlen : (List.drop 4 (List.drop 4 s)).length ≤ n := by
        have := List.length_pos_iff.mpr hs
        simp only [List.length_drop]; omega
      simp only [whileFuel, Gen.PyBeacon.parse_gargle_loop1, read_mk, rdInt4, PyRt.ok_bind, truthy_bytes, u32_bytes,
        isEmpty_false h4, Bool.not_false, Bool.not_true, Bool.false_eq_true, if_false, eq_pair_zero]
      rw [C03.parseGargle, C03.parseGarglePairs]
      simp only [h4, dite_false, ne_eq]
      by_cases hz : (C03.u32le (List.take 4 s), C03.u32le (List.take 4 (List.drop 4 s))) = (0, 0)
      · simp only [hz, decide_true, Bool.not_true, Bool.false_eq_true, if_false, pure_ok, not_true_eq_false]
        exact ih _ _ acc f hlen (by omega)
      · simp only [hz, decide_false, Bool.not_false, if_true, fmt_x_nat, PyRt.ok_bind, append_list, pure_ok,
          not_false_eq_true, List.map_cons]
        obtain ⟨p', hp'⟩ := ih (pre ++ List.take 4 s ++ List.take 4 (List.drop 4 s)) (List.drop 4 (List.drop 4 s))
          (acc ++ [lit (C03.fmtRange (C03.u32le (List.take 4 s), C03.u32le (List.take 4 (List.drop 4 s))))]) f hlen (by omega)
        refine ⟨p', ?_⟩
        rw [C03.parseGargle] at hp'
        simp only [List.append_assoc, List.cons_append, List.nil_append] at hp'
        rw [← hp']
        simp only [C03.fmtRange, lit, cps_append, List.append_assoc]

theorem gen_parse_gargle_proof (fuel : Nat) (data : Bytes) (h : data.length < fuel) :
    Gen.PyBeacon.parse_gargle fuel (.bytes data) = .ok (.list ((C03.parseGargle data).map lit)) := by
  obtain ⟨p', hp'⟩ := gen_parse_gargle_loop data.length [] data [] fuel (Nat.le_refl _) h
  simp only [Gen.PyBeacon.parse_gargle, newBytesIO_bytes, PyRt.ok_bind, hp', pure_ok, List.nil_append]

/-! ### cstruct enums -/

theorem enumMember_ts (n : String) (v : Nat) (h : C03.tsv n = some v) :
    enumMember Gen.PyBeacon.TransformStep n = .ok (.enum Gen.PyBeacon.TransformStep v) := by
  simp only [C03.tsv, C03.enumVal] at h
  simp only [enumMember, Gen.PyBeacon.TransformStep]
  cases hf : List.find? (fun x => x.2 == n) Gen.Beacon.transformStep with
  | none => rw [hf] at h; simp at h
  | some m => rw [hf] at h; simp at h; simp [h]

theorem eq_int_enum (a : Int) (c : EnumCls) (b : Int) : PyU.eq (.int a) (.enum c b) = (a == b) := rfl

theorem int_beq_nat (a b : Nat) : ((a : Int) == (b : Int)) = (a == b) := by
  by_cases h : a = b
  · simp [h]
  · have : ¬ ((a : Int) = (b : Int)) := by omega
    simp [h, this]

theorem fmt_dec_int (n : Int) : fmt (.int n) "" = .ok (decStr n) := by simp [fmt]

/-! ### parse_recover_binary -/

theorem gen_parse_recover_binary_loop (n : Nat) : ∀ (pre s : Bytes) (acc : List V) (fuel : Nat),
    s.length ≤ n → n < fuel →
    ∃ p', whileFuel fuel Gen.PyBeacon.parse_recover_binary_loop1 (.list acc, mk pre s)
      = .ok (.list (acc ++ (C03.parseRecover s).map encROut), p') := by
  obtain ⟨a1, a2, a3, a4, a8, a11, a13, a15⟩ := C03.tsv_vals
  induction n with
  | zero =>
    intro pre s acc fuel h hf
    obtain ⟨f, rfl⟩ : ∃ f, fuel = f + 1 := ⟨fuel - 1, by omega⟩
    have hs : s = [] := List.eq_nil_of_length_eq_zero (by omega)
    subst hs
    simp [whileFuel, Gen.PyBeacon.parse_recover_binary_loop1, read_mk, rdInt4, truthy, pure_ok, C03.parseRecover]
  | succ n ih =>
    intro pre s acc fuel h hf
    obtain ⟨f, rfl⟩ : ∃ f, fuel = f + 1 := ⟨fuel - 1, by omega⟩
    by_cases hs : s = []
    · subst hs
      simp [whileFuel, Gen.PyBeacon.parse_recover_binary_loop1, read_mk, rdInt4, truthy, pure_ok, C03.parseRecover]
    · have h4 : ¬ (List.take 4 s) = [] := by simp [hs]
      have hpos := List.length_pos_iff.mpr hs
      have hf' : n < f := by omega
      have m1 := enumMember_ts _ _ a1
      have m2 := enumMember_ts _ _ a2
      have m3 := enumMember_ts _ _ a3
      have m4 := enumMember_ts _ _ a4
      have m8 := enumMember_ts _ _ a8
      have m11 := enumMember_ts _ _ a11
      have m13 := enumMember_ts _ _ a13
      have m15 := enumMember_ts _ _ a15
      rw [whileFuel, Gen.PyBeacon.parse_recover_binary_loop1]
      simp only [read_mk, rdInt4, PyRt.ok_bind, truthy_bytes, u32be_bytes,
        isEmpty_false h4, Bool.not_false, Bool.not_true, Bool.false_eq_true, if_false]
      simp only [m1, m2, m3, m4, m8, m11, m13, m15, PyRt.ok_bind, eq_int_enum, int_beq_nat, append_list, fmt_dec_int, pure_ok]
      rw [C03.parseRecover]
      simp only [h4, dite_false, a1, a2, a3, a4, a8, a11, a13, a15, Option.some_beq_some]
      have e0 : PyU.eq (V.int ((C03.u32be (List.take 4 s) : Nat) : Int)) (V.int 0) = (C03.u32be (List.take 4 s) == 0) := by
        simp only [PyU.eq]; exact int_beq_nat _ 0
      simp only [e0, beq_iff_eq]
      generalize C03.u32be (List.take 4 s) = v
      by_cases c1 : v = 1
      · simp only [c1, if_true]
        simp only [List.map_cons, encROut, encRVal]
        conv => arg 1; intro p'; rhs; rw [List.append_cons]
        exact ih _ _ _ f (by simp only [List.length_drop]; omega) hf'
      simp only [c1, if_false]
      by_cases c2 : v = 2
      · simp only [c2, if_true]
        simp only [List.map_cons, encROut, encRVal]
        conv => arg 1; intro p'; rhs; rw [List.append_cons]
        exact ih _ _ _ f (by simp only [List.length_drop]; omega) hf'
      simp only [c2, if_false]
      by_cases c3 : v = 3
      · simp only [c3, if_true]
        simp only [List.map_cons, encROut, encRVal]
        conv => arg 1; intro p'; rhs; rw [List.append_cons]
        exact ih _ _ _ f (by simp only [List.length_drop]; omega) hf'
      simp only [c3, if_false]
      by_cases c4 : v = 4
      · simp only [c4, if_true]
        simp only [List.map_cons, encROut, encRVal]
        conv => arg 1; intro p'; rhs; rw [List.append_cons]
        exact ih _ _ _ f (by simp only [List.length_drop]; omega) hf'
      simp only [c4, if_false]
      by_cases c8 : v = 8
      · simp only [c8, if_true]
        simp only [List.map_cons, encROut, encRVal]
        conv => arg 1; intro p'; rhs; rw [List.append_cons]
        exact ih _ _ _ f (by simp only [List.length_drop]; omega) hf'
      simp only [c8, if_false]
      by_cases c11 : v = 11
      · simp only [c11, if_true]
        simp only [List.map_cons, encROut, encRVal]
        conv => arg 1; intro p'; rhs; rw [List.append_cons]
        exact ih _ _ _ f (by simp only [List.length_drop]; omega) hf'
      simp only [c11, if_false]
      by_cases c13 : v = 13
      · simp only [c13, if_true]
        simp only [List.map_cons, encROut, encRVal]
        conv => arg 1; intro p'; rhs; rw [List.append_cons]
        exact ih _ _ _ f (by simp only [List.length_drop]; omega) hf'
      simp only [c13, if_false]
      by_cases c15 : v = 15
      · simp only [c15, if_true]
        simp only [List.map_cons, encROut, encRVal]
        conv => arg 1; intro p'; rhs; rw [List.append_cons]
        exact ih _ _ _ f (by simp only [List.length_drop]; omega) hf'
      simp only [c15, if_false]
      by_cases c0 : v = 0
      · simp only [c0, if_true, List.map_nil, List.append_nil]
        exact ⟨_, rfl⟩
      simp only [c0, if_false]
      exact ih _ _ _ f (by simp only [List.length_drop]; omega) hf'

theorem gen_parse_recover_binary_proof (fuel : Nat) (data : Bytes) (h : data.length < fuel) :
    Gen.PyBeacon.parse_recover_binary fuel (.bytes data) = .ok (.list ((C03.parseRecover data).map encROut)) := by
  obtain ⟨p', hp'⟩ := gen_parse_recover_binary_loop data.length [] data [] fuel (Nat.le_refl _) h
  simp only [Gen.PyBeacon.parse_recover_binary, newBytesIO_bytes, PyRt.ok_bind, hp', pure_ok, List.nil_append]

/-! ### parse_transform_binary -/

theorem tsv_more : C03.tsv "URI_APPEND" = some 12 ∧ C03.tsv "_HEADER" = some 10 ∧ C03.tsv "HEADER" = some 6 ∧
    C03.tsv "PARAMETER" = some 5 ∧ C03.tsv "_PARAMETER" = some 9 ∧ C03.tsv "_HOSTHEADER" = some 16 := by decide

/-- the value of `ENABLE_STEPS` / `ARGUMENT_STEPS` -/
def tsList (vals : List Nat) : V := .list (vals.map fun (k : Nat) => .enum Gen.PyBeacon.TransformStep (k : Int))

/-- the value of `BUILD_MAP` -/
def buildMapV (build : String) : V := .dict [.int 0, .int 1] [lit build, lit "output"]

theorem mkDict_build (build : String) :
    mkDict [(.int 0, lit build), (.int 1, lit "output")] = .ok (buildMapV build) := by
  simp [mkDict, dictInsert, findKey, keyEq, hashable, PyU.eq, buildMapV, lit]

theorem buildMap_get (build : String) (b : Nat) :
    dictGet (buildMapV build) (.int (b : Int)) (lit "UNKNOWN BUILD ARG") = .ok (lit (C03.buildMap build b)) := by
  simp only [dictGet, buildMapV, hashable, if_true, findKey, keyEq, PyU.eq, Bool.and_true, C03.buildMap]
  by_cases h0 : b = 0
  · subst h0; simp
  · by_cases h1 : b = 1
    · subst h1; simp
    · have e0 : ((b : Int) == 0) = false := by simp; omega
      have e1 : ((b : Int) == 1) = false := by simp; omega
      simp [e0, e1, h0, h1]

theorem eq_enum_ts (a b : Nat) :
    PyU.eq (.enum Gen.PyBeacon.TransformStep (a : Int)) (.enum Gen.PyBeacon.TransformStep (b : Int)) = (a == b) := by
  simp only [PyU.eq, beq_self_eq_true, Bool.true_and, int_beq_nat]

theorem contains_tsList (vals : List Nat) (v : Nat) :
    contains (tsList vals) (.enum Gen.PyBeacon.TransformStep (v : Int)) = .ok ((vals.map some).contains (some v)) := by
  simp only [contains, tsList]
  congr 1
  induction vals with
  | nil => rfl
  | cons k ks ih =>
    simp only [List.map_cons, List.any_cons, ih, List.contains_cons, eq_enum_ts, Option.some_beq_some]

theorem enumCall_ts_int (v : Int) :
    enumCall Gen.PyBeacon.TransformStep (.int v) = .ok (.enum Gen.PyBeacon.TransformStep v) := rfl

theorem getAttr_name_ts (v : Nat) :
    getAttr (.enum Gen.PyBeacon.TransformStep (v : Int)) "name"
      = .ok (encOptStr (C03.enumName Gen.Beacon.transformStep v)) := by
  have h : ¬ ((v : Int) < 0) := by omega
  simp only [getAttr, beq_self_eq_true, if_true, h, if_false, Int.toNat_natCast, C03.enumName, Gen.PyBeacon.TransformStep]
  cases List.find? (fun x => x.1 == v) Gen.Beacon.transformStep <;> rfl

theorem len_bytes (b : Bytes) : PyU.len (.bytes b) = .ok (.int (b.length : Int)) := rfl

theorem eq_int_nat (a b : Nat) : PyU.eq (.int (a : Int)) (.int (b : Int)) = (a == b) := by
  simp only [PyU.eq, int_beq_nat]

theorem eq_int_4 (a : Nat) : PyU.eq (.int (a : Int)) (.int 4) = (a == 4) := eq_int_nat a 4
theorem eq_int_0 (a : Nat) : PyU.eq (.int (a : Int)) (.int 0) = (a == 0) := eq_int_nat a 0

theorem isNone_enum (c : EnumCls) (v : Int) : isNone (.enum c v) = false := rfl

theorem gen_parse_transform_binary_loop (build : String) (n : Nat) : ∀ (pre s : Bytes) (acc : List V) (fuel : Nat),
    s.length ≤ n → n < fuel →
    ∃ p', whileFuel fuel
        (Gen.PyBeacon.parse_transform_binary_loop1 (tsList [3, 13, 8, 11, 12, 4, 15]) (tsList [10, 6, 5, 9, 16, 1, 2])
          (buildMapV build)) (.list acc, mk pre s)
      = .ok (.list (acc ++ (C03.parseTransform build s).map encTOut), p') := by
  have mB := enumMember_ts _ _ C03.tsv_build
  induction n with
  | zero =>
    intro pre s acc fuel h hf
    obtain ⟨f, rfl⟩ : ∃ f, fuel = f + 1 := ⟨fuel - 1, by omega⟩
    have hs : s = [] := List.eq_nil_of_length_eq_zero (by omega)
    subst hs
    rw [whileFuel, Gen.PyBeacon.parse_transform_binary_loop1, C03.parseTransform]
    simp [read_mk, rdInt4, u32be_bytes, len_bytes, pure_ok, PyU.eq]
  | succ n ih =>
    intro pre s acc fuel h hf
    obtain ⟨f, rfl⟩ : ∃ f, fuel = f + 1 := ⟨fuel - 1, by omega⟩
    have hf' : n < f := by omega
    rw [whileFuel, Gen.PyBeacon.parse_transform_binary_loop1, C03.parseTransform]
    simp only [read_mk, rdInt4, PyRt.ok_bind, u32be_bytes, len_bytes, eq_int_4, eq_int_0, beq_iff_eq, Bool.or_eq_true,
      Bool.not_eq_true', beq_eq_false_iff_ne, ne_eq, enumCall_ts_int, getAttr_name_ts, isNone_enum, Bool.false_eq_true, if_false,
      mB, eq_enum_ts, contains_tsList, buildMap_get, append_list, rdInt_nat, pure_ok, C03.tsv_build, C03.enableVals_eq,
      C03.argVals_eq, Option.some_beq_some]
    simp only [List.map_cons, List.map_nil]
    by_cases c0 : ¬(List.take 4 s).length = 4 ∨ C03.u32be (List.take 4 s) = 0
    · simp only [c0, if_true, dite_true, List.map_nil, List.append_nil]
      exact ⟨_, rfl⟩
    have hl : 4 ≤ s.length := by
      have : (List.take 4 s).length = 4 := by
        false_or_by_contra; rename_i hh; exact c0 (Or.inl hh)
      simp only [List.length_take] at this
      omega
    simp only [c0, if_false, dite_false]
    generalize C03.u32be (List.take 4 s) = v
    by_cases c7 : v = 7
    · simp only [c7, if_true]
      simp only [List.map_cons, encTOut, encTVal]
      conv => arg 1; intro p'; rhs; rw [List.append_cons]
      exact ih _ _ _ f (by simp only [List.length_drop]; omega) hf'
    simp only [c7, if_false]
    by_cases cE : [some 3, some 13, some 8, some 11, some 12, some 4, some 15].contains (some v) = true
    · simp only [cE, if_true]
      simp only [List.map_cons, encTOut, encTVal]
      conv => arg 1; intro p'; rhs; rw [List.append_cons]
      exact ih _ _ _ f (by simp only [List.length_drop]; omega) hf'
    simp only [cE, Bool.false_eq_true, if_false]
    by_cases cA : [some 10, some 6, some 5, some 9, some 16, some 1, some 2].contains (some v) = true
    · simp only [cA, if_true]
      simp only [List.map_cons, encTOut, encTVal]
      conv => arg 1; intro p'; rhs; rw [List.append_cons]
      exact ih _ _ _ f (by simp only [List.length_drop]; omega) hf'
    simp only [cA, Bool.false_eq_true, if_false]
    exact ih _ _ _ f (by simp only [List.length_drop]; omega) hf'

/-- the part of `parse_transform_binary` before the loop -/
theorem gen_parse_transform_binary_proof (fuel : Nat) (data : Bytes) (build : String) (h : data.length < fuel) :
    Gen.PyBeacon.parse_transform_binary fuel (.bytes data) (lit build)
      = .ok (.list ((C03.parseTransform build data).map encTOut)) := by
  obtain ⟨a1, a2, a3, a4, a8, a11, a13, a15⟩ := C03.tsv_vals
  obtain ⟨b12, b10, b6, b5, b9, b16⟩ := tsv_more
  obtain ⟨p', hp'⟩ := gen_parse_transform_binary_loop build data.length [] data [] fuel (Nat.le_refl _) h
  simp only [tsList, List.map_cons, List.map_nil] at hp'
  simp only [Gen.PyBeacon.parse_transform_binary, enumMember_ts _ _ a1, enumMember_ts _ _ a2, enumMember_ts _ _ a3,
    enumMember_ts _ _ a4, enumMember_ts _ _ a8, enumMember_ts _ _ a11, enumMember_ts _ _ a13, enumMember_ts _ _ a15,
    enumMember_ts _ _ b12, enumMember_ts _ _ b10, enumMember_ts _ _ b6, enumMember_ts _ _ b5, enumMember_ts _ _ b9,
    enumMember_ts _ _ b16, PyRt.ok_bind, mkDict_build, newBytesIO_bytes, hp', pure_ok, List.nil_append]

/-! ### parse_execute_list -/

theorem utf8_eq_aux (n : Nat) : ∀ s : Bytes, s.length ≤ n → PyU.utf8 s = C03.utf8Decode s := by
  induction n with
  | zero =>
    intro s h
    have : s = [] := List.eq_nil_of_length_eq_zero (by omega)
    subst this
    rw [PyU.utf8.eq_def, C03.utf8Decode.eq_def]
  | succ n ih =>
    intro s h
    match s, h with
    | [], _ => rw [PyU.utf8.eq_def, C03.utf8Decode.eq_def]
    | [b0], _ =>
      rw [PyU.utf8.eq_def, C03.utf8Decode.eq_def]
      simp only [ih [] (by simp), PyU.isCont, C03.isCont]
      try rfl
    | [b0, b1], h =>
      rw [PyU.utf8.eq_def, C03.utf8Decode.eq_def]
      simp only [ih [b1] (by simp at h ⊢; omega), ih [] (by simp), PyU.isCont, C03.isCont]
      try rfl
    | [b0, b1, b2], h =>
      rw [PyU.utf8.eq_def, C03.utf8Decode.eq_def]
      simp only [ih [b1, b2] (by simp at h ⊢; omega), ih [b2] (by simp at h ⊢; omega), ih [] (by simp), PyU.isCont,
        C03.isCont]
      try rfl
    | b0 :: b1 :: b2 :: b3 :: r, h =>
      rw [PyU.utf8.eq_def, C03.utf8Decode.eq_def]
      simp only [ih (b1 :: b2 :: b3 :: r) (by simp at h ⊢; omega), ih (b2 :: b3 :: r) (by simp at h ⊢; omega),
        ih (b3 :: r) (by simp at h ⊢; omega), ih r (by simp at h ⊢; omega), PyU.isCont, C03.isCont]
      try rfl

theorem utf8_eq (s : Bytes) : PyU.utf8 s = C03.utf8Decode s := utf8_eq_aux s.length s (Nat.le_refl _)

theorem enumMember_ie (n : String) (v : Nat) (h : C03.iev n = some v) :
    enumMember Gen.PyBeacon.InjectExecutor n = .ok (.enum Gen.PyBeacon.InjectExecutor v) := by
  simp only [C03.iev, C03.enumVal] at h
  simp only [enumMember, Gen.PyBeacon.InjectExecutor]
  cases hf : List.find? (fun x => x.2 == n) Gen.Beacon.injectExecutor with
  | none => rw [hf] at h; simp at h
  | some m => rw [hf] at h; simp at h; simp [h]

theorem getAttr_name_ie (v : Nat) :
    getAttr (.enum Gen.PyBeacon.InjectExecutor (v : Int)) "name"
      = .ok (encOptStr (C03.enumName Gen.Beacon.injectExecutor v)) := by
  have h : ¬ ((v : Int) < 0) := by omega
  simp only [getAttr, beq_self_eq_true, if_true, h, if_false, Int.toNat_natCast, C03.enumName, Gen.PyBeacon.InjectExecutor]
  cases List.find? (fun x => x.1 == v) Gen.Beacon.injectExecutor <;> rfl

theorem enumCall_ie_byte (b : UInt8) :
    enumCall Gen.PyBeacon.InjectExecutor (.bytes [b]) = .ok (.enum Gen.PyBeacon.InjectExecutor (b.toNat : Int)) := by
  simp [enumCall, Gen.PyBeacon.InjectExecutor, beNat]

theorem eq_enum_ie (a b : Nat) :
    PyU.eq (.enum Gen.PyBeacon.InjectExecutor (a : Int)) (.enum Gen.PyBeacon.InjectExecutor (b : Int)) = (a == b) := by
  simp only [PyU.eq, beq_self_eq_true, Bool.true_and, int_beq_nat]

theorem rstrip_nul (x : Bytes) : rstrip (.bytes x) (.bytes [0]) = .ok (.bytes (C03.rstripNul x)) := by
  simp only [rstrip, rstripL, C03.rstripNul]
  congr 4
  funext c
  simp [BEq.beq]

theorem rstrip_underscore (n : String) :
    rstrip (lit n) (lit "_") = .ok (.str (C03.rstripUnderscore (C03.strCps n))) := by
  have : cps "_" = [95] := by decide
  simp only [rstrip, lit, rstripL, C03.rstripUnderscore, C03.strCps, this]
  congr 4
  funext c
  simp [BEq.beq]

theorem rstrip_none (c : V) : rstrip .none c = .error .attributeError := rfl

theorem decodeUtf8_bytes (b : Bytes) : decodeUtf8 (.bytes b) = (C03.utf8Decode b).map .str := by
  simp [decodeUtf8, utf8_eq]

theorem fmt_str (t : PyRt.Str) : fmt (.str t) "" = .ok t := by simp [fmt]

theorem truthy_int_nat (n : Nat) : truthy (.int (n : Int)) = (n != 0) := by
  show ((n : Int) != ((0 : Nat) : Int)) = (n != 0)
  simp only [bne, int_beq_nat]

theorem iadd_str (a b : PyRt.Str) : iadd (.str a) (.str b) = .ok (.str (a ++ b)) := rfl

/-- first component of a loop result -/
def fstOk (r : Py (V × V)) : Py V := r.map Prod.fst

theorem fstOk_error (e : PyExc) : fstOk (.error e) = .error e := rfl
theorem fstOk_ok (a b : V) : fstOk (.ok (a, b)) = .ok a := rfl

theorem gen_parse_execute_list_loop (n : Nat) : ∀ (pre s : Bytes) (acc : List V) (fuel : Nat),
    s.length ≤ n → n < fuel →
    fstOk (whileFuel fuel Gen.PyBeacon.parse_execute_list_loop1 (.list acc, mk pre s))
      = (C03.parseExecute s).map fun l => .list (acc ++ l.map encEx) := by
  obtain ⟨i6, i7⟩ := C03.iev_vals
  have m6 := enumMember_ie _ _ i6
  have m7 := enumMember_ie _ _ i7
  induction n with
  | zero =>
    intro pre s acc fuel h hf
    obtain ⟨f, rfl⟩ : ∃ f, fuel = f + 1 := ⟨fuel - 1, by omega⟩
    have hs : s = [] := List.eq_nil_of_length_eq_zero (by omega)
    subst hs
    rw [whileFuel, Gen.PyBeacon.parse_execute_list_loop1, C03.parseExecute]
    simp [read_mk, rdInt1, truthy, pure_ok, fstOk, Except.map]
  | succ n ih =>
    intro pre s acc fuel h hf
    obtain ⟨f, rfl⟩ : ∃ f, fuel = f + 1 := ⟨fuel - 1, by omega⟩
    have hf' : n < f := by omega
    cases s with
    | nil =>
      rw [whileFuel, Gen.PyBeacon.parse_execute_list_loop1, C03.parseExecute]
      simp [read_mk, rdInt1, truthy, pure_ok, fstOk, Except.map]
    | cons b s1 =>
      have hl : s1.length ≤ n := by simpa using h
      rw [whileFuel, Gen.PyBeacon.parse_execute_list_loop1, C03.parseExecute]
      simp only [read_mk, rdInt1, List.take_succ_cons, List.take_zero, List.drop_succ_cons, List.drop_zero, PyRt.ok_bind, truthy_bytes,
        List.isEmpty_cons, Bool.not_false, Bool.not_true, Bool.false_or]
      have eb : PyU.eq (V.bytes [b]) (V.bytes [0]) = (b == 0) := by simp [PyU.eq]
      simp only [eb, beq_iff_eq]
      by_cases hb : b = 0
      · simp only [hb, if_true, pure_ok, fstOk_ok, Except.map, List.map_nil, List.append_nil]
      simp only [hb, if_false, enumCall_ie_byte, m6, m7, PyRt.ok_bind, contains, List.any_cons, List.any_nil, eq_enum_ie,
        Bool.or_false, i6, i7, Option.some_beq_some]
      by_cases hc : (b.toNat == 6 || b.toNat == 7) = true
      · have q1 : cps " \"" = [32, 34] := by decide
        have q2 : cps "!" = [33] := by decide
        have q3 : cps "\"" = [34] := by decide
        simp only [hc, if_true, rdInt2, rdInt4, u16be_bytes, u32be_bytes, PyRt.ok_bind, read_mk, rdInt_nat, rstrip_nul,
          decodeUtf8_bytes, truthy_int_nat, getAttr_name_ie]
        have hl5 : (List.drop (C03.u32be (List.take 4 (List.drop (C03.u32be (List.take 4 (List.drop 2 s1)))
            (List.drop 4 (List.drop 2 s1))))) (List.drop 4 (List.drop (C03.u32be (List.take 4 (List.drop 2 s1)))
            (List.drop 4 (List.drop 2 s1))))).length ≤ n := by
          simp only [List.length_drop]; omega
        generalize (List.drop (C03.u32be (List.take 4 (List.drop (C03.u32be (List.take 4 (List.drop 2 s1)))
            (List.drop 4 (List.drop 2 s1))))) (List.drop 4 (List.drop (C03.u32be (List.take 4 (List.drop 2 s1)))
            (List.drop 4 (List.drop 2 s1))))) = t5 at hl5 ⊢
        generalize C03.rstripNul (List.take (C03.u32be (List.take 4 (List.drop 2 s1))) (List.drop 4 (List.drop 2 s1))) = M
        generalize C03.rstripNul (List.take (C03.u32be (List.take 4 (List.drop (C03.u32be (List.take 4 (List.drop 2 s1)))
            (List.drop 4 (List.drop 2 s1))))) (List.drop 4 (List.drop (C03.u32be (List.take 4 (List.drop 2 s1)))
            (List.drop 4 (List.drop 2 s1))))) = F
        generalize C03.u16be (List.take 2 s1) = s4
        cases C03.utf8Decode M with
        | error e => rfl
        | ok ms =>
          cases C03.utf8Decode F with
          | error e => rfl
          | ok fs =>
            simp only [Except.map, PyRt.ok_bind, fmt_str]
            cases C03.enumName Gen.Beacon.injectExecutor b.toNat with
            | none =>
              by_cases h4 : s4 = 0
              · subst h4; rfl
              · have : (s4 != 0) = true := by simpa using h4
                simp only [this, if_true, fmt_x_nat, PyRt.ok_bind, iadd_str, encOptStr, rstrip_none, PyRt.error_bind]
                rfl
            | some nm =>
              by_cases h4 : s4 = 0
              · subst h4
                simp only [bne_self_eq_false, Bool.false_eq_true, if_false, encOptStr, rstrip_underscore, PyRt.ok_bind, fmt_str,
                  append_list, pure_ok, ne_eq, not_true_eq_false, List.append_nil]
                rw [ih _ _ _ f hl5 hf']
                cases C03.parseExecute t5 with
                | error e => rfl
                | ok rest =>
                  simp only [Except.map, List.map_cons, List.append_assoc, List.cons_append, List.nil_append, encEx, q1, q2, q3]
              · have : (s4 != 0) = true := by simpa using h4
                simp only [this, if_true, fmt_x_nat, PyRt.ok_bind, iadd_str, encOptStr, rstrip_underscore, fmt_str,
                  append_list, pure_ok, ne_eq, h4, not_false_eq_true]
                rw [ih _ _ _ f hl5 hf']
                cases C03.parseExecute t5 with
                | error e => rfl
                | ok rest =>
                  have hsc : C03.strCps ("+0x" ++ C03.hexStr s4) = cps "+0x" ++ cps (C03.hexStr s4) := cps_append _ _
                  simp only [Except.map, List.map_cons, List.append_assoc, List.cons_append, List.nil_append, encEx, q1, q2, q3,
                    hsc]
      · simp only [hc, Bool.false_eq_true, if_false, getAttr_name_ie, PyRt.ok_bind, append_list, pure_ok]
        rw [ih _ _ _ f hl hf']
        cases C03.parseExecute s1 with
        | error e => rfl
        | ok rest =>
          simp only [Except.map, List.map_cons, List.append_assoc, List.cons_append, List.nil_append]
          cases C03.enumName Gen.Beacon.injectExecutor b.toNat <;> rfl

theorem bind_fst (r : Py (V × V)) : (r >>= fun t => (pure t.1 : Py V)) = fstOk r := by
  cases r <;> rfl

theorem gen_parse_execute_list_proof (fuel : Nat) (data : Bytes) (h : data.length < fuel) :
    Gen.PyBeacon.parse_execute_list fuel (.bytes data)
      = (C03.parseExecute data).map fun l => .list (l.map encEx) := by
  have := gen_parse_execute_list_loop data.length [] data [] fuel (Nat.le_refl _) h
  simp only [List.nil_append] at this
  rw [← this]
  simp only [Gen.PyBeacon.parse_execute_list, newBytesIO_bytes, PyRt.ok_bind]
  exact bind_fst _

end C03Gen

import CsVerif.Model.C01Gen
import CsVerif.Lemmas.C01
import CsVerif.Lemmas.C15Gen
import CsVerif.Props.C09Gen
import CsVerif.Props.C02Gen
/-! Helper lemmas for Props/C01Gen.lean (no property statements).

(1) `EncOps`: the dispatching file operations of the translated programs (`PyU.t01Read / t01Seek / t01Tell`, Model/PyU_T01.lean) on
the encoding of a model object compute the model's `FileLike` operations — instances: an ordinary file (`PyFile`, any kind) and the
`XorEncodedFile` view (by the `gen_read / gen_seek_default / gen_tell` theorems of Props/C09Gen.lean: the methods translated from
xordecode.py); (2) the translated first-yield form of `iter_find_needle` (loop by loop) and of `find_beacon_config_bytes` against
`C01Gen.needleFirst / iterNeedleFirst / findFirst`, for every model object that behaves as a plain file (`C01.Sim`); (3) the
first-yield runs are what a consumer that never resumes the generator observes of the traces of `Model/C01.lean` (`firstOf_*`, for
every file-like object, no assumption). -/
namespace C01Gen
open PyU C01 C15Gen C09Gen Gen.Extract
set_option linter.unusedSimpArgs false

/-- the file operations of the translated programs on the encoding of a model object -/
structure EncOps {σ : Type} (F : FileLike σ) (abs : σ → PyFile → Prop) (enc : σ → V) (K : Nat) : Prop where
  read : ∀ s pf (n : Nat) (fuel : Nat), abs s pf → K ≤ fuel →
    t01Read fuel (enc s) (.int (n : Int)) = (F.read s n).map (fun r => (V.bytes r.1, enc r.2))
  seek : ∀ s pf (t : Int), abs s pf →
    match F.seek s t with
    | .error e => t01Seek (enc s) (.int t) = .error e
    | .ok s' => ∃ v, t01Seek (enc s) (.int t) = .ok (v, enc s')
  tell : ∀ s pf, abs s pf → t01Tell (enc s) = .ok (.int (F.tell s), enc s)

theorem isView_file (f : PyFile) : t01IsView (encFile f) = false := by
  simp [t01IsView, encFile, mkFile, FileCls, Gen.PyXor.XorEncodedFile]

theorem isView_xor (x : C09.XorFile) : t01IsView (encXor x) = true := by
  simp [t01IsView, encXor]

theorem encOps_raw : EncOps rawFile (fun s pf => s = pf) encFile 0 where
  read := by
    intro s pf n fuel _ _
    simp only [t01Read, isView_file, Bool.false_eq_true, if_false, fileRead_nat, rawFile, Except.map]
  seek := by
    intro s pf t _
    simp only [t01Seek, isView_file, Bool.false_eq_true, if_false, fileSeek_set, rawFile]
    cases h : s.seekSet t with
    | error e => simp [Except.map]
    | ok r => simp only [Except.map]; exact ⟨_, rfl⟩
  tell := by
    intro s pf _
    simp only [t01Tell, isView_file, Bool.false_eq_true, if_false, fileTell_enc, rawFile, PyFile.tell]

theorem encOps_xor (stub nonce size enc : Bytes) :
    EncOps xorView (fun x pf => C09.Abs stub nonce size enc x pf) encXor (stub.length + 8 + enc.length + 1) where
  read := by
    intro x pf n fuel hA hf
    have hd : x.fh.data.length + 1 ≤ fuel := by
      rw [hA.layout.data]; simp only [List.length_append, hA.layout.nlen, hA.layout.slen]; omega
    simp only [t01Read, isView_xor, if_true]
    have := gen_read x (some (n : Int)) fuel hd
    simp only [encOptInt] at this
    rw [this]
    simp only [xorView]
    cases C09.read x (some (n : Int)) with
    | error e => rfl
    | ok r => rfl
  seek := by
    intro x pf t hA
    simp only [t01Seek, isView_xor, if_true, gen_seek_default, xorView]
    cases C09.seek x t 0 with
    | error e => rfl
    | ok r => exact ⟨_, rfl⟩
  tell := by
    intro x pf hA
    simp only [t01Tell, isView_xor, if_true, gen_tell, xorView]
    rfl

theorem loop2_first (B : V) (d needle saved : Bytes) (pos : Int) (fuel : Nat) (hf : 1 ≤ fuel) :
    whileFuel fuel (Gen.PyExtract.iter_find_needle__first_loop2 B (.bytes needle) (.int 0) (.bytes saved) (.int pos) (.bytes d))
        (.none, .int (-1))
      = .ok (match C15.bytesFind? d needle 0 with
             | some q => (.tuple [.int (pos + (q : Int) - (saved.length : Int))], .int (q : Int))
             | none => (.none, .int (-1))) := by
  obtain ⟨fu, rfl⟩ : ∃ fu, fuel = fu + 1 := ⟨fuel - 1, by omega⟩
  have h0 : PyU.add (V.int (-1)) (V.int 1) = .ok (.int ((0 : Nat) : Int)) := rfl
  simp only [whileFuel, Gen.PyExtract.iter_find_needle__first_loop2, h0, find_bytes, PyRt.ok_bind]
  cases h : C15.bytesFind? d needle 0 with
  | none => simp [PyU.eq, pure_ok]
  | some q =>
    simp only [nat_ne_neg1, PyU.eq, truthy, add_int, len_bytes, sub_int, PyRt.ok_bind, pure_ok]
    simp

theorem needleFirst_unfold {σ} (F : FileLike σ) (B : Nat) (needle : Bytes) (s : σ) (saved : Bytes) :
    needleFirst F B needle s saved =
      match F.read s B with
      | .error e => .error e
      | .ok (block, s1) =>
        if block = [] then .ok (none, s1)
        else
          match C15.bytesFind? (saved ++ block) needle 0 with
          | some p => .ok (some (F.tell s + (p : Int) - (saved.length : Int)), s1)
          | none =>
            if F.remaining s1 < F.remaining s then needleFirst F B needle s1 (C15.nextSaved needle (saved ++ block))
            else .error .timeoutDiverge := by
  rw [needleFirst]
  cases F.read s B with
  | error e => rfl
  | ok r =>
    obtain ⟨block, s1⟩ := r
    simp only
    split
    · rfl
    · cases C15.bytesFind? (saved ++ block) needle 0 with
      | some p => rfl
      | none => simp only [dite_eq_ite]

/-- the block loop of the translated `iter_find_needle__first` (no limit) on the encoding of a model object that behaves as a
plain file: it computes `needleFirst`, which never raises there; the reported offset is not negative -/
theorem gen_needle_loop {σ} {F : FileLike σ} {abs : σ → PyFile → Prop} {enc : σ → V} {K : Nat} (hS : Sim F abs) (hE : EncOps F abs enc K)
    (B : Nat) (needle : Bytes) (fuel0 : Nat) (hK : K ≤ fuel0) (h1 : 1 ≤ fuel0) :
    ∀ (n : Nat) (s : σ) (pf : PyFile) (saved : Bytes) (fuel : Nat), pf.data.length - pf.pos = n → abs s pf → saved.length ≤ pf.pos →
      n < fuel →
      ∃ r sv pf', needleFirst F B needle s saved = .ok r ∧
        whileFuel fuel (Gen.PyExtract.iter_find_needle__first_loop1 (.int (B : Int)) fuel0 (.bytes needle) (.int 0)
            (.int ((needle.length : Int) - 1))) (enc s, .none, .bytes saved)
          = .ok (enc r.2, encRet V.int r.1, sv) ∧
        abs r.2 pf' ∧ pf'.data = pf.data ∧ (∀ off, r.1 = some off → 0 ≤ off) := by
  intro n
  induction n using Nat.strongRecOn with
  | _ n ih =>
    intro s pf saved fuel hn ha hsv hf
    obtain ⟨fu, rfl⟩ : ∃ fu, fuel = fu + 1 := ⟨fuel - 1, by omega⟩
    obtain ⟨s1, hr, a1⟩ := hS.read s pf B ha
    have hrd := hE.read s pf B fuel0 ha hK
    rw [hr] at hrd
    have htl := hE.tell s pf ha
    rw [hS.tell s pf ha] at htl
    rw [needleFirst_unfold, hr]
    simp only [whileFuel, Gen.PyExtract.iter_find_needle__first_loop1, htl, hrd, Except.map, PyRt.ok_bind, truthy, truthy_bytes, add_bytes,
      bne_self_eq_false, Bool.false_eq_true, if_false, pure_ok]
    by_cases hb : (pf.read (B : Int)).1 = []
    · refine ⟨(none, s1), .bytes saved, _, ?_, ?_, a1, PyFile.read_data pf B, fun off h => by cases h⟩
      · simp only [hb, if_true]
      · simp [hb, encRet]
    · have hbe : (pf.read (B : Int)).1.isEmpty = false := by
        cases hc : (pf.read (B : Int)).1 with
        | nil => exact absurd hc hb
        | cons _ _ => rfl
      simp only [hb, if_false, hbe, Bool.not_false, Bool.not_true, Bool.false_eq_true, loop2_first _ _ _ _ _ fuel0 h1, PyRt.ok_bind]
      cases hq : C15.bytesFind? (saved ++ (pf.read (B : Int)).1) needle 0 with
      | some q =>
        refine ⟨(some ((pf.pos : Int) + (q : Int) - (saved.length : Int)), s1), .bytes saved, _, ?_, ?_, a1, PyFile.read_data pf B, ?_⟩
        · rw [hS.tell s pf ha]
        · simp [isNone, encRet]
        · intro off h
          simp only [Option.some.injEq] at h
          omega
      | none =>
        have hprog := C15.read_progress pf B hb
        have hrem : F.remaining s1 < F.remaining s := by
          rw [hS.remaining s pf ha, hS.remaining s1 _ a1]; exact hprog
        have hpos : (pf.read (B : Int)).2.pos = pf.pos + (pf.read (B : Int)).1.length := PyFile.read_pos pf B
        have hdata : (pf.read (B : Int)).2.data = pf.data := PyFile.read_data pf B
        have hns : (C15.nextSaved needle (saved ++ (pf.read (B : Int)).1)).length ≤ (saved ++ (pf.read (B : Int)).1).length := by
          rw [C15.nextSaved_eq]; simp only [List.length_drop]; omega
        obtain ⟨r, sv, pf', e1, e2, a', hd', hoff⟩ := ih _ (by rw [← hn]; exact hprog) s1 _ (C15.nextSaved needle (saved ++ (pf.read (B : Int)).1)) fu rfl a1
          (by rw [hpos]; simp only [List.length_append] at hns; omega) (by rw [hdata, hpos]; rw [hdata, hpos] at hprog; omega)
        refine ⟨r, sv, pf', ?_, ?_, a', hd'.trans hdata, hoff⟩
        · simp only [hrem, if_true, e1]
        · simp only [isNone, Bool.not_true, Bool.false_eq_true, if_false]
          have hbody : (do
              let t18 ← PyU.gt (.int ((needle.length : Int) - 1)) (V.int 0)
              if t18 = true then do
                  let t22 ← PyU.neg (.int ((needle.length : Int) - 1))
                  let t21 ← PyU.slice (.bytes (saved ++ (pf.read (B : Int)).1)) t22 V.none
                  (Except.ok (Ctl.cont, enc s1, V.none, t21) : Py (Ctl × V × V × V))
                else Except.ok (Ctl.cont, enc s1, V.none, V.bytes []))
              = .ok (Ctl.cont, enc s1, V.none, V.bytes (C15.nextSaved needle (saved ++ (pf.read (B : Int)).1))) := by
            simp only [C15.nextSaved, C15.overlapLen, PyU.neg, asInt, gt_int, PyRt.ok_bind]
            by_cases h : (0 : Int) < (needle.length : Int) - 1
            · have h' : (needle.length : Int) - 1 > 0 := h
              simp only [h, h', decide_true, if_true, slice_from_neg _ (-((needle.length : Int) - 1)) (by omega), PyRt.ok_bind]
            · have h' : ¬ (needle.length : Int) - 1 > 0 := h
              simp only [h, h', decide_false, Bool.false_eq_true, if_false]
          rw [hbody]
          exact e2

theorem findLoop_head (d needle : Bytes) :
    C15.findLoop d needle 0 0 0 0 =
      match C15.bytesFind? d needle 0 with
      | none => []
      | some p => (((0 : Nat) : Int) + (p : Int) - ((0 : Nat) : Int)) :: C15.findLoop d needle 0 0 0 (p + 1) := by
  rw [C15.findLoop]
  split
  · rename_i h; rw [h]
  · rename_i p h; rw [h]; simp only [ne_eq, not_true_eq_false, false_and, if_false]

/-- what a consumer that never resumes `find_beacon_config_bytes` observes of the model's trace is the first-yield run: the
scanner up to its first offset, then `seek`, `read(PATCH_SIZE)`, un-XOR — for EVERY file-like object (no assumption) -/
theorem firstOf_scanLoop {σ} (F : FileLike σ) (B : Nat) (needle key : Bytes) :
    ∀ (n : Nat) (s : σ) (saved : Bytes), F.remaining s = n →
      firstOf (scanLoop F B needle key s saved) =
        match needleFirst F B needle s saved with
        | .error e => .error e
        | .ok (none, _) => .ok none
        | .ok (some off, s1) =>
          match F.seek s1 off with
          | .error e => .error e
          | .ok s2 =>
            match F.read s2 patchSize with
            | .error e => .error e
            | .ok (data, _) => .ok (some (C20.xor data key)) := by
  intro n
  induction n using Nat.strongRecOn with
  | _ n ih =>
    intro s saved hn
    rw [scanLoop_unfold, needleFirst_unfold]
    cases hr : F.read s B with
    | error e => rfl
    | ok r =>
      obtain ⟨block, s1⟩ := r
      simp only
      by_cases hb : block = []
      · simp only [hb, if_true]; rfl
      · simp only [hb, if_false]
        rw [findLoop_head]
        cases hq : C15.bytesFind? (saved ++ block) needle 0 with
        | none =>
          simp only [consume, List.nil_append]
          by_cases hrem : F.remaining s1 < F.remaining s
          · simp only [hrem, if_true]
            have := ih _ (by rw [← hn]; exact hrem) s1 (C15.nextSaved needle (saved ++ block)) rfl
            rw [← this]
          · simp only [hrem, if_false]; rfl
        | some p =>
          simp only [consume]
          have hoff : F.tell s - (saved.length : Int) + (((0 : Nat) : Int) + (p : Int) - ((0 : Nat) : Int))
              = F.tell s + (p : Int) - (saved.length : Int) := by omega
          rw [hoff]
          cases F.seek s1 (F.tell s + (p : Int) - (saved.length : Int)) with
          | error e => rfl
          | ok s2 =>
            simp only
            cases F.read s2 patchSize with
            | error e => rfl
            | ok r2 =>
              obtain ⟨data, s3⟩ := r2
              simp only
              generalize consume F key (F.tell s - (saved.length : Int)) _ s3 = rr
              cases hfin : rr.fin with
              | error e => simp only [firstOf]
              | ok s4 =>
                by_cases hg : F.remaining s4 < F.remaining s
                · simp only [hg, if_true, firstOf, List.cons_append]
                · simp only [hg, if_false, firstOf]

theorem firstOf_findConfigBytes {σ} (F : FileLike σ) (B : Nat) (s : σ) (key : Bytes) :
    firstOf (findConfigBytes F B s key) = (findFirst F B s key).map (·.1) := by
  simp only [findConfigBytes, findFirst, iterNeedleFirst]
  have h00 : ((0 : Nat) : Int) = 0 := rfl
  rw [h00]
  cases F.seek s 0 with
  | error e => rfl
  | ok s0 =>
    simp only
    rw [firstOf_scanLoop F B _ key _ s0 [] rfl]
    cases needleFirst F B (C20.xor configHeader key) s0 [] with
    | error e => rfl
    | ok r =>
      obtain ⟨o, s1⟩ := r
      cases o with
      | none => rfl
      | some off =>
        simp only
        cases F.seek s1 off with
        | error e => rfl
        | ok s2 =>
          simp only
          cases F.read s2 patchSize with
          | error e => rfl
          | ok r2 => rfl

theorem unpack2_tuple (a b : V) : PyU.unpack2 (.tuple [a, b]) = .ok (a, b) := rfl

theorem gen_iter_find_needle_first_aux {σ} {F : FileLike σ} {abs : σ → PyFile → Prop} {enc : σ → V} {K : Nat} (hS : Sim F abs)
    (hE : EncOps F abs enc K) (B : Nat) (s : σ) (pf : PyFile) (ha : abs s pf) (needle : Bytes) (start : Option Nat) (fuel : Nat)
    (hf : K + pf.data.length + 3 ≤ fuel) :
    ∃ r pf', iterNeedleFirst F B s needle start = .ok r ∧
      Gen.PyExtract.iter_find_needle__first (.int (B : Int)) fuel (enc s) (.bytes needle) (encOptNat start) (.int 0)
        = .ok (encFirst V.int enc r) ∧
      abs r.2 pf' ∧ pf'.data = pf.data ∧ (∀ off, r.1 = some off → 0 ≤ off) := by
  unfold Gen.PyExtract.iter_find_needle__first iterNeedleFirst
  cases start with
  | none =>
    obtain ⟨r, sv, pf', e1, e2, a', hd', hoff⟩ := gen_needle_loop hS hE B needle fuel (by omega) (by omega) _ s pf [] fuel rfl ha
      (by simp) (by omega)
    refine ⟨r, pf', e1, ?_, a', hd', hoff⟩
    simp only [encOptNat, isNone, len_bytes, sub_int, PyRt.ok_bind, Bool.not_true, Bool.false_eq_true, if_false, e2, pure_ok, encFirst]
  | some t =>
    obtain ⟨s0, h0, a0⟩ := hS.seek s pf t ha
    have hsk := hE.seek s pf (t : Int) ha
    rw [h0] at hsk
    obtain ⟨v, hv⟩ := hsk
    obtain ⟨r, sv, pf', e1, e2, a', hd', hoff⟩ := gen_needle_loop hS hE B needle fuel (by omega) (by omega) _ s0 _ [] fuel rfl a0
      (by simp) (by simp only; omega)
    refine ⟨r, pf', ?_, ?_, a', hd', hoff⟩
    · simp only [h0, e1]
    · simp only [encOptNat, isNone, len_bytes, sub_int, PyRt.ok_bind, Bool.not_false, if_true, hv, e2, pure_ok, encFirst]

theorem xor_bytes (d k : Bytes) : Gen.PyExtract.xor (.bytes d) (.bytes k) = .ok (.bytes (C20.xor d k)) := by
  simp only [Gen.PyExtract.xor, liftXor, C20Gen.gen_xor, Except.map]

theorem gen_find_first_aux {σ} {F : FileLike σ} {abs : σ → PyFile → Prop} {enc : σ → V} {K : Nat} (hS : Sim F abs)
    (hE : EncOps F abs enc K) (B : Nat) (s : σ) (pf : PyFile) (ha : abs s pf) (key : Bytes) (fuel : Nat)
    (hf : K + pf.data.length + 3 ≤ fuel) :
    ∃ r pf', findFirst F B s key = .ok r ∧
      Gen.PyExtract.find_beacon_config_bytes__first (.int (B : Int)) fuel (enc s) (.bytes key) = .ok (encFirst V.bytes enc r) ∧
      abs r.2 pf' ∧ pf'.data = pf.data := by
  obtain ⟨r, pf1, e1, e2, a1, hd1, hoff⟩ := gen_iter_find_needle_first_aux hS hE B s pf ha (C20.xor configHeader key) (some 0) fuel hf
  have hc : (V.bytes [0, 1, 0, 1, 0, 2, 0]) = V.bytes configHeader := rfl
  have hp : (V.int 4096) = V.int ((patchSize : Nat) : Int) := rfl
  simp only [encOptNat] at e2
  have h00 : (V.int ((0 : Nat) : Int)) = V.int 0 := rfl
  rw [h00] at e2
  unfold Gen.PyExtract.find_beacon_config_bytes__first findFirst
  simp only [hc, hp, xor_bytes, PyRt.ok_bind, e2, e1, encFirst, unpack2_tuple]
  obtain ⟨o, s1⟩ := r
  cases o with
  | none =>
    refine ⟨(none, s1), pf1, rfl, ?_, a1, hd1⟩
    simp [encRet, isNone, pure_ok]
  | some off =>
    have hnn := hoff off rfl
    obtain ⟨t, rfl⟩ : ∃ t : Nat, off = (t : Int) := ⟨off.toNat, by omega⟩
    obtain ⟨s2, h2, a2⟩ := hS.seek s1 pf1 t a1
    have hsk := hE.seek s1 pf1 (t : Int) a1
    rw [h2] at hsk
    obtain ⟨v, hv⟩ := hsk
    obtain ⟨s3, h3, a3⟩ := hS.read s2 _ patchSize a2
    have hrd := hE.read s2 _ patchSize fuel a2 (by omega)
    rw [h3] at hrd
    refine ⟨(some (C20.xor (({ pf1 with pos := t } : PyFile).read (patchSize : Int)).1 key), s3), _, ?_, ?_, a3, ?_⟩
    · simp only [h2, h3]
    · have hgi : PyU.getItem (V.tuple [V.int (t : Int)]) (V.int 0) = .ok (V.int (t : Int)) := by
        simp [getItem, asInt, PyRt.normIdx, Except.map]
      simp only [encRet, isNone, Bool.not_false, if_true, hgi, PyRt.ok_bind, hv, hrd, Except.map, t01Hex, fmtS, fmt, xor_bytes, pure_ok]
      rfl
    · simp only [PyFile.read_data]; exact hd1

/-! ### `iter_beacon_config_blocks` -/

theorem loop2_same (xff : V → Py V) (b : V) (lk : V → V → Py V) (fuel : Nat) :
    Gen.PyExtract.iter_beacon_config_blocks__first_loop2 xff b lk fuel = Gen.PyExtract.iter_beacon_config_blocks_nr__first_loop2 xff b fuel := rfl
theorem loop1_same (xff : V → Py V) (b : V) (lk : V → V → Py V) (fuel : Nat) :
    Gen.PyExtract.iter_beacon_config_blocks__first_loop1 xff b lk fuel = Gen.PyExtract.iter_beacon_config_blocks_nr__first_loop1 xff b fuel := rfl

/-- a scan that ends without a yield leaves the file-like object where the fully consumed generator leaves it -/
theorem scanLoop_of_none {σ} (F : FileLike σ) (B : Nat) (needle key : Bytes) :
    ∀ (n : Nat) (s : σ) (saved : Bytes) (s1 : σ), F.remaining s = n → needleFirst F B needle s saved = .ok (none, s1) →
      scanLoop F B needle key s saved = ⟨[], .ok s1⟩ := by
  intro n
  induction n using Nat.strongRecOn with
  | _ n ih =>
    intro s saved s1 hn h
    rw [needleFirst_unfold] at h
    rw [scanLoop_unfold]
    cases hr : F.read s B with
    | error e => rw [hr] at h; cases h
    | ok r =>
      obtain ⟨block, s2⟩ := r
      rw [hr] at h
      simp only at h ⊢
      by_cases hb : block = []
      · simp only [hb, if_true] at h ⊢
        injection h with h; injection h with _ h2; rw [h2]
      · simp only [hb, if_false] at h ⊢
        rw [findLoop_head]
        cases hq : C15.bytesFind? (saved ++ block) needle 0 with
        | some p => rw [hq] at h; cases h
        | none =>
          rw [hq] at h
          simp only [consume, List.nil_append]
          by_cases hrem : F.remaining s2 < F.remaining s
          · simp only [hrem, if_true] at h ⊢
            rw [ih _ (by rw [← hn]; exact hrem) s2 _ s1 rfl h]
          · simp only [hrem, if_false] at h; cases h

theorem findConfigBytes_of_none {σ} (F : FileLike σ) (B : Nat) (s : σ) (key : Bytes) (s1 : σ)
    (h : findFirst F B s key = .ok (none, s1)) : findConfigBytes F B s key = ⟨[], .ok s1⟩ := by
  simp only [findFirst, iterNeedleFirst] at h
  simp only [findConfigBytes]
  have h00 : ((0 : Nat) : Int) = 0 := rfl
  rw [h00] at h
  cases hs : F.seek s 0 with
  | error e => rw [hs] at h; cases h
  | ok s0 =>
    rw [hs] at h
    simp only at h ⊢
    cases hn : needleFirst F B (C20.xor configHeader key) s0 [] with
    | error e => rw [hn] at h; cases h
    | ok r =>
      obtain ⟨o, s2⟩ := r
      rw [hn] at h
      cases o with
      | none =>
        simp only at h
        injection h with h; injection h with _ h2; subst h2
        exact scanLoop_of_none F B _ key _ s0 [] s2 rfl hn
      | some off =>
        simp only at h
        cases hk : F.seek s2 off with
        | error e => rw [hk] at h; cases h
        | ok s3 =>
          rw [hk] at h
          simp only at h
          cases hr : F.read s3 patchSize with
          | error e => rw [hr] at h; cases h
          | ok r2 => rw [hr] at h; cases h

/-- the key loop: what a consumer that never resumes it observes of the model's trace is the first-yield run -/
theorem firstOf_overKeys {σ} (F : FileLike σ) (B : Nat) (enc : Bool) :
    ∀ (keys : List Bytes) (s : σ), firstOf (overKeys F B enc keys s) = (overKeysFirst F B enc keys s).map (·.1) := by
  intro keys
  induction keys with
  | nil => intro s; rfl
  | cons k ks ih =>
    intro s
    have h1 := firstOf_findConfigBytes F B s k
    simp only [overKeys, overKeysFirst]
    cases hf : findFirst F B s k with
    | error e =>
      rw [hf] at h1
      generalize findConfigBytes F B s k = t at h1 ⊢
      obtain ⟨ys, fin⟩ := t
      cases ys with
      | cons y ys' => simp [firstOf, Except.map] at h1
      | nil =>
        cases fin with
        | ok s' => simp [firstOf, Except.map] at h1
        | error e' =>
          simp only [firstOf, Except.map, Except.error.injEq] at h1
          subst h1
          rfl
    | ok r =>
      obtain ⟨o, s'⟩ := r
      cases o with
      | none =>
        rw [findConfigBytes_of_none F B s k s' hf]
        simp only [List.map_nil, List.nil_append]
        exact ih s'
      | some b =>
        rw [hf] at h1
        generalize findConfigBytes F B s k = t at h1 ⊢
        obtain ⟨ys, fin⟩ := t
        cases ys with
        | nil => cases fin <;> simp [firstOf, Except.map] at h1
        | cons y ys' =>
          simp only [firstOf, Except.map, Except.ok.injEq, Option.some.injEq] at h1
          subst h1
          cases fin <;> rfl

theorem mkDict_res (k : Bytes) (b : Bool) :
    PyU.mkDict [((PyU.lit "xorkey"), V.bytes k), ((PyU.lit "xorencoded"), (V.bool b))]
      = .ok (.dict [PyU.lit "xorkey", PyU.lit "xorencoded"] [.bytes k, .bool b]) := by
  simp [mkDict, hashable, dictInsert, lit, findKey, keyEq, PyU.eq, cps]

theorem getItem_single (v : V) : PyU.getItem (V.tuple [v]) (V.int 0) = .ok v := by
  simp [getItem, asInt, PyRt.normIdx, Except.map]

/-- the key loop of phase 2 (the file itself) -/
theorem gen_keys_loop_raw (xff : V → Py V) (B : Nat) (fuel : Nat) :
    ∀ (keys : List Bytes) (f : PyFile), f.data.length + 3 ≤ fuel →
      ∃ r, overKeysFirst rawFile B false keys f = .ok r ∧ r.2.data = f.data ∧
        forList (keys.map V.bytes) (Gen.PyExtract.iter_beacon_config_blocks_nr__first_loop2 xff (.int (B : Int)) fuel)
            (encFile f, V.none, V.bool false)
          = .ok (encFile r.2, encRet encResult r.1, V.bool r.1.isSome) := by
  intro keys
  induction keys with
  | nil => intro f _; exact ⟨(none, f), rfl, rfl, rfl⟩
  | cons k ks ih =>
    intro f hf
    obtain ⟨r, pf', e1, e2, a', hd'⟩ := gen_find_first_aux sim_raw encOps_raw B f f rfl k fuel (by omega)
    obtain ⟨o, f1⟩ := r
    simp only at a' hd' e2
    subst a'
    simp only [List.map_cons, forList, Gen.PyExtract.iter_beacon_config_blocks_nr__first_loop2, e2, PyRt.ok_bind, encFirst, unpack2_tuple,
      overKeysFirst, e1]
    cases o with
    | none =>
      obtain ⟨r2, g1, g2, g3⟩ := ih f1 (by rw [hd']; exact hf)
      refine ⟨r2, g1, g2.trans hd', ?_⟩
      simp only [encRet, isNone, Bool.not_true, Bool.false_eq_true, if_false, pure_ok, g3]
    | some b =>
      refine ⟨(some ⟨b, k, false⟩, f1), rfl, hd', ?_⟩
      simp only [encRet, isNone, Bool.not_false, if_true, getItem_single, PyRt.ok_bind, mkDict_res, pure_ok, encResult, Option.isSome]

theorem attach_detach (x : C09.XorFile) : t01Attach (t01Detach (encXor x)) (encFile x.fh) = .ok (encXor x) := by
  simp [t01Attach, t01Detach, encXor, t01Self]

theorem store_xor (x : C09.XorFile) : t01Store (encXor x) = encFile x.fh := by
  simp [t01Store, encXor]

/-- the key loop of phase 1 (the XorEncoded view, through its handle) -/
theorem gen_keys_loop_xor (stub nonce size enc : Bytes) (xff : V → Py V) (B : Nat) (fuel : Nat) :
    ∀ (keys : List Bytes) (x : C09.XorFile) (pf : PyFile), C09.Abs stub nonce size enc x pf →
      (stub.length + 8 + enc.length + 1) + pf.data.length + 3 ≤ fuel →
      ∃ r pf', overKeysFirst xorView B true keys x = .ok r ∧ C09.Abs stub nonce size enc r.2 pf' ∧ pf'.data = pf.data ∧
        forList (keys.map V.bytes) (Gen.PyExtract.iter_beacon_config_blocks_nr__first_loop1 xff (.int (B : Int)) fuel)
            (encFile x.fh, V.none, V.bool false, t01Detach (encXor x))
          = .ok (encFile r.2.fh, encRet encResult r.1, V.bool r.1.isSome, t01Detach (encXor r.2)) := by
  intro keys
  induction keys with
  | nil => intro x pf hA _; exact ⟨(none, x), pf, rfl, hA, rfl, rfl⟩
  | cons k ks ih =>
    intro x pf hA hf
    obtain ⟨r, pf', e1, e2, a', hd'⟩ := gen_find_first_aux (sim_xor stub nonce size enc) (encOps_xor stub nonce size enc) B x pf hA k fuel hf
    obtain ⟨o, x1⟩ := r
    simp only at a' hd' e2
    simp only [List.map_cons, forList, Gen.PyExtract.iter_beacon_config_blocks_nr__first_loop1, attach_detach, e2, PyRt.ok_bind, encFirst,
      unpack2_tuple, store_xor, overKeysFirst, e1]
    cases o with
    | none =>
      obtain ⟨r2, pf2, g1, g2, g3, g4⟩ := ih x1 pf' a' (by rw [hd']; exact hf)
      refine ⟨r2, pf2, g1, g2, g3.trans hd', ?_⟩
      simp only [encRet, isNone, Bool.not_true, Bool.false_eq_true, if_false, pure_ok, g4]
    | some b =>
      refine ⟨(some ⟨b, k, true⟩, x1), pf', rfl, a', hd', ?_⟩
      simp only [encRet, isNone, Bool.not_false, if_true, getItem_single, PyRt.ok_bind, mkDict_res, pure_ok, encResult, Option.isSome]

theorem reprL_bytes : ∀ ks : List Bytes, ∃ r, PyU.reprL (ks.map V.bytes) = .ok r := by
  intro ks
  induction ks with
  | nil => exact ⟨[], rfl⟩
  | cons k ks ih =>
    obtain ⟨r, hr⟩ := ih
    simp only [List.map_cons, PyU.reprL, PyU.repr, hr]
    exact ⟨_, rfl⟩

theorem fmtR_keys (ks : List Bytes) : ∃ t, PyU.fmtR (encKeys ks) = .ok t := by
  obtain ⟨r, hr⟩ := reprL_bytes ks
  exact ⟨91 :: r ++ [93], by simp only [fmtR, encKeys, PyU.repr, hr]⟩

theorem fmtS_keys (ks : List Bytes) : ∃ t, PyU.fmtS (encKeys ks) = .ok t := by
  obtain ⟨r, hr⟩ := reprL_bytes ks
  exact ⟨91 :: r ++ [93], by simp only [fmtS, encKeys, PyU.repr, hr]⟩

/-- the first-yield run of the key loop on an object that behaves as a plain file over `data` finds the first candidate of the
specification (C01 `overKeys_spec`, through `firstOf_overKeys`) -/
theorem overKeysFirst_spec {σ} {F : FileLike σ} {abs} (hS : Sim F abs) (B : Nat) (hB : 1 ≤ B) (enc : Bool) (data : Bytes)
    (keys : List Bytes) (s : σ) (pf : PyFile) (ha : abs s pf) (hd : pf.data = data) (r : Option Result × σ)
    (h : overKeysFirst F B enc keys s = .ok r) : r.1 = (candsIn enc data keys).head?.map Cand.result := by
  have h1 := firstOf_overKeys F B enc keys s
  rw [h] at h1
  obtain ⟨h2, h3⟩ := overKeys_spec hS B hB enc data keys s pf ha hd
  generalize overKeys F B enc keys s = t at h1 h2 h3
  obtain ⟨ys, fin⟩ := t
  cases ys with
  | cons y ys' =>
    simp only [firstOf, Except.map, Except.ok.injEq] at h1
    simp only [List.head?_cons] at h2
    rw [← h1, ← h2]
  | nil =>
    obtain ⟨s', hs'⟩ := h3 rfl
    simp only at hs'
    subst hs'
    simp only [firstOf, Except.map, Except.ok.injEq] at h1
    simp only [List.head?_nil] at h2
    rw [← h1, ← h2]

theorem encKeys_default : (V.list [(V.bytes [105]), (V.bytes [46]), (V.bytes [0])]) = encKeys defaultXorKeys := rfl

theorem keys_cases (ks : Option (List Bytes)) :
    ((!truthy (encKeysOpt ks)) = true ∧ effKeysOpt ks = defaultXorKeys) ∨
    ((!truthy (encKeysOpt ks)) = false ∧ encKeysOpt ks = encKeys (effKeysOpt ks)) := by
  cases ks with
  | none => left; exact ⟨rfl, rfl⟩
  | some l =>
    cases l with
    | nil => left; exact ⟨rfl, rfl⟩
    | cons a l => right; exact ⟨rfl, rfl⟩

theorem tc_ok {α : Type} (a : α) (h : PyExc → Py α) : tryCatch (Except.ok a : Py α) h = .ok a := rfl
theorem tc_pure {α : Type} (a : α) (h : PyExc → Py α) : tryCatch (pure a : Py α) h = .ok a := rfl
theorem tc_state {σ : Type} (s : σ) (h : PyExc → Py (Unit × σ)) : tryCatch ((pure () : StateT σ Py Unit) s) h = .ok ((), s) := rfl
theorem truthy_false : truthy (V.bool false) = false := rfl
theorem truthy_bool (b : Bool) : truthy (V.bool b) = b := rfl

theorem gen_blocks_nr_aux (B : Nat) (hB : 1 ≤ B) (data : Bytes) (f : PyFile) (hfd : f.data = data) (ks : Option (List Bytes)) (det : Option Nat)
    (hdet : ∀ c, det = some c → c + 8 ≤ data.length) (xff : V → Py V) (hx : XffSpec xff data det) (fuel : Nat)
    (hf : 2 * data.length + 4 ≤ fuel) :
    ∃ g : PyFile, g.data = data ∧
      Gen.PyExtract.iter_beacon_config_blocks_nr__first xff (.int (B : Int)) fuel (encFile f) (encKeysOpt ks)
        = .ok (.tuple [encSpec data det (effKeysOpt ks), encFile g]) := by
  obtain ⟨t, ht⟩ := fmtR_keys (effKeysOpt ks)
  unfold Gen.PyExtract.iter_beacon_config_blocks_nr__first
  rcases keys_cases ks with ⟨ha1, ha2⟩ | ⟨hb1, hb2⟩
  all_goals
    first
      | simp only [ha1, if_true, encKeys_default, ← ha2]
      | (simp only [hb1, Bool.false_eq_true, if_false]; simp only [hb2])
    simp only [ht, PyRt.ok_bind, truthy_false, Bool.not_false, if_true]
    have hxs := hx f hfd
    cases det with
    | none =>
      obtain ⟨g', hg', hd'⟩ := hxs
      obtain ⟨r, e1, e2, e3⟩ := gen_keys_loop_raw xff B fuel (effKeysOpt ks) g' (by rw [hd']; omega)
      have hr := overKeysFirst_spec sim_raw B hB false data (effKeysOpt ks) g' g' rfl hd' r e1
      refine ⟨r.2, e2.trans hd', ?_⟩
      simp only [hg', encDetect, PyRt.ok_bind, unpack2_tuple, isNone, if_true, pure_ok, encKeys, iterList, e3, encSpec, candidates_views,
        List.nil_append, hr, truthy_false, Bool.not_false]
    | some c =>
      obtain ⟨x, hov, hxx⟩ := hxs
      obtain ⟨x', hx', hA⟩ := openView_spec f c (by rw [hfd]; exact hdet c rfl)
      rw [hov] at hx'
      injection hx' with hx'
      subst hx'
      have hlen : (f.data.take c).length + 8 + (f.data.drop (c + 8)).length + 1 + (decodedView f.data c).length + 3 ≤ fuel := by
        have := decodedView_length_le f.data c
        have h8 := hdet c rfl
        rw [← hfd] at h8 hf
        simp only [List.length_take, List.length_drop]
        omega
      obtain ⟨r, pf', e1, a', hd', e4⟩ := gen_keys_loop_xor _ _ _ _ xff B fuel (effKeysOpt ks) x _ hA hlen
      have hr := overKeysFirst_spec (sim_xor _ _ _ _) B hB true (decodedView data c) (effKeysOpt ks) x _ hA (by rw [hfd]) r e1
      have hrd : r.2.fh.data = data := by
        rw [a'.layout.data, ← hfd]
        exact (split_at_nonce f.data c (by rw [hfd]; exact hdet c rfl)).1.symm
      have hnn : isNone (t01Detach (encXor x)) = false := rfl
      simp only [hxx, encDetect, PyRt.ok_bind, unpack2_tuple, encKeys, iterList, e4, hnn, Bool.false_eq_true, if_false, tc_ok, tc_pure, tc_state, pure_ok,
        truthy_bool]
      cases hr1 : r.1 with
      | some y =>
        refine ⟨r.2.fh, hrd, ?_⟩
        have hy : (candsIn true (decodedView data c) (effKeysOpt ks)).head?.map Cand.result = some y := by rw [← hr, hr1]
        have hhead : ((candsIn true (decodedView data c) (effKeysOpt ks)) ++ candsIn false data (effKeysOpt ks)).head?
            = (candsIn true (decodedView data c) (effKeysOpt ks)).head? := by
          cases hh : candsIn true (decodedView data c) (effKeysOpt ks) with
          | nil => rw [hh] at hy; simp at hy
          | cons a as => rfl
        simp only [encRet, tc_pure, tc_state, PyRt.ok_bind, isNone, Bool.false_eq_true, if_false, encSpec, candidates_views, hhead, hy]
      | none =>
        obtain ⟨r2, f1, f2, f3⟩ := gen_keys_loop_raw xff B fuel (effKeysOpt ks) r.2.fh (by rw [hrd]; omega)
        have hr2 := overKeysFirst_spec sim_raw B hB false data (effKeysOpt ks) r.2.fh r.2.fh rfl hrd r2 f1
        refine ⟨r2.2, f2.trans hrd, ?_⟩
        have hnil : candsIn true (decodedView data c) (effKeysOpt ks) = [] := by
          have : (candsIn true (decodedView data c) (effKeysOpt ks)).head?.map Cand.result = none := by rw [← hr, hr1]
          cases hh : candsIn true (decodedView data c) (effKeysOpt ks) with
          | nil => rfl
          | cons a as => rw [hh] at this; simp at this
        simp only [encRet, tc_pure, tc_state, truthy_bool, isNone, if_true, Option.isSome, Bool.not_false, f3, PyRt.ok_bind, encSpec, candidates_views, hnil, List.nil_append,
          hr2]

theorem attach_self (g : PyFile) : t01Attach t01Self (encFile g) = .ok (encFile g) := by
  simp [t01Attach, t01Self, T01SelfCls]
theorem store_file (g : PyFile) : t01Store (encFile g) = encFile g := by
  simp [t01Store, encFile, mkFile, FileCls, Gen.PyXor.XorEncodedFile]
theorem isNone_none : isNone V.none = true := rfl
theorem isNone_tuple (l : List V) : isNone (V.tuple l) = false := rfl
theorem iterList_keys (ks : List Bytes) : iterList (encKeys ks) = .ok (ks.map V.bytes) := rfl
theorem isNone_detach (x : C09.XorFile) : isNone (t01Detach (encXor x)) = false := rfl

theorem searchSpec_some (data : Bytes) (ks : List Bytes) (ak : Bool) (det : Option Nat) (left : List Bytes) (c : Cand)
    (h : (candidates (views data det) (effKeys ks)).head? = some c) : searchSpec data ks ak det left = some c := by
  simp only [searchSpec, h]

theorem searchSpec_none (data : Bytes) (ks : List Bytes) (ak : Bool) (det : Option Nat) (left : List Bytes)
    (h : (candidates (views data det) (effKeys ks)).head? = none) :
    searchSpec data ks ak det left = if ak then (candidates (views data det) (effKeys left)).head? else none := by
  simp only [searchSpec, h]

/-- the retry block, from the state in which the two phases leave the file: detector, key order, the specialised function -/
theorem gen_retry (B : Nat) (hB : 1 ≤ B) (data : Bytes) (g : PyFile) (hgd : g.data = data) (keys left : List Bytes) (det : Option Nat)
    (hdet : ∀ c, det = some c → c + 8 ≤ data.length) (xff : V → Py V) (hx : XffSpec xff data det) (lk : V → V → Py V)
    (hl : LeftSpec lk data keys left) (fuel : Nat) (hf : 2 * data.length + 4 ≤ fuel) :
    ∃ (h a : V) (g1 g2 : PyFile) (ts : PyRt.Str), g2.data = data ∧
      xff (encFile g) = .ok (.tuple [h, encFile g1]) ∧
      t01Attach (if isNone h then t01Self else h) (encFile g1) = .ok a ∧
      (∃ a', lk a (encKeys keys) = .ok (.tuple [encKeys left, a']) ∧
        fmtS (encKeys left) = .ok ts ∧
        Gen.PyExtract.iter_beacon_config_blocks_nr__first xff (.int (B : Int)) fuel (t01Store a') (encKeys left)
          = .ok (.tuple [encSpec data det (effKeys left), encFile g2])) := by
  obtain ⟨ts, hts⟩ := fmtS_keys left
  have hxs := hx g hgd
  have hk : encKeys left = encKeysOpt (some left) := rfl
  cases det with
  | none =>
    obtain ⟨g', hg', hd'⟩ := hxs
    obtain ⟨g1, hl1, hd1⟩ := hl.1 g' hd'
    obtain ⟨g2, hd2, e2⟩ := gen_blocks_nr_aux B hB data g1 hd1 (some left) none hdet xff hx fuel hf
    refine ⟨.none, encFile g', g', g2, ts, hd2, hg', ?_, encFile g1, hl1, hts, ?_⟩
    · simp only [isNone, if_true, attach_self]
    · rw [store_file, hk, e2]; rfl
  | some c =>
    obtain ⟨x, hov, hxx⟩ := hxs
    obtain ⟨x', hx', hA⟩ := openView_spec g c (by rw [hgd]; exact hdet c rfl)
    rw [hov] at hx'
    injection hx' with hx'
    subst hx'
    have hxd : x.fh.data = data := by
      rw [hA.layout.data, ← hgd]
      exact (split_at_nonce g.data c (by rw [hgd]; exact hdet c rfl)).1.symm
    obtain ⟨x1, hl1, hd1⟩ := hl.2 x hxd
    obtain ⟨g2, hd2, e2⟩ := gen_blocks_nr_aux B hB data x1.fh hd1 (some left) (some c) hdet xff hx fuel hf
    refine ⟨t01Detach (encXor x), encXor x, x.fh, g2, ts, hd2, hxx, ?_, encXor x1, hl1, hts, ?_⟩
    · simp only [isNone_detach, Bool.false_eq_true, if_false, attach_detach]
    · rw [store_xor, hk, e2]; rfl

theorem gen_blocks_aux (B : Nat) (hB : 1 ≤ B) (data : Bytes) (f : PyFile) (hfd : f.data = data) (ks : Option (List Bytes)) (ak : Bool)
    (det : Option Nat) (hdet : ∀ c, det = some c → c + 8 ≤ data.length) (xff : V → Py V) (hx : XffSpec xff data det)
    (lk : V → V → Py V) (left : List Bytes) (hl : LeftSpec lk data (effKeysOpt ks) left) (fuel : Nat) (hf : 2 * data.length + 4 ≤ fuel) :
    ∃ g : PyFile, g.data = data ∧
      Gen.PyExtract.iter_beacon_config_blocks__first xff (.int (B : Int)) lk fuel (encFile f) (encKeysOpt ks) (.bool ak)
        = .ok (.tuple [encSearch data (ks.getD []) ak det left, encFile g]) := by
  obtain ⟨t, ht⟩ := fmtR_keys (effKeysOpt ks)
  -- what the retry block does from any state of the file
  have retry : ∀ g : PyFile, g.data = data → ∃ g2 : PyFile, g2.data = data ∧
      (if ((!truthy (V.bool false)) && truthy (V.bool ak)) = true then do
          let t20 ← xff (encFile g)
          let t21 ← unpack2 t20
          if isNone t21.fst = true then do
            let t22 ← t01Attach t01Self t21.snd
            let t23 ← lk t22 (encKeys (effKeysOpt ks))
            let t24 ← unpack2 t23
            let _ ← fmtS t24.fst
            let t26 ← Gen.PyExtract.iter_beacon_config_blocks_nr__first xff (.int (B : Int)) fuel (t01Store t24.snd) t24.fst
            let t27 ← unpack2 t26
            if (!isNone t27.fst) = true then do
              let t28 ← getItem t27.fst (V.int 0)
              (pure (V.tuple [V.tuple [t28], t27.snd]) : Py V)
            else pure (V.tuple [V.none, t27.snd])
          else do
            let t22 ← t01Attach t21.fst t21.snd
            let t23 ← lk t22 (encKeys (effKeysOpt ks))
            let t24 ← unpack2 t23
            let _ ← fmtS t24.fst
            let t26 ← Gen.PyExtract.iter_beacon_config_blocks_nr__first xff (.int (B : Int)) fuel (t01Store t24.snd) t24.fst
            let t27 ← unpack2 t26
            if (!isNone t27.fst) = true then do
              let t28 ← getItem t27.fst (V.int 0)
              (pure (V.tuple [V.tuple [t28], t27.snd]) : Py V)
            else pure (V.tuple [V.none, t27.snd])
        else pure (V.tuple [V.none, encFile g]))
      = .ok (.tuple [encRet encResult ((if ak then (candidates (views data det) (effKeys left)).head? else none).map Cand.result), encFile g2]) := by
    intro g hgd
    cases ak with
    | false => exact ⟨g, hgd, rfl⟩
    | true =>
      obtain ⟨h, a, g1, g2, ts, hd2, h1, h2, a', h3, h4, h5⟩ := gen_retry B hB data g hgd (effKeysOpt ks) left det hdet xff hx lk hl fuel hf
      refine ⟨g2, hd2, ?_⟩
      simp only [truthy_false, truthy_bool, Bool.not_false, Bool.and_self, if_true, h1, PyRt.ok_bind, unpack2_tuple]
      cases hh : isNone h with
      | true =>
        simp only [hh, if_true] at h2
        simp only [if_true, h2, PyRt.ok_bind, h3, unpack2_tuple, h4, h5, encSpec]
        cases (candidates (views data det) (effKeys left)).head? with
        | none => rfl
        | some c => simp only [Option.map_some, encRet, isNone, Bool.not_false, if_true, getItem_single, PyRt.ok_bind]; rfl
      | false =>
        simp only [hh, Bool.false_eq_true, if_false] at h2
        simp only [Bool.false_eq_true, if_false, h2, PyRt.ok_bind, h3, unpack2_tuple, h4, h5, encSpec]
        cases (candidates (views data det) (effKeys left)).head? with
        | none => rfl
        | some c => simp only [Option.map_some, encRet, isNone, Bool.not_false, if_true, getItem_single, PyRt.ok_bind]; rfl
  unfold Gen.PyExtract.iter_beacon_config_blocks__first
  rcases keys_cases ks with ⟨ha1, ha2⟩ | ⟨hb1, hb2⟩
  all_goals
    first
      | simp only [ha1, if_true, encKeys_default, ← ha2]
      | (simp only [hb1, Bool.false_eq_true, if_false]; simp only [hb2])
  all_goals
    simp only [ht, PyRt.ok_bind, truthy_false, Bool.not_false, if_true, loop1_same, loop2_same]
    have hxs := hx f hfd
    cases det with
    | none =>
      obtain ⟨g', hg', hd'⟩ := hxs
      obtain ⟨r, e1, e2, e3⟩ := gen_keys_loop_raw xff B fuel (effKeysOpt ks) g' (by rw [hd']; omega)
      have hr := overKeysFirst_spec sim_raw B hB false data (effKeysOpt ks) g' g' rfl hd' r e1
      simp only [hg', encDetect, PyRt.ok_bind, unpack2_tuple, isNone_none, if_true, pure_ok, iterList_keys, e3, truthy_false, Bool.not_false]
      have hsp : (candidates (views data none) (effKeysOpt ks)).head?.map Cand.result = r.1 := by
        rw [candidates_views, List.nil_append, hr]
      cases hr1 : r.1 with
      | some y =>
        refine ⟨r.2, e2.trans hd', ?_⟩
        rw [hr1] at hsp
        obtain ⟨c0, hc0, hc1⟩ := Option.map_eq_some_iff.mp hsp
        simp only [encRet, isNone_tuple, Bool.false_eq_true, if_false, encSearch, searchSpec_some data _ ak none left c0 hc0, Option.map_some, hc1]
      | none =>
        rw [hr1] at hsp
        have hn : (candidates (views data none) (effKeys (ks.getD []))).head? = none := by
          cases hh : (candidates (views data none) (effKeysOpt ks)).head? with
          | none => exact hh
          | some v => rw [hh] at hsp; simp at hsp
        obtain ⟨g2, hg2, hre⟩ := retry r.2 (e2.trans hd')
        refine ⟨g2, hg2, ?_⟩
        simp only [encRet, isNone_none, if_true, Option.isSome, encSearch, searchSpec_none data _ ak none left hn]
        exact hre
    | some c =>
      obtain ⟨x, hov, hxx⟩ := hxs
      obtain ⟨x', hx', hA⟩ := openView_spec f c (by rw [hfd]; exact hdet c rfl)
      rw [hov] at hx'
      injection hx' with hx'
      subst hx'
      have hlen : (f.data.take c).length + 8 + (f.data.drop (c + 8)).length + 1 + (decodedView f.data c).length + 3 ≤ fuel := by
        have := decodedView_length_le f.data c
        have h8 := hdet c rfl
        rw [← hfd] at h8 hf
        simp only [List.length_take, List.length_drop]
        omega
      obtain ⟨r, pf', e1, a', hd', e4⟩ := gen_keys_loop_xor _ _ _ _ xff B fuel (effKeysOpt ks) x _ hA hlen
      have hr := overKeysFirst_spec (sim_xor _ _ _ _) B hB true (decodedView data c) (effKeysOpt ks) x _ hA (by rw [hfd]) r e1
      have hrd : r.2.fh.data = data := by
        rw [a'.layout.data, ← hfd]
        exact (split_at_nonce f.data c (by rw [hfd]; exact hdet c rfl)).1.symm
      simp only [hxx, encDetect, PyRt.ok_bind, unpack2_tuple, iterList_keys, e4, isNone_detach, Bool.false_eq_true, if_false, tc_ok, tc_pure,
        tc_state, pure_ok, truthy_bool]
      cases hr1 : r.1 with
      | some y =>
        refine ⟨r.2.fh, hrd, ?_⟩
        have hy : (candsIn true (decodedView data c) (effKeysOpt ks)).head?.map Cand.result = some y := by rw [← hr, hr1]
        have hhead : (candidates (views data (some c)) (effKeysOpt ks)).head?
            = (candsIn true (decodedView data c) (effKeysOpt ks)).head? := by
          rw [candidates_views]
          simp only
          cases hh : candsIn true (decodedView data c) (effKeysOpt ks) with
          | nil => rw [hh] at hy; simp at hy
          | cons a as => rfl
        obtain ⟨c0, hc0, hc1⟩ := Option.map_eq_some_iff.mp hy
        simp only [encRet, isNone_tuple, Bool.false_eq_true, if_false, encSearch,
          searchSpec_some data _ ak (some c) left c0 (hhead.trans hc0), Option.map_some, hc1]
      | none =>
        obtain ⟨r2, f1, f2, f3⟩ := gen_keys_loop_raw xff B fuel (effKeysOpt ks) r.2.fh (by rw [hrd]; omega)
        have hr2 := overKeysFirst_spec sim_raw B hB false data (effKeysOpt ks) r.2.fh r.2.fh rfl hrd r2 f1
        have hnil : candsIn true (decodedView data c) (effKeysOpt ks) = [] := by
          have : (candsIn true (decodedView data c) (effKeysOpt ks)).head?.map Cand.result = none := by rw [← hr, hr1]
          cases hh : candsIn true (decodedView data c) (effKeysOpt ks) with
          | nil => rfl
          | cons a as => rw [hh] at this; simp at this
        have hsp : (candidates (views data (some c)) (effKeysOpt ks)).head?.map Cand.result = r2.1 := by
          rw [candidates_views]; simp only [hnil, List.nil_append, hr2]
        simp only [encRet, isNone_none, if_true, Option.isSome, Bool.not_false, truthy_false, f3, PyRt.ok_bind]
        cases hr3 : r2.1 with
        | some y =>
          refine ⟨r2.2, f2.trans hrd, ?_⟩
          rw [hr3] at hsp
          obtain ⟨c0, hc0, hc1⟩ := Option.map_eq_some_iff.mp hsp
          simp only [encRet, isNone_tuple, Bool.false_eq_true, if_false, encSearch, searchSpec_some data _ ak (some c) left c0 hc0,
            Option.map_some, hc1]
        | none =>
          rw [hr3] at hsp
          have hn : (candidates (views data (some c)) (effKeys (ks.getD []))).head? = none := by
            cases hh : (candidates (views data (some c)) (effKeysOpt ks)).head? with
            | none => exact hh
            | some v => rw [hh] at hsp; simp at hsp
          obtain ⟨g2, hg2, hre⟩ := retry r2.2 (f2.trans hrd)
          refine ⟨g2, hg2, ?_⟩
          simp only [encRet, isNone_none, if_true, Option.isSome, encSearch, searchSpec_none data _ ak (some c) left hn]
          exact hre

/-! ### `BeaconConfig.from_file` -/

theorem isFileLike_attach {data : Bytes} {v : V} (h : IsFileLike data v) : t01Attach (t01Detach v) (t01Store v) = .ok v := by
  rcases h with ⟨g, rfl, _⟩ | ⟨x, rfl, _⟩
  · simp [t01Attach, t01Detach, t01Store, encFile, mkFile, FileCls, Gen.PyXor.XorEncodedFile, t01Self, T01SelfCls]
  · simp [t01Attach, t01Detach, t01Store, encXor, t01Self]

theorem setAttr_compile (blk : Bytes) (k : V) (e : Bool) (a b c gr v : V) :
    instSetAttr (encExtracted blk k e a b c gr) "pe_compile_stamp" v = .ok (encExtracted blk k e a v c gr) := by
  simp [instSetAttr, setField, encExtracted, Gen.PyBeaconCfg.BeaconConfig]
theorem setAttr_export (blk : Bytes) (k : V) (e : Bool) (a b c gr v : V) :
    instSetAttr (encExtracted blk k e a b c gr) "pe_export_stamp" v = .ok (encExtracted blk k e v b c gr) := by
  simp [instSetAttr, setField, encExtracted, Gen.PyBeaconCfg.BeaconConfig]
theorem setAttr_arch (blk : Bytes) (k : V) (e : Bool) (a b c gr v : V) :
    instSetAttr (encExtracted blk k e a b c gr) "architecture" v = .ok (encExtracted blk k e a b v gr) := by
  simp [instSetAttr, setField, encExtracted, Gen.PyBeaconCfg.BeaconConfig]
theorem setAttr_xorkey (blk : Bytes) (k : V) (e : Bool) (a b c gr v : V) :
    instSetAttr (encExtracted blk k e a b c gr) "xorkey" v = .ok (encExtracted blk v e a b c gr) := by
  simp [instSetAttr, setField, encExtracted, Gen.PyBeaconCfg.BeaconConfig]
theorem setAttr_guardrails (blk : Bytes) (k : V) (e : Bool) (a b c gr v : V) :
    instSetAttr (encExtracted blk k e a b c gr) "guardrails" v = .ok (encExtracted blk k e a b c v) := by
  simp [instSetAttr, setField, encExtracted, Gen.PyBeaconCfg.BeaconConfig]
theorem setAttr_xorencoded (blk : Bytes) (k : V) (e : Bool) (a b c gr : V) (e' : Bool) :
    instSetAttr (encExtracted blk k e a b c gr) "xorencoded" (.bool e') = .ok (encExtracted blk k e' a b c gr) := by
  simp [instSetAttr, setField, encExtracted, Gen.PyBeaconCfg.BeaconConfig]
theorem getAttr_xorencoded (blk : Bytes) (k : V) (e : Bool) (a b c gr : V) :
    getAttr (encExtracted blk k e a b c gr) "xorencoded" = .ok (.bool e) := by
  simp [getAttr, lookupField, encExtracted, Gen.PyBeaconCfg.BeaconConfig]
theorem encConfig_eq (b : Bytes) : C02Gen.encConfig (.bytes b) (C02.iterSettings b) = encExtracted b .none false .none .none .none .none := rfl

/-- the part of `from_file` that attaches the PE artifacts: `pe.find_compile_stamps(fh)`, `pe.find_architecture(fh)` -/
theorem pe_tail (data : Bytes) (fcs : V → Py V) (hfcs : FileExtSpec fcs data (fun r => ∃ c e, r = .tuple [c, e]))
    (fa : V → Py V) (hfa : FileExtSpec fa data (fun _ => True)) (blk : Bytes) (k : V) (e : Bool) (gr : V)
    (h a v0 : V) (hatt : t01Attach h a = .ok v0) (hv0 : IsFileLike data v0) :
    ∃ pe_e pe_c arch out,
      (do
        let t13 ← t01Attach h a
        let t14 ← fcs t13
        let t15 ← unpack2 t14
        let t16 ← unpack2 t15.1
        let t17 ← instSetAttr (encExtracted blk k e .none .none .none gr) "pe_compile_stamp" t16.1
        let t18 ← instSetAttr t17 "pe_export_stamp" t16.2
        let t19 ← t01Attach (t01Detach t15.2) (t01Store t15.2)
        let t20 ← fa t19
        let t21 ← unpack2 t20
        let t22 ← instSetAttr t18 "architecture" t21.1
        (pure (V.tuple [t22, t01Store t21.2]) : Py V))
      = .ok (.tuple [encExtracted blk k e pe_e pe_c arch gr, out]) := by
  obtain ⟨r, v1, h1, ⟨c0, e0, rfl⟩, hv1⟩ := hfcs v0 hv0
  obtain ⟨r2, v2, h2, _, hv2⟩ := hfa v1 hv1
  refine ⟨e0, c0, r2, t01Store v2, ?_⟩
  simp only [hatt, PyRt.ok_bind, h1, unpack2_tuple, setAttr_compile, setAttr_export, isFileLike_attach hv1, h2, setAttr_arch, pure_ok]

theorem gen_from_file_found_aux (B : Nat) (hB : 1 ≤ B) (data : Bytes) (f : PyFile) (hfd : f.data = data) (ks : Option (List Bytes)) (ak : Bool)
    (det : Option Nat) (hdet : ∀ c, det = some c → c + 8 ≤ data.length) (xff : V → Py V) (hx : XffSpec xff data det)
    (lk : V → V → Py V) (left : List Bytes) (hl : LeftSpec lk data (effKeysOpt ks) left)
    (nc : V → Py V) (hnc : CfgSpec nc)
    (fcs : V → Py V) (hfcs : FileExtSpec fcs data (fun r => ∃ c e, r = .tuple [c, e]))
    (fa : V → Py V) (hfa : FileExtSpec fa data (fun _ => True))
    (ig : V → Py V) (fuel : Nat) (hf : 2 * data.length + 4 ≤ fuel)
    (c : Cand) (hc : searchSpec data (ks.getD []) ak det left = some c) :
    ∃ pe_e pe_c arch out,
      Gen.PyExtract.from_file xff (.int (B : Int)) lk nc fcs fa ig fuel (encFile f) (encKeysOpt ks) (.bool ak)
        = .ok (.tuple [encExtracted c.block (.bytes c.key) c.xorencoded pe_e pe_c arch .none, out]) := by
  obtain ⟨g, hg, hb⟩ := gen_blocks_aux B hB data f hfd ks ak det hdet xff hx lk left hl fuel hf
  unfold Gen.PyExtract.from_file
  simp only [hb, encSearch, hc, Option.map_some, encRet, PyRt.ok_bind, unpack2_tuple, isNone_tuple, Bool.not_false, if_true, getItem_single,
    Cand.result, encResult, hnc c.block]
  have hgi1 : getItem (V.dict [lit "xorkey", lit "xorencoded"] [V.bytes c.key, V.bool c.xorencoded]) (lit "xorkey") = .ok (V.bytes c.key) := by
    simp [getItem, hashable, findKey, keyEq, PyU.eq, lit, cps]
  have hgi2 : getItem (V.dict [lit "xorkey", lit "xorencoded"] [V.bytes c.key, V.bool c.xorencoded]) (lit "xorencoded")
      = .ok (V.bool c.xorencoded) := by
    simp [getItem, hashable, findKey, keyEq, PyU.eq, lit, cps]
  simp only [hgi1, hgi2, PyRt.ok_bind, encConfig_eq, setAttr_xorkey, setAttr_xorencoded, getAttr_xorencoded, truthy_bool]
  have hfl : IsFileLike data (encFile g) := Or.inl ⟨g, rfl, hg⟩
  cases he : c.xorencoded with
  | false =>
    simp only [Bool.false_eq_true, if_false]
    exact pe_tail data fcs hfcs fa hfa c.block (.bytes c.key) false .none _ _ _ (attach_self g) hfl
  | true =>
    simp only [if_true]
    have hxs := hx g hg
    cases det with
    | none =>
      obtain ⟨g', hg', hd'⟩ := hxs
      simp only [hg', encDetect, PyRt.ok_bind, unpack2_tuple, isNone_none, if_true]
      exact pe_tail data fcs hfcs fa hfa c.block (.bytes c.key) true .none _ _ _ (attach_self g') (Or.inl ⟨g', rfl, hd'⟩)
    | some n =>
      obtain ⟨x, hov, hxx⟩ := hxs
      obtain ⟨x', hx', hA⟩ := openView_spec g n (by rw [hg]; exact hdet n rfl)
      rw [hov] at hx'
      injection hx' with hx'
      subst hx'
      have hxd : x.fh.data = data := by
        rw [hA.layout.data, ← hg]
        exact (split_at_nonce g.data n (by rw [hg]; exact hdet n rfl)).1.symm
      simp only [hxx, encDetect, PyRt.ok_bind, unpack2_tuple, isNone_detach, Bool.false_eq_true, if_false]
      exact pe_tail data fcs hfcs fa hfa c.block (.bytes c.key) true .none _ _ _ (attach_detach x) (Or.inr ⟨x, rfl, hxd⟩)

/-- `if not grconfig.unmasked_beacon_config: continue`: the records the Guardrails fallback accepts -/
def usable (m : C17.Meta) : Bool :=
  match m.unmaskedBeaconConfig with
  | some cfg => !cfg.isEmpty
  | none => false

theorem getAttr_unmasked (m : C17.Meta) :
    getAttr (C17Gen.encMeta m) "unmasked_beacon_config" = .ok (C17Gen.encOptBytes m.unmaskedBeaconConfig) := by
  simp [getAttr, lookupField, C17Gen.encMeta, Gen.PyGuardU.GuardrailMetadata]
theorem getAttr_bxk (m : C17.Meta) : getAttr (C17Gen.encMeta m) "beacon_xor_key" = .ok (.bytes m.beaconXorKey) := by
  simp [getAttr, lookupField, C17Gen.encMeta, Gen.PyGuardU.GuardrailMetadata]
theorem truthy_unmasked (m : C17.Meta) : truthy (C17Gen.encOptBytes m.unmaskedBeaconConfig) = usable m := by
  unfold usable
  cases m.unmaskedBeaconConfig <;> rfl

/-- the selection loop of the Guardrails fallback: the first usable record -/
theorem gen_select_loop (xff : V → Py V) (b : V) (lk : V → V → Py V) (nc fcs fa ig : V → Py V) :
    ∀ ms : List C17.Meta,
      forList (ms.map C17Gen.encMeta) (Gen.PyExtract.from_file_loop1 xff b lk nc fcs fa ig) V.none
        = .ok (encRet C17Gen.encMeta (ms.find? usable)) := by
  intro ms
  induction ms with
  | nil => rfl
  | cons m ms ih =>
    simp only [List.map_cons, forList, Gen.PyExtract.from_file_loop1, getAttr_unmasked, PyRt.ok_bind, truthy_unmasked, List.find?_cons]
    cases hu : usable m with
    | true => simp [pure_ok, encRet]
    | false => simp only [Bool.not_false, if_true, pure_ok]; exact ih

theorem gen_from_file_fallback_aux (B : Nat) (hB : 1 ≤ B) (data : Bytes) (f : PyFile) (hfd : f.data = data) (ks : Option (List Bytes)) (ak : Bool)
    (det : Option Nat) (hdet : ∀ c, det = some c → c + 8 ≤ data.length) (xff : V → Py V) (hx : XffSpec xff data det)
    (lk : V → V → Py V) (left : List Bytes) (hl : LeftSpec lk data (effKeysOpt ks) left)
    (nc : V → Py V) (hnc : CfgSpec nc)
    (fcs : V → Py V) (hfcs : FileExtSpec fcs data (fun r => ∃ c e, r = .tuple [c, e]))
    (fa : V → Py V) (hfa : FileExtSpec fa data (fun _ => True))
    (ig : V → Py V) (ms : List C17.Meta) (hig : FileExtSpec ig data (fun r => r = .list (ms.map C17Gen.encMeta)))
    (fuel : Nat) (hf : 2 * data.length + 4 ≤ fuel)
    (hc : searchSpec data (ks.getD []) ak det left = none) :
    match ms.find? usable with
    | none => Gen.PyExtract.from_file xff (.int (B : Int)) lk nc fcs fa ig fuel (encFile f) (encKeysOpt ks) (.bool ak) = .error .valueError
    | some m =>
      ∃ cfg pe_e pe_c arch out, m.unmaskedBeaconConfig = some cfg ∧
        Gen.PyExtract.from_file xff (.int (B : Int)) lk nc fcs fa ig fuel (encFile f) (encKeysOpt ks) (.bool ak)
          = .ok (.tuple [encExtracted cfg (.bytes m.beaconXorKey) false pe_e pe_c arch (C17Gen.encMeta m), out]) := by
  obtain ⟨g, hg, hb⟩ := gen_blocks_aux B hB data f hfd ks ak det hdet xff hx lk left hl fuel hf
  -- the file-like object the fallback works on
  have hfx : ∃ h a v0, (∃ w, xff (encFile g) = .ok (.tuple [w, a]) ∧ (if isNone w then t01Self else w) = h) ∧
      t01Attach h a = .ok v0 ∧ IsFileLike data v0 := by
    have hxs := hx g hg
    cases det with
    | none =>
      obtain ⟨g', hg', hd'⟩ := hxs
      exact ⟨t01Self, encFile g', encFile g', ⟨.none, hg', rfl⟩, attach_self g', Or.inl ⟨g', rfl, hd'⟩⟩
    | some n =>
      obtain ⟨x, hov, hxx⟩ := hxs
      obtain ⟨x', hx', hA⟩ := openView_spec g n (by rw [hg]; exact hdet n rfl)
      rw [hov] at hx'
      injection hx' with hx'
      subst hx'
      have hxd : x.fh.data = data := by
        rw [hA.layout.data, ← hg]
        exact (split_at_nonce g.data n (by rw [hg]; exact hdet n rfl)).1.symm
      exact ⟨t01Detach (encXor x), encFile x.fh, encXor x, ⟨_, hxx, rfl⟩, attach_detach x, Or.inr ⟨x, rfl, hxd⟩⟩
  obtain ⟨h, a, v0, ⟨w, hw1, hw2⟩, hatt, hv0⟩ := hfx
  obtain ⟨r, v1, hi1, hr, hv1⟩ := hig v0 hv0
  subst hr
  unfold Gen.PyExtract.from_file
  simp only [hb, encSearch, hc, Option.map_none, encRet, PyRt.ok_bind, unpack2_tuple, isNone_none, Bool.not_true, Bool.false_eq_true, if_false, hw1]
  have hsel := gen_select_loop xff (.int (B : Int)) lk nc fcs fa ig ms
  cases hw : isNone w
  all_goals
    rw [hw] at hw2
    simp only [if_true, Bool.false_eq_true, if_false] at hw2
    subst hw2
    simp only [if_true, Bool.false_eq_true, if_false, hatt, PyRt.ok_bind, hi1, unpack2_tuple, iterList, hsel]
    cases hfind : ms.find? usable with
    | none => simp only [encRet, isNone_none, Bool.not_true, Bool.false_eq_true, if_false]; rfl
    | some m =>
      have hu : usable m = true := List.find?_some hfind
      unfold usable at hu
      cases hcfg : m.unmaskedBeaconConfig with
      | none => rw [hcfg] at hu; cases hu
      | some cfg =>
        have hga : getAttr (C17Gen.encMeta m) "unmasked_beacon_config" = .ok (.bytes cfg) := by
          rw [getAttr_unmasked, hcfg]; rfl
        obtain ⟨pe_e, pe_c, arch, out, ht⟩ := pe_tail data fcs hfcs fa hfa cfg (.bytes m.beaconXorKey) false (C17Gen.encMeta m)
          (t01Detach v1) (t01Store v1) v1 (isFileLike_attach hv1) hv1
        refine ⟨cfg, pe_e, pe_c, arch, out, hcfg, ?_⟩
        simp only [encRet, isNone_tuple, Bool.not_false, if_true, getItem_single, hga, PyRt.ok_bind, hnc cfg, encConfig_eq, setAttr_guardrails,
          getAttr_bxk, setAttr_xorkey]
        exact ht
end C01Gen

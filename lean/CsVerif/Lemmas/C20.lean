import CsVerif.Model.C20
/-! Helper lemmas for C20 (no property statements here). -/
namespace C20

theorem xorCore_length (d k : Bytes) : (xorCore d k).length = d.length := by
  simp [xorCore]

theorem xorCore_involutive (d k : Bytes) : xorCore (xorCore d k) k = d := by
  apply List.ext_getElem
  · simp [xorCore]
  · intro i h1 h2
    simp [xorCore, UInt8.xor_assoc]

theorem bytesOfInts_cons_ok {v : Int} {vs : List Int} {e : Bytes}
    (h : bytesOfInts (v :: vs) = .ok e) :
    0 ≤ v ∧ v < 256 ∧ ∃ e', bytesOfInts vs = .ok e' ∧ e = UInt8.ofNat v.toNat :: e' := by
  unfold bytesOfInts at h
  split at h
  · rename_i hv
    cases hvs : bytesOfInts vs with
    | error x => simp [hvs, Except.map] at h
    | ok e' =>
      simp [hvs, Except.map] at h
      exact ⟨hv.1, hv.2, e', rfl, h.symm⟩
  · cases h

theorem toLE_length (n v : Nat) : (toLE n v).length = n := by
  induction n generalizing v with
  | zero => rfl
  | succ n ih => simp [toLE, ih]

theorem fromLE_lt (d : Bytes) : fromLE d < 256 ^ d.length := by
  induction d with
  | nil => simp [fromLE]
  | cons b bs ih =>
    simp only [fromLE, List.length_cons, Nat.pow_succ]
    have := b.toNat_lt
    omega

theorem fromLE_toLE (n v : Nat) (h : v < 256 ^ n) : fromLE (toLE n v) = v := by
  induction n generalizing v with
  | zero => simp at h; subst h; rfl
  | succ n ih =>
    simp only [toLE, fromLE]
    rw [ih (v / 256) (by rw [Nat.pow_succ] at h; omega)]
    rw [UInt8.toNat_ofNat']
    omega

theorem toLE_fromLE (d : Bytes) : toLE d.length (fromLE d) = d := by
  induction d with
  | nil => rfl
  | cons b bs ih =>
    simp only [List.length_cons, toLE, fromLE]
    have := b.toNat_lt
    have h1 : (b.toNat + 256 * fromLE bs) % 256 = b.toNat := by omega
    have h2 : (b.toNat + 256 * fromLE bs) / 256 = fromLE bs := by omega
    rw [h1, h2, ih]
    simp

theorem toBytesU_length (o : Order) (n v : Nat) : (toBytesU o n v).length = n := by
  cases o <;> simp [toBytesU, toLE_length]

theorem fromBytesU_toBytesU (o : Order) (n v : Nat) (h : v < 256 ^ n) :
    fromBytesU o (toBytesU o n v) = v := by
  cases o <;> simp [fromBytesU, toBytesU, fromLE_toLE _ _ h]

theorem toBytesU_fromBytesU (o : Order) (d : Bytes) : toBytesU o d.length (fromBytesU o d) = d := by
  cases o
  · simp [fromBytesU, toBytesU, toLE_fromLE]
  · simp only [fromBytesU, toBytesU]
    have := toLE_fromLE d.reverse
    rw [List.length_reverse] at this
    rw [this]; simp

theorem fromBytesU_lt (o : Order) (d : Bytes) : fromBytesU o d < 256 ^ d.length := by
  cases o
  · exact fromLE_lt d
  · have := fromLE_lt d.reverse; simpa [fromBytesU] using this

theorem pow256_even (n : Nat) (h : 0 < n) : 256 ^ n / 2 * 2 = 256 ^ n := by
  cases n with
  | zero => omega
  | succ n => rw [Nat.pow_succ]; omega



theorem go_sound (x64 : Bool) (n fuel : Nat) (cs : List Nat) (uri : Txt)
    (h : randomStagerUri.go x64 n fuel cs = some uri) :
    (if x64 then isStagerX64 uri else isStagerX86 uri) = true ∧ uri.length = n + 1 ∧ uri.head? = some 47
      ∧ ∀ c ∈ uri.tail, c ∈ cs := by
  induction fuel generalizing cs with
  | zero => simp [randomStagerUri.go] at h
  | succ f ih =>
    unfold randomStagerUri.go at h
    split at h
    · cases h
    · rename_i hl
      simp only [] at h
      by_cases hst : (if x64 then isStagerX64 (47 :: cs.take n) else isStagerX86 (47 :: cs.take n)) = true
      · rw [if_pos hst] at h
        injection h with h; subst h
        refine ⟨hst, by simp; omega, rfl, ?_⟩
        intro c hc
        exact List.mem_of_mem_take (by simpa using hc)
      · rw [if_neg hst] at h
        obtain ⟨a, b, c, d⟩ := ih _ h
        exact ⟨a, b, c, fun x hx => List.mem_of_mem_drop (d x hx)⟩

theorem toLE_xor_fromLE (a b : Bytes) (h : a.length = b.length) :
    toLE a.length (fromLE a ^^^ fromLE b) = List.zipWith (· ^^^ ·) a b := by
  induction a generalizing b with
  | nil => cases b <;> simp_all [toLE]
  | cons x xs ih =>
    cases b with
    | nil => simp at h
    | cons y ys =>
      simp only [List.length_cons, Nat.add_right_cancel_iff] at h
      simp only [List.length_cons, toLE, fromLE, List.zipWith_cons_cons]
      have hx := x.toNat_lt
      have hy := y.toNat_lt
      have hm : ((x.toNat + 256 * fromLE xs) ^^^ (y.toNat + 256 * fromLE ys)) % 256 = (x ^^^ y).toNat := by
        have := @Nat.xor_mod_two_pow (x.toNat + 256 * fromLE xs) (y.toNat + 256 * fromLE ys) 8
        simp only [show (2:Nat)^8 = 256 from rfl] at this
        rw [this, UInt8.toNat_xor]
        congr 1 <;> omega
      have hd : ((x.toNat + 256 * fromLE xs) ^^^ (y.toNat + 256 * fromLE ys)) / 256 = fromLE xs ^^^ fromLE ys := by
        have := @Nat.xor_div_two_pow (x.toNat + 256 * fromLE xs) (y.toNat + 256 * fromLE ys) 8
        simp only [show (2:Nat)^8 = 256 from rfl] at this
        rw [this]
        congr 1 <;> omega
      rw [hm, hd, ih ys h]
      simp

theorem xorCore_eq_zipWith (d k : Bytes) (h : d.length = k.length) :
    xorCore d k = List.zipWith (· ^^^ ·) d k := by
  apply List.ext_getElem
  · simp [xorCore, h]
  · intro i h1 h2
    simp only [xorCore, List.getElem_mapIdx, List.getElem_zipWith, keyAt]
    have hi : i < k.length := by simp [xorCore] at h1; omega
    rw [Nat.mod_eq_of_lt hi]
    simp [List.getD_eq_getElem?_getD, hi]


theorem flatten_replicate_getElem (n : Nat) (l : Bytes) (i : Nat) (h : i < ((List.replicate n l).flatten).length) :
    ((List.replicate n l).flatten)[i] = l.getD (i % l.length) 0 := by
  induction n generalizing i with
  | zero => simp at h
  | succ n ih =>
    simp only [List.replicate_succ, List.flatten_cons] at h ⊢
    by_cases hi : i < l.length
    · rw [List.getElem_append_left hi, Nat.mod_eq_of_lt hi]
      simp [List.getD_eq_getElem?_getD, hi]
    · have hl : 0 < l.length := by
        rcases Nat.eq_zero_or_pos l.length with h0 | h0
        · have : l = [] := List.length_eq_zero_iff.mp h0
          subst this; simp at h
        · exact h0
      rw [List.getElem_append_right (by omega)]
      rw [ih _ (by simp at h ⊢; omega)]
      congr 1
      rw [← Nat.mod_eq_sub_mod (by omega)]

theorem tile_length (key : Bytes) (size : Nat) (hk : key ≠ []) : (tile key size).length = size := by
  have hl : 0 < key.length := List.length_pos_iff.mpr hk
  unfold tile
  split
  · simp only [List.length_take, List.length_flatten, List.map_replicate, List.sum_replicate_nat]
    have : size < (size / key.length + 1) * key.length := by
      have := Nat.div_add_mod size key.length
      have := Nat.mod_lt size hl
      rw [Nat.add_mul, Nat.mul_comm]; omega
    omega
  · simp; omega

theorem tile_getElem (key : Bytes) (size i : Nat) (hk : key ≠ []) (h : i < (tile key size).length) :
    (tile key size)[i] = keyAt key i := by
  have hl : 0 < key.length := List.length_pos_iff.mpr hk
  have hs : i < size := by rw [tile_length key size hk] at h; exact h
  unfold tile at h ⊢
  split
  · rw [List.getElem_take]
    exact flatten_replicate_getElem _ _ _ _
  · rename_i hge
    rw [List.getElem_take]
    have hi : i < key.length := by omega
    simp [keyAt, Nat.mod_eq_of_lt hi, List.getD_eq_getElem?_getD, hi]


def cand : List Nat := [48, 57, 65, 90, 97, 122]

/-- search four alphanumerics with a given sum residue mod 256 -/
def solve4 (r : Nat) : Option (Nat × Nat × Nat × Nat) :=
  (cand.flatMap fun a => cand.flatMap fun b => cand.flatMap fun c =>
    ([r, r + 256, r + 512].filterMap fun t =>
      let d := t - a - b - c
      if a + b + c ≤ t ∧ isAlnum d then some (a, b, c, d) else none)).head?

def ok4 (r : Nat) : Bool :=
  match solve4 r with
  | some (a, b, c, d) => isAlnum a && isAlnum b && isAlnum c && isAlnum d && (a + b + c + d) % 256 == r
  | none => false

theorem ok4_all : ∀ r, r < 256 → ok4 r = true := by decide +kernel

theorem four_alnum (r : Nat) (h : r < 256) :
    ∃ a b c d, isAlnum a = true ∧ isAlnum b = true ∧ isAlnum c = true ∧ isAlnum d = true ∧ (a + b + c + d) % 256 = r := by
  have := ok4_all r h
  unfold ok4 at this
  split at this
  · rename_i a b c d _
    simp only [Bool.and_eq_true, beq_iff_eq] at this
    exact ⟨a, b, c, d, this.1.1.1.1, this.1.1.1.2, this.1.1.2, this.1.2, this.2⟩
  · cases this

theorem filter_replicate48 (n : Nat) : (List.replicate n 48).filter (· ≠ 47) = List.replicate n 48 := by
  induction n with
  | zero => rfl
  | succ n ih => simp [List.replicate_succ]

theorem alnum_ne_slash {c : Nat} (h : isAlnum c = true) : c ≠ 47 := by
  unfold isAlnum at h
  simp only [Bool.or_eq_true, Bool.and_eq_true, decide_eq_true_eq] at h
  omega


end C20

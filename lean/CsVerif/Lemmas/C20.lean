import CsVerif.Model.C20
/-! Helper lemmas for C20 (no property statements here). -/
namespace C20

theorem xorCore_length (d k : Bytes) : (xorCore d k).length = d.length := by
  simp [xorCore]

theorem xorCore_involutive (d k : Bytes) : xorCore (xorCore d k) k = d := by
  apply List.ext_getElem
  · simp [xorCore]
  · intro i h1 h2
    simp [xorCore, UInt8.xor_assoc]

theorem bytesOfInts_cons_ok {v : Int} {vs : List Int} {e : Bytes}
    (h : bytesOfInts (v :: vs) = .ok e) :
    0 ≤ v ∧ v < 256 ∧ ∃ e', bytesOfInts vs = .ok e' ∧ e = UInt8.ofNat v.toNat :: e' := by
  unfold bytesOfInts at h
  split at h
  · rename_i hv
    cases hvs : bytesOfInts vs with
    | error x => simp [hvs, Except.map] at h
    | ok e' =>
      simp [hvs, Except.map] at h
      exact ⟨hv.1, hv.2, e', rfl, h.symm⟩
  · cases h

theorem toLE_length (n v : Nat) : (toLE n v).length = n := by
  induction n generalizing v with
  | zero => rfl
  | succ n ih => simp [toLE, ih]

theorem fromLE_lt (d : Bytes) : fromLE d < 256 ^ d.length := by
  induction d with
  | nil => simp [fromLE]
  | cons b bs ih =>
    simp only [fromLE, List.length_cons, Nat.pow_succ]
    have := b.toNat_lt
    omega

theorem fromLE_toLE (n v : Nat) (h : v < 256 ^ n) : fromLE (toLE n v) = v := by
  induction n generalizing v with
  | zero => simp at h; subst h; rfl
  | succ n ih =>
    simp only [toLE, fromLE]
    rw [ih (v / 256) (by rw [Nat.pow_succ] at h; omega)]
    rw [UInt8.toNat_ofNat']
    omega

theorem toLE_fromLE (d : Bytes) : toLE d.length (fromLE d) = d := by
  induction d with
  | nil => rfl
  | cons b bs ih =>
    simp only [List.length_cons, toLE, fromLE]
    have := b.toNat_lt
    have h1 : (b.toNat + 256 * fromLE bs) % 256 = b.toNat := by omega
    have h2 : (b.toNat + 256 * fromLE bs) / 256 = fromLE bs := by omega
    rw [h1, h2, ih]
    simp

theorem toBytesU_length (o : Order) (n v : Nat) : (toBytesU o n v).length = n := by
  cases o <;> simp [toBytesU, toLE_length]

theorem fromBytesU_toBytesU (o : Order) (n v : Nat) (h : v < 256 ^ n) :
    fromBytesU o (toBytesU o n v) = v := by
  cases o <;> simp [fromBytesU, toBytesU, fromLE_toLE _ _ h]

theorem toBytesU_fromBytesU (o : Order) (d : Bytes) : toBytesU o d.length (fromBytesU o d) = d := by
  cases o
  · simp [fromBytesU, toBytesU, toLE_fromLE]
  · simp only [fromBytesU, toBytesU]
    have := toLE_fromLE d.reverse
    rw [List.length_reverse] at this
    rw [this]; simp

theorem fromBytesU_lt (o : Order) (d : Bytes) : fromBytesU o d < 256 ^ d.length := by
  cases o
  · exact fromLE_lt d
  · have := fromLE_lt d.reverse; simpa [fromBytesU] using this

theorem pow256_even (n : Nat) (h : 0 < n) : 256 ^ n / 2 * 2 = 256 ^ n := by
  cases n with
  | zero => omega
  | succ n => rw [Nat.pow_succ]; omega



theorem go_sound (x64 : Bool) (n fuel : Nat) (cs : List Nat) (uri : Txt)
    (h : randomStagerUri.go x64 n fuel cs = some uri) :
    (if x64 then isStagerX64 uri else isStagerX86 uri) = true ∧ uri.length = n + 1 ∧ uri.head? = some 47
      ∧ ∀ c ∈ uri.tail, c ∈ cs := by
  induction fuel generalizing cs with
  | zero => simp [randomStagerUri.go] at h
  | succ f ih =>
    unfold randomStagerUri.go at h
    split at h
    · cases h
    · rename_i hl
      simp only [] at h
      by_cases hst : (if x64 then isStagerX64 (47 :: cs.take n) else isStagerX86 (47 :: cs.take n)) = true
      · rw [if_pos hst] at h
        injection h with h; subst h
        refine ⟨hst, by simp; omega, rfl, ?_⟩
        intro c hc
        exact List.mem_of_mem_take (by simpa using hc)
      · rw [if_neg hst] at h
        obtain ⟨a, b, c, d⟩ := ih _ h
        exact ⟨a, b, c, fun x hx => List.mem_of_mem_drop (d x hx)⟩

end C20

import CsVerif.Gen.PyUtils
import CsVerif.Lemmas.C20
/-! Helper lemmas for Props/C20Gen.lean: the operations of `PyRt` against the primitives of the C20 model, and the
translated functions of `Gen/PyUtils.lean` against the model functions (no property statements here). -/
namespace C20Gen
open PyRt

theorem fromLE_eq (d : Bytes) : PyRt.fromLE d = C20.fromLE d := by
  induction d with
  | nil => rfl
  | cons b bs ih => simp only [PyRt.fromLE, C20.fromLE, ih]

theorem toLE_eq (n v : Nat) : PyRt.toLE n v = C20.toLE n v := by
  induction n generalizing v with
  | zero => rfl
  | succ n ih => simp only [PyRt.toLE, C20.toLE, ih]

theorem bytesOfInts_eq (l : List Int) : PyRt.bytesOfInts l = C20.bytesOfInts l := by
  induction l with
  | nil => rfl
  | cons v vs ih => simp only [PyRt.bytesOfInts, C20.bytesOfInts, ih]

theorem slice_noBound_eq {α : Type} (xs : List α) (size : Option Int) :
    slice xs noBound size = pySliceTo xs size := by
  cases size with
  | none => simp [slice, noBound, Bound.bound, pySliceTo]
  | some i =>
    simp only [slice, noBound, Bound.bound, pySliceTo, clampIdx, id, List.drop_zero]
    by_cases h : i < 0
    · rw [if_pos h, if_neg (by omega)]
      congr 1; omega
    · rw [if_neg h, if_pos (by omega)]
      rw [List.take_eq_take_iff]; omega

theorem slice_noBound_int {α : Type} (xs : List α) (i : Int) :
    slice xs noBound i = pySliceTo xs (some i) := slice_noBound_eq xs (some i)

theorem s_little : s "little" = [108,105,116,116,108,101] := by decide
theorem s_big : s "big" = [98,105,103] := by decide
theorem little_ne_big : s "little" ≠ s "big" := by decide

/-- the byteorder strings (`C20Gen.orderStr` of Props/C20Gen.lean, which unfolds to the same literals) -/
def ordS : C20.Order → Str
  | .little => s "little"
  | .big => s "big"

theorem orderLittle_ordS (o : C20.Order) : orderLittle (ordS o) = .ok (o == .little) := by
  cases o
  · simp [orderLittle, ordS]
  · simp [orderLittle, ordS, Ne.symm little_ne_big]

theorem orderLittle_bad (order : Str) (h : order ≠ s "little" ∧ order ≠ s "big") :
    orderLittle order = .error .valueError := by
  simp [orderLittle, h.1, h.2]

theorem intFromBytes_eq (d : Bytes) (o : C20.Order) (sg : Bool) :
    intFromBytes d (ordS o) sg = .ok (C20.fromBytes o sg d) := by
  unfold intFromBytes
  rw [orderLittle_ordS]
  cases o <;> simp [C20.fromBytes, C20.fromBytesU, fromLE_eq]

theorem intFromBytes_bad (d : Bytes) (order : Str) (sg : Bool) (h : order ≠ s "little" ∧ order ≠ s "big") :
    intFromBytes d order sg = .error .valueError := by
  unfold intFromBytes
  rw [orderLittle_bad order h]

theorem intToBytes_eq (n : Int) (k : Nat) (o : C20.Order) (sg : Bool) :
    intToBytes n (k : Int) (ordS o) sg = C20.toBytes o sg k n := by
  unfold intToBytes
  rw [if_neg (by omega), orderLittle_ordS]
  simp only [Int.toNat_natCast]
  unfold C20.toBytes
  cases sg
  · simp only [Bool.false_eq_true, if_false]
    by_cases h : 0 ≤ n ∧ n < ((256 ^ k : Nat) : Int)
    · have hn : ¬ n < 0 := by omega
      simp only [h, hn, and_self, decide_true, Bool.not_true, Bool.false_eq_true, if_false, if_true, toLE_eq]
      cases o <;> simp [C20.toBytesU]
    · rw [if_neg h]
      simp only [decide_eq_false h, Bool.not_false, if_true]
  · simp only [if_true]
    rcases Nat.eq_zero_or_pos k with rfl | hk
    · by_cases h1 : n = -1
      · subst h1; simp [PyRt.toLE]
      · by_cases h0 : n = 0
        · subst h0; simp [PyRt.toLE, C20.toBytesU, C20.toLE]; cases o <;> rfl
        · have : ¬ (-((256 ^ 0 / 2 : Nat) : Int) ≤ n ∧ n < ((256 ^ 0 : Nat) : Int) - ((256 ^ 0 / 2 : Nat) : Int)) := by
            simp; omega
          have hf : decide (n = 0 ∨ n = -1) = false := decide_eq_false (by omega)
          simp only [hf, Bool.not_false, if_true]
          simp only [h1, and_false, if_false, this]
    · have hev := C20.pow256_even k hk
      have hk0 : k ≠ 0 := by omega
      by_cases h : -((256 ^ k / 2 : Nat) : Int) ≤ n ∧ n < ((256 ^ k / 2 : Nat) : Int)
      · have h' : -((256 ^ k / 2 : Nat) : Int) ≤ n ∧ n < ((256 ^ k : Nat) : Int) - ((256 ^ k / 2 : Nat) : Int) := by
          omega
        simp only [hk0, if_false, h, h', and_self, decide_true, Bool.not_true, Bool.false_eq_true, false_and, if_true, toLE_eq]
        by_cases hn : n < 0
        · have : ¬ n ≥ 0 := by omega
          simp only [hn, this, if_true, if_false]
          cases o <;> simp [C20.toBytesU]
        · have : n ≥ 0 := by omega
          simp only [hn, this, if_true, if_false]
          cases o <;> simp [C20.toBytesU]
      · have h' : ¬ (-((256 ^ k / 2 : Nat) : Int) ≤ n ∧ n < ((256 ^ k : Nat) : Int) - ((256 ^ k / 2 : Nat) : Int)) := by
          omega
        simp only [hk0, if_false, decide_eq_false h, Bool.not_false, if_true]
        simp only [false_and, if_false, h']

theorem intToBytes_neg (n k : Int) (hk : k < 0) (order : Str) (sg : Bool) :
    intToBytes n k order sg = .error .valueError := by
  unfold intToBytes; rw [if_pos hk]

theorem intToBytes_bad (n k : Int) (order : Str) (sg : Bool) (h : order ≠ s "little" ∧ order ≠ s "big") :
    intToBytes n k order sg = .error .valueError := by
  unfold intToBytes; rw [orderLittle_bad order h]; split <;> rfl


/-! ### unpack / pack -/

theorem unpack_eq (data : Bytes) (size : Option Int) (o : C20.Order) (signed : Bool) :
    Gen.PyUtils.unpack data size (ordS o) signed = .ok (C20.unpack data size o signed) := by
  unfold Gen.PyUtils.unpack
  rw [slice_noBound_eq, intFromBytes_eq]
  rfl

theorem unpack_bad (data : Bytes) (size : Option Int) (order : Str) (signed : Bool)
    (h : order ≠ s "little" ∧ order ≠ s "big") : Gen.PyUtils.unpack data size order signed = .error .valueError := by
  unfold Gen.PyUtils.unpack
  rw [intFromBytes_bad _ _ _ h]

theorem bitLength_eq (n : Int) : PyRt.bitLength n = ((C20.bitLength n : Nat) : Int) := by
  unfold PyRt.bitLength C20.bitLength
  by_cases h : n = 0
  · subst h; simp
  · have : n.natAbs ≠ 0 := by omega
    simp [h, this]

theorem pack_eq (n : Int) (size : Option Nat) (o : C20.Order) (signed : Bool) :
    Gen.PyUtils.pack n (size.map Int.ofNat) (ordS o) signed = C20.pack n size o signed := by
  unfold Gen.PyUtils.pack C20.pack
  cases size with
  | none =>
    simp only [Option.map_none, add, bitLength_eq, pure_bind]
    have : (((C20.bitLength n : Nat) : Int) + 7) / 8 = (((C20.bitLength n + 7) / 8 : Nat) : Int) := by omega
    rw [this, intToBytes_eq]
  | some k =>
    simp only [Option.map_some, pure_bind, Int.ofNat_eq_natCast]
    rw [intToBytes_eq]

theorem pack_neg (n k : Int) (hk : k < 0) (order : Str) (signed : Bool) :
    Gen.PyUtils.pack n (some k) order signed = .error .valueError := by
  unfold Gen.PyUtils.pack
  simp only [pure_bind]
  exact intToBytes_neg n k hk order signed

theorem pack_bad (n : Int) (size : Option Int) (order : Str) (signed : Bool)
    (h : order ≠ s "little" ∧ order ≠ s "big") : Gen.PyUtils.pack n size order signed = .error .valueError := by
  unfold Gen.PyUtils.pack
  cases size <;> simp only [pure_bind] <;> exact intToBytes_bad _ _ _ _ h

/-! ### checksum8 / stagers -/

theorem foldl_add_cast (l : List Nat) (a : Int) :
    (l.map fun (c : Nat) => (c : Int)).foldl (· + ·) a = a + ((l.sum : Nat) : Int) := by
  induction l generalizing a with
  | nil => simp
  | cons x xs ih => simp only [List.map_cons, List.foldl_cons, ih, List.sum_cons]; omega

theorem checksum8_eq (t : Str) : Gen.PyUtils.checksum8 t = .ok ((C20.checksum8 t : Nat) : Int) := by
  unfold Gen.PyUtils.checksum8 C20.checksum8
  simp only [len, sum, mapOrd, strRemoveChar]
  by_cases h : t.length < 4
  · have : ((t.length : Nat) : Int) < 4 := by omega
    simp [h, this]; rfl
  · have : ¬ ((t.length : Nat) : Int) < 4 := by omega
    simp only [h, this, decide_false, Bool.false_eq_true, if_false, foldl_add_cast, Int.zero_add]
    have hf : t.filter (· != 47) = t.filter (fun x => decide (x ≠ 47)) := by
      congr 1; funext x; rw [Bool.eq_iff_iff]; simp
    rw [hf]
    rfl

theorem isAlnum_eq (c : Nat) : PyRt.isAlnum c = C20.isAlnum c := rfl

theorem matchX64_eq (t : Str) : PyRt.matchStagerX64 t = C20.matchX64Shape t := by
  unfold PyRt.matchStagerX64 C20.matchX64Shape
  split <;> split <;> simp_all [isAlnum_eq]
  all_goals (rename_i hx; intro hs; exact absurd rfl (hx _ _ _ _ hs rfl rfl rfl))


theorem is_stager_x86_eq (t : Str) : Gen.PyUtils.is_stager_x86 t = .ok (C20.isStagerX86 t) := by
  unfold Gen.PyUtils.is_stager_x86 C20.isStagerX86
  rw [checksum8_eq]
  simp only [pure, Except.pure, Except.bind, bind]
  congr 1
  rw [Bool.eq_iff_iff]; simp only [beq_iff_eq]; omega

theorem is_stager_x64_eq (t : Str) : Gen.PyUtils.is_stager_x64 t = .ok (C20.isStagerX64 t) := by
  unfold Gen.PyUtils.is_stager_x64 C20.isStagerX64
  rw [checksum8_eq]
  simp only [bind, Except.bind, reMatch, if_true, truthy, pure, Except.pure, matchX64_eq]
  by_cases h : C20.checksum8 t = 93
  · simp [h]
    cases C20.matchX64Shape t <;> rfl
  · have : ¬ ((C20.checksum8 t : Nat) : Int) = 93 := by omega
    have e1 : (((C20.checksum8 t : Nat) : Int) == 93) = false := beq_eq_false_iff_ne.mpr this
    have e2 : (C20.checksum8 t == 93) = false := beq_eq_false_iff_ne.mpr h
    rw [e1, e2]; rfl

/-! ### NetBIOS -/

theorem band_natCast (m n : Nat) : band (m : Int) (n : Int) = ((m &&& n : Nat) : Int) := rfl

theorem hi_nibble : ∀ m, m < 256 → (m &&& 240) / 16 = m / 16 := by decide +kernel
theorem lo_nibble : ∀ m, m < 256 → (m &&& 15) = m % 16 := by decide +kernel

theorem encode_loop (data : Bytes) (off : Int) (acc : List Int) :
    (forIn (m := Except PyExc) (iter (bytearray data)) acc fun c __s =>
        pure (ForInStep.yield (__s ++ [add (band c 240 / 16) off] ++ [add (band c 15) off])))
      = .ok (acc ++ C20.nbEncodeInts data off) := by
  induction data generalizing acc with
  | nil => simp [iter, bytearray, C20.nbEncodeInts]; rfl
  | cons x xs ih =>
    simp only [iter, bytearray, List.map_cons, List.forIn_cons, pure_bind] at ih ⊢
    rw [ih]
    have hx := x.toNat_lt
    have h1 : band (x.toNat : Int) 240 = ((x.toNat &&& 240 : Nat) : Int) := band_natCast _ 240
    have h2 : band (x.toNat : Int) 15 = ((x.toNat &&& 15 : Nat) : Int) := band_natCast _ 15
    rw [h1, h2, lo_nibble _ hx]
    have h3 : ((x.toNat &&& 240 : Nat) : Int) / 16 = ((x.toNat / 16 : Nat) : Int) := by
      rw [← hi_nibble _ hx]; rfl
    rw [h3]
    simp [C20.nbEncodeInts, add]

theorem netbios_encode_eq (data : Bytes) (off : Int) :
    Gen.PyUtils.netbios_encode data off = C20.netbiosEncode data off := by
  unfold Gen.PyUtils.netbios_encode C20.netbiosEncode
  simp only []
  rw [encode_loop]
  simp [bytesOfInts_eq]



theorem add_int (a b : Int) : add a b = a + b := rfl


theorem getItem_ok (d : Bytes) (idx : Int) (i : Nat) (hi : idx = (i : Int)) (h : i < d.length) :
    getItem d idx = .ok ((d[i].toNat : Nat) : Int) := by
  subst hi
  have hn : normIdx d.length (i : Int) = .ok i := by
    unfold normIdx
    have hj : (if (i : Int) < 0 then (i : Int) + (d.length : Nat) else (i : Int)) = (i : Int) := if_neg (by omega)
    simp only [hj]
    rw [if_pos ⟨by omega, by omega⟩]; simp
  simp only [getItem, hn]
  simp [Except.map, List.getD_eq_getElem?_getD, h]

theorem getItem_oob (d : Bytes) (idx : Int) (h : (d.length : Int) ≤ idx) :
    getItem d idx = .error .indexError := by
  have hn : normIdx d.length idx = .error .indexError := by
    unfold normIdx
    have hj : (if idx < 0 then idx + (d.length : Nat) else idx) = idx := if_neg (by omega)
    simp only [hj]
    rw [if_neg (by omega)]
  simp only [getItem, hn]
  rfl

theorem decode_loop (rest : Bytes) (off : Int) : ∀ (pre : Bytes) (j : Nat) (acc : List Int), pre.length = 2 * j →
    (forIn (m := Except PyExc) ((List.range' j ((rest.length + 1) / 2)).map fun (k : Nat) => (0 : Int) + 2 * (k : Int)) acc
      fun (i : Int) (__s : List Int) => do
        let t1 ← getItem (pre ++ rest) i
        let t2 ← getItem (pre ++ rest) (add i (1 : Int))
        pure (ForInStep.yield (__s ++ [add ((t1 - off) * 16) (t2 - off)])))
      = (C20.nbDecodeInts rest off).map (acc ++ ·) := by
  fun_induction C20.nbDecodeInts rest off with
  | case1 off => intro pre j acc _; simp [Except.map]; rfl
  | case2 x off =>
    intro pre j acc hp
    simp only [List.length_cons, List.length_nil, Nat.zero_add, Nat.reduceAdd, Nat.reduceDiv, List.range'_one,
      List.map_cons, List.map_nil, List.forIn_cons]
    rw [getItem_ok (pre ++ [x]) (0 + 2 * (j : Int)) (2 * j) (by omega) (by simp; omega)]
    rw [getItem_oob (pre ++ [x]) (add (0 + 2 * (j : Int)) (1 : Int))
      (by simp only [add_int, List.length_append, List.length_cons, List.length_nil]; omega)]
    rfl
  | case3 a b rest off ih =>
    intro pre j acc hp
    have hm : ((a :: b :: rest).length + 1) / 2 = (rest.length + 1) / 2 + 1 := by simp only [List.length_cons]; omega
    rw [hm, List.range'_succ]
    simp only [List.map_cons, List.forIn_cons]
    rw [getItem_ok (pre ++ a :: b :: rest) (0 + 2 * (j : Int)) (2 * j) (by omega) (by simp; omega)]
    rw [getItem_ok (pre ++ a :: b :: rest) (add (0 + 2 * (j : Int)) (1 : Int)) (2 * j + 1) (by simp only [add_int]; omega) (by simp; omega)]
    have e0 : (pre ++ a :: b :: rest)[2 * j]'(by simp; omega) = a := by
      rw [List.getElem_append_right (by omega)]; simp [hp]
    have e1 : (pre ++ a :: b :: rest)[2 * j + 1]'(by simp; omega) = b := by
      rw [List.getElem_append_right (by omega)]; simp [hp]
    rw [e0, e1]
    have hpre : pre ++ a :: b :: rest = (pre ++ [a, b]) ++ rest := by simp
    simp only [ok_bind, pure_bind]
    rw [hpre, ih (pre ++ [a, b]) (j + 1) _ (by simp; omega)]
    cases C20.nbDecodeInts rest off <;> simp [Except.map, add]

theorem range3_zero_two (n : Nat) :
    range3 0 (n : Int) 2 = (List.range' 0 ((n + 1) / 2)).map fun (k : Nat) => (0 : Int) + 2 * (k : Int) := by
  unfold range3
  have : (((n : Int) - 0 + 2 - 1) / 2).toNat = (n + 1) / 2 := by omega
  rw [this, List.range_eq_range']

theorem netbios_decode_eq (data : Bytes) (off : Int) :
    Gen.PyUtils.netbios_decode data off = C20.netbiosDecode data off := by
  unfold Gen.PyUtils.netbios_decode C20.netbiosDecode
  simp only []
  have h := decode_loop data off [] 0 [] rfl
  simp only [List.nil_append] at h
  rw [show (len data : Int) = ((data.length : Nat) : Int) from rfl, range3_zero_two, h]
  cases C20.nbDecodeInts data off with
  | error e => rfl
  | ok vs => simp [Except.map, bind, Except.bind, bytesOfInts_eq]


/-! ### xor -/

theorem sum_bytes_zero (l : Bytes) : ∀ a : Int, 0 ≤ a →
    (l.foldl (fun acc x => acc + (x.toNat : Int)) a = 0 ↔ (a = 0 ∧ l.all (· == 0) = true)) := by
  induction l with
  | nil => intro a _; simp
  | cons x xs ih =>
    intro a ha
    simp only [List.foldl_cons, List.all_cons, Bool.and_eq_true, beq_iff_eq]
    rw [ih _ (by omega)]
    have : x = 0 ↔ x.toNat = 0 := by
      constructor
      · rintro rfl; rfl
      · intro h; exact UInt8.toNat_inj.mp h
    rw [this]
    constructor
    · rintro ⟨h1, h2⟩; exact ⟨by omega, by omega, h2⟩
    · rintro ⟨h1, h2, h3⟩; exact ⟨by omega, h3⟩

theorem sum_eq_zero (key : Bytes) : (sum key == (0 : Int)) = key.all (· == 0) := by
  rw [Bool.eq_iff_iff, beq_iff_eq]
  have := sum_bytes_zero key 0 (by omega)
  simpa [sum] using this

theorem fdiv_natCast (a b : Nat) : Int.fdiv (a : Int) (b : Int) = ((a / b : Nat) : Int) := by
  rw [Int.fdiv_eq_ediv_of_nonneg _ (by omega)]; rfl

theorem tile_eq (key : Bytes) (n : Nat) (t1 : Int) (h1 : t1 = ((n / key.length : Nat) : Int)) :
    slice (if key.length < n then mul key (add t1 (1 : Int)) else key) noBound (n : Int) = C20.tile key n := by
  subst h1
  rw [slice_noBound_int]
  unfold C20.tile
  simp only [pySliceTo, mul, add_int]
  rw [if_pos (by omega)]
  have : ∀ m : Nat, ((m : Int) + 1).toNat = m + 1 := fun m => by omega
  simp only [this, Int.toNat_natCast]

theorem bxor_natCast (m n : Nat) : bxor (m : Int) (n : Int) = ((m ^^^ n : Nat) : Int) := rfl

theorem xor_lt (a b : Bytes) (h : b.length = a.length) :
    C20.fromLE a ^^^ C20.fromLE b < 256 ^ a.length := by
  have ha := C20.fromLE_lt a
  have hb := C20.fromLE_lt b
  rw [h] at hb
  have e : (256 : Nat) ^ a.length = 2 ^ (8 * a.length) := by
    rw [Nat.pow_mul]
  rw [e] at ha hb ⊢
  exact Nat.xor_lt_two_pow ha hb

theorem xor_tail (data k : Bytes) (hk : k.length = data.length) :
    (do
      let t2 ← intFromBytes data (s "little") false
      let t3 ← intFromBytes k (s "little") false
      intToBytes (bxor t2 t3) (len data) (s "little") false)
    = .ok (C20.toLE data.length (C20.fromLE data ^^^ C20.fromLE k)) := by
  have e1 := intFromBytes_eq data .little false
  have e2 := intFromBytes_eq k .little false
  have e3 := intToBytes_eq (bxor (C20.fromLE data : Int) (C20.fromLE k : Int)) data.length .little false
  simp only [ordS] at e1 e2 e3
  rw [e1, e2]
  simp only [ok_bind, C20.fromBytes, C20.fromBytesU, Bool.false_eq_true, false_and, if_false]
  rw [show (len data : Int) = ((data.length : Nat) : Int) from rfl, e3, bxor_natCast]
  have hlt := xor_lt data k hk
  simp only [C20.toBytes, Bool.false_eq_true, if_false, C20.toBytesU]
  rw [if_pos ⟨by omega, by omega⟩]
  simp

theorem xor_eq_xorBig (data key : Bytes) : Gen.PyUtils.xor data key = .ok (C20.xorBig data key) := by
  unfold Gen.PyUtils.xor C20.xorBig
  simp only []
  rw [sum_eq_zero]
  by_cases hz : key.all (· == 0) = true
  · rw [if_pos hz, if_pos hz]; rfl
  · rw [if_neg hz, if_neg hz]
    have hk : key ≠ [] := by rintro rfl; simp at hz
    have hl : 0 < key.length := List.length_pos_iff.mpr hk
    have hlen := C20.tile_length key data.length hk
    by_cases hlt : key.length < data.length
    · have hd : decide ((len key : Int) < len data) = true := by
        simp only [len, decide_eq_true_eq]; omega
      rw [if_pos hd]
      have hf : floordiv (len data) (len key) = .ok ((data.length / key.length : Nat) : Int) := by
        simp only [floordiv, len]
        rw [if_neg (by omega), fdiv_natCast]
      rw [hf, ok_bind]
      have ht := tile_eq key data.length _ rfl
      rw [if_pos hlt] at ht
      rw [show (len data : Int) = ((data.length : Nat) : Int) from rfl, ht]
      exact xor_tail data _ hlen
    · have hd : ¬ decide ((len key : Int) < len data) = true := by
        simp only [len, decide_eq_true_eq]; omega
      rw [if_neg hd]
      have ht := tile_eq key data.length _ rfl
      rw [if_neg hlt] at ht
      rw [show (len data : Int) = ((data.length : Nat) : Int) from rfl, ht]
      exact xor_tail data _ hlen

end C20Gen

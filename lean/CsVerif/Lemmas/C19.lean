import CsVerif.Model.C19
/-! Helper lemmas for C19 (beacon client).  Core tactics only. -/
namespace C19
open Client

/-! ### beacon id -/

theorem pyAndMask_eq_mod (x : Int) : pyAndMask x 0xFFFFFFFF = x % 4294967296 := by
  cases x with
  | ofNat n =>
    simp only [pyAndMask]
    have := Nat.and_two_pow_sub_one_eq_mod n 32
    simp only [show (2:Nat)^32 - 1 = 0xFFFFFFFF from rfl, show (2:Nat)^32 = 4294967296 from rfl] at this
    rw [this]
    simp only [Int.ofNat_eq_natCast]
    omega
  | negSucc n =>
    simp only [pyAndMask]
    have := Nat.and_two_pow_sub_one_eq_mod n 32
    simp only [show (2:Nat)^32 - 1 = 0xFFFFFFFF from rfl, show (2:Nat)^32 = 4294967296 from rfl] at this
    rw [Nat.and_comm, this]
    rw [Int.negSucc_eq]
    omega

theorem pyAndMask31_eq_mod (x : Int) : pyAndMask x 0x7FFFFFFF = x % 2147483648 := by
  cases x with
  | ofNat n =>
    simp only [pyAndMask]
    have := Nat.and_two_pow_sub_one_eq_mod n 31
    simp only [show (2:Nat)^31 - 1 = 0x7FFFFFFF from rfl, show (2:Nat)^31 = 2147483648 from rfl] at this
    rw [this]
    simp only [Int.ofNat_eq_natCast]
    omega
  | negSucc n =>
    simp only [pyAndMask]
    have := Nat.and_two_pow_sub_one_eq_mod n 31
    simp only [show (2:Nat)^31 - 1 = 0x7FFFFFFF from rfl, show (2:Nat)^31 = 2147483648 from rfl] at this
    rw [Nat.and_comm, this]
    rw [Int.negSucc_eq]
    omega

/-- closed form of the normalisation: the id is reduced modulo 2^32, its lowest bit is cleared, and the upper
half of the 32-bit range is rejected -/
theorem normaliseId_spec (id : Int) :
    normaliseId id =
      if 2147483648 ≤ id % 4294967296 then .error .valueError else .ok (id % 4294967296 - id % 2) := by
  unfold normaliseId
  simp only [pyAndMask_eq_mod]
  have : (id - id % 2) % 4294967296 = id % 4294967296 - id % 2 := by omega
  rw [this]
  split <;> split <;> first | rfl | omega

/-! ### UTF-8 -/

theorem ofNat_eq_of_toNat (b : UInt8) (n : Nat) (h : n = b.toNat) : UInt8.ofNat n = b := by
  rw [h]; exact UInt8.ofNat_toNat

theorem isCont_iff (b : UInt8) : isCont b = true ↔ 128 ≤ b.toNat ∧ b.toNat ≤ 191 := by
  simp [isCont]

/-- a sequence accepted by the decoder is exactly the encoding of the code point it yields -/
theorem decodeStep_sound (b : UInt8) (rest : Bytes) (c k : Nat) (h : decodeStep b rest = some (c, k)) :
    k ≤ rest.length ∧ encodeCp c = .ok (b :: rest.take k) := by
  unfold decodeStep at h
  simp only at h
  split at h
  · injection h with h; injection h with h1 h2; subst h1 h2
    rename_i hx
    simp [encodeCp, hx]
  · split at h
    · rename_i hx1 hx2
      split at h
      · rename_i b1 r
        split at h
        · rename_i hc
          rw [isCont_iff] at hc
          injection h with h; injection h with h1 h2; subst h1 h2
          refine ⟨by simp, ?_⟩
          unfold encodeCp
          rw [if_neg (by omega), if_pos (by omega)]
          rw [ofNat_eq_of_toNat b _ (by omega), ofNat_eq_of_toNat b1 _ (by omega)]
          rfl
        · cases h
      · cases h
    · split at h
      · rename_i hx1 hx2 hx3
        split at h
        · rename_i b1 b2 r
          split at h
          · rename_i hc
            simp only [isCont_iff] at hc
            injection h with h; injection h with h1 h2; subst h1 h2
            refine ⟨by simp, ?_⟩
            unfold encodeCp
            rw [if_neg (by omega), if_neg (by omega), if_pos (by omega), if_neg (by omega)]
            rw [ofNat_eq_of_toNat b _ (by omega), ofNat_eq_of_toNat b1 _ (by omega),
              ofNat_eq_of_toNat b2 _ (by omega)]
            rfl
          · cases h
        · cases h
      · split at h
        · rename_i hx1 hx2 hx3 hx4
          split at h
          · rename_i b1 b2 b3 r
            split at h
            · rename_i hc
              simp only [isCont_iff] at hc
              injection h with h; injection h with h1 h2; subst h1 h2
              refine ⟨by simp, ?_⟩
              unfold encodeCp
              rw [if_neg (by omega), if_neg (by omega), if_neg (by omega), if_pos (by omega)]
              rw [ofNat_eq_of_toNat b _ (by omega), ofNat_eq_of_toNat b1 _ (by omega),
                ofNat_eq_of_toNat b2 _ (by omega), ofNat_eq_of_toNat b3 _ (by omega)]
              rfl
            · cases h
          · cases h
        · cases h

theorem utf8Encode_cons_ok {c : Nat} {cs : Txt} {b r : Bytes} (h1 : encodeCp c = .ok b)
    (h2 : utf8Encode cs = .ok r) : utf8Encode (c :: cs) = .ok (b ++ r) := by
  simp [utf8Encode, h1, h2]

/-- re-encoding what `decode(errors="ignore")` produced never fails and yields a subsequence of the input bytes -/
theorem encode_decodeAux (bs : Bytes) :
    ∀ k, ∃ e, utf8Encode (decodeAux k bs) = .ok e ∧ List.Sublist e (bs.drop k) := by
  induction bs with
  | nil => intro k; exact ⟨[], by simp [decodeAux, utf8Encode]⟩
  | cons b rest ih =>
    intro k
    cases k with
    | succ k =>
      obtain ⟨e, h1, h2⟩ := ih k
      exact ⟨e, by simpa [decodeAux] using h1, by simpa using h2⟩
    | zero =>
      simp only [decodeAux]
      cases hs : decodeStep b rest with
      | none =>
        obtain ⟨e, h1, h2⟩ := ih 0
        exact ⟨e, h1, by simpa using List.Sublist.cons b (by simpa using h2)⟩
      | some ck =>
        obtain ⟨c, k2⟩ := ck
        obtain ⟨hk, henc⟩ := decodeStep_sound b rest c k2 hs
        obtain ⟨e, h1, h2⟩ := ih k2
        refine ⟨(b :: rest.take k2) ++ e, utf8Encode_cons_ok henc h1, ?_⟩
        simp only [List.drop_zero, List.cons_append, List.cons_sublist_cons]
        have := List.Sublist.append (List.Sublist.refl (rest.take k2)) h2
        rwa [List.take_append_drop] at this

theorem encode_decodeIgnore (bs : Bytes) :
    ∃ e, utf8Encode (utf8DecodeIgnore bs) = .ok e ∧ List.Sublist e bs := by
  simpa [utf8DecodeIgnore] using encode_decodeAux bs 0

/-! ### UTF-8: the truncation is exact -/

theorem toNat_ofNat_lt (n : Nat) (h : n < 256) : (UInt8.ofNat n).toNat = n := by
  rw [UInt8.toNat_ofNat']; omega

theorem encodeCp_length {c : Nat} {e : Bytes} (h : encodeCp c = .ok e) : e.length = cpLen c := by
  unfold encodeCp at h
  unfold cpLen
  split at h
  · injection h with h; subst h; simp [*]
  · split at h
    · injection h with h; subst h; simp [*]
    · split at h
      · split at h
        · cases h
        · injection h with h; subst h; simp [*]
      · split at h
        · injection h with h; subst h; simp [*]
        · cases h

theorem decodeStep_one (b0 : UInt8) (X : Bytes) (h0 : b0.toNat < 0x80) : decodeStep b0 X = some (b0.toNat, 0) := by
  simp [decodeStep, h0]

theorem decodeStep_two (b0 b1 : UInt8) (X : Bytes) (h0 : 0xC2 ≤ b0.toNat ∧ b0.toNat ≤ 0xDF)
    (h1 : 0x80 ≤ b1.toNat ∧ b1.toNat ≤ 0xBF) :
    decodeStep b0 (b1 :: X) = some ((b0.toNat - 0xC0) * 64 + (b1.toNat - 0x80), 1) := by
  unfold decodeStep
  simp only
  rw [if_neg (by omega), if_pos h0]
  simp [isCont, h1]

theorem decodeStep_three (b0 b1 b2 : UInt8) (X : Bytes) (h0 : 0xE0 ≤ b0.toNat ∧ b0.toNat ≤ 0xEF)
    (h1 : 0x80 ≤ b1.toNat ∧ b1.toNat ≤ 0xBF) (h2 : 0x80 ≤ b2.toNat ∧ b2.toNat ≤ 0xBF)
    (hc : 0x800 ≤ (b0.toNat - 0xE0) * 4096 + (b1.toNat - 0x80) * 64 + (b2.toNat - 0x80))
    (hs : ¬ (0xD800 ≤ (b0.toNat - 0xE0) * 4096 + (b1.toNat - 0x80) * 64 + (b2.toNat - 0x80) ∧
             (b0.toNat - 0xE0) * 4096 + (b1.toNat - 0x80) * 64 + (b2.toNat - 0x80) < 0xE000)) :
    decodeStep b0 (b1 :: b2 :: X) = some ((b0.toNat - 0xE0) * 4096 + (b1.toNat - 0x80) * 64 + (b2.toNat - 0x80), 2) := by
  unfold decodeStep
  simp only
  rw [if_neg (by omega), if_neg (by omega), if_pos h0]
  have c1 : isCont b1 = true := by simp [isCont, h1]
  have c2 : isCont b2 = true := by simp [isCont, h2]
  rw [if_pos ⟨c1, c2, hc, hs⟩]

theorem decodeStep_four (b0 b1 b2 b3 : UInt8) (X : Bytes) (h0 : 0xF0 ≤ b0.toNat ∧ b0.toNat ≤ 0xF4)
    (h1 : 0x80 ≤ b1.toNat ∧ b1.toNat ≤ 0xBF) (h2 : 0x80 ≤ b2.toNat ∧ b2.toNat ≤ 0xBF)
    (h3 : 0x80 ≤ b3.toNat ∧ b3.toNat ≤ 0xBF)
    (hc : 0x10000 ≤ (b0.toNat - 0xF0) * 262144 + (b1.toNat - 0x80) * 4096 + (b2.toNat - 0x80) * 64 + (b3.toNat - 0x80))
    (hm : (b0.toNat - 0xF0) * 262144 + (b1.toNat - 0x80) * 4096 + (b2.toNat - 0x80) * 64 + (b3.toNat - 0x80) < 0x110000) :
    decodeStep b0 (b1 :: b2 :: b3 :: X) =
      some ((b0.toNat - 0xF0) * 262144 + (b1.toNat - 0x80) * 4096 + (b2.toNat - 0x80) * 64 + (b3.toNat - 0x80), 3) := by
  unfold decodeStep
  simp only
  rw [if_neg (by omega), if_neg (by omega), if_neg (by omega), if_pos h0]
  have c1 : isCont b1 = true := by simp [isCont, h1]
  have c2 : isCont b2 = true := by simp [isCont, h2]
  have c3 : isCont b3 = true := by simp [isCont, h3]
  rw [if_pos ⟨c1, c2, c3, hc, hm⟩]

/-- decoding the encoding of `c` followed by anything yields `c` and consumes exactly its bytes -/
theorem decodeStep_encodeCp {c : Nat} {b : UInt8} {bs : Bytes} (h : encodeCp c = .ok (b :: bs)) (X : Bytes) :
    decodeStep b (bs ++ X) = some (c, bs.length) := by
  unfold encodeCp at h
  split at h
  · rename_i h1
    injection h with h; injection h with hb hbs; subst hb hbs
    have e0 := toNat_ofNat_lt c (by omega)
    rw [decodeStep_one _ _ (by omega), e0]; rfl
  · split at h
    · rename_i h1 h2
      injection h with h; injection h with hb hbs; subst hb hbs
      have e0 := toNat_ofNat_lt (0xC0 + c / 64) (by omega)
      have e1 := toNat_ofNat_lt (0x80 + c % 64) (by omega)
      simp only [List.cons_append, List.nil_append]
      rw [decodeStep_two _ _ _ (by omega) (by omega), e0, e1]
      simp only [List.length_cons, List.length_nil, Option.some.injEq, Prod.mk.injEq, and_true]
      omega
    · split at h
      · split at h
        · cases h
        · rename_i h1 h2 h3 h4
          injection h with h; injection h with hb hbs; subst hb hbs
          have e0 := toNat_ofNat_lt (0xE0 + c / 4096) (by omega)
          have e1 := toNat_ofNat_lt (0x80 + c / 64 % 64) (by omega)
          have e2 := toNat_ofNat_lt (0x80 + c % 64) (by omega)
          simp only [List.cons_append, List.nil_append]
          rw [decodeStep_three _ _ _ _ (by omega) (by omega) (by omega) (by omega) (by omega), e0, e1, e2]
          simp only [List.length_cons, List.length_nil, Option.some.injEq, Prod.mk.injEq, and_true]
          omega
      · split at h
        · rename_i h1 h2 h3 h4
          injection h with h; injection h with hb hbs; subst hb hbs
          have e0 := toNat_ofNat_lt (0xF0 + c / 262144) (by omega)
          have e1 := toNat_ofNat_lt (0x80 + c / 4096 % 64) (by omega)
          have e2 := toNat_ofNat_lt (0x80 + c / 64 % 64) (by omega)
          have e3 := toNat_ofNat_lt (0x80 + c % 64) (by omega)
          simp only [List.cons_append, List.nil_append]
          rw [decodeStep_four _ _ _ _ _ (by omega) (by omega) (by omega) (by omega) (by omega) (by omega), e0, e1, e2, e3]
          simp only [List.length_cons, List.length_nil, Option.some.injEq, Prod.mk.injEq, and_true]
          omega
        · cases h

theorem decodeStep_cont (b : UInt8) (rest : Bytes) (h : 0x80 ≤ b.toNat ∧ b.toNat ≤ 0xBF) : decodeStep b rest = none := by
  unfold decodeStep
  simp only
  rw [if_neg (by omega), if_neg (by omega), if_neg (by omega), if_neg (by omega)]

theorem decodeStep_short2 (b : UInt8) (h : 0xC2 ≤ b.toNat ∧ b.toNat ≤ 0xDF) : decodeStep b [] = none := by
  unfold decodeStep
  simp only
  rw [if_neg (by omega), if_pos h]

theorem decodeStep_short3 (b : UInt8) (rest : Bytes) (h : 0xE0 ≤ b.toNat ∧ b.toNat ≤ 0xEF) (hl : rest.length < 2) :
    decodeStep b rest = none := by
  unfold decodeStep
  simp only
  rw [if_neg (by omega), if_neg (by omega), if_pos h]
  match rest, hl with
  | [], _ => rfl
  | [_], _ => rfl

theorem decodeStep_short4 (b : UInt8) (rest : Bytes) (h : 0xF0 ≤ b.toNat ∧ b.toNat ≤ 0xF4) (hl : rest.length < 3) :
    decodeStep b rest = none := by
  unfold decodeStep
  simp only
  rw [if_neg (by omega), if_neg (by omega), if_neg (by omega), if_pos h]
  match rest, hl with
  | [], _ => rfl
  | [_], _ => rfl
  | [_, _], _ => rfl

theorem decodeAux_conts (l : Bytes) (h : ∀ b ∈ l, 0x80 ≤ b.toNat ∧ b.toNat ≤ 0xBF) : decodeAux 0 l = [] := by
  induction l with
  | nil => rfl
  | cons b rest ih =>
    simp only [decodeAux, decodeStep_cont b rest (h b (by simp))]
    exact ih (fun x hx => h x (List.mem_cons_of_mem _ hx))

/-- a strict prefix of one encoded character decodes (with `ignore`) to nothing -/
theorem decode_truncated {c : Nat} {e : Bytes} (h : encodeCp c = .ok e) (n : Nat) (hn : n < e.length) :
    decodeAux 0 (e.take n) = [] := by
  unfold encodeCp at h
  split at h
  · injection h with h; subst h
    have : n = 0 := by simpa using hn
    subst this; rfl
  · split at h
    · rename_i h1 h2
      injection h with h; subst h
      have e0 := toNat_ofNat_lt (0xC0 + c / 64) (by omega)
      match n, hn with
      | 0, _ => rfl
      | 1, _ =>
        simp only [List.take_succ_cons, List.take_zero, decodeAux]
        rw [decodeStep_short2 _ (by omega)]
    · split at h
      · split at h
        · cases h
        · rename_i h1 h2 h3 h4
          injection h with h; subst h
          have e0 := toNat_ofNat_lt (0xE0 + c / 4096) (by omega)
          have e1 := toNat_ofNat_lt (0x80 + c / 64 % 64) (by omega)
          match n, hn with
          | 0, _ => rfl
          | 1, _ =>
            simp only [List.take_succ_cons, List.take_zero, decodeAux]
            rw [decodeStep_short3 _ _ (by omega) (by simp)]
          | 2, _ =>
            simp only [List.take_succ_cons, List.take_zero, decodeAux]
            rw [decodeStep_short3 _ _ (by omega) (by simp)]
            simp only
            rw [decodeStep_cont _ _ (by omega)]
      · split at h
        · rename_i h1 h2 h3 h4
          injection h with h; subst h
          have e0 := toNat_ofNat_lt (0xF0 + c / 262144) (by omega)
          have e1 := toNat_ofNat_lt (0x80 + c / 4096 % 64) (by omega)
          have e2 := toNat_ofNat_lt (0x80 + c / 64 % 64) (by omega)
          match n, hn with
          | 0, _ => rfl
          | 1, _ =>
            simp only [List.take_succ_cons, List.take_zero, decodeAux]
            rw [decodeStep_short4 _ _ (by omega) (by simp)]
          | 2, _ =>
            simp only [List.take_succ_cons, List.take_zero, decodeAux]
            rw [decodeStep_short4 _ _ (by omega) (by simp)]
            simp only
            rw [decodeStep_cont _ _ (by omega)]
          | 3, _ =>
            simp only [List.take_succ_cons, List.take_zero, decodeAux]
            rw [decodeStep_short4 _ _ (by omega) (by simp)]
            simp only
            rw [decodeStep_cont _ _ (by omega)]
            simp only
            rw [decodeStep_cont _ _ (by omega)]
        · cases h

theorem decodeAux_skip (l X : Bytes) : decodeAux l.length (l ++ X) = decodeAux 0 X := by
  induction l with
  | nil => rfl
  | cons b bs ih => simpa [decodeAux] using ih

theorem utf8Encode_cons_inv {c : Nat} {cs : Txt} {enc : Bytes} (h : utf8Encode (c :: cs) = .ok enc) :
    ∃ e r, encodeCp c = .ok e ∧ utf8Encode cs = .ok r ∧ enc = e ++ r := by
  simp only [utf8Encode] at h
  cases h1 : encodeCp c with
  | error x => simp [h1] at h
  | ok e =>
    cases h2 : utf8Encode cs with
    | error x => simp [h1, h2] at h
    | ok r =>
      simp only [h1, h2] at h
      injection h with h
      exact ⟨e, r, rfl, rfl, h.symm⟩

theorem cpLen_pos (c : Nat) : 0 < cpLen c := by
  unfold cpLen; split <;> (try split) <;> (try split) <;> omega

/-- decoding (with `ignore`) the first `n` bytes of an encoded text yields exactly the whole characters that fit -/
theorem decode_take_encode (s : Txt) : ∀ (enc : Bytes) (n : Nat), utf8Encode s = .ok enc →
    utf8DecodeIgnore (enc.take n) = fitPrefix s n := by
  induction s with
  | nil =>
    intro enc n h
    simp only [utf8Encode] at h
    injection h with h; subst h
    simp [utf8DecodeIgnore, decodeAux, fitPrefix]
  | cons c cs ih =>
    intro enc n h
    obtain ⟨e, r, h1, h2, rfl⟩ := utf8Encode_cons_inv h
    have hl := encodeCp_length h1
    have hp := cpLen_pos c
    unfold fitPrefix
    by_cases hfit : cpLen c ≤ n
    · rw [if_pos hfit]
      rw [List.take_append, List.take_of_length_le (by omega), hl]
      match e, hl, h1 with
      | [], hl, _ => simp at hl; omega
      | b :: bs, hl, h1 =>
        simp only [utf8DecodeIgnore, List.cons_append, decodeAux]
        rw [decodeStep_encodeCp h1]
        simp only [decodeAux_skip]
        exact congrArg _ (ih r (n - cpLen c) h2)
    · rw [if_neg hfit]
      rw [List.take_append_of_le_length (by omega)]
      exact decode_truncated h1 n (by omega)

theorem encode_fitPrefix (s : Txt) : ∀ (enc : Bytes) (n : Nat), utf8Encode s = .ok enc →
    ∃ e, utf8Encode (fitPrefix s n) = .ok e ∧ e <+: enc ∧ e.length ≤ n := by
  induction s with
  | nil => intro enc n h; exact ⟨[], by simp [fitPrefix, utf8Encode], List.nil_prefix, Nat.zero_le _⟩
  | cons c cs ih =>
    intro enc n h
    obtain ⟨e, r, h1, h2, rfl⟩ := utf8Encode_cons_inv h
    have hl := encodeCp_length h1
    unfold fitPrefix
    by_cases hfit : cpLen c ≤ n
    · rw [if_pos hfit]
      obtain ⟨e', he', hp, hlen⟩ := ih r (n - cpLen c) h2
      refine ⟨e ++ e', utf8Encode_cons_ok h1 he', (List.prefix_append_right_inj e).2 hp, ?_⟩
      simp only [List.length_append]; omega
    · rw [if_neg hfit]
      exact ⟨[], by simp [utf8Encode], List.nil_prefix, Nat.zero_le _⟩

/-- `fitPrefix` is the longest prefix of whole characters that fits -/
theorem fitPrefix_spec (s : Txt) : ∀ n, fitPrefix s n <+: s ∧ byteLen (fitPrefix s n) ≤ n ∧
    (∀ c rest, s = fitPrefix s n ++ c :: rest → n < byteLen (fitPrefix s n) + cpLen c) := by
  induction s with
  | nil => intro n; exact ⟨by simp [fitPrefix], by simp [fitPrefix, byteLen], fun c rest h => by simp [fitPrefix] at h⟩
  | cons a as ih =>
    intro n
    unfold fitPrefix
    by_cases hfit : cpLen a ≤ n
    · rw [if_pos hfit]
      obtain ⟨i1, i2, i3⟩ := ih (n - cpLen a)
      refine ⟨by simpa using i1, ?_, ?_⟩
      · simp only [byteLen, List.map_cons, List.sum_cons] at i2 ⊢; omega
      · intro c rest h
        simp only [List.cons_append, List.cons.injEq, true_and] at h
        have := i3 c rest h
        simp only [byteLen, List.map_cons, List.sum_cons] at this ⊢; omega
    · rw [if_neg hfit]
      refine ⟨List.nil_prefix, by simp [byteLen], ?_⟩
      intro c rest h
      simp only [List.nil_append, List.cons.injEq] at h
      obtain ⟨rfl, _⟩ := h
      simp only [byteLen, List.map_nil, List.sum_nil]; omega

/-! ### get_sleep_time -/

theorem sleep_band_scaled (s j : Int) (u : Frac) (hs : 0 ≤ s) (hj0 : 0 ≤ j)
    (hu0 : 0 ≤ u.num) (hu1 : u.num ≤ u.den) :
    s * (100 - j) * u.den ≤ (getSleepTime s j u).num ∧
    (getSleepTime s j u).num ≤ s * (getSleepTime s j u).den := by
  simp only [getSleepTime]
  have hsj : 0 ≤ s * j := Int.mul_nonneg hs hj0
  have h1 : 0 ≤ u.num * (s * j) := Int.mul_nonneg hu0 hsj
  have h2 : u.num * (s * j) ≤ (u.den : Int) * (s * j) := Int.mul_le_mul_of_nonneg_right hu1 hsj
  have e1 : s * (100 - j) * (u.den : Int) = 100 * (u.den : Int) * s - (u.den : Int) * (s * j) := by
    simp only [Int.mul_sub, Int.mul_comm, Int.mul_left_comm, Int.mul_assoc]
  have e2 : s * ((100 * u.den : Nat) : Int) = 100 * (u.den : Int) * s := by
    simp only [Int.natCast_mul, Int.mul_comm]; rfl
  rw [e1, e2]
  constructor <;> omega

/-! ### association lists -/

theorem lookup_mem {α β} [BEq α] [LawfulBEq α] {l : List (α × β)} {k : α} {v : β}
    (h : l.lookup k = some v) : (k, v) ∈ l := by
  induction l with
  | nil => simp [List.lookup] at h
  | cons p ps ih =>
    obtain ⟨a, b⟩ := p
    simp only [List.lookup_cons] at h
    by_cases hk : k == a
    · simp only [hk] at h
      have : k = a := by simpa using hk
      subst this
      injection h with h; subst h
      simp
    · simp only [hk] at h
      exact List.mem_cons_of_mem _ (ih h)

theorem lookup_none_not_mem {α β} [BEq α] [LawfulBEq α] {l : List (α × β)} {k : α}
    (h : l.lookup k = none) : k ∉ l.map Prod.fst := by
  induction l with
  | nil => simp
  | cons p ps ih =>
    obtain ⟨a, b⟩ := p
    simp only [List.lookup_cons] at h
    by_cases hk : k == a
    · simp [hk] at h
    · simp only [hk] at h
      have : k ≠ a := by simpa using hk
      simp only [List.map_cons, List.mem_cons, not_or]
      exact ⟨this, ih h⟩

theorem lookup_append_single {α β} [BEq α] [LawfulBEq α] [DecidableEq α] (l : List (α × β)) (k k' : α) (v : β) :
    (l ++ [(k, v)]).lookup k' =
      match l.lookup k' with
      | some x => some x
      | none => if k' = k then some v else none := by
  induction l with
  | nil =>
    simp only [List.nil_append, List.lookup_cons, List.lookup_nil]
    by_cases h : k' = k
    · subst h; simp
    · have : (k' == k) = false := by simpa using h
      simp [this, h]
  | cons p ps ih =>
    obtain ⟨a, b⟩ := p
    simp only [List.cons_append, List.lookup_cons]
    by_cases hk : k' == a
    · simp [hk]
    · simp only [hk]; exact ih

theorem snd_inj_of_nodup {α β} {l : List (α × β)} (h : (l.map Prod.snd).Nodup) {a a' : α} {b : β}
    (h1 : (a, b) ∈ l) (h2 : (a', b) ∈ l) : a = a' := by
  induction l with
  | nil => cases h1
  | cons p ps ih =>
    simp only [List.map_cons, List.nodup_cons, List.mem_map, not_exists, not_and] at h
    rcases List.mem_cons.1 h1 with e1 | m1 <;> rcases List.mem_cons.1 h2 with e2 | m2
    · rw [← e1] at e2; exact (Prod.mk.inj e2).1.symm
    · subst e1; exact absurd rfl (h.1 (a', b) m2)
    · subst e2; exact absurd rfl (h.1 (a, b) m1)
    · exact ih h.2 m1 m2

/-! ### heap -/

structure WF (c : Client) : Prop where
  bound : ∀ kr ∈ c.taskMap, kr.2 < c.heap.length
  refsNodup : (c.taskMap.map Prod.snd).Nodup
  keysNodup : (c.taskMap.map Prod.fst).Nodup

/-- `c'` is `c` after allocating/mutating only list objects that did not exist in `c` -/
structure Extends (c c' : Client) : Prop where
  taskMap : c'.taskMap = c.taskMap
  iattrs : c'.iattrs = c.iattrs
  cattrs : c'.cattrs = c.cattrs
  len : c.heap.length ≤ c'.heap.length
  old : ∀ r, r < c.heap.length → c'.readList r = c.readList r

theorem Extends.refl (c : Client) : Extends c c := ⟨rfl, rfl, rfl, Nat.le_refl _, fun _ _ => rfl⟩

theorem Extends.trans {a b c : Client} (h1 : Extends a b) (h2 : Extends b c) : Extends a c :=
  ⟨h2.taskMap.trans h1.taskMap, h2.iattrs.trans h1.iattrs, h2.cattrs.trans h1.cattrs,
   Nat.le_trans h1.len h2.len, fun r hr => (h2.old r (Nat.lt_of_lt_of_le hr h1.len)).trans (h1.old r hr)⟩

theorem readList_newList_old (c : Client) (xs : List Handler) (r : Nat) (h : r < c.heap.length) :
    (c.newList xs).1.readList r = c.readList r := by
  simp [newList, readList, List.getElem?_append_left h]

theorem readList_newList_new (c : Client) (xs : List Handler) :
    (c.newList xs).1.readList c.heap.length = xs := by
  simp [newList, readList]

theorem newList_len (c : Client) (xs : List Handler) : (c.newList xs).1.heap.length = c.heap.length + 1 := by
  simp [newList]

theorem Extends.newList (c : Client) (xs : List Handler) : Extends c (c.newList xs).1 :=
  ⟨rfl, rfl, rfl, by simp [Client.newList], fun r hr => readList_newList_old c xs r hr⟩

theorem readList_appendTo (c : Client) (r r' : Nat) (h : Handler) :
    (c.appendTo r h).readList r' = if r' = r ∧ r < c.heap.length then c.readList r ++ [h] else c.readList r' := by
  simp only [appendTo, readList, List.getElem?_modify]
  by_cases hr : r = r'
  · subst hr
    simp only [true_and, ↓reduceIte]
    by_cases hl : r < c.heap.length
    · simp [hl]
    · simp [hl]
  · have : ¬ r' = r := fun e => hr e.symm
    simp [hr, this]

theorem appendTo_len (c : Client) (r : Nat) (h : Handler) : (c.appendTo r h).heap.length = c.heap.length := by
  simp [appendTo]

theorem Extends.appendTo {c c1 : Client} (h : Extends c c1) (r : Nat) (hr : c.heap.length ≤ r) (x : Handler) :
    Extends c (c1.appendTo r x) := by
  refine ⟨h.taskMap, h.iattrs, h.cattrs, by rw [appendTo_len]; exact h.len, fun r' hr' => ?_⟩
  rw [readList_appendTo, if_neg (by omega)]
  exact h.old r' hr'

theorem Extends.stored {c c' : Client} (h : Extends c c') (hw : WF c) (k : Key) : stored c' k = stored c k := by
  unfold Client.stored lookupKey
  rw [h.taskMap]
  cases hl : c.taskMap.lookup k with
  | none => rfl
  | some r => exact h.old r (hw.bound _ (lookup_mem hl))

theorem Extends.view {c c' : Client} (h : Extends c c') (hw : WF c) : c'.view = c.view := by
  unfold Client.view
  rw [h.taskMap]
  apply List.map_congr_left
  intro kr hkr
  rw [h.old _ (hw.bound _ hkr)]

theorem Extends.wf {c c' : Client} (h : Extends c c') (hw : WF c) : WF c' := by
  refine ⟨fun kr hkr => ?_, by rw [h.taskMap]; exact hw.refsNodup, by rw [h.taskMap]; exact hw.keysNodup⟩
  rw [h.taskMap] at hkr
  exact Nat.lt_of_lt_of_le (hw.bound _ hkr) h.len

theorem Extends.getattr {c c' : Client} (h : Extends c c') (n : Txt) : c'.getattr n = c.getattr n := by
  simp [Client.getattr, h.iattrs, h.cattrs]

/-! ### register_task -/

theorem registerTask_spec (c : Client) (hw : WF c) (k : Key) (h : Handler) :
    WF (c.registerTask k h) ∧ (c.registerTask k h).iattrs = c.iattrs ∧ (c.registerTask k h).cattrs = c.cattrs ∧
    ∀ k', stored (c.registerTask k h) k' = if k' = k then stored c k ++ [h] else stored c k' := by
  unfold registerTask
  cases hl : c.lookupKey k with
  | some r =>
    simp only
    have hr := hw.bound _ (lookup_mem hl)
    refine ⟨⟨fun kr hkr => by rw [appendTo_len]; exact hw.bound kr hkr, hw.refsNodup, hw.keysNodup⟩, rfl, rfl, ?_⟩
    intro k'
    unfold stored
    have e : (c.appendTo r h).lookupKey k' = c.lookupKey k' := rfl
    rw [e]
    by_cases hk : k' = k
    · subst hk
      simp only [hl, ↓reduceIte, readList_appendTo]
      simp [hr]
    · simp only [hk, ↓reduceIte]
      cases hl' : c.lookupKey k' with
      | none => rfl
      | some r' =>
        simp only [readList_appendTo]
        have : r' ≠ r := by
          intro e; subst e
          exact hk (snd_inj_of_nodup hw.refsNodup (lookup_mem hl') (lookup_mem hl))
        simp [this]
  | none =>
    simp only [newList]
    have hnk := lookup_none_not_mem hl
    refine ⟨⟨?_, ?_, ?_⟩, rfl, rfl, ?_⟩
    · intro kr hkr
      simp only [appendTo, List.length_modify, List.length_append, List.length_singleton]
      simp only [appendTo, List.mem_append, List.mem_singleton] at hkr
      rcases hkr with h1 | h1
      · have := hw.bound _ h1; omega
      · subst h1; simp
    · simp only [appendTo, List.map_append, List.map_cons, List.map_nil]
      rw [List.nodup_append]
      refine ⟨hw.refsNodup, by simp, ?_⟩
      intro a ha b hb
      simp only [List.mem_singleton] at hb
      subst hb
      obtain ⟨kr, hkr, rfl⟩ := List.mem_map.1 ha
      have := hw.bound _ hkr
      omega
    · simp only [appendTo, List.map_append, List.map_cons, List.map_nil]
      rw [List.nodup_append]
      refine ⟨hw.keysNodup, by simp, ?_⟩
      intro a ha b hb
      simp only [List.mem_singleton] at hb
      subst hb
      intro e; subst e
      exact hnk ha
    · intro k'
      unfold stored lookupKey
      simp only [appendTo]
      rw [lookup_append_single]
      unfold lookupKey at hl
      by_cases hk : k' = k
      · subst hk
        simp only [hl, ↓reduceIte]
        simp [readList]
      · simp only [hk, ↓reduceIte]
        cases hl' : c.taskMap.lookup k' with
        | none => rfl
        | some r' =>
          simp only
          have := hw.bound _ (lookup_mem hl')
          simp only [readList, List.getElem?_modify]
          have hne : ¬ c.heap.length = r' := by omega
          simp [hne, List.getElem?_append_left this]

/-! ### registration scripts -/

theorem lookup_setAssoc (l : List (Txt × Handler)) (n m : Txt) (h : Handler) :
    (setAssoc l n h).lookup m = if m = n then some h else l.lookup m := by
  induction l with
  | nil =>
    simp only [setAssoc, List.lookup_cons, List.lookup_nil]
    by_cases e : m = n
    · subst e; simp
    · have : (m == n) = false := by simpa using e
      simp [this, e]
  | cons p ps ih =>
    obtain ⟨a, b⟩ := p
    simp only [setAssoc]
    by_cases e : a = n
    · subst e
      simp only [↓reduceIte, List.lookup_cons]
      by_cases e2 : m = a
      · subst e2; simp
      · have : (m == a) = false := by simpa using e2
        simp [this, e2]
    · simp only [e, ↓reduceIte, List.lookup_cons]
      by_cases e2 : m = a
      · subst e2
        have : ¬ m = n := e
        simp [this]
      · have : (m == a) = false := by simpa using e2
        simp only [this, ih]

/-- the client after one registration (a raising registration leaves it unchanged) -/
def next (c : Client) (r : Reg) : Client :=
  match applyReg c r with
  | .ok c1 => c1
  | .error _ => c

theorem applyRegs_fst_cons (c : Client) (r : Reg) (rs : List Reg) :
    (applyRegs c (r :: rs)).1 = (applyRegs (next c r) rs).1 := by
  unfold next
  simp only [applyRegs]
  cases applyReg c r <;> rfl

def entryFor (r : Reg) (k : Key) : List Handler :=
  match r.entry with
  | some (k', h) => if k' = k then [h] else []
  | none => []

theorem registeredFor_cons (r : Reg) (rs : List Reg) (k : Key) :
    registeredFor (r :: rs) k = entryFor r k ++ registeredFor rs k := by
  unfold registeredFor entryFor
  simp only [List.filterMap_cons]
  cases r.entry with
  | none => rfl
  | some kh =>
    obtain ⟨k', h⟩ := kh
    by_cases e : k' = k <;> simp [e]

theorem next_spec (c : Client) (hw : WF c) (r : Reg) :
    WF (next c r) ∧ (∀ k, stored (next c r) k = stored c k ++ entryFor r k) ∧
    (∀ n, (next c r).iattrs.lookup n = instAttrStep n (c.iattrs.lookup n) r) ∧
    (∀ n, (next c r).cattrs.lookup n = classAttrStep n (c.cattrs.lookup n) r) := by
  have reg : ∀ k h, WF (c.registerTask k h) ∧
      (∀ k', stored (c.registerTask k h) k' = stored c k' ++ (if k = k' then [h] else [])) ∧
      (∀ n, (c.registerTask k h).iattrs.lookup n = c.iattrs.lookup n) ∧
      (∀ n, (c.registerTask k h).cattrs.lookup n = c.cattrs.lookup n) := by
    intro k h
    obtain ⟨h1, h2, h3, h4⟩ := registerTask_spec c hw k h
    refine ⟨h1, fun k' => ?_, fun n => by rw [h2], fun n => by rw [h3]⟩
    rw [h4]
    by_cases e : k' = k
    · subst e; simp
    · have : ¬ k = k' := fun x => e x.symm
      simp [e, this]
  cases r with
  | handle a h =>
    cases a with
    | plainObj =>
      refine ⟨hw, fun k => ?_, fun n => rfl, fun n => rfl⟩
      simp [next, applyReg, handleKey, entryFor, Reg.entry]
    | none => simpa [next, applyReg, handleKey, entryFor, Reg.entry, instAttrStep, classAttrStep] using reg none h
    | int v => simpa [next, applyReg, handleKey, entryFor, Reg.entry, instAttrStep, classAttrStep] using reg (some v) h
    | valueObj v => simpa [next, applyReg, handleKey, entryFor, Reg.entry, instAttrStep, classAttrStep] using reg v h
  | register k h => simpa [next, applyReg, entryFor, Reg.entry, instAttrStep, classAttrStep] using reg k h
  | catchAll h => simpa [next, applyReg, entryFor, Reg.entry, instAttrStep, classAttrStep] using reg (some (-1)) h
  | instAttr m h =>
    refine ⟨⟨hw.bound, hw.refsNodup, hw.keysNodup⟩, fun k => ?_, fun n => ?_, fun n => rfl⟩
    · simp [next, applyReg, entryFor, Reg.entry, stored, lookupKey, readList]
    · simp only [next, applyReg, instAttrStep, lookup_setAssoc]
      by_cases e : n = m
      · subst e; simp
      · have : ¬ m = n := fun x => e x.symm
        simp [e, this]
  | classAttr m h =>
    refine ⟨⟨hw.bound, hw.refsNodup, hw.keysNodup⟩, fun k => ?_, fun n => rfl, fun n => ?_⟩
    · simp [next, applyReg, entryFor, Reg.entry, stored, lookupKey, readList]
    · simp only [next, applyReg, classAttrStep, lookup_setAssoc]
      by_cases e : n = m
      · subst e; simp
      · have : ¬ m = n := fun x => e x.symm
        simp [e, this]

theorem applyRegs_spec (regs : List Reg) : ∀ c, WF c →
    WF (applyRegs c regs).1 ∧
    (∀ k, stored (applyRegs c regs).1 k = stored c k ++ registeredFor regs k) ∧
    (∀ n, (applyRegs c regs).1.iattrs.lookup n = regs.foldl (instAttrStep n) (c.iattrs.lookup n)) ∧
    (∀ n, (applyRegs c regs).1.cattrs.lookup n = regs.foldl (classAttrStep n) (c.cattrs.lookup n)) := by
  induction regs with
  | nil => intro c hw; exact ⟨hw, fun k => by simp [applyRegs, registeredFor], fun n => rfl, fun n => rfl⟩
  | cons r rs ih =>
    intro c hw
    obtain ⟨n1, n2, n3, n4⟩ := next_spec c hw r
    obtain ⟨i1, i2, i3, i4⟩ := ih (next c r) n1
    rw [applyRegs_fst_cons]
    refine ⟨i1, fun k => ?_, fun n => ?_, fun n => ?_⟩
    · rw [i2, n2, registeredFor_cons, List.append_assoc]
    · rw [i3, n3]; rfl
    · rw [i4, n4]; rfl

theorem wf_empty : WF ({} : Client) := ⟨by simp, by simp, by simp⟩

theorem build_spec (regs : List Reg) :
    WF (build regs) ∧ (∀ k, stored (build regs) k = registeredFor regs k) ∧
    (∀ n, (build regs).getattr n = attrOf regs n) := by
  obtain ⟨h1, h2, h3, h4⟩ := applyRegs_spec regs {} wf_empty
  refine ⟨h1, fun k => ?_, fun n => ?_⟩
  · have := h2 k
    simpa [stored, lookupKey, build] using this
  · unfold Client.getattr attrOf build
    rw [h3, h4]
    rfl


/-! ### get_handlers -/

/-- what `get_handlers` must return, in terms of the dict value and the attributes of the client -/
def specListC (c : Client) (k : Key) (name : Txt) : List Handler :=
  let own := stored c k ++ truthyAttr (c.getattr name)
  if own.isEmpty then stored c (some (-1)) ++ truthyAttr (c.getattr txtOnCatchAll) else own

theorem appendIfTruthy_spec {c c1 : Client} (hext : Extends c c1) (r : Nat) (hr : c.heap.length ≤ r)
    (hr1 : r < c1.heap.length) (o : Option Handler) :
    Extends c (appendIfTruthy c1 r o) ∧ (appendIfTruthy c1 r o).readList r = c1.readList r ++ truthyAttr o ∧
    (appendIfTruthy c1 r o).heap.length = c1.heap.length := by
  cases o with
  | none => exact ⟨hext, by simp [appendIfTruthy, truthyAttr], rfl⟩
  | some h =>
    by_cases ht : h.truthy
    · simp only [appendIfTruthy, ht, ↓reduceIte, truthyAttr]
      exact ⟨hext.appendTo r hr h, by rw [readList_appendTo]; simp [hr1], appendTo_len _ _ _⟩
    · simp only [appendIfTruthy, ht, truthyAttr]
      exact ⟨hext, by simp, rfl⟩

theorem getHandlers_spec (c : Client) (hw : WF c) (k : Key) :
    Extends c (getHandlers c k).1 ∧
    (getHandlers c k).1.readList (getHandlers c k).2 = specListC c k (methodName k) := by
  unfold getHandlers
  simp only
  have e1 := Extends.newList c (stored c k)
  have hlen1 := newList_len c (stored c k)
  obtain ⟨a1, a2, a3⟩ :=
    appendIfTruthy_spec e1 c.heap.length (Nat.le_refl _) (by omega) (c.getattr (methodName k))
  rw [readList_newList_new] at a2
  have hnl : c.newList (stored c k) = ((c.newList (stored c k)).1, c.heap.length) := rfl
  rw [hnl]
  simp only
  generalize hc2 : appendIfTruthy (c.newList (stored c k)).1 c.heap.length (c.getattr (methodName k)) = c2
    at a1 a2 a3
  rw [a2]
  by_cases hemp : (stored c k ++ truthyAttr (c.getattr (methodName k))).isEmpty
  · simp only [hemp, ↓reduceIte]
    rw [a1.stored hw]
    have e3 := a1.trans (Extends.newList c2 (stored c (some (-1))))
    have hlen3 := newList_len c2 (stored c (some (-1)))
    obtain ⟨b1, b2, b3⟩ := appendIfTruthy_spec e3 c2.heap.length a1.len (by omega) (c.getattr txtOnCatchAll)
    rw [readList_newList_new] at b2
    have hnl2 : c2.newList (stored c (some (-1))) = ((c2.newList (stored c (some (-1)))).1, c2.heap.length) := rfl
    rw [hnl2]
    refine ⟨b1, ?_⟩
    rw [b2]
    simp [specListC, hemp]
  · simp only [hemp, Bool.false_eq_true, ↓reduceIte]
    refine ⟨a1, ?_⟩
    rw [a2]
    simp [specListC, hemp]

/-! ### the loop -/

/-- expected events of one iteration in terms of the client state -/
def specStepC (c : Client) (silent : Bool) (task : Option Int) : List Event :=
  if task = none ∧ ¬ silent then [.sleep]
  else invoke (specListC c task (methodName task)) ++ [.sleep]

theorem specListC_congr {c c' : Client} (h : Extends c c') (hw : WF c) (k : Key) (name : Txt) :
    specListC c' k name = specListC c k name := by
  simp only [specListC, h.stored hw, h.getattr]

theorem specStepC_congr {c c' : Client} (h : Extends c c') (hw : WF c) (silent : Bool) (t : Option Int) :
    specStepC c' silent t = specStepC c silent t := by
  unfold specStepC
  split
  · rfl
  · simp only [specListC_congr h hw]

theorem loopStep_spec (c : Client) (hw : WF c) (silent : Bool) (t : Option Int) :
    (loopStep silent c t).2 = specStepC c silent t ∧ Extends c (loopStep silent c t).1 := by
  unfold loopStep specStepC
  by_cases hq : t = none ∧ ¬ silent = true
  · rw [if_pos hq, if_pos hq]
    exact ⟨rfl, Extends.refl c⟩
  · rw [if_neg hq, if_neg hq]
    obtain ⟨h2, h3⟩ := getHandlers_spec c hw t
    exact ⟨by simp only [h3], h2⟩

theorem runLoop_spec (silent : Bool) (tasks : List (Option Int)) : ∀ c, WF c →
    ∃ c', runLoop silent c tasks = (c', tasks.flatMap (specStepC c silent), none) ∧ Extends c c' := by
  induction tasks with
  | nil => intro c _; exact ⟨c, rfl, Extends.refl c⟩
  | cons t ts ih =>
    intro c hw
    obtain ⟨h1, e1⟩ := loopStep_spec c hw silent t
    obtain ⟨c2, h2, e2⟩ := ih (loopStep silent c t).1 (e1.wf hw)
    refine ⟨c2, ?_, e1.trans e2⟩
    simp only [runLoop, h2, List.flatMap_cons, h1]
    have : ts.flatMap (specStepC (loopStep silent c t).1 silent) = ts.flatMap (specStepC c silent) := by
      congr 1
      funext t'
      exact specStepC_congr e1 hw silent t'
    rw [this]

theorem specStepC_build (regs : List Reg) (silent : Bool) (t : Option Int) :
    specStepC (build regs) silent t = specStep regs silent t := by
  obtain ⟨_, h1, h2⟩ := build_spec regs
  unfold specStepC specStep specHandlers specListC
  split
  · rfl
  · simp only [h1, h2]

/-! ### histories -/

theorem sessionAfter_nil (p : Prims) (st : Session) : sessionAfter p st [] = st := rfl

theorem sessionAfter_cons (p : Prims) (st : Session) (h : HStep) (hs : List HStep) :
    sessionAfter p st (h :: hs) = sessionAfter p (applyStep p st h).1 hs := by
  simp only [sessionAfter, runHistory]

theorem sessionAfter_append (p : Prims) (a b : List HStep) : ∀ st,
    sessionAfter p st (a ++ b) = sessionAfter p (sessionAfter p st a) b := by
  induction a with
  | nil => intro st; rfl
  | cons h hs ih => intro st; simp only [List.cons_append, sessionAfter_cons, ih]

/-- the registry part of a step: the client only changes by registrations (contents) or by allocating result lists -/
theorem applyStep_client (p : Prims) (st : Session) (hw : WF st.client) (h : HStep) :
    WF (applyStep p st h).1.client ∧
    (∀ k, stored (applyStep p st h).1.client k = stored st.client k ++ registeredFor (regsOf [h]) k) ∧
    (∀ n, (applyStep p st h).1.client.iattrs.lookup n = (regsOf [h]).foldl (instAttrStep n) (st.client.iattrs.lookup n)) ∧
    (∀ n, (applyStep p st h).1.client.cattrs.lookup n = (regsOf [h]).foldl (classAttrStep n) (st.client.cattrs.lookup n)) := by
  have same : ∀ c', Extends st.client c' →
      WF c' ∧ (∀ k, stored c' k = stored st.client k ++ registeredFor [] k) ∧
      (∀ n, c'.iattrs.lookup n = st.client.iattrs.lookup n) ∧ (∀ n, c'.cattrs.lookup n = st.client.cattrs.lookup n) :=
    fun c' e => ⟨e.wf hw, fun k => by simp [e.stored hw, registeredFor], fun n => by rw [e.iattrs], fun n => by rw [e.cattrs]⟩
  cases h with
  | setSleep s => exact same _ (Extends.refl _)
  | setJitter j => exact same _ (Extends.refl _)
  | run id s j c u q =>
    simp only [applyStep]
    split <;> exact same _ (Extends.refl _)
  | sleep u =>
    simp only [applyStep]
    split <;> exact same _ (Extends.refl _)
  | getHandlers k => exact same _ (getHandlers_spec st.client hw k).1
  | task silent t =>
    simp only [applyStep]
    split <;> exact same _ (loopStep_spec st.client hw silent t).2
  | «show» =>
    simp only [applyStep]
    split <;> exact same _ (Extends.refl _)
  | reg r =>
    obtain ⟨n1, n2, n3, n4⟩ := next_spec st.client hw r
    have e : (applyStep p st (.reg r)).1.client = next st.client r := by
      simp only [applyStep, next]
      cases applyReg st.client r <;> rfl
    rw [e]
    refine ⟨n1, fun k => ?_, fun n => ?_, fun n => ?_⟩
    · rw [n2, regsOf, regsOf, registeredFor_cons]; simp [registeredFor]
    · rw [n3]; rfl
    · rw [n4]; rfl

theorem regsOf_cons (h : HStep) (hs : List HStep) : regsOf (h :: hs) = regsOf [h] ++ regsOf hs := by
  cases h <;> simp [regsOf]

theorem registeredFor_append (a b : List Reg) (k : Key) :
    registeredFor (a ++ b) k = registeredFor a k ++ registeredFor b k := by
  simp [registeredFor, List.filterMap_append]

theorem sessionAfter_client (p : Prims) (hs : List HStep) : ∀ st, WF st.client →
    WF (sessionAfter p st hs).client ∧
    (∀ k, stored (sessionAfter p st hs).client k = stored st.client k ++ registeredFor (regsOf hs) k) ∧
    (∀ n, (sessionAfter p st hs).client.iattrs.lookup n = (regsOf hs).foldl (instAttrStep n) (st.client.iattrs.lookup n)) ∧
    (∀ n, (sessionAfter p st hs).client.cattrs.lookup n = (regsOf hs).foldl (classAttrStep n) (st.client.cattrs.lookup n)) := by
  induction hs with
  | nil => intro st hw; exact ⟨hw, fun k => by simp [sessionAfter_nil, regsOf, registeredFor], fun n => rfl, fun n => rfl⟩
  | cons h hs ih =>
    intro st hw
    obtain ⟨a1, a2, a3, a4⟩ := applyStep_client p st hw h
    obtain ⟨b1, b2, b3, b4⟩ := ih (applyStep p st h).1 a1
    rw [sessionAfter_cons, regsOf_cons]
    refine ⟨b1, fun k => ?_, fun n => ?_, fun n => ?_⟩
    · rw [b2, a2, registeredFor_append, List.append_assoc]
    · rw [b3, a3, List.foldl_append]
    · rw [b4, a4, List.foldl_append]

/-- after any history on a fresh client the registry is the one a fresh client gets from the registrations alone -/
theorem session_registry (p : Prims) (hs : List HStep) :
    WF (sessionAfter p {} hs).client ∧
    (∀ k, stored (sessionAfter p {} hs).client k = registeredFor (regsOf hs) k) ∧
    (∀ n, (sessionAfter p {} hs).client.getattr n = attrOf (regsOf hs) n) := by
  obtain ⟨h1, h2, h3, h4⟩ := sessionAfter_client p hs {} wf_empty
  refine ⟨h1, fun k => ?_, fun n => ?_⟩
  · have := h2 k
    simpa [stored, lookupKey] using this
  · unfold Client.getattr attrOf
    rw [h3, h4]
    rfl

theorem specListC_session (p : Prims) (hs : List HStep) (k : Key) :
    specListC (sessionAfter p {} hs).client k (methodName k) = specHandlers (regsOf hs) k := by
  obtain ⟨_, h1, h2⟩ := session_registry p hs
  simp only [specListC, specHandlers, h1, h2]

/-! ### exactly once, in order -/

def callIds : List Event → List Nat
  | [] => []
  | .call i :: es => i :: callIds es
  | _ :: es => callIds es

theorem callIds_append (a b : List Event) : callIds (a ++ b) = callIds a ++ callIds b := by
  induction a with
  | nil => rfl
  | cons e es ih => cases e <;> simp [callIds, ih]

theorem callIds_invoke (hs : List Handler) : callIds (invoke hs) = (hs.filter (·.callable)).map (·.id) := by
  induction hs with
  | nil => rfl
  | cons h hs ih =>
    simp only [invoke, List.flatMap_cons] at ih ⊢
    rw [callIds_append, ih]
    unfold invokeOne
    by_cases hc : h.callable
    · cases h.raises <;> cases h.responds <;> simp [hc, callIds]
    · simp [hc, callIds]

/-! ### the behaviour before the repairs 7330121 / 3b4d3d6 (used only to show that the theorems exclude it) -/

namespace Old

/-- `get_handlers` before 7330121: `handlers = self.task_map.get(command_id, [])` is the stored list object
itself (a fresh list only when the key is missing), and likewise for the catch-all list -/
def getHandlers (c : Client) (k : Key) : Client × Nat :=
  let on := c.getattr (methodName k)
  let (c1, hr) := match c.lookupKey k with
    | some r => (c, r)
    | none => c.newList []
  let c2 := appendIfTruthy c1 hr on
  if (c2.readList hr).isEmpty then
    let (c3, hr') := match c2.lookupKey (some (-1)) with
      | some r => (c2, r)
      | none => c2.newList []
    let c4 := appendIfTruthy c3 hr' (c.getattr txtOnCatchAll)
    (c4, hr')
  else (c2, hr)

def loopStep (silent : Bool) (c : Client) (task : Option Int) : Client × List Event :=
  if task = none ∧ ¬ silent then (c, [.sleep])
  else
    let (c', hr) := getHandlers c task
    (c', invoke (c'.readList hr) ++ [.sleep])

def runLoop (silent : Bool) (c : Client) : List (Option Int) → Client × List Event × Option PyExc
  | [] => (c, [], none)
  | t :: ts =>
    let (c', ev) := loopStep silent c t
    let (c'', evs, r) := runLoop silent c' ts
    (c'', ev ++ evs, r)

/-- info construction before 3b4d3d6: `info[:51]` truncated characters, not bytes -/
def mkInfo (computer user process : Txt) : Py Bytes :=
  utf8Encode ((computer ++ [9] ++ user ++ [9] ++ process).take 51)

end Old

/-! the behaviour before c54c447: `BeaconCommand(command_id)` unguarded, its ValueError leaves the loop -/
namespace OldLookup

def methodName : Key → Py Txt
  | none => .ok (txtOn_ ++ txtEmptyTask)
  | some id =>
    match commandName id with
    | none => .error .valueError
    | some _ => .ok (C19.methodName (some id))

def getHandlers (c : Client) (k : Key) : Py (Client × Nat) :=
  match methodName k with
  | .error e => .error e
  | .ok _ => .ok (C19.getHandlers c k)

def loopStep (silent : Bool) (c : Client) (task : Option Int) : Py (Client × List Event) :=
  if task = none ∧ ¬ silent then .ok (c, [.sleep])
  else
    match getHandlers c task with
    | .error e => .error e
    | .ok (c', hr) => .ok (c', invoke (c'.readList hr) ++ [.sleep])

def runLoop (silent : Bool) (c : Client) : List (Option Int) → Client × List Event × Option PyExc
  | [] => (c, [], none)
  | t :: ts =>
    match loopStep silent c t with
    | .error e => (c, [], some e)
    | .ok (c', ev) =>
      let (c'', evs, r) := runLoop silent c' ts
      (c'', ev ++ evs, r)

end OldLookup

end C19

import CsVerif.Model.C11
import CsVerif.Lemmas.C10
import CsVerif.Props.C12
/-! Helper lemmas for C11 (core tactics only, no Mathlib).

Part 1: the token walk on abstract statement lists (`Stms`) — the invariant "stack = path of the enclosing blocks"
        (`run_flatten`).
Part 2: derivations of a table with `ShapesOK`/`LookupWF`/`PrintWF`: the statement list read off the TREE
        (`stmsOfKids`, by tree label and number of children) is the token sequence of the sentence (`deriv_link`).
Part 3: the tree → derivation checker is sound; the cache of `as_dict`. -/
namespace C11
open Grammar (Item Form)
open C10 (Table Tok Forest Tree Parts Deriv Text wfParts)

/-! ## Part 1: the walk -/
theorem pop_snoc {α} (xs : List α) (x : α) : pop (xs ++ [x]) = .ok (x, xs) := by
  simp [pop]

theorem run_append (lp : List Text) (st : St) (a b : List Item') :
    run lp st (a ++ b) = match run lp st a with
      | .error e => .error e
      | .ok st' => run lp st' b := by
  induction a generalizing st with
  | nil => simp [run]
  | cons i a ih =>
    simp only [List.cons_append, run]
    cases step lp st i with
    | error e => rfl
    | ok st' => exact ih st'

theorem isFlush_set : C10.isFlush setKw = false := by decide
theorem isFlush_semi : C10.isFlush C10.semi = true := by decide
theorem isFlush_lbrace : C10.isFlush C10.lbrace = true := by decide
theorem isFlush_rbrace : C10.isFlush C10.rbrace = true := by decide

@[simp] theorem text_plain (s : Text) : (Item'.plain s).text = s := rfl
theorem step_set (lp : List Text) (st : St) {i : Item'} (h : i.text = setKw) : step lp st i = .ok st := by
  simp [step, h]

theorem step_plain (lp : List Text) (st : St) {i : Item'} (h : i.text ≠ setKw) (hf : C10.isFlush i.text = false) :
    step lp st i = .ok ⟨st.line ++ [i], st.stack, st.props⟩ := by
  simp [step, h, hf]

theorem run_nonflush (lp : List Text) (l S : List Item') (P : Dict) (its : List Item')
    (h : ∀ i ∈ its, plainOK i = true) :
    run lp ⟨l, S, P⟩ its = .ok ⟨l ++ its.filter notSet, S, P⟩ := by
  induction its generalizing l with
  | nil => simp [run]
  | cons i its ih =>
    have hi : C10.isFlush i.text = false := by
      have := h i (by simp); simpa [plainOK] using this
    have ht : ∀ j ∈ its, plainOK j = true := fun j hj => h j (by simp [hj])
    by_cases hs : i.text = setKw
    · simp only [run, step_set lp _ hs, List.filter_cons, notSet, hs, bne_self_eq_false]
      exact ih l ht
    · simp only [run, step_plain lp _ hs hi, List.filter_cons, notSet]
      rw [ih _ ht]
      simp [hs]

theorem step_semi (lp : List Text) (l S : List Item') (P : Dict) :
    step lp ⟨l, S, P⟩ (.plain C10.semi) =
      match semiCase lp (S.map Item'.text) l with
      | .error e => .error e
      | .ok (k, v) => .ok ⟨[], S, P.add k v⟩ := by
  have h1 : (C10.semi = setKw) = False := by decide
  have h2 : (C10.semi = C10.lbrace) = False := by decide
  have h3 : (C10.semi = C10.rbrace) = False := by decide
  simp only [step, Item'.text, h1, h2, h3, if_false, isFlush_semi, if_true, pop_snoc]
  rfl
/-- the header line of a block, as collected by the walk -/
def headerLine (kw : Text) (v : Option Item') : List Item' := .plain kw :: v.toList

theorem step_lbrace (lp : List Text) (S : List Item') (P : Dict) (kw : Text) (v : Option Item')
    (hv : ∀ x, v = some x → x.isToken = true) :
    step lp ⟨headerLine kw v, S, P⟩ (.plain C10.lbrace) = .ok ⟨[], S ++ header kw v, P⟩ := by
  have h1 : (C10.lbrace = setKw) = False := by decide
  simp only [step, text_plain, h1, if_false, isFlush_lbrace, if_true, pop_snoc]
  cases v with
  | none => simp [headerLine, header, Item'.isToken]
  | some x =>
    have := hv x rfl
    by_cases hd : x.text = dqDefault
    · simp [headerLine, header, this, hd]
    · simp [headerLine, header, this, hd]

theorem step_rbrace (lp : List Text) (l S : List Item') (P : Dict) (kw : Text) (v : Option Item')
    (hv : ∀ x, v = some x → x.isToken = true) :
    step lp ⟨l, S ++ header kw v, P⟩ (.plain C10.rbrace) = .ok ⟨[], S, P⟩ := by
  have h1 : (C10.rbrace = setKw) = False := by decide
  have h2 : (C10.rbrace = C10.lbrace) = False := by decide
  simp only [step, text_plain, h1, h2, if_false, isFlush_rbrace, if_true]
  cases v with
  | none =>
    have : S ++ header kw none = S ++ [Item'.plain kw] := by simp [header]
    rw [this, pop_snoc]; simp [Item'.isToken]
  | some x =>
    have hx := hv x rfl
    by_cases hd : x.text = dqDefault
    · have : S ++ header kw (some x) = S ++ [Item'.plain kw] := by simp [header, hd]
      rw [this, pop_snoc]; simp [Item'.isToken]
    · have : S ++ header kw (some x) = (S ++ [Item'.plain kw]) ++ [x] := by simp [header, hd]
      rw [this, pop_snoc]; simp [hx, pop_snoc]

theorem mapPy_append {α β} (f : α → Py β) (a b : List α) :
    mapPy f (a ++ b) = match mapPy f a with
      | .error e => .error e
      | .ok x => match mapPy f b with
        | .error e => .error e
        | .ok y => .ok (x ++ y) := by
  induction a with
  | nil => simp [mapPy]; cases mapPy f b <;> rfl
  | cons x a ih =>
    simp only [List.cons_append, mapPy, ih]
    cases f x with
    | error e => rfl
    | ok y =>
      cases mapPy f a with
      | error e => rfl
      | ok ys => cases mapPy f b <;> rfl

theorem semiCase_eq_specStmt (lp : List Text) (path : List Text) (line : List Item') :
    semiCase lp path line = specStmt lp path line := by
  unfold semiCase specStmt
  split
  · rfl
  · rcases hr : line.reverse with _ | ⟨b, _ | ⟨a, pre⟩⟩
    · have : line = [] := by simpa using hr
      subst this; simp [pop]
    · have : line = [b] := by
        have := congrArg List.reverse hr; simpa using this
      subst this; simp [pop]
    · have hl : line = pre.reverse ++ [a, b] := by
        have := congrArg List.reverse hr; simpa using this
      cases pre with
      | nil =>
        simp at hl; subst hl
        simp [pop]
      | cons c pre =>
        subst hl
        have hlen : (List.length (c :: pre)).succ.succ > 2 := by simp
        simp only [List.length_append, List.length_reverse, List.length_cons, List.length_nil]
        have h3 : (pre.length + 1 + (0 + 1 + 1) > 2) := by omega
        simp only [h3, if_true]
        have hd : (pre.length + 1 + (0 + 1 + 1) - 2) = ((c :: pre).reverse).length := by simp
        rw [hd, List.drop_left, List.take_left]
        simp only [mapPy]
        cases pairAtom a with
        | error e => rfl
        | ok x =>
          cases pairAtom b with
          | error e => rfl
          | ok y => simp

def addAll (P : Dict) (es : List (Text × Value)) : Dict := es.foldl (fun d e => d.add e.1 e.2) P

theorem addAll_append (P : Dict) (a b : List (Text × Value)) : addAll P (a ++ b) = addAll (addAll P a) b := by
  simp [addAll, List.foldl_append]

theorem headerLine_ok {kw : Text} {v : Option Item'}
    (hk : C10.isFlush kw = false)
    (hv : ∀ x, v = some x → C10.isFlush x.text = false) :
    ∀ i ∈ headerLine kw v, plainOK i = true := by
  intro i hi
  simp only [headerLine, List.mem_cons, Option.mem_toList] at hi
  rcases hi with rfl | hi
  · simp [plainOK, hk]
  · simp [plainOK, hv i (by simpa using hi)]

theorem headerLine_filter {kw : Text} {v : Option Item'} (hk : kw ≠ setKw)
    (hv : ∀ x, v = some x → x.text ≠ setKw) :
    (headerLine kw v).filter notSet = headerLine kw v := by
  apply List.filter_eq_self.mpr
  intro i hi
  simp only [headerLine, List.mem_cons, Option.mem_toList] at hi
  rcases hi with rfl | hi
  · simp [notSet, hk]
  · simp [notSet, hv i (by simpa using hi)]

/-- The invariant of the walk: after the statements `ss` of a block whose enclosing blocks contributed `S`, the
stack is `S` again, the line is empty and `properties` has grown by exactly the entries of the specification. -/
theorem run_flatten (lp : List Text) (ss : Stms) (hok : ss.OK = true) (S : List Item') (P : Dict) :
    run lp ⟨[], S, P⟩ ss.flatten =
      match specStms lp (S.map Item'.text) ss with
      | .error e => .error e
      | .ok es => .ok ⟨[], S, addAll P es⟩ := by
  induction ss generalizing S P with
  | nil => simp [Stms.flatten, run, specStms, addAll]
  | stmt its r ih =>
    simp only [Stms.OK, Bool.and_eq_true, List.all_eq_true] at hok
    simp only [Stms.flatten, specStms]
    rw [run_append, run_nonflush lp [] S P its hok.1]
    simp only [List.nil_append, run, step_semi, semiCase_eq_specStmt]
    cases specStmt lp (S.map Item'.text) (its.filter notSet) with
    | error e => rfl
    | ok kv =>
      obtain ⟨k, v⟩ := kv
      simp only [ih hok.2 S (P.add k v)]
      cases specStms lp (S.map Item'.text) r with
      | error e => rfl
      | ok es => simp [addAll]
  | block kw v b r ihb ihr =>
    simp only [Stms.OK, Bool.and_eq_true] at hok
    obtain ⟨⟨⟨⟨hk1, hk2⟩, hv⟩, hb⟩, hr⟩ := hok
    have hkf : C10.isFlush kw = false := by simpa using hk1
    have hks : kw ≠ setKw := by simpa using hk2
    have hvt : ∀ x, v = some x → x.isToken = true := by
      intro x hx; subst hx; simp only [Bool.and_eq_true] at hv; exact hv.1.1
    have hvf : ∀ x, v = some x → C10.isFlush x.text = false := by
      intro x hx; subst hx; simp only [Bool.and_eq_true] at hv; simpa using hv.1.2
    have hvs : ∀ x, v = some x → x.text ≠ setKw := by
      intro x hx; subst hx; simp only [Bool.and_eq_true] at hv; simpa using hv.2
    have hfl : (Stms.block kw v b r).flatten =
        headerLine kw v ++ (Item'.plain C10.lbrace :: (b.flatten ++ Item'.plain C10.rbrace :: r.flatten)) := by
      simp [Stms.flatten, headerLine]
    rw [hfl, run_append, run_nonflush lp [] S P _ (headerLine_ok hkf hvf), headerLine_filter hks hvs]
    simp only [List.nil_append, run, step_lbrace lp S P kw v hvt]
    rw [run_append, ihb hb (S ++ header kw v) P]
    simp only [specStms, List.map_append]
    cases specStms lp (S.map Item'.text ++ (header kw v).map Item'.text) b with
    | error e => rfl
    | ok es =>
      simp only [run, step_rbrace lp [] S (addAll P es) kw v hvt, ihr hr S (addAll P es)]
      cases specStms lp (S.map Item'.text) r with
      | error e => rfl
      | ok fs => simp [addAll_append]

theorem asDict_flatten (lp : List Text) (ss : Stms) (hok : ss.OK = true) :
    asDict lp ss.flatten = match specStms lp [] ss with
      | .error e => .error e
      | .ok es => .ok (group es) := by
  unfold asDict
  rw [run_flatten lp ss hok [] []]
  simp only [List.map_nil]
  cases specStms lp [] ss with
  | error e => rfl
  | ok es => rfl

/-! ## Part 2: derivations -/

variable (G : Table)

/-! ### inversion of `wfParts` -/

theorem wf_nil {p : Parts} (h : wfParts G [] p = true) : p = .done := by
  cases p <;> simp [wfParts] at h
  rfl

theorem wf_kw {k : Nat} {is : List Item} {p : Parts} (h : wfParts G (.kw k :: is) p = true) :
    ∃ r, p = .kw k r ∧ wfParts G is r = true := by
  cases p <;> simp [wfParts] at h
  rename_i k' r
  exact ⟨r, by rw [h.1], h.2⟩

theorem wf_tok {t : Nat} {is : List Item} {p : Parts} (h : wfParts G (.tok t :: is) p = true) :
    ∃ s r, p = .tok t s r ∧ wfParts G is r = true := by
  cases p <;> simp [wfParts] at h
  rename_i t' s r
  exact ⟨s, r, by rw [h.1], h.2⟩

theorem wf_nt {n : Nat} {is : List Item} {p : Parts} (h : wfParts G (.nt n :: is) p = true) :
    ∃ f b r, p = .sub f b r ∧ G.has f = true ∧ f.origin = n ∧ wfParts G f.items b = true ∧ wfParts G is r = true := by
  cases p <;> simp [wfParts] at h
  rename_i f b r
  exact ⟨f, b, r, rfl, h.1.1.1, h.1.1.2, h.1.2, h.2⟩

theorem wf_star {n : Nat} {is : List Item} {p : Parts} (h : wfParts G (.star n :: is) p = true) :
    (∃ f b r, p = .sub f b r ∧ G.has f = true ∧ f.origin = n ∧ wfParts G f.items b = true ∧
        wfParts G (.star n :: is) r = true) ∨ (∃ r, p = .stop r ∧ wfParts G is r = true) := by
  cases p <;> simp [wfParts] at h
  · rename_i f b r
    exact .inl ⟨f, b, r, rfl, h.1.1.1, h.1.1.2, h.1.2, h.2⟩
  · rename_i r
    exact .inr ⟨r, rfl, h⟩

theorem wf_opt {n : Nat} {is : List Item} {p : Parts} (h : wfParts G (.opt n :: is) p = true) :
    (∃ f b r, p = .sub f b r ∧ G.has f = true ∧ f.origin = n ∧ wfParts G f.items b = true ∧
        wfParts G is r = true) ∨ (∃ r, p = .stop r ∧ wfParts G is r = true) := by
  cases p <;> simp [wfParts] at h
  · rename_i f b r
    exact .inl ⟨f, b, r, rfl, h.1.1.1, h.1.1.2, h.1.2, h.2⟩
  · rename_i r
    exact .inr ⟨r, rfl, h⟩

/-! ### tokens of the tree = named tokens of the yield -/

def isNamed : Tok → Bool
  | .named _ _ => true
  | .kw _ => false

theorem leaves_kids (p : Parts) : leaves G p.kids = (p.yield.filter isNamed).map (itemOfTok G) := by
  induction p with
  | done => simp [Parts.kids, Parts.yield, leaves]
  | kw k r ih => simp [Parts.kids, Parts.yield, isNamed, ih]
  | tok t s r ih => simp [Parts.kids, Parts.yield, leaves, List.filter_cons, isNamed, ih]
  | sub f b r ihb ihr => simp [Parts.kids, Parts.yield, leaves, ihb, ihr]
  | stop r ih => simp [Parts.kids, Parts.yield, ih]

/-! ### leafy nonterminals derive exactly one named token -/

theorem leafy_sub : ∀ (fuel : Nat) {n : Nat} {f : Form} {b : Parts}, leafy G fuel n = true → G.has f = true →
    f.origin = n → wfParts G f.items b = true → ∃ t s, b.yield = [Tok.named t s] := by
  intro fuel
  induction fuel with
  | zero => intro n f b h; simp [leafy] at h
  | succ fuel ih =>
    intro n f b hl hf ho hw
    simp only [leafy, List.all_eq_true, Bool.or_eq_true, bne_iff_ne, ne_eq] at hl
    have := hl f (C10.mem_of_has G hf)
    rcases this with h | h
    · exact absurd ho h
    · split at h
      · rename_i t hi
        rw [hi] at hw
        obtain ⟨s, r, rfl, hr⟩ := wf_tok G hw
        have := wf_nil G hr; subst this
        exact ⟨t, s, by simp [Parts.yield]⟩
      · rename_i m hi
        rw [hi] at hw
        obtain ⟨f', b', r, rfl, hf', ho', hb', hr⟩ := wf_nt G hw
        have := wf_nil G hr; subst this
        obtain ⟨t, s, hy⟩ := ih h hf' ho' hb'
        exact ⟨t, s, by simp [Parts.yield, hy]⟩
      · simp at h

/-! ### statements -/

theorem wf_kws {ks : List Nat} {is : List Item} {p : Parts} (h : wfParts G (ks.map Item.kw ++ is) p = true) :
    ∃ p', p.yield = ks.map Tok.kw ++ p'.yield ∧ p.kids = p'.kids ∧ wfParts G is p' = true := by
  induction ks generalizing p with
  | nil => exact ⟨p, by simp, rfl, by simpa using h⟩
  | cons k ks ih =>
    simp only [List.map_cons, List.cons_append] at h
    obtain ⟨r, rfl, hr⟩ := wf_kw G h
    obtain ⟨p', hy, hk, hw⟩ := ih hr
    exact ⟨p', by simp [Parts.yield, hy], by simp [Parts.kids, hk], hw⟩

theorem wf_vis {vis is : List Item} {p : Parts} (hv : vis.all (visOK G) = true)
    (h : wfParts G (vis ++ is) p = true) :
    ∃ p' ns, p.yield = ns ++ p'.yield ∧ (∀ t ∈ ns, isNamed t = true) ∧
      forestLen p.kids = vis.length + forestLen p'.kids ∧ wfParts G is p' = true := by
  induction vis generalizing p with
  | nil => exact ⟨p, [], by simp, by simp, by simp, by simpa using h⟩
  | cons i vis ih =>
    simp only [List.all_cons, Bool.and_eq_true] at hv
    simp only [List.cons_append] at h
    cases i with
    | tok t =>
      obtain ⟨s, r, rfl, hr⟩ := wf_tok G h
      obtain ⟨p', ns, hy, hn, hl, hw⟩ := ih hv.2 hr
      refine ⟨p', Tok.named t s :: ns, by simp [Parts.yield, hy], ?_, ?_, hw⟩
      · intro x hx
        simp only [List.mem_cons] at hx
        rcases hx with rfl | hx
        · rfl
        · exact hn x hx
      · simp [Parts.kids, forestLen, hl]; omega
    | nt n =>
      obtain ⟨f, b, r, rfl, hf, ho, hb, hr⟩ := wf_nt G h
      obtain ⟨t, s, hy1⟩ := leafy_sub G 4 (by simpa [visOK] using hv.1) hf ho hb
      obtain ⟨p', ns, hy, hn, hl, hw⟩ := ih hv.2 hr
      refine ⟨p', Tok.named t s :: ns, by simp [Parts.yield, hy, hy1], ?_, ?_, hw⟩
      · intro x hx
        simp only [List.mem_cons] at hx
        rcases hx with rfl | hx
        · rfl
        · exact hn x hx
      · simp [Parts.kids, forestLen, hl]; omega
    | kw k => simp [visOK] at hv
    | star n => simp [visOK] at hv
    | opt n => simp [visOK] at hv
/-! ### inversion of `shapeOf` -/

theorem dropLast_getLast {α} (l : List α) (a : α) (h : l.getLast? = some a) : l.dropLast ++ [a] = l := by
  induction l with
  | nil => simp at h
  | cons x xs ih =>
    cases xs with
    | nil => simp at h; simp [h]
    | cons y ys =>
      simp only [List.getLast?_cons_cons] at h
      simp [List.dropLast, ih h]


theorem leadKws_split (is : List Item) : is = (leadKws is).map Item.kw ++ is.drop (leadKws is).length := by
  induction is with
  | nil => simp [leadKws]
  | cons i is ih =>
    cases i with
    | kw k => simp only [leadKws, List.map_cons, List.length_cons, List.drop_succ_cons, List.cons_append]; rw [← ih]
    | _ => simp [leadKws]

theorem shape_stmt {f : Form} {kws : List Nat} {nv : Nat} (h : shapeOf G f = .stmt kws nv) :
    ∃ vis s, f.items = kws.map Item.kw ++ vis ++ [Item.kw s] ∧ vis.length = nv ∧ kwIs G s C10.semi = true ∧
      kws.all (kwPlain G) = true ∧ vis.all (visOK G) = true := by
  unfold shapeOf at h
  split at h
  · split at h <;> simp at h
  · split at h <;> simp at h
  · simp at h
  · rename_i is _ _ _
    split at h
    · rename_i s hl
      simp only at h
      split at h
      · rename_i hc
        simp only [Bool.and_eq_true] at hc
        simp only [Shape.stmt.injEq] at h
        obtain ⟨hk, hn⟩ := h
        refine ⟨f.items.dropLast.drop (leadKws f.items.dropLast).length, s, ?_, hn, hc.1.1, by rw [← hk]; exact hc.1.2, hc.2⟩
        rw [← hk, ← leadKws_split]
        exact (dropLast_getLast _ _ hl).symm
      · simp at h
    · split at h
      · split at h <;> simp at h
      · split at h <;> simp at h

theorem shape_block_some {f : Form} {k m : Nat} (h : shapeOf G f = .block k (some m)) :
    ∃ lb n rb, f.items = [.kw k, .opt m, .kw lb, .star n, .kw rb] ∧ blockKwOK G k lb rb = true ∧ leafy G 4 m = true := by
  unfold shapeOf at h
  split at h
  · rename_i k' m' lb n rb hi
    split at h
    · rename_i hc
      simp only [Bool.and_eq_true] at hc
      simp only [Shape.block.injEq, Option.some.injEq] at h
      obtain ⟨rfl, rfl⟩ := h
      exact ⟨lb, n, rb, hi, hc.1, hc.2⟩
    · simp at h
  · split at h <;> simp at h
  · simp at h
  · split at h
    · simp only at h; split at h <;> simp at h
    · split at h
      · split at h <;> simp at h
      · split at h <;> simp at h

theorem shape_block_none {f : Form} {k : Nat} (h : shapeOf G f = .block k none) :
    ∃ lb n rb, f.items = [.kw k, .kw lb, .star n, .kw rb] ∧ blockKwOK G k lb rb = true := by
  unfold shapeOf at h
  split at h
  · split at h <;> simp at h
  · rename_i k' lb n rb hi
    split at h
    · rename_i hc
      simp only [Shape.block.injEq, and_true] at h
      subst h
      exact ⟨lb, n, rb, hi, hc⟩
    · simp at h
  · simp at h
  · split at h
    · simp only at h; split at h <;> simp at h
    · split at h
      · split at h <;> simp at h
      · split at h <;> simp at h

theorem shape_seq {f : Form} (h : shapeOf G f = .seq) : f.items.all isNtStar = true := by
  unfold shapeOf at h
  split at h
  · split at h <;> simp at h
  · split at h <;> simp at h
  · simp at h
  · split at h
    · simp only at h; split at h <;> simp at h
    · split at h
      · rename_i m hi
        simp [hi, isNtStar]
      · split at h
        · assumption
        · simp at h
/-! ### what a statement form derives -/

def itemsOf (ts : List Tok) : List Item' := ts.map (itemOfTok G)

theorem kwItem_of_kwIs {k : Nat} {t : Text} (h : kwIs G k t = true) : kwItem G k = .plain t := by
  unfold kwIs at h
  have h' : G.keywords[k]? = some t := by simpa using h
  unfold kwItem
  rw [List.getD_eq_getElem?_getD, h']
  rfl

theorem filter_named_all {ns : List Tok} (h : ∀ t ∈ ns, isNamed t = true) : ns.filter isNamed = ns :=
  List.filter_eq_self.mpr h

theorem stmt_link {f : Form} {kws : List Nat} {nv : Nat} {b : Parts} (hs : shapeOf G f = .stmt kws nv)
    (hw : wfParts G f.items b = true) :
    itemsOf G b.yield = kws.map (kwItem G) ++ leaves G b.kids ++ [.plain C10.semi] ∧ forestLen b.kids = nv := by
  obtain ⟨vis, s, hi, hn, hsemi, _, hv⟩ := shape_stmt G hs
  rw [hi, List.append_assoc] at hw
  obtain ⟨p1, hy1, hk1, hw1⟩ := wf_kws G hw
  obtain ⟨p2, ns, hy2, hns, hl2, hw2⟩ := wf_vis G hv hw1
  obtain ⟨r, rfl, hr⟩ := wf_kw G hw2
  have := wf_nil G hr; subst this
  constructor
  · rw [leaves_kids, hy1, hy2]
    have hk : (kws.map Tok.kw).filter isNamed = [] := by
      apply List.filter_eq_nil_iff.mpr
      intro t ht
      simp only [List.mem_map] at ht
      obtain ⟨k, _, rfl⟩ := ht
      simp [isNamed]
    simp only [itemsOf, Parts.yield, List.filter_append, hk, filter_named_all hns, List.map_append, List.map_map,
      List.nil_append, List.filter_cons, isNamed, List.filter_nil, List.map_cons, List.map_nil]
    have : itemOfTok G (Tok.kw s) = .plain C10.semi := kwItem_of_kwIs G hsemi
    rw [this]
    simp [itemOfTok, kwItem, Function.comp_def]
  · rw [hk1, hl2, ← hn]
    simp [Parts.kids, forestLen]

/-! ### the lookup finds the shape of the form that was used -/

theorem compatible_of_arity {a b : Shape} {nk : Nat} (ha : arityOK a nk = true) (hb : arityOK b nk = true) :
    compatible a b = true := by
  cases a <;> cases b <;> simp_all [arityOK, compatible, Shape.isStmtish]

theorem lookup_self (hL : LookupWF G = true) {f : Form} (hf : f ∈ G.forms) {nk : Nat}
    (ha : arityOK (shapeOf G f) nk = true) : lookupShape G (C10.label f) nk = some (shapeOf G f) := by
  unfold lookupShape
  cases hfind : G.forms.find? (fun g => C10.label g == C10.label f && arityOK (shapeOf G g) nk) with
  | none =>
    have := List.find?_eq_none.mp hfind f hf
    simp [ha] at this
  | some g =>
    have hg := List.find?_some hfind
    have hgm := List.mem_of_find?_eq_some hfind
    simp only [Bool.and_eq_true, beq_iff_eq] at hg
    simp only [LookupWF, List.all_eq_true, Bool.or_eq_true, bne_iff_ne, ne_eq, Bool.not_eq_true', beq_iff_eq] at hL
    have := hL f hf g hgm
    rcases this with (h | h) | h
    · exact absurd hg.1.symm h
    · rw [compatible_of_arity ha hg.2] at h; cases h
    · simp [h]

/-! ### statement lists -/

theorem flatten_append (a b : Stms) : (a.append b).flatten = a.flatten ++ b.flatten := by
  induction a with
  | nil => simp [Stms.append, Stms.flatten]
  | stmt i r ih => simp [Stms.append, Stms.flatten, ih]
  | block k v bd r _ ih => simp [Stms.append, Stms.flatten, ih]

theorem ok_append {a b : Stms} (ha : a.OK = true) (hb : b.OK = true) : (a.append b).OK = true := by
  induction a with
  | nil => simpa [Stms.append]
  | stmt i r ih =>
    simp only [Stms.OK, Bool.and_eq_true] at ha
    simp [Stms.append, Stms.OK, ha.1, ih ha.2]
  | block k v bd r _ ih =>
    simp only [Stms.OK, Bool.and_eq_true] at ha
    simp only [Stms.append, Stms.OK, Bool.and_eq_true]
    exact ⟨⟨ha.1.1, ha.1.2⟩, ih ha.2⟩
/-! ### the statements of a derivation: tree side and token side agree -/

def BodyCtx : List Item → Bool
  | [] => true
  | .kw _ :: is => is.isEmpty
  | .nt n :: is => stmtNt G n && BodyCtx is
  | .star n :: is => stmtNt G n && BodyCtx is
  | _ => false

def psize : Parts → Nat
  | .done => 1
  | .kw _ r => psize r + 1
  | .tok _ _ r => psize r + 1
  | .sub _ b r => psize b + psize r + 1
  | .stop r => psize r + 1

def TokOK (ts : List Tok) : Prop := ∀ t s, Tok.named t s ∈ ts → C10.isFlush s = false ∧ s ≠ setKw

theorem tokOK_append {a b : List Tok} : TokOK (a ++ b) ↔ TokOK a ∧ TokOK b := by
  unfold TokOK
  constructor
  · intro h
    exact ⟨fun t s hm => h t s (by simp [hm]), fun t s hm => h t s (by simp [hm])⟩
  · intro h t s hm
    simp only [List.mem_append] at hm
    rcases hm with hm | hm
    · exact h.1 t s hm
    · exact h.2 t s hm

theorem tokOK_cons_kw {k : Nat} {a : List Tok} : TokOK (Tok.kw k :: a) ↔ TokOK a := by
  unfold TokOK
  constructor
  · intro h t s hm; exact h t s (by simp [hm])
  · intro h t s hm
    simp only [List.mem_cons, reduceCtorEq, false_or] at hm
    exact h t s hm

/-- link between the tree side (`stmsOfKids`) and the token side (`yield`) for a list of sibling sub-derivations
followed by the keywords `tail` -/
def Linked (kids : Forest) (ys : List Tok) (tail : List Item') : Prop :=
  ∃ ss, stmsOfKids G kids = some ss ∧ itemsOf G ys = ss.flatten ++ tail ∧ (TokOK ys → ss.OK = true)

theorem bodyCtx_of_all {is : List Item} (h : is.all (bodyItem G) = true) : BodyCtx G is = true ∧ C10.kwSeq is = [] := by
  induction is with
  | nil => simp [BodyCtx, C10.kwSeq]
  | cons i is ih =>
    simp only [List.all_cons, Bool.and_eq_true] at h
    obtain ⟨h1, h2⟩ := ih h.2
    cases i <;> simp_all [bodyItem, BodyCtx, C10.kwSeq]

theorem stmtish_of_nt {n : Nat} {f : Form} (hn : stmtNt G n = true) (hf : f ∈ G.forms) (ho : f.origin = n) :
    (shapeOf G f).isStmtish = true := by
  simp only [stmtNt, List.all_eq_true, Bool.or_eq_true, bne_iff_ne, ne_eq] at hn
  rcases hn f hf with h | h
  · exact absurd ho h
  · exact h

theorem shapesOK_form (hS : ShapesOK G = true) {f : Form} (hf : f ∈ G.forms) :
    (match shapeOf G f with
      | .bad => false
      | .seq => f.items.all (bodyItem G)
      | .block _ _ =>
        (match f.items with
          | [_, _, _, .star n, _] => stmtNt G n
          | [_, _, .star n, _] => stmtNt G n
          | _ => false)
      | _ => true) = true := by
  simp only [ShapesOK, Bool.and_eq_true, List.all_eq_true] at hS
  exact hS.2 f hf

theorem kwItem_plainOK {k : Nat} (h : kwPlain G k = true) : plainOK (kwItem G k) = true := by
  unfold kwPlain at h
  split at h
  · rename_i t ht
    simp only [plainOK, kwItem, List.getD_eq_getElem?_getD, ht, Option.getD_some, Item'.text]
    exact h
  · cases h

theorem leaves_plainOK {p : Parts} (h : TokOK p.yield) : ∀ i ∈ leaves G p.kids, plainOK i = true := by
  intro i hi
  rw [leaves_kids] at hi
  simp only [List.mem_map, List.mem_filter] at hi
  obtain ⟨t, ⟨hm, hn⟩, rfl⟩ := hi
  cases t with
  | kw k => simp [isNamed] at hn
  | named t s => simp [plainOK, itemOfTok, Item'.text, (h t s hm).1]

theorem stmsOfKids_stmt {l : Nat} {ks r : Forest} {kws : List Nat} {nv : Nat}
    (h : lookupShape G l (forestLen ks) = some (.stmt kws nv)) :
    stmsOfKids G (.node l ks r) = (stmsOfKids G r).map (Stms.stmt (kws.map (kwItem G) ++ leaves G ks)) := by
  rw [stmsOfKids, h]
  cases stmsOfKids G r <;> rfl

theorem stmsOfKids_seq {l : Nat} {ks r : Forest} (h : lookupShape G l (forestLen ks) = some .seq) :
    stmsOfKids G (.node l ks r) = (stmsOfKids G ks).bind fun a => (stmsOfKids G r).map fun b => a.append b := by
  rw [stmsOfKids, h]
  cases stmsOfKids G ks <;> cases stmsOfKids G r <;> rfl

theorem stmsOfKids_block_none {l : Nat} {ks r : Forest} {k : Nat}
    (h : lookupShape G l (forestLen ks) = some (.block k none)) :
    stmsOfKids G (.node l ks r) =
      (stmsOfKids G ks).bind fun b => (stmsOfKids G r).map fun r' => .block (G.keywords.getD k []) none b r' := by
  rw [stmsOfKids, h]
  cases stmsOfKids G ks <;> cases stmsOfKids G r <;> rfl

theorem stmsOfKids_block_var {l : Nat} {lv : Nat} {kv rv r : Forest} {k m : Nat}
    (h : lookupShape G l (forestLen (.node lv kv rv)) = some (.block k (some m))) (hl : G.isLabelOf m lv = true)
    {v : Item'} (hv : leaves G kv = [v]) :
    stmsOfKids G (.node l (.node lv kv rv) r) =
      (stmsOfKids G rv).bind fun b => (stmsOfKids G r).map fun r' => .block (G.keywords.getD k []) (some v) b r' := by
  rw [stmsOfKids, h]
  simp only [hl, if_true, hv]
  cases stmsOfKids G rv <;> cases stmsOfKids G r <;> rfl

theorem stmsOfKids_block_novar_node {l : Nat} {lv : Nat} {kv rv r : Forest} {k m : Nat}
    (h : lookupShape G l (forestLen (.node lv kv rv)) = some (.block k (some m))) (hl : G.isLabelOf m lv = false) :
    stmsOfKids G (.node l (.node lv kv rv) r) =
      (stmsOfKids G (.node lv kv rv)).bind fun b => (stmsOfKids G r).map fun r' => .block (G.keywords.getD k []) none b r' := by
  rw [stmsOfKids, h]
  simp only [hl, Bool.false_eq_true, if_false]
  cases stmsOfKids G (.node lv kv rv) <;> cases stmsOfKids G r <;> rfl

theorem stmsOfKids_block_novar_nil {l : Nat} {r : Forest} {k m : Nat}
    (h : lookupShape G l (forestLen .nil) = some (.block k (some m))) :
    stmsOfKids G (.node l .nil r) =
      (stmsOfKids G .nil).bind fun b => (stmsOfKids G r).map fun r' => .block (G.keywords.getD k []) none b r' := by
  conv => lhs; rw [stmsOfKids]
  rw [h]
  simp only [stmsOfKids]
  cases stmsOfKids G r <;> rfl
theorem itemsOf_append (a b : List Tok) : itemsOf G (a ++ b) = itemsOf G a ++ itemsOf G b := by
  simp [itemsOf]

theorem itemsOf_kw (k : Nat) (a : List Tok) : itemsOf G (Tok.kw k :: a) = kwItem G k :: itemsOf G a := by
  simp [itemsOf, itemOfTok, kwItem]

theorem blockKw_facts {k lb rb : Nat} (h : blockKwOK G k lb rb = true) :
    C10.isFlush (G.keywords.getD k []) = false ∧ G.keywords.getD k [] ≠ setKw ∧
      kwItem G lb = .plain C10.lbrace ∧ kwItem G rb = .plain C10.rbrace := by
  simp only [blockKwOK, Bool.and_eq_true, Bool.not_eq_true'] at h
  obtain ⟨⟨⟨h1, h2⟩, h3⟩, h4⟩ := h
  refine ⟨?_, ?_, kwItem_of_kwIs G h3, kwItem_of_kwIs G h4⟩
  · have := kwItem_plainOK G h1
    simpa [plainOK, kwItem, Item'.text] using this
  · unfold kwPlain at h1
    split at h1
    · rename_i t ht
      simp only [kwIs, ht] at h2
      rw [List.getD_eq_getElem?_getD, ht]
      simpa using h2
    · cases h1

theorem sub_link (hS : ShapesOK G = true) (hL : LookupWF G = true) (hP : C10.PrintWF G = true) (n : Nat)
    (IH : ∀ (p : Parts) (is : List Item), psize p ≤ n → wfParts G is p = true → BodyCtx G is = true →
        Linked G p.kids p.yield ((C10.kwSeq is).map (kwItem G)))
    {f : Form} {b r : Parts} {tail : List Item'} {m : Nat}
    (hsz : psize b + psize r + 1 ≤ n + 1)
    (hf : G.has f = true) (ho : f.origin = m) (hm : stmtNt G m = true) (hb : wfParts G f.items b = true)
    (hr : Linked G r.kids r.yield tail) :
    Linked G (Parts.sub f b r).kids (Parts.sub f b r).yield tail := by
  have hfm := C10.mem_of_has G hf
  have hst := stmtish_of_nt G hm hfm ho
  obtain ⟨rr, hrk, hry, hrok⟩ := hr
  have hSf := shapesOK_form G hS hfm
  simp only [Parts.kids, Parts.yield]
  cases hsh : shapeOf G f with
  | stmt kws nv =>
    obtain ⟨hit, hlen⟩ := stmt_link G hsh hb
    have hlk := lookup_self G hL hfm (nk := forestLen b.kids) (by rw [hsh]; simp [arityOK, hlen])
    rw [hsh] at hlk
    refine ⟨.stmt (kws.map (kwItem G) ++ leaves G b.kids) rr, ?_, ?_, ?_⟩
    · rw [stmsOfKids_stmt G hlk, hrk]; rfl
    · rw [itemsOf_append, hit, hry]; simp [Stms.flatten]
    · intro htok
      obtain ⟨h1, h2⟩ := tokOK_append.mp htok
      obtain ⟨_, _, _, _, _, hkp, _⟩ := shape_stmt G hsh
      simp only [Stms.OK, Bool.and_eq_true, List.all_eq_true]
      refine ⟨?_, hrok h2⟩
      intro i hi
      simp only [List.mem_append, List.mem_map] at hi
      rcases hi with ⟨k, hk, rfl⟩ | hi
      · exact kwItem_plainOK G (List.all_eq_true.mp hkp k hk)
      · exact leaves_plainOK G h1 i hi
  | seq =>
    rw [hsh] at hSf
    obtain ⟨hctx, hkw⟩ := bodyCtx_of_all G hSf
    obtain ⟨sb, hbk, hby, hbok⟩ := IH b f.items (by omega) hb hctx
    rw [hkw] at hby
    have hlk := lookup_self G hL hfm (nk := forestLen b.kids) (by rw [hsh]; simp [arityOK])
    rw [hsh] at hlk
    refine ⟨sb.append rr, ?_, ?_, ?_⟩
    · rw [stmsOfKids_seq G hlk, hbk, hrk]; rfl
    · rw [itemsOf_append, hby, hry, flatten_append]; simp
    · intro htok
      obtain ⟨h1, h2⟩ := tokOK_append.mp htok
      exact ok_append (hbok h1) (hrok h2)
  | block k mv =>
    have hlk := lookup_self G hL hfm (nk := forestLen b.kids) (by rw [hsh]; simp [arityOK])
    rw [hsh] at hlk
    cases mv with
    | none =>
      obtain ⟨lb, n', rb, hi, hkw⟩ := shape_block_none G hsh
      obtain ⟨hk1, hk2, hlb, hrb⟩ := blockKw_facts G hkw
      rw [List.getD_eq_getElem?_getD] at hk1 hk2
      rw [hsh, hi] at hSf
      simp only at hSf
      rw [hi] at hb
      obtain ⟨b1, rfl, hb1⟩ := wf_kw G hb
      obtain ⟨b3, rfl, hb3⟩ := wf_kw G hb1
      simp only [psize] at hsz
      obtain ⟨sb, hbk, hby, hbok⟩ := IH b3 [.star n', .kw rb] (by omega) hb3 (by simp [BodyCtx, hSf])
      simp only [C10.kwSeq, List.map_cons, List.map_nil, hrb] at hby
      simp only [Parts.kids] at hlk ⊢
      refine ⟨.block (G.keywords.getD k []) none sb rr, ?_, ?_, ?_⟩
      · rw [stmsOfKids_block_none G hlk, hbk, hrk]; rfl
      · simp only [Parts.yield, List.cons_append, itemsOf_kw, itemsOf_append, hby, hry, hlb]
        simp [Stms.flatten, kwItem]
      · intro htok
        simp only [Parts.yield, List.cons_append, tokOK_cons_kw] at htok
        obtain ⟨h1, h2⟩ := tokOK_append.mp htok
        simp [Stms.OK, hk1, hk2, hbok h1, hrok h2]
    | some mm =>
      obtain ⟨lb, n', rb, hi, hkw, hleaf⟩ := shape_block_some G hsh
      obtain ⟨hk1, hk2, hlb, hrb⟩ := blockKw_facts G hkw
      rw [List.getD_eq_getElem?_getD] at hk1 hk2
      rw [hsh, hi] at hSf
      simp only at hSf
      have hdet := C10.printWF_det G hP hfm
      rw [hi] at hb hdet
      obtain ⟨b1, rfl, hb1⟩ := wf_kw G hb
      rcases wf_opt G hb1 with ⟨fv, bv, b2, rfl, hfv, hov, hbv, hb2⟩ | ⟨b2, rfl, hb2⟩
      · -- the variant is there
        obtain ⟨b3, rfl, hb3⟩ := wf_kw G hb2
        simp only [psize] at hsz
        obtain ⟨sb, hbk, hby, hbok⟩ := IH b3 [.star n', .kw rb] (by omega) hb3 (by simp [BodyCtx, hSf])
        simp only [C10.kwSeq, List.map_cons, List.map_nil, hrb] at hby
        obtain ⟨t, s, hys⟩ := leafy_sub G 4 hleaf hfv hov hbv
        have hlv : leaves G bv.kids = [itemOfTok G (Tok.named t s)] := by
          rw [leaves_kids, hys]; simp [List.filter, isNamed]
        have hlab : G.isLabelOf mm (C10.label fv) = true := by
          have := C10.isLabelOf_label G hfv; rwa [hov] at this
        simp only [Parts.kids] at hlk ⊢
        have hyield : (Parts.kw k (Parts.sub fv bv (Parts.kw lb b3))).yield ++ r.yield =
            Tok.kw k :: Tok.named t s :: Tok.kw lb :: (b3.yield ++ r.yield) := by
          simp [Parts.yield, hys]
        rw [hyield]
        refine ⟨.block (G.keywords.getD k []) (some (itemOfTok G (Tok.named t s))) sb rr, ?_, ?_, ?_⟩
        · rw [stmsOfKids_block_var G hlk hlab hlv, hbk, hrk]; rfl
        · have hn : ∀ a, itemsOf G (Tok.named t s :: a) = itemOfTok G (Tok.named t s) :: itemsOf G a := by
            intro a; simp [itemsOf]
          rw [itemsOf_kw, hn, itemsOf_kw, itemsOf_append, hby, hry, hlb]
          simp [Stms.flatten, kwItem]
        · intro htok
          have hts := htok t s (by simp)
          have htok' : TokOK (b3.yield ++ r.yield) := by
            intro t' s' hm'
            apply htok t' s'
            simp only [List.mem_cons, reduceCtorEq, false_or]
            right; exact hm'
          obtain ⟨h1, h2⟩ := tokOK_append.mp htok'
          simp [Stms.OK, hk1, hk2, hbok h1, hrok h2, itemOfTok, Item'.isToken, Item'.text, hts.1, hts.2]
      · -- no variant
        obtain ⟨b3, rfl, hb3⟩ := wf_kw G hb2
        simp only [psize] at hsz
        obtain ⟨sb, hbk, hby, hbok⟩ := IH b3 [.star n', .kw rb] (by omega) hb3 (by simp [BodyCtx, hSf])
        simp only [C10.kwSeq, List.map_cons, List.map_nil, hrb] at hby
        simp only [Parts.kids] at hlk ⊢
        refine ⟨.block (G.keywords.getD k []) none sb rr, ?_, ?_, ?_⟩
        · rcases wf_star G hb3 with ⟨f', b', r', rfl, hf', ho', _, _⟩ | ⟨r', rfl, hr'⟩
          · simp only [Parts.kids] at hlk hbk ⊢
            have hno : G.isLabelOf mm (C10.label f') = false := by
              simp only [C10.detItems, Bool.and_eq_true] at hdet
              have hav := hdet.1
              apply C10.avoids_node G hav
              simp only [C10.firstSyms, List.append_nil]
              have := C10.mem_labelsOf G (C10.isLabelOf_label G hf')
              rwa [ho'] at this
            rw [stmsOfKids_block_novar_node G hlk hno, hbk, hrk]; rfl
          · obtain ⟨r2, rfl, hr2⟩ := wf_kw G hr'
            have := wf_nil G hr2; subst this
            simp only [Parts.kids] at hlk hbk ⊢
            rw [stmsOfKids_block_novar_nil G hlk, hbk, hrk]; rfl
        · simp only [Parts.yield, List.cons_append, itemsOf_kw, itemsOf_append, hby, hry, hlb]
          simp [Stms.flatten, kwItem]
        · intro htok
          simp only [Parts.yield, List.cons_append, tokOK_cons_kw] at htok
          obtain ⟨h1, h2⟩ := tokOK_append.mp htok
          simp [Stms.OK, hk1, hk2, hbok h1, hrok h2]
  | leaf => rw [hsh] at hst; simp [Shape.isStmtish] at hst
  | bad => rw [hsh] at hst; simp [Shape.isStmtish] at hst
theorem psize_pos (p : Parts) : 1 ≤ psize p := by cases p <;> simp [psize]

theorem body_link (hS : ShapesOK G = true) (hL : LookupWF G = true) (hP : C10.PrintWF G = true) :
    ∀ (n : Nat) (p : Parts) (is : List Item), psize p ≤ n → wfParts G is p = true → BodyCtx G is = true →
      Linked G p.kids p.yield ((C10.kwSeq is).map (kwItem G)) := by
  intro n
  induction n with
  | zero => intro p is h; have := psize_pos p; omega
  | succ n ih =>
    intro p is hsz hw hc
    cases is with
    | nil =>
      have := wf_nil G hw; subst this
      exact ⟨.nil, by simp [Parts.kids, stmsOfKids], by simp [Parts.yield, itemsOf, Stms.flatten, C10.kwSeq], fun _ => rfl⟩
    | cons i is =>
      cases i with
      | kw k =>
        simp only [BodyCtx, List.isEmpty_iff] at hc
        subst hc
        obtain ⟨r, rfl, hr⟩ := wf_kw G hw
        have := wf_nil G hr; subst this
        exact ⟨.nil, by simp [Parts.kids, stmsOfKids],
          by simp [Parts.yield, itemsOf, Stms.flatten, C10.kwSeq, itemOfTok, kwItem], fun _ => rfl⟩
      | tok t => simp [BodyCtx] at hc
      | opt m => simp [BodyCtx] at hc
      | nt m =>
        simp only [BodyCtx, Bool.and_eq_true] at hc
        obtain ⟨f, b, r, rfl, hf, ho, hb, hr⟩ := wf_nt G hw
        simp only [psize] at hsz
        have hrl := ih r is (by have := psize_pos b; omega) hr hc.2
        simp only [C10.kwSeq]
        exact sub_link G hS hL hP n ih (by omega) hf ho hc.1 hb hrl
      | star m =>
        have hc' := hc
        simp only [BodyCtx, Bool.and_eq_true] at hc
        rcases wf_star G hw with ⟨f, b, r, rfl, hf, ho, hb, hr⟩ | ⟨r, rfl, hr⟩
        · simp only [psize] at hsz
          have hrl := ih r (.star m :: is) (by have := psize_pos b; omega) hr hc'
          simp only [C10.kwSeq] at hrl ⊢
          exact sub_link G hS hL hP n ih (by omega) hf ho hc.1 hb hrl
        · simp only [psize] at hsz
          have hrl := ih r is (by omega) hr hc.2
          simpa [Parts.kids, Parts.yield, C10.kwSeq] using hrl

/-- the tokens of the tree are harmless iff the named tokens of the sentence are -/
theorem tokOK_of_tree {d : Deriv} (h : tokensOK G (C10.toTree d) = true) : TokOK d.yield := by
  intro t s hm
  simp only [tokensOK, C10.toTree, List.all_eq_true] at h
  have := h (itemOfTok G (Tok.named t s)) (by
    rw [leaves_kids]
    simp only [List.mem_map, List.mem_filter]
    exact ⟨Tok.named t s, ⟨hm, rfl⟩, rfl⟩)
  simpa [itemOfTok, Item'.text] using this

/-- A well-formed derivation from the start symbol: its tree is profile-shaped, and the statement list read off the
tree is the token sequence of the sentence. -/
theorem deriv_link (hS : ShapesOK G = true) (hL : LookupWF G = true) (hP : C10.PrintWF G = true)
    {d : Deriv} (hd : d.WF G = true) (hstart : d.form.origin = G.start) :
    ∃ ss, stmsOfTree G (C10.toTree d) = some ss ∧ itemsOf G d.yield = ss.flatten ∧ (TokOK d.yield → ss.OK = true) := by
  unfold Deriv.WF at hd
  simp only [Bool.and_eq_true] at hd
  have hst : stmtNt G G.start = true := by
    simp only [ShapesOK, Bool.and_eq_true] at hS; exact hS.1
  have hw : wfParts G [.nt G.start] (Parts.sub d.form d.body .done) = true := by
    simp [wfParts, hd.1, hd.2, hstart]
  have := body_link G hS hL hP _ (Parts.sub d.form d.body .done) [.nt G.start] (Nat.le_refl _) hw
    (by simp [BodyCtx, hst])
  obtain ⟨ss, h1, h2, h3⟩ := this
  refine ⟨ss, ?_, ?_, ?_⟩
  · simpa [stmsOfTree, C10.toTree, Parts.kids] using h1
  · simpa [Parts.yield, C10.kwSeq, Deriv.yield] using h2
  · intro h; apply h3; simpa [Parts.yield, Deriv.yield] using h

/-! ## Part 3: the tree → derivation checker -/

def DnSound (dn : Nat → Nat → Forest → Option (Form × Parts)) : Prop :=
  ∀ n l ks f b, dn n l ks = some (f, b) →
    G.has f = true ∧ f.origin = n ∧ C10.label f = l ∧ wfParts G f.items b = true ∧ b.kids = ks

theorem deriveItems_sound {dn} (hdn : DnSound G dn) (is : List Item) (ks : Forest) :
    ∀ p, deriveItems G dn is ks = some p → wfParts G is p = true ∧ p.kids = ks := by
  fun_induction deriveItems G dn is ks with
  | case1 => intro p h; simp at h; subst h; simp [wfParts, Parts.kids]
  | case2 => intro p h; simp at h
  | case3 k is ks ih =>
    intro p h
    simp only [Option.map_eq_some_iff] at h
    obtain ⟨q, hq, rfl⟩ := h
    obtain ⟨h1, h2⟩ := ih q hq
    simp [wfParts, Parts.kids, h1, h2]
  | case4 t is t' s r heq ih =>
    intro p h
    simp only [Option.map_eq_some_iff] at h
    obtain ⟨q, hq, rfl⟩ := h
    obtain ⟨h1, h2⟩ := ih q hq
    have : t = t' := by simpa using heq
    simp [wfParts, Parts.kids, h1, h2, this]
  | case5 => intro p h; simp at h
  | case6 => intro p h; simp at h
  | case7 n is l ks r f b hd ih =>
    intro p h
    simp only [Option.map_eq_some_iff] at h
    obtain ⟨q, hq, rfl⟩ := h
    obtain ⟨h1, h2⟩ := ih q hq
    obtain ⟨a1, a2, a3, a4, a5⟩ := hdn _ _ _ _ _ hd
    simp [wfParts, Parts.kids, h1, h2, a1, a2, a3, a4, a5]
  | case8 => intro p h; simp at h
  | case9 => intro p h; simp at h
  | case10 n is l ks r f b hd ih =>
    intro p h
    simp only [Option.map_eq_some_iff] at h
    obtain ⟨q, hq, rfl⟩ := h
    obtain ⟨h1, h2⟩ := ih q hq
    obtain ⟨a1, a2, a3, a4, a5⟩ := hdn _ _ _ _ _ hd
    simp [wfParts, Parts.kids, h1, h2, a1, a2, a3, a4, a5]
  | case11 n is l ks r hd ih =>
    intro p h
    simp only [Option.map_eq_some_iff] at h
    obtain ⟨q, hq, rfl⟩ := h
    obtain ⟨h1, h2⟩ := ih q hq
    simp [wfParts, Parts.kids, h1, h2]
  | case12 n is ks hne ih =>
    intro p h
    simp only [Option.map_eq_some_iff] at h
    obtain ⟨q, hq, rfl⟩ := h
    obtain ⟨h1, h2⟩ := ih q hq
    simp [wfParts, Parts.kids, h1, h2]
  | case13 n is l ks r f b hd ih =>
    intro p h
    simp only [Option.map_eq_some_iff] at h
    obtain ⟨q, hq, rfl⟩ := h
    obtain ⟨h1, h2⟩ := ih q hq
    obtain ⟨a1, a2, a3, a4, a5⟩ := hdn _ _ _ _ _ hd
    simp [wfParts, Parts.kids, h1, h2, a1, a2, a3, a4, a5]
  | case14 n is l ks r hd ih =>
    intro p h
    simp only [Option.map_eq_some_iff] at h
    obtain ⟨q, hq, rfl⟩ := h
    obtain ⟨h1, h2⟩ := ih q hq
    simp [wfParts, Parts.kids, h1, h2]
  | case15 n is ks hne ih =>
    intro p h
    simp only [Option.map_eq_some_iff] at h
    obtain ⟨q, hq, rfl⟩ := h
    obtain ⟨h1, h2⟩ := ih q hq
    simp [wfParts, Parts.kids, h1, h2]

theorem deriveNode_sound : ∀ fuel, DnSound G (deriveNode G fuel) := by
  intro fuel
  induction fuel with
  | zero => intro n l ks f b h; simp [deriveNode] at h
  | succ fuel ih =>
    intro n l ks f b h
    simp only [deriveNode] at h
    obtain ⟨g, _, hg⟩ := List.exists_of_findSome?_eq_some h
    split at hg
    · rename_i hc
      simp only [Bool.and_eq_true, beq_iff_eq] at hc
      simp only [Option.map_eq_some_iff, Prod.mk.injEq] at hg
      obtain ⟨q, hq, rfl, rfl⟩ := hg
      obtain ⟨h1, h2⟩ := deriveItems_sound G ih _ _ _ hq
      exact ⟨hc.2, hc.1.1, hc.1.2, h1, h2⟩
    · cases hg

/-- the checker is sound: what it returns is a well-formed derivation from the start symbol with that very tree -/
theorem derive_sound {t : Tree} {d : Deriv} (h : derive G t = some d) :
    d.WF G = true ∧ d.form.origin = G.start ∧ C10.toTree d = t := by
  unfold derive at h
  simp only [Option.map_eq_some_iff] at h
  obtain ⟨⟨f, b⟩, hfb, rfl⟩ := h
  obtain ⟨h1, h2, h3, h4, h5⟩ := deriveNode_sound G _ _ _ _ _ _ hfb
  refine ⟨by simp [Deriv.WF, h1, h4], h2, ?_⟩
  simp [C10.toTree, h3, h5]

theorem joinDot_contains {c : Nat} {x : Text} (hx : c ∈ x) : ∀ (path : List Text), x ∈ path → c ∈ joinDot path := by
  intro path
  induction path with
  | nil => intro h; simp at h
  | cons y r ih =>
    intro h
    cases r with
    | nil =>
      simp only [List.mem_cons, List.not_mem_nil, or_false] at h
      subst h; simpa [joinDot] using hx
    | cons z r' =>
      simp only [joinDot, List.mem_append, List.mem_cons]
      rcases List.mem_cons.mp h with h | h
      · subst h; exact .inl hx
      · exact .inr (.inr (ih h))

/-! ### the cache -/

/-- what the accesses of a history should return: the dictionary of the CURRENT tree -/
def expected (compute : Tree → Option (Py Dict)) : Tree → List Op → List (Option (Py Dict))
  | _, [] => []
  | t, .modify f :: ops => expected compute (f t) ops
  | t, .access :: ops => compute t :: expected compute t ops

/-- the cache, when filled, holds the dictionary of a tree of the history with that hash -/
def CacheInv {H : Type} (hash : Tree → H) (compute : Tree → Option (Py Dict)) (L : List Tree) (s : PState H) : Prop :=
  ∀ h, s.dictHash = some h → ∃ t', t' ∈ L ∧ h = hash t' ∧ compute t' = some (.ok s.dictCache)

theorem mem_treesOf_self (t : Tree) (ops : List Op) : t ∈ treesOf t ops := by
  induction ops generalizing t with
  | nil => simp [treesOf]
  | cons o ops ih =>
    cases o with
    | modify f => simp [treesOf]
    | access => simpa [treesOf] using ih t

theorem runHist_correct {H : Type} [DecidableEq H] (hash : Tree → H) (compute : Tree → Option (Py Dict))
    (L : List Tree) (hinj : ∀ a ∈ L, ∀ b ∈ L, hash a = hash b → a = b) :
    ∀ (ops : List Op) (s : PState H), (∀ t ∈ treesOf s.tree ops, t ∈ L) → CacheInv hash compute L s →
      runHist hash compute s ops = expected compute s.tree ops := by
  intro ops
  induction ops with
  | nil => intro s _ _; simp [runHist, expected]
  | cons o ops ih =>
    intro s hsub hinv
    cases o with
    | modify f =>
      simp only [runHist, expected]
      apply ih ⟨f s.tree, s.dictHash, s.dictCache⟩
      · intro t ht; apply hsub; simp [treesOf, ht]
      · exact hinv
    | access =>
      have hself : s.tree ∈ L := hsub _ (mem_treesOf_self _ _)
      have hsub' : ∀ t ∈ treesOf s.tree ops, t ∈ L := by
        intro t ht; apply hsub; simpa [treesOf] using ht
      simp only [runHist, expected]
      unfold asDictCached
      by_cases hc : s.dictHash = some (hash s.tree)
      · simp only [hc, if_true]
        obtain ⟨t', ht', hh, hcomp⟩ := hinv _ hc
        have : s.tree = t' := hinj _ hself _ ht' hh
        subst this
        rw [ih s hsub' hinv, hcomp]
      · simp only [hc, if_false]
        cases hcomp : compute s.tree with
        | none => simp only; rw [ih s hsub' hinv]
        | some r =>
          cases r with
          | error e => simp only; rw [ih s hsub' hinv]
          | ok d =>
            simp only
            rw [ih ⟨s.tree, some (hash s.tree), d⟩ hsub']
            intro h hh
            simp only [Option.some.injEq] at hh
            exact ⟨s.tree, hself, hh.symm, hcomp⟩

/-! ### tokens made by the builder -/

theorem isSubstr_head {c : Nat} {s t : Text} (h : c ∉ t) : C10.isSubstr (c :: s) t = false := by
  induction t with
  | nil => simp [C10.isSubstr]
  | cons x t ih =>
    simp only [List.mem_cons, not_or] at h
    simp only [C10.isSubstr, Bool.or_eq_false_iff]
    refine ⟨?_, ih h.2⟩
    simp [List.isPrefixOf, h.1]

theorem valueToString_head (v : PyVal) : ∃ r, valueToString v = 34 :: r := by
  cases v with
  | str s => exact ⟨_, rfl⟩
  | bytes b =>
    refine ⟨(C12.strReplace [C12.bsl, C12.sq] [C12.sq] (C12.strReplace [C12.dq] [C12.bsl, C12.dq]
      (pySliceFrom (pySliceTo (C12.reprBytes ([C12.dq] ++ b)) (some (-1))) 3)) ++ [C12.dq]).map (·.toNat), ?_⟩
    simp [valueToString, C12.valueToString, C12.valueToStringStr]
    rfl

/-- a STRING token made by `value_to_string` can never be mistaken for punctuation or for `set` -/
theorem valueToString_tokOK (v : PyVal) :
    C10.isFlush (valueToString v) = false ∧ valueToString v ≠ setKw := by
  obtain ⟨r, hr⟩ := valueToString_head v
  rw [hr]
  exact ⟨isSubstr_head (by decide), by simp [setKw]⟩

/-- bytes handed to the builder come back from a list property as the same bytes -/
theorem listAtom_bytes (b : Bytes) : listAtom (.token true (valueToString (.bytes b))) = .ok (.bytes b) := by
  simp only [listAtom, valueToString]
  rw [C12.decode_latin1_codepoints, C12.literal_roundtrip]

end C11

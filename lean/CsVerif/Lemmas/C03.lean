import CsVerif.Model.C03
import CsVerif.Model.PyFile
/-!
C03 — specification side (reference encoders, well-formedness predicates, reference tables written by hand)
and helper lemmas.  The property theorems are in `Props/C03.lean`.
-/
namespace C03
open Gen.Beacon
set_option linter.unusedSimpArgs false

/-- bytes of an ASCII string literal (used in examples) -/
def asc (s : String) : Bytes := s.toList.map (fun c => UInt8.ofNat c.toNat)

/-! ### Cobalt Strike's numbering, written once by hand -/

def be16 (n : Nat) : Bytes := [UInt8.ofNat (n / 256), UInt8.ofNat n]
def be32 (n : Nat) : Bytes :=
  [UInt8.ofNat (n / 16777216), UInt8.ofNat (n / 65536), UInt8.ofNat (n / 256), UInt8.ofNat n]
def le32 (n : Nat) : Bytes :=
  [UInt8.ofNat n, UInt8.ofNat (n / 256), UInt8.ofNat (n / 65536), UInt8.ofNat (n / 16777216)]

@[simp] theorem be32_length (n : Nat) : (be32 n).length = 4 := rfl
@[simp] theorem take4_be32 (n : Nat) (t : Bytes) : (be32 n ++ t).take 4 = be32 n := rfl
@[simp] theorem drop4_be32 (n : Nat) (t : Bytes) : (be32 n ++ t).drop 4 = t := rfl

theorem u32be_be32 (n : Nat) (h : n < 4294967296) : u32be (be32 n) = n := by
  simp only [u32be, be32, List.take, beNat, UInt8.toNat_ofNat']
  omega

@[simp] theorem take2_be16 (n : Nat) (t : Bytes) : (be16 n ++ t).take 2 = be16 n := rfl
@[simp] theorem drop2_be16 (n : Nat) (t : Bytes) : (be16 n ++ t).drop 2 = t := rfl
theorem u16be_be16 (n : Nat) (h : n < 65536) : u16be (be16 n) = n := by
  simp only [u16be, be16, List.take, beNat, UInt8.toNat_ofNat']
  omega

theorem tsv_build : tsv "BUILD" = some 7 := by decide
theorem enableVals_eq : enableVals = [some 3, some 13, some 8, some 11, some 12, some 4, some 15] := by decide
theorem argVals_eq : argVals = [some 10, some 6, some 5, some 9, some 16, some 1, some 2] := by decide

def refTransformStep : List (Nat × String) := [
  (1, "APPEND"), (2, "PREPEND"), (3, "BASE64"), (4, "PRINT"), (5, "PARAMETER"), (6, "HEADER"),
  (7, "BUILD"), (8, "NETBIOS"), (9, "_PARAMETER"), (10, "_HEADER"), (11, "NETBIOSU"), (12, "URI_APPEND"),
  (13, "BASE64URL"), (14, "STRREP"), (15, "MASK"), (16, "_HOSTHEADER")]

theorem gen_transformStep : transformStep = refTransformStep := by decide

def refEnable : List Nat := [3, 13, 8, 11, 12, 4, 15]
def refArg : List Nat := [10, 6, 5, 9, 16, 1, 2]

inductive TStep
  | build (btype : Nat)
  | enable (v : Nat)
  | arg (v : Nat) (a : Bytes)
  | skip (v : Nat)
  deriving DecidableEq, Repr

def TStep.WF : TStep → Prop
  | .build b => b < 4294967296
  | .enable v => v ∈ refEnable
  | .arg v a => v ∈ refArg ∧ a.length < 4294967296
  | .skip v => 0 < v ∧ v < 4294967296 ∧ v ≠ 7 ∧ v ∉ refEnable ∧ v ∉ refArg

def encStep : TStep → Bytes
  | .build b => be32 7 ++ be32 b
  | .enable v => be32 v
  | .arg v a => be32 v ++ be32 a.length ++ a
  | .skip v => be32 v

def encTransform (p : List TStep) : Bytes := p.flatMap encStep

def TStep.view (build : String) : TStep → Option TOut
  | .build b => some (some "BUILD", .str (buildMap build b))
  | .enable v => some (enumName refTransformStep v, .flag)
  | .arg v a => some (enumName refTransformStep v, .bytes a)
  | .skip _ => none

theorem parseTransform_unfold (build : String) (v : Nat) (hv : v < 4294967296) (hv0 : v ≠ 0) (t : Bytes) :
    parseTransform build (be32 v ++ t) =
      if some v == tsv "BUILD" then
        (enumName transformStep v, TVal.str (buildMap build (u32be (t.take 4)))) :: parseTransform build (t.drop 4)
      else if enableVals.contains (some v) then (enumName transformStep v, TVal.flag) :: parseTransform build t
      else if argVals.contains (some v) then
        (enumName transformStep v, TVal.bytes ((t.drop 4).take (u32be (t.take 4)))) ::
          parseTransform build ((t.drop 4).drop (u32be (t.take 4)))
      else parseTransform build t := by
  rw [parseTransform]
  simp only [take4_be32, drop4_be32, be32_length, u32be_be32 v hv]
  simp [hv0]

theorem parseTransform_step (build : String) (st : TStep) (h : st.WF) (t : Bytes) :
    parseTransform build (encStep st ++ t) = (st.view build).toList ++ parseTransform build t := by
  cases st with
  | build b =>
    simp only [TStep.WF] at h
    simp only [encStep, List.append_assoc]
    rw [parseTransform_unfold build 7 (by omega) (by omega)]
    simp [tsv_build, u32be_be32 b h, gen_transformStep, TStep.view]
    decide
  | enable v =>
    simp only [TStep.WF, refEnable] at h
    simp only [encStep]
    rw [parseTransform_unfold build v (by simp at h; omega) (by simp at h; omega)]
    simp only [tsv_build, enableVals_eq, gen_transformStep, TStep.view]
    simp at h
    rcases h with h | h | h | h | h | h | h <;> subst h <;> simp
  | arg v a =>
    simp only [TStep.WF, refArg] at h
    obtain ⟨hv, ha⟩ := h
    simp only [encStep, List.append_assoc]
    rw [parseTransform_unfold build v (by simp at hv; omega) (by simp at hv; omega)]
    simp only [tsv_build, enableVals_eq, argVals_eq, gen_transformStep, TStep.view, take4_be32, drop4_be32,
      u32be_be32 _ ha]
    simp at hv
    rcases hv with h | h | h | h | h | h | h <;> subst h <;> simp
  | skip v =>
    simp only [TStep.WF, refEnable, refArg] at h
    obtain ⟨h0, h1, h7, he, ha⟩ := h
    simp only [encStep]
    rw [parseTransform_unfold build v h1 (by omega)]
    simp only [tsv_build, enableVals_eq, argVals_eq, TStep.view]
    simp at he ha
    simp [h7, he, ha]

theorem parseTransform_enc_append (build : String) (p : List TStep) (h : ∀ st ∈ p, st.WF) (t : Bytes) :
    parseTransform build (encTransform p ++ t) = p.filterMap (TStep.view build) ++ parseTransform build t := by
  induction p with
  | nil => simp [encTransform]
  | cons st p ih =>
    have hst := h st (by simp)
    have hp : ∀ s ∈ p, s.WF := fun s hs => h s (by simp [hs])
    simp only [encTransform, List.flatMap_cons, List.append_assoc] at ih ⊢
    rw [parseTransform_step build st hst, ih hp]
    cases hv : st.view build <;> simp [hv]

theorem parseTransform_short (build : String) (t : Bytes) (h : t.length < 4) : parseTransform build t = [] := by
  rw [parseTransform]
  have : (List.take 4 t).length ≠ 4 := by simp; omega
  dsimp only
  rw [dif_pos (Or.inl this)]

theorem parseTransform_zero (build : String) (t : Bytes) : parseTransform build (be32 0 ++ t) = [] := by
  rw [parseTransform]
  simp [u32be_be32]

/-! recover -/
def refRecLen : List Nat := [1, 2]
def refRecFlag : List Nat := [3, 4, 8, 11, 13, 15]

def recName : Nat → String
  | 1 => "append" | 2 => "prepend" | 3 => "base64" | 4 => "print" | 8 => "netbios"
  | 11 => "netbiosu" | 13 => "base64url" | 15 => "mask" | _ => "?"

inductive RStep
  | len (v : Nat) (n : Nat)
  | flag (v : Nat)
  | skip (v : Nat)
  deriving DecidableEq, Repr

def RStep.WF : RStep → Prop
  | .len v n => v ∈ refRecLen ∧ n < 4294967296
  | .flag v => v ∈ refRecFlag
  | .skip v => 0 < v ∧ v < 4294967296 ∧ v ∉ refRecLen ∧ v ∉ refRecFlag

def encRStep : RStep → Bytes
  | .len v n => be32 v ++ be32 n
  | .flag v => be32 v
  | .skip v => be32 v

def encRecover (p : List RStep) : Bytes := p.flatMap encRStep

def RStep.view : RStep → Option (String × RVal)
  | .len v n => some (recName v, .len n)
  | .flag v => some (recName v, .flag)
  | .skip _ => none

theorem tsv_vals : tsv "APPEND" = some 1 ∧ tsv "PREPEND" = some 2 ∧ tsv "BASE64" = some 3 ∧ tsv "PRINT" = some 4 ∧
    tsv "NETBIOS" = some 8 ∧ tsv "NETBIOSU" = some 11 ∧ tsv "BASE64URL" = some 13 ∧ tsv "MASK" = some 15 := by decide

theorem be32_ne_nil (v : Nat) : ¬ be32 v = [] := by simp [be32]

theorem parseRecover_unfold (v : Nat) (hv : v < 4294967296) (t : Bytes) :
    parseRecover (be32 v ++ t) =
      if some v == tsv "APPEND" then ("append", .len (u32be (t.take 4))) :: parseRecover (t.drop 4)
      else if some v == tsv "PREPEND" then ("prepend", .len (u32be (t.take 4))) :: parseRecover (t.drop 4)
      else if some v == tsv "BASE64" then ("base64", .flag) :: parseRecover t
      else if some v == tsv "PRINT" then ("print", .flag) :: parseRecover t
      else if some v == tsv "NETBIOS" then ("netbios", .flag) :: parseRecover t
      else if some v == tsv "NETBIOSU" then ("netbiosu", .flag) :: parseRecover t
      else if some v == tsv "BASE64URL" then ("base64url", .flag) :: parseRecover t
      else if some v == tsv "MASK" then ("mask", .flag) :: parseRecover t
      else if v = 0 then []
      else parseRecover t := by
  rw [parseRecover]
  simp only [take4_be32, drop4_be32, u32be_be32 v hv, be32_ne_nil, ↓reduceDIte]

theorem parseRecover_nil : parseRecover [] = [] := by rw [parseRecover.eq_def]; rfl

theorem parseRecover_step (st : RStep) (h : st.WF) (t : Bytes) :
    parseRecover (encRStep st ++ t) = st.view.toList ++ parseRecover t := by
  obtain ⟨a1, a2, a3, a4, a8, a11, a13, a15⟩ := tsv_vals
  cases st with
  | len v n =>
    simp only [RStep.WF, refRecLen] at h
    obtain ⟨hv, hn⟩ := h
    simp only [encRStep, List.append_assoc]
    rw [parseRecover_unfold v (by simp at hv; omega)]
    simp only [take4_be32, drop4_be32, a1, a2, a3, a4, a8, a11, a13, a15, u32be_be32 n hn]
    simp at hv
    rcases hv with h | h <;> subst h <;> simp [RStep.view, recName]
  | flag v =>
    simp only [RStep.WF, refRecFlag] at h
    simp only [encRStep]
    rw [parseRecover_unfold v (by simp at h; omega)]
    simp only [a1, a2, a3, a4, a8, a11, a13, a15]
    simp at h
    rcases h with h | h | h | h | h | h <;> subst h <;> simp [RStep.view, recName]
  | skip v =>
    simp only [RStep.WF, refRecLen, refRecFlag] at h
    obtain ⟨h0, h1, hl, hf⟩ := h
    simp only [encRStep]
    rw [parseRecover_unfold v h1]
    simp only [a1, a2, a3, a4, a8, a11, a13, a15]
    simp at hl hf
    have : v ≠ 0 := by omega
    simp [this, hl, hf, RStep.view]

theorem parseRecover_enc_append (p : List RStep) (h : ∀ st ∈ p, st.WF) (t : Bytes) :
    parseRecover (encRecover p ++ t) = p.filterMap RStep.view ++ parseRecover t := by
  induction p with
  | nil => simp [encRecover]
  | cons st p ih =>
    have hst := h st (by simp)
    have hp : ∀ s ∈ p, s.WF := fun s hs => h s (by simp [hs])
    simp only [encRecover, List.flatMap_cons, List.append_assoc] at ih ⊢
    rw [parseRecover_step st hst, ih hp]
    cases hv : st.view <;> simp [hv]

/-! rstripNul -/
theorem dropWhile_replicate_append {α} (p : α → Bool) (a : α) (h : p a = true) (n : Nat) (l : List α) :
    (List.replicate n a ++ l).dropWhile p = l.dropWhile p := by
  induction n with
  | zero => simp
  | succ n ih => simp [List.replicate_succ, h, ih]

def NoTrailNul (b : Bytes) : Prop := b.getLast? ≠ some 0

theorem rstripNul_pad (m : Bytes) (h : NoTrailNul m) (k : Nat) : rstripNul (m ++ List.replicate k 0) = m := by
  unfold rstripNul
  rw [List.reverse_append, List.reverse_replicate, dropWhile_replicate_append _ _ (by decide)]
  cases hm : m.reverse with
  | nil => simp at hm; subst hm; rfl
  | cons x xs =>
    have hx : m.getLast? = some x := by
      rw [List.getLast?_eq_head?_reverse, hm]; rfl
    have : x ≠ 0 := by
      intro h0; subst h0; exact h hx
    rw [List.dropWhile_cons_of_neg (by simpa using this), ← hm, List.reverse_reverse]

theorem rstripNul_self (m : Bytes) (h : NoTrailNul m) : rstripNul m = m := by
  simpa using rstripNul_pad m h 0

theorem utf8Decode_ascii (m : Bytes) (h : ∀ x ∈ m, x < 128) : utf8Decode m = .ok (m.map (·.toNat)) := by
  induction m with
  | nil => rw [utf8Decode.eq_def]; rfl
  | cons b r ih =>
    rw [utf8Decode.eq_def]
    have hb : b < 128 := h b (by simp)
    have hb' : b < 0x80 := hb
    simp only [hb', ↓reduceIte]
    rw [ih (fun x hx => h x (by simp [hx]))]
    rfl

def refInjectExecutor : List (Nat × String) := [
  (1, "CreateThread"), (2, "SetThreadContext"), (3, "CreateRemoteThread"), (4, "RtlCreateUserThread"),
  (5, "NtQueueApcThread"), (6, "CreateThread_"), (7, "CreateRemoteThread_"), (8, "NtQueueApcThread_s")]

theorem gen_injectExecutor : injectExecutor = refInjectExecutor := by decide

inductive EItem
  | plain (v : Nat)
  | call (v off : Nat) (mod : Bytes) (mpad : Nat) (fn : Bytes) (fpad : Nat)
  deriving DecidableEq, Repr

def AsciiName (b : Bytes) : Prop := (∀ x ∈ b, x < 128) ∧ NoTrailNul b

def EItem.WF : EItem → Prop
  | .plain v => 0 < v ∧ v < 256 ∧ v ≠ 6 ∧ v ≠ 7
  | .call v off m mp f fp =>
    (v = 6 ∨ v = 7) ∧ off < 65536 ∧ m.length + mp < 4294967296 ∧ f.length + fp < 4294967296 ∧
      AsciiName m ∧ AsciiName f

def encEItem : EItem → Bytes
  | .plain v => [UInt8.ofNat v]
  | .call v off m mp f fp =>
    UInt8.ofNat v :: (be16 off ++ (be32 (m.length + mp) ++ ((m ++ List.replicate mp 0) ++
      (be32 (f.length + fp) ++ (f ++ List.replicate fp 0)))))

def encExecute (items : List EItem) : Bytes := items.flatMap encEItem

def callName (v : Nat) : String := if v = 6 then "CreateThread" else "CreateRemoteThread"

def EItem.view : EItem → Option (List Nat)
  | .plain v => (enumName refInjectExecutor v).map strCps
  | .call v off m _ f _ =>
    some (strCps (callName v) ++ [32, 34] ++ (m.map (·.toNat) ++ [33] ++ f.map (·.toNat) ++
      (if off ≠ 0 then strCps ("+0x" ++ hexStr off) else [])) ++ [34])

theorem iev_vals : iev "CreateThread_" = some 6 ∧ iev "CreateRemoteThread_" = some 7 := by decide

theorem take_pad (m : Bytes) (k : Nat) (t : Bytes) :
    ((m ++ List.replicate k 0) ++ t).take (m.length + k) = m ++ List.replicate k 0 := by
  apply List.take_left'
  simp

theorem drop_pad (m : Bytes) (k : Nat) (t : Bytes) :
    ((m ++ List.replicate k 0) ++ t).drop (m.length + k) = t := by
  apply List.drop_left'
  simp

theorem parseExecute_step (it : EItem) (h : it.WF) (t : Bytes) :
    parseExecute (encEItem it ++ t) = (parseExecute t).map (it.view :: ·) := by
  obtain ⟨i6, i7⟩ := iev_vals
  cases it with
  | plain v =>
    simp only [EItem.WF] at h
    obtain ⟨h0, h1, h6, h7⟩ := h
    simp only [encEItem, List.cons_append, List.nil_append]
    rw [parseExecute.eq_def]
    have hn : (UInt8.ofNat v).toNat = v := by rw [UInt8.toNat_ofNat']; omega
    have hz : ¬ (UInt8.ofNat v = 0) := by
      intro hc
      have := congrArg UInt8.toNat hc
      rw [hn] at this
      simp at this; omega
    simp only [hz, ↓reduceIte, hn, i6, i7, gen_injectExecutor, EItem.view]
    have : ¬ ((some v == some 6 || some v == some 7) = true) := by simp [h6, h7]
    simp only [this]
    cases parseExecute t <;> rfl
  | call v off m mp f fp =>
    simp only [EItem.WF] at h
    obtain ⟨hv, hoff, hm, hf, ⟨hma, hmn⟩, ⟨hfa, hfn⟩⟩ := h
    simp only [encEItem, List.cons_append, List.append_assoc]
    rw [parseExecute.eq_def]
    have hn : (UInt8.ofNat v).toNat = v := by rw [UInt8.toNat_ofNat']; omega
    have hz : ¬ (UInt8.ofNat v = 0) := by
      intro hc
      have := congrArg UInt8.toNat hc
      rw [hn] at this
      simp at this; omega
    have hc : (some v == some 6 || some v == some 7) = true := by
      rcases hv with hv | hv <;> subst hv <;> rfl
    simp only [hz, ↓reduceIte, hn, i6, i7, hc, take2_be16, drop2_be16, take4_be32, drop4_be32,
      u16be_be16 off hoff, u32be_be32 _ hm, u32be_be32 _ hf]
    rw [← List.append_assoc m, take_pad, drop_pad]
    simp only [take4_be32, drop4_be32, u32be_be32 _ hf]
    rw [← List.append_assoc f, take_pad, drop_pad]
    rw [rstripNul_pad m hmn, rstripNul_pad f hfn, utf8Decode_ascii m hma, utf8Decode_ascii f hfa]
    simp only [gen_injectExecutor]
    rcases hv with hv | hv <;> subst hv
    · have : enumName refInjectExecutor 6 = some "CreateThread_" := by decide
      simp only [this]
      have : rstripUnderscore (strCps "CreateThread_") = strCps "CreateThread" := by decide
      simp only [this, EItem.view, callName]
      cases parseExecute t <;> simp [Except.map]
    · have : enumName refInjectExecutor 7 = some "CreateRemoteThread_" := by decide
      simp only [this]
      have : rstripUnderscore (strCps "CreateRemoteThread_") = strCps "CreateRemoteThread" := by decide
      simp only [this, EItem.view, callName]
      cases parseExecute t <;> simp [Except.map]

theorem parseExecute_enc_append (items : List EItem) (h : ∀ it ∈ items, it.WF) (t : Bytes) :
    parseExecute (encExecute items ++ t) = (parseExecute t).map (items.map EItem.view ++ ·) := by
  induction items with
  | nil => simp only [encExecute, List.flatMap_nil, List.nil_append, List.map_nil]; cases parseExecute t <;> rfl
  | cons it items ih =>
    have hit := h it (by simp)
    have hp : ∀ s ∈ items, s.WF := fun s hs => h s (by simp [hs])
    simp only [encExecute, List.flatMap_cons, List.append_assoc] at ih ⊢
    rw [parseExecute_step it hit, ih hp]
    cases parseExecute t <;> rfl

theorem parseExecute_nil : parseExecute [] = .ok [] := by rw [parseExecute.eq_def]
theorem parseExecute_zero (t : Bytes) : parseExecute (0 :: t) = .ok [] := by rw [parseExecute.eq_def]; rfl

/-! process-inject transform -/
def encInjTransform (a p : Bytes) : Bytes := be32 a.length ++ (a ++ (be32 p.length ++ p))

theorem be32_ne_nil' (v : Nat) : be32 v ≠ [] := by simp [be32]

theorem parseInjTransform_enc (a p t : Bytes) (ha : a.length < 4294967296) (hp : p.length < 4294967296) :
    parseInjTransform (encInjTransform a p ++ t) = [("append", a), ("prepend", p)] := by
  unfold parseInjTransform encInjTransform
  simp only [List.append_assoc, take4_be32, drop4_be32, u32be_be32 _ ha, ne_eq, be32_ne_nil, not_false_eq_true, ↓reduceIte]
  rw [List.drop_left' rfl, List.take_left' rfl]
  simp only [take4_be32, drop4_be32, u32be_be32 _ hp, be32_ne_nil, not_false_eq_true, ↓reduceIte]
  rw [List.take_left' rfl]
  rfl

theorem parseInjTransform_nil : parseInjTransform [] = [] := by decide

/-! gargle -/
@[simp] theorem take4_le32 (n : Nat) (t : Bytes) : (le32 n ++ t).take 4 = le32 n := rfl
@[simp] theorem drop4_le32 (n : Nat) (t : Bytes) : (le32 n ++ t).drop 4 = t := rfl
theorem u32le_le32 (n : Nat) (h : n < 4294967296) : u32le (le32 n) = n := by
  simp only [u32le, le32, List.take, leNat, UInt8.toNat_ofNat']
  omega
theorem le32_ne_nil (v : Nat) : ¬ le32 v = [] := by simp [le32]

def encGargle (rows : List (Nat × Nat)) : Bytes := rows.flatMap fun r => le32 r.1 ++ le32 r.2

theorem parseGarglePairs_enc_append (rows : List (Nat × Nat))
    (h : ∀ r ∈ rows, r.1 < 4294967296 ∧ r.2 < 4294967296) (t : Bytes) :
    parseGarglePairs (encGargle rows ++ t) = rows.filter (· ≠ (0, 0)) ++ parseGarglePairs t := by
  induction rows with
  | nil => simp [encGargle]
  | cons r rows ih =>
    obtain ⟨h1, h2⟩ := h r (by simp)
    have hp : ∀ s ∈ rows, s.1 < 4294967296 ∧ s.2 < 4294967296 := fun s hs => h s (by simp [hs])
    simp only [encGargle, List.flatMap_cons, List.append_assoc] at ih ⊢
    rw [parseGarglePairs.eq_def]
    simp only [take4_le32, drop4_le32, le32_ne_nil, ↓reduceDIte, u32le_le32 _ h1, u32le_le32 _ h2, ih hp]
    obtain ⟨a, b⟩ := r
    by_cases hz : (a, b) = (0, 0)
    · simp [hz]
    · simp [hz]

theorem parseGarglePairs_nil : parseGarglePairs [] = [] := by rw [parseGarglePairs.eq_def]; rfl

/-! pivot -/
def encPivot (d : Bytes) : Bytes := be16 (d.length + 4) ++ d

theorem parsePivot_enc (d t : Bytes) (h : d.length + 4 < 65536) : parsePivot (encPivot d ++ t) = d := by
  unfold parsePivot encPivot rdInt
  simp only [List.append_assoc, take2_be16, drop2_be16, u16be_be16 _ h]
  have : ¬ (((d.length + 4 : Nat) : Int) - 4 < 0) := by omega
  simp only [this, ↓reduceIte]
  have : (((d.length + 4 : Nat) : Int) - 4).toNat = d.length := by omega
  rw [this, List.take_left' rfl]

theorem parsePivot_short (n : Nat) (t : Bytes) (h : n < 4) : parsePivot (be16 n ++ t) = t := by
  unfold parsePivot rdInt
  simp only [take2_be16, drop2_be16, u16be_be16 _ (by omega : n < 65536)]
  have : ((n : Nat) : Int) - 4 < 0 := by omega
  simp only [this, ↓reduceIte]

/-! ### BeaconGate -/

theorem isSuperset_iff (o s : List String) : isSuperset o s = true ↔ ∀ x ∈ s, x ∈ o := by
  simp [isSuperset, List.all_eq_true]

theorem mem_setMinus (o s : List String) (x : String) : x ∈ setMinus o s ↔ x ∈ o ∧ x ∉ s := by
  simp [setMinus, List.mem_filter]

/-- after removing `s`, a group that shares a member with `s` is no longer contained -/
theorem isSuperset_setMinus_of_mem (o s g : List String) (w : String) (hg : w ∈ g) (hs : w ∈ s) :
    isSuperset (setMinus o s) g = false := by
  rw [Bool.eq_false_iff]
  intro h
  have := (isSuperset_iff _ _).mp h w hg
  exact ((mem_setMinus _ _ _).mp this).2 hs

/-- removing a disjoint group does not change containment -/
theorem isSuperset_setMinus_of_disjoint (o s g : List String) (hd : ∀ x ∈ g, x ∉ s) :
    isSuperset (setMinus o s) g = isSuperset o g := by
  rw [Bool.eq_iff_iff, isSuperset_iff, isSuperset_iff]
  constructor
  · intro h x hx; exact ((mem_setMinus _ _ _).mp (h x hx)).1
  · intro h x hx; exact (mem_setMinus _ _ _).mpr ⟨h x hx, hd x hx⟩

theorem gate_disjoint :
    (∀ x ∈ gateCore, x ∉ gateComms) ∧ (∀ x ∈ gateCleanup, x ∉ gateComms) ∧ (∀ x ∈ gateCleanup, x ∉ gateCore) ∧
    (∀ x ∈ gateComms, x ∉ gateCore) ∧ (∀ x ∈ gateComms, x ∉ gateCleanup) ∧ (∀ x ∈ gateCore, x ∉ gateCleanup) := by
  decide

theorem gateAll_mem (x : String) : x ∈ gateAll ↔ x ∈ gateComms ∨ x ∈ gateCore ∨ x ∈ gateCleanup := by
  simp [gateAll, or_assoc]

/-- the reported groups and the remaining set, in closed form -/
def gateSpec (o : List String) : List String × List String :=
  if isSuperset o gateAll then (["All"], setMinus o gateAll)
  else
    ((if isSuperset o gateComms then ["Comms"] else []) ++ (if isSuperset o gateCore then ["Core"] else []) ++
      (if isSuperset o gateCleanup then ["Cleanup"] else []),
     setMinus (setMinus (setMinus o (if isSuperset o gateComms then gateComms else []))
       (if isSuperset o gateCore then gateCore else [])) (if isSuperset o gateCleanup then gateCleanup else []))

theorem setMinus_nil (o : List String) : setMinus o [] = o := by simp [setMinus]

theorem gateString_eq_spec (o : List String) : gateString o = gateSpec o := by
  obtain ⟨d1, d2, d3, d4, d5, d6⟩ := gate_disjoint
  unfold gateString gateSpec
  by_cases hA : isSuperset o gateAll = true
  · have e1 : gateStep "All" gateAll ([], o) = (["All"], setMinus o gateAll) := by simp [gateStep, hA]
    have e2 : isSuperset (setMinus o gateAll) gateComms = false :=
      isSuperset_setMinus_of_mem _ _ _ "InternetOpenA" (by decide) (by decide)
    have e3 : isSuperset (setMinus o gateAll) gateCore = false :=
      isSuperset_setMinus_of_mem _ _ _ "VirtualAlloc" (by decide) (by decide)
    have e4 : isSuperset (setMinus o gateAll) gateCleanup = false :=
      isSuperset_setMinus_of_mem _ _ _ "ExitThread" (by decide) (by decide)
    rw [e1]
    simp [gateStep, e2, e3, e4, hA]
  · have e1 : gateStep "All" gateAll ([], o) = ([], o) := by simp [gateStep, hA]
    rw [e1]
    simp only [hA, Bool.false_eq_true, ↓reduceIte]
    by_cases h1 : isSuperset o gateComms = true
    · have c2 : isSuperset (setMinus o gateComms) gateCore = isSuperset o gateCore :=
        isSuperset_setMinus_of_disjoint _ _ _ d1
      by_cases h2 : isSuperset o gateCore = true
      · have c3 : isSuperset (setMinus (setMinus o gateComms) gateCore) gateCleanup = isSuperset o gateCleanup := by
          rw [isSuperset_setMinus_of_disjoint _ _ _ d3, isSuperset_setMinus_of_disjoint _ _ _ d2]
        by_cases h3 : isSuperset o gateCleanup = true
        · simp [gateStep, h1, h2, h3, c2, c3]
        · simp [gateStep, h1, h2, h3, c2, c3, setMinus_nil]
      · have c3 : isSuperset (setMinus o gateComms) gateCleanup = isSuperset o gateCleanup :=
          isSuperset_setMinus_of_disjoint _ _ _ d2
        by_cases h3 : isSuperset o gateCleanup = true
        · simp [gateStep, h1, h2, h3, c2, c3, setMinus_nil]
        · simp [gateStep, h1, h2, h3, c2, c3, setMinus_nil]
    · by_cases h2 : isSuperset o gateCore = true
      · have c3 : isSuperset (setMinus o gateCore) gateCleanup = isSuperset o gateCleanup :=
          isSuperset_setMinus_of_disjoint _ _ _ d3
        by_cases h3 : isSuperset o gateCleanup = true
        · simp [gateStep, h1, h2, h3, c3, setMinus_nil]
        · simp [gateStep, h1, h2, h3, c3, setMinus_nil]
      · by_cases h3 : isSuperset o gateCleanup = true
        · simp [gateStep, h1, h2, h3, setMinus_nil]
        · simp [gateStep, h1, h2, h3, setMinus_nil]

def expandGroup (g : String) : List String :=
  if g = "All" then gateAll else if g = "Comms" then gateComms else if g = "Core" then gateCore
  else if g = "Cleanup" then gateCleanup else []

theorem gateSpec_sublist (o : List String) : (gateSpec o).2.Sublist o := by
  unfold gateSpec
  split
  · exact List.filter_sublist
  · exact (List.filter_sublist.trans List.filter_sublist).trans List.filter_sublist

theorem gateSpec_groups_sublist (o : List String) : (gateSpec o).1.Sublist ["All", "Comms", "Core", "Cleanup"] := by
  unfold gateSpec
  split
  · dsimp only; decide
  · split <;> split <;> split <;> dsimp only <;> decide

theorem gateSpec_cover (o : List String) (x : String) :
    (x ∈ (gateSpec o).2 ∨ ∃ g ∈ (gateSpec o).1, x ∈ expandGroup g) ↔ x ∈ o := by
  unfold gateSpec
  by_cases hA : isSuperset o gateAll = true
  · have hA' := (isSuperset_iff _ _).mp hA
    simp only [hA, ↓reduceIte, mem_setMinus, List.mem_singleton, exists_eq_left, expandGroup]
    constructor
    · rintro (⟨h, _⟩ | h)
      · exact h
      · exact hA' x h
    · intro h
      by_cases hx : x ∈ gateAll
      · exact Or.inr hx
      · exact Or.inl ⟨h, hx⟩
  · simp only [hA, Bool.false_eq_true, ↓reduceIte, mem_setMinus]
    by_cases h1 : isSuperset o gateComms = true <;> by_cases h2 : isSuperset o gateCore = true <;>
      by_cases h3 : isSuperset o gateCleanup = true <;>
      simp only [h1, h2, h3, ↓reduceIte, Bool.false_eq_true, List.not_mem_nil, not_false_eq_true, and_true,
        List.nil_append, List.append_nil, List.cons_append, List.mem_cons, List.mem_singleton,
        exists_eq_or_imp, exists_eq_left, expandGroup, false_or, or_false, List.not_mem_nil, exists_false,
        false_and] <;>
      (try have g1 := (isSuperset_iff _ _).mp h1 x) <;>
      (try have g2 := (isSuperset_iff _ _).mp h2 x) <;>
      (try have g3 := (isSuperset_iff _ _).mp h3 x) <;>
      grind

theorem gateSpec_groups (o : List String) :
    ("All" ∈ (gateSpec o).1 ↔ isSuperset o gateAll = true) ∧
    ("Comms" ∈ (gateSpec o).1 ↔ isSuperset o gateComms = true ∧ isSuperset o gateAll = false) ∧
    ("Core" ∈ (gateSpec o).1 ↔ isSuperset o gateCore = true ∧ isSuperset o gateAll = false) ∧
    ("Cleanup" ∈ (gateSpec o).1 ↔ isSuperset o gateCleanup = true ∧ isSuperset o gateAll = false) := by
  unfold gateSpec
  by_cases hA : isSuperset o gateAll = true
  · simp [hA]
  · by_cases h1 : isSuperset o gateComms = true <;> by_cases h2 : isSuperset o gateCore = true <;>
      by_cases h3 : isSuperset o gateCleanup = true <;> simp [hA, h1, h2, h3]

theorem gateSpec_no_overlap (o : List String) :
    ∀ x ∈ (gateSpec o).2, ∀ g ∈ (gateSpec o).1, x ∉ expandGroup g := by
  unfold gateSpec
  by_cases hA : isSuperset o gateAll = true
  · simp only [hA, ↓reduceIte, mem_setMinus, List.mem_singleton]
    rintro x ⟨_, hx⟩ g rfl
    simpa [expandGroup] using hx
  · simp only [hA, Bool.false_eq_true, ↓reduceIte, mem_setMinus]
    by_cases h1 : isSuperset o gateComms = true <;> by_cases h2 : isSuperset o gateCore = true <;>
      by_cases h3 : isSuperset o gateCleanup = true <;>
      simp only [h1, h2, h3, ↓reduceIte, Bool.false_eq_true, List.not_mem_nil, not_false_eq_true, and_true,
        List.nil_append, List.append_nil, List.cons_append, List.mem_cons, List.mem_singleton,
        expandGroup, or_false, false_or] <;>
      intro x hx g hg <;> grind

theorem eraseDups_nodup {α} [BEq α] [LawfulBEq α] (l : List α) : l.eraseDups.Nodup := by
  generalize hn : l.length = n
  induction n using Nat.strongRecOn generalizing l with
  | _ n ih =>
    cases l with
    | nil => simp
    | cons a as =>
      rw [List.eraseDups_cons, List.nodup_cons]
      constructor
      · simp [List.mem_eraseDups, List.mem_filter]
      · apply ih (List.filter (fun b => !b == a) as).length _ _ rfl
        subst hn
        have := List.length_filter_le (fun b => !b == a) as
        simp only [List.length_cons]
        omega

theorem gateOptions_nodup (flags : List UInt8) : (gateOptions flags).Nodup := eraseDups_nodup _

theorem mem_gateOptions (flags : List UInt8) (x : String) :
    x ∈ gateOptions flags ↔ ∃ b, (x, b) ∈ beaconGateFields.zip flags ∧ b ≠ 0 := by
  simp only [gateOptions, List.mem_eraseDups, List.mem_map, List.mem_filter]
  constructor
  · rintro ⟨⟨n, b⟩, ⟨hm, hb⟩, rfl⟩
    exact ⟨b, hm, by simpa using hb⟩
  · rintro ⟨b, hm, hb⟩
    exact ⟨(x, b), ⟨hm, by simpa using hb⟩, rfl⟩

/-! ### NUL-terminated strings, public key digest -/

theorem nullTerminatedBytes_append (s t : Bytes) (h : ∀ x ∈ s, x ≠ 0) :
    nullTerminatedBytes (s ++ 0 :: t) = s := by
  unfold nullTerminatedBytes
  rw [List.takeWhile_append_of_pos (by intro a ha; simpa using h a ha)]
  simp

theorem nullTerminatedBytes_no_nul (s : Bytes) (h : ∀ x ∈ s, x ≠ 0) : nullTerminatedBytes s = s := by
  unfold nullTerminatedBytes
  induction s with
  | nil => rfl
  | cons b r ih =>
    have hb : b ≠ 0 := h b (by simp)
    simp only [List.takeWhile_cons, ne_eq, hb, not_false_eq_true, decide_true, ↓reduceIte]
    rw [ih (fun x hx => h x (by simp [hx]))]

theorem nullTerminatedBytes_mem (s : Bytes) : ∀ x ∈ nullTerminatedBytes s, x ≠ 0 := by
  unfold nullTerminatedBytes
  induction s with
  | nil => simp
  | cons b r ih =>
    by_cases hb : b = 0
    · simp [List.takeWhile_cons, hb]
    · simp only [List.takeWhile_cons, ne_eq, hb, not_false_eq_true, decide_true, ↓reduceIte, List.mem_cons]
      rintro x (rfl | hx)
      · exact hb
      · exact ih x hx

theorem nullTerminatedBytes_prefix (s : Bytes) : nullTerminatedBytes s <+: s := List.takeWhile_prefix _

/-- the decoded text is the longest NUL-free prefix: it is followed by a NUL or by the end of the data -/
theorem nullTerminatedBytes_split (s : Bytes) :
    s = nullTerminatedBytes s ∨ ∃ t, s = nullTerminatedBytes s ++ 0 :: t := by
  unfold nullTerminatedBytes
  induction s with
  | nil => left; rfl
  | cons b r ih =>
    by_cases hb : b = 0
    · right; subst hb; exact ⟨r, by simp⟩
    · simp only [List.takeWhile_cons, ne_eq, hb, not_false_eq_true, decide_true, ↓reduceIte]
      rcases ih with ih | ⟨t, ih⟩
      · left; rw [← ih]
      · right; exact ⟨t, by rw [List.cons_append, ← ih]⟩

theorem sha256sumPubkey_pad (sha : Bytes → Bytes) (k : Bytes) (h : NoTrailNul k) (n : Nat) :
    sha256sumPubkey sha (k ++ List.replicate n 0) = Hex.encode (sha k) := by
  unfold sha256sumPubkey
  rw [rstripNul_pad k h n]

theorem rstripNul_noTrail (b : Bytes) : NoTrailNul (rstripNul b) := by
  unfold NoTrailNul rstripNul
  rw [List.getLast?_reverse]
  cases h : List.dropWhile (fun x => x == 0) b.reverse with
  | nil => simp
  | cons x xs =>
    have := List.head_dropWhile_not (fun x => x == (0 : UInt8)) (l := b.reverse) (by rw [h]; simp)
    simp only [h, List.head_cons] at this
    simp only [List.head?_cons, ne_eq, Option.some.injEq]
    intro hx; subst hx; simp at this

/-! ### DNS idle address -/

theorem dnsIdle_quad (a b c d : UInt8) :
    dnsIdle (u32be [a, b, c, d]) = .ok s!"{a.toNat}.{b.toNat}.{c.toNat}.{d.toNat}" := by
  have ha := a.toNat_lt; have hb := b.toNat_lt; have hc := c.toNat_lt; have hd := d.toNat_lt
  have hx : u32be [a, b, c, d] = ((a.toNat * 256 + b.toNat) * 256 + c.toNat) * 256 + d.toNat := by
    simp [u32be, beNat]
  rw [hx]
  unfold dnsIdle dottedQuad
  rw [if_pos (by omega)]
  have e1 : (((a.toNat * 256 + b.toNat) * 256 + c.toNat) * 256 + d.toNat) / 16777216 % 256 = a.toNat := by omega
  have e2 : (((a.toNat * 256 + b.toNat) * 256 + c.toNat) * 256 + d.toNat) / 65536 % 256 = b.toNat := by omega
  have e3 : (((a.toNat * 256 + b.toNat) * 256 + c.toNat) * 256 + d.toNat) / 256 % 256 = c.toNat := by omega
  have e4 : (((a.toNat * 256 + b.toNat) * 256 + c.toNat) * 256 + d.toNat) % 256 = d.toNat := by omega
  rw [e1, e2, e3, e4]

/-! ### domain / URI lists -/

def joinComma : List Bytes → Bytes
  | [] => []
  | [a] => a
  | a :: b :: rest => a ++ 44 :: joinComma (b :: rest)

theorem splitComma_ne_nil (s : Bytes) : splitComma s ≠ [] := by
  induction s with
  | nil => simp [splitComma]
  | cons b r ih =>
    unfold splitComma
    split
    · simp
    · split <;> simp

theorem splitComma_nocomma (a : Bytes) (h : ∀ x ∈ a, x ≠ 44) : splitComma a = [a] := by
  induction a with
  | nil => rfl
  | cons b r ih =>
    have hb : b ≠ 44 := h b (by simp)
    unfold splitComma
    simp only [hb, ↓reduceIte]
    rw [ih (fun x hx => h x (by simp [hx]))]

theorem splitComma_append (a t : Bytes) (h : ∀ x ∈ a, x ≠ 44) :
    splitComma (a ++ 44 :: t) = a :: splitComma t := by
  induction a with
  | nil => simp [splitComma]
  | cons b r ih =>
    have hb : b ≠ 44 := h b (by simp)
    rw [List.cons_append]
    simp only [splitComma, hb, ↓reduceIte]
    rw [ih (fun x hx => h x (by simp [hx]))]

theorem splitComma_join (items : List Bytes) (hne : items ≠ []) (h : ∀ i ∈ items, ∀ x ∈ i, x ≠ 44) :
    splitComma (joinComma items) = items := by
  induction items with
  | nil => exact absurd rfl hne
  | cons a rest ih =>
    cases rest with
    | nil => simpa [joinComma] using splitComma_nocomma a (h a (by simp))
    | cons b rest =>
      simp only [joinComma]
      rw [splitComma_append a _ (h a (by simp)), ih (by simp) (fun i hi => h i (by simp [hi]))]

def interleave : List (Bytes × Bytes) → List Bytes
  | [] => []
  | p :: r => p.1 :: p.2 :: interleave r

theorem grouper2_interleave (ps : List (Bytes × Bytes)) :
    grouper2 (interleave ps) = ps.map fun p => (p.1, some p.2) := by
  induction ps with
  | nil => rfl
  | cons p r ih => simp [interleave, grouper2, ih]

theorem grouper2_interleave_odd (ps : List (Bytes × Bytes)) (d : Bytes) :
    grouper2 (interleave ps ++ [d]) = (ps.map fun p => (p.1, some p.2)) ++ [(d, none)] := by
  induction ps with
  | nil => rfl
  | cons p r ih => simp [interleave, grouper2, ih]

theorem mem_dedup {α} [BEq α] [LawfulBEq α] (l : List α) (x : α) : x ∈ dedup l ↔ x ∈ l := by
  induction l with
  | nil => simp [dedup]
  | cons a r ih =>
    simp only [dedup, List.mem_cons, List.mem_filter, ih]
    by_cases hx : x = a <;> simp [hx]

theorem nodup_dedup {α} [BEq α] [LawfulBEq α] (l : List α) : (dedup l).Nodup := by
  induction l with
  | nil => simp [dedup]
  | cons a r ih =>
    simp only [dedup, List.nodup_cons, List.mem_filter]
    refine ⟨by simp, List.Nodup.sublist List.filter_sublist ih⟩

theorem dedup_sublist {α} [BEq α] (l : List α) : (dedup l).Sublist l := by
  induction l with
  | nil => simp [dedup]
  | cons a r ih =>
    simp only [dedup]
    exact (List.filter_sublist.trans ih).cons_cons a

/-! ### the residual-list cursor of Model/C03 is the shared `PyFile` model restricted to sequential reads -/

def remaining (f : PyFile) : Bytes := f.data.drop f.pos

theorem read_refines_pyfile (f : PyFile) (n : Nat) :
    (f.read n).1 = (remaining f).take n ∧ remaining (f.read n).2 = (remaining f).drop n := by
  have h1 : (f.read n).1 = (remaining f).take n := PyFile.read_nonneg f n
  refine ⟨h1, ?_⟩
  unfold remaining at *
  rw [PyFile.read_data, PyFile.read_pos, h1, ← List.drop_drop, List.length_take]
  by_cases hn : n ≤ (List.drop f.pos f.data).length
  · rw [Nat.min_eq_left hn]
  · rw [Nat.min_eq_right (by omega)]
    rw [List.drop_eq_nil_of_le (Nat.le_refl _), List.drop_eq_nil_of_le (by omega)]

theorem readAll_refines_pyfile (f : PyFile) (n : Int) (h : n < 0) :
    (f.read n).1 = (rdInt n (remaining f)).1 ∧ remaining (f.read n).2 = (rdInt n (remaining f)).2 := by
  have h1 : (f.read n).1 = remaining f := PyFile.read_neg f n h
  unfold rdInt
  simp only [h, ↓reduceIte]
  refine ⟨h1, ?_⟩
  unfold remaining at *
  rw [PyFile.read_data, PyFile.read_pos, h1, ← List.drop_drop]
  exact List.drop_eq_nil_of_le (Nat.le_refl _)

/-! ### hexadecimal rendering is injective -/

def hexVal (c : Char) : Nat := if c.toNat ≤ 57 then c.toNat - 48 else c.toNat - 87

def ofHex (l : List Char) (init : Nat) : Nat := l.foldl (fun a c => 16 * a + hexVal c) init

theorem hexVal_digitChar : ∀ k < 16, hexVal (Nat.digitChar k) = k := by decide

theorem ofHex_append (l m : List Char) (init : Nat) : ofHex (l ++ m) init = ofHex m (ofHex l init) := by
  simp [ofHex]

theorem ofHex_toDigits (n : Nat) : ofHex (Nat.toDigits 16 n) 0 = n := by
  induction n using Nat.base_induction 16 (by decide) with
  | single m hm => simp [Nat.toDigits_of_lt_base hm, ofHex, hexVal_digitChar m hm]
  | digit m k hk hm ih =>
    rw [← Nat.toDigits_append_toDigits (by decide) hm hk, ofHex_append, ih, Nat.toDigits_of_lt_base hk]
    simp [ofHex, hexVal_digitChar k hk]

theorem toDigits16_injective (a b : Nat) (h : Nat.toDigits 16 a = Nat.toDigits 16 b) : a = b := by
  have := congrArg (fun l => ofHex l 0) h
  simpa [ofHex_toDigits] using this

theorem hexStr_injective (a b : Nat) (h : hexStr a = hexStr b) : a = b := by
  unfold hexStr at h
  exact toDigits16_injective a b (String.ofList_injective h)

theorem digitChar_ne_dash : ∀ k < 16, Nat.digitChar k ≠ '-' := by decide

theorem toDigits16_no_dash (n : Nat) : ∀ c ∈ Nat.toDigits 16 n, c ≠ '-' := by
  induction n using Nat.base_induction 16 (by decide) with
  | single m hm =>
    intro c hc
    rw [Nat.toDigits_of_lt_base hm] at hc
    simp only [List.mem_singleton] at hc
    subst hc; exact digitChar_ne_dash m hm
  | digit m k hk hm ih =>
    intro c hc
    rw [← Nat.toDigits_append_toDigits (by decide) hm hk, Nat.toDigits_of_lt_base hk] at hc
    simp only [List.mem_append, List.mem_singleton] at hc
    rcases hc with hc | hc
    · exact ih c hc
    · subst hc; exact digitChar_ne_dash k hk

theorem append_sep_inj {α} (c : α) (l1 l2 r1 r2 : List α) (h1 : c ∉ l1) (h2 : c ∉ l2)
    (h : l1 ++ c :: r1 = l2 ++ c :: r2) : l1 = l2 ∧ r1 = r2 := by
  induction l1 generalizing l2 with
  | nil =>
    cases l2 with
    | nil => simpa using h
    | cons b l2 =>
      simp only [List.nil_append, List.cons_append, List.cons.injEq] at h
      exact absurd h.1.symm (by intro hb; exact h2 (by simp [hb]))
  | cons a l1 ih =>
    cases l2 with
    | nil =>
      simp only [List.nil_append, List.cons_append, List.cons.injEq] at h
      exact absurd h.1 (by intro hb; exact h1 (by simp [hb]))
    | cons b l2 =>
      simp only [List.cons_append, List.cons.injEq] at h
      obtain ⟨hab, ht⟩ := h
      have := ih l2 (fun hm => h1 (by simp [hm])) (fun hm => h2 (by simp [hm])) ht
      exact ⟨by rw [hab, this.1], this.2⟩

theorem fmtRange_injective (p q : Nat × Nat) (h : fmtRange p = fmtRange q) : p = q := by
  have h' := congrArg String.toList h
  simp only [fmtRange, hexStr, String.toList_append, String.toList_ofList, List.append_assoc] at h'
  have e1 : "0x".toList = ['0', 'x'] := by decide
  have e2 : "-0x".toList = ['-', '0', 'x'] := by decide
  rw [e1, e2] at h'
  simp only [List.cons_append, List.nil_append, List.cons.injEq, true_and] at h'
  obtain ⟨ha, hb⟩ := append_sep_inj '-' _ _ _ _ (fun hm => toDigits16_no_dash p.1 _ hm rfl)
    (fun hm => toDigits16_no_dash q.1 _ hm rfl) h'
  simp only [List.cons.injEq, true_and] at hb
  exact Prod.ext (toDigits16_injective _ _ ha) (toDigits16_injective _ _ hb)

/-! ### the rendering of execute items is injective -/

theorem map_toNat_injective (a b : Bytes) (h : a.map (·.toNat) = b.map (·.toNat)) : a = b := by
  induction a generalizing b with
  | nil => cases b <;> simp_all
  | cons x a ih =>
    cases b with
    | nil => simp at h
    | cons y b =>
      simp only [List.map_cons, List.cons.injEq] at h
      rw [UInt8.toNat_inj.mp h.1, ih b h.2]

theorem map_charToNat_injective (a b : List Char) (h : a.map Char.toNat = b.map Char.toNat) : a = b := by
  induction a generalizing b with
  | nil => cases b <;> simp_all
  | cons x a ih =>
    cases b with
    | nil => simp at h
    | cons y b =>
      simp only [List.map_cons, List.cons.injEq] at h
      rw [Char.toNat_inj.mp h.1, ih b h.2]

theorem not_mem_map_toNat (m : Bytes) (c : UInt8) (h : c ∉ m) : c.toNat ∉ m.map (·.toNat) := by
  intro hm
  obtain ⟨x, hx, he⟩ := List.mem_map.mp hm
  exact h (UInt8.toNat_inj.mp he ▸ hx)

def offPart (off : Nat) : List Nat := if off ≠ 0 then strCps ("+0x" ++ hexStr off) else []

theorem offPart_pos (off : Nat) (h : off ≠ 0) :
    offPart off = 43 :: 48 :: 120 :: (Nat.toDigits 16 off).map Char.toNat := by
  have e : "+0x".toList = ['+', '0', 'x'] := by decide
  simp [offPart, h, strCps, hexStr, String.toList_append, String.toList_ofList, e]

theorem callName_no_space (v : Nat) : 32 ∉ strCps (callName v) := by
  unfold callName; split <;> decide

theorem callName_inj (v w : Nat) (hv : v = 6 ∨ v = 7) (hw : w = 6 ∨ w = 7)
    (h : strCps (callName v) = strCps (callName w)) : v = w := by
  rcases hv with rfl | rfl <;> rcases hw with rfl | rfl <;> first | rfl | (exfalso; revert h; decide)

theorem call_view_injective (v off : Nat) (m : Bytes) (mp : Nat) (f : Bytes) (fp : Nat)
    (v' off' : Nat) (m' : Bytes) (mp' : Nat) (f' : Bytes) (fp' : Nat)
    (hv : v = 6 ∨ v = 7) (hv' : v' = 6 ∨ v' = 7)
    (hm : (33 : UInt8) ∉ m) (hm' : (33 : UInt8) ∉ m') (hf : (43 : UInt8) ∉ f) (hf' : (43 : UInt8) ∉ f')
    (h : EItem.view (.call v off m mp f fp) = EItem.view (.call v' off' m' mp' f' fp')) :
    v = v' ∧ off = off' ∧ m = m' ∧ f = f' := by
  simp only [EItem.view, Option.some.injEq, List.append_assoc, List.cons_append, List.nil_append] at h
  obtain ⟨hname, hrest⟩ := append_sep_inj 32 _ _ _ _ (callName_no_space v) (callName_no_space v') h
  have hvv := callName_inj v v' hv hv' hname
  simp only [List.cons.injEq, true_and] at hrest
  have hm33 := not_mem_map_toNat m 33 hm
  have hm33' := not_mem_map_toNat m' 33 hm'
  obtain ⟨hmm, hrest2⟩ := append_sep_inj 33 _ _ _ _ hm33 hm33' hrest
  have hmeq := map_toNat_injective m m' hmm
  have hf43 := not_mem_map_toNat f 43 hf
  have hf43' := not_mem_map_toNat f' 43 hf'
  change List.map (·.toNat) f ++ (offPart off ++ [34]) = List.map (·.toNat) f' ++ (offPart off' ++ [34]) at hrest2
  rw [← List.append_assoc, ← List.append_assoc] at hrest2
  have hrest3 := List.append_cancel_right hrest2
  by_cases h0 : off = 0 <;> by_cases h0' : off' = 0
  · subst h0; subst h0'
    simp only [offPart, ne_eq, not_true_eq_false, ↓reduceIte, List.append_nil] at hrest3
    exact ⟨hvv, rfl, hmeq, map_toNat_injective f f' hrest3⟩
  · exfalso
    subst h0
    rw [offPart_pos off' h0'] at hrest3
    simp only [offPart, ne_eq, not_true_eq_false, ↓reduceIte, List.append_nil] at hrest3
    exact hf43 (hrest3 ▸ by simp)
  · exfalso
    subst h0'
    rw [offPart_pos off h0] at hrest3
    simp only [offPart, ne_eq, not_true_eq_false, ↓reduceIte, List.append_nil] at hrest3
    exact hf43' (hrest3 ▸ by simp)
  · rw [offPart_pos off h0, offPart_pos off' h0'] at hrest3
    obtain ⟨hff, hd⟩ := append_sep_inj 43 _ _ _ _ hf43 hf43' hrest3
    simp only [List.cons.injEq, true_and] at hd
    exact ⟨hvv, toDigits16_injective _ _ (map_charToNat_injective _ _ hd), hmeq, map_toNat_injective f f' hff⟩

theorem plain_view_no_space (v : Nat) (x : List Nat) (h : EItem.view (.plain v) = some x) : 32 ∉ x := by
  simp only [EItem.view, enumName, Option.map_map, Option.map_eq_some_iff] at h
  obtain ⟨p, hp, rfl⟩ := h
  have hmem := List.mem_of_find?_eq_some hp
  have key : ∀ q ∈ refInjectExecutor, 32 ∉ strCps q.2 := by decide
  exact key p hmem

theorem plain_ne_call (v : Nat) (w off : Nat) (m : Bytes) (mp : Nat) (f : Bytes) (fp : Nat) :
    EItem.view (.plain v) ≠ EItem.view (.call w off m mp f fp) := by
  intro h
  have := plain_view_no_space v _ h
  simp [List.mem_append] at this

theorem plain_view_injective :
    ∀ v ∈ [1, 2, 3, 4, 5, 8], ∀ w ∈ [1, 2, 3, 4, 5, 8],
      EItem.view (.plain v) = EItem.view (.plain w) → v = w := by decide

/-! ### kill date digits -/

def twoDigits (x : Nat) : List Char := [Nat.digitChar (x / 10), Nat.digitChar (x % 10)]

theorem toDigits_yyyymmdd (y m d : Nat) (hy : 0 < y) (hm : m < 100) (hd : d < 100) :
    Nat.toDigits 10 ((y * 100 + m) * 100 + d) = Nat.toDigits 10 y ++ twoDigits m ++ twoDigits d := by
  have e : (y * 100 + m) * 100 + d = 10 * (10 * (10 * (10 * y + m / 10) + m % 10) + d / 10) + d % 10 := by omega
  rw [e]
  rw [← Nat.toDigits_append_toDigits (by decide) (by omega) (by omega),
    ← Nat.toDigits_append_toDigits (by decide) (by omega) (by omega),
    ← Nat.toDigits_append_toDigits (by decide) (by omega) (by omega),
    ← Nat.toDigits_append_toDigits (by decide) hy (by omega)]
  rw [Nat.toDigits_of_lt_base (by omega : m / 10 < 10), Nat.toDigits_of_lt_base (by omega : m % 10 < 10),
    Nat.toDigits_of_lt_base (by omega : d / 10 < 10), Nat.toDigits_of_lt_base (by omega : d % 10 < 10)]
  simp [twoDigits]

theorem length_toDigits_year (y : Nat) (h1 : 1000 ≤ y) (h2 : y < 10000) : (Nat.toDigits 10 y).length = 4 := by
  have a := (Nat.length_toDigits_le_iff (b := 10) (n := y) (k := 4) (by decide) (by decide)).mpr (by omega)
  have b : ¬ (Nat.toDigits 10 y).length ≤ 3 := fun hle =>
    absurd ((Nat.length_toDigits_le_iff (b := 10) (n := y) (k := 3) (by decide) (by decide)).mp hle) (by omega)
  omega

theorem intOfDigits_eq (cs : List Char) (h : cs ≠ []) : intOfDigits cs = .ok (Nat.ofDigitChars 10 cs 0) := by
  unfold intOfDigits
  have : cs.isEmpty = false := by cases cs <;> simp_all
  simp only [this, Bool.false_eq_true, ↓reduceIte, Nat.ofDigitChars]
  congr 1
  congr 1
  funext a c
  simp [Nat.mul_comm]

theorem intOfDigits_toDigits (n : Nat) : intOfDigits (Nat.toDigits 10 n) = .ok n := by
  rw [intOfDigits_eq _ Nat.toDigits_ne_nil, Nat.ofDigitChars_ten_toDigits]

theorem intOfDigits_twoDigits (x : Nat) (h : x < 100) : intOfDigits (twoDigits x) = .ok x := by
  rw [intOfDigits_eq _ (by simp [twoDigits])]
  simp only [twoDigits, Nat.ofDigitChars_cons_digitChar_of_lt_ten (by omega : x / 10 < 10),
    Nat.ofDigitChars_cons_digitChar_of_lt_ten (by omega : x % 10 < 10), Nat.ofDigitChars_nil]
  congr 1
  omega

theorem killdateOf_yyyymmdd (y m d : Nat) (h1 : 1000 ≤ y) (h2 : y < 10000) (hm : m < 100) (hd : d < 100) :
    killdateOf [("SETTING_KILLDATE", .int ((y * 100 + m) * 100 + d))] =
      some (.ok (some (fmt02 y ++ "-" ++ fmt02 m ++ "-" ++ fmt02 d))) := by
  have hk : (y * 100 + m) * 100 + d ≠ 0 := by omega
  have hl := length_toDigits_year y h1 h2
  have hds : (toString ((y * 100 + m) * 100 + d)).toList = Nat.toDigits 10 y ++ (twoDigits m ++ twoDigits d) := by
    rw [Nat.toString_eq_ofList_toDigits, String.toList_ofList, toDigits_yyyymmdd y m d (by omega) hm hd,
      List.append_assoc]
  have g : dictGet [("SETTING_KILLDATE", PVal.int ((y * 100 + m) * 100 + d))] "SETTING_KILLDATE" =
      some (PVal.int ((y * 100 + m) * 100 + d)) := by
    simp [dictGet]
  unfold killdateOf
  simp only [g, Option.getD_some, hk, ne_eq, not_false_eq_true, ↓reduceIte, hds]
  rw [List.take_left' hl, List.drop_left' hl]
  have t1 : List.take 2 (twoDigits m ++ twoDigits d) = twoDigits m := List.take_left' rfl
  have t2 : List.drop 6 (Nat.toDigits 10 y ++ (twoDigits m ++ twoDigits d)) = twoDigits d := by
    rw [← List.append_assoc]
    exact List.drop_left' (by simp [hl, twoDigits])
  rw [t1, t2]
  have t3 : List.take 2 (twoDigits d) = twoDigits d := rfl
  rw [t3, intOfDigits_toDigits, intOfDigits_twoDigits m hm, intOfDigits_twoDigits d hd]

theorem killdate_yyyymmdd (sha : Bytes → Bytes) (y m d : Nat) (h1 : 1000 ≤ y) (h2 : y < 10000) (hm : m < 100)
    (hd : d < 100) :
    killdate sha [⟨40, 2, be32 ((y * 100 + m) * 100 + d)⟩] =
      some (.ok (some (fmt02 y ++ "-" ++ fmt02 m ++ "-" ++ fmt02 d))) := by
  have hlt : (y * 100 + m) * 100 + d < 4294967296 := by omega
  have hkey : settingKey ⟨40, 2, be32 ((y * 100 + m) * 100 + d)⟩ = "SETTING_KILLDATE" := by
    have h40 : enumName settingNames 40 = some "SETTING_KILLDATE" := by decide
    simp [settingKey, settingWatermarkHash, h40]
  have hval : prettyVal sha ⟨40, 2, be32 ((y * 100 + m) * 100 + d)⟩ =
      some (.ok (.int ((y * 100 + m) * 100 + d))) := by
    have hf : prettyTable.find? (·.1 == 40) = none := by decide
    simp [prettyVal, settingWatermarkHash, hf, parseVal, typeShort, typeInt, plainVal, u32be_be32 _ hlt]
  unfold killdate
  simp only [settingsView, hval, hkey]
  exact killdateOf_yyyymmdd y m d h1 h2 hm hd

/-! ### execute lists with arbitrary (valid UTF-8) names -/

/-- the text `bytes.decode()` yields (`[]` only for invalid input, which `ValidName` excludes) -/
def decodedText (m : Bytes) : List Nat :=
  match utf8Decode m with
  | .ok cs => cs
  | .error _ => []

def ValidName (b : Bytes) : Prop := (∃ cs, utf8Decode b = .ok cs) ∧ NoTrailNul b

def EItem.WFu : EItem → Prop
  | .plain v => 0 < v ∧ v < 256 ∧ v ≠ 6 ∧ v ≠ 7
  | .call v off m mp f fp =>
    (v = 6 ∨ v = 7) ∧ off < 65536 ∧ m.length + mp < 4294967296 ∧ f.length + fp < 4294967296 ∧
      ValidName m ∧ ValidName f

def EItem.viewU : EItem → Option (List Nat)
  | .plain v => (enumName refInjectExecutor v).map strCps
  | .call v off m _ f _ =>
    some (strCps (callName v) ++ [32, 34] ++ (decodedText m ++ [33] ++ decodedText f ++
      (if off ≠ 0 then strCps ("+0x" ++ hexStr off) else [])) ++ [34])

theorem asciiName_valid (b : Bytes) (h : AsciiName b) : ValidName b :=
  ⟨⟨_, utf8Decode_ascii b h.1⟩, h.2⟩

theorem decodedText_ascii (b : Bytes) (h : ∀ x ∈ b, x < 128) : decodedText b = b.map (·.toNat) := by
  simp [decodedText, utf8Decode_ascii b h]

theorem EItem.WF.toWFu {it : EItem} (h : it.WF) : it.WFu := by
  cases it with
  | plain v => exact h
  | call v off m mp f fp =>
    obtain ⟨a, b, c, d, e, f'⟩ := h
    exact ⟨a, b, c, d, asciiName_valid _ e, asciiName_valid _ f'⟩

theorem EItem.viewU_eq_view {it : EItem} (h : it.WF) : it.viewU = it.view := by
  cases it with
  | plain v => rfl
  | call v off m mp f fp =>
    obtain ⟨_, _, _, _, e, f'⟩ := h
    simp [EItem.viewU, EItem.view, decodedText_ascii _ e.1, decodedText_ascii _ f'.1]

/-- the common prefix of the call case: after reading opcode, offset and both strings -/
theorem parseExecute_call_unfold (v off : Nat) (m : Bytes) (mp : Nat) (f : Bytes) (fp : Nat) (t : Bytes)
    (hv : v = 6 ∨ v = 7) (hoff : off < 65536) (hm : m.length + mp < 4294967296)
    (hf : f.length + fp < 4294967296) (hmn : NoTrailNul m) (hfn : NoTrailNul f) :
    parseExecute (encEItem (.call v off m mp f fp) ++ t) =
      match utf8Decode m with
      | .error e => .error e
      | .ok ms =>
        match utf8Decode f with
        | .error e => .error e
        | .ok fs =>
          match parseExecute t with
          | .error e => .error e
          | .ok rest =>
            .ok (some (strCps (callName v) ++ [32, 34] ++
              (ms ++ [33] ++ fs ++ (if off ≠ 0 then strCps ("+0x" ++ hexStr off) else [])) ++ [34]) :: rest) := by
  obtain ⟨i6, i7⟩ := iev_vals
  simp only [encEItem, List.cons_append, List.append_assoc]
  rw [parseExecute.eq_def]
  have hn : (UInt8.ofNat v).toNat = v := by rw [UInt8.toNat_ofNat']; omega
  have hz : ¬ (UInt8.ofNat v = 0) := by
    intro hc
    have := congrArg UInt8.toNat hc
    rw [hn] at this
    simp at this; omega
  have hc : (some v == some 6 || some v == some 7) = true := by
    rcases hv with hv | hv <;> subst hv <;> rfl
  simp only [hz, ↓reduceIte, hn, i6, i7, hc, take2_be16, drop2_be16, take4_be32, drop4_be32,
    u16be_be16 off hoff, u32be_be32 _ hm]
  rw [← List.append_assoc m, take_pad, drop_pad]
  simp only [take4_be32, drop4_be32, u32be_be32 _ hf]
  rw [← List.append_assoc f, take_pad, drop_pad]
  rw [rstripNul_pad m hmn, rstripNul_pad f hfn]
  simp only [gen_injectExecutor]
  rcases hv with hv | hv <;> subst hv
  · have e1 : enumName refInjectExecutor 6 = some "CreateThread_" := by decide
    have e2 : rstripUnderscore (strCps "CreateThread_") = strCps "CreateThread" := by decide
    simp only [e1, e2]
    cases utf8Decode m <;> cases utf8Decode f <;> cases parseExecute t <;> simp [callName]
  · have e1 : enumName refInjectExecutor 7 = some "CreateRemoteThread_" := by decide
    have e2 : rstripUnderscore (strCps "CreateRemoteThread_") = strCps "CreateRemoteThread" := by decide
    simp only [e1, e2]
    cases utf8Decode m <;> cases utf8Decode f <;> cases parseExecute t <;> simp [callName]

theorem parseExecute_stepU (it : EItem) (h : it.WFu) (t : Bytes) :
    parseExecute (encEItem it ++ t) = (parseExecute t).map (it.viewU :: ·) := by
  cases it with
  | plain v => exact parseExecute_step (.plain v) h t
  | call v off m mp f fp =>
    obtain ⟨hv, hoff, hm, hf, ⟨⟨mc, hmc⟩, hmn⟩, ⟨⟨fc, hfc⟩, hfn⟩⟩ := h
    rw [parseExecute_call_unfold v off m mp f fp t hv hoff hm hf hmn hfn]
    simp only [hmc, hfc, EItem.viewU, decodedText]
    cases parseExecute t <;> rfl

theorem parseExecute_enc_appendU (items : List EItem) (h : ∀ it ∈ items, it.WFu) (t : Bytes) :
    parseExecute (encExecute items ++ t) = (parseExecute t).map (items.map EItem.viewU ++ ·) := by
  induction items with
  | nil => simp only [encExecute, List.flatMap_nil, List.nil_append, List.map_nil]; cases parseExecute t <;> rfl
  | cons it items ih =>
    have hit := h it (by simp)
    have hp : ∀ s ∈ items, s.WFu := fun s hs => h s (by simp [hs])
    simp only [encExecute, List.flatMap_cons, List.append_assoc] at ih ⊢
    rw [parseExecute_stepU it hit, ih hp]
    cases parseExecute t <;> rfl

/-- a name that is not valid UTF-8 makes the whole list fail with UnicodeDecodeError (a ValueError) -/
theorem parseExecute_call_invalid (v off : Nat) (m : Bytes) (mp : Nat) (f : Bytes) (fp : Nat) (t : Bytes)
    (hv : v = 6 ∨ v = 7) (hoff : off < 65536) (hm : m.length + mp < 4294967296)
    (hf : f.length + fp < 4294967296) (hmn : NoTrailNul m) (hfn : NoTrailNul f) (e : PyExc)
    (hbad : utf8Decode m = .error e ∨ ((∃ ms, utf8Decode m = .ok ms) ∧ utf8Decode f = .error e)) :
    parseExecute (encEItem (.call v off m mp f fp) ++ t) = .error e := by
  rw [parseExecute_call_unfold v off m mp f fp t hv hoff hm hf hmn hfn]
  rcases hbad with hb | ⟨⟨ms, hms⟩, hb⟩
  · simp [hb]
  · simp [hms, hb]

theorem utf8Decode_error_kind (s : Bytes) (e : PyExc) (h : utf8Decode s = .error e) : e = .valueError := by
  fun_induction utf8Decode s <;> simp_all [Except.map] <;> (first | (split at h <;> simp_all) | skip)

theorem utf8_examples :
    utf8Decode [0xC3, 0xA9] = .ok [233] ∧ utf8Decode [0xF0, 0x9F, 0x98, 0x80] = .ok [0x1F600] ∧
    utf8Decode [0xC0, 0x80] = .error .valueError ∧ utf8Decode [0xED, 0xA0, 0x80] = .error .valueError ∧
    utf8Decode [0xFF] = .error .valueError := by
  refine ⟨?_, ?_, ?_, ?_, ?_⟩ <;> simp [utf8Decode, isCont, Except.map]

end C03

import CsVerif.Model.C12
/-! Helper lemmas for C12 (no property statements here). -/
namespace C12

/-- final text of one byte inside a generated literal -/
def escUnit (b : UInt8) : Txt :=
  if b = dq then [bsl, dq]
  else if b = bsl then [bsl, bsl]
  else if b = sq then [sq]
  else if b = 9 then [bsl, 116]
  else if b = 10 then [bsl, 110]
  else if b = 13 then [bsl, 114]
  else if b < 0x20 ∨ b ≥ 0x7f then [bsl, 120, hexDigit (b >>> 4), hexDigit (b &&& 0xf)]
  else [b]

theorem forall_byte {P : UInt8 → Prop} (h : ∀ n, n < 256 → P (UInt8.ofNat n)) (b : UInt8) : P b := by
  have := h b.toNat b.toNat_lt
  simpa using this

set_option maxRecDepth 100000 in
theorem unit_replaces (b : UInt8) :
    replaceGo [bsl, sq] [sq] (replaceGo [dq] [bsl, dq] (reprUnit sq b) 0) 0 = escUnit b := by
  revert b
  apply forall_byte
  decide +kernel


theorem replaceGo_cons_zero (old new : Txt) (c : UInt8) (cs : Txt) :
    replaceGo old new (c :: cs) 0 =
      if old.isPrefixOf (c :: cs) then new ++ replaceGo old new cs (old.length - 1)
      else c :: replaceGo old new cs 0 := by
  rw [replaceGo]

theorem replaceGo_cons_succ (old new : Txt) (c : UInt8) (cs : Txt) (k : Nat) :
    replaceGo old new (c :: cs) (k + 1) = replaceGo old new cs k := by
  rw [replaceGo]

theorem replaceGo_single_append (a : UInt8) (new xs ys : Txt) :
    replaceGo [a] new (xs ++ ys) 0 = replaceGo [a] new xs 0 ++ replaceGo [a] new ys 0 := by
  induction xs with
  | nil => simp [replaceGo]
  | cons c cs ih =>
    simp only [List.cons_append, replaceGo_cons_zero, List.isPrefixOf, List.length_singleton, Nat.sub_self, ih]
    split <;> simp

theorem replaceGo_bslsq_append (new rest : Txt) (hrest : rest.head? ≠ some sq) :
    ∀ (u : Txt) (k : Nat), k ≤ u.length →
      replaceGo [bsl, sq] new (u ++ rest) k = replaceGo [bsl, sq] new u k ++ replaceGo [bsl, sq] new rest 0 := by
  intro u
  induction u with
  | nil => intro k hk; simp at hk; subst hk; simp [replaceGo]
  | cons c cs ih =>
    intro k hk
    cases k with
    | succ k => simp only [List.cons_append, replaceGo_cons_succ]; exact ih k (by simpa using hk)
    | zero =>
      cases cs with
      | nil =>
        cases rest with
        | nil => simp [replaceGo]
        | cons r rs =>
          have : r ≠ sq := by simpa using hrest
          have h2 : [bsl, sq].isPrefixOf (c :: r :: rs) = false := by
            simp [List.isPrefixOf, Ne.symm this]
          simp only [List.cons_append, List.nil_append]
          rw [replaceGo_cons_zero, h2, replaceGo_cons_zero]
          simp [List.isPrefixOf, replaceGo]
      | cons d ds =>
        simp only [List.cons_append]
        rw [replaceGo_cons_zero _ _ c (d :: (ds ++ rest)), replaceGo_cons_zero _ _ c (d :: ds)]
        have hc : [bsl, sq].isPrefixOf (c :: d :: (ds ++ rest)) = [bsl, sq].isPrefixOf (c :: d :: ds) := by
          simp [List.isPrefixOf]
        rw [hc]
        split
        · rw [List.append_assoc]; congr 1
          have := ih 1 (by simp)
          simpa using this
        · have := ih 0 (by simp)
          simp only [List.cons_append] at this
          rw [this]; rfl


/-- unit after the first replace -/
def midUnit (b : UInt8) : Txt := replaceGo [dq] [bsl, dq] (reprUnit sq b) 0

theorem midUnit_head (b : UInt8) : (midUnit b).head? ≠ none ∧ (midUnit b).head? ≠ some sq := by
  revert b
  apply forall_byte
  decide +kernel

theorem flatMap_midUnit_head (bs : Bytes) : (bs.flatMap midUnit).head? ≠ some sq := by
  cases bs with
  | nil => simp
  | cons b bs =>
    have ⟨h1, h2⟩ := midUnit_head b
    simp only [List.flatMap_cons]
    cases h : midUnit b with
    | nil => simp [h] at h1
    | cons c cs => simpa [h] using h2

theorem replace1_flatMap (bs : Bytes) :
    replaceGo [dq] [bsl, dq] (bs.flatMap (reprUnit sq)) 0 = bs.flatMap midUnit := by
  induction bs with
  | nil => simp [replaceGo]
  | cons b bs ih => simp only [List.flatMap_cons, replaceGo_single_append, ih, midUnit]

theorem replace2_flatMap (bs : Bytes) :
    replaceGo [bsl, sq] [sq] (bs.flatMap midUnit) 0 = bs.flatMap escUnit := by
  induction bs with
  | nil => simp [replaceGo]
  | cons b bs ih =>
    simp only [List.flatMap_cons]
    rw [replaceGo_bslsq_append _ _ (flatMap_midUnit_head bs) _ 0 (Nat.zero_le _), ih]
    congr 1
    exact unit_replaces b

theorem reprQuote_dq (value : Bytes) : reprQuote ([dq] ++ value) = sq := by
  simp [reprQuote]

theorem repr_slice (value : Bytes) :
    pySliceFrom (pySliceTo (reprBytes ([dq] ++ value)) (some (-1))) 3 = value.flatMap (reprUnit sq) := by
  have hu : reprUnit sq dq = [dq] := by decide
  simp only [reprBytes, reprQuote_dq, List.flatMap_append, List.flatMap_cons, List.flatMap_nil, hu]
  simp [pySliceTo, pySliceFrom]


theorem valueToString_eq (bs : Bytes) : valueToString bs = dq :: (bs.flatMap escUnit ++ [dq]) := by
  unfold valueToString valueToStringStr
  simp only [repr_slice, strReplace]
  rw [if_neg (by simp), if_neg (by simp), replace1_flatMap, replace2_flatMap]
  rfl

/-- prepend already-scanned text to a scanner result -/
def pre (u : Txt) (r : Option (Txt × Txt)) : Option (Txt × Txt) := r.map fun (m, r) => (u ++ m, r)

theorem pre_pre (u v : Txt) (r) : pre u (pre v r) = pre (u ++ v) r := by
  cases r <;> simp [pre]

theorem scanBody_plain (c : UInt8) (t : Txt) (h1 : c ≠ dq) (h2 : c ≠ bsl) :
    scanBody (c :: t) true = pre [c] (scanBody t true) := by
  rw [scanBody]; simp [h1, h2, pre]

theorem scanBody_escaped (x : UInt8) (t : Txt) :
    scanBody (bsl :: x :: t) true = pre [bsl, x] (scanBody t true) := by
  have hb : ¬ bsl = dq := by decide
  rw [scanBody, scanBody]
  by_cases hx : x = bsl
  · subst hx; cases h : scanBody t true <;> simp [pre, h, hb]
  · cases h : scanBody t true <;> simp [pre, hx, h, hb]

theorem hexDigits_plain (b : UInt8) :
    hexDigit (b >>> 4) ≠ dq ∧ hexDigit (b >>> 4) ≠ bsl ∧ hexDigit (b &&& 0xf) ≠ dq ∧ hexDigit (b &&& 0xf) ≠ bsl := by
  revert b
  apply forall_byte
  decide +kernel

theorem scanBody_escUnit (b : UInt8) (t : Txt) :
    scanBody (escUnit b ++ t) true = pre (escUnit b) (scanBody t true) := by
  have ⟨h1, h2, h3, h4⟩ := hexDigits_plain b
  unfold escUnit
  split
  · exact scanBody_escaped _ _
  split
  · exact scanBody_escaped _ _
  split
  · exact scanBody_plain _ _ (by decide) (by decide)
  split
  · exact scanBody_escaped _ _
  split
  · exact scanBody_escaped _ _
  split
  · exact scanBody_escaped _ _
  split
  · simp only [List.cons_append, List.nil_append]
    rw [scanBody_escaped, scanBody_plain _ _ h1 h2, scanBody_plain _ _ h3 h4, pre_pre, pre_pre]
    rfl
  · rename_i n1 n2 _ _ _ _ _
    exact scanBody_plain _ _ n1 n2

theorem scanBody_units (bs : Bytes) (t : Txt) :
    scanBody (bs.flatMap escUnit ++ t) true = pre (bs.flatMap escUnit) (scanBody t true) := by
  induction bs with
  | nil => cases h : scanBody t true <;> simp [pre, h]
  | cons b bs ih =>
    simp only [List.flatMap_cons, List.append_assoc]
    rw [scanBody_escUnit, ih, pre_pre]

theorem scanString_literal (bs : Bytes) (rest : Txt) :
    scanString (valueToString bs ++ rest) = some (valueToString bs, rest) := by
  rw [valueToString_eq]
  simp only [List.cons_append, List.append_assoc, scanString, if_true]
  rw [scanBody_units]
  simp [scanBody, pre]

theorem drop_cons_inv {α} {l : List α} {i : Nat} {c : α} {r : List α} (h : l.drop i = c :: r) :
    ∃ hi : i < l.length, l[i] = c ∧ l.drop (i + 1) = r := by
  have hi : i < l.length := by
    rcases Nat.lt_or_ge i l.length with h' | h'
    · exact h'
    · rw [List.drop_eq_nil_of_le h'] at h; cases h
  refine ⟨hi, ?_⟩
  rw [List.drop_eq_getElem_cons hi] at h
  injection h with h1 h2
  exact ⟨h1, h2⟩

theorem loop_end (buffer : Txt) (i : Nat) (out : List Int) (h : buffer.drop i = []) :
    decodeLoop buffer i out = .ok out := by
  have : ¬ i < buffer.length := by
    intro hi; rw [List.drop_eq_getElem_cons hi] at h; cases h
  rw [decodeLoop, dif_neg this]

theorem loop_plain (buffer : Txt) (i : Nat) (out : List Int) (c : UInt8) (r : Txt)
    (h : buffer.drop i = c :: r) (hc : c ≠ bsl) :
    decodeLoop buffer i out = decodeLoop buffer (i + 1) (out ++ [(c.toNat : Int)]) := by
  obtain ⟨hi, h1, h2⟩ := drop_cons_inv h
  rw [decodeLoop, dif_pos hi]
  simp only [h1]
  rw [dif_neg (by simp [hc])]

theorem loop_trailing (buffer : Txt) (i : Nat) (out : List Int)
    (h : buffer.drop i = [bsl]) :
    decodeLoop buffer i out = decodeLoop buffer (i + 1) (out ++ [0x5c]) := by
  obtain ⟨hi, h1, h2⟩ := drop_cons_inv h
  have hl : ¬ (i + 1 + 1 ≤ buffer.length) := by
    have := congrArg List.length h2
    simp at this; omega
  rw [decodeLoop, dif_pos hi]
  simp only [h1]
  rw [dif_neg (by simp [hasNext, hl])]
  rfl

/-- the one-character escapes and their byte values -/
def simpleEsc (x : UInt8) : Option Int :=
  if x = 110 then some 10 else if x = 114 then some 13 else if x = 116 then some 9
  else if x = bsl then some 0x5c else if x = dq then some 0x22 else if x = sq then some 0x27 else none

theorem loop_esc_unfold (buffer : Txt) (i : Nat) (out : List Int) (x : UInt8) (r : Txt)
    (h : buffer.drop i = bsl :: x :: r) :
    decodeLoop buffer i out =
      if x = 117 then
        if hasNext buffer (i + 2) 4 = true then
          match pyIntHex (nextN buffer (nextN buffer (i + 2) 2).2 2).1 with
          | .error e => .error e
          | .ok v => decodeLoop buffer (nextN buffer (nextN buffer (i + 2) 2).2 2).2 (out ++ [v])
        else .error .valueError
      else if x = 120 then
        if hasNext buffer (i + 2) 2 = true then
          match pyIntHex (nextN buffer (i + 2) 2).1 with
          | .error e => .error e
          | .ok v => decodeLoop buffer (nextN buffer (i + 2) 2).2 (out ++ [v])
        else .error .valueError
      else match simpleEsc x with
        | some v => decodeLoop buffer (i + 2) (out ++ [v])
        | none => decodeLoop buffer (i + 2) out := by
  obtain ⟨hi, h1, h2⟩ := drop_cons_inv h
  obtain ⟨hi2, h3, h4⟩ := drop_cons_inv h2
  rw [decodeLoop, dif_pos hi]
  simp only [h1]
  rw [dif_pos (by simp [hasNext]; omega)]
  simp only [h3]
  unfold simpleEsc
  split
  · split <;> rfl
  split
  · split <;> rfl
  repeat (split; · rfl)
  rfl

theorem nextN_of_drop (buffer : Txt) (i n : Nat) (s r : Txt) (h : buffer.drop i = s ++ r)
    (hn : s.length = n) (hpos : 0 < n) :
    hasNext buffer i n = true ∧ nextN buffer i n = (s, i + n) := by
  have hl : buffer.length - i = n + r.length := by
    have := congrArg List.length h
    simpa [hn] using this
  constructor
  · simp [hasNext]; omega
  · simp only [nextN, List.drop_take, Nat.add_sub_cancel_left, h]
    rw [List.take_left' hn]

theorem loop_hex (buffer : Txt) (i : Nat) (out : List Int) (h1 h2 : UInt8) (r : Txt)
    (h : buffer.drop i = bsl :: 120 :: h1 :: h2 :: r) :
    decodeLoop buffer i out =
      match pyIntHex [h1, h2] with
      | .error e => .error e
      | .ok v => decodeLoop buffer (i + 4) (out ++ [v]) := by
  have hd : buffer.drop (i + 2) = [h1, h2] ++ r := by
    have := congrArg (List.drop 2) h
    simpa [List.drop_drop, Nat.add_comm] using this
  obtain ⟨hn, hx⟩ := nextN_of_drop buffer (i + 2) 2 [h1, h2] r hd rfl (by omega)
  rw [loop_esc_unfold buffer i out 120 _ h]
  rw [if_neg (by decide), if_pos rfl, if_pos hn, hx]

theorem loop_hex_short (buffer : Txt) (i : Nat) (out : List Int) (r : Txt)
    (h : buffer.drop i = bsl :: 120 :: r) (hr : r.length < 2) :
    decodeLoop buffer i out = .error .valueError := by
  have hl : ¬ (i + 2 + 2 ≤ buffer.length) := by
    have := congrArg List.length h
    simp at this; omega
  rw [loop_esc_unfold buffer i out 120 _ h]
  rw [if_neg (by decide), if_pos rfl, if_neg (by simp [hasNext]; omega)]

theorem loop_uni (buffer : Txt) (i : Nat) (out : List Int) (a b h1 h2 : UInt8) (r : Txt)
    (h : buffer.drop i = bsl :: 117 :: a :: b :: h1 :: h2 :: r) :
    decodeLoop buffer i out =
      match pyIntHex [h1, h2] with
      | .error e => .error e
      | .ok v => decodeLoop buffer (i + 6) (out ++ [v]) := by
  have hd : buffer.drop (i + 2) = [a, b, h1, h2] ++ r := by
    have := congrArg (List.drop 2) h
    simpa [List.drop_drop, Nat.add_comm] using this
  have hd2 : buffer.drop (i + 2) = [a, b] ++ (h1 :: h2 :: r) := by simpa using hd
  have hd4 : buffer.drop (i + 2 + 2) = [h1, h2] ++ r := by
    have := congrArg (List.drop 4) h
    rw [List.drop_drop] at this
    simpa using this
  obtain ⟨hn4, _⟩ := nextN_of_drop buffer (i + 2) 4 _ r hd rfl (by omega)
  obtain ⟨_, hx2⟩ := nextN_of_drop buffer (i + 2) 2 _ _ hd2 rfl (by omega)
  obtain ⟨_, hx4⟩ := nextN_of_drop buffer (i + 2 + 2) 2 _ r hd4 rfl (by omega)
  rw [loop_esc_unfold buffer i out 117 _ h]
  rw [if_pos rfl, if_pos hn4, hx2]
  simp only [hx4]

theorem loop_uni_short (buffer : Txt) (i : Nat) (out : List Int) (r : Txt)
    (h : buffer.drop i = bsl :: 117 :: r) (hr : r.length < 4) :
    decodeLoop buffer i out = .error .valueError := by
  have hl : ¬ (i + 2 + 4 ≤ buffer.length) := by
    have := congrArg List.length h
    simp at this; omega
  rw [loop_esc_unfold buffer i out 117 _ h]
  rw [if_pos rfl, if_neg (by simp [hasNext]; omega)]

theorem loop_simple (buffer : Txt) (i : Nat) (out : List Int) (x : UInt8) (v : Int) (r : Txt)
    (h : buffer.drop i = bsl :: x :: r) (hv : simpleEsc x = some v) :
    decodeLoop buffer i out = decodeLoop buffer (i + 2) (out ++ [v]) := by
  have h117 : x ≠ 117 := by
    intro hx; subst hx
    have : simpleEsc 117 = none := by decide
    rw [this] at hv; cases hv
  have h120 : x ≠ 120 := by
    intro hx; subst hx
    have : simpleEsc 120 = none := by decide
    rw [this] at hv; cases hv
  rw [loop_esc_unfold buffer i out x _ h, if_neg h117, if_neg h120, hv]

theorem loop_unknown (buffer : Txt) (i : Nat) (out : List Int) (x : UInt8) (r : Txt)
    (h : buffer.drop i = bsl :: x :: r) (h117 : x ≠ 117) (h120 : x ≠ 120) (hv : simpleEsc x = none) :
    decodeLoop buffer i out = decodeLoop buffer (i + 2) out := by
  rw [loop_esc_unfold buffer i out x _ h, if_neg h117, if_neg h120, hv]

/-! ### decoder: units of a literal body -/

/-- hexadecimal digit character of a nibble; `up` selects `A-F` instead of `a-f` -/
def hexChar (up : Bool) (x : Fin 16) : UInt8 :=
  if x.val < 10 then UInt8.ofNat (48 + x.val) else if up then UInt8.ofNat (55 + x.val) else UInt8.ofNat (87 + x.val)

/-- the units a literal body is made of, as far as the decoder gives them a meaning -/
inductive Esc
  | plain (c : UInt8)                                   -- any character other than a backslash
  | hex (x y : Fin 16) (ux uy : Bool)                   -- `\xHH`
  | uni (a b : UInt8) (x y : Fin 16) (ux uy : Bool)     -- `\uHHHH` (the first two characters are skipped unread)
  | nl | cr | tab | bslash | dquote | squote            -- `\n \r \t \\ \" \'`
  | unknown (c : UInt8)                                 -- backslash + any other character: dropped

def Esc.text : Esc → Txt
  | .plain c => [c]
  | .hex x y ux uy => [bsl, 120, hexChar ux x, hexChar uy y]
  | .uni a b x y ux uy => [bsl, 117, a, b, hexChar ux x, hexChar uy y]
  | .nl => [bsl, 110]
  | .cr => [bsl, 114]
  | .tab => [bsl, 116]
  | .bslash => [bsl, bsl]
  | .dquote => [bsl, dq]
  | .squote => [bsl, sq]
  | .unknown c => [bsl, c]

/-- decoded bytes of a unit -/
def Esc.vals : Esc → Bytes
  | .plain c => [c]
  | .hex x y _ _ => [UInt8.ofNat (16 * x.val + y.val)]
  | .uni _ _ x y _ _ => [UInt8.ofNat (16 * x.val + y.val)]
  | .nl => [10]
  | .cr => [13]
  | .tab => [9]
  | .bslash => [0x5c]
  | .dquote => [0x22]
  | .squote => [0x27]
  | .unknown _ => []

/-- side conditions: a plain character is not a backslash; an unknown escape is none of the known ones -/
def Esc.WF : Esc → Prop
  | .plain c => c ≠ bsl
  | .unknown c => c ≠ 117 ∧ c ≠ 120 ∧ simpleEsc c = none
  | _ => True

def intsOf (bs : Bytes) : List Int := bs.map fun b => (b.toNat : Int)

theorem pyIntHex_hexChar (x y : Fin 16) (ux uy : Bool) :
    pyIntHex [hexChar ux x, hexChar uy y] = .ok ((16 * x.val + y.val : Nat) : Int) := by
  revert x y ux uy
  decide

theorem toNat_ofNat_nibbles (x y : Fin 16) : ((UInt8.ofNat (16 * x.val + y.val)).toNat : Int) = ((16 * x.val + y.val : Nat) : Int) := by
  revert x y
  decide

theorem loop_unit (buffer : Txt) (i : Nat) (out : List Int) (e : Esc) (hwf : e.WF) (t : Txt)
    (h : buffer.drop i = e.text ++ t) :
    decodeLoop buffer i out = decodeLoop buffer (i + e.text.length) (out ++ intsOf e.vals) := by
  cases e with
  | plain c => exact loop_plain buffer i out c t h hwf
  | hex x y ux uy =>
    rw [loop_hex buffer i out _ _ t h, pyIntHex_hexChar]
    show _ = decodeLoop buffer (i + 4) (out ++ [((UInt8.ofNat (16 * x.val + y.val)).toNat : Int)])
    rw [toNat_ofNat_nibbles]
  | uni a b x y ux uy =>
    rw [loop_uni buffer i out a b _ _ t h, pyIntHex_hexChar]
    show _ = decodeLoop buffer (i + 6) (out ++ [((UInt8.ofNat (16 * x.val + y.val)).toNat : Int)])
    rw [toNat_ofNat_nibbles]
  | nl => exact loop_simple buffer i out _ _ t h (by decide)
  | cr => exact loop_simple buffer i out _ _ t h (by decide)
  | tab => exact loop_simple buffer i out _ _ t h (by decide)
  | bslash => exact loop_simple buffer i out _ _ t h (by decide)
  | dquote => exact loop_simple buffer i out _ _ t h (by decide)
  | squote => exact loop_simple buffer i out _ _ t h (by decide)
  | unknown c =>
    rw [loop_unknown buffer i out c t h hwf.1 hwf.2.1 hwf.2.2]
    simp [Esc.text, Esc.vals, intsOf]

theorem loop_units (us : List Esc) (hwf : ∀ e ∈ us, e.WF) :
    ∀ (p post : Txt) (out : List Int),
      decodeLoop (p ++ us.flatMap Esc.text ++ post) p.length out =
        decodeLoop (p ++ us.flatMap Esc.text ++ post) (p.length + (us.flatMap Esc.text).length)
          (out ++ intsOf (us.flatMap Esc.vals)) := by
  induction us with
  | nil => intro p post out; simp [intsOf]
  | cons e es ih =>
    intro p post out
    have hd : (p ++ (e :: es).flatMap Esc.text ++ post).drop p.length = e.text ++ (es.flatMap Esc.text ++ post) := by
      simp [List.append_assoc]
    rw [loop_unit _ _ out e (hwf e (by simp)) _ hd]
    have hb : p ++ (e :: es).flatMap Esc.text ++ post = (p ++ e.text) ++ es.flatMap Esc.text ++ post := by
      simp [List.append_assoc]
    rw [hb]
    have := ih (fun e' he' => hwf e' (by simp [he'])) (p ++ e.text) post (out ++ intsOf e.vals)
    simp only [List.length_append] at this
    rw [this]
    simp [intsOf, List.append_assoc, Nat.add_assoc]

theorem mask_id (b : UInt8) : b &&& 0xFF = b := by
  revert b
  apply forall_byte
  decide +kernel

theorem maskBuffer_id (t : Txt) : maskBuffer t = t := by
  simp [maskBuffer, mask_id]

theorem pyBytes_intsOf (bs : Bytes) : pyBytes (intsOf bs) = .ok bs := by
  induction bs with
  | nil => rfl
  | cons b bs ih =>
    have h1 : (0 : Int) ≤ (b.toNat : Int) ∧ (b.toNat : Int) < 256 := by
      have := b.toNat_lt; omega
    simp only [intsOf, List.map_cons] at ih ⊢
    rw [pyBytes, if_pos h1, ih]
    simp

theorem token_slice (t : Txt) : pySliceTo (pySliceFrom (dq :: (t ++ [dq])) 1) (some (-1)) = t := by
  simp [pySliceTo, pySliceFrom]

theorem stringTokenToBytes_quoted (t : Txt) :
    stringTokenToBytes (dq :: (t ++ [dq])) =
      match decodeLoop t 0 [] with
      | .error e => .error e
      | .ok out => pyBytes out := by
  unfold stringTokenToBytes
  simp only [token_slice, maskBuffer_id]
  rfl

theorem decode_units_post (us : List Esc) (hwf : ∀ e ∈ us, e.WF) (post : Txt) :
    decodeLoop (us.flatMap Esc.text ++ post) 0 [] =
      decodeLoop (us.flatMap Esc.text ++ post) (us.flatMap Esc.text).length (intsOf (us.flatMap Esc.vals)) := by
  have := loop_units us hwf [] post []
  simpa using this

theorem decode_units_eq (us : List Esc) (hwf : ∀ e ∈ us, e.WF) :
    stringTokenToBytes (dq :: (us.flatMap Esc.text ++ [dq])) = .ok (us.flatMap Esc.vals) := by
  rw [stringTokenToBytes_quoted]
  have := decode_units_post us hwf []
  simp only [List.append_nil] at this
  rw [this, loop_end _ _ _ (by simp)]
  exact pyBytes_intsOf _

instance (e : Esc) : Decidable e.WF := by
  cases e <;> unfold Esc.WF <;> infer_instance

/-- the unit `value_to_string` emits for a byte -/
def escOf (b : UInt8) : Esc :=
  if b = dq then .dquote
  else if b = bsl then .bslash
  else if b = sq then .plain sq
  else if b = 9 then .tab
  else if b = 10 then .nl
  else if b = 13 then .cr
  else if b < 0x20 ∨ b ≥ 0x7f then .hex (Fin.ofNat 16 (b.toNat / 16)) (Fin.ofNat 16 (b.toNat % 16)) false false
  else .plain b

theorem escOf_spec (b : UInt8) : escUnit b = (escOf b).text ∧ (escOf b).vals = [b] ∧ (escOf b).WF := by
  revert b
  apply forall_byte
  decide +kernel

theorem flatMap_escUnit (bs : Bytes) : bs.flatMap escUnit = (bs.map escOf).flatMap Esc.text := by
  induction bs with
  | nil => rfl
  | cons b bs ih => simp only [List.flatMap_cons, List.map_cons, ih, (escOf_spec b).1]

theorem flatMap_escOf_vals (bs : Bytes) : (bs.map escOf).flatMap Esc.vals = bs := by
  induction bs with
  | nil => rfl
  | cons b bs ih => simp only [List.flatMap_cons, List.map_cons, ih, (escOf_spec b).2.1]; rfl

theorem roundtrip (bs : Bytes) : stringTokenToBytes (valueToString bs) = .ok bs := by
  rw [valueToString_eq, flatMap_escUnit, decode_units_eq _ (by
    intro e he
    obtain ⟨b, _, rfl⟩ := List.mem_map.1 he
    exact (escOf_spec b).2.2), flatMap_escOf_vals]

/-! ### `scanString` is the literal (backtracking) reading of the regex -/

/-- the lazy `(.|\n)*?` takes one more character -/
def rxAdv : Txt → Option Nat
  | [] => none
  | c :: t => (rxBody c t).map (· + 1)

/-- `(\\\\)*?"` continued in the middle of a backslash pair -/
def rxMid : Txt → Option Nat
  | [] => none
  | c :: r => if c = bsl then (rxPairsQuote r).map (· + 1) else none

def splitAt' (s : Txt) (o : Option Nat) : Option (Txt × Txt) := o.map fun n => (s.take n, s.drop n)

theorem rxBody_eq (prev : UInt8) (s : Txt) :
    rxBody prev s = if prev ≠ bsl then (rxPairsQuote s).or (rxAdv s) else rxAdv s := by
  cases s with
  | nil => simp [rxBody, rxAdv, rxPairsQuote]
  | cons c cs =>
    rw [rxBody]
    by_cases hp : prev = bsl
    · simp [hp, rxAdv]
    · simp only [ne_eq, hp, not_false_eq_true, if_true, rxAdv]
      cases rxPairsQuote (c :: cs) <;> simp

theorem rxPairsQuote_cons (c : UInt8) (t : Txt) :
    rxPairsQuote (c :: t) = if c = dq then some 1 else if c = bsl then (rxMid t).map (· + 1) else none := by
  cases t with
  | nil => simp [rxPairsQuote, rxMid]
  | cons d r =>
    simp only [rxPairsQuote, rxMid]
    by_cases h1 : c = dq
    · simp [h1]
    · by_cases h2 : c = bsl
      · by_cases h3 : d = bsl
        · simp [h2, h3, Option.map_map, Function.comp_def]
        · simp [h2, h3]
      · simp [h1, h2]

theorem splitAt'_succ (c : UInt8) (t : Txt) (o : Option Nat) :
    splitAt' (c :: t) (o.map (· + 1)) = pre [c] (splitAt' t o) := by
  cases o <;> simp [splitAt', pre]

theorem scanBody_rx (s : Txt) :
    scanBody s true = splitAt' s ((rxPairsQuote s).or (rxAdv s)) ∧
    scanBody s false = splitAt' s ((rxMid s).or (rxAdv s)) := by
  induction s with
  | nil => simp [scanBody, splitAt', rxPairsQuote, rxAdv, rxMid]
  | cons c t ih =>
    obtain ⟨ihE, ihO⟩ := ih
    have hadv : rxAdv (c :: t) = (if c ≠ bsl then (rxPairsQuote t).or (rxAdv t) else rxAdv t).map (· + 1) := by
      rw [rxAdv, rxBody_eq]
    constructor
    · rw [scanBody, rxPairsQuote_cons, hadv]
      by_cases h1 : c = dq
      · subst h1; simp [splitAt']
      · by_cases h2 : c = bsl
        · subst h2
          simp only [h1, false_and, if_false, if_true, Bool.not_true, ne_eq, not_true_eq_false]
          rw [ihO, ← Option.map_or, splitAt'_succ]; rfl
        · simp only [h1, false_and, if_false, h2, ne_eq, not_false_eq_true, if_true, Option.none_or]
          rw [ihE, splitAt'_succ]; rfl
    · rw [scanBody, hadv]
      have hs : (if c = bsl then !false else true) = true := by split <;> rfl
      simp only [Bool.false_eq_true, and_false, if_false, hs, ihE]
      by_cases h2 : c = bsl
      · subst h2
        simp only [rxMid, if_true, ne_eq, not_true_eq_false, if_false]
        rw [← Option.map_or, splitAt'_succ]; rfl
      · simp only [rxMid, h2, if_false, ne_eq, not_false_eq_true, if_true, Option.none_or]
        rw [splitAt'_succ]; rfl

theorem scanString_eq_rxMatch' (t : Txt) : scanString t = rxMatch t := by
  cases t with
  | nil => rfl
  | cons c cs =>
    simp only [scanString, rxMatch]
    split
    · rename_i h; subst h
      rw [(scanBody_rx cs).1, rxBody_eq, if_pos (by decide)]
      cases (rxPairsQuote cs).or (rxAdv cs) <;> simp [splitAt']
    · rfl

/-! ### further decoder facts -/

theorem decode_trailing_backslash_eq (us : List Esc) (hwf : ∀ e ∈ us, e.WF) :
    stringTokenToBytes (dq :: (us.flatMap Esc.text ++ [bsl] ++ [dq])) = .ok (us.flatMap Esc.vals ++ [0x5c]) := by
  rw [stringTokenToBytes_quoted, decode_units_post us hwf [bsl]]
  rw [loop_trailing _ _ _ (by simp), loop_end _ _ _ (by simp)]
  have : intsOf (us.flatMap Esc.vals) ++ [(0x5c : Int)] = intsOf (us.flatMap Esc.vals ++ [0x5c]) := by
    simp [intsOf]
  rw [this]
  exact pyBytes_intsOf _

theorem decode_truncated_hex_eq (us : List Esc) (hwf : ∀ e ∈ us, e.WF) (r : Txt) (hr : r.length < 2) :
    stringTokenToBytes (dq :: (us.flatMap Esc.text ++ bsl :: 120 :: r ++ [dq])) = .error .valueError := by
  rw [stringTokenToBytes_quoted, decode_units_post us hwf (bsl :: 120 :: r)]
  rw [loop_hex_short _ _ _ r (by simp) hr]

theorem decode_truncated_uni_eq (us : List Esc) (hwf : ∀ e ∈ us, e.WF) (r : Txt) (hr : r.length < 4) :
    stringTokenToBytes (dq :: (us.flatMap Esc.text ++ bsl :: 117 :: r ++ [dq])) = .error .valueError := by
  rw [stringTokenToBytes_quoted, decode_units_post us hwf (bsl :: 117 :: r)]
  rw [loop_uni_short _ _ _ r (by simp) hr]

theorem ofNat_mask_toNat (b : UInt8) : UInt8.ofNat (b.toNat &&& 0xFF) = b := by
  revert b
  apply forall_byte
  decide +kernel

theorem cp_latin1 (t : Txt) : stringTokenToBytesCP (t.map (·.toNat)) = stringTokenToBytes t := by
  unfold stringTokenToBytesCP stringTokenToBytes
  have hs : pySliceTo (pySliceFrom (t.map (·.toNat)) 1) (some (-1)) =
      (pySliceTo (pySliceFrom t 1) (some (-1))).map (·.toNat) := by
    simp [pySliceTo, pySliceFrom, List.map_take]
  simp only [hs, List.map_map, maskBuffer_id]
  have : ((fun c => UInt8.ofNat (c &&& 0xFF)) ∘ fun (x : UInt8) => x.toNat) = id := by
    funext b; exact ofNat_mask_toNat b
  rw [this, List.map_id]

theorem escUnit_printable (b : UInt8) : ∀ c ∈ escUnit b, 0x20 ≤ c ∧ c < 0x7f := by
  revert b
  apply forall_byte
  decide +kernel

theorem valueToString_printable' (bs : Bytes) : ∀ c ∈ valueToString bs, 0x20 ≤ c ∧ c < 0x7f := by
  rw [valueToString_eq]
  intro c hc
  simp only [List.mem_cons, List.mem_append, List.mem_flatMap, List.not_mem_nil, or_false] at hc
  rcases hc with rfl | ⟨b, _, hb⟩ | rfl
  · decide
  · exact escUnit_printable b c hb
  · decide

end C12

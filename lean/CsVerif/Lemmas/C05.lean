import CsVerif.Model.C05
import CsVerif.Lemmas.C20
/-! Helper lemmas for C05 (framing arithmetic, unfolding equations of the packet loop, the toy instance). -/
namespace C05
open C20

theorem readU32be_ofBytes (data : Bytes) :
    readU32be (PyFile.ofBytes data) =
      if data.length < 4 then .error .eofError
      else .ok (fromBytesU .big (data.take 4), { data := data, pos := 4 }) := by
  unfold readU32be
  have e : (PyFile.ofBytes data).read 4 = (data.take 4, { data := data, pos := (data.take 4).length }) := by
    simp [PyFile.read, PyFile.ofBytes]
  rw [e]
  simp only [List.length_take]
  by_cases h : data.length < 4
  · rw [if_pos (by omega), if_pos h]
  · rw [if_neg (by omega), if_neg h]
    have : min 4 data.length = 4 := by omega
    rw [this]

/-- list-level description of one loop iteration -/
theorem iterClientStep_eq (data : Bytes) :
    iterClientStep data =
      if data.length < 4 then .error .eofError
      else
        let size := fromBytesU .big (data.take 4)
        let body := data.drop 4
        if size < 16 then .ok (⟨body, []⟩, [])
        else .ok (⟨body.take (size - 16), (body.drop (size - 16)).take 16⟩, body.drop size) := by
  unfold iterClientStep
  rw [readU32be_ofBytes]
  by_cases h : data.length < 4
  · simp only [if_pos h]
  · simp only [if_neg h]
    generalize fromBytesU .big (data.take 4) = size
    by_cases hs : size < 16
    · simp only [if_pos hs]
      have hneg : ((size : Nat) : Int) - 16 < 0 := by omega
      simp only [PyFile.read, PyFile.readAll, if_pos hneg]
      simp
      omega
    · simp only [if_neg hs]
      have hneg : ¬ (((size : Nat) : Int) - 16 < 0) := by omega
      have htn : (((size : Nat) : Int) - 16).toNat = size - 16 := by omega
      simp only [PyFile.read, PyFile.readAll, if_neg hneg, htn]
      by_cases hle : size - 16 ≤ data.length - 4
      · have hm : min (size - 16) (data.length - 4) = size - 16 := by omega
        simp [hm]
        omega
      · have hm : min (size - 16) (data.length - 4) = data.length - 4 := by omega
        simp [hm]
        refine ⟨?_, by omega⟩
        rw [List.drop_eq_nil_of_le (by omega), List.drop_eq_nil_of_le (by omega)]

/-! unfolding equations of the loop -/

theorem iterClientPackets_nil : iterClientPackets [] = ([], none) := by
  rw [iterClientPackets]; rfl

theorem iterClientPackets_error {data : Bytes} {e : PyExc} (hne : data ≠ [])
    (h : iterClientStep data = .error e) : iterClientPackets data = ([], some e) := by
  rw [iterClientPackets]
  have : data.isEmpty = false := by cases data <;> simp_all
  simp only [this, Bool.false_eq_true, ↓reduceIte]
  split
  · rename_i e' h'; rw [h] at h'; cases h'; rfl
  · rename_i p rest h'; rw [h] at h'; cases h'

theorem iterClientPackets_ok {data : Bytes} {p : Packet} {rest : Bytes} (hne : data ≠ [])
    (h : iterClientStep data = .ok (p, rest)) :
    iterClientPackets data = (p :: (iterClientPackets rest).1, (iterClientPackets rest).2) := by
  rw [iterClientPackets]
  have : data.isEmpty = false := by cases data <;> simp_all
  simp only [this, Bool.false_eq_true, ↓reduceIte]
  split
  · rename_i e' h'; rw [h] at h'; cases h'
  · rename_i p' rest' h'; rw [h] at h'; cases h'; rfl

/-! frame header -/

theorem p32be_ok (n : Nat) (h : n < 2 ^ 32) : p32be n = .ok (toBytesU .big 4 n) := by
  unfold p32be pack toBytes
  simp only [Bool.false_eq_true, ↓reduceIte]
  rw [if_pos (by constructor <;> omega)]
  simp

theorem p32be_overflow (n : Nat) (h : 2 ^ 32 ≤ n) : p32be n = .error .overflowError := by
  unfold p32be pack toBytes
  simp only [Bool.false_eq_true, ↓reduceIte]
  rw [if_neg (by omega)]

theorem dumps_ok (p : Packet) (h : p.ciphertext.length + p.signature.length < 2 ^ 32) :
    dumps p = .ok (toBytesU .big 4 (p.ciphertext.length + p.signature.length) ++ (p.ciphertext ++ p.signature)) := by
  unfold dumps
  rw [List.length_append, p32be_ok _ h]
  rfl

/-- one well-formed frame followed by anything is split off exactly -/
theorem iterClientStep_frame (ct sig more : Bytes) (hs : sig.length = 16) (hl : ct.length + 16 < 2 ^ 32) :
    iterClientStep (toBytesU .big 4 (ct.length + 16) ++ (ct ++ sig) ++ more) = .ok (⟨ct, sig⟩, more) := by
  rw [iterClientStep_eq]
  have hh : (toBytesU .big 4 (ct.length + 16)).length = 4 := toBytesU_length _ _ _
  rw [if_neg (by simp only [List.length_append, hh]; omega)]
  have ht : (toBytesU .big 4 (ct.length + 16) ++ (ct ++ sig) ++ more).take 4 = toBytesU .big 4 (ct.length + 16) := by
    rw [List.append_assoc, List.take_left' hh]
  have hd : (toBytesU .big 4 (ct.length + 16) ++ (ct ++ sig) ++ more).drop 4 = ct ++ sig ++ more := by
    rw [List.append_assoc, List.drop_left' hh]
  simp only [ht, hd]
  rw [fromBytesU_toBytesU _ _ _ (by omega)]
  rw [if_neg (by omega)]
  have h1 : (ct ++ sig ++ more).take (ct.length + 16 - 16) = ct := by
    rw [List.append_assoc, Nat.add_sub_cancel, List.take_left' rfl]
  have h2 : ((ct ++ sig ++ more).drop (ct.length + 16 - 16)).take 16 = sig := by
    rw [List.append_assoc, Nat.add_sub_cancel, List.drop_left' rfl, List.take_left' hs]
  have h3 : (ct ++ sig ++ more).drop (ct.length + 16) = more := by
    rw [List.drop_left' (by simp [hs])]
  rw [h1, h2, h3]

/-! padding -/

theorem padTo_length (bs : Nat) (d : Bytes) :
    (padTo bs d).length = d.length + (bs - d.length % bs) := by
  simp [padTo]

theorem pad_length_mod (d : Bytes) : (pad d).length % 16 = 0 := by
  rw [pad, padTo_length]; omega

/-! acceptance predicate -/

/-- The packet is accepted by `decrypt_packet(..., verify=True)`: an HMAC key is present, not empty,
and the first 16 bytes of the MAC over the ciphertext equal the signature. -/
def Verifies (c : Crypto) (p : Packet) : Option Bytes → Prop
  | none => False
  | some k => k ≠ [] ∧ mac16 c k p.ciphertext = p.signature

instance (c : Crypto) (p : Packet) (hk : Option Bytes) : Decidable (Verifies c p hk) := by
  cases hk <;> unfold Verifies <;> infer_instance

theorem decryptPacketT_verify (c : Crypto) (p : Packet) (ak hk : Option Bytes) (iv : Bytes) :
    decryptPacketT c p ak hk iv true =
      match hk with
      | none => (.error .valueError, [])
      | some k =>
        if k = [] then (.error .valueError, [])
        else if mac16 c k p.ciphertext = p.signature then
          ((decryptDataT c p.ciphertext ak iv).1, Call.hmac k p.ciphertext :: (decryptDataT c p.ciphertext ak iv).2)
        else (.error .valueError, [Call.hmac k p.ciphertext]) := by
  unfold decryptPacketT
  simp only [↓reduceIte]
  cases hk with
  | none => rfl
  | some k =>
    cases k with
    | nil => rfl
    | cons b bs =>
      simp only [raiseForSignatureT, reduceCtorEq, ↓reduceIte, ne_eq]
      by_cases hm : mac16 c (b :: bs) p.ciphertext = p.signature
      · simp [hm]
      · simp [hm]

/-! the toy instance satisfies the laws -/

theorem toy_laws : CryptoLaws toyCrypto where
  dec_enc k iv p h := by
    refine ⟨C20.xor p (k ++ iv), ?_, ?_, ?_⟩
    · simp [toyCrypto, h]
    · unfold C20.xor; split <;> simp [xorCore_length]
    · have hl : (C20.xor p (k ++ iv)).length = p.length := by
        unfold C20.xor; split <;> simp [xorCore_length]
      have h' : AesArgsOk k iv (C20.xor p (k ++ iv)) := ⟨h.1, h.2.1, by rw [hl]; exact h.2.2⟩
      simp only [toyCrypto, h', ↓reduceIte]
      congr 1
      unfold C20.xor
      split
      · rfl
      · exact xorCore_involutive _ _
  dec_total k iv ct h := by
    refine ⟨C20.xor ct (k ++ iv), by simp [toyCrypto, h], ?_⟩
    unfold C20.xor; split <;> simp [xorCore_length]
  enc_raises k iv p h := by simp [toyCrypto, h]
  dec_raises k iv p h := by simp [toyCrypto, h]
  hmac_len k m := by simp [toyCrypto]; omega

end C05

import CsVerif.Model.C04Gen
import CsVerif.Lemmas.C04
import CsVerif.Props.C20Gen
import Mathlib.Tactic.SplitIfs
/-! Helper lemmas for Props/C04Gen.lean: the operations of `PyU` (run-time library of the untyped translator) against the
primitives of the C04 model, and the definitions of `Gen/PyC2T.lean` translated from `HttpDataTransform.__init__ / transform /
recover` against `C04.mkTransform / transform / recover`.  No property statements. -/
namespace C04Gen
open PyU C04
set_option linter.unusedSimpArgs false
set_option linter.style.nameCheck false

/-! ### monad plumbing -/
theorem pure_ok {α : Type} (a : α) : (pure a : Py α) = .ok a := rfl
theorem pureA_ok {α : Type} (a : α) : (pure a : PyA α) = .ok a := rfl
/-- (not a `rfl`-lemma on purpose: `simp` must build a proof by congruence instead of leaving the kernel a definitional
equality between two big terms to check, which it would decide by evaluating the `if`s) -/
theorem okA_bind {α β : Type} (a : α) (f : α → PyA β) : (Except.ok a >>= f) = f a := id rfl
theorem errA_bind {α β : Type} (e : ExcA) (f : α → PyA β) : ((Except.error e : PyA α) >>= f) = .error e := rfl
theorem lift_ok {α : Type} (a : α) : (liftM (Except.ok a : Py α) : PyA α) = .ok a := id rfl
theorem lift_err {α : Type} (e : PyExc) : (liftM (Except.error e : Py α) : PyA α) = .error (.py e) := rfl
theorem throwA {α : Type} (e : ExcA) : (throw e : PyA α) = .error e := rfl

/-! ### dict[bytes, bytes] -/

theorem findKey_enc (d : Dict) (k : Bytes) :
    findKey (.bytes k) (d.map fun p => V.bytes p.1) (d.map fun p => V.bytes p.2) = (d.get k).map V.bytes := by
  induction d with
  | nil => rfl
  | cons p rest ih =>
    obtain ⟨k', v'⟩ := p
    simp only [List.map_cons, findKey, keyEq, PyU.eq, Bool.and_true, Dict.get]
    by_cases h : k' = k
    · subst h; simp
    · have h1 : (k == k') = false := by simpa using fun e => h e.symm
      simp only [h1, Bool.false_eq_true, if_false, h, ih]

theorem setItem_enc (d : Dict) (k v : Bytes) :
    setItem (encDict d) (.bytes k) (.bytes v) = .ok (encDict (d.set k v)) := by
  simp only [setItem, encDict, hashable, if_true, dictInsert, findKey_enc]
  induction d with
  | nil => rfl
  | cons p rest ih =>
    obtain ⟨k', v'⟩ := p
    by_cases h : k' = k
    · subst h; simp [Dict.get, Dict.set, setKey, keyEq, PyU.eq]
    · have h1 : (k == k') = false := by simpa using fun e => h e.symm
      simp only [Dict.get, h, if_false, Dict.set, List.map_cons, setKey, keyEq, PyU.eq, h1, Bool.false_and, Bool.false_eq_true]
      cases hg : Dict.get rest k with
      | none =>
        simp only [hg, Option.map_none] at ih ⊢
        simp only [Except.ok.injEq, V.dict.injEq] at ih
        simp only [List.cons_append, ih.1, ih.2]
      | some w =>
        simp only [hg, Option.map_some] at ih ⊢
        simp only [Except.ok.injEq, V.dict.injEq] at ih
        rw [ih.2, ← ih.1]

theorem getItem_enc (d : Dict) (k : Bytes) :
    getItem (encDict d) (.bytes k) = match d.get k with | some v => .ok (.bytes v) | none => .error .keyError := by
  simp only [getItem, encDict, hashable, if_true, findKey_enc]
  cases d.get k <;> rfl

theorem mkDict_nil : mkDict [] = .ok (encDict []) := rfl

/-! ### bytes helpers -/

theorem partition_eq (sep d : Bytes) :
    C04.partition sep d = match splitAt? sep d with | some p => p | none => (d, []) := by
  induction d with
  | nil => rfl
  | cons c cs ih =>
    simp only [C04.partition, splitAt?]
    by_cases h : sep.isPrefixOf (c :: cs) = true
    · simp only [h, if_true]
    · simp only [h, Bool.false_eq_true, if_false, ih]
      cases splitAt? sep cs <;> rfl

theorem partition_bytes (sep d : Bytes) (h : sep ≠ []) :
    ∃ m, PyU.partition (.bytes d) (.bytes sep)
      = .ok (.tuple [.bytes (C04.partition sep d).1, m, .bytes (C04.partition sep d).2]) := by
  have hs : sep.isEmpty = false := by cases sep with | nil => exact absurd rfl h | cons _ _ => rfl
  simp only [PyU.partition, hs, Bool.false_eq_true, if_false, partition_eq]
  cases splitAt? sep d with
  | none => exact ⟨_, rfl⟩
  | some p => exact ⟨_, rfl⟩

theorem lowByte_eq (b : UInt8) : PyU.lowByte b = C04.lowerByte b := by
  simp only [PyU.lowByte, C04.lowerByte, UInt8.le_iff_toNat_le]; rfl

theorem upByte_eq (b : UInt8) : PyU.upByte b = C04.upperByte b := by
  simp only [PyU.upByte, C04.upperByte, UInt8.le_iff_toNat_le]; rfl

theorem lower_bytes (s : Bytes) : PyU.lower (.bytes s) = .ok (.bytes (C04.lower s)) := by
  simp only [PyU.lower, C04.lower, funext lowByte_eq]

theorem upper_bytes (s : Bytes) : PyU.upper (.bytes s) = .ok (.bytes (C04.upper s)) := by
  simp only [PyU.upper, C04.upper, funext upByte_eq]

theorem lower_str (name : PyRt.Str) (h : name.all (· < 128) = true) :
    PyU.lower (.str name) = .ok (.str (name.map lowCp)) := by
  simp only [PyU.lower, h, if_true]

theorem replicate_flatten {α : Type} (k : Nat) (x : α) : (List.replicate k [x]).flatten = List.replicate k x := by
  induction k with
  | zero => rfl
  | succ k ih => simp only [List.replicate_succ, List.flatten_cons, ih, List.singleton_append]

/-! ### the lifted typed translations of utils.py -/

theorem netbios_encode_bytes (d : Bytes) :
    Gen.PyC2T.netbios_encode (.bytes d) = (C20.netbiosEncode d 65).map .bytes := by
  simp only [Gen.PyC2T.netbios_encode, liftBytes1, C20Gen.gen_netbios_encode]

theorem netbios_decode_bytes (d : Bytes) :
    Gen.PyC2T.netbios_decode (.bytes d) = (C20.netbiosDecode d 65).map .bytes := by
  simp only [Gen.PyC2T.netbios_decode, liftBytes1, C20Gen.gen_netbios_decode]

theorem xor_bytes (d k : Bytes) : Gen.PyC2T.xor (.bytes d) (.bytes k) = .ok (.bytes (C20.xor d k)) := by
  simp only [Gen.PyC2T.xor, liftBytes2, C20Gen.gen_xor, Except.map]

theorem toLE4 (v : Nat) :
    C20.toLE 4 v = [UInt8.ofNat (v % 256), UInt8.ofNat (v / 256 % 256), UInt8.ofNat (v / 256 / 256 % 256),
      UInt8.ofNat (v / 256 / 256 / 256 % 256)] := rfl

theorem p32be_int (u : UInt32) : Gen.PyC2T.p32be (.int u.toNat) = .ok (.bytes (C04.p32be u)) := by
  have hlt : u.toNat < 4294967296 := u.toNat_lt
  simp only [Gen.PyC2T.p32be, liftIntBytes, asInt, C20Gen.gen_p32be, C20.pack, C20.toBytes, Bool.false_eq_true, if_false]
  rw [if_pos (by constructor <;> omega)]
  simp only [Except.map, C20.toBytesU, Int.toNat_natCast, toLE4, C04.p32be, List.reverse_cons, List.reverse_nil,
    List.nil_append, List.cons_append, Nat.div_div_eq_div_mul]

/-! ### small facts about `PyU` operations -/

theorem unpack2_tuple (a b : V) : unpack2 (.tuple [a, b]) = .ok (a, b) := rfl
theorem unpack3_tuple (a b c : V) : unpack3 (.tuple [a, b, c]) = .ok (a, b, c) := rfl
theorem eq_str (a b : PyRt.Str) : PyU.eq (.str a) (.str b) = (a == b) := rfl

theorem bytesOf_some {v : V} {k : Bytes} (h : bytesOf v = some k) : v = .bytes k := by
  cases v <;> simp only [bytesOf, Option.some.injEq, reduceCtorEq] at h
  rw [h]

theorem stepOf_shape {v : V} {st : Step} (h : stepOf v = some st) :
    ∃ name val, v = .tuple [.str name, val] ∧ name.all (· < 128) = true := by
  unfold stepOf at h
  split at h
  · rename_i name val
    by_cases ha : name.all (· < 128) = true
    · exact ⟨name, val, rfl, ha⟩
    · simp [ha] at h
  · cases h

theorem getrandbitsX_int (rand : Rand) (t0 : Nat) :
    getrandbitsX rand (.int (t0 : Int)) (.int 32) = .ok (.int (rand t0).toNat) := by
  simp [getrandbitsX]

theorem next_int (t0 : Nat) : next (.int (t0 : Int)) = .int ((t0 + 1 : Nat) : Int) := by
  simp [next]

theorem add_bytes (a b : Bytes) : add (.bytes a) (.bytes b) = .ok (.bytes (a ++ b)) := rfl

/-! ### one iteration of the loop of `transform` -/

/-- the mask stream after `k` calls of `random.getrandbits` -/
def shift (rand : C04.Rand) (k : Nat) : C04.Rand := fun i => rand (i + k)

/-- the loop state of the translated `transform`: call counter, `uri`, `params`, `headers`, `body`, `data` -/
def encTSt (t0 : Nat) (s : C04.TSt) : V × V × V × V × V × V :=
  (.int t0, .bytes s.uri, encDict s.params, encDict s.headers, .bytes s.body, .bytes s.data)

/-- calls of `random.getrandbits` one step makes -/
def masks : Step → Nat
  | .enc .mask => 1
  | _ => 0

def encTRes (t0 : Nat) : R TSt → PyA (Ctl × (V × V × V × V × V × V))
  | .ok s' => .ok (.cont, encTSt t0 s')
  | .error e => .error (encExc e)

section TransformLoop
variable (rand : Rand) (cls : Cls) (c2 : C2Data) (name : PyRt.Str) (val : V) (t0 : Nat) (s : TSt)

local notation "LOOP" => Gen.PyC2T.transform_loop1 b64encodeX urlsafeB64encodeX (getrandbitsX rand) (encC2 cls c2)
  (V.tuple [V.str name, val]) (encTSt t0 s)

local macro "loop_norm" hl:ident : tactic => `(tactic| (
  unfold Gen.PyC2T.transform_loop1
  simp only [encTSt, unpack2_tuple, lift_ok, okA_bind, $hl:ident]
  simp only [eq_str, lit]
  simp (config := {decide := true}) only [if_true, if_false, Bool.or_false, Bool.or_true, Bool.true_or]))

theorem gen_transform_step_append (hl : PyU.lower (.str name) = .ok (.str (cps "append"))) (a : Arg) (ha : argOf val = some a) :
    LOOP = encTRes t0 (tstep c2 (.enc (.append a)) s) := by
  loop_norm hl
  cases val <;> simp only [argOf, asInt, Option.map_some, Option.map_none, Option.some.injEq, reduceCtorEq] at ha
  all_goals subst ha
  all_goals simp [isInstance, isInst1, mul, asInt, add, lift_ok, okA_bind, pureA_ok, tstep, encStep, Except.map, encTRes,
    encTSt, Arg.toBytes, replicate_flatten]

theorem gen_transform_step_prepend (hl : PyU.lower (.str name) = .ok (.str (cps "prepend"))) (a : Arg) (ha : argOf val = some a) :
    LOOP = encTRes t0 (tstep c2 (.enc (.prepend a)) s) := by
  loop_norm hl
  cases val <;> simp only [argOf, asInt, Option.map_some, Option.map_none, Option.some.injEq, reduceCtorEq] at ha
  all_goals subst ha
  all_goals simp [isInstance, isInst1, mul, asInt, add, lift_ok, okA_bind, pureA_ok, tstep, encStep, Except.map, encTRes,
    encTSt, Arg.toBytes, replicate_flatten]

theorem gen_transform_step_base64 (hl : PyU.lower (.str name) = .ok (.str (cps "base64"))) :
    LOOP = encTRes t0 (tstep c2 (.enc .base64) s) := by
  loop_norm hl
  simp [b64encodeX, bytesFn, lift_ok, okA_bind, pureA_ok, tstep, encStep, Except.map, encTRes, encTSt]

theorem gen_transform_step_base64url (hl : PyU.lower (.str name) = .ok (.str (cps "base64url"))) :
    LOOP = encTRes t0 (tstep c2 (.enc .base64url) s) := by
  loop_norm hl
  simp [urlsafeB64encodeX, bytesFn, lift_ok, okA_bind, pureA_ok, tstep, encStep, Except.map, encTRes, encTSt]

theorem gen_transform_step_netbios (hl : PyU.lower (.str name) = .ok (.str (cps "netbios"))) :
    LOOP = encTRes t0 (tstep c2 (.enc .netbios) s) := by
  loop_norm hl
  simp only [netbios_encode_bytes, tstep, encStep, liftPy]
  cases C20.netbiosEncode s.data 65 <;>
    simp [lift_ok, lift_err, okA_bind, errA_bind, pureA_ok, Except.map, lower_bytes, encExc, liftPy, encTRes, encTSt]

theorem gen_transform_step_netbiosu (hl : PyU.lower (.str name) = .ok (.str (cps "netbiosu"))) :
    LOOP = encTRes t0 (tstep c2 (.enc .netbiosu) s) := by
  loop_norm hl
  simp only [netbios_encode_bytes, tstep, encStep, liftPy]
  cases C20.netbiosEncode s.data 65 <;>
    simp [lift_ok, lift_err, okA_bind, errA_bind, pureA_ok, Except.map, upper_bytes, encExc, liftPy, encTRes, encTSt]

theorem gen_transform_step_mask (hl : PyU.lower (.str name) = .ok (.str (cps "mask"))) (hs : s.rand = shift rand t0) :
    LOOP = encTRes (t0 + 1) (tstep c2 (.enc .mask) s) := by
  loop_norm hl
  simp only [getrandbitsX_int, next_int, lift_ok, okA_bind, p32be_int, xor_bytes, add_bytes, pureA_ok, tstep, encStep, hs,
    shift, Except.map, encTRes, encTSt, Nat.zero_add, Rand.tail]

theorem gen_transform_step_print (hl : PyU.lower (.str name) = .ok (.str (cps "print"))) :
    LOOP = encTRes t0 (tstep c2 (.term .print) s) := by
  loop_norm hl
  simp [pureA_ok, tstep, encTRes, encTSt]

theorem gen_transform_step_header (hl : PyU.lower (.str name) = .ok (.str (cps "header"))) (k : Bytes) (hk : bytesOf val = some k) :
    LOOP = encTRes t0 (tstep c2 (.term (.header k)) s) := by
  obtain rfl := bytesOf_some hk
  loop_norm hl
  simp [isInstance, isInst1, setItem_enc, lift_ok, okA_bind, pureA_ok, tstep, encTRes, encTSt]

theorem gen_transform_step_uheader (hl : PyU.lower (.str name) = .ok (.str (cps "_header"))) (k : Bytes) (hk : bytesOf val = some k) :
    LOOP = encTRes t0 (tstep c2 (.static (.header k)) s) := by
  obtain rfl := bytesOf_some hk
  loop_norm hl
  obtain ⟨m, hm⟩ := partition_bytes [58, 32] k (by decide)
  simp [isInstance, isInst1, hm, unpack3_tuple, setItem_enc, lift_ok, okA_bind, pureA_ok, tstep, encTRes, encTSt]

theorem gen_transform_step_uhostheader (hl : PyU.lower (.str name) = .ok (.str (cps "_hostheader"))) (k : Bytes) (hk : bytesOf val = some k) :
    LOOP = encTRes t0 (tstep c2 (.static (.hostheader k)) s) := by
  obtain rfl := bytesOf_some hk
  loop_norm hl
  obtain ⟨m, hm⟩ := partition_bytes [58, 32] k (by decide)
  simp [isInstance, isInst1, hm, unpack3_tuple, setItem_enc, lift_ok, okA_bind, pureA_ok, tstep, encTRes, encTSt]

theorem gen_transform_step_uri_append (hl : PyU.lower (.str name) = .ok (.str (cps "uri_append"))) :
    LOOP = encTRes t0 (tstep c2 (.term .uriAppend) s) := by
  loop_norm hl
  simp [iadd, add, asInt, lift_ok, okA_bind, pureA_ok, tstep, encTRes, encTSt]

theorem gen_transform_step_parameter (hl : PyU.lower (.str name) = .ok (.str (cps "parameter"))) (k : Bytes) (hk : bytesOf val = some k) :
    LOOP = encTRes t0 (tstep c2 (.term (.parameter k)) s) := by
  obtain rfl := bytesOf_some hk
  loop_norm hl
  simp [isInstance, isInst1, setItem_enc, lift_ok, okA_bind, pureA_ok, tstep, encTRes, encTSt]

theorem gen_transform_step_uparameter (hl : PyU.lower (.str name) = .ok (.str (cps "_parameter"))) (k : Bytes) (hk : bytesOf val = some k) :
    LOOP = encTRes t0 (tstep c2 (.static (.parameter k)) s) := by
  obtain rfl := bytesOf_some hk
  loop_norm hl
  obtain ⟨m, hm⟩ := partition_bytes [61] k (by decide)
  simp [isInstance, isInst1, hm, unpack3_tuple, setItem_enc, lift_ok, okA_bind, pureA_ok, tstep, encTRes, encTSt]

theorem getAttr_c2 (hc : cls.fields = ["output", "metadata", "id"]) (f : Field) :
    getAttr (encC2 cls c2) (match f with | .output => "output" | .id => "id" | .metadata => "metadata")
      = .ok (encOB (c2.get f)) := by
  cases f <;> simp [getAttr, encC2, hc, lookupField, C2Data.get]

theorem eq_field (val : V) :
    PyU.eq val (.str (cps "output")) = (fieldOf val == some .output) ∧
    PyU.eq val (.str (cps "id")) = (fieldOf val == some .id) ∧
    PyU.eq val (.str (cps "metadata")) = (fieldOf val == some .metadata) := by
  cases val
  case str sv =>
    simp only [eq_str, fieldOf]
    by_cases h1 : sv = cps "output"
    · subst h1; decide
    by_cases h2 : sv = cps "id"
    · subst h2; decide
    by_cases h3 : sv = cps "metadata"
    · subst h3; decide
    simp [h1, h2, h3]
  all_goals exact ⟨rfl, rfl, rfl⟩

theorem gen_transform_step_build (hl : PyU.lower (.str name) = .ok (.str (cps "build"))) (hc : cls.fields = ["output", "metadata", "id"]) :
    LOOP = encTRes t0 (tstep c2 (.build (fieldOf val)) s) := by
  loop_norm hl
  have g1 := getAttr_c2 cls c2 hc .output
  have g2 := getAttr_c2 cls c2 hc .id
  have g3 := getAttr_c2 cls c2 hc .metadata
  simp only at g1 g2 g3
  obtain ⟨e1, e2, e3⟩ := eq_field val
  simp only [g1, g2, g3, e1, e2, e3, lift_ok, okA_bind]
  cases fieldOf val with
  | none => simp [pureA_ok, tstep, encTRes, encTSt]
  | some f =>
    cases f
    · cases ho : c2.output with
      | none => simp [pureA_ok, tstep, encTRes, encTSt, C2Data.get, ho, encOB, truthy]
      | some b => cases b <;> simp [pureA_ok, tstep, encTRes, encTSt, C2Data.get, ho, encOB, truthy]
    · cases ho : c2.id with
      | none => simp [pureA_ok, tstep, encTRes, encTSt, C2Data.get, ho, encOB, truthy]
      | some b => cases b <;> simp [pureA_ok, tstep, encTRes, encTSt, C2Data.get, ho, encOB, truthy]
    · cases ho : c2.metadata with
      | none => simp [pureA_ok, tstep, encTRes, encTSt, C2Data.get, ho, encOB, truthy]
      | some b => cases b <;> simp [pureA_ok, tstep, encTRes, encTSt, C2Data.get, ho, encOB, truthy]

theorem fmtS_pair (n : PyRt.Str) (h : reprOk val = true) : ∃ r, fmtS (.tuple [.str n, val]) = .ok r := by
  simp only [reprOk] at h
  cases hr : PyU.repr val with
  | error e => simp [hr, Except.toBool] at h
  | ok r =>
    refine ⟨40 :: (PyU.reprStr n ++ 44 :: 32 :: (r ++ [41])), ?_⟩
    simp [fmtS, PyU.repr, reprL, hr]

theorem beq_false_of_ne {a b : PyRt.Str} (h : ¬a = b) : (a == b) = false := by simpa using h

theorem gen_transform_step_unknown (n : PyRt.Str) (hl : PyU.lower (.str name) = .ok (.str n)) (hr : reprOk val = true)
    (h1 : ¬n = cps "append") (h2 : ¬n = cps "prepend") (h3 : ¬n = cps "base64") (h4 : ¬n = cps "base64url")
    (h5 : ¬n = cps "netbios") (h6 : ¬n = cps "netbiosu") (h7 : ¬n = cps "mask") (h8 : ¬n = cps "print")
    (h9 : ¬n = cps "header") (h10 : ¬n = cps "_header") (h11 : ¬n = cps "_hostheader") (h12 : ¬n = cps "uri_append")
    (h13 : ¬n = cps "parameter") (h14 : ¬n = cps "_parameter") (h15 : ¬n = cps "build") :
    LOOP = encTRes t0 (tstep c2 .unknown s) := by
  unfold Gen.PyC2T.transform_loop1
  simp only [encTSt, unpack2_tuple, lift_ok, okA_bind, hl]
  obtain ⟨r, hf⟩ := fmtS_pair val n hr
  simp only [eq_str, lit, beq_false_of_ne h1, beq_false_of_ne h2, beq_false_of_ne h3, beq_false_of_ne h4, beq_false_of_ne h5,
    beq_false_of_ne h6, beq_false_of_ne h7, beq_false_of_ne h8, beq_false_of_ne h9, beq_false_of_ne h10, beq_false_of_ne h11,
    beq_false_of_ne h12, beq_false_of_ne h13, beq_false_of_ne h14, beq_false_of_ne h15, Bool.false_eq_true, if_false,
    Bool.or_false, hf, lift_ok, okA_bind, throwA, errA_bind, tstep, encTRes, encExc]

end TransformLoop

/-- one iteration of the loop of the translated `transform` is one `C04.tstep` -/
theorem tstep_eq (rand : Rand) (cls : Cls) (hc : cls.fields = ["output", "metadata", "id"]) (c2 : C2Data)
    (v : V) (st : Step) (h : stepOf v = some st) (t0 : Nat) (s : TSt) (hs : s.rand = shift rand t0) :
    Gen.PyC2T.transform_loop1 b64encodeX urlsafeB64encodeX (getrandbitsX rand) (encC2 cls c2) v (encTSt t0 s)
      = encTRes (t0 + masks st) (tstep c2 st s) := by
  obtain ⟨name, val, rfl, ha⟩ := stepOf_shape h
  have hl := lower_str name ha
  simp only [stepOf, ha, if_true] at h
  generalize name.map lowCp = n at h hl
  by_cases h1 : n = cps "append"
  · subst h1
    obtain ⟨a, ha', rfl⟩ := Option.map_eq_some_iff.1 (by simpa using h)
    exact gen_transform_step_append rand cls c2 name val t0 s hl a ha'
  by_cases h2 : n = cps "prepend"
  · subst h2
    obtain ⟨a, ha', rfl⟩ := Option.map_eq_some_iff.1 (by simpa (config := {decide := true}) using h)
    exact gen_transform_step_prepend rand cls c2 name val t0 s hl a ha'
  by_cases h3 : n = cps "base64"
  · subst h3
    obtain rfl : Step.enc .base64 = st := by simpa (config := {decide := true}) using h
    exact gen_transform_step_base64 rand cls c2 name val t0 s hl
  by_cases h4 : n = cps "base64url"
  · subst h4
    obtain rfl : Step.enc .base64url = st := by simpa (config := {decide := true}) using h
    exact gen_transform_step_base64url rand cls c2 name val t0 s hl
  by_cases h5 : n = cps "netbios"
  · subst h5
    obtain rfl : Step.enc .netbios = st := by simpa (config := {decide := true}) using h
    exact gen_transform_step_netbios rand cls c2 name val t0 s hl
  by_cases h6 : n = cps "netbiosu"
  · subst h6
    obtain rfl : Step.enc .netbiosu = st := by simpa (config := {decide := true}) using h
    exact gen_transform_step_netbiosu rand cls c2 name val t0 s hl
  by_cases h7 : n = cps "mask"
  · subst h7
    obtain rfl : Step.enc .mask = st := by simpa (config := {decide := true}) using h
    exact gen_transform_step_mask rand cls c2 name val t0 s hl hs
  by_cases h8 : n = cps "print"
  · subst h8
    obtain rfl : Step.term .print = st := by simpa (config := {decide := true}) using h
    exact gen_transform_step_print rand cls c2 name val t0 s hl
  by_cases h9 : n = cps "header"
  · subst h9
    obtain ⟨k, hk, rfl⟩ := Option.map_eq_some_iff.1 (by simpa (config := {decide := true}) using h)
    exact gen_transform_step_header rand cls c2 name val t0 s hl k hk
  by_cases h10 : n = cps "_header"
  · subst h10
    obtain ⟨k, hk, rfl⟩ := Option.map_eq_some_iff.1 (by simpa (config := {decide := true}) using h)
    exact gen_transform_step_uheader rand cls c2 name val t0 s hl k hk
  by_cases h11 : n = cps "_hostheader"
  · subst h11
    obtain ⟨k, hk, rfl⟩ := Option.map_eq_some_iff.1 (by simpa (config := {decide := true}) using h)
    exact gen_transform_step_uhostheader rand cls c2 name val t0 s hl k hk
  by_cases h12 : n = cps "uri_append"
  · subst h12
    obtain rfl : Step.term .uriAppend = st := by simpa (config := {decide := true}) using h
    exact gen_transform_step_uri_append rand cls c2 name val t0 s hl
  by_cases h13 : n = cps "parameter"
  · subst h13
    obtain ⟨k, hk, rfl⟩ := Option.map_eq_some_iff.1 (by simpa (config := {decide := true}) using h)
    exact gen_transform_step_parameter rand cls c2 name val t0 s hl k hk
  by_cases h14 : n = cps "_parameter"
  · subst h14
    obtain ⟨k, hk, rfl⟩ := Option.map_eq_some_iff.1 (by simpa (config := {decide := true}) using h)
    exact gen_transform_step_uparameter rand cls c2 name val t0 s hl k hk
  by_cases h15 : n = cps "build"
  · subst h15
    obtain rfl : Step.build (fieldOf val) = st := by simpa (config := {decide := true}) using h
    exact gen_transform_step_build rand cls c2 name val t0 s hl hc
  simp only [h1, h2, h3, h4, h5, h6, h7, h8, h9, h10, h11, h12, h13, h14, h15, if_false] at h
  by_cases hr : reprOk val = true
  · simp only [hr, if_true, Option.some.injEq] at h
    subst h
    exact gen_transform_step_unknown rand cls c2 name val t0 s n hl hr h1 h2 h3 h4 h5 h6 h7 h8 h9 h10 h11 h12 h13 h14 h15
  · simp [hr] at h

theorem tstep_rand (rand : Rand) (c2 : C2Data) (st : Step) (t0 : Nat) (s s' : TSt) (hs : s.rand = shift rand t0)
    (h : tstep c2 st s = .ok s') : s'.rand = shift rand (t0 + masks st) := by
  cases st with
  | enc e =>
    cases e <;> simp only [tstep, encStep, Except.map, liftPy] at h
    case netbios => (cases hn : C20.netbiosEncode s.data 65 <;> simp [hn] at h); subst h; simpa [masks] using hs
    case netbiosu => (cases hn : C20.netbiosEncode s.data 65 <;> simp [hn] at h); subst h; simpa [masks] using hs
    case mask =>
      injection h with h; subst h
      simp only [masks, hs, Rand.tail, shift]
      funext i; show rand (i + 1 + t0) = rand (i + (t0 + 1)); rw [Nat.add_right_comm, Nat.add_assoc]
    all_goals (injection h with h; subst h; simpa [masks] using hs)
  | term t => cases t <;> simp only [tstep] at h <;> (injection h with h; subst h; simpa [masks] using hs)
  | static t => cases t <;> simp only [tstep] at h <;> (injection h with h; subst h; simpa [masks] using hs)
  | build f => cases f <;> simp only [tstep] at h <;> (injection h with h; subst h; simpa [masks] using hs)
  | unknown => simp [tstep] at h

/-! ### step lists -/

theorem stepsOf_nil : stepsOf [] = some [] := rfl

theorem stepsOf_cons {v : V} {vs : List V} {ss : List Step} (h : stepsOf (v :: vs) = some ss) :
    ∃ st ss', stepOf v = some st ∧ stepsOf vs = some ss' ∧ ss = st :: ss' := by
  simp only [stepsOf, List.mapM_cons] at h
  cases h1 : stepOf v with
  | none => simp [h1] at h
  | some st =>
    cases h2 : vs.mapM stepOf with
    | none => simp [h1, h2] at h
    | some ss' =>
      simp [h1, h2] at h
      exact ⟨st, ss', rfl, h2, h.symm⟩

/-- the final state of the loop of `transform` -/
def encTFin (t1 : Nat) : R TSt → PyA (V × V × V × V × V × V)
  | .ok s' => .ok (encTSt t1 s')
  | .error e => .error (encExc e)

theorem runT_eq (rand : Rand) (cls : Cls) (hc : cls.fields = ["output", "metadata", "id"]) (c2 : C2Data) (vs : List V) :
    ∀ (ss : List Step), stepsOf vs = some ss → ∀ (t0 : Nat) (s : TSt), s.rand = shift rand t0 →
    ∃ t1, forList vs (Gen.PyC2T.transform_loop1 b64encodeX urlsafeB64encodeX (getrandbitsX rand) (encC2 cls c2)) (encTSt t0 s)
      = encTFin t1 (runT c2 ss s) := by
  induction vs with
  | nil =>
    intro ss h t0 s _
    simp only [stepsOf, List.mapM_nil, Option.pure_def, Option.some.injEq] at h
    subst h
    exact ⟨t0, rfl⟩
  | cons v vs ih =>
    intro ss h t0 s hs
    obtain ⟨st, ss', h1, h2, rfl⟩ := stepsOf_cons h
    have he := tstep_eq rand cls hc c2 v st h1 t0 s hs
    cases ht : tstep c2 st s with
    | error e =>
      refine ⟨t0, ?_⟩
      simp only [forList, he, ht, encTRes, runT, Except.bind, encTFin]
    | ok s' =>
      obtain ⟨t1, h3⟩ := ih ss' h2 (t0 + masks st) s' (tstep_rand rand c2 st t0 s s' hs ht)
      refine ⟨t1, ?_⟩
      simp only [forList, he, ht, encTRes, runT, Except.bind, h3]

/-! ### `transform` -/

theorem getAttr_req (a b c d e : V) :
    getAttr (.inst Gen.PyC2U.HttpRequest [a, b, c, d, e]) "uri" = .ok b ∧
    getAttr (.inst Gen.PyC2U.HttpRequest [a, b, c, d, e]) "params" = .ok c ∧
    getAttr (.inst Gen.PyC2U.HttpRequest [a, b, c, d, e]) "headers" = .ok d ∧
    getAttr (.inst Gen.PyC2U.HttpRequest [a, b, c, d, e]) "body" = .ok e := by
  simp [getAttr, Gen.PyC2U.HttpRequest, lookupField]

theorem replace_req (a b c d e x y z w : V) :
    replace (.inst Gen.PyC2U.HttpRequest [a, b, c, d, e]) [("body", x), ("params", y), ("uri", z), ("headers", w)]
      = .ok (.inst Gen.PyC2U.HttpRequest [a, z, y, w, x]) := by
  simp [replace, Gen.PyC2U.HttpRequest, setField]

theorem getAttr_tsteps (tvs rvs : List V) : getAttr (encT tvs rvs) "tsteps" = .ok (.list tvs) := by
  simp [getAttr, encT, Gen.PyC2T.HttpDataTransform, lookupField]

theorem getAttr_rsteps (tvs rvs : List V) : getAttr (encT tvs rvs) "rsteps" = .ok (.list rvs) := by
  simp [getAttr, encT, Gen.PyC2T.HttpDataTransform, lookupField]

theorem iterList_list (l : List V) : iterList (.list l) = .ok l := rfl

theorem transform_req (rand : Rand) (cls : Cls) (hc : cls.fields = ["output", "metadata", "id"]) (tvs rvs : List V)
    (t : Transform) (h : stepsOf tvs = some t.tsteps) (c2 : C2Data) (r : Req) :
    (do
      let t4 ← (liftM (getAttr (encReq r) "uri") : PyA V)
      let t5 ← (liftM (getAttr (encReq r) "params") : PyA V)
      let t6 ← (liftM (getAttr (encReq r) "headers") : PyA V)
      let t7 ← (liftM (getAttr (encReq r) "body") : PyA V)
      let t8 ← (liftM (getAttr (encT tvs rvs) "tsteps") : PyA V)
      let t9 ← (liftM (iterList t8) : PyA (List V))
      let t43 ← forList t9 (Gen.PyC2T.transform_loop1 b64encodeX urlsafeB64encodeX (getrandbitsX rand) (encC2 cls c2))
        (V.int 0, t4, t5, t6, t7, V.bytes [])
      let t44 ← (liftM (replace (encReq r) [("body", t43.2.2.2.2.1), ("params", t43.2.2.1), ("uri", t43.2.1), ("headers", t43.2.2.2.1)]) : PyA V)
      pure t44) = encR encReq ((runT c2 t.tsteps (TSt.init r rand)).map (TSt.toReq r)) := by
  obtain ⟨t1, hl⟩ := runT_eq rand cls hc c2 tvs t.tsteps h 0 (TSt.init r rand) rfl
  have hinit : (V.int 0, V.bytes r.uri, encDict r.params, encDict r.headers, V.bytes r.body, V.bytes [])
      = encTSt 0 (TSt.init r rand) := rfl
  obtain ⟨g1, g2, g3, g4⟩ := getAttr_req (.bytes r.method) (.bytes r.uri) (encDict r.params) (encDict r.headers) (.bytes r.body)
  simp only [encReq, g1, g2, g3, g4, getAttr_tsteps, iterList_list, lift_ok, okA_bind, hinit, hl]
  cases runT c2 t.tsteps (TSt.init r rand) with
  | error e => rfl
  | ok s' =>
    simp only [encTFin, encTSt, okA_bind, replace_req, lift_ok, pureA_ok, Except.map, encR, encReq, TSt.toReq]

theorem gen_transform_proof (rand : Rand) (cls : Cls) (hc : cls.fields = ["output", "metadata", "id"]) (tvs rvs : List V)
    (t : Transform) (h : stepsOf tvs = some t.tsteps) (c2 : C2Data) (req : Option Req) :
    Gen.PyC2T.transform b64encodeX urlsafeB64encodeX (getrandbitsX rand) (encT tvs rvs) (encC2 cls c2) (encOptReq req)
      = encR encReq (C04.transform t rand c2 req) := by
  unfold Gen.PyC2T.transform
  cases req with
  | none =>
    have := transform_req rand cls hc tvs rvs t h c2 emptyReq
    simp only [encReq, emptyReq, encDict, List.map_nil] at this
    simp only [encOptReq, truthy, Bool.not_false, if_true, mkDict_nil, lift_ok, okA_bind, encDict, List.map_nil]
    simp only [C04.transform, Option.getD, emptyReq]
    exact this
  | some r =>
    have := transform_req rand cls hc tvs rvs t h c2 r
    have ht : truthy (encReq r) = true := rfl
    simp only [encOptReq, ht, Bool.not_true, Bool.false_eq_true, if_false, lift_ok, okA_bind]
    simp only [C04.transform, Option.getD]
    exact this

/-! ### slices -/

theorem drop_min {α : Type} (xs : List α) (k : Nat) : xs.drop (min k xs.length) = xs.drop k := by
  by_cases h : k ≤ xs.length
  · rw [Nat.min_eq_left h]
  · rw [Nat.min_eq_right (by omega), List.drop_length, List.drop_eq_nil_of_le (by omega)]

theorem pyslice_from {α : Type} (xs : List α) (n : Int) :
    PyRt.slice xs (some n) (none : Option Int) = pySliceFrom xs n := by
  simp only [PyRt.slice, PyRt.Bound.bound, PyRt.clampIdx, pySliceFrom, List.take_length, id]
  by_cases h : n < 0
  · rw [if_pos h, if_neg (by omega)]
    congr 1; omega
  · rw [if_neg h, if_pos (by omega), drop_min]

theorem slice_from (d : Bytes) (v : V) (n : Int) (h : asInt v = some n) :
    PyU.slice (.bytes d) v .none = .ok (.bytes (pySliceFrom d n)) := by
  cases v <;> simp only [asInt, Option.some.injEq, reduceCtorEq] at h
  all_goals subst h
  all_goals simp [PyU.slice, bound, asInt, pyslice_from, pure_ok]

theorem slice_to (d : Bytes) (n : Int) :
    PyU.slice (.bytes d) .none (.int n) = .ok (.bytes (pySliceTo d (some n))) := by
  simp only [PyU.slice, bound, asInt, PyRt.ok_bind, pure_ok]
  rw [show (none : Option Int) = PyRt.noBound from rfl, C20Gen.slice_noBound_eq]

theorem slice_from4 (d : Bytes) : PyU.slice (.bytes d) (.int 4) .none = .ok (.bytes (d.drop 4)) := by
  rw [slice_from d (.int 4) 4 rfl]; rfl
theorem slice_to4 (d : Bytes) : PyU.slice (.bytes d) .none (.int 4) = .ok (.bytes (d.take 4)) := by
  rw [slice_to]; rfl

theorem sub_len (d : Bytes) (v : V) (n : Int) (h : asInt v = some n) :
    PyU.sub (.int d.length) v = .ok (.int ((d.length : Int) - n)) := by
  have h0 : asInt (.int (d.length : Int)) = some (d.length : Int) := rfl
  simp only [PyU.sub, ints2, h0, h, Except.map]

/-! ### one iteration of the loop of `recover` -/

/-- the loop state of the translated `recover`: `build_metadata`, `build_output`, `build_id`, `data` -/
def encRSt (s : RSt) : V × V × V × V := (encOB s.metadata, encOB s.output, encOB s.id, .bytes s.data)

def encRRes : R RSt → PyA (Ctl × (V × V × V × V))
  | .ok s' => .ok (.cont, encRSt s')
  | .error e => .error (encExc e)

section RecoverLoop
variable (sv rv qv : V) (http : Http) (name : PyRt.Str) (val : V) (s : RSt)

local notation "LOOP" => Gen.PyC2T.recover_loop1 b64decodeX urlsafeB64decodeX (encHttp sv rv qv http)
  (V.tuple [V.str name, val]) (encRSt s)

local macro "loop_norm" hl:ident : tactic => `(tactic| (
  unfold Gen.PyC2T.recover_loop1
  simp only [encRSt, unpack2_tuple, lift_ok, okA_bind, $hl:ident]
  simp only [eq_str, lit]
  simp (config := {decide := true}) only [if_true, if_false, Bool.or_false, Bool.or_true, Bool.true_or]))

theorem len_bytes (d : Bytes) : len (.bytes d) = .ok (.int d.length) := rfl

theorem gen_recover_step_append (hl : PyU.lower (.str name) = .ok (.str (cps "append"))) (a : Arg) (ha : argOf val = some a) :
    LOOP = encRRes (rstep http (.enc (.append a)) s) := by
  loop_norm hl
  cases val <;> simp only [argOf, asInt, Option.map_some, Option.map_none, Option.some.injEq, reduceCtorEq] at ha
  all_goals subst ha
  all_goals simp [isInstance, isInst1, len_bytes, sub_len, asInt, slice_to, lift_ok, okA_bind, pureA_ok, rstep, decStep,
    Except.map, encRRes, encRSt, Arg.len]

theorem gen_recover_step_prepend (hl : PyU.lower (.str name) = .ok (.str (cps "prepend"))) (a : Arg) (ha : argOf val = some a) :
    LOOP = encRRes (rstep http (.enc (.prepend a)) s) := by
  loop_norm hl
  cases val <;> simp only [argOf, asInt, Option.map_some, Option.map_none, Option.some.injEq, reduceCtorEq] at ha
  all_goals subst ha
  all_goals simp [isInstance, isInst1, len_bytes, slice_from, asInt, lift_ok, okA_bind, pureA_ok, rstep, decStep,
    Except.map, encRRes, encRSt, Arg.len]

theorem gen_recover_step_base64 (hl : PyU.lower (.str name) = .ok (.str (cps "base64"))) :
    LOOP = encRRes (rstep http (.enc .base64) s) := by
  loop_norm hl
  simp only [add_bytes, b64decodeX, bytesPy, lift_ok, okA_bind, rstep, decStep, liftPy]
  cases C04.b64decode (s.data ++ [61, 61]) <;>
    simp [lift_ok, lift_err, okA_bind, errA_bind, pureA_ok, Except.map, encExc, encRRes, encRSt]

theorem gen_recover_step_base64url (hl : PyU.lower (.str name) = .ok (.str (cps "base64url"))) :
    LOOP = encRRes (rstep http (.enc .base64url) s) := by
  loop_norm hl
  simp only [add_bytes, urlsafeB64decodeX, bytesPy, lift_ok, okA_bind, rstep, decStep, liftPy]
  cases C04.urlsafeB64decode (s.data ++ [61, 61]) <;>
    simp [lift_ok, lift_err, okA_bind, errA_bind, pureA_ok, Except.map, encExc, encRRes, encRSt]

theorem gen_recover_step_netbios (hl : PyU.lower (.str name) = .ok (.str (cps "netbios"))) :
    LOOP = encRRes (rstep http (.enc .netbios) s) := by
  loop_norm hl
  simp only [upper_bytes, netbios_decode_bytes, lift_ok, okA_bind, rstep, decStep, liftPy]
  cases C20.netbiosDecode (C04.upper s.data) 65 <;>
    simp [lift_ok, lift_err, okA_bind, errA_bind, pureA_ok, Except.map, encExc, encRRes, encRSt]

theorem gen_recover_step_netbiosu (hl : PyU.lower (.str name) = .ok (.str (cps "netbiosu"))) :
    LOOP = encRRes (rstep http (.enc .netbiosu) s) := by
  loop_norm hl
  simp only [netbios_decode_bytes, lift_ok, okA_bind, rstep, decStep, liftPy]
  cases C20.netbiosDecode s.data 65 <;>
    simp [lift_ok, lift_err, okA_bind, errA_bind, pureA_ok, Except.map, encExc, encRRes, encRSt]

theorem gen_recover_step_mask (hl : PyU.lower (.str name) = .ok (.str (cps "mask"))) :
    LOOP = encRRes (rstep http (.enc .mask) s) := by
  loop_norm hl
  simp only [slice_from4, slice_to4, xor_bytes, lift_ok, okA_bind, pureA_ok, rstep, decStep, Except.map, encRRes, encRSt]

theorem gen_recover_step_print (hl : PyU.lower (.str name) = .ok (.str (cps "print"))) :
    LOOP = encRRes (rstep http (.term .print) s) := by
  loop_norm hl
  cases http <;>
    simp [encHttp, encReq, getAttr, Gen.PyC2U.HttpRequest, Gen.PyC2U.HttpResponse, lookupField, lift_ok, okA_bind, pureA_ok,
      rstep, fetch, Except.map, encRRes, encRSt]

theorem gen_recover_step_uri_append (hl : PyU.lower (.str name) = .ok (.str (cps "uri_append"))) :
    LOOP = encRRes (rstep http (.term .uriAppend) s) := by
  loop_norm hl
  cases http <;>
    simp [encHttp, encReq, getAttr, Gen.PyC2U.HttpRequest, Gen.PyC2U.HttpResponse, lookupField, lift_ok, okA_bind, pureA_ok,
      isInstance, isInst1, throwA, errA_bind, rstep, fetch, Except.map, encRRes, encRSt, encExc]

theorem gen_recover_step_header (hl : PyU.lower (.str name) = .ok (.str (cps "header"))) (k : Bytes) (hk : bytesOf val = some k) :
    LOOP = encRRes (rstep http (.term (.header k)) s) := by
  obtain rfl := bytesOf_some hk
  loop_norm hl
  have hi : isInstance (V.bytes k) [Ty.bytes] = true := rfl
  have hq : ∀ a b c d e, isInstance (V.inst Gen.PyC2U.HttpRequest [a, b, c, d, e]) [Ty.cls Gen.PyC2U.HttpRequest] = true :=
    fun _ _ _ _ _ => rfl
  cases http with
  | request r =>
    simp only [encHttp, encReq, getAttr, Gen.PyC2U.HttpRequest, lookupField, hi, hq, getItem_enc, rstep, fetch, lift_ok, okA_bind,
      Bool.not_true, Bool.false_eq_true, if_false, beq_self_eq_true, if_true]
    simp (config := {decide := true}) only [if_true, if_false, lift_ok, okA_bind, getItem_enc]
    cases Dict.get r.headers k <;>
      simp [lift_ok, lift_err, okA_bind, errA_bind, pureA_ok, Except.map, encExc, encRRes, encRSt]
  | response h b =>
    simp only [encHttp, getAttr, Gen.PyC2U.HttpResponse, lookupField, hi, getItem_enc, rstep, fetch, lift_ok, okA_bind,
      Bool.not_true, Bool.false_eq_true, if_false, beq_self_eq_true, if_true]
    simp (config := {decide := true}) only [if_true, if_false, lift_ok, okA_bind, getItem_enc]
    cases Dict.get h k <;>
      simp [lift_ok, lift_err, okA_bind, errA_bind, pureA_ok, Except.map, encExc, encRRes, encRSt]

theorem gen_recover_step_parameter (hl : PyU.lower (.str name) = .ok (.str (cps "parameter"))) (k : Bytes) (hk : bytesOf val = some k) :
    LOOP = encRRes (rstep http (.term (.parameter k)) s) := by
  obtain rfl := bytesOf_some hk
  loop_norm hl
  have hi : isInstance (V.bytes k) [Ty.bytes] = true := rfl
  have hq : ∀ a b c d e, isInstance (V.inst Gen.PyC2U.HttpRequest [a, b, c, d, e]) [Ty.cls Gen.PyC2U.HttpRequest] = true :=
    fun _ _ _ _ _ => rfl
  cases http with
  | request r =>
    obtain ⟨g1, g2, g3, g4⟩ := getAttr_req (.bytes r.method) (.bytes r.uri) (encDict r.params) (encDict r.headers) (.bytes r.body)
    simp only [encHttp, encReq, hi, hq, g2, getItem_enc, rstep, fetch, lift_ok, okA_bind,
      Bool.not_true, Bool.false_eq_true, if_false]
    cases Dict.get r.params k <;>
      simp [lift_ok, lift_err, okA_bind, errA_bind, pureA_ok, Except.map, encExc, encRRes, encRSt]
  | response h b =>
    simp [encHttp, Gen.PyC2U.HttpRequest, Gen.PyC2U.HttpResponse, isInstance, isInst1, throwA, errA_bind, rstep, fetch,
      Except.map, encRRes, encExc]

theorem gen_recover_step_build (hl : PyU.lower (.str name) = .ok (.str (cps "build"))) :
    LOOP = encRRes (rstep http (.build (fieldOf val)) s) := by
  loop_norm hl
  obtain ⟨e1, e2, e3⟩ := eq_field val
  simp only [e1, e2, e3]
  cases fieldOf val with
  | none => simp [pureA_ok, rstep, encRRes, encRSt]
  | some f => cases f <;> simp [pureA_ok, rstep, encRRes, encRSt, RSt.setField, encOB]

theorem contains_static (n : PyRt.Str) :
    contains (V.tuple [V.str (cps "_header"), V.str (cps "_hostheader"), V.str (cps "_parameter")]) (V.str n)
      = .ok (n == cps "_header" || n == cps "_hostheader" || n == cps "_parameter") := by
  simp [contains, eq_str, Bool.or_assoc]

theorem gen_recover_step_static (n : PyRt.Str) (hl : PyU.lower (.str name) = .ok (.str n)) (st : Static)
    (hn : n = cps "_header" ∨ n = cps "_hostheader" ∨ n = cps "_parameter") :
    LOOP = encRRes (rstep http (.static st) s) := by
  rcases hn with rfl | rfl | rfl
  all_goals
    unfold Gen.PyC2T.recover_loop1
    simp only [encRSt, unpack2_tuple, lift_ok, okA_bind, hl]
    simp only [eq_str, lit, contains_static]
    simp (config := {decide := true}) only [if_true, if_false, Bool.or_false, Bool.or_true, Bool.true_or, lift_ok, okA_bind,
      pureA_ok, rstep, encRRes, encRSt]

theorem gen_recover_step_unknown (n : PyRt.Str) (hl : PyU.lower (.str name) = .ok (.str n)) (hr : reprOk val = true)
    (h1 : ¬n = cps "append") (h2 : ¬n = cps "prepend") (h3 : ¬n = cps "base64") (h4 : ¬n = cps "base64url")
    (h5 : ¬n = cps "netbios") (h6 : ¬n = cps "netbiosu") (h7 : ¬n = cps "mask") (h8 : ¬n = cps "print")
    (h9 : ¬n = cps "header") (h10 : ¬n = cps "_header") (h11 : ¬n = cps "_hostheader") (h12 : ¬n = cps "uri_append")
    (h13 : ¬n = cps "parameter") (h14 : ¬n = cps "_parameter") (h15 : ¬n = cps "build") :
    LOOP = encRRes (rstep http .unknown s) := by
  unfold Gen.PyC2T.recover_loop1
  simp only [encRSt, unpack2_tuple, lift_ok, okA_bind, hl]
  obtain ⟨r, hf⟩ := fmtS_pair val n hr
  simp only [eq_str, lit, contains_static, beq_false_of_ne h1, beq_false_of_ne h2, beq_false_of_ne h3, beq_false_of_ne h4,
    beq_false_of_ne h5, beq_false_of_ne h6, beq_false_of_ne h7, beq_false_of_ne h8, beq_false_of_ne h9, beq_false_of_ne h10,
    beq_false_of_ne h11, beq_false_of_ne h12, beq_false_of_ne h13, beq_false_of_ne h14, beq_false_of_ne h15, Bool.false_eq_true,
    if_false, Bool.or_false, hf, lift_ok, okA_bind, throwA, errA_bind, rstep, encRRes, encExc]

end RecoverLoop

/-- one iteration of the loop of the translated `recover` is one `C04.rstep` -/
theorem rstep_eq (sv rv qv : V) (http : Http) (v : V) (st : Step) (h : stepOf v = some st) (s : RSt) :
    Gen.PyC2T.recover_loop1 b64decodeX urlsafeB64decodeX (encHttp sv rv qv http) v (encRSt s)
      = encRRes (rstep http st s) := by
  obtain ⟨name, val, rfl, ha⟩ := stepOf_shape h
  have hl := lower_str name ha
  simp only [stepOf, ha, if_true] at h
  generalize name.map lowCp = n at h hl
  by_cases h1 : n = cps "append"
  · subst h1
    obtain ⟨a, ha', rfl⟩ := Option.map_eq_some_iff.1 (by simpa using h)
    exact gen_recover_step_append sv rv qv http name val s hl a ha'
  by_cases h2 : n = cps "prepend"
  · subst h2
    obtain ⟨a, ha', rfl⟩ := Option.map_eq_some_iff.1 (by simpa (config := {decide := true}) using h)
    exact gen_recover_step_prepend sv rv qv http name val s hl a ha'
  by_cases h3 : n = cps "base64"
  · subst h3
    obtain rfl : Step.enc .base64 = st := by simpa (config := {decide := true}) using h
    exact gen_recover_step_base64 sv rv qv http name val s hl
  by_cases h4 : n = cps "base64url"
  · subst h4
    obtain rfl : Step.enc .base64url = st := by simpa (config := {decide := true}) using h
    exact gen_recover_step_base64url sv rv qv http name val s hl
  by_cases h5 : n = cps "netbios"
  · subst h5
    obtain rfl : Step.enc .netbios = st := by simpa (config := {decide := true}) using h
    exact gen_recover_step_netbios sv rv qv http name val s hl
  by_cases h6 : n = cps "netbiosu"
  · subst h6
    obtain rfl : Step.enc .netbiosu = st := by simpa (config := {decide := true}) using h
    exact gen_recover_step_netbiosu sv rv qv http name val s hl
  by_cases h7 : n = cps "mask"
  · subst h7
    obtain rfl : Step.enc .mask = st := by simpa (config := {decide := true}) using h
    exact gen_recover_step_mask sv rv qv http name val s hl
  by_cases h8 : n = cps "print"
  · subst h8
    obtain rfl : Step.term .print = st := by simpa (config := {decide := true}) using h
    exact gen_recover_step_print sv rv qv http name val s hl
  by_cases h9 : n = cps "header"
  · subst h9
    obtain ⟨k, hk, rfl⟩ := Option.map_eq_some_iff.1 (by simpa (config := {decide := true}) using h)
    exact gen_recover_step_header sv rv qv http name val s hl k hk
  by_cases h10 : n = cps "_header"
  · subst h10
    obtain ⟨k, hk, rfl⟩ := Option.map_eq_some_iff.1 (by simpa (config := {decide := true}) using h)
    exact gen_recover_step_static sv rv qv http name val s _ hl _ (Or.inl rfl)
  by_cases h11 : n = cps "_hostheader"
  · subst h11
    obtain ⟨k, hk, rfl⟩ := Option.map_eq_some_iff.1 (by simpa (config := {decide := true}) using h)
    exact gen_recover_step_static sv rv qv http name val s _ hl _ (Or.inr (Or.inl rfl))
  by_cases h12 : n = cps "uri_append"
  · subst h12
    obtain rfl : Step.term .uriAppend = st := by simpa (config := {decide := true}) using h
    exact gen_recover_step_uri_append sv rv qv http name val s hl
  by_cases h13 : n = cps "parameter"
  · subst h13
    obtain ⟨k, hk, rfl⟩ := Option.map_eq_some_iff.1 (by simpa (config := {decide := true}) using h)
    exact gen_recover_step_parameter sv rv qv http name val s hl k hk
  by_cases h14 : n = cps "_parameter"
  · subst h14
    obtain ⟨k, hk, rfl⟩ := Option.map_eq_some_iff.1 (by simpa (config := {decide := true}) using h)
    exact gen_recover_step_static sv rv qv http name val s _ hl _ (Or.inr (Or.inr rfl))
  by_cases h15 : n = cps "build"
  · subst h15
    obtain rfl : Step.build (fieldOf val) = st := by simpa (config := {decide := true}) using h
    exact gen_recover_step_build sv rv qv http name val s hl
  simp only [h1, h2, h3, h4, h5, h6, h7, h8, h9, h10, h11, h12, h13, h14, h15, if_false] at h
  by_cases hr : reprOk val = true
  · simp only [hr, if_true, Option.some.injEq] at h
    subst h
    exact gen_recover_step_unknown sv rv qv http name val s n hl hr h1 h2 h3 h4 h5 h6 h7 h8 h9 h10 h11 h12 h13 h14 h15
  · simp [hr] at h

/-! ### `recover` -/

/-- the final state of the loop of `recover` -/
def encRFin : R RSt → PyA (V × V × V × V)
  | .ok s' => .ok (encRSt s')
  | .error e => .error (encExc e)

theorem runR_eq (sv rv qv : V) (http : Http) (vs : List V) :
    ∀ (ss : List Step), stepsOf vs = some ss → ∀ (s : RSt),
    forList vs (Gen.PyC2T.recover_loop1 b64decodeX urlsafeB64decodeX (encHttp sv rv qv http)) (encRSt s)
      = encRFin (runR http ss s) := by
  induction vs with
  | nil =>
    intro ss h s
    simp only [stepsOf, List.mapM_nil, Option.pure_def, Option.some.injEq] at h
    subst h
    rfl
  | cons v vs ih =>
    intro ss h s
    obtain ⟨st, ss', h1, h2, rfl⟩ := stepsOf_cons h
    have he := rstep_eq sv rv qv http v st h1 s
    cases ht : rstep http st s with
    | error e => simp only [forList, he, ht, encRRes, runR, Except.bind, encRFin]
    | ok s' => simp only [forList, he, ht, encRRes, runR, Except.bind, ih ss' h2 s']

theorem gen_recover_proof (sv rv qv : V) (tvs rvs : List V) (t : Transform) (h : stepsOf rvs = some t.rsteps) (http : Http) :
    Gen.PyC2T.recover b64decodeX urlsafeB64decodeX (encT tvs rvs) (encHttp sv rv qv http)
      = encR (encC2 (resultCls http)) (C04.recover t http) := by
  have hinit : (V.none, V.none, V.none, V.bytes []) = encRSt ⟨[], none, none, none⟩ := rfl
  have hl := runR_eq sv rv qv http rvs t.rsteps h ⟨[], none, none, none⟩
  unfold Gen.PyC2T.recover
  cases http with
  | request r =>
    have i1 : isInstance (encHttp sv rv qv (.request r)) [Ty.cls Gen.PyC2U.HttpRequest, Ty.cls Gen.PyC2U.HttpResponse] = true := rfl
    have i2 : isInstance (encHttp sv rv qv (.request r)) [Ty.cls Gen.PyC2U.HttpRequest] = true := rfl
    simp only [i1, i2, Bool.not_true, Bool.false_eq_true, if_false, if_true, getAttr_rsteps, iterList_list, lift_ok, okA_bind,
      hinit, hl, C04.recover]
    cases runR (.request r) t.rsteps ⟨[], none, none, none⟩ with
    | error e => rfl
    | ok s' => rfl
  | response hd b =>
    have i1 : isInstance (encHttp sv rv qv (.response hd b)) [Ty.cls Gen.PyC2U.HttpRequest, Ty.cls Gen.PyC2U.HttpResponse] = true := rfl
    have i2 : isInstance (encHttp sv rv qv (.response hd b)) [Ty.cls Gen.PyC2U.HttpRequest] = false := rfl
    simp only [i1, i2, Bool.not_true, Bool.false_eq_true, if_false, if_true, getAttr_rsteps, iterList_list, lift_ok, okA_bind,
      hinit, hl, C04.recover]
    cases runR (.response hd b) t.rsteps ⟨[], none, none, none⟩ with
    | error e => rfl
    | ok s' => rfl

/-! ### the constructor -/

theorem stepsOf_iff (vs : List V) (ss : List Step) : stepsOf vs = some ss ↔ vs.map stepOf = ss.map some := by
  induction vs generalizing ss with
  | nil => cases ss <;> simp [stepsOf]
  | cons v vs ih =>
    constructor
    · intro h
      obtain ⟨st, ss', h1, h2, rfl⟩ := stepsOf_cons h
      simp only [List.map_cons, h1, (ih ss').1 h2]
    · intro h
      cases ss with
      | nil => simp at h
      | cons st ss' =>
        simp only [List.map_cons, List.cons.injEq] at h
        have h2 := (ih ss').2 h.2
        simp only [stepsOf] at h2 ⊢
        simp [List.mapM_cons, h.1, h2]

theorem stepOf_BUILD (b : V) : stepOf (.tuple [lit "BUILD", b]) = some (.build (fieldOf b)) := by
  have h1 : (cps "BUILD").all (· < 128) = true := by decide
  have h2 : (cps "BUILD").map lowCp = cps "build" := by decide
  simp only [stepOf, lit, h1, if_true, h2]
  simp (config := {decide := true}) only [if_true, if_false]

theorem stepsOf_mkLists (vs : List V) (ss : List Step) (h : stepsOf vs = some ss) (rev : Bool) (build : V) :
    stepsOf (mkLists vs rev build).1 = some (mkTransform ss rev (buildOf build)).tsteps ∧
    stepsOf (mkLists vs rev build).2 = some (mkTransform ss rev (buildOf build)).rsteps := by
  rw [stepsOf_iff] at h
  simp only [stepsOf_iff, mkLists, mkTransform, buildOf]
  cases rev <;> cases hb : isNone build <;>
    simp [h, stepOf_BUILD, List.map_reverse]

theorem insert0 (l : List V) (x : V) : PyU.insert (.list l) (.int 0) x = .ok (.list (x :: l)) := by
  simp [PyU.insert, asInt, PyRt.clampIdx]

theorem gen_http_data_transform_init_proof (vs : List V) (reverse build : V) :
    Gen.PyC2T.http_data_transform_init (.list vs) reverse build
      = .ok (encT (mkLists vs (truthy reverse) build).1 (mkLists vs (truthy reverse) build).2) := by
  simp only [Gen.PyC2T.http_data_transform_init, listOf, iterList, Except.map, PyRt.ok_bind, sliceRev, mkLists, encT]
  cases truthy reverse <;> cases isNone build <;> simp [insert0, PyU.append, pure_ok]

theorem gen_http_data_transform_init_tuple_proof (vs : List V) (reverse build : V) :
    Gen.PyC2T.http_data_transform_init (.tuple vs) reverse build
      = .ok (encT (mkLists vs (truthy reverse) build).1 (mkLists vs (truthy reverse) build).2) := by
  simp only [Gen.PyC2T.http_data_transform_init, listOf, iterList, Except.map, PyRt.ok_bind, sliceRev, mkLists, encT]
  cases truthy reverse <;> cases isNone build <;> simp [insert0, PyU.append, pure_ok]
end C04Gen

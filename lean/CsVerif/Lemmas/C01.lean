import CsVerif.Model.C01
import CsVerif.Props.C15
import CsVerif.Props.C09
import CsVerif.Props.C02
import CsVerif.Props.C20
import CsVerif.Props.C17
/-! Helper lemmas for C01 (no property statements here; core Lean only, no Mathlib).

Contents: (1) `Sim`: a file-like object behaves as a plain `PyFile` (instances: the file itself, and — by C09's
`read_refines` / `seek_set_layout` — the XorEncoded view over the decoded bytes); (2) the fused scan loop up to its first
yield = head of `C15.needleLoop`, hence (C15 `needleLoop_start`) the least occurrence; (3) key loop, the two phases,
the all-keys retry, `from_file` = `extractSpec`; (4) order lemmas about `candidates`; (5) the residual key order is a
permutation; (6) `detectRun` (driver side) answers as `C09.fromFileFull`; (7) what it
returns satisfies the hypothesis `DetOk` of the theorems; (8)–(14) for the end-to-end theorems: `detectRun` answers as
`C09.fromFileReal`, the all-keys counter never raises (same proof as `Lemmas/C08.lean`, which imports this property and cannot
be imported here), `fromFileReal` = specification with nothing left as a parameter, least candidate = head of the list,
decoded view of a stage, Guardrails fallback (`GuardClean`), `NotXorEncoded` in bytes, (15) linear-time forms of `C20.xor` and
slices of `replicate` (the 8 KiB Guardrails example is checked by the kernel). -/
namespace C01
open Gen.Extract

/-! ### (1) simulation of a plain file -/

structure Sim {σ : Type} (F : FileLike σ) (abs : σ → PyFile → Prop) : Prop where
  read : ∀ s pf (n : Nat), abs s pf →
    ∃ s', F.read s n = .ok ((pf.read (n : Int)).1, s') ∧ abs s' (pf.read (n : Int)).2
  seek : ∀ s pf (t : Nat), abs s pf → ∃ s', F.seek s (t : Int) = .ok s' ∧ abs s' { pf with pos := t }
  tell : ∀ s pf, abs s pf → F.tell s = (pf.pos : Int)
  remaining : ∀ s pf, abs s pf → F.remaining s = pf.data.length - pf.pos

theorem sim_raw : Sim rawFile (fun s pf => s = pf) where
  read := by
    intro s pf n h; subst h
    exact ⟨(s.read (n : Int)).2, rfl, rfl⟩
  seek := by
    intro s pf t h; subst h
    refine ⟨{ s with pos := t }, ?_, rfl⟩
    simp [rawFile, PyFile.seekSet_ok, Except.map]
  tell := by intro s pf h; subst h; rfl
  remaining := by intro s pf h; subst h; rfl

theorem read_fst_congr (pf : PyFile) (plain : Bytes) (n : Nat) (h : pf.data = plain) :
    (({ data := plain, pos := pf.pos } : PyFile).read ((some (n : Int)).getD (-1))).1 = (pf.read (n : Int)).1 := by
  subst h; rfl

theorem sim_xor (stub nonce size enc : Bytes) : Sim xorView (fun x pf => C09.Abs stub nonce size enc x pf) where
  read := by
    intro x pf n hA
    obtain ⟨out, x', h1, _, h3, _, h5, h6⟩ := C09.read_refines hA.layout pf.pos hA.pos (some (n : Int))
    rw [read_fst_congr pf _ n hA.data] at h3
    subst h3
    refine ⟨x', h1, h6, hA.data, ?_⟩
    rw [h5]
    simp only [C09.XorFile.withPos, PyFile.read_pos]
    omega
  seek := by
    intro x pf t hA
    refine ⟨x.withPos (stub.length + 8 + t), ?_, C09.layout_withPos hA.layout _, hA.data, rfl⟩
    show (C09.seek x (t : Int) 0).map (·.2) = _
    rw [C09.seek_set_layout hA.layout t]; rfl
  tell := by
    intro x pf hA
    show C09.tell x = _
    simp only [C09.tell, PyFile.tell, hA.pos, hA.layout.off]
    omega
  remaining := by
    intro x pf hA
    show x.fh.data.length - x.fh.pos = _
    rw [hA.layout.data, hA.pos, hA.data, C09.rollDecode_length]
    simp only [List.length_append, hA.layout.nlen, hA.layout.slen]
    omega


/-! ### (2) the scan up to the first yield -/

theorem scanLoop_unfold {σ} (F : FileLike σ) (B : Nat) (needle key : Bytes) (s : σ) (saved : Bytes) :
    scanLoop F B needle key s saved =
      match F.read s B with
      | .error e => ⟨[], .error e⟩
      | .ok (block, s1) =>
        if block = [] then ⟨[], .ok s1⟩
        else
          let r := consume F key (F.tell s - (saved.length : Int)) (C15.findLoop (saved ++ block) needle 0 0 0 0) s1
          match r.fin with
          | .error e => ⟨r.yields, .error e⟩
          | .ok s2 =>
            if F.remaining s2 < F.remaining s then
              ⟨r.yields ++ (scanLoop F B needle key s2 (C15.nextSaved needle (saved ++ block))).yields,
               (scanLoop F B needle key s2 (C15.nextSaved needle (saved ++ block))).fin⟩
            else ⟨r.yields, .error .timeoutDiverge⟩ := by
  rw [scanLoop]
  cases F.read s B with
  | error e => rfl
  | ok r =>
    obtain ⟨block, s1⟩ := r
    simp only
    split
    · rfl
    · generalize consume F key (F.tell s - (saved.length : Int)) (C15.findLoop (saved ++ block) needle 0 0 0 0) s1 = r
      obtain ⟨ys, fin⟩ := r
      cases fin with
      | error e => rfl
      | ok s2 => simp only [dite_eq_ite]

theorem needleLoop_unfold (B : Nat) (needle : Bytes) (f : PyFile) (saved : Bytes) :
    C15.needleLoop B needle 0 f saved =
      if (f.read (B : Int)).1 = [] then ([], (f.read (B : Int)).2)
      else
        (C15.findLoop (saved ++ (f.read (B : Int)).1) needle 0 f.pos saved.length 0
            ++ (C15.needleLoop B needle 0 (f.read (B : Int)).2 (C15.nextSaved needle (saved ++ (f.read (B : Int)).1))).1,
         (C15.needleLoop B needle 0 (f.read (B : Int)).2 (C15.nextSaved needle (saved ++ (f.read (B : Int)).1))).2) := by
  rw [C15.needleLoop]
  simp [PyFile.tell]

theorem consume_head {σ} {F : FileLike σ} {abs} (hS : Sim F abs) (key : Bytes) (base : Int) (q : Int) (qs : List Int)
    (s : σ) (pf : PyFile) (h : abs s pf) (t : Nat) (ht : base + q = (t : Int)) :
    ∃ ys fin, consume F key base (q :: qs) s = ⟨C20.xor ((pf.data.drop t).take patchSize) key :: ys, fin⟩ := by
  obtain ⟨s1, h1, a1⟩ := hS.seek s pf t h
  obtain ⟨s2, h2, a2⟩ := hS.read s1 _ patchSize a1
  simp only [consume, ht, h1, h2]
  rw [PyFile.read_nonneg]
  exact ⟨_, _, rfl⟩


theorem scanLoop_spec {σ} {F : FileLike σ} {abs} (hS : Sim F abs) (B : Nat) (needle key : Bytes) :
    ∀ (n : Nat) (s : σ) (pf : PyFile) (saved : Bytes), pf.data.length - pf.pos = n → abs s pf →
      ((C15.needleLoop B needle 0 pf saved).1 = [] →
        (scanLoop F B needle key s saved).yields = [] ∧
        ∃ s' pf', (scanLoop F B needle key s saved).fin = .ok s' ∧ abs s' pf' ∧ pf'.data = pf.data) ∧
      (∀ off rest, (C15.needleLoop B needle 0 pf saved).1 = off :: rest → 0 ≤ off →
        (scanLoop F B needle key s saved).yields.head?
          = some (C20.xor ((pf.data.drop off.toNat).take patchSize) key)) := by
  intro n
  induction n using Nat.strongRecOn with
  | _ n ih =>
    intro s pf saved hn ha
    obtain ⟨s1, hr, a1⟩ := hS.read s pf B ha
    rw [scanLoop_unfold, hr, needleLoop_unfold]
    by_cases hb : (pf.read (B : Int)).1 = []
    · simp only [hb, if_true]
      refine ⟨fun _ => ⟨trivial, s1, _, rfl, a1, rfl⟩, ?_⟩
      intro off rest h; cases h
    · simp only [hb, if_false]
      have hO1 := C15.findLoop_eq (saved ++ (pf.read (B : Int)).1) needle 0 pf.pos saved.length 0
      have hO2 := C15.findLoop_eq (saved ++ (pf.read (B : Int)).1) needle 0 0 0 0
      generalize (C15.occ (saved ++ (pf.read (B : Int)).1) needle).filter
        (fun p => decide (0 ≤ p ∧ ((0:Nat) = 0 ∨ p ≤ 0))) = O at hO1 hO2
      rw [hO1, hO2]
      cases O with
      | nil =>
        simp only [List.map_nil, consume, List.nil_append]
        have hprog := C15.read_progress pf B hb
        have hrem : F.remaining s1 < F.remaining s := by
          rw [hS.remaining s pf ha, hS.remaining s1 _ a1]; exact hprog
        simp only [hrem, if_true]
        exact ih _ (by omega) s1 _ _ rfl a1
      | cons p O' =>
        simp only [List.map_cons]
        refine ⟨fun h => (by cases h), ?_⟩
        intro off rest h hoff
        simp only [List.cons_append, List.cons.injEq] at h
        obtain ⟨hp, _⟩ := h
        obtain ⟨ys, fin, hc⟩ := consume_head hS key (F.tell s - (saved.length : Int)) (((0:Nat):Int) + (p:Int) - ((0:Nat):Int))
          (O'.map fun (p : Nat) => ((0:Nat) : Int) + (p : Int) - ((0:Nat) : Int)) s1 _ a1 off.toNat
          (by rw [hS.tell s pf ha]; omega)
        rw [hc]
        simp only [PyFile.read_data]
        cases fin with
        | error e => rfl
        | ok s2 =>
          simp only
          split <;> rfl



/-! ### (3) keys, phases, retry: `from_file` = `extractSpec` -/

theorem needle_ne_nil (key : Bytes) : C20.xor configHeader key ≠ [] := by
  intro h
  have h1 := congrArg List.length h
  rw [C20.xor_length] at h1
  revert h1; decide

theorem findConfigBytes_spec {σ} {F : FileLike σ} {abs} (hS : Sim F abs) (B : Nat) (hB : 1 ≤ B) (key : Bytes)
    (s : σ) (pf : PyFile) (ha : abs s pf) :
    (occK pf.data key = [] →
      (findConfigBytes F B s key).yields = [] ∧
      ∃ s' pf', (findConfigBytes F B s key).fin = .ok s' ∧ abs s' pf' ∧ pf'.data = pf.data) ∧
    (∀ i rest, occK pf.data key = i :: rest →
      (findConfigBytes F B s key).yields.head? = some (C20.xor ((pf.data.drop i).take patchSize) key)) := by
  obtain ⟨s0, h0, a0⟩ := hS.seek s pf 0 ha
  have h0' : F.seek s 0 = .ok s0 := by simpa using h0
  have hL := C15.needleLoop_start B hB (C20.xor configHeader key) (needle_ne_nil key) { pf with pos := 0 }
  have hfil : (C15.occ pf.data (C20.xor configHeader key)).filter (fun i => decide (0 ≤ i))
      = C15.occ pf.data (C20.xor configHeader key) := by simp
  simp only [hfil] at hL
  obtain ⟨h1, h2⟩ := scanLoop_spec hS B (C20.xor configHeader key) key _ s0 { pf with pos := 0 } [] rfl a0
  rw [hL] at h1 h2
  simp only [findConfigBytes, h0', occK]
  constructor
  · intro he
    exact h1 (by rw [he]; rfl)
  · intro i rest he
    have := h2 (Int.ofNat i) (rest.map Int.ofNat) (by rw [he]; rfl) (Int.natCast_nonneg i)
    simpa using this


theorem candsIn_cons (enc : Bool) (plain k : Bytes) (ks : List Bytes) :
    candsIn enc plain (k :: ks) = (occK plain k).map (fun i => (⟨enc, plain, k, i⟩ : Cand)) ++ candsIn enc plain ks := by
  simp [candsIn]

theorem overKeys_spec {σ} {F : FileLike σ} {abs} (hS : Sim F abs) (B : Nat) (hB : 1 ≤ B) (enc : Bool) (data : Bytes) :
    ∀ (keys : List Bytes) (s : σ) (pf : PyFile), abs s pf → pf.data = data →
      (overKeys F B enc keys s).yields.head? = (candsIn enc data keys).head?.map Cand.result ∧
      ((overKeys F B enc keys s).yields = [] → ∃ s', (overKeys F B enc keys s).fin = .ok s') := by
  intro keys
  induction keys with
  | nil => intro s pf _ _; exact ⟨rfl, fun _ => ⟨s, rfl⟩⟩
  | cons k ks ih =>
    intro s pf ha hd
    obtain ⟨h1, h2⟩ := findConfigBytes_spec hS B hB k s pf ha
    rw [hd] at h1 h2
    rw [candsIn_cons]
    cases hO : occK data k with
    | nil =>
      obtain ⟨hy, s', pf', hf, a', hd'⟩ := h1 hO
      simp only [overKeys, hy, hf, List.map_nil, List.nil_append]
      exact ih s' pf' a' hd'
    | cons i rest =>
      have hh := h2 i rest hO
      simp only [overKeys]
      generalize findConfigBytes F B s k = t at hh ⊢
      obtain ⟨ys, fin⟩ := t
      cases ys with
      | nil => simp at hh
      | cons y ys' =>
        simp only [List.head?_cons, Option.some.injEq] at hh
        subst hh
        simp only [List.map_cons, List.cons_append, List.head?_cons, Option.map_some]
        cases fin with
        | error e => exact ⟨rfl, fun h => by cases h⟩
        | ok s' => exact ⟨rfl, fun h => by cases h⟩


theorem split_at_nonce (data : Bytes) (c : Nat) (h : c + 8 ≤ data.length) :
    data = data.take c ++ (data.drop c).take 4 ++ (data.drop (c + 4)).take 4 ++ data.drop (c + 8) ∧
    (data.take c).length = c ∧ ((data.drop c).take 4).length = 4 ∧ ((data.drop (c + 4)).take 4).length = 4 := by
  refine ⟨?_, ?_, ?_, ?_⟩
  · have e1 : data.drop (c + 4) = (data.drop c).drop 4 := by rw [List.drop_drop]
    have e2 : data.drop (c + 8) = ((data.drop c).drop 4).drop 4 := by rw [List.drop_drop, List.drop_drop]
    rw [e1, e2, List.append_assoc, List.append_assoc, List.take_append_drop, List.take_append_drop, List.take_append_drop]
  · simp; omega
  · simp; omega
  · simp; omega

theorem openView_spec (f : PyFile) (c : Nat) (h : c + 8 ≤ f.data.length) :
    ∃ x, openView f c = .ok x ∧
      C09.Abs (f.data.take c) ((f.data.drop c).take 4) ((f.data.drop (c + 4)).take 4) (f.data.drop (c + 8)) x
        { data := decodedView f.data c, pos := 0 } := by
  obtain ⟨hd, hc, hn, hs⟩ := split_at_nonce f.data c h
  obtain ⟨x, hx, hL, hpos, _, _⟩ := C09.open_layout _ _ _ _ hn hs f hd
  rw [hc] at hx
  have hsk := C09.seek_set_layout hL 0
  have hsk' : C09.seek x 0 0 = .ok ((f.data.take c).length + 8 + 0, x.withPos ((f.data.take c).length + 8 + 0)) := by
    simpa using hsk
  refine ⟨x.withPos ((f.data.take c).length + 8 + 0), ?_, C09.layout_withPos hL _, rfl, rfl⟩
  simp only [openView, hx, hsk']


theorem candidates_views (data : Bytes) (det : Option Nat) (keys : List Bytes) :
    candidates (views data det) keys =
      (match det with
       | some c => candsIn true (decodedView data c) keys
       | none => []) ++ candsIn false data keys := by
  cases det <;> simp [candidates, views]

theorem pass_raw (B : Nat) (hB : 1 ≤ B) (f : PyFile) (keys : List Bytes) :
    let t := overKeys rawFile B false keys f
    let r : Blocks := (t.yields, match t.fin with | .error e => some e | .ok _ => none)
    r.1.head? = (candsIn false f.data keys).head?.map Cand.result ∧ (r.1 = [] → r.2 = none) := by
  obtain ⟨r1, r2⟩ := overKeys_spec sim_raw B hB false f.data keys f f rfl rfl
  refine ⟨r1, ?_⟩
  intro h
  obtain ⟨s', hs'⟩ := r2 h
  simp only [hs']

theorem pass_spec (B : Nat) (hB : 1 ≤ B) (f : PyFile) (keys : List Bytes) (det : Option Nat)
    (hdet : ∀ c, det = some c → c + 8 ≤ f.data.length) :
    (pass B f keys true det).1.head? = (candidates (views f.data det) keys).head?.map Cand.result ∧
    ((pass B f keys true det).1 = [] → (pass B f keys true det).2 = none) := by
  rw [candidates_views]
  obtain ⟨r1, r2⟩ := pass_raw B hB f keys
  cases det with
  | none =>
    simp only [pass, if_true, List.nil_append]
    exact ⟨r1, r2⟩
  | some c =>
    obtain ⟨x, hx, hA⟩ := openView_spec f c (hdet c rfl)
    obtain ⟨x1, x2⟩ := overKeys_spec (sim_xor _ _ _ _) B hB true (decodedView f.data c) keys x _ hA rfl
    simp only [pass, if_true, hx]
    generalize overKeys xorView B true keys x = t1 at x1 x2
    obtain ⟨ys, fin⟩ := t1
    cases ys with
    | nil =>
      obtain ⟨s', hs'⟩ := x2 rfl
      simp only at hs'
      subst hs'
      have hnone : (candsIn true (decodedView f.data c) keys).head? = none := by
        cases hh : (candsIn true (decodedView f.data c) keys).head? with
        | none => rfl
        | some v => rw [hh] at x1; simp at x1
      have hnil := List.head?_eq_none_iff.mp hnone
      simp only [hnil, List.nil_append, ne_eq, not_true_eq_false, if_false]
      exact ⟨r1, r2⟩
    | cons y ys' =>
      simp only [List.head?_cons] at x1
      have hhead : ((candsIn true (decodedView f.data c) keys) ++ candsIn false f.data keys).head?
          = (candsIn true (decodedView f.data c) keys).head? := by
        cases hh : candsIn true (decodedView f.data c) keys with
        | nil => rw [hh] at x1; simp at x1
        | cons a as => rfl
      rw [hhead, ← x1]
      cases fin with
      | ok s' => simp
      | error e =>
        by_cases he : e = .valueError
        · simp [he]
        · simp [he]


theorem fromFile_spec (B : Nat) (hB : 1 ≤ B) (f : PyFile) (ks : List Bytes) (allKeys : Bool) (det : Option Nat)
    (hdet : ∀ c, det = some c → c + 8 ≤ f.data.length) (left : List Bytes) (guard : Option Result) :
    fromFile B f ks allKeys det left guard = extractSpec f.data ks allKeys det left guard := by
  obtain ⟨p1, p2⟩ := pass_spec B hB f (effKeys ks) det hdet
  obtain ⟨q1, q2⟩ := pass_spec B hB f (effKeys left) det hdet
  simp only [fromFile, iterConfigBlocks, extractSpec]
  generalize pass B f (effKeys ks) true det = r at p1 p2
  generalize pass B f (effKeys left) true det = r2 at q1 q2
  generalize (candidates (views f.data det) (effKeys ks)).head? = c1 at p1
  generalize (candidates (views f.data det) (effKeys left)).head? = c2 at q1
  obtain ⟨ys, e⟩ := r
  cases ys with
  | cons y ys' =>
    cases c1 with
    | none => simp at p1
    | some c =>
      simp only [List.head?_cons, Option.map_some, Option.some.injEq] at p1
      subst p1
      cases e <;> simp
  | nil =>
    have he := p2 rfl
    simp only at he
    subst he
    cases c1 with
    | some c => simp at p1
    | none =>
      cases allKeys with
      | false => simp
      | true =>
        obtain ⟨ys2, e2⟩ := r2
        cases ys2 with
        | cons y ys' =>
          cases c2 with
          | none => simp at q1
          | some c =>
            simp only [List.head?_cons, Option.map_some, Option.some.injEq] at q1
            subst q1
            simp
        | nil =>
          have he2 := q2 rfl
          simp only at he2
          subst he2
          cases c2 with
          | some c => simp at q1
          | none => simp



/-! ### (4) order lemmas about `candidates` -/

theorem head?_flatMap_some {α β} (g : α → List β) : ∀ (l : List α) (y : β), (l.flatMap g).head? = some y →
    ∃ pre x post, l = pre ++ x :: post ∧ (∀ z ∈ pre, g z = []) ∧ (g x).head? = some y := by
  intro l
  induction l with
  | nil => intro y h; simp at h
  | cons a l ih =>
    intro y h
    rw [List.flatMap_cons] at h
    cases hg : g a with
    | nil =>
      rw [hg, List.nil_append] at h
      obtain ⟨pre, x, post, h1, h2, h3⟩ := ih y h
      refine ⟨a :: pre, x, post, by rw [h1]; rfl, ?_, h3⟩
      intro z hz
      rcases List.mem_cons.mp hz with rfl | hz
      · exact hg
      · exact h2 z hz
    | cons b bs =>
      rw [hg] at h
      simp only [List.cons_append, List.head?_cons, Option.some.injEq] at h
      exact ⟨[], a, l, rfl, (by intro z hz; cases hz), (by rw [hg, ← h]; rfl)⟩

theorem mem_candsIn {enc : Bool} {plain : Bytes} {keys : List Bytes} {c : Cand} :
    c ∈ candsIn enc plain keys ↔
      c.xorencoded = enc ∧ c.plain = plain ∧ c.key ∈ keys ∧ c.offset ∈ occK plain c.key := by
  simp only [candsIn, List.mem_flatMap, List.mem_map]
  constructor
  · rintro ⟨k, hk, i, hi, rfl⟩
    exact ⟨rfl, rfl, hk, hi⟩
  · rintro ⟨h1, h2, h3, h4⟩
    refine ⟨c.key, h3, c.offset, h4, ?_⟩
    cases c; simp_all

theorem candsIn_head_least (enc : Bool) (plain : Bytes) (keys : List Bytes) (c : Cand)
    (h : (candsIn enc plain keys).head? = some c) :
    c ∈ candsIn enc plain keys ∧
    ∀ c' ∈ candsIn enc plain keys,
      keys.idxOf c.key ≤ keys.idxOf c'.key ∧ (c'.key = c.key → c.offset ≤ c'.offset) := by
  refine ⟨List.mem_of_mem_head? (by rw [h]; rfl), ?_⟩
  obtain ⟨pre, k, post, hk, hpre, hhd⟩ := head?_flatMap_some _ keys c h
  cases hO : occK plain k with
  | nil => rw [hO] at hhd; simp at hhd
  | cons i rest =>
    rw [hO] at hhd
    simp only [List.map_cons, List.head?_cons, Option.some.injEq] at hhd
    subst hhd
    have hpre' : ∀ z ∈ pre, occK plain z = [] := by
      intro z hz
      have := hpre z hz
      exact List.map_eq_nil_iff.mp this
    have hknot : k ∉ pre := by
      intro hk'
      rw [hpre' k hk'] at hO; cases hO
    have hidx : keys.idxOf k = pre.length := by
      rw [hk, List.idxOf_append, if_neg hknot]; simp
    intro c' hc'
    obtain ⟨_, _, hkey, hoff⟩ := mem_candsIn.mp hc'
    have hc'not : c'.key ∉ pre := by
      intro hk'
      rw [hpre' _ hk'] at hoff; cases hoff
    refine ⟨?_, ?_⟩
    · show keys.idxOf k ≤ _
      rw [hidx, hk, List.idxOf_append, if_neg hc'not]; omega
    · intro heq
      show i ≤ c'.offset
      simp only at heq
      rw [heq, hO] at hoff
      have hs := C15.occ_ascending plain (C20.xor configHeader k)
      unfold occK at hO
      rw [hO, List.pairwise_cons] at hs
      rcases List.mem_cons.mp hoff with h1 | h1
      · omega
      · have := hs.1 _ h1; omega


theorem mem_candidates {data : Bytes} {det : Option Nat} {keys : List Bytes} {c : Cand} :
    c ∈ candidates (views data det) keys ↔
      ((c.xorencoded = true ∧ ∃ n, det = some n ∧ c.plain = decodedView data n) ∨
       (c.xorencoded = false ∧ c.plain = data)) ∧
      c.key ∈ keys ∧ c.offset ∈ occK c.plain c.key := by
  rw [candidates_views, List.mem_append]
  cases det with
  | none =>
    simp only [List.not_mem_nil, false_or, mem_candsIn]
    constructor
    · rintro ⟨h1, h2, h3, h4⟩
      exact ⟨Or.inr ⟨h1, h2⟩, h3, by rw [h2]; exact h4⟩
    · rintro ⟨h | h, h3, h4⟩
      · obtain ⟨_, n, hn, _⟩ := h; cases hn
      · exact ⟨h.1, h.2, h3, by rw [← h.2]; exact h4⟩
  | some n =>
    simp only [mem_candsIn]
    constructor
    · rintro (⟨h1, h2, h3, h4⟩ | ⟨h1, h2, h3, h4⟩)
      · exact ⟨Or.inl ⟨h1, n, rfl, h2⟩, h3, by rw [h2]; exact h4⟩
      · exact ⟨Or.inr ⟨h1, h2⟩, h3, by rw [h2]; exact h4⟩
    · rintro ⟨h | h, h3, h4⟩
      · obtain ⟨h1, m, hm, h2⟩ := h
        cases hm
        exact Or.inl ⟨h1, h2, h3, by rw [← h2]; exact h4⟩
      · exact Or.inr ⟨h.1, h.2, h3, by rw [← h.2]; exact h4⟩

theorem candidates_head_least (data : Bytes) (det : Option Nat) (keys : List Bytes) (c : Cand)
    (h : (candidates (views data det) keys).head? = some c) :
    c ∈ candidates (views data det) keys ∧
    ∀ c' ∈ candidates (views data det) keys,
      (c'.xorencoded = true → c.xorencoded = true) ∧
      (c'.xorencoded = c.xorencoded →
        keys.idxOf c.key ≤ keys.idxOf c'.key ∧ (c'.key = c.key → c.offset ≤ c'.offset)) := by
  refine ⟨List.mem_of_mem_head? (by rw [h]; rfl), ?_⟩
  rw [candidates_views] at h ⊢
  have raw_case : ∀ (hh : (candsIn false data keys).head? = some c), ∀ c' ∈ candsIn false data keys,
      (c'.xorencoded = true → c.xorencoded = true) ∧
      (c'.xorencoded = c.xorencoded →
        keys.idxOf c.key ≤ keys.idxOf c'.key ∧ (c'.key = c.key → c.offset ≤ c'.offset)) := by
    intro hh c' hc'
    obtain ⟨hm, hl⟩ := candsIn_head_least false data keys c hh
    have hc'f := (mem_candsIn.mp hc').1
    exact ⟨fun ht => (by rw [hc'f] at ht; cases ht), fun _ => hl c' hc'⟩
  cases det with
  | none =>
    simp only [List.nil_append] at h ⊢
    exact raw_case h
  | some n =>
    simp only at h ⊢
    cases hA : candsIn true (decodedView data n) keys with
    | nil =>
      rw [hA, List.nil_append] at h
      rw [List.nil_append]
      exact raw_case h
    | cons a as =>
      rw [hA] at h
      simp only [List.cons_append, List.head?_cons, Option.some.injEq] at h
      subst h
      have hhd : (candsIn true (decodedView data n) keys).head? = some a := by rw [hA]; rfl
      obtain ⟨hm, hl⟩ := candsIn_head_least true _ keys a hhd
      have hat := (mem_candsIn.mp hm).1
      intro c' hc'
      refine ⟨fun _ => hat, ?_⟩
      intro heq
      rcases List.mem_append.mp hc' with h1 | h1
      · rw [← hA] at h1; exact hl c' h1
      · have := (mem_candsIn.mp h1).1
        rw [heq, hat] at this; cases this

/-- the head of a `flatMap` only depends on the heads of the pieces -/
theorem head?_flatMap_congr {α β} (g g' : α → List β) : ∀ (l : List α),
    (∀ x ∈ l, (g x).head? = (g' x).head?) → (l.flatMap g).head? = (l.flatMap g').head? := by
  intro l
  induction l with
  | nil => intro _; rfl
  | cons a l ih =>
    intro h
    rw [List.flatMap_cons, List.flatMap_cons, List.head?_append, List.head?_append,
      h a (List.mem_cons_self ..), ih (fun x hx => h x (List.mem_cons_of_mem _ hx))]

/-- when at most the key `k0` has occurrences, the first candidate of a view does not depend on the key order -/
theorem candsIn_head_single (enc : Bool) (plain k0 : Bytes) : ∀ (keys : List Bytes),
    (∀ k ∈ keys, k ≠ k0 → occK plain k = []) →
    (candsIn enc plain keys).head? =
      if k0 ∈ keys then ((occK plain k0).map (fun i => (⟨enc, plain, k0, i⟩ : Cand))).head? else none := by
  intro keys
  induction keys with
  | nil => intro _; rfl
  | cons k ks ih =>
    intro h
    rw [candsIn_cons, List.head?_append]
    have ih' := ih (fun k' hk' => h k' (List.mem_cons_of_mem _ hk'))
    by_cases hk : k = k0
    · subst hk
      simp only [List.mem_cons, true_or, if_true]
      rw [ih']
      by_cases hm : k ∈ ks
      · simp only [hm, if_true]; cases ((occK plain k).map (fun i => (⟨enc, plain, k, i⟩ : Cand))).head? <;> rfl
      · simp only [hm, if_false]; cases ((occK plain k).map (fun i => (⟨enc, plain, k, i⟩ : Cand))).head? <;> rfl
    · rw [h k (List.mem_cons_self ..) hk, ih']
      have : (k0 ∈ k :: ks) ↔ k0 ∈ ks := by
        simp only [List.mem_cons]
        constructor
        · rintro (h1 | h1)
          · exact absurd h1.symm hk
          · exact h1
        · exact Or.inr
      simp only [this, List.map_nil, List.head?_nil, Option.none_or]

/-! ### (5) the residual key order is a permutation of `make_byte_list` -/

theorem insertByRank_perm (r : Bytes → Nat) (k : Bytes) (l : List Bytes) : (insertByRank r k l).Perm (k :: l) := by
  induction l with
  | nil => exact List.Perm.refl _
  | cons h t ih =>
    unfold insertByRank
    split
    · exact List.Perm.refl _
    · exact (List.Perm.cons h ih).trans (List.Perm.swap k h t)

theorem stableSort_perm (r : Bytes → Nat) (l : List Bytes) : (stableSort r l).Perm l := by
  induction l with
  | nil => exact List.Perm.refl _
  | cons h t ih =>
    show (insertByRank r h (stableSort r t)).Perm (h :: t)
    exact (insertByRank_perm r h _).trans (List.Perm.cons h ih)

theorem mem_makeByteList (exclude : List Bytes) (k : Bytes) :
    k ∈ makeByteList exclude ↔ (∃ b : UInt8, k = [b]) ∧ k ∉ exclude := by
  simp only [makeByteList, List.mem_filter, List.mem_map, List.mem_range, Bool.not_eq_eq_eq_not, Bool.not_true,
    List.contains_eq_mem, decide_eq_false_iff_not]
  constructor
  · rintro ⟨⟨n, _, rfl⟩, h2⟩
    exact ⟨⟨_, rfl⟩, h2⟩
  · rintro ⟨⟨b, rfl⟩, h2⟩
    refine ⟨⟨b.toNat, b.toNat_lt, ?_⟩, h2⟩
    simp



/-! ### `find_mz_offset` on a view without decoded bytes -/

theorem xread_at_eof (y : C09.XorFile) (h : y.fh.data.length ≤ y.fh.pos) (n : Nat) (hn : 1 ≤ n) :
    C09.read y (some (n : Int)) = .ok ([], y) := by
  rw [C09.read_unfold]
  have hN : C09.normN (some (n : Int)) = (n : Int) := by
    simp only [C09.normN]; rw [if_neg (by omega)]
  rw [hN, if_neg (by omega)]
  obtain ⟨nonce, hno⟩ := C09.readNonce_restores y
  rw [hno]
  dsimp only
  rw [C09.readLoop_at_eof _ _ _ _ h]
  simp only [List.length_nil, List.take_nil]
  rw [if_neg (by omega), if_neg (by omega)]

theorem mzStep_short (x : C09.XorFile) (h : x.fh.data.length ≤ x.nonceOff + 8) (start maxrange offset : Nat) :
    ∃ q, C09.mzStep x start maxrange offset = .ok (none, x.withPos q) := by
  unfold C09.mzStep
  rw [C09.seek_set_nonneg x _ (by omega)]
  dsimp only
  have hr := xread_at_eof (x.withPos ((((start + offset : Nat) : Int) + x.nonceOff + 8).toNat))
    (by simp only [C09.XorFile.withPos]; omega) 64 (by omega)
  have e64 : ((64 : Nat) : Int) = 64 := rfl
  rw [e64] at hr
  rw [hr]
  exact ⟨_, rfl⟩

theorem mzLoop_short (start maxrange : Nat) (k : Nat) : ∀ (offset : Nat) (x : C09.XorFile),
    x.fh.data.length ≤ x.nonceOff + 8 → ∃ q, C09.mzLoop start maxrange k offset x = .ok (none, x.withPos q) := by
  induction k with
  | zero => intro offset x _; exact ⟨x.fh.pos, rfl⟩
  | succ k ih =>
    intro offset x h
    rw [C09.mzLoop_succ]
    obtain ⟨q, hq⟩ := mzStep_short x h start maxrange offset
    rw [hq]
    obtain ⟨q', hq'⟩ := ih (offset + 1) (x.withPos q) h
    exact ⟨q', hq'⟩



/-! ### (6) the detector run by the driver is C09's detector -/

theorem needleLoop_frame (B : Nat) (needle : Bytes) (m : Nat) (f : PyFile) (saved : Bytes) :
    (C15.needleLoop B needle m f saved).2.data = f.data ∧ (C15.needleLoop B needle m f saved).2.kind = f.kind := by
  fun_induction C15.needleLoop B needle m f saved with
  | case1 f saved pos hcut => exact ⟨rfl, rfl⟩
  | case2 f saved pos hcut hblk => exact ⟨rfl, rfl⟩
  | case3 f saved pos hcut hblk block d offs rest ih => exact ih

theorem iterFindNeedle_frame (B : Nat) (f : PyFile) (needle : Bytes) (s : Option Int) (m : Nat) (r : List Int) (f' : PyFile)
    (h : C15.iterFindNeedle B f needle s m = .ok (r, f')) : f'.data = f.data ∧ f'.kind = f.kind := by
  unfold C15.iterFindNeedle at h
  cases s with
  | none =>
    injection h with h
    have := needleLoop_frame B needle m f []
    rw [h] at this; exact this
  | some v =>
    simp only at h
    cases hs : f.seekSet v with
    | error e => rw [hs] at h; cases h
    | ok p =>
      obtain ⟨q, g⟩ := p
      rw [hs] at h
      injection h with h
      have := needleLoop_frame B needle m g []
      rw [h] at this
      unfold PyFile.seekSet at hs
      split at hs
      · cases hs
      · injection hs with hs
        injection hs with _ hg
        subst hg
        exact this

attribute [local irreducible] C09.mzLoop

theorem tryCands_cons (g : PyFile) (c : Nat) (cs : List Nat) :
    tryCands g (c :: cs) =
      match C09.mk' g c with
      | .error e => .error e
      | .ok xf =>
        match C09.findMzOffset xf 0 1024 with
        | .error e => .error e
        | .ok (some _, xf1) =>
          match C09.seek xf1 0 0 with
          | .error e => .error e
          | .ok (_, xf') => .ok (some xf', xf'.fh)
        | .ok (none, xf1) => tryCands xf1.fh cs := by rfl

theorem tryCands_refines : ∀ (cs : List Nat) (g g' : PyFile), g.data = g'.data → g.kind = g'.kind →
    (∀ x h, tryCands g cs = .ok (some x, h) → C09.tryCandidatesFull g' cs = .ok x) ∧
    (∀ h, tryCands g cs = .ok (none, h) → C09.tryCandidatesFull g' cs = .error .valueError) := by
  intro cs
  induction cs with
  | nil =>
    intro g g' _ _
    refine ⟨?_, fun _ _ => rfl⟩
    intro x h hh
    have : tryCands g [] = .ok (none, g) := rfl
    rw [this] at hh
    injection hh with hh
    injection hh with hh _
    cases hh
  | cons c cs ih =>
    intro g g' hd hk
    have hmk := C09.mk'_congr g g' c hd hk
    rw [tryCands_cons, C09.tryCandidatesFull_cons, ← hmk]
    cases C09.mk' g c with
    | error e => exact ⟨fun x h hh => (by cases hh), fun h hh => (by cases hh)⟩
    | ok xf =>
      simp only
      cases C09.findMzOffset xf 0 1024 with
      | error e => exact ⟨fun x h hh => (by cases hh), fun h hh => (by cases hh)⟩
      | ok p =>
        obtain ⟨r, xf1⟩ := p
        cases r with
        | none => exact ih xf1.fh xf1.fh rfl rfl
        | some v =>
          simp only
          cases C09.seek xf1 0 0 with
          | error e => exact ⟨fun x h hh => (by cases hh), fun h hh => (by cases hh)⟩
          | ok q =>
            obtain ⟨_, xf'⟩ := q
            refine ⟨?_, fun h hh => (by cases hh)⟩
            intro x h hh
            injection hh with hh
            injection hh with hh _
            injection hh with hh
            rw [hh]

/-- the detector the driver runs (`detectRun`, which also reports where a failing run leaves the file) gives the answer of
C09's `fromFileFull` for the marker hits the C15 scan reports -/
theorem detectRun_refines (B : Nat) (f : PyFile) (offs : List Nat) (f1 : PyFile) (hits : List Int) (f2 : PyFile)
    (h1 : C09.iterNonceOffsets f none 1024 = .ok (offs, f1))
    (h2 : C15.iterFindNeedle B f1 [0xff, 0xff, 0xff] (some 0) 1024 = .ok (hits, f2)) :
    (∀ x g, detectRun B f = .ok (some x, g) → C09.fromFileFull f 1024 (hits.map Int.toNat) = .ok x) ∧
    (∀ g, detectRun B f = .ok (none, g) → C09.fromFileFull f 1024 (hits.map Int.toNat) = .error .valueError) := by
  obtain ⟨hd, hk⟩ := iterFindNeedle_frame B f1 _ _ _ _ _ h2
  simp only [detectRun, C09.fromFileFull, h1, h2]
  exact tryCands_refines _ f2 f1 hd hk



/-! ### (7) a detected view has its header inside the file (`DetOk` for the driver's detector) -/

theorem tryCands_bound : ∀ (cs : List Nat) (g : PyFile) (x : C09.XorFile) (h : PyFile),
    tryCands g cs = .ok (some x, h) → x.nonceOff + 8 < g.data.length := by
  intro cs
  induction cs with
  | nil =>
    intro g x h hh
    have : tryCands g [] = .ok (none, g) := rfl
    rw [this] at hh
    injection hh with hh
    injection hh with hh _
    cases hh
  | cons c cs ih =>
    intro g x h hh
    rw [tryCands_cons] at hh
    obtain ⟨xf, hxf, hoff, hdata, _⟩ := C09.mk'_ok g c
    rw [hxf] at hh
    simp only at hh
    obtain ⟨r, q, hr⟩ := C09.findMzOffset_total xf 0 1024
    rw [hr] at hh
    cases r with
    | none =>
      simp only at hh
      have := ih _ x h hh
      simp only [C09.XorFile.withPos] at this
      rw [hdata] at this
      exact this
    | some v =>
      simp only at hh
      rw [C09.seek0_ok] at hh
      simp only at hh
      injection hh with hh
      injection hh with hh _
      injection hh with hh
      subst hh
      simp only [C09.XorFile.withPos]
      rw [hoff]
      apply Classical.byContradiction
      intro hlt
      have hshort : xf.fh.data.length ≤ xf.nonceOff + 8 := by rw [hdata, hoff]; omega
      obtain ⟨q', hq'⟩ := mzLoop_short 0 1024 1024 0 xf hshort
      have : C09.findMzOffset xf 0 1024 = .ok (none, xf.withPos q') := hq'
      rw [this] at hr
      injection hr with hr
      injection hr with hr _
      cases hr

/-- a view returned by the detector has its nonce and size dword (and more) inside the file -/
theorem detectRun_bound (B : Nat) (f : PyFile) (x : C09.XorFile) (g : PyFile)
    (h : detectRun B f = .ok (some x, g)) : x.nonceOff + 8 < f.data.length := by
  unfold detectRun at h
  obtain ⟨offs, f1, h1, hd1, _⟩ := C09.iterNonceOffsets_ok f 1024
  rw [h1] at h
  simp only at h
  cases h2 : C15.iterFindNeedle B f1 [0xff, 0xff, 0xff] (some 0) 1024 with
  | error e => rw [h2] at h; cases h
  | ok p =>
    obtain ⟨hits, f2⟩ := p
    rw [h2] at h
    simp only at h
    have := tryCands_bound _ f2 x g h
    rw [(iterFindNeedle_frame B f1 _ _ _ _ _ h2).1, hd1] at this
    exact this


/-! ### (8) the driver's detector is `C09.fromFileReal` -/

theorem tryCands_full : ∀ (cs : List Nat) (g : PyFile),
    (∃ x h, tryCands g cs = .ok (some x, h) ∧ C09.tryCandidatesFull g cs = .ok x) ∨
    (∃ h, tryCands g cs = .ok (none, h) ∧ C09.tryCandidatesFull g cs = .error .valueError) := by
  intro cs
  induction cs with
  | nil => intro g; exact Or.inr ⟨g, rfl, rfl⟩
  | cons c cs ih =>
    intro g
    obtain ⟨x0, hx0, _, _, _⟩ := C09.mk'_ok g c
    obtain ⟨r, q, hr⟩ := C09.findMzOffset_total x0 0 1024
    rw [tryCands_cons, C09.tryCandidatesFull_cons]
    simp only [hx0, hr]
    cases r with
    | some v => simp only [C09.seek0_ok]; exact Or.inl ⟨_, _, rfl, rfl⟩
    | none => exact ih _

/-- `detectRun` answers exactly as `C09.fromFileReal` (the subject of C09's `detect_*_real` theorems) with
`maxrange = 1024`, and never raises -/
theorem detectRun_real (B : Nat) (f : PyFile) :
    (∃ x h, detectRun B f = .ok (some x, h) ∧ C09.fromFileReal B f 1024 = .ok x) ∨
    (∃ h, detectRun B f = .ok (none, h) ∧ C09.fromFileReal B f 1024 = .error .valueError) := by
  obtain ⟨l, f1, hl, _, _⟩ := C09.iterNonceOffsets_ok f 1024
  obtain ⟨hits, f2, hm, _, _⟩ := C09.markerScan_ok B f1 1024
  have hm' : C15.iterFindNeedle B f1 [0xff, 0xff, 0xff] (some 0) 1024 = .ok (hits, f2) := hm
  simp only [detectRun, C09.fromFileReal, hl, hm, hm']
  exact tryCands_full _ f2

/-! ### (9) the all-keys counter never raises -/

theorem countLoop_ok {σ : Type} {F : FileLike σ} {abs : σ → PyFile → Prop} (hS : Sim F abs) (B : Nat) :
    ∀ (n : Nat) (s : σ) (pf : PyFile) (acc : List (Nat × Nat)), abs s pf → pf.data.length - pf.pos ≤ n →
      ∃ r, countLoop F B s acc = .ok r := by
  intro n
  induction n with
  | zero =>
    intro s pf acc ha hn
    obtain ⟨s', hr, _⟩ := hS.read s pf B ha
    have hnil : (pf.read (B : Int)).1 = [] := by
      rw [PyFile.read_nonneg]
      have : pf.data.drop pf.pos = [] := List.drop_eq_nil_iff.mpr (by omega)
      rw [this]; exact List.take_nil
    rw [countLoop, hr]
    simp only [hnil, if_true]
    exact ⟨_, rfl⟩
  | succ n ih =>
    intro s pf acc ha hn
    obtain ⟨s', hr, ha'⟩ := hS.read s pf B ha
    rw [countLoop, hr]
    simp only
    by_cases hnil : (pf.read (B : Int)).1 = []
    · rw [if_pos hnil]; exact ⟨_, rfl⟩
    · rw [if_neg hnil]
      have hp := C15.read_progress pf B hnil
      have hrem : F.remaining s' < F.remaining s := by
        rw [hS.remaining s' _ ha', hS.remaining s pf ha]; exact hp
      rw [dif_pos hrem]
      exact ih s' _ _ ha' (by omega)

theorem leftKeys_ok (B : Nat) (f : PyFile) (det : Option Nat) (hdet : ∀ c, det = some c → c + 8 ≤ f.data.length)
    (failPos : Nat) (ks : List Bytes) : ∃ left, leftKeys B f det failPos ks = .ok left := by
  unfold leftKeys leftCounts
  cases det with
  | none =>
    obtain ⟨r, hr⟩ := countLoop_ok sim_raw B _ ({ f with pos := failPos } : PyFile) _ [] rfl (Nat.le_refl _)
    simp only [hr]
    exact ⟨_, rfl⟩
  | some c =>
    obtain ⟨x, hx, hA⟩ := openView_spec f c (hdet c rfl)
    obtain ⟨r, hr⟩ := countLoop_ok (sim_xor _ _ _ _) B _ x _ [] hA (Nat.le_refl _)
    simp only [hx, hr]
    exact ⟨_, rfl⟩

/-- the residual keys are single bytes that are not among the given keys -/
theorem leftKeys_mem (B : Nat) (f : PyFile) (det : Option Nat) (failPos : Nat) (ks left : List Bytes)
    (h : leftKeys B f det failPos ks = .ok left) (k : Bytes) (hk : k ∈ left) : k ∈ makeByteList [] := by
  unfold leftKeys at h
  cases hc : leftCounts B f det failPos with
  | error e => rw [hc] at h; cases h
  | ok cnt =>
    rw [hc] at h
    injection h with h
    rw [← h] at hk
    have := ((stableSort_perm _ _).mem_iff).mp hk
    rw [mem_makeByteList] at this ⊢
    exact ⟨this.1, by simp⟩

/-! ### (10) the search, and `from_file` with nothing left as a parameter -/

theorem search_spec (B : Nat) (hB : 1 ≤ B) (f : PyFile) (ks : List Bytes) (allKeys : Bool) (det : Option Nat)
    (hdet : ∀ c, det = some c → c + 8 ≤ f.data.length) (failPos : Nat) :
    ∃ left, leftKeys B f det failPos ks = .ok left ∧
      search B f ks allKeys det failPos = .ok ((searchSpec f.data ks allKeys det left).map Cand.result) := by
  obtain ⟨p1, p2⟩ := pass_spec B hB f (effKeys ks) det hdet
  obtain ⟨left, hleft⟩ := leftKeys_ok B f det hdet failPos ks
  obtain ⟨q1, q2⟩ := pass_spec B hB f (effKeys left) det hdet
  refine ⟨left, hleft, ?_⟩
  simp only [search, searchSpec, hleft]
  generalize pass B f (effKeys ks) true det = r at p1 p2
  generalize pass B f (effKeys left) true det = r2 at q1 q2
  generalize (candidates (views f.data det) (effKeys ks)).head? = c1 at p1
  generalize (candidates (views f.data det) (effKeys left)).head? = c2 at q1
  obtain ⟨ys, e⟩ := r
  cases ys with
  | cons y ys' =>
    cases c1 with
    | none => simp at p1
    | some c =>
      simp only [List.head?_cons, Option.map_some, Option.some.injEq] at p1
      subst p1
      rfl
  | nil =>
    have he := p2 rfl
    simp only at he
    subst he
    cases c1 with
    | some c => simp at p1
    | none =>
      cases allKeys with
      | false => rfl
      | true =>
        obtain ⟨ys2, e2⟩ := r2
        cases ys2 with
        | cons y ys' =>
          cases c2 with
          | none => simp at q1
          | some c =>
            simp only [List.head?_cons, Option.map_some, Option.some.injEq] at q1
            subst q1
            rfl
        | nil =>
          have he2 := q2 rfl
          simp only at he2
          subst he2
          cases c2 with
          | some c => simp at q1
          | none => rfl

/-- **`from_file` = specification, nothing left as a parameter.**  `det` is the detector's answer characterised through
`C09.fromFileReal`, `left` the residual key order `leftKeys` computes. -/
theorem fromFileReal_spec (B : Nat) (hB : 1 ≤ B) (f : PyFile) (ks : List Bytes) (allKeys : Bool) :
    ∃ (det : Option Nat) (failPos : Nat) (left : List Bytes),
      (match det with
       | some c => ∃ x, C09.fromFileReal B f 1024 = .ok x ∧ x.nonceOff = c
       | none => C09.fromFileReal B f 1024 = .error .valueError) ∧
      (∀ c, det = some c → c + 8 ≤ f.data.length) ∧
      leftKeys B f det failPos ks = .ok left ∧
      fromFileReal B f ks allKeys =
        match searchSpec f.data ks allKeys det left with
        | some c => .ok c.result.extracted
        | none => guardFallback B (fhFor f det) := by
  rcases detectRun_real B f with ⟨x, h, hd, hr⟩ | ⟨h, hd, hr⟩
  · have hdet : ∀ c, (some x.nonceOff) = some c → c + 8 ≤ f.data.length := by
      intro c hc
      injection hc with hc
      subst hc
      exact Nat.le_of_lt (detectRun_bound B f x h hd)
    obtain ⟨left, hl, hs⟩ := search_spec B hB f ks allKeys (some x.nonceOff) hdet h.pos
    refine ⟨some x.nonceOff, h.pos, left, ⟨x, hr, rfl⟩, hdet, hl, ?_⟩
    simp only [fromFileReal, hd, Option.map_some, hs]
    cases searchSpec f.data ks allKeys (some x.nonceOff) left <;> rfl
  · have hdet : ∀ c, (none : Option Nat) = some c → c + 8 ≤ f.data.length := by intro c hc; cases hc
    obtain ⟨left, hl, hs⟩ := search_spec B hB f ks allKeys none hdet h.pos
    refine ⟨none, h.pos, left, hr, hdet, hl, ?_⟩
    simp only [fromFileReal, hd, Option.map_none, hs]
    cases searchSpec f.data ks allKeys none left <;> rfl

/-! ### (11) the least candidate is the head of the candidate list -/

theorem idxOf_inj_of_mem {l : List Bytes} {a b : Bytes} (ha : a ∈ l) (hb : b ∈ l) (h : l.idxOf a = l.idxOf b) : a = b := by
  have h1 := List.getElem_idxOf (List.idxOf_lt_length_iff.mpr ha)
  have h2 := List.getElem_idxOf (List.idxOf_lt_length_iff.mpr hb)
  rw [← h1, ← h2]
  simp only [h]

theorem candsIn_head_of_least (enc : Bool) (plain : Bytes) (keys : List Bytes) (k : Bytes) (i : Nat)
    (hk : k ∈ keys) (hi : i ∈ occK plain k)
    (hleast : ∀ k' ∈ keys, ∀ i' ∈ occK plain k', keys.idxOf k ≤ keys.idxOf k' ∧ (k' = k → i ≤ i')) :
    (candsIn enc plain keys).head? = some ⟨enc, plain, k, i⟩ := by
  have hmem : (⟨enc, plain, k, i⟩ : Cand) ∈ candsIn enc plain keys := mem_candsIn.mpr ⟨rfl, rfl, hk, hi⟩
  cases hh : (candsIn enc plain keys).head? with
  | none => rw [List.head?_eq_none_iff.mp hh] at hmem; cases hmem
  | some c =>
    obtain ⟨hc, hmin⟩ := candsIn_head_least enc plain keys c hh
    obtain ⟨he, hp, hck, hco⟩ := mem_candsIn.mp hc
    obtain ⟨m1, m2⟩ := hmin _ hmem
    obtain ⟨l1, l2⟩ := hleast c.key hck c.offset hco
    have hkey : c.key = k := idxOf_inj_of_mem hck hk (Nat.le_antisymm m1 l1)
    have hoff : c.offset = i := Nat.le_antisymm (m2 hkey.symm) (l2 hkey)
    obtain ⟨ce, cp, ck, co⟩ := c
    simp only at he hp hkey hoff
    subst he hp hkey hoff
    rfl

theorem candsIn_nil_of_noHeader (enc : Bool) (plain : Bytes) (keys : List Bytes)
    (h : ∀ k ∈ keys, occK plain k = []) : candsIn enc plain keys = [] := by
  apply List.eq_nil_iff_forall_not_mem.mpr
  intro c hc
  obtain ⟨_, _, hk, ho⟩ := mem_candsIn.mp hc
  rw [h c.key hk] at ho
  cases ho

/-! ### (12) the decoded view of a stage -/

theorem decodedView_layout (stub nonce size enc : Bytes) (hn : nonce.length = 4) (hs : size.length = 4) :
    decodedView (stub ++ nonce ++ size ++ enc) stub.length = C09.rollDecode nonce enc := by
  unfold decodedView
  have e1 : ((stub ++ nonce ++ size ++ enc).drop stub.length).take 4 = nonce := by
    simp only [List.append_assoc]; rw [List.drop_left, List.take_left' hn]
  have e2 : (stub ++ nonce ++ size ++ enc).drop (stub.length + 8) = enc := by
    have : stub.length + 8 = (stub ++ nonce ++ size).length := by simp [hn, hs]
    rw [this, List.drop_left]
  rw [e1, e2]

/-! ### (13) Guardrails fallback -/
open Gen.Guardrails in
/-- no Guardrails record that the marker scan reports in `v` can be completed: at every offset where the marker relation
holds (and a 6144-byte area fits in front) no candidate key reproduces the stored checksum.  Holds trivially when the
marker relation holds nowhere, and for every `v` of at most 6138 bytes. -/
def GuardClean (B : Nat) (v : Bytes) : Prop :=
  ∀ off, off < v.length → C17.markerAt v (C17.maskedStarts defaultGuardXorKey) 6 off → BEACON_CONFIG_PATCH_SIZE ≤ off + 6 →
    C17.NoMatch B (C17.metaAt v defaultGuardXorKey (off + 6) (off + 6 - BEACON_CONFIG_PATCH_SIZE))

open Gen.Guardrails in
theorem guardClean_of_short (B : Nat) (v : Bytes) (h : v.length + 6 ≤ BEACON_CONFIG_PATCH_SIZE) : GuardClean B v := by
  intro off hoff _ h6
  omega

open Gen.Guardrails in
theorem guardClean_of_no_marker (B : Nat) (v : Bytes)
    (h : ∀ off, off < v.length → ¬ C17.markerAt v (C17.maskedStarts defaultGuardXorKey) 6 off) : GuardClean B v := by
  intro off hoff hm _
  exact absurd hm (h off hoff)

theorem guardFallback_clean (B : Nat) (f : PyFile) (h : GuardClean B f.data) : guardFallback B f = .error .valueError := by
  unfold guardFallback
  rw [C17.no_match_valueError f B]
  intro ms hms m hm
  obtain ⟨off, h1, h2, h3, rfl⟩ := (C17.scan_reports_iff f _ ms hms m).mp hm
  exact h off h1 h2 h3

theorem fromFileFallback_data (f g : PyFile) (h : f.data = g.data) (B : Nat) :
    C17.fromFileFallback f B = C17.fromFileFallback g B := by
  unfold C17.fromFileFallback C17.iterGuardrailConfigsWithBeacon
  rw [C17.iterGuardrailConfigs_eq, C17.iterGuardrailConfigs_eq, h]

/-! ### (14) not detected as XorEncoded, in bytes -/

/-- the offsets `XorEncodedFile.from_file` can try, read off the bytes: behind an `ff ff ff` that occurs in the first
2 KiB, or a size-consistent offset below 1024 (C09 `real_candidates_characterised`) -/
def DetectorCandidate (data : Bytes) (c : Nat) : Prop :=
  (∃ h ∈ C15.occ data C09.eofMarker, c = h + 3 ∧ h ≤ 2 * 1024) ∨ (c < 1024 ∧ C09.SizeRel data (data.length : Int) c)

/-- every offset the detector can try decodes to something that fails the MZ check -/
def NotXorEncoded (f : PyFile) : Prop := ∀ c, DetectorCandidate f.data c → C09.mzVerdict f c = false

theorem notXorEncoded_rejects (B : Nat) (hB : 1 ≤ B) (f : PyFile) (h : NotXorEncoded f) :
    ∀ c ∈ C09.realCandidates B f 1024, C09.mzVerdict f c = false := by
  intro c hc
  apply h
  rcases (C09.real_candidates_characterised B hB f 1024 c).1 hc with ⟨p, hp, rfl, hb⟩ | hs
  · exact Or.inl ⟨p, hp, rfl, hb (by omega)⟩
  · exact Or.inr hs

/-- a sufficient condition on the bytes alone: no `ff ff ff` starts in the first 2049 bytes and no offset below 1024
satisfies the size relation — then there is nothing for the detector to try -/
theorem notXorEncoded_of_no_candidate (f : PyFile)
    (hm : ∀ h ∈ C15.occ f.data C09.eofMarker, 2 * 1024 < h)
    (hs : ∀ c, c < 1024 → ¬ C09.SizeRel f.data (f.data.length : Int) c) : NotXorEncoded f := by
  rintro c (⟨p, hp, _, hb⟩ | ⟨hlt, hrel⟩)
  · have := hm p hp; omega
  · exact absurd hrel (hs c hlt)

/-! ### (15) linear-time forms of `C20.xor` (kernel evaluation of the 8 KiB Guardrails example) -/

/-- `C20.xor` as a plain structural recursion (`List.mapIdx` accumulates in an `Array`, which the kernel evaluates in
quadratic time) -/
def xorLin (k : Bytes) : Bytes → Nat → Bytes
  | [], _ => []
  | b :: bs, i => (b ^^^ C20.keyAt k i) :: xorLin k bs (i + 1)

theorem xorLin_length (k : Bytes) : ∀ (d : Bytes) (j : Nat), (xorLin k d j).length = d.length := by
  intro d
  induction d with
  | nil => intro j; rfl
  | cons b bs ih => intro j; simp only [xorLin, List.length_cons, ih]

theorem xorLin_getElem (k : Bytes) : ∀ (d : Bytes) (j i : Nat) (h : i < (xorLin k d j).length),
    (xorLin k d j)[i] = d[i]'(by rw [xorLin_length] at h; exact h) ^^^ C20.keyAt k (j + i) := by
  intro d
  induction d with
  | nil => intro j i h; simp [xorLin] at h
  | cons b bs ih =>
    intro j i h
    cases i with
    | zero => simp [xorLin]
    | succ i =>
      simp only [xorLin, List.getElem_cons_succ]
      rw [ih (j + 1) i]
      congr 2
      omega

theorem xor_eq_xorLin (d k : Bytes) : C20.xor d k = xorLin k d 0 := by
  apply List.ext_getElem
  · rw [C17.xor_length, xorLin_length]
  · intro i h1 h2
    rw [C17.xor_getElem, xorLin_getElem, Nat.zero_add]

theorem xor_eq_zipWith (d k : Bytes) (h : d.length ≤ k.length) : C20.xor d k = List.zipWith (· ^^^ ·) d k := by
  apply List.ext_getElem
  · rw [C17.xor_length, List.length_zipWith]; omega
  · intro i h1 h2
    rw [C17.xor_getElem, List.getElem_zipWith, C17.keyAt_lt]

theorem occ_nil_of_byte (hay needle : Bytes) (b : UInt8) (hb : b ∈ needle) (hn : b ∉ hay) : C15.occ hay needle = [] := by
  apply List.eq_nil_iff_forall_not_mem.mpr
  intro i hi
  obtain ⟨_, h⟩ := (C15.occ_iff hay needle i).mp hi
  rw [← h] at hb
  exact hn (List.mem_of_mem_drop (List.mem_of_mem_take hb))

open Gen.Guardrails C17 in
theorem noEarlierRecord_start (B : Nat) (data : Bytes) (n : Nat) (h : n + 6 ≤ BEACON_CONFIG_PATCH_SIZE) :
    NoEarlierRecord B data n := by
  intro off hoff m hm
  rw [probeAt_none_early _ _ _ off (by omega)] at hm
  cases hm

theorem decodedView_length_le (data : Bytes) (c : Nat) : (decodedView data c).length ≤ data.length := by
  simp only [decodedView, C09.rollDecode_length, List.length_drop]
  omega


theorem keyAt_const (k : Bytes) (c : UInt8) (hne : k ≠ []) (h : ∀ x ∈ k, x = c) (j : Nat) : C20.keyAt k j = c := by
  have hpos : 0 < k.length := List.length_pos_iff.mpr hne
  have hlt : j % k.length < k.length := Nat.mod_lt _ hpos
  unfold C20.keyAt
  rw [← List.getElem_eq_getD (h := hlt)]
  exact h _ (List.getElem_mem hlt)

theorem xorLin_const (k : Bytes) (c : UInt8) (hne : k ≠ []) (h : ∀ x ∈ k, x = c) :
    ∀ (d : Bytes) (j : Nat), xorLin k d j = d.map (· ^^^ c) := by
  intro d
  induction d with
  | nil => intro j; rfl
  | cons b bs ih => intro j; simp only [xorLin, List.map_cons, ih, keyAt_const k c hne h]

/-- a key whose bytes are all `c`: plain byte-wise xor with `c` -/
theorem xor_const_key (d k : Bytes) (c : UInt8) (hne : k ≠ []) (h : ∀ x ∈ k, x = c) : C20.xor d k = d.map (· ^^^ c) := by
  rw [xor_eq_xorLin, xorLin_const k c hne h]

theorem zipWith_replicate_right {α β γ} (f : α → β → γ) (b : β) (rest : List β) :
    ∀ (xs : List α) (n : Nat), xs.length ≤ n → List.zipWith f xs (List.replicate n b ++ rest) = xs.map (f · b) := by
  intro xs
  induction xs with
  | nil => intro n _; simp
  | cons x xs ih =>
    intro n hn
    cases n with
    | zero => simp at hn
    | succ n =>
      rw [List.replicate_succ, List.cons_append, List.zipWith_cons_cons, ih n (by simpa using hn), List.map_cons]

theorem slice_in_replicate {α} (l1 rest : List α) (n : Nat) (a : α) (c m : Nat) (h1 : l1.length ≤ c)
    (h2 : c + m ≤ l1.length + n) : ((l1 ++ List.replicate n a ++ rest).drop c).take m = List.replicate m a := by
  apply List.ext_getElem
  · simp only [List.length_take, List.length_drop, List.length_append, List.length_replicate]; omega
  · intro i hi1 hi2
    simp only [List.length_replicate] at hi2
    rw [List.getElem_take, List.getElem_drop, List.getElem_replicate,
      List.getElem_append_left (by simp only [List.length_append, List.length_replicate]; omega),
      List.getElem_append_right (by omega), List.getElem_replicate]

end C01

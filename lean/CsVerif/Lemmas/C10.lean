import CsVerif.Model.C10
/-! Helper lemmas for C10 (core tactics only, no Mathlib).

Part 1: the greedy matcher `weave` — unfolding lemmas, determinism (`weave_self`), and the two halves of
`PrintWF` (`sameText_weave`: forms that pass `sameText` print the same; `apart_weave`: forms that pass `apart`
never match the same children), leading to `printNode_self` / `printKids_parts`. -/
namespace C10
open Grammar (Item Form)

variable (G : Table)

@[simp] theorem weave_nil_nil : weave G [] [] = some [] := by simp [weave]
@[simp] theorem weave_nil_cons (k : Kid) (ks) : weave G [] (k :: ks) = none := by simp [weave]
@[simp] theorem weave_kw (k is ks) : weave G (.kw k :: is) ks = (weave G is ks).map (Tok.kw k :: ·) := by
  rw [weave]
@[simp] theorem weave_tok_nil (t is) : weave G (.tok t :: is) [] = none := by
  rw [weave]; simp
@[simp] theorem weave_tok_leaf (t is t' o ks) : weave G (.tok t :: is) ((.leaf t', o) :: ks) = if t = t' then (weave G is ks).map (o ++ ·) else none := by
  rw [weave]
@[simp] theorem weave_tok_node (t is l o ks) : weave G (.tok t :: is) ((.node l, o) :: ks) = none := by
  rw [weave]; simp
@[simp] theorem weave_nt_nil (t is) : weave G (.nt t :: is) [] = none := by
  rw [weave]; simp
@[simp] theorem weave_nt_node (n is l o ks) : weave G (.nt n :: is) ((.node l, o) :: ks) = if G.isLabelOf n l then (weave G is ks).map (o ++ ·) else none := by
  rw [weave]
@[simp] theorem weave_nt_leaf (t is l o ks) : weave G (.nt t :: is) ((.leaf l, o) :: ks) = none := by
  rw [weave]; simp
@[simp] theorem weave_star_nil (n is) : weave G (.star n :: is) [] = weave G is [] := by
  rw [weave]; simp
@[simp] theorem weave_star_leaf (n is t o ks) : weave G (.star n :: is) ((.leaf t, o) :: ks) = weave G is ((.leaf t, o) :: ks) := by
  rw [weave]; simp
@[simp] theorem weave_star_node (n is l o ks) : weave G (.star n :: is) ((.node l, o) :: ks) =
    if G.isLabelOf n l then (weave G (.star n :: is) ks).map (o ++ ·) else weave G is ((.node l, o) :: ks) := by
  rw [weave]
@[simp] theorem weave_opt_nil (n is) : weave G (.opt n :: is) [] = weave G is [] := by
  rw [weave]; simp
@[simp] theorem weave_opt_leaf (n is t o ks) : weave G (.opt n :: is) ((.leaf t, o) :: ks) = weave G is ((.leaf t, o) :: ks) := by
  rw [weave]; simp
@[simp] theorem weave_opt_node (n is l o ks) : weave G (.opt n :: is) ((.node l, o) :: ks) =
    if G.isLabelOf n l then (weave G is ks).map (o ++ ·) else weave G is ((.node l, o) :: ks) := by
  rw [weave]

/-! ### table facts -/

theorem mem_of_has {f : Form} (h : G.has f = true) : f ∈ G.forms := by
  unfold Table.has at h
  have := List.mem_of_getElem? (beq_iff_eq.mp h)
  exact this

theorem isLabelOf_label {f : Form} (h : G.has f = true) : G.isLabelOf f.origin (label f) = true := by
  unfold Table.isLabelOf label
  cases ha : f.alias with
  | none => simp
  | some a =>
    simp only [Bool.or_eq_true, beq_iff_eq, List.any_eq_true, Bool.and_eq_true]
    right
    exact ⟨f, mem_of_has G h, rfl, ha⟩

theorem mem_labelsOf {n l : Nat} (h : G.isLabelOf n l = true) : Sym.node l ∈ firstSyms.labelsOf G n := by
  unfold Table.isLabelOf at h
  unfold firstSyms.labelsOf
  simp only [Bool.or_eq_true, beq_iff_eq, List.any_eq_true, Bool.and_eq_true] at h
  rcases h with h | ⟨f, hf, ho, ha⟩
  · subst h; simp
  · simp only [List.mem_cons, List.mem_filterMap, List.mem_filter, beq_iff_eq]
    right
    exact ⟨f, ⟨hf, ho⟩, by simp [ha]⟩

theorem avoids_node {n l : Nat} {ss : List Sym} (h : avoids G n ss = true) (hm : Sym.node l ∈ ss) :
    G.isLabelOf n l = false := by
  unfold avoids at h
  have := List.all_eq_true.mp h _ hm
  simpa using this

/-- the printed children of a derivation: shape and yield of every sub-derivation / named token -/
def Parts.outs : Parts → List Kid
  | .done => []
  | .kw _ r => r.outs
  | .tok t s r => (Sym.leaf t, [Tok.named t s]) :: r.outs
  | .sub f b r => (Sym.node (label f), b.yield) :: r.outs
  | .stop r => r.outs

theorem head_first {is : List Item} {p : Parts} (h : wfParts G is p = true) {s o rest}
    (ho : p.outs = (s, o) :: rest) : s ∈ firstSyms G is := by
  induction p generalizing is with
  | done => simp [Parts.outs] at ho
  | kw k r ih =>
    cases is with
    | nil => simp [wfParts] at h
    | cons i is =>
      cases i <;> simp [wfParts] at h
      simp only [firstSyms]
      exact ih h.2 ho
  | tok t s' r ih =>
    cases is with
    | nil => simp [wfParts] at h
    | cons i is =>
      cases i <;> simp [wfParts] at h
      simp only [Parts.outs, List.cons.injEq, Prod.mk.injEq] at ho
      simp [firstSyms, ← ho.1.1, h.1]
  | sub f b r ihb ihr =>
    simp only [Parts.outs, List.cons.injEq, Prod.mk.injEq] at ho
    cases is with
    | nil => simp [wfParts] at h
    | cons i is =>
      cases i <;> simp [wfParts] at h
      all_goals
        obtain ⟨⟨⟨hh, hn⟩, _⟩, _⟩ := h
        have := mem_labelsOf G (isLabelOf_label G hh)
        rw [hn, ho.1.1] at this
        simp [firstSyms, this]
  | stop r ih =>
    cases is with
    | nil => simp [wfParts] at h
    | cons i is =>
      cases i <;> simp [wfParts] at h
      all_goals
        have := ih h ho
        simp [firstSyms, this]


theorem weave_self {is : List Item} {p : Parts} (h : wfParts G is p = true) (hd : detItems G is = true) :
    weave G is (Parts.outs p) = some p.yield := by
  induction p generalizing is with
  | done =>
    cases is with
    | nil => simp [Parts.outs, Parts.yield]
    | cons i is => simp [wfParts] at h
  | kw k r ih =>
    cases is with
    | nil => simp [wfParts] at h
    | cons i is =>
      cases i <;> simp [wfParts] at h
      simp only [detItems] at hd
      simp [Parts.outs, Parts.yield, ih h.2 hd, h.1]
  | tok t s' r ih =>
    cases is with
    | nil => simp [wfParts] at h
    | cons i is =>
      cases i <;> simp [wfParts] at h
      simp only [detItems] at hd
      simp [Parts.outs, Parts.yield, ih h.2 hd, h.1]
  | sub f b r ihb ihr =>
    cases is with
    | nil => simp [wfParts] at h
    | cons i is =>
      cases i <;> simp [wfParts] at h
      all_goals obtain ⟨⟨⟨hh, hn⟩, hb⟩, hr⟩ := h
      all_goals have hl := isLabelOf_label G hh
      all_goals rw [hn] at hl
      · simp only [detItems] at hd
        simp [Parts.outs, Parts.yield, hl, ihr hr hd]
      · simp [Parts.outs, Parts.yield, hl, ihr hr hd]
      · simp only [detItems, Bool.and_eq_true] at hd
        simp [Parts.outs, Parts.yield, hl, ihr hr hd.2]
  | stop r ih =>
    cases is with
    | nil => simp [wfParts] at h
    | cons i is =>
      cases i <;> simp [wfParts] at h
      all_goals
        simp only [detItems, Bool.and_eq_true] at hd
        have hr := ih h hd.2
        simp only [Parts.outs, Parts.yield]
        cases ho : Parts.outs r with
        | nil => rw [ho] at hr; simpa using hr
        | cons k ks =>
          obtain ⟨s, o⟩ := k
          cases s with
          | leaf t => rw [ho] at hr; simpa using hr
          | node l =>
            have := avoids_node G hd.1 (head_first G h ho)
            rw [ho] at hr
            simpa [this] using hr

theorem weave_head_first {is : List Item} {s o ks y} (h : weave G is ((s, o) :: ks) = some y) :
    s ∈ firstSyms G is := by
  induction is generalizing y with
  | nil => simp at h
  | cons i is ih =>
    cases i with
    | kw k =>
      simp only [weave_kw, Option.map_eq_some_iff] at h
      obtain ⟨a, ha, _⟩ := h
      simpa [firstSyms] using ih ha
    | tok t =>
      cases s with
      | leaf t' =>
        simp only [weave_tok_leaf] at h
        split at h
        · subst_vars; simp [firstSyms]
        · simp at h
      | node l => simp at h
    | nt n =>
      cases s with
      | leaf t' => simp at h
      | node l =>
        simp only [weave_nt_node] at h
        split at h
        · rename_i hl; simpa [firstSyms] using mem_labelsOf G hl
        · simp at h
    | star n =>
      cases s with
      | leaf t' => simp only [weave_star_leaf] at h; simp [firstSyms, ih h]
      | node l =>
        simp only [weave_star_node] at h
        split at h
        · rename_i hl; simp [firstSyms, mem_labelsOf G hl]
        · simp [firstSyms, ih h]
    | opt n =>
      cases s with
      | leaf t' => simp only [weave_opt_leaf] at h; simp [firstSyms, ih h]
      | node l =>
        simp only [weave_opt_node] at h
        split at h
        · rename_i hl; simp [firstSyms, mem_labelsOf G hl]
        · simp [firstSyms, ih h]


theorem sameText_weave {a b : List Item} (hs : sameText G a b = true) {ks x y}
    (hx : weave G a ks = some x) (hy : weave G b ks = some y) : x = y := by
  induction a generalizing b ks x y with
  | nil =>
    cases b with
    | nil => rw [hx] at hy; exact Option.some.inj hy
    | cons j b => simp [sameText] at hs
  | cons i a ih =>
    cases b with
    | nil => cases i <;> simp [sameText] at hs
    | cons j b =>
      cases i <;> cases j <;> simp [sameText] at hs
      case kw.kw k k' =>
        simp only [weave_kw, Option.map_eq_some_iff] at hx hy
        obtain ⟨x', hx', rfl⟩ := hx
        obtain ⟨y', hy', rfl⟩ := hy
        rw [hs.1, ih hs.2 hx' hy']
      case tok.tok t t' =>
        cases ks with
        | nil => simp at hx
        | cons k ks =>
          obtain ⟨s, o⟩ := k
          cases s with
          | node l => simp at hx
          | leaf u =>
            simp only [weave_tok_leaf] at hx hy
            split at hx <;> split at hy <;> try (simp at hx hy; done)
            simp only [Option.map_eq_some_iff] at hx hy
            obtain ⟨x', hx', rfl⟩ := hx
            obtain ⟨y', hy', rfl⟩ := hy
            rw [ih hs.2 hx' hy']
      case nt.nt n m =>
        cases ks with
        | nil => simp at hx
        | cons k ks =>
          obtain ⟨s, o⟩ := k
          cases s with
          | leaf u => simp at hx
          | node l =>
            simp only [weave_nt_node] at hx hy
            split at hx <;> split at hy <;> try (simp at hx hy; done)
            simp only [Option.map_eq_some_iff] at hx hy
            obtain ⟨x', hx', rfl⟩ := hx
            obtain ⟨y', hy', rfl⟩ := hy
            rw [ih hs hx' hy']
      case star.star n m =>
        obtain ⟨⟨h1, h2⟩, h3⟩ := hs
        induction ks generalizing x y with
        | nil => simp only [weave_star_nil] at hx hy; exact ih h3 hx hy
        | cons k ks ihk =>
          obtain ⟨s, o⟩ := k
          cases s with
          | leaf u => simp only [weave_star_leaf] at hx hy; exact ih h3 hx hy
          | node l =>
            simp only [weave_star_node] at hx hy
            split at hx <;> split at hy
            · simp only [Option.map_eq_some_iff] at hx hy
              obtain ⟨x', hx', rfl⟩ := hx
              obtain ⟨y', hy', rfl⟩ := hy
              rw [ihk hx' hy']
            · rename_i hl _
              have := avoids_node G h1 (weave_head_first G hy)
              simp [this] at hl
            · rename_i _ hl
              have := avoids_node G h2 (weave_head_first G hx)
              simp [this] at hl
            · exact ih h3 hx hy
      case opt.opt n m =>
        obtain ⟨⟨h1, h2⟩, h3⟩ := hs
        cases ks with
        | nil => simp only [weave_opt_nil] at hx hy; exact ih h3 hx hy
        | cons k ks =>
          obtain ⟨s, o⟩ := k
          cases s with
          | leaf u => simp only [weave_opt_leaf] at hx hy; exact ih h3 hx hy
          | node l =>
            simp only [weave_opt_node] at hx hy
            split at hx <;> split at hy
            · simp only [Option.map_eq_some_iff] at hx hy
              obtain ⟨x', hx', rfl⟩ := hx
              obtain ⟨y', hy', rfl⟩ := hy
              rw [ih h3 hx' hy']
            · rename_i hl _
              have := avoids_node G h1 (weave_head_first G hy)
              simp [this] at hl
            · rename_i _ hl
              have := avoids_node G h2 (weave_head_first G hx)
              simp [this] at hl
            · exact ih h3 hx hy


theorem weave_visible {a : List Item} {ks x} (hx : weave G a ks = some x) :
    ∃ x', weave G (visible a) ks = some x' := by
  induction a generalizing ks x with
  | nil => exact ⟨x, hx⟩
  | cons i a ih =>
    cases i with
    | kw k =>
      simp only [weave_kw, Option.map_eq_some_iff] at hx
      obtain ⟨x', hx', _⟩ := hx
      simpa [visible, isKwItem] using ih hx'
    | tok t =>
      cases ks with
      | nil => simp at hx
      | cons k ks =>
        obtain ⟨s, o⟩ := k
        cases s with
        | node l => simp at hx
        | leaf u =>
          simp only [weave_tok_leaf] at hx
          split at hx
          · simp only [Option.map_eq_some_iff] at hx
            obtain ⟨x', hx', _⟩ := hx
            obtain ⟨z, hz⟩ := ih hx'
            simp only [visible, isKwItem, Bool.not_false, List.filter_cons_of_pos, weave_tok_leaf] at hz ⊢
            simp [*]
          · simp at hx
    | nt n =>
      cases ks with
      | nil => simp at hx
      | cons k ks =>
        obtain ⟨s, o⟩ := k
        cases s with
        | leaf u => simp at hx
        | node l =>
          simp only [weave_nt_node] at hx
          split at hx
          · simp only [Option.map_eq_some_iff] at hx
            obtain ⟨x', hx', _⟩ := hx
            obtain ⟨z, hz⟩ := ih hx'
            simp only [visible, isKwItem, Bool.not_false, List.filter_cons_of_pos, weave_nt_node] at hz ⊢
            simp [*]
          · simp at hx
    | star n =>
      have hv : visible (Item.star n :: a) = Item.star n :: visible a := by simp [visible, isKwItem]
      rw [hv]
      induction ks generalizing x with
      | nil => simp only [weave_star_nil] at hx ⊢; exact ih hx
      | cons k ks ihk =>
        obtain ⟨s, o⟩ := k
        cases s with
        | leaf u => simp only [weave_star_leaf] at hx ⊢; exact ih hx
        | node l =>
          simp only [weave_star_node] at hx ⊢
          split at hx
          · rename_i hl
            simp only [Option.map_eq_some_iff] at hx
            obtain ⟨x', hx', _⟩ := hx
            obtain ⟨z, hz⟩ := ihk hx'
            simp [hz, hl]
          · rename_i hl
            simp only [hl]
            exact ih hx
    | opt n =>
      have hv : visible (Item.opt n :: a) = Item.opt n :: visible a := by simp [visible, isKwItem]
      rw [hv]
      cases ks with
      | nil => simp only [weave_opt_nil] at hx ⊢; exact ih hx
      | cons k ks =>
        obtain ⟨s, o⟩ := k
        cases s with
        | leaf u => simp only [weave_opt_leaf] at hx ⊢; exact ih hx
        | node l =>
          simp only [weave_opt_node] at hx ⊢
          split at hx
          · rename_i hl
            simp only [Option.map_eq_some_iff] at hx
            obtain ⟨x', hx', _⟩ := hx
            obtain ⟨z, hz⟩ := ih hx'
            simp [hz, hl]
          · rename_i hl
            simp only [hl]
            exact ih hx

theorem rigid_weave_nil {i : Item} {a : List Item} (hr : rigidItem i = true) : weave G (i :: a) [] = none := by
  cases i <;> simp [rigidItem] at hr <;> simp

theorem apart_weave {a b : List Item} (hs : apart G a b = true) {ks x y}
    (hx : weave G a ks = some x) (hy : weave G b ks = some y) : False := by
  induction a generalizing b ks x y with
  | nil =>
    cases b with
    | nil => simp [apart] at hs
    | cons j b =>
      simp only [apart] at hs
      cases ks with
      | nil => rw [rigid_weave_nil G hs] at hy; simp at hy
      | cons k ks => simp at hx
  | cons i a ih =>
    cases b with
    | nil =>
      simp only [apart] at hs
      cases ks with
      | nil => rw [rigid_weave_nil G hs] at hx; simp at hx
      | cons k ks => simp at hy
    | cons j b =>
      simp only [apart, Bool.and_eq_true, Bool.or_eq_true, Bool.not_eq_eq_eq_not, Bool.not_true] at hs
      obtain ⟨⟨hi, hj⟩, hs⟩ := hs
      cases ks with
      | nil => rw [rigid_weave_nil G hi] at hx; simp at hx
      | cons k ks =>
        obtain ⟨s, o⟩ := k
        cases i <;> simp [rigidItem] at hi <;> cases j <;> simp [rigidItem] at hj <;> cases s <;>
          simp only [weave_tok_leaf, weave_tok_node, weave_nt_leaf, weave_nt_node] at hx hy <;> try (simp at hx hy; done)
        · split at hx <;> split at hy <;> try (simp at hx hy; done)
          simp only [Option.map_eq_some_iff] at hx hy
          obtain ⟨x', hx', _⟩ := hx
          obtain ⟨y', hy', _⟩ := hy
          rcases hs with hs | hs
          · simp [itemsOverlap] at hs; omega
          · exact ih hs hx' hy'
        · split at hx <;> split at hy <;> try (simp at hx hy; done)
          rename_i hl1 hl2
          simp only [Option.map_eq_some_iff] at hx hy
          obtain ⟨x', hx', _⟩ := hx
          obtain ⟨y', hy', _⟩ := hy
          rcases hs with hs | hs
          · simp only [itemsOverlap, Bool.not_eq_eq_eq_not, Bool.not_false] at hs
            have := avoids_node G hs (mem_labelsOf G hl2)
            simp [this] at hl1
          · exact ih hs hx' hy'


/-! ### printing a node of a derivation -/

theorem printWF_det {f : Form} (h : PrintWF G = true) (hf : f ∈ G.forms) : detItems G f.items = true := by
  unfold PrintWF at h
  simp only [Bool.and_eq_true, List.all_eq_true] at h
  exact h.1 f hf

theorem printWF_pair {f g : Form} (h : PrintWF G = true) (hf : f ∈ G.forms) (hg : g ∈ G.forms)
    (hl : label f = label g) :
    sameText G f.items g.items = true ∨ apart G (visible f.items) (visible g.items) = true := by
  unfold PrintWF at h
  simp only [Bool.and_eq_true, List.all_eq_true, Bool.or_eq_true, bne_iff_ne, ne_eq] at h
  rcases h.2 f hf g hg with (h' | h') | h'
  · exact absurd hl h'
  · exact Or.inl h'
  · exact Or.inr h'

/-- every production with the right label that matches the children prints the yield -/
theorem weave_any_form (h : PrintWF G = true) {f g : Form} {b : Parts} (hf : G.has f = true)
    (hb : wfParts G f.items b = true) (hg : g ∈ G.forms) (hl : label g = label f) {z}
    (hz : weave G g.items (Parts.outs b) = some z) : z = b.yield := by
  have hfm := mem_of_has G hf
  have hself := weave_self G hb (printWF_det G h hfm)
  rcases printWF_pair G h hfm hg hl.symm with hs | ha
  · exact (sameText_weave G hs hself hz).symm
  · obtain ⟨x', hx'⟩ := weave_visible G hself
    obtain ⟨z', hz'⟩ := weave_visible G hz
    exact (apart_weave G ha hx' hz').elim

theorem printNode_self (h : PrintWF G = true) {f : Form} {b : Parts} (hf : G.has f = true)
    (hb : wfParts G f.items b = true) : printNode G (label f) (Parts.outs b) = some b.yield := by
  have hfm := mem_of_has G hf
  have hself := weave_self G hb (printWF_det G h hfm)
  unfold printNode
  cases hr : G.forms.findSome? (fun g => if label g = label f then weave G g.items (Parts.outs b) else none) with
  | none =>
    rw [List.findSome?_eq_none_iff] at hr
    have := hr f hfm
    simp [hself] at this
  | some z =>
    obtain ⟨g, hg, hgz⟩ := List.exists_of_findSome?_eq_some hr
    split at hgz
    · rename_i hl
      rw [weave_any_form G h hf hb hg hl hgz]
    · simp at hgz

theorem printKids_parts (h : PrintWF G = true) {is : List Item} {p : Parts} (hp : wfParts G is p = true) :
    printKids G p.kids = some (Parts.outs p) := by
  induction p generalizing is with
  | done => simp [Parts.kids, Parts.outs, printKids]
  | kw k r ih =>
    cases is with
    | nil => simp [wfParts] at hp
    | cons i is =>
      cases i <;> simp [wfParts] at hp
      simpa [Parts.kids, Parts.outs] using ih hp.2
  | tok t s r ih =>
    cases is with
    | nil => simp [wfParts] at hp
    | cons i is =>
      cases i <;> simp [wfParts] at hp
      simp [Parts.kids, Parts.outs, printKids, ih hp.2]
  | sub f b r ihb ihr =>
    cases is with
    | nil => simp [wfParts] at hp
    | cons i is =>
      cases i <;> simp [wfParts] at hp
      all_goals
        obtain ⟨⟨⟨hh, hn⟩, hb⟩, hr⟩ := hp
        simp [Parts.kids, Parts.outs, printKids, ihb hb, printNode_self G h hh hb, ihr hr]
  | stop r ih =>
    cases is with
    | nil => simp [wfParts] at hp
    | cons i is =>
      cases i <;> simp [wfParts] at hp
      all_goals simpa [Parts.kids, Parts.outs] using ih hp

/-! ### the relational Reconstructor collapses to the greedy one -/

theorem weaves_greedy {is : List Item} {ks out} (hd : detItems G is = true) (hw : Weaves G is ks out) :
    weave G is ks = some out := by
  induction hw with
  | nil => simp
  | kw _ ih => simp only [detItems] at hd; simp [ih hd]
  | tok _ ih => simp only [detItems] at hd; simp [ih hd]
  | nt hl _ ih => simp only [detItems] at hd; simp [ih hd, hl]
  | starTake hl _ ih => simp [ih hd, hl]
  | @starStop n is ks out _ ih =>
    simp only [detItems, Bool.and_eq_true] at hd
    have h := ih hd.2
    cases ks with
    | nil => simpa using h
    | cons k ks =>
      obtain ⟨s, o⟩ := k
      cases s with
      | leaf t => simpa using h
      | node l =>
        have := avoids_node G hd.1 (weave_head_first G h)
        simpa [this] using h
  | optTake hl _ ih => simp only [detItems, Bool.and_eq_true] at hd; simp [ih hd.2, hl]
  | @optSkip n is ks out _ ih =>
    simp only [detItems, Bool.and_eq_true] at hd
    have h := ih hd.2
    cases ks with
    | nil => simpa using h
    | cons k ks =>
      obtain ⟨s, o⟩ := k
      cases s with
      | leaf t => simpa using h
      | node l =>
        have := avoids_node G hd.1 (weave_head_first G h)
        simpa [this] using h

theorem weaves_any_form (h : PrintWF G = true) {f g : Form} {b : Parts} (hf : G.has f = true)
    (hb : wfParts G f.items b = true) (hg : g ∈ G.forms) (hl : label g = label f) {z}
    (hz : Weaves G g.items (Parts.outs b) z) : z = b.yield :=
  weave_any_form G h hf hb hg hl (weaves_greedy G (printWF_det G h hg) hz)

theorem recons_parts (h : PrintWF G = true) {is : List Item} {p : Parts} (hp : wfParts G is p = true) {rs}
    (hr : Recons G p.kids rs) : rs = Parts.outs p := by
  induction p generalizing is rs with
  | done => simp only [Parts.kids] at hr; cases hr; rfl
  | kw k r ih =>
    cases is with
    | nil => simp [wfParts] at hp
    | cons i is =>
      cases i <;> simp [wfParts] at hp
      simp only [Parts.kids] at hr
      simpa [Parts.outs] using ih hp.2 hr
  | tok t s r ih =>
    cases is with
    | nil => simp [wfParts] at hp
    | cons i is =>
      cases i <;> simp [wfParts] at hp
      simp only [Parts.kids] at hr
      cases hr with
      | leaf hr' => simp [Parts.outs, ih hp.2 hr']
  | sub f b r ihb ihr =>
    cases is with
    | nil => simp [wfParts] at hp
    | cons i is =>
      cases i <;> simp [wfParts] at hp
      all_goals
        obtain ⟨⟨⟨hh, hn⟩, hb⟩, hrr⟩ := hp
        simp only [Parts.kids] at hr
        cases hr with
        | node hk hg hl hw hr' =>
          have e1 := ihb hb hk
          subst e1
          have e2 := weaves_any_form G h hh hb hg hl hw
          simp [Parts.outs, e2, ihr hrr hr']
  | stop r ih =>
    cases is with
    | nil => simp [wfParts] at hp
    | cons i is =>
      cases i <;> simp [wfParts] at hp
      all_goals
        simp only [Parts.kids] at hr
        simpa [Parts.outs] using ih hp hr

/-! ## Part 2: text — the lexer on `postproc`'s output -/

/-! ### lexer lemmas -/

theorem lex_nil (kws) : lexProfile kws [] = some [] := by rw [lexProfile]

theorem lex_ws (kws) {c : Nat} (cs : Text) (h : isWs c = true) : lexProfile kws (c :: cs) = lexProfile kws cs := by
  rw [lexProfile]; simp [h]

theorem lex_spaces (kws) (n : Nat) (cs : Text) : lexProfile kws (List.replicate n 32 ++ cs) = lexProfile kws cs := by
  induction n with
  | zero => simp
  | succ n ih => rw [List.replicate_succ, List.cons_append, lex_ws kws _ (by decide), ih]

theorem scanStr_append {e : Bool} {b b' rest : Text} (h : scanStr e b = some (b', [])) :
    scanStr e (b ++ rest) = some (b', rest) := by
  induction b generalizing e b' with
  | nil => simp [scanStr] at h
  | cons c cs ih =>
    simp only [scanStr, List.cons_append] at h ⊢
    by_cases hc : (c == 34 && !e) = true
    · simp only [hc, ↓reduceIte, Option.some.injEq, Prod.mk.injEq] at h ⊢
      simp [h.1, h.2]
    · simp only [hc, Bool.false_eq_true, ↓reduceIte] at h ⊢
      cases hs : scanStr (c == 92 && !e) cs with
      | none => simp [hs] at h
      | some br =>
        obtain ⟨b1, r1⟩ := br
        simp only [hs, Option.some.injEq, Prod.mk.injEq] at h
        obtain ⟨rfl, rfl⟩ := h
        rw [ih hs]

theorem longestKw_none {kws : List Text} {inp : Text} (h : longestKw kws inp = none) :
    ∀ k ∈ kws, k.isPrefixOf inp = false := by
  induction kws with
  | nil => simp
  | cons k ks ih =>
    simp only [longestKw] at h
    split at h
    · split at h <;> simp at h
    · rename_i hn
      split at h
      · simp at h
      · rename_i hk
        intro k' hk'
        simp only [List.mem_cons] at hk'
        rcases hk' with rfl | hk'
        · exact (Bool.not_eq_true _).mp hk
        · exact ih hn k' hk'

theorem longestKw_some {kws : List Text} {inp b : Text} (h : longestKw kws inp = some b) :
    b ∈ kws ∧ b.isPrefixOf inp = true ∧ ∀ k ∈ kws, k.isPrefixOf inp = true → k.length ≤ b.length := by
  induction kws generalizing b with
  | nil => simp [longestKw] at h
  | cons k ks ih =>
    simp only [longestKw] at h
    cases hr : longestKw ks inp with
    | none =>
      simp only [hr] at h
      split at h
      · rename_i hk
        simp only [Option.some.injEq] at h; subst h
        refine ⟨by simp, hk, ?_⟩
        intro k' hk' hp
        simp only [List.mem_cons] at hk'
        rcases hk' with rfl | hk'
        · omega
        · have := longestKw_none hr k' hk'; simp [hp] at this
      · simp at h
    | some b0 =>
      simp only [hr] at h
      obtain ⟨hm, hp, hmax⟩ := ih hr
      split at h
      · rename_i hk
        simp only [Bool.and_eq_true, decide_eq_true_eq] at hk
        simp only [Option.some.injEq] at h; subst h
        refine ⟨by simp, hk.1, ?_⟩
        intro k' hk' hp'
        simp only [List.mem_cons] at hk'
        rcases hk' with rfl | hk'
        · omega
        · have := hmax k' hk' hp'; omega
      · rename_i hk
        simp only [Option.some.injEq] at h; subst h
        refine ⟨by simp [hm], hp, ?_⟩
        intro k' hk' hp'
        simp only [List.mem_cons] at hk'
        rcases hk' with rfl | hk'
        · simp only [Bool.and_eq_true, decide_eq_true_eq, not_and, Nat.not_lt] at hk
          exact hk hp'
        · exact hmax k' hk' hp'

theorem kwClean_mem {kws : List Text} (hc : KwClean kws = true) {k : Text} (hk : k ∈ kws) :
    k ≠ [] ∧ 32 ∉ k ∧ 10 ∉ k ∧ (59 ∈ k → k = semi) := by
  unfold KwClean at hc
  have := List.all_eq_true.mp hc k hk
  simp only [Bool.and_eq_true, Bool.not_eq_eq_eq_not, Bool.not_true, List.isEmpty_eq_false_iff, ne_eq,
    List.all_eq_true, bne_iff_ne, Bool.or_eq_true, List.contains_eq_mem, decide_eq_false_iff_not,
    beq_iff_eq, decide_eq_true_eq] at this
  obtain ⟨⟨h1, h2⟩, h3⟩ := this
  refine ⟨h1, fun h => (h2 _ h).1 rfl, fun h => (h2 _ h).2 rfl, fun h => ?_⟩
  rcases h3 with h3 | h3
  · exact absurd h h3
  · exact h3

theorem longestKw_tok {kws : List Text} (hc : KwClean kws = true) {t : Text} (ht : t ∈ kws)
    {c0 : Nat} (rest : Text) (hs : c0 = 32 ∨ c0 = 10 ∨ c0 = 59) :
    longestKw kws (t ++ c0 :: rest) = some t := by
  have htp : t.isPrefixOf (t ++ c0 :: rest) = true := by simp
  cases hr : longestKw kws (t ++ c0 :: rest) with
  | none => have := longestKw_none hr t ht; rw [htp] at this; cases this
  | some b =>
    obtain ⟨hb, hbp, hmax⟩ := longestKw_some hr
    have hle := hmax t ht htp
    have hbp' : b <+: t ++ c0 :: rest := by simpa using hbp
    have htb : t <+: b := List.prefix_of_prefix_length_le (List.prefix_append _ _) hbp' hle
    obtain ⟨u, rfl⟩ := htb
    cases u with
    | nil => simp
    | cons d u =>
      exfalso
      have hu : (d :: u) <+: c0 :: rest := by
        rwa [List.prefix_append_right_inj] at hbp'
      have hd : d = c0 := by
        obtain ⟨v, hv⟩ := hu
        simp only [List.cons_append, List.cons.injEq] at hv
        exact hv.1
      subst hd
      obtain ⟨hne, h32, h10, h59⟩ := kwClean_mem hc hb
      obtain ⟨tne, _⟩ := kwClean_mem hc ht
      rcases hs with rfl | rfl | rfl
      · exact h32 (by simp)
      · exact h10 (by simp)
      · have := h59 (by simp)
        cases t with
        | nil => exact tne rfl
        | cons a t => simp [semi] at this

def isSep (c : Nat) : Prop := c = 32 ∨ c = 10 ∨ c = 59

theorem lex_tok {kws : List Text} (hc : KwClean kws = true) {t : Text} (ht : lexableTok kws t = true)
    {c0 : Nat} (rest : Text) (hs : isSep c0) :
    lexProfile kws (t ++ c0 :: rest) = (lexProfile kws (c0 :: rest)).map (t :: ·) := by
  cases t with
  | nil => simp [lexableTok] at ht
  | cons c cs =>
    simp only [lexableTok] at ht
    by_cases hq : c = 34
    · subst hq
      simp only [beq_self_eq_true, ↓reduceIte, beq_iff_eq] at ht
      have := scanStr_append (rest := c0 :: rest) ht
      rw [List.cons_append, lexProfile]
      simp only [show isWs 34 = false by decide, Bool.false_eq_true, ↓reduceIte, show ((34:Nat) == 35) = false by decide, beq_self_eq_true]
      split
      · rename_i h; rw [this] at h; simp at h
      · rename_i b r h
        rw [this] at h
        simp only [Option.some.injEq, Prod.mk.injEq] at h
        obtain ⟨rfl, rfl⟩ := h
        rfl
    · have hq' : (c == 34) = false := by simpa using hq
      simp only [hq', Bool.false_eq_true, ↓reduceIte, Bool.and_eq_true, List.contains_eq_mem,
        decide_eq_true_eq, Bool.not_eq_eq_eq_not, Bool.not_true, bne_iff_ne, ne_eq] at ht
      obtain ⟨⟨hm, hw⟩, h35⟩ := ht
      have hl := longestKw_tok hc hm rest hs
      rw [List.cons_append] at hl ⊢
      rw [lexProfile]
      simp only [hw, Bool.false_eq_true, ↓reduceIte, hq', show (c == 35) = false by simpa using h35, hl]
      simp


theorem renderLine_head (y : Text) (r : List Text) : ∃ u, (renderLine (y :: r)).flatten = y ++ u := by
  cases r with
  | nil => exact ⟨[], by simp [renderLine]⟩
  | cons z r =>
    simp only [renderLine]
    split
    · exact ⟨(renderLine (z :: r)).flatten, by simp⟩
    · exact ⟨32 :: (renderLine (z :: r)).flatten, by simp⟩

theorem lex_renderLine {kws : List Text} (hc : KwClean kws = true) (l : List Text)
    (hl : ∀ t ∈ l, lexableTok kws t = true) (rest : Text) :
    lexProfile kws ((renderLine l).flatten ++ 10 :: rest) = (lexProfile kws rest).map (l ++ ·) := by
  induction l with
  | nil =>
    simp only [renderLine, List.flatten_nil, List.nil_append]
    rw [lex_ws kws _ (by decide)]
    cases lexProfile kws rest <;> simp
  | cons x l ih =>
    have hx := hl x (by simp)
    have ih' := ih (fun t ht => hl t (by simp [ht]))
    cases l with
    | nil =>
      simp only [renderLine, List.flatten_cons, List.flatten_nil, List.append_nil]
      rw [lex_tok hc hx rest (Or.inr (Or.inl rfl)), lex_ws kws _ (by decide)]
      cases lexProfile kws rest <;> simp
    | cons y r =>
      simp only [renderLine]
      split
      · rename_i hy
        subst hy
        obtain ⟨u, hu⟩ := renderLine_head semi r
        simp only [List.flatten_cons, List.append_assoc]
        have e : (renderLine (semi :: r)).flatten ++ 10 :: rest = 59 :: (u ++ 10 :: rest) := by
          rw [hu]; simp [semi]
        rw [e, lex_tok hc hx _ (Or.inr (Or.inr rfl)), ← e, ih']
        cases lexProfile kws rest <;> simp
      · simp only [List.flatten_cons, List.append_assoc, List.cons_append, List.nil_append]
        rw [lex_tok hc hx _ (Or.inl rfl), lex_ws kws _ (by decide), ih']
        cases lexProfile kws rest <;> simp

theorem flush_last_ne {item : Text} {items : List Text} (hf : isFlush item = false)
    (ht : terminated (item :: items) = true) : items ≠ [] := by
  intro h; subst h
  simp [terminated, hf] at ht

theorem terminated_tail {item : Text} {items : List Text} (hne : items ≠ [])
    (ht : terminated (item :: items) = true) : terminated items = true := by
  unfold terminated at ht ⊢
  cases items with
  | nil => exact absurd rfl hne
  | cons a as => rwa [List.getLast?_cons_cons] at ht


theorem lex_postprocGo {kws : List Text} (hc : KwClean kws = true) (items line : List Text) (indent : Int)
    (hl : ∀ t ∈ line ++ items, lexableTok kws t = true) (h1 : items = [] → line = [])
    (h2 : terminated items = true) :
    lexProfile kws (postprocGo line indent items).flatten = some (line ++ items) := by
  induction items generalizing line indent with
  | nil => simp [h1 rfl, postprocGo, lex_nil]
  | cons item items ih =>
    simp only [postprocGo]
    by_cases hf : isFlush item = true
    · simp only [hf, ↓reduceIte]
      have hrec : ∀ i2, lexProfile kws (postprocGo [] i2 items).flatten = some items := fun i2 =>
        ih [] i2 (fun t ht => hl t (by simp at ht; simp [ht])) (fun _ => rfl)
        (by
          by_cases hne : items = []
          · subst hne; rfl
          · exact terminated_tail hne h2)
      have hline : ∀ t ∈ line ++ [item], lexableTok kws t = true := fun t ht => hl t (by
        simp only [List.mem_append, List.mem_cons, List.not_mem_nil, or_false] at ht ⊢
        rcases ht with ht | ht
        · exact Or.inl ht
        · exact Or.inr (Or.inl ht))
      have key : ∀ (n : Nat) (i2 : Int), lexProfile kws (List.replicate n 32 ++
          ((renderLine (line ++ [item])).flatten ++ 10 :: (postprocGo [] i2 items).flatten))
          = some (line ++ item :: items) := by
        intro n i2
        rw [lex_spaces, lex_renderLine hc _ hline, hrec]
        simp
      simp only [List.flatten_append, List.flatten_cons, List.flatten_nil, List.append_nil, List.append_assoc,
        List.cons_append, List.nil_append]
      split
      · simp only [List.flatten_cons, List.flatten_nil, List.append_nil, List.cons_append, List.nil_append]
        rw [lex_ws kws _ (by decide)]
        exact key _ _
      · simp only [List.flatten_nil, List.nil_append]
        exact key _ _
    · have hf' : isFlush item = false := by simpa using hf
      simp only [hf', Bool.false_eq_true, ↓reduceIte]
      have hne := flush_last_ne hf' h2
      have := ih (line ++ [item]) indent (fun t ht => hl t (by simpa using ht)) (fun h => absurd h hne)
        (terminated_tail hne h2)
      simpa using this

/-- lexing the post-processed text gives the items back -/
theorem lex_postproc {kws : List Text} (hc : KwClean kws = true) (ts : List Text)
    (hl : ∀ t ∈ ts, lexableTok kws t = true) (ht : terminated ts = true) :
    lexProfile kws (postproc ts).flatten = some ts := by
  have := lex_postprocGo hc ts [] 0 (by simpa using hl) (fun _ => rfl) ht
  simpa [postproc] using this


/-! ### `Reconstructor.reconstruct` never inserts a blank into `postproc`'s output -/

/-- a yielded string that cannot be glued to a neighbour: empty, or starting and ending with a non-identifier character -/
def safePiece (idc : Nat → Bool) (p : Text) : Bool :=
  match p.head?, p.getLast? with
  | some a, some b => !idc a && !idc b
  | _, _ => true

/-- of any two adjacent strings at least one is safe (`prevSafe`: the string before the list is) -/
def alternating (idc : Nat → Bool) : Bool → List Text → Bool
  | _, [] => true
  | ps, q :: qs => (ps || safePiece idc q) && alternating idc (safePiece idc q) qs

theorem joinGo_flatten (idc : Nat → Bool) (prev : Text) (ps : List Text)
    (h : alternating idc (safePiece idc prev) ps = true) : joinGo idc prev ps = ps.flatten := by
  induction ps generalizing prev with
  | nil => simp [joinGo]
  | cons q qs ih =>
    simp only [alternating, Bool.and_eq_true, Bool.or_eq_true] at h
    simp only [joinGo, List.flatten_cons]
    rw [ih q h.2]
    have hsp : ∀ a b, prev.getLast? = some a → q.head? = some b → (idc a && idc b) = false := by
      intro a b hp hq
      rcases h.1 with h1 | h1
      · unfold safePiece at h1
        cases hh : prev.head? with
        | none => cases prev <;> simp at hh hp
        | some c => simp only [hh, hp, Bool.and_eq_true, Bool.not_eq_eq_eq_not, Bool.not_true] at h1; simp [h1.2]
      · unfold safePiece at h1
        cases hh : q.getLast? with
        | none => cases q <;> simp at hh hq
        | some c => simp only [hh, hq, Bool.and_eq_true, Bool.not_eq_eq_eq_not, Bool.not_true] at h1; simp [h1.1]
    split
    · rename_i a b ha hb
      simp [hsp a b ha hb]
    · simp

theorem alternating_weaken (idc : Nat → Bool) {b : Bool} {q : Text} {qs : List Text}
    (hq : safePiece idc q = true) (h : alternating idc true (q :: qs) = true) :
    alternating idc b (q :: qs) = true := by
  simp only [alternating, Bool.true_or, Bool.true_and, Bool.and_eq_true, Bool.or_eq_true] at h ⊢
  exact ⟨Or.inr hq, h⟩

theorem alternating_append (idc : Nat → Bool) {b : Bool} {a : List Text} {q : Text} {qs : List Text}
    (ha : alternating idc b a = true) (hq : safePiece idc q = true)
    (h : alternating idc true (q :: qs) = true) : alternating idc b (a ++ q :: qs) = true := by
  induction a generalizing b with
  | nil => exact alternating_weaken idc hq h
  | cons x a ih =>
    simp only [alternating, Bool.and_eq_true, Bool.or_eq_true, List.cons_append] at ha ⊢
    exact ⟨ha.1, ih ha.2⟩

structure IdcOK (idc : Nat → Bool) : Prop where
  sp : idc 32 = false
  nl : idc 10 = false
  semi : idc 59 = false

theorem safe_spaces {idc : Nat → Bool} (h : IdcOK idc) (n : Nat) : safePiece idc (List.replicate n 32) = true := by
  cases n with
  | zero => rfl
  | succ n =>
    unfold safePiece
    have h1 : (List.replicate (n + 1) 32).head? = some 32 := by simp [List.replicate_succ]
    have h2 : (List.replicate (n + 1) 32).getLast? = some 32 := by
      simp [List.getLast?_replicate]
    simp [h1, h2, h.sp]

theorem alternating_renderLine {idc : Nat → Bool} (h : IdcOK idc) (l : List Text) :
    alternating idc true (renderLine l) = true := by
  induction l with
  | nil => rfl
  | cons x l ih =>
    cases l with
    | nil => simp [renderLine, alternating]
    | cons y r =>
      simp only [renderLine]
      split
      · rename_i hy
        subst hy
        simp only [alternating, Bool.true_or, Bool.true_and]
        cases r with
        | nil => simp [renderLine, alternating, safePiece, semi, h.semi]
        | cons z r =>
          have hs : safePiece idc semi = true := by simp [safePiece, semi, h.semi]
          simp only [renderLine] at ih ⊢
          by_cases hz : z = semi
          · subst hz
            simp only [↓reduceIte] at ih ⊢
            exact alternating_weaken idc hs ih
          · simp only [hz, ↓reduceIte] at ih ⊢
            exact alternating_weaken idc hs ih
      · simp only [alternating, Bool.true_or, Bool.true_and]
        have hs : safePiece idc [32] = true := by simp [safePiece, h.sp]
        simp [hs, ih]

theorem alternating_postprocGo {idc : Nat → Bool} (h : IdcOK idc) (items line : List Text) (indent : Int) :
    alternating idc true (postprocGo line indent items) = true := by
  induction items generalizing line indent with
  | nil => rfl
  | cons item items ih =>
    simp only [postprocGo]
    have hnl : safePiece idc [10] = true := by simp [safePiece, h.nl]
    split
    · have tail : ∀ i2, alternating idc true ([10] :: postprocGo [] i2 items) = true := by
        intro i2
        simp only [alternating, Bool.true_or, Bool.true_and, hnl]
        exact ih _ _
      have body : ∀ n i2, alternating idc true (List.replicate n 32 :: (renderLine (line ++ [item]) ++ [10] :: postprocGo [] i2 items)) = true := by
        intro n i2
        simp only [alternating, Bool.true_or, Bool.true_and, safe_spaces h]
        exact alternating_append idc (alternating_renderLine h _) hnl (tail i2)
      split
      · simp only [List.cons_append, List.nil_append, List.append_assoc]
        simp only [alternating, Bool.true_or, Bool.true_and, hnl]
        exact body _ _
      · simp only [List.cons_append, List.nil_append, List.append_assoc]
        exact body _ _
    · exact ih _ _

theorem joinItems_postproc {idc : Nat → Bool} (h : IdcOK idc) (ts : List Text) :
    joinItems idc (postproc ts) = (postproc ts).flatten := by
  unfold joinItems postproc
  exact joinGo_flatten idc [] _ (by simpa [safePiece] using alternating_postprocGo h ts [] 0)

/-! ## Part 3: the parser returns well-formed derivations of the token list it was given -/

def texts (ts : List Tok) : List Text := ts.map G.tokText

theorem idsOK_has (h : IdsOK G = true) {f : Form} (hf : f ∈ G.forms) : G.has f = true := by
  unfold IdsOK at h
  have h' : G.forms.map (·.id) = List.range G.forms.length := by simpa using h
  obtain ⟨i, hi, rfl⟩ := List.getElem_of_mem hf
  have : (G.forms.map (·.id))[i]'(by simpa using hi) = (List.range G.forms.length)[i]'(by simpa using hi) := by
    simp only [h']
  simp only [List.getElem_map, List.getElem_range] at this
  unfold Table.has
  rw [this]
  simp [hi]

/-- what a nonterminal parser must guarantee -/
def PnSound (pn : Nat → List Text → PR (Form × Parts × List Text)) : Prop :=
  ∀ n toks f b r, pn n toks = .ok (f, b, r) →
    G.has f = true ∧ f.origin = n ∧ wfParts G f.items b = true ∧ toks = texts G b.yield ++ r

theorem firstForm_ok {α} {p : Form → PR α} {fs : List Form} {a : α} (h : firstForm p fs = .ok a) :
    ∃ f ∈ fs, p f = .ok a := by
  induction fs with
  | nil => simp [firstForm] at h
  | cons f fs ih =>
    simp only [firstForm] at h
    split at h
    · rename_i a' hp
      cases h
      exact ⟨f, by simp, hp⟩
    · cases h
    · obtain ⟨g, hg, hpg⟩ := ih h
      exact ⟨g, by simp [hg], hpg⟩

theorem mapParts_ok {f : Parts → Parts} {x : PR (Parts × List Text)} {p r} (h : x.mapParts f = .ok (p, r)) :
    ∃ p', x = .ok (p', r) ∧ p = f p' := by
  cases x with
  | ok a => obtain ⟨p', r'⟩ := a; simp only [PR.mapParts, PR.ok.injEq, Prod.mk.injEq] at h; exact ⟨p', by simp [h.2], h.1.symm⟩
  | fail => simp [PR.mapParts] at h
  | fuel => simp [PR.mapParts] at h

theorem parseStar_sound {pn} (hp : PnSound G pn) (n : Nat) (b : Nat) (toks : List Text) {ds r}
    (h : parseStar pn n b toks = .ok (ds, r)) :
    (∀ d ∈ ds, G.has d.1 = true ∧ d.1.origin = n ∧ wfParts G d.1.items d.2 = true) ∧
      toks = (ds.flatMap fun d => texts G d.2.yield) ++ r := by
  induction b generalizing toks ds r with
  | zero => simp only [parseStar, PR.ok.injEq, Prod.mk.injEq] at h; obtain ⟨rfl, rfl⟩ := h; simp
  | succ b ih =>
    simp only [parseStar] at h
    split at h
    · rename_i f body rest hpn
      obtain ⟨h1, h2, h3, h4⟩ := hp _ _ _ _ _ hpn
      split at h
      · split at h
        · rename_i ds' r' hrec
          simp only [PR.ok.injEq, Prod.mk.injEq] at h
          obtain ⟨rfl, rfl⟩ := h
          obtain ⟨ih1, ih2⟩ := ih rest hrec
          refine ⟨?_, ?_⟩
          · intro d hd
            simp only [List.mem_cons] at hd
            rcases hd with rfl | hd
            · exact ⟨h1, h2, h3⟩
            · exact ih1 d hd
          · simp only [List.flatMap_cons, List.append_assoc]
            rw [← ih2]; exact h4
        · cases h
        · cases h
      · simp only [PR.ok.injEq, Prod.mk.injEq] at h; obtain ⟨rfl, rfl⟩ := h; simp
    · simp only [PR.ok.injEq, Prod.mk.injEq] at h; obtain ⟨rfl, rfl⟩ := h; simp
    · cases h

theorem starParts_wf {n : Nat} {is : List Item} {ds : List (Form × Parts)} {tail : Parts}
    (hd : ∀ d ∈ ds, G.has d.1 = true ∧ d.1.origin = n ∧ wfParts G d.1.items d.2 = true)
    (ht : wfParts G is tail = true) : wfParts G (.star n :: is) (starParts ds tail) = true := by
  induction ds with
  | nil => simpa [starParts, wfParts] using ht
  | cons d ds ih =>
    obtain ⟨h1, h2, h3⟩ := hd d (by simp)
    have := ih (fun d' hd' => hd d' (by simp [hd']))
    simp only [starParts, List.foldr_cons] at this ⊢
    simp [wfParts, h1, h2, h3, this]

theorem starParts_yield (ds : List (Form × Parts)) (tail : Parts) :
    (starParts ds tail).yield = (ds.flatMap fun d => d.2.yield) ++ tail.yield := by
  induction ds with
  | nil => simp [starParts, Parts.yield]
  | cons d ds ih =>
    simp only [starParts, List.foldr_cons] at ih ⊢
    simp [Parts.yield, ih]

theorem parseItems_sound {pn} (hp : PnSound G pn) (is : List Item) (toks : List Text) {p r}
    (h : parseItems G pn is toks = .ok (p, r)) :
    wfParts G is p = true ∧ toks = texts G p.yield ++ r := by
  induction is generalizing toks p r with
  | nil =>
    simp only [parseItems, PR.ok.injEq, Prod.mk.injEq] at h
    obtain ⟨rfl, rfl⟩ := h
    simp [wfParts, Parts.yield, texts]
  | cons i is ih =>
    cases i with
    | kw k =>
      cases toks with
      | nil => simp [parseItems] at h
      | cons t toks =>
        simp only [parseItems] at h
        split at h
        · rename_i hk
          obtain ⟨p', hp', rfl⟩ := mapParts_ok h
          obtain ⟨ih1, ih2⟩ := ih toks hp'
          refine ⟨by simp [wfParts, ih1], ?_⟩
          have hk' := beq_iff_eq.mp hk
          simp [Parts.yield, texts, Table.tokText] at ih2 ⊢
          exact ⟨by simp [hk'], ih2⟩
        · cases h
    | tok t =>
      cases toks with
      | nil => simp [parseItems] at h
      | cons x toks =>
        simp only [parseItems] at h
        split at h
        · obtain ⟨p', hp', rfl⟩ := mapParts_ok h
          obtain ⟨ih1, ih2⟩ := ih toks hp'
          refine ⟨by simp [wfParts, ih1], ?_⟩
          simp [Parts.yield, texts, Table.tokText] at ih2 ⊢
          exact ih2
        · cases h
    | nt n =>
      simp only [parseItems] at h
      split at h
      · rename_i f b r' hpn
        obtain ⟨h1, h2, h3, h4⟩ := hp _ _ _ _ _ hpn
        obtain ⟨p', hp', rfl⟩ := mapParts_ok h
        obtain ⟨ih1, ih2⟩ := ih r' hp'
        refine ⟨by simp [wfParts, h1, h2, h3, ih1], ?_⟩
        rw [h4, ih2]
        simp [Parts.yield, texts]
      · cases h
      · cases h
    | star n =>
      simp only [parseItems] at h
      split at h
      · rename_i ds r' hs
        obtain ⟨s1, s2⟩ := parseStar_sound G hp n _ toks hs
        obtain ⟨p', hp', rfl⟩ := mapParts_ok h
        obtain ⟨ih1, ih2⟩ := ih r' hp'
        refine ⟨starParts_wf G s1 ih1, ?_⟩
        rw [s2, ih2, starParts_yield]
        simp [Parts.yield, texts, List.map_flatMap]
      · cases h
      · cases h
    | opt n =>
      simp only [parseItems] at h
      split at h
      · rename_i f b r' hpn
        obtain ⟨h1, h2, h3, h4⟩ := hp _ _ _ _ _ hpn
        obtain ⟨p', hp', rfl⟩ := mapParts_ok h
        obtain ⟨ih1, ih2⟩ := ih r' hp'
        refine ⟨by simp [wfParts, h1, h2, h3, ih1], ?_⟩
        rw [h4, ih2]
        simp [Parts.yield, texts]
      · obtain ⟨p', hp', rfl⟩ := mapParts_ok h
        obtain ⟨ih1, ih2⟩ := ih toks hp'
        exact ⟨by simp [wfParts, ih1], by simpa [Parts.yield] using ih2⟩
      · cases h

theorem parseNt_sound (hi : IdsOK G = true) (fuel : Nat) : PnSound G (parseNt G fuel) := by
  induction fuel with
  | zero => intro n toks f b r h; simp [parseNt] at h
  | succ fuel ih =>
    intro n toks f b r h
    simp only [parseNt] at h
    obtain ⟨g, hg, hpg⟩ := firstForm_ok h
    split at hpg
    · rename_i ho
      split at hpg
      · rename_i p r' hpi
        simp only [PR.ok.injEq, Prod.mk.injEq] at hpg
        obtain ⟨rfl, rfl, rfl⟩ := hpg
        obtain ⟨h1, h2⟩ := parseItems_sound G ih _ _ hpi
        exact ⟨idsOK_has G hi hg, by simpa using ho, h1, h2⟩
      · cases hpg
      · cases hpg
    · cases hpg

theorem parseToks_sound (hi : IdsOK G = true) {toks : List Text} {d : Deriv} (h : parseToks G toks = .ok d) :
    d.WF G = true ∧ d.form.origin = G.start ∧ texts G d.yield = toks := by
  unfold parseToks at h
  split at h
  · rename_i f p hp
    cases h
    obtain ⟨h1, h2, h3, h4⟩ := parseNt_sound G hi _ _ _ _ _ _ hp
    exact ⟨by simp [Deriv.WF, h1, h3], h2, by simpa [Deriv.yield] using h4.symm⟩
  all_goals cases h

/-! ## Part 4: every token the lexer returns lexes back to itself -/

theorem scanStr_self {e : Bool} {cs b r : Text} (h : scanStr e cs = some (b, r)) : scanStr e b = some (b, []) := by
  induction cs generalizing e b r with
  | nil => simp [scanStr] at h
  | cons c cs ih =>
    simp only [scanStr] at h
    by_cases hc : (c == 34 && !e) = true
    · simp only [hc, ↓reduceIte, Option.some.injEq, Prod.mk.injEq] at h
      obtain ⟨rfl, rfl⟩ := h
      have hc' := hc
      simp only [Bool.and_eq_true, beq_iff_eq, Bool.not_eq_eq_eq_not, Bool.not_true] at hc'
      simp [scanStr, hc'.2]
    · simp only [hc, Bool.false_eq_true, ↓reduceIte] at h
      cases hs : scanStr (c == 92 && !e) cs with
      | none => simp [hs] at h
      | some br =>
        obtain ⟨b1, r1⟩ := br
        simp only [hs, Option.some.injEq, Prod.mk.injEq] at h
        obtain ⟨rfl, rfl⟩ := h
        simp only [scanStr, hc, Bool.false_eq_true, ↓reduceIte, ih hs]

theorem lex_lexable (kws : List Text) (n : Nat) : ∀ (src : Text) (ts : List Text), src.length ≤ n →
    lexProfile kws src = some ts → ∀ t ∈ ts, lexableTok kws t = true := by
  induction n with
  | zero =>
    intro src ts hn h
    have : src = [] := List.eq_nil_of_length_eq_zero (by omega)
    subst this
    rw [lexProfile] at h
    cases h
    simp
  | succ n ih =>
    intro src ts hn h
    cases src with
    | nil => rw [lexProfile] at h; cases h; simp
    | cons c cs =>
      rw [lexProfile] at h
      simp only [List.length_cons] at hn
      split at h
      · exact ih cs ts (by omega) h
      · rename_i hw
        split at h
        · exact ih _ ts (by have := dropLine_length cs; omega) h
        · rename_i h35
          split at h
          · rename_i h34
            split at h
            · cases h
            · rename_i b r hs
              simp only [Option.map_eq_some_iff] at h
              obtain ⟨ts', hts', rfl⟩ := h
              have hlen := scanStr_length hs
              intro t ht
              simp only [List.mem_cons] at ht
              rcases ht with rfl | ht
              · simp [lexableTok, scanStr_self hs]
              · exact ih r ts' (by omega) hts' t ht
          · rename_i h34
            split at h
            · cases h
            · rename_i k hk
              split at h
              · cases h
              · rename_i hk0
                simp only [Option.map_eq_some_iff] at h
                obtain ⟨ts', hts', rfl⟩ := h
                obtain ⟨hm, hp, _⟩ := longestKw_some hk
                intro t ht
                simp only [List.mem_cons] at ht
                rcases ht with rfl | ht
                · cases t with
                  | nil => simp at hk0
                  | cons d t =>
                    have hp' : (d :: t) <+: (c :: cs) := by simpa using hp
                    obtain ⟨u, hu⟩ := hp'
                    simp only [List.cons_append, List.cons.injEq] at hu
                    obtain ⟨rfl, _⟩ := hu
                    simp only [lexableTok]
                    simp only [beq_iff_eq] at h35 h34
                    simp [h34, hm, hw, h35]
                · exact ih _ ts' (by simp; omega) hts' t ht

theorem lex_lexable' (kws : List Text) {src : Text} {ts : List Text} (h : lexProfile kws src = some ts) :
    ∀ t ∈ ts, lexableTok kws t = true :=
  lex_lexable kws src.length src ts (Nat.le_refl _) h

/-! ## Part 5: sentences end with a flushing token -/

def lastFlush (ys : List Tok) : Prop := ∃ t, ys.getLast? = some t ∧ isFlush (G.tokText t) = true

theorem lastFlush_cons {G : Table} {y : Tok} {ys : List Tok} (h : lastFlush G ys) : lastFlush G (y :: ys) := by
  obtain ⟨t, ht, hf⟩ := h
  cases ys with
  | nil => simp at ht
  | cons a as => exact ⟨t, by rw [List.getLast?_cons_cons]; exact ht, hf⟩

theorem lastFlush_append {G : Table} {xs ys : List Tok} (h : lastFlush G ys) : lastFlush G (xs ++ ys) := by
  induction xs with
  | nil => simpa using h
  | cons x xs ih => exact lastFlush_cons ih

theorem lastOK_cons {c : List Nat} {i j : Item} {is : List Item} : lastOK G c (i :: j :: is) = lastOK G c (j :: is) := by
  unfold lastOK
  rw [List.getLast?_cons_cons]

theorem closedOK_form {c : List Nat} (hc : ClosedOK G c = true) {f : Form} (hf : G.has f = true)
    (hn : c.contains f.origin = true) : lastOK G c f.items = true := by
  unfold ClosedOK at hc
  have := List.all_eq_true.mp hc f (mem_of_has G hf)
  simp only [hn, Bool.not_true, Bool.false_or] at this
  exact this

theorem last_yield {c : List Nat} (hc : ClosedOK G c = true) {p : Parts} {is : List Item}
    (hp : wfParts G is p = true) (hl : lastOK G c is = true) : lastFlush G p.yield := by
  induction p generalizing is with
  | done =>
    cases is with
    | nil => simp [lastOK] at hl
    | cons i is => simp [wfParts] at hp
  | kw k r ih =>
    cases is with
    | nil => simp [wfParts] at hp
    | cons i is =>
      cases i <;> simp [wfParts] at hp
      rename_i k'
      obtain ⟨hkk, hp⟩ := hp
      subst hkk
      cases is with
      | nil =>
        cases r <;> simp [wfParts] at hp
        simp only [lastOK, List.getLast?_singleton] at hl
        split at hl
        · rename_i t ht
          exact ⟨Tok.kw k', by simp [Parts.yield], by simp [Table.tokText, ht, hl]⟩
        · cases hl
      | cons j is =>
        rw [lastOK_cons] at hl
        exact lastFlush_cons (ih hp hl)
  | tok t s r ih =>
    cases is with
    | nil => simp [wfParts] at hp
    | cons i is =>
      cases i <;> simp [wfParts] at hp
      cases is with
      | nil => simp [lastOK] at hl
      | cons j is =>
        rw [lastOK_cons] at hl
        exact lastFlush_cons (ih hp.2 hl)
  | sub f b r ihb ihr =>
    cases is with
    | nil => simp [wfParts] at hp
    | cons i is =>
      cases i <;> simp [wfParts] at hp
      all_goals obtain ⟨⟨⟨hh, hn⟩, hb⟩, hr⟩ := hp
      · -- nt
        cases is with
        | nil =>
          cases r <;> simp [wfParts] at hr
          simp only [lastOK, List.getLast?_singleton] at hl
          rw [← hn] at hl
          have := ihb hb (closedOK_form G hc hh hl)
          simpa [Parts.yield] using this
        | cons j is =>
          rw [lastOK_cons] at hl
          simp only [Parts.yield]
          exact lastFlush_append (ihr hr hl)
      · -- star
        simp only [Parts.yield]
        exact lastFlush_append (ihr hr hl)
      · -- opt
        cases is with
        | nil => simp [lastOK] at hl
        | cons j is =>
          rw [lastOK_cons] at hl
          simp only [Parts.yield]
          exact lastFlush_append (ihr hr hl)
  | stop r ih =>
    cases is with
    | nil => simp [wfParts] at hp
    | cons i is =>
      cases i <;> simp [wfParts] at hp
      all_goals
        cases is with
        | nil => simp [lastOK] at hl
        | cons j is =>
          rw [lastOK_cons] at hl
          simpa [Parts.yield] using ih hp hl

theorem rep_yield {c : List Nat} (hc : ClosedOK G c = true) {p : Parts} {is : List Item}
    (hp : wfParts G is p = true) (hl : repClosed c is = true) : p.yield = [] ∨ lastFlush G p.yield := by
  induction p generalizing is with
  | done => left; rfl
  | kw k r ih =>
    cases is with
    | nil => simp [wfParts] at hp
    | cons i is => cases i <;> simp [wfParts] at hp; simp [repClosed] at hl
  | tok t s r ih =>
    cases is with
    | nil => simp [wfParts] at hp
    | cons i is => cases i <;> simp [wfParts] at hp; simp [repClosed] at hl
  | sub f b r ihb ihr =>
    cases is with
    | nil => simp [wfParts] at hp
    | cons i is =>
      cases i <;> simp [wfParts] at hp <;> simp only [repClosed, Bool.and_eq_true] at hl
      all_goals obtain ⟨⟨⟨hh, hn⟩, hb⟩, hr⟩ := hp
      all_goals
        have hlast : lastFlush G b.yield := last_yield G hc hb (closedOK_form G hc hh (by rw [hn]; exact hl.1))
        simp only [Parts.yield]
      · rcases ihr hr hl.2 with h | h
        · right; rw [h]; simpa using hlast
        · right; exact lastFlush_append h
      · rcases ihr hr (by simp only [repClosed, Bool.and_eq_true]; exact hl) with h | h
        · right; rw [h]; simpa using hlast
        · right; exact lastFlush_append h
      · rcases ihr hr hl.2 with h | h
        · right; rw [h]; simpa using hlast
        · right; exact lastFlush_append h
  | stop r ih =>
    cases is with
    | nil => simp [wfParts] at hp
    | cons i is =>
      cases i <;> simp [wfParts] at hp <;> simp only [repClosed, Bool.and_eq_true] at hl
      all_goals simpa [Parts.yield] using ih hp hl.2

/-- the token texts of a derivation from the start symbol end with a flushing token (or are empty) -/
theorem yield_terminated (ht : TerminatedWF G = true) {d : Deriv} (hd : d.WF G = true)
    (hs : d.form.origin = G.start) : terminated (d.yield.map G.tokText) = true := by
  unfold TerminatedWF terminatedWith at ht
  simp only [Bool.and_eq_true, List.all_eq_true, Bool.or_eq_true, bne_iff_ne, ne_eq] at ht
  unfold Deriv.WF at hd
  simp only [Bool.and_eq_true] at hd
  have hrep : repClosed (closedOrigins G) d.form.items = true := by
    rcases ht.2 d.form (mem_of_has G hd.1) with h | h
    · exact absurd hs h
    · exact h
  unfold terminated Deriv.yield
  rcases rep_yield G ht.1 hd.2 hrep with h | ⟨t, h1, h2⟩
  · simp [h]
  · simp [List.getLast?_map, h1, h2]

/-! ## Part 6: histories -/

theorem runHistory_append (st : Option Tree) (a b : List HStep) :
    runHistory G st (a ++ b) = runHistory G st a ++ runHistory G (finalState G st a) b := by
  induction a generalizing st with
  | nil => rfl
  | cons h hs ih => simp [runHistory, finalState, ih]

end C10

import CsVerif.Lemmas.C06
import CsVerif.Model.C06Gen
/-!
Helper lemmas for `Props/C06Gen.lean`: the run-time operations of `Model/PyU_T07.lean` on the generated layout of
`struct BeaconMetadata` (`t07StructParse` = `C06.parseMetadata`, `t07Dumps` / `t07Len` = `C06.dumpsMetadata`), and the two
equivalence proofs.  No property statements here.
-/
namespace C06Gen
open PyU (V)
open C06

theorem bm_fields : Gen.PyC2M.BeaconMetadataCls.fields =
    ["magic", "size", "aes_rand", "ansi_cp", "oem_cp", "bid", "pid", "port", "flag", "ver_major", "ver_minor", "ver_build",
     "ptr_x64", "ptr_gmh", "ptr_gpa", "ip", "info"] := by decide

theorem bm_tys : Gen.PyC2M.BeaconMetadata.tys =
    [.uint 4, .uint 4, .chars 16, .uint 2, .uint 2, .uint 4, .uint 4, .uint 2, .uint 1, .uint 1, .uint 1, .uint 2, .uint 4, .uint 4,
     .uint 4, .uint 4, .charsExpr "size" 51] := by decide

theorem bm_offsets : Gen.PyC2M.BeaconMetadata.offsets = [0, 4, 8, 24, 26, 28, 32, 36, 38, 39, 40, 41, 43, 47, 51, 55, 59] := by decide

theorem bm_be : Gen.PyC2M.BeaconMetadata.bigEndian = true := by decide

theorem beNat_eq (l : Bytes) (acc : Nat) : PyU.beNat l acc = l.foldl (fun a x => a * 256 + x.toNat) acc := by
  induction l generalizing acc with
  | nil => rfl
  | cons x xs ih => simp [PyU.beNat, ih]

theorem uintOf_be (raw : Bytes) : PyU.uintOf true raw = C06.beNat raw := by
  simp [PyU.uintOf, beNat_eq, C06.beNat]

theorem read_uint (be : Bool) (f : String) (fs : List String) (w : Nat) (tys : List PyU.T07FieldTy) (rest : Bytes) (acc : List (String × V)) :
    PyU.t07ReadFields be (f :: fs) (.uint w :: tys) rest acc =
      if rest.length < w then .error .eofError
      else (PyU.t07ReadFields be fs tys (rest.drop w) ((f, .int (PyU.uintOf be (rest.take w))) :: acc)).map
        (V.int (PyU.uintOf be (rest.take w)) :: ·) := by
  simp only [PyU.t07ReadFields]
  split
  · rfl
  · cases PyU.t07ReadFields be fs tys (rest.drop w) ((f, .int (PyU.uintOf be (rest.take w))) :: acc) <;> rfl

theorem read_chars (be : Bool) (f : String) (fs : List String) (w : Nat) (tys : List PyU.T07FieldTy) (rest : Bytes) (acc : List (String × V)) :
    PyU.t07ReadFields be (f :: fs) (.chars w :: tys) rest acc =
      if rest.length < w then .error .eofError
      else (PyU.t07ReadFields be fs tys (rest.drop w) ((f, .bytes (rest.take w)) :: acc)).map (V.bytes (rest.take w) :: ·) := by
  simp only [PyU.t07ReadFields]
  split
  · rfl
  · cases PyU.t07ReadFields be fs tys (rest.drop w) ((f, .bytes (rest.take w)) :: acc) <;> rfl

theorem read_expr (be : Bool) (f : String) (fs : List String) (lf : String) (sub : Nat) (tys : List PyU.T07FieldTy) (rest : Bytes)
    (acc : List (String × V)) (x : Int) (h : (acc.find? (·.1 == lf)).bind (fun p => PyU.asInt p.2) = some x) :
    PyU.t07ReadFields be (f :: fs) (.charsExpr lf sub :: tys) rest acc =
      if rest.length < (x - (sub : Int)).toNat then .error .eofError
      else (PyU.t07ReadFields be fs tys (rest.drop (x - (sub : Int)).toNat) ((f, .bytes (rest.take (x - (sub : Int)).toNat)) :: acc)).map
        (V.bytes (rest.take (x - (sub : Int)).toNat) :: ·) := by
  simp only [PyU.t07ReadFields]
  cases hf : acc.find? (·.1 == lf) with
  | none => simp [hf] at h
  | some p =>
    obtain ⟨k, v⟩ := p
    simp only [hf, Option.bind] at h
    simp only [h, Option.map]
    split
    · rfl
    · cases PyU.t07ReadFields be fs tys (rest.drop (x - (sub : Int)).toNat) ((f, .bytes (rest.take (x - (sub : Int)).toNat)) :: acc) <;> rfl

theorem read_info (rest : Bytes) (s : Nat) (v0 v2 v3 v4 v5 v6 v7 v8 v9 v10 v11 v12 v13 v14 v15 : V) :
    PyU.t07ReadFields true ["info"] [.charsExpr "size" 51] rest
      [("ip", v15), ("ptr_gpa", v14), ("ptr_gmh", v13), ("ptr_x64", v12), ("ver_build", v11), ("ver_minor", v10), ("ver_major", v9),
       ("flag", v8), ("port", v7), ("pid", v6), ("bid", v5), ("oem_cp", v4), ("ansi_cp", v3), ("aes_rand", v2), ("size", .int s), ("magic", v0)] =
      if rest.length < s - 51 then .error .eofError else .ok [.bytes (rest.take (s - 51))] := by
  have e : ((s : Int) - 51).toNat = s - 51 := by omega
  have c : ((rest.length : Int) < (s : Int) - 51) ↔ rest.length < s - 51 := by omega
  simp [PyU.t07ReadFields, List.find?, PyU.asInt]
  simp only [e, c]

theorem map_ite {α β ε : Type} (f : α → β) (c : Prop) [Decidable c] (a b : Except ε α) :
    Except.map f (if c then a else b) = if c then Except.map f a else Except.map f b := by
  split <;> rfl

theorem structParse_bytes (sc : PyU.T07StructCls) (d : Bytes) :
    PyU.t07StructParse sc (.bytes d) = (PyU.t07ReadFields sc.bigEndian sc.cls.fields sc.tys d []).map (V.inst sc.cls) := by
  simp only [PyU.t07StructParse]
  cases PyU.t07ReadFields sc.bigEndian sc.cls.fields sc.tys d [] <;> rfl

/-- total width of the leading fields whose size does not depend on other fields -/
def fixedPrefixWidth : List PyU.T07FieldTy → Nat
  | .uint w :: t => w + fixedPrefixWidth t
  | .chars n :: t => n + fixedPrefixWidth t
  | _ => 0

theorem readFields_short (be : Bool) : ∀ (tys : List PyU.T07FieldTy) (fs : List String) (rest : Bytes) (acc : List (String × V)),
    fs.length = tys.length → rest.length < fixedPrefixWidth tys → PyU.t07ReadFields be fs tys rest acc = .error .eofError
  | [], _, _, _, _, h => by simp [fixedPrefixWidth] at h
  | .charsExpr _ _ :: _, _, _, _, _, h => by simp [fixedPrefixWidth] at h
  | .uint w :: t, [], _, _, hl, _ => by simp at hl
  | .chars w :: t, [], _, _, hl, _ => by simp at hl
  | .uint w :: t, f :: fs, rest, acc, hl, h => by
    rw [read_uint]
    by_cases hw : rest.length < w
    · rw [if_pos hw]
    · rw [if_neg hw, readFields_short be t fs (rest.drop w) _ (by simpa using hl)
        (by simp only [fixedPrefixWidth] at h; rw [List.length_drop]; omega)]
      rfl
  | .chars w :: t, f :: fs, rest, acc, hl, h => by
    rw [read_chars]
    by_cases hw : rest.length < w
    · rw [if_pos hw]
    · rw [if_neg hw, readFields_short be t fs (rest.drop w) _ (by simpa using hl)
        (by simp only [fixedPrefixWidth] at h; rw [List.length_drop]; omega)]
      rfl

theorem parse_enc (d : Bytes) :
    PyU.t07StructParse Gen.PyC2M.BeaconMetadata (.bytes d) = (C06.parseMetadata d).map encMeta := by
  simp only [structParse_bytes, bm_be, bm_tys]
  rw [show Gen.PyC2M.BeaconMetadata.cls = Gen.PyC2M.BeaconMetadataCls from rfl, bm_fields]
  by_cases hl : d.length < 59
  · rw [parse_short d hl, readFields_short true _ _ d [] rfl (by simp only [fixedPrefixWidth]; omega)]
    rfl
  · have hh : ¬ d.length < headerLen := by rw [headerLen_eq]; exact hl
    simp only [read_uint, read_chars, List.length_drop]
    simp (disch := omega) only [if_neg]
    rw [read_info]
    simp only [parseMetadata, if_neg hh]
    simp only [W_magic, W_size, W_aes_rand, W_ansi_cp, W_oem_cp, W_bid, W_pid, W_port, W_flag, W_ver_major,
        W_ver_minor, W_ver_build, W_ptr_x64, W_ptr_gmh, W_ptr_gpa, W_ip, infoLenSub_eq, uintOf_be]
    simp only [map_ite]
    split
    · rfl
    · rfl

theorem t07BeBytes_eq (w v : Nat) : PyU.t07BeBytes w v = C06.beBytes w v := by
  induction w generalizing v with
  | zero => rfl
  | succ w ih => simp [PyU.t07BeBytes, C06.beBytes, ih]

/-- the value suits the field: a non-negative `int` for an integer field, `bytes` for a `char` array -/
def wellKinded : PyU.T07FieldTy → V → Bool
  | .uint _, .int n => decide (0 ≤ n)
  | .chars _, .bytes _ => true
  | .charsExpr _ _, .bytes _ => true
  | _, _ => false

def fieldFits : PyU.T07FieldTy → V → Bool
  | .uint w, .int n => decide (n.toNat < 256 ^ w)
  | _, _ => true

def fieldPure : PyU.T07FieldTy → V → Bytes
  | .uint w, .int n => C06.beBytes w n.toNat
  | _, .bytes b => b
  | _, _ => []

theorem fieldBytes_wk (ty : PyU.T07FieldTy) (v : V) (h : wellKinded ty v = true) :
    PyU.t07FieldBytes true ty v = if fieldFits ty v then .ok (fieldPure ty v) else .error .structError := by
  cases ty <;> cases v <;> simp only [wellKinded, decide_eq_true_eq, Bool.false_eq_true] at h
  · rename_i w n
    have e : (n < (256 : Int) ^ w) ↔ n.toNat < 256 ^ w := by
      rw [Int.toNat_lt h, Int.natCast_pow]; rfl
    simp only [PyU.t07FieldBytes, PyU.asInt, fieldFits, fieldPure, h, e, t07BeBytes_eq, true_and, if_true, decide_eq_true_eq]
  · simp only [PyU.t07FieldBytes, fieldFits, fieldPure]; rfl
  · simp only [PyU.t07FieldBytes, fieldFits, fieldPure]; rfl

def wkAll : List PyU.T07FieldTy → List V → Bool
  | ty :: tys, v :: vs => wellKinded ty v && wkAll tys vs
  | _, _ => true

def fitsAll : List PyU.T07FieldTy → List V → Bool
  | ty :: tys, v :: vs => fieldFits ty v && fitsAll tys vs
  | _, _ => true

def layout : List PyU.T07FieldTy → List Nat → List V → Bytes → Bytes
  | ty :: tys, off :: offs, v :: vs, out => layout tys offs vs (out ++ List.replicate (off - out.length) 0 ++ fieldPure ty v)
  | _, _, _, out => out

theorem dump_wk : ∀ (tys : List PyU.T07FieldTy) (offs : List Nat) (vs : List V) (out : Bytes),
    wkAll tys vs = true → tys.length = offs.length →
    PyU.t07DumpFields true tys offs vs out = if fitsAll tys vs then .ok (layout tys offs vs out) else .error .structError
  | [], _, _, out, _, _ => by simp [PyU.t07DumpFields, fitsAll, layout]
  | _ :: _, [], _, _, _, hl => by simp at hl
  | ty :: tys, off :: offs, [], out, _, _ => by simp [PyU.t07DumpFields, fitsAll, layout]
  | ty :: tys, off :: offs, v :: vs, out, hw, hl => by
    simp only [wkAll, Bool.and_eq_true] at hw
    simp only [PyU.t07DumpFields, fieldBytes_wk ty v hw.1, fitsAll, layout]
    by_cases hf : fieldFits ty v = true
    · simp only [hf, if_true, Bool.true_and]
      exact dump_wk tys offs vs _ hw.2 (by simpa using hl)
    · simp [hf]


theorem fits_meta (m : Metadata) : fitsAll Gen.PyC2M.BeaconMetadata.tys (metaVals m) = decide (InWidth m) := by
  rw [bm_tys]
  simp only [fitsAll, fieldFits, metaVals, Int.toNat_natCast, Bool.and_true, Bool.true_and]
  rw [Bool.eq_iff_iff]
  simp only [Bool.and_eq_true, decide_eq_true_eq, inWidth_iff, Nat.reducePow]

theorem layout_nopad (ty : PyU.T07FieldTy) (tys : List PyU.T07FieldTy) (off : Nat) (offs : List Nat) (v : V) (vs : List V) (out : Bytes)
    (h : off ≤ out.length) : layout (ty :: tys) (off :: offs) (v :: vs) out = layout tys offs vs (out ++ fieldPure ty v) := by
  simp [layout, Nat.sub_eq_zero_of_le h]

theorem layout_pad (ty : PyU.T07FieldTy) (tys : List PyU.T07FieldTy) (off : Nat) (offs : List Nat) (v : V) (vs : List V) (out : Bytes)
    (k : Nat) (h : off - out.length = k) :
    layout (ty :: tys) (off :: offs) (v :: vs) out = layout tys offs vs (out ++ List.replicate k 0 ++ fieldPure ty v) := by
  simp [layout, h]

theorem layout_meta (m : Metadata) : layout Gen.PyC2M.BeaconMetadata.tys Gen.PyC2M.BeaconMetadata.offsets (metaVals m) [] = rawDumps m := by
  rw [bm_tys, bm_offsets]
  simp only [metaVals]
  rw [layout_nopad _ _ _ _ _ _ _ (by simp), layout_nopad _ _ _ _ _ _ _ (by simp [fieldPure, beBytes_length]),
    layout_nopad _ _ _ _ _ _ _ (by simp [fieldPure, beBytes_length]),
    layout_pad _ _ _ _ _ _ _ (16 - m.aes_rand.length) (by simp [fieldPure, beBytes_length]; omega)]
  iterate 13 rw [layout_nopad _ _ _ _ _ _ _ (by simp [fieldPure, beBytes_length]; omega)]
  simp only [layout, fieldPure, Int.toNat_natCast, List.append_assoc, List.nil_append, rawDumps, padTo,
    W_magic, W_size, W_aes_rand, W_ansi_cp, W_oem_cp, W_bid, W_pid, W_port, W_flag, W_ver_major,
    W_ver_minor, W_ver_build, W_ptr_x64, W_ptr_gmh, W_ptr_gpa, W_ip]

theorem find_bm : PyU.t07FindStruct Gen.PyC2M.structs Gen.PyC2M.BeaconMetadataCls = some Gen.PyC2M.BeaconMetadata := by
  rfl

theorem lift_ok {α : Type} (a : α) : (liftM (Except.ok a : Py α) : PyU.T07PyE α) = .ok a := id rfl
theorem lift_err {α : Type} (e : PyExc) : (liftM (Except.error e : Py α) : PyU.T07PyE α) = .error (.py e) := rfl
theorem ok_bindE {α β : Type} (a : α) (f : α → PyU.T07PyE β) : ((Except.ok a : PyU.T07PyE α) >>= f) = f a := rfl
theorem err_bindE {α β : Type} (e : PyU.T07Exc) (f : α → PyU.T07PyE β) : ((Except.error e : PyU.T07PyE α) >>= f) = .error e := rfl

theorem dumpFields_meta (m : Metadata) :
    PyU.t07DumpFields Gen.PyC2M.BeaconMetadata.bigEndian Gen.PyC2M.BeaconMetadata.tys Gen.PyC2M.BeaconMetadata.offsets (metaVals m) [] =
      if InWidth m then .ok (rawDumps m) else .error .structError := by
  rw [bm_be, dump_wk _ _ _ _ (by rw [bm_tys]; rfl) (by rw [bm_tys, bm_offsets]; rfl), fits_meta, layout_meta]
  simp

theorem len_meta (m : Metadata) :
    PyU.t07Len Gen.PyC2M.structs (encMeta m) = if InWidth m then .ok (.int (rawDumps m).length) else .error .structError := by
  simp only [PyU.t07Len, encMeta, find_bm, dumpFields_meta]
  split <;> rfl

theorem dumps_meta (m : Metadata) :
    PyU.t07Dumps Gen.PyC2M.structs (encMeta m) = if InWidth m then .ok (.bytes (rawDumps m)) else .error .structError := by
  simp only [PyU.t07Dumps, encMeta, find_bm, dumpFields_meta]
  split <;> rfl

theorem setSize_meta (m : Metadata) (s : Nat) :
    PyU.instSetAttr (encMeta m) "size" (.int s) = .ok (encMeta { m with size := s }) := by
  simp only [PyU.instSetAttr, encMeta, bm_fields, metaVals]
  rfl

theorem gen_encrypt_metadata_proof (c : Crypto) (r : Rand) (key : V) (m : Metadata) :
    Gen.PyC2M.encrypt_metadata (encX c r) (encMeta m) key =
      encPyS (fun p => .tuple [.bytes p.1, encMeta p.2]) (encryptMetadataM c m r) := by
  unfold Gen.PyC2M.encrypt_metadata encryptMetadataM C06.encryptMetadata C06.sized
  by_cases hw : InWidth m
  · have hlen : 8 ≤ (rawDumps m).length := by rw [rawDumps_length]; omega
    have hsub : PyU.sub (.int (rawDumps m).length) (.int 8) = .ok (.int ((rawDumps m).length - 8 : Nat)) := by
      simp only [PyU.sub, PyU.ints2, PyU.asInt, Except.map]
      congr 2; omega
    simp only [len_meta, hw, if_true, dumps_ok m hw]
    rw [ok_bindE, hsub, lift_ok, ok_bindE, setSize_meta, lift_ok, ok_bindE, dumps_meta]
    by_cases hw' : InWidth { m with size := (rawDumps m).length - 8 }
    · rw [if_pos hw', ok_bindE, dumps_ok _ hw']
      simp only [encX]
      cases c.rsaEnc (rawDumps { m with size := (rawDumps m).length - 8 }) r <;> rfl
    · rw [if_neg hw', err_bindE, dumps_err _ hw']
      rfl
  · simp only [len_meta, hw, if_false, dumps_err m hw]
    rfl
theorem gen_decrypt_metadata_proof (c : Crypto) (key : V) (blob : Bytes) :
    Gen.PyC2M.decrypt_metadata (decX c) (.bytes blob) key = (C06.decryptMetadata c blob).map encMeta := by
  unfold Gen.PyC2M.decrypt_metadata C06.decryptMetadata
  simp only [decX]
  cases hd : c.rsaDec blob with
  | error e => rfl
  | ok o =>
    cases o with
    | none => rfl
    | some pt =>
      by_cases hp : pt = []
      · subst hp; rfl
      · have ht : PyU.truthy (.bytes pt) = true := by
          cases pt with
          | nil => exact absurd rfl hp
          | cons _ _ => rfl
        simp only [PyRt.ok_bind, ht, hp, if_false, Bool.not_true, parse_enc]
        cases hpm : parseMetadata pt with
        | error e =>
          have := parse_error_eof pt e hpm
          subst this
          rfl
        | ok m =>
          have hg : PyU.getAttr (encMeta m) "magic" = .ok (.int m.magic) := by
            simp only [encMeta, PyU.getAttr, bm_fields, metaVals]; rfl
          simp only [Except.map, PyU.attempt, PyRt.ok_bind, hg]
          by_cases hm : m.magic = magicBeef
          · simp [hm]
            rfl
          · have hne : ¬ (m.magic : Int) = 48879 := by
              simp only [magicBeef] at hm; omega
            simp [PyU.eq, hne, hm, PyU.t07FmtZeroHex, PyU.asInt]
            split <;> rfl
end C06Gen

import CsVerif.Model.C06
/-! Helper lemmas for C06 (no property statements here). -/
namespace C06
open Gen.C2Struct

/-! ### facts about the generated layout (re-checked against the generated table on every build) -/

theorem W_magic : W "magic" = 4 := by decide
theorem W_size : W "size" = 4 := by decide
theorem W_aes_rand : W "aes_rand" = 16 := by decide
theorem W_ansi_cp : W "ansi_cp" = 2 := by decide
theorem W_oem_cp : W "oem_cp" = 2 := by decide
theorem W_bid : W "bid" = 4 := by decide
theorem W_pid : W "pid" = 4 := by decide
theorem W_port : W "port" = 2 := by decide
theorem W_flag : W "flag" = 1 := by decide
theorem W_ver_major : W "ver_major" = 1 := by decide
theorem W_ver_minor : W "ver_minor" = 1 := by decide
theorem W_ver_build : W "ver_build" = 2 := by decide
theorem W_ptr_x64 : W "ptr_x64" = 4 := by decide
theorem W_ptr_gmh : W "ptr_gmh" = 4 := by decide
theorem W_ptr_gpa : W "ptr_gpa" = 4 := by decide
theorem W_ip : W "ip" = 4 := by decide
theorem headerLen_eq : headerLen = 59 := by decide
theorem infoLenSub_eq : infoLenSub = 51 := by decide

/-! ### big-endian integers -/

theorem beBytes_length (w v : Nat) : (beBytes w v).length = w := by
  induction w generalizing v with
  | zero => rfl
  | succ w ih => simp [beBytes, ih]

theorem beNat_append_singleton (xs : Bytes) (b : UInt8) :
    beNat (xs ++ [b]) = beNat xs * 256 + b.toNat := by
  simp [beNat, List.foldl_append]

theorem beNat_beBytes (w v : Nat) (h : v < 256 ^ w) : beNat (beBytes w v) = v := by
  induction w generalizing v with
  | zero => simp at h; subst h; rfl
  | succ w ih =>
    simp only [beBytes, beNat_append_singleton]
    rw [ih (v / 256) (by rw [Nat.pow_succ] at h; omega)]
    rw [UInt8.toNat_ofNat']
    omega

theorem take_beBytes_append (w v : Nat) (r : Bytes) : (beBytes w v ++ r).take w = beBytes w v := by
  rw [List.take_append_of_le_length (by simp [beBytes_length])]
  exact List.take_of_length_le (by simp [beBytes_length])

theorem drop_beBytes_append (w v : Nat) (r : Bytes) : (beBytes w v ++ r).drop w = r := by
  have := List.drop_left (l₁ := beBytes w v) (l₂ := r)
  rwa [beBytes_length] at this

theorem take_len_append (a r : Bytes) : (a ++ r).take a.length = a := by simp
theorem drop_len_append (a r : Bytes) : (a ++ r).drop a.length = r := by simp

theorem padTo_of_length {n : Nat} {a : Bytes} (h : a.length = n) : padTo n a = a := by
  simp [padTo, h]

/-! ### dumps -/

theorem rawDumps_length (m : Metadata) :
    (rawDumps m).length = 43 + max 16 m.aes_rand.length + m.info.length := by
  simp only [rawDumps, List.length_append, beBytes_length, padTo, List.length_replicate,
    W_magic, W_size, W_aes_rand, W_ansi_cp, W_oem_cp, W_bid, W_pid, W_port, W_flag, W_ver_major,
    W_ver_minor, W_ver_build, W_ptr_x64, W_ptr_gmh, W_ptr_gpa, W_ip]
  omega

theorem rawDumps_length16 (m : Metadata) (haes : m.aes_rand.length = 16) :
    (rawDumps m).length = 59 + m.info.length := by
  rw [rawDumps_length, haes]; omega

theorem inWidth_iff (m : Metadata) :
    InWidth m ↔
      m.magic < 2 ^ 32 ∧ m.size < 2 ^ 32 ∧ m.ansi_cp < 2 ^ 16 ∧ m.oem_cp < 2 ^ 16 ∧
      m.bid < 2 ^ 32 ∧ m.pid < 2 ^ 32 ∧ m.port < 2 ^ 16 ∧ m.flag < 2 ^ 8 ∧ m.ver_major < 2 ^ 8 ∧
      m.ver_minor < 2 ^ 8 ∧ m.ver_build < 2 ^ 16 ∧ m.ptr_x64 < 2 ^ 32 ∧ m.ptr_gmh < 2 ^ 32 ∧
      m.ptr_gpa < 2 ^ 32 ∧ m.ip < 2 ^ 32 := by
  simp only [InWidth, W_magic, W_size, W_ansi_cp, W_oem_cp, W_bid, W_pid, W_port, W_flag, W_ver_major,
    W_ver_minor, W_ver_build, W_ptr_x64, W_ptr_gmh, W_ptr_gpa, W_ip, Nat.reducePow]

theorem inWidth_setSize (m : Metadata) (s : Nat) (hw : InWidth m) (hs : s < 2 ^ 32) :
    InWidth { m with size := s } := by
  rw [inWidth_iff] at hw ⊢
  obtain ⟨h1, _, h3⟩ := hw
  exact ⟨h1, hs, h3⟩

theorem dumps_ok (m : Metadata) (hw : InWidth m) : dumpsMetadata m = .ok (rawDumps m) := by
  simp [dumpsMetadata, hw]

theorem dumps_err (m : Metadata) (hw : ¬ InWidth m) : dumpsMetadata m = .error .structError := by
  simp [dumpsMetadata, hw]

/-! ### parse -/

theorem parse_rawDumps_append (m : Metadata) (t : Bytes) (hw : InWidth m)
    (haes : m.aes_rand.length = W "aes_rand") (hsize : m.size = infoLenSub + m.info.length) :
    parseMetadata (rawDumps m ++ t) = .ok m := by
  have hlen : ¬ (rawDumps m ++ t).length < headerLen := by
    rw [List.length_append, rawDumps_length, headerLen_eq]; omega
  obtain ⟨h1, h2, h3, h4, h5, h6, h7, h8, h9, h10, h11, h12, h13, h14, h15⟩ := hw
  unfold parseMetadata
  rw [if_neg hlen]
  simp only [rawDumps, padTo_of_length haes, List.append_assoc, take_beBytes_append, drop_beBytes_append]
  rw [← haes]
  simp only [take_len_append, drop_len_append, take_beBytes_append, drop_beBytes_append]
  simp only [beNat_beBytes, h1, h2, h3, h4, h5, h6, h7, h8, h9, h10, h11, h12, h13, h14, h15]
  rw [hsize]
  simp only [Nat.add_sub_cancel_left, List.length_append, List.take_left']
  rw [if_neg (by omega)]
  cases m
  simp only at hsize
  subst hsize
  simp

theorem parse_short (b : Bytes) (h : b.length < 59) : parseMetadata b = .error .eofError := by
  unfold parseMetadata
  rw [if_pos (by rw [headerLen_eq]; exact h)]

theorem parse_error_eof (b : Bytes) (e : PyExc) (h : parseMetadata b = .error e) : e = .eofError := by
  unfold parseMetadata at h
  split at h
  · injection h with h; exact h.symm
  · simp only at h
    split at h
    · injection h with h; exact h.symm
    · cases h

/-- the `size` field as the reader sees it: bytes 4..7, big-endian -/
def sizeField (b : Bytes) : Nat := beNat ((b.drop 4).take 4)

/-- the `magic` field as the reader sees it: bytes 0..3, big-endian -/
def magicField (b : Bytes) : Nat := beNat (b.take 4)

theorem parse_ok_facts (b : Bytes) (m : Metadata) (h : parseMetadata b = .ok m) :
    59 ≤ b.length ∧ m.magic = magicField b ∧ m.size = sizeField b ∧
    m.aes_rand = (b.drop 8).take 16 ∧
    sizeField b - 51 ≤ b.length - 59 ∧ m.info = (b.drop 59).take (sizeField b - 51) := by
  unfold parseMetadata at h
  split at h
  · cases h
  · rename_i hl
    rw [headerLen_eq] at hl
    simp only at h
    split at h
    · cases h
    · rename_i hn
      injection h with h
      subst h
      simp only [W_magic, W_size, W_aes_rand, W_ansi_cp, W_oem_cp, W_bid, W_pid, W_port, W_flag, W_ver_major,
        W_ver_minor, W_ver_build, W_ptr_x64, W_ptr_gmh, W_ptr_gpa, W_ip, List.drop_drop, List.length_drop,
        infoLenSub_eq] at hn ⊢
      refine ⟨by omega, rfl, rfl, trivial, ?_, rfl⟩
      simp only [sizeField]
      omega

theorem parse_truncated (b : Bytes) (_h0 : 59 ≤ b.length) (h : b.length - 59 < sizeField b - 51) :
    parseMetadata b = .error .eofError := by
  cases hp : parseMetadata b with
  | error e => rw [parse_error_eof b e hp]
  | ok m =>
    have := (parse_ok_facts b m hp).2.2.2.2.1
    omega

/-! ### the toy primitives -/

theorem takeWhile_replicate_append (n : Nat) (m : Bytes) :
    (List.replicate n (0xFF : UInt8) ++ 0 :: m).takeWhile (· != 0) = List.replicate n 0xFF := by
  induction n with
  | zero => simp
  | succ n ih =>
    rw [List.replicate_succ, List.cons_append, List.takeWhile_cons]
    have : ((0xFF : UInt8) != 0) = true := by decide
    rw [if_pos this, ih]

theorem toyUnpad_toyPad (k : Nat) (m : Bytes) (h : m.length + 11 ≤ k) : toyUnpad (toyPad k m) = some m := by
  simp only [toyPad, toyUnpad, takeWhile_replicate_append, List.length_replicate]
  rw [if_neg (by omega)]
  have := drop_len_append (List.replicate (k - m.length - 3) (0xFF : UInt8)) (0 :: m)
  rw [List.length_replicate] at this
  rw [this]

theorem toyPad_length (k : Nat) (m : Bytes) (h : m.length + 11 ≤ k) : (toyPad k m).length = k := by
  simp [toyPad]; omega

end C06

import CsVerif.Model.C02Gen
import CsVerif.Lemmas.C02
import CsVerif.Props.C20Gen
import Mathlib.Tactic.Ring
/-! Helper lemmas for Props/C02Gen.lean: the operations of `PyU` / `PyU_T02` (run-time library of the untyped translator) against
the primitives of the C02 model, and the translated definitions of `Gen/PyBeaconCfg.lean` against the model functions
(through the list-level specification `C02.parseSpec` for `iter_settings`).  No property statements. -/
namespace C02Gen
open PyU Gen.Beacon
set_option linter.unusedSimpArgs false

theorem pure_ok {α : Type} (a : α) : (pure a : Py α) = .ok a := rfl
theorem throw_err {α : Type} (e : PyExc) : (throw e : Py α) = .error e := rfl

/-! ### io.BytesIO -/

/-- a `BytesIO` whose consumed prefix is `pre` and whose unread rest is `s` -/
def mk (pre s : Bytes) : V := .bytesIO (pre ++ s) pre.length

theorem read_mk (pre s : Bytes) (k : Nat) :
    PyU.read (mk pre s) (.int (k : Int)) = .ok (.bytes (s.take k), mk (pre ++ s.take k) (s.drop k)) := by
  have h : ¬ ((k : Int) < 0) := by omega
  simp [PyU.read, mk, asInt, h, List.append_assoc]
theorem read_mk1 (pre s : Bytes) : PyU.read (mk pre s) (.int 1) = .ok (.bytes (s.take 1), mk (pre ++ s.take 1) (s.drop 1)) := read_mk pre s 1
theorem read_mk2 (pre s : Bytes) : PyU.read (mk pre s) (.int 2) = .ok (.bytes (s.take 2), mk (pre ++ s.take 2) (s.drop 2)) := read_mk pre s 2

/-- `p.seek(-k, io.SEEK_CUR)` for a small `k`: back by `k`, clamped at 0 -/
theorem seek_cur_neg (data : Bytes) (pos k : Nat) (hk : k ≤ 2) :
    bioSeek (.bytesIO data pos) (.int (-(k : Int))) (.int 1) = .ok (.int ((pos - k : Nat) : Int), .bytesIO data (pos - k)) := by
  simp only [bioSeek, asInt, ssizeMax, cintMax]
  have h1 : ¬ (-(k : Int) < -9223372036854775807 - 1 ∨ 9223372036854775807 < -(k : Int)) := by omega
  have h2 : ¬ ((1 : Int) < -2147483647 - 1 ∨ (2147483647 : Int) < 1) := by omega
  have h3 : ¬ (0 < -(k : Int) ∧ -(k : Int) > 9223372036854775807 - (pos : Int)) := by omega
  simp only [h1, h2, h3, if_false, if_true, true_or, show ¬ ((1 : Int) = 0) by omega]
  by_cases h : (pos : Int) + -(k : Int) < 0
  · have : pos - k = 0 := by omega
    simp [h, this]
  · have e : ((pos : Int) + -(k : Int)).toNat = pos - k := by omega
    simp [h, e]

theorem seek_back1 (pre : Bytes) (b : UInt8) (r : Bytes) :
    bioSeek (mk (pre ++ [b]) r) (.int (-1)) (.int 1) = .ok (.int (pre.length : Int), mk pre (b :: r)) := by
  have := seek_cur_neg ((pre ++ [b]) ++ r) (pre ++ [b]).length 1 (by omega)
  simp only [mk]
  simp at this ⊢
  exact this

/-- `seek(-2, SEEK_CUR)` directly after a `read(2)` that delivered both bytes returns to the old position -/
theorem seek_back2 (pre r : Bytes) (h : 2 ≤ r.length) :
    bioSeek (mk (pre ++ r.take 2) (r.drop 2)) (.int (-2)) (.int 1) = .ok (.int (pre.length : Int), mk pre r) := by
  have := seek_cur_neg ((pre ++ r.take 2) ++ r.drop 2) (pre ++ r.take 2).length 2 (by omega)
  simp only [mk]
  have e : (pre ++ r.take 2).length - 2 = pre.length := by simp; omega
  rw [e] at this
  simpa [List.append_assoc] using this

/-! ### struct Setting -/

theorem beNat_foldl (l : Bytes) (acc : Nat) : beNat l acc = l.foldl (fun a b => a * 256 + b.toNat) acc := by
  induction l generalizing acc with
  | nil => rfl
  | cons b bs ih => simp [beNat, ih]

theorem uintOf_be (l : Bytes) : uintOf true l = C02.fromBE l := by
  simp [uintOf, beNat_foldl, C02.fromBE]

/-- the field values of a decoded record, as `Setting(fobj)` creates them (`index` is a `BeaconSetting`) -/
def fieldVals (s : C02.Setting) : List V :=
  [.enum Gen.PyBeaconCfg.BeaconSetting (s.index : Int), .enum Gen.PyBeaconCfg.SettingsType (s.type : Int), .int (s.length : Int), .bytes s.value]

theorem readFields_setting (r : Bytes) :
    readFields true Gen.PyBeaconCfg.SettingCls.fields Gen.PyBeaconCfg.Setting.tys r [] =
      match C02.decodeOne r with
      | none => .error .eofError
      | some (s, r1) => .ok (fieldVals s, r1) := by
  simp only [Gen.PyBeaconCfg.Setting, Gen.PyBeaconCfg.SettingCls]
  unfold C02.decodeOne
  by_cases h2 : r.length < 2
  · have h6 : r.length < 6 := by omega
    simp [readFields, h2, h6, Gen.PyBeaconCfg.BeaconSetting]
  by_cases h4 : r.length < 4
  · have h6 : r.length < 6 := by omega
    have : r.length - 2 < 2 := by omega
    simp [readFields, h2, h6, this, Gen.PyBeaconCfg.BeaconSetting, Gen.PyBeaconCfg.SettingsType]
  by_cases h6 : r.length < 6
  · have a : ¬ r.length - 2 < 2 := by omega
    have b : r.length - 4 < 2 := by omega
    simp [readFields, h2, h6, a, b, Gen.PyBeaconCfg.BeaconSetting, Gen.PyBeaconCfg.SettingsType]
  have a : ¬ r.length - 2 < 2 := by omega
  have b : ¬ r.length - 4 < 2 := by omega
  by_cases hv : r.length - 6 < C02.fromBE (List.take 2 (List.drop 4 r))
  · simp [readFields, h2, h6, a, b, hv, Gen.PyBeaconCfg.BeaconSetting, Gen.PyBeaconCfg.SettingsType, uintOf_be, asInt]
  · simp [readFields, h2, h6, a, b, hv, Gen.PyBeaconCfg.BeaconSetting, Gen.PyBeaconCfg.SettingsType, uintOf_be, asInt, fieldVals]

theorem structRead_mk (pre r : Bytes) :
    structRead Gen.PyBeaconCfg.Setting (mk pre r) =
      match C02.decodeOne r with
      | none => .error .eofError
      | some (s, r1) => .ok (.inst Gen.PyBeaconCfg.SettingCls (fieldVals s), mk (pre ++ r.take (r.length - r1.length)) r1) := by
  simp only [structRead, mk, List.drop_left]
  have e : (Gen.PyBeaconCfg.Setting).cls = Gen.PyBeaconCfg.SettingCls := rfl
  have e2 : (Gen.PyBeaconCfg.Setting).bigEndian = true := rfl
  rw [e, e2, readFields_setting]
  cases hd : C02.decodeOne r with
  | none => rfl
  | some p =>
    obtain ⟨s, r1⟩ := p
    have hl := C02.decodeOne_length hd
    have hk : ∃ k, k ≤ r.length ∧ r1 = r.drop k := by
      unfold C02.decodeOne at hd
      split at hd
      · cases hd
      · split at hd
        · cases hd
        · rename_i h6 hv
          injection hd with hd; injection hd with _ h2
          refine ⟨6 + C02.fromBE ((r.drop 4).take 2), ?_, ?_⟩
          · simp only [List.length_drop] at hv; omega
          · rw [← h2, List.drop_drop]
    obtain ⟨k, hk1, hk2⟩ := hk
    have hlen : r.length - r1.length = k := by rw [hk2, List.length_drop]; omega
    simp only
    rw [hlen]
    congr 2
    rw [List.append_assoc, hk2, List.take_append_drop]
    congr 1
    simp only [List.length_append, List.length_take, List.length_drop]; omega

theorem structRead_short (data : Bytes) (pos : Nat) (h : data.length - pos < 6) :
    structRead Gen.PyBeaconCfg.Setting (.bytesIO data pos) = .error .eofError := by
  simp only [structRead]
  have e : (Gen.PyBeaconCfg.Setting).cls = Gen.PyBeaconCfg.SettingCls := rfl
  have e2 : (Gen.PyBeaconCfg.Setting).bigEndian = true := rfl
  rw [e, e2, readFields_setting]
  have : C02.decodeOne (data.drop pos) = none := by
    unfold C02.decodeOne
    simp; omega
  rw [this]

/-! ### the User-Agent continuation loop -/

theorem gen_iter_settings_loop2_spec (i t l : V) : ∀ (fuel : Nat) (pre r v : Bytes), r.length < fuel →
    whileFuel fuel Gen.PyBeaconCfg.iter_settings_loop2 (mk pre r, .inst Gen.PyBeaconCfg.SettingCls [i, t, l, .bytes v])
      = .ok (mk (pre ++ r.takeWhile (· != 0)) (r.dropWhile (· != 0)),
             .inst Gen.PyBeaconCfg.SettingCls [i, t, l, .bytes (v ++ r.takeWhile (· != 0))]) := by
  intro fuel
  induction fuel with
  | zero => intro _ r _ h; omega
  | succ n ih =>
    intro pre r v h
    cases r with
    | nil =>
      simp [whileFuel, Gen.PyBeaconCfg.iter_settings_loop2, read_mk1, truthy, pure_ok]
    | cons b tl =>
      by_cases hb : b = 0
      · subst hb
        simp [whileFuel, Gen.PyBeaconCfg.iter_settings_loop2, read_mk1, truthy, pure_ok, PyU.eq, seek_back1]
      · have hl : tl.length < n := by simp at h; omega
        have := ih (pre ++ [b]) tl (v ++ [b]) hl
        simp [whileFuel, Gen.PyBeaconCfg.iter_settings_loop2, read_mk1, truthy, pure_ok, PyU.eq, hb, getAttr, lookupField,
          Gen.PyBeaconCfg.SettingCls, iadd, add, asInt, instSetAttr, setField] at this ⊢
        exact this

/-! ### the main loop -/

theorem slice_to2 (x : Bytes) : PyU.slice (.bytes x) .none (.int 2) = .ok (.bytes (x.take 2)) := by
  simp only [PyU.slice, bound, asInt, PyRt.ok_bind, pure_ok, PyRt.slice, PyRt.Bound.bound, PyRt.clampIdx]
  simp

theorem member_useragent : enumMember Gen.PyBeaconCfg.BeaconSetting "SETTING_USERAGENT"
    = .ok (.enum Gen.PyBeaconCfg.BeaconSetting (settingUserAgent : Nat)) := by decide +kernel
theorem member_watermarkhash : enumMember Gen.PyBeaconCfg.BeaconSetting "SETTING_WATERMARKHASH"
    = .ok (.enum Gen.PyBeaconCfg.BeaconSetting (settingWatermarkHash : Nat)) := by decide +kernel
theorem member_short : enumMember Gen.PyBeaconCfg.SettingsType "TYPE_SHORT"
    = .ok (.enum Gen.PyBeaconCfg.SettingsType (typeShort : Nat)) := by decide +kernel
theorem member_int : enumMember Gen.PyBeaconCfg.SettingsType "TYPE_INT"
    = .ok (.enum Gen.PyBeaconCfg.SettingsType (typeInt : Nat)) := by decide +kernel
theorem member_inject : enumMember Gen.PyBeaconCfg.DeprecatedBeaconSetting "SETTING_INJECT_OPTIONS"
    = .ok (.enum Gen.PyBeaconCfg.DeprecatedBeaconSetting (deprecatedInjectOptions : Nat)) := by decide +kernel

theorem eq_enum_same (c : EnumCls) (a b : Nat) : PyU.eq (.enum c (a : Int)) (.enum c (b : Int)) = decide (a = b) := by
  simp only [PyU.eq, beq_self_eq_true, Bool.true_and]
  by_cases h : a = b
  · simp [h]
  · have : ¬ ((a : Int) = (b : Int)) := by omega
    simp [h, this]

theorem eq_int_nat (a b : Nat) : PyU.eq (.int (a : Int)) (.int (b : Int)) = decide (a = b) := by
  simp only [PyU.eq]
  by_cases h : a = b
  · simp [h]
  · have : ¬ ((a : Int) = (b : Int)) := by omega
    simp [h, this]

theorem eq_int_128 (a : Nat) : PyU.eq (.int (a : Int)) (.int 128) = decide (a = 128) := eq_int_nat a 128

theorem ge_int (a b : Int) : PyU.ge (.int a) (.int b) = .ok (!decide (a < b)) := rfl

theorem rstrip_nul (v : Bytes) : PyU.rstrip (.bytes v) (.bytes [0]) = .ok (.bytes (C02.rstripNul v)) := by
  have : (fun c : UInt8 => [(0 : UInt8)].contains c) = (fun x => x == 0) := by
    funext c; simp only [List.contains_cons, List.contains_nil, Bool.or_false]
  unfold PyU.rstrip
  simp only [rstripL, C02.rstripNul]
  rw [this]

theorem gen_iter_settings_loop1_term (fuelIn : Nat) (pre r : Bytes) (acc : List V) (h : r.take 2 = [0, 0]) :
    ∃ p, Gen.PyBeaconCfg.iter_settings_loop1 fuelIn (mk pre r, .list acc) = .ok (.brk, (p, .list acc)) := by
  refine ⟨mk (pre ++ r.take 2) (r.drop 2), ?_⟩
  simp [Gen.PyBeaconCfg.iter_settings_loop1, read_mk2, slice_to2, h, PyU.eq, pure_ok]

theorem gen_iter_settings_loop1_eof (fuelIn : Nat) (pre r : Bytes) (acc : List V) (h : r.take 2 ≠ [0, 0]) (hd : C02.decodeOne r = none) :
    ∃ p, Gen.PyBeaconCfg.iter_settings_loop1 fuelIn (mk pre r, .list acc) = .ok (.brk, (p, .list acc)) := by
  by_cases hs : r.length < 2
  · -- short peek: the seek goes back (clamped), fewer than 6 bytes remain, the struct read fails
    simp only [Gen.PyBeaconCfg.iter_settings_loop1, read_mk2, slice_to2, PyRt.ok_bind, List.take_take, Nat.min_self, PyU.eq]
    have hne : (r.take 2 == [0, 0]) = false := by simpa using h
    simp only [hne, Bool.false_eq_true, if_false, mk]
    rw [show (V.int (-2)) = V.int (-((2 : Nat) : Int)) from rfl, seek_cur_neg _ _ 2 (by omega)]
    simp only [attempt, PyRt.ok_bind]
    rw [structRead_short]
    · simp only [attempt, pure_ok, List.contains_cons, List.contains_nil, beq_self_eq_true, Bool.or_false, if_true, PyRt.ok_bind]
      exact ⟨_, rfl⟩
    · simp only [List.length_append, List.length_take, List.length_drop]; omega
  · simp only [Gen.PyBeaconCfg.iter_settings_loop1, read_mk2, slice_to2, PyRt.ok_bind, List.take_take, Nat.min_self, PyU.eq]
    have hne : (r.take 2 == [0, 0]) = false := by simpa using h
    simp only [hne, Bool.false_eq_true, if_false]
    rw [seek_back2 pre r (by omega)]
    simp only [attempt, PyRt.ok_bind, structRead_mk, hd]
    simp only [attempt, pure_ok, List.contains_cons, List.contains_nil, beq_self_eq_true, Bool.or_false, if_true, PyRt.ok_bind]
    exact ⟨_, rfl⟩

theorem getAttr_index (i t l v : V) : getAttr (.inst Gen.PyBeaconCfg.SettingCls [i, t, l, v]) "index" = .ok i := by
  simp [getAttr, lookupField, Gen.PyBeaconCfg.SettingCls]
theorem getAttr_type (i t l v : V) : getAttr (.inst Gen.PyBeaconCfg.SettingCls [i, t, l, v]) "type" = .ok t := by
  simp [getAttr, lookupField, Gen.PyBeaconCfg.SettingCls]
theorem getAttr_length (i t l v : V) : getAttr (.inst Gen.PyBeaconCfg.SettingCls [i, t, l, v]) "length" = .ok l := by
  simp [getAttr, lookupField, Gen.PyBeaconCfg.SettingCls]
theorem getAttr_value (i t l v : V) : getAttr (.inst Gen.PyBeaconCfg.SettingCls [i, t, l, v]) "value" = .ok v := by
  simp [getAttr, lookupField, Gen.PyBeaconCfg.SettingCls]
theorem setAttr_index (i t l v x : V) :
    instSetAttr (.inst Gen.PyBeaconCfg.SettingCls [i, t, l, v]) "index" x = .ok (.inst Gen.PyBeaconCfg.SettingCls [x, t, l, v]) := by
  simp [instSetAttr, setField, Gen.PyBeaconCfg.SettingCls]
theorem yieldTo_list (acc : List V) (x : V) : yieldTo (.list acc) x = .list (acc ++ [x]) := rfl

theorem decodeOne_not_deprecated {r : Bytes} {s : C02.Setting} {r1 : Bytes} (h : C02.decodeOne r = some (s, r1)) :
    s.deprecated = false := by
  unfold C02.decodeOne at h
  split at h
  · cases h
  · split at h
    · cases h
    · injection h with h; injection h with h1 _
      rw [← h1]

theorem gen_iter_settings_loop1_step (fuelIn : Nat) (pre r : Bytes) (acc : List V) (h : r.take 2 ≠ [0, 0]) (s : C02.Setting) (r1 : Bytes)
    (hd : C02.decodeOne r = some (s, r1)) (hf : r1.length < fuelIn) :
    ∃ p', Gen.PyBeaconCfg.iter_settings_loop1 fuelIn (mk pre r, .list acc)
      = .ok (.cont, (mk p' (C02.fixupSpec s r1).2, .list (acc ++ [encSetting (C02.fixupSpec s r1).1]))) := by
  have hlen := C02.decodeOne_length hd
  have hdep := decodeOne_not_deprecated hd
  simp only [Gen.PyBeaconCfg.iter_settings_loop1, read_mk2, slice_to2, PyRt.ok_bind, List.take_take, Nat.min_self, PyU.eq]
  have hne : (r.take 2 == [0, 0]) = false := by simpa using h
  simp only [hne, Bool.false_eq_true, if_false]
  rw [seek_back2 pre r (by omega)]
  simp only [attempt, PyRt.ok_bind, structRead_mk, hd]
  simp only [fieldVals, getAttr_index, getAttr_type, getAttr_length, getAttr_value, setAttr_index, member_useragent,
    member_watermarkhash, member_short, member_inject, eq_enum_same, eq_int_128, PyRt.ok_bind, yieldTo_list, pure_ok,
    rstrip_nul, PyU.len, ge_int]
  unfold C02.fixupSpec
  by_cases h1 : s.index = settingUserAgent
  · simp only [h1, decide_true, if_true]
    by_cases h2 : s.length = 128
    · simp only [h2, decide_true, if_true, true_and]
      by_cases h3 : (C02.rstripNul s.value).length ≥ 128
      · have h3' : ¬ (((C02.rstripNul s.value).length : Int) < 128) := by omega
        simp only [h3, h3', decide_false, Bool.not_false, if_true, gen_iter_settings_loop2_spec _ _ _ fuelIn _ r1 s.value hf, PyRt.ok_bind]
        refine ⟨pre ++ r.take (r.length - r1.length) ++ r1.takeWhile (· != 0), ?_⟩
        simp [encSetting, indexCls, hdep, h1]
      · have h3' : (((C02.rstripNul s.value).length : Int) < 128) := by omega
        simp only [h3, h3', decide_true, Bool.not_true, Bool.false_eq_true, if_false, and_false]
        exact ⟨pre ++ r.take (r.length - r1.length), by simp [encSetting, indexCls, hdep, h1, h2]⟩
    · simp only [h2, decide_false, Bool.false_eq_true, if_false, false_and]
      exact ⟨pre ++ r.take (r.length - r1.length), by simp [encSetting, indexCls, hdep, h1]⟩
  · simp only [h1, decide_false, Bool.false_eq_true, if_false]
    by_cases h4 : s.index = settingWatermarkHash
    · by_cases h5 : s.type = typeShort
      · simp only [h4, h5, decide_true, if_true, and_self]
        exact ⟨pre ++ r.take (r.length - r1.length), by simp [encSetting, indexCls, h5]⟩
      · simp only [h4, h5, decide_true, decide_false, if_true, Bool.false_eq_true, if_false, and_false]
        exact ⟨pre ++ r.take (r.length - r1.length), by simp [encSetting, indexCls, hdep, h4]⟩
    · simp only [h4, decide_false, Bool.false_eq_true, if_false, false_and]
      exact ⟨pre ++ r.take (r.length - r1.length), by simp [encSetting, indexCls, hdep, h4]⟩

theorem gen_iter_settings_loop (fuelIn : Nat) : ∀ (fuel : Nat) (pre r : Bytes) (acc : List V), r.length < fuel → r.length < fuelIn →
    ∃ p, whileFuel fuel (Gen.PyBeaconCfg.iter_settings_loop1 fuelIn) (mk pre r, .list acc)
      = .ok (p, .list (acc ++ (C02.parseSpec r).map encSetting)) := by
  intro fuel
  induction fuel with
  | zero => intro _ r _ h; omega
  | succ n ih =>
    intro pre r acc hl hin
    rw [C02.parseSpec_eq]
    by_cases hz : r.take 2 = [0, 0]
    · obtain ⟨p, hp⟩ := gen_iter_settings_loop1_term fuelIn pre r acc hz
      exact ⟨p, by simp [whileFuel, hp, hz]⟩
    · cases hd : C02.decodeOne r with
      | none =>
        obtain ⟨p, hp⟩ := gen_iter_settings_loop1_eof fuelIn pre r acc hz hd
        exact ⟨p, by simp [whileFuel, hp, hz]⟩
      | some q =>
        obtain ⟨s, r1⟩ := q
        have h1 := C02.decodeOne_length hd
        have h2 := C02.fixupSpec_length_le s r1
        obtain ⟨p', hp'⟩ := gen_iter_settings_loop1_step fuelIn pre r acc hz s r1 hd (by omega)
        obtain ⟨p, hp⟩ := ih p' (C02.fixupSpec s r1).2 (acc ++ [encSetting (C02.fixupSpec s r1).1]) (by omega) (by omega)
        exact ⟨p, by simp [whileFuel, hp', hp, hz]⟩

theorem gen_iter_settings_spec (fuel : Nat) (d : Bytes) (h : d.length < fuel) :
    Gen.PyBeaconCfg.iter_settings fuel (.bytes d) = .ok (encSettings (C02.parseSpec d)) := by
  obtain ⟨p, hp⟩ := gen_iter_settings_loop fuel fuel [] d [] h h
  have e : newBytesIO (.bytes d) = .ok (mk [] d) := rfl
  simp only [Gen.PyBeaconCfg.iter_settings, isInstance, isInst1, List.any_cons, List.any_nil, Bool.or_false, if_true, e, PyRt.ok_bind, hp,
    pure_ok, List.nil_append, encSettings]

/-- an `io.BytesIO` argument is decoded from its position -/
theorem gen_iter_settings_bytesio_spec (fuel : Nat) (pre r : Bytes) (h : r.length < fuel) :
    Gen.PyBeaconCfg.iter_settings fuel (.bytesIO (pre ++ r) pre.length) = .ok (encSettings (C02.parseSpec r)) := by
  obtain ⟨p, hp⟩ := gen_iter_settings_loop fuel fuel pre r [] h h
  have e : (V.bytesIO (pre ++ r) pre.length) = mk pre r := rfl
  rw [e]
  simp only [Gen.PyBeaconCfg.iter_settings, mk, isInstance, isInst1, List.any_cons, List.any_nil, Bool.or_false, Bool.false_eq_true, if_false,
    PyRt.ok_bind, pure_ok, encSettings]
  have hp' := hp
  simp only [mk] at hp'
  simp only [hp', PyRt.ok_bind, pure_ok, List.nil_append]

theorem gen_iter_settings_proof (fuel : Nat) (d : Bytes) (h : d.length < fuel) :
    Gen.PyBeaconCfg.iter_settings fuel (.bytes d) = (C02.iterSettingsE d).map encSettings := by
  rw [gen_iter_settings_spec fuel d h, C02.iterSettingsE_parseSpec]
  rfl
/-! ### integers -/

theorem fromLE_append (xs ys : Bytes) : C20.fromLE (xs ++ ys) = C20.fromLE xs + 256 ^ xs.length * C20.fromLE ys := by
  induction xs with
  | nil => simp [C20.fromLE]
  | cons b bs ih =>
    simp only [List.cons_append, C20.fromLE, ih, List.length_cons]
    ring

theorem foldl_be (d : Bytes) (acc : Nat) :
    d.foldl (fun a b => a * 256 + b.toNat) acc = acc * 256 ^ d.length + C20.fromLE d.reverse := by
  induction d generalizing acc with
  | nil => simp [C20.fromLE]
  | cons b bs ih =>
    simp only [List.foldl_cons, ih, List.reverse_cons, fromLE_append, List.length_reverse, List.length_cons, C20.fromLE]
    ring

theorem fromBE_eq (d : Bytes) : C02.fromBE d = C20.fromLE d.reverse := by
  simp [C02.fromBE, foldl_be]

theorem u16be_bytes (d : Bytes) : Gen.PyBeaconCfg.u16be (.bytes d) = .ok (.int (C02.u16be d)) := by
  simp only [Gen.PyBeaconCfg.u16be, liftBytesInt, C20Gen.gen_u16be, Except.map]
  simp [C20.unpack, C20.fromBytes, C20.fromBytesU, pySliceTo, C02.u16be, fromBE_eq]

theorem u32be_bytes (d : Bytes) : Gen.PyBeaconCfg.u32be (.bytes d) = .ok (.int (C02.u32be d)) := by
  simp only [Gen.PyBeaconCfg.u32be, liftBytesInt, C20Gen.gen_u32be, Except.map]
  simp [C20.unpack, C20.fromBytes, C20.fromBytesU, pySliceTo, C02.u32be, fromBE_eq]

/-! ### BeaconConfig(config_block) -/

theorem getAttr_settings_tuple (cb : V) (ss : List C02.Setting) :
    getAttr (encConfig cb ss) "settings_tuple" = .ok (.tuple (ss.map encSetting)) := by
  simp [encConfig, getAttr, lookupField, Gen.PyBeaconCfg.BeaconConfig]

theorem gen_beacon_config_init_spec (fuel : Nat) (d : Bytes) (h : d.length < fuel) :
    Gen.PyBeaconCfg.beacon_config_init fuel (.bytes d) = .ok (encConfig (.bytes d) (C02.parseSpec d)) := by
  simp only [Gen.PyBeaconCfg.beacon_config_init, gen_iter_settings_spec fuel d h, PyRt.ok_bind, encSettings, tupleOf, iterList,
    Except.map, pure_ok, encConfig]

/-! ### setting_enums / max_setting_enum -/

theorem getAttr_enum_value (c : EnumCls) (v : Int) : getAttr (.enum c v) "value" = .ok (.int v) := by
  simp [getAttr]

theorem gen_setting_enums_loop (ss : List C02.Setting) (acc : List V) :
    forList (ss.map encSetting) Gen.PyBeaconCfg.setting_enums_comp1 (.list acc)
      = .ok (.list (acc ++ ss.map fun s => encNat s.index)) := by
  induction ss generalizing acc with
  | nil => simp [forList]
  | cons s ss ih =>
    simp only [List.map_cons, forList, Gen.PyBeaconCfg.setting_enums_comp1, encSetting, getAttr_index, PyRt.ok_bind,
      getAttr_enum_value, PyU.append, pure_ok]
    simp [ih, encNat]

theorem gen_setting_enums_spec (cfg : V) (ss : List C02.Setting)
    (h : getAttr cfg "settings_tuple" = .ok (.tuple (ss.map encSetting))) :
    Gen.PyBeaconCfg.setting_enums cfg = .ok (encNats (C02.settingEnums ss)) := by
  simp only [Gen.PyBeaconCfg.setting_enums, h, PyRt.ok_bind, iterList, gen_setting_enums_loop, pure_ok, List.nil_append, C02.settingEnums,
    List.map_map, encNats]
  rfl

theorem maxOf_ints (x : Nat) (xs : List Nat) :
    List.foldl (fun m v => if (asInt m).getD 0 < (asInt v).getD 0 then v else m) (encNat x) (xs.map encNat)
      = encNat (xs.foldl max x) := by
  induction xs generalizing x with
  | nil => rfl
  | cons y ys ih =>
    simp only [List.map_cons, List.foldl_cons, encNat, asInt, Option.getD_some]
    by_cases h : (x : Int) < (y : Int)
    · have : max x y = y := by omega
      simp only [h, if_true, this]; exact ih y
    · have : max x y = x := by omega
      simp only [h, if_false, this]; exact ih x

theorem gen_max_setting_enum_spec (cfg : V) (ss : List C02.Setting)
    (h : getAttr cfg "settings_tuple" = .ok (.tuple (ss.map encSetting))) :
    Gen.PyBeaconCfg.max_setting_enum cfg = (C02.maxSettingEnum ss).map encNat := by
  simp only [Gen.PyBeaconCfg.max_setting_enum, gen_setting_enums_spec cfg ss h, PyRt.ok_bind, C02.maxSettingEnum]
  cases hs : C02.settingEnums ss with
  | nil => simp [maxOf, pure_ok]; rfl
  | cons x xs =>
    have hall : (List.map encNat (x :: xs)).all (fun v => (asInt v).isSome) = true := by
      simp [asInt, encNat]
    simp only [maxOf, encNats, List.map_cons] at hall ⊢
    simp only [hall, if_true, maxOf_ints, pure_ok, PyRt.ok_bind]
    rfl


/-! ### enum member names -/

/-- the name a member table gives for a value, as code points -/
def tableName (d : Bool) (idx : Nat) : Option (List Nat) :=
  ((indexCls d).members.find? (·.1 == idx)).map fun m => cps m.2

theorem tableName_small : ∀ d : Bool, ∀ idx < 80, tableName d idx = (C02.enumName d idx).map (fun b => b.map (·.toNat)) := by
  decide +kernel

theorem tables_bounded : (∀ d : Bool, (indexCls d).members.all (·.1 < 80) = true) ∧
    settingNameBytes.all (·.1 < 80) = true ∧ deprecatedNameBytes.all (·.1 < 80) = true := by decide +kernel

theorem find?_none_of_bound {β : Type} (l : List (Nat × β)) (k idx : Nat) (h : l.all (·.1 < k) = true) (hk : k ≤ idx) :
    l.find? (·.1 == idx) = none := by
  induction l with
  | nil => rfl
  | cons p ps ih =>
    simp only [List.all_cons, Bool.and_eq_true, decide_eq_true_eq] at h
    have : (p.1 == idx) = false := by simp; omega
    simp [List.find?, this, ih h.2]

theorem lookup_none_of_bound {β : Type} (l : List (Nat × β)) (k idx : Nat) (h : l.all (·.1 < k) = true) (hk : k ≤ idx) :
    l.lookup idx = none := by
  induction l with
  | nil => rfl
  | cons p ps ih =>
    simp only [List.all_cons, Bool.and_eq_true, decide_eq_true_eq] at h
    obtain ⟨a, b⟩ := p
    have : (idx == a) = false := by simp; omega
    simp [List.lookup, this, ih h.2]

theorem tableName_eq (d : Bool) (idx : Nat) : tableName d idx = (C02.enumName d idx).map (fun b => b.map (·.toNat)) := by
  by_cases h : idx < 80
  · exact tableName_small d idx h
  · have hb := tables_bounded
    have h1 : tableName d idx = none := by
      simp only [tableName, find?_none_of_bound _ 80 idx (hb.1 d) (by omega), Option.map_none]
    have h2 : C02.enumName d idx = none := by
      unfold C02.enumName
      cases d
      · simp [lookup_none_of_bound _ 80 idx hb.2.1 (by omega)]
      · simp [lookup_none_of_bound _ 80 idx hb.2.2 (by omega)]
    rw [h1, h2]; rfl

/-- `setting.index.name` -/
theorem getAttr_name (d : Bool) (idx : Nat) :
    getAttr (.enum (indexCls d) (idx : Int)) "name"
      = .ok (match C02.enumName d idx with | some n => encAscii n | none => .none) := by
  have h := tableName_eq d idx
  have hneg : ¬ ((idx : Int) < 0) := by omega
  simp only [getAttr, hneg, if_false, Int.toNat_natCast]
  simp only [tableName] at h
  cases hf : List.find? (fun x => x.1 == idx) (indexCls d).members with
  | none =>
    rw [hf] at h
    cases he : C02.enumName d idx with
    | none => simp
    | some n => rw [he] at h; simp at h
  | some m =>
    rw [hf] at h
    cases he : C02.enumName d idx with
    | none => rw [he] at h; simp at h
    | some n =>
      rw [he] at h
      simp only [Option.map_some, Option.some.injEq] at h
      simp [lit, h, encAscii]

/-! ### `str(member).replace(".", "_")` for a nameless member -/

theorem digitChar_toNat : ∀ m < 10, (Nat.digitChar m).toNat = 48 + m := by decide

theorem ofNat_digit_toNat (m : Nat) (h : m < 10) : (UInt8.ofNat (48 + m)).toNat = 48 + m := by
  simp [UInt8.toNat_ofNat']; omega

theorem toDigits10 (n : Nat) : (Nat.toDigits 10 n).map Char.toNat = (C02.decimal n).map (·.toNat) := by
  induction n using Nat.strongRecOn with
  | _ n ih =>
    rw [C02.decimal]
    by_cases h : n < 10
    · simp only [h, if_true, Nat.toDigits_of_lt_base h, digitChar_toNat n h, ofNat_digit_toNat n h, List.map_cons, List.map_nil]
    · have hq : 0 < n / 10 := by omega
      have hr : n % 10 < 10 := by omega
      have e := Nat.toDigits_append_toDigits (b := 10) (n := n / 10) (d := n % 10) (by decide) hq hr
      have e2 : 10 * (n / 10) + n % 10 = n := by omega
      rw [e2] at e
      simp only [h, if_false, ← e, List.map_append, ih (n / 10) (by omega), Nat.toDigits_of_lt_base hr, List.map_cons, List.map_nil,
        digitChar_toNat _ hr, ofNat_digit_toNat _ hr]

theorem decStr_nat (n : Nat) : decStr (n : Int) = (C02.decimal n).map (·.toNat) := by
  have h : ¬ ((n : Int) < 0) := by omega
  simp [decStr, h, toDigits10]

theorem decimal_digits (n : Nat) : ∀ c ∈ (C02.decimal n).map (·.toNat), 48 ≤ c ∧ c ≤ 57 := by
  induction n using Nat.strongRecOn with
  | _ n ih =>
    rw [C02.decimal]
    by_cases h : n < 10
    · simp [h, ofNat_digit_toNat n h]; omega
    · have hr : n % 10 < 10 := by omega
      intro c hc
      simp only [h, if_false, List.map_append, List.mem_append, List.map_cons, List.map_nil, List.mem_singleton] at hc
      rcases hc with hc | hc
      · exact ih (n / 10) (by omega) c hc
      · rw [hc, ofNat_digit_toNat _ hr]; omega

theorem replaceGo_notin (c c' : Nat) (l : List Nat) (h : c ∉ l) : replaceGo [c] [c'] l 0 = l := by
  induction l with
  | nil => rfl
  | cons x xs ih =>
    have hx : ¬ (c = x) := fun e => h (e ▸ List.mem_cons_self)
    have hxs : c ∉ xs := fun m => h (List.mem_cons_of_mem _ m)
    simp [replaceGo, List.isPrefixOf, hx, ih hxs]

theorem replaceGo_dot (c c' : Nat) (a rest : List Nat) (h : c ∉ a) :
    replaceGo [c] [c'] (a ++ c :: rest) 0 = a ++ c' :: replaceGo [c] [c'] rest 0 := by
  induction a with
  | nil => simp [replaceGo, List.isPrefixOf]
  | cons x xs ih =>
    have hx : ¬ (c = x) := fun e => h (e ▸ List.mem_cons_self)
    have hxs : c ∉ xs := fun m => h (List.mem_cons_of_mem _ m)
    simp [replaceGo, List.isPrefixOf, hx, ih hxs]

/-- the class name in front of the dot -/
def clsName (d : Bool) : String := if d then "DeprecatedBeaconSetting" else "BeaconSetting"

theorem clsName_facts : ∀ d : Bool,
    List.find? (fun x => x.1 == (indexCls d).cid) Gen.PyBeaconCfg.enumNames = some ((indexCls d).cid, clsName d) ∧
    46 ∉ cps (clsName d) ∧
    cps (clsName d) ++ [95] = (if d then deprecatedUnknownPrefixBytes else unknownPrefixBytes).map (·.toNat) := by
  decide +kernel

/-- `str(setting.index)` of a nameless member, as code points -/
def namelessStr (d : Bool) (idx : Nat) : List Nat := cps (clsName d) ++ [46] ++ (C02.decimal idx).map (·.toNat)

theorem strOf_nameless (d : Bool) (idx : Nat) (h : C02.enumName d idx = none) :
    strOf Gen.PyBeaconCfg.enumNames (.enum (indexCls d) (idx : Int)) = .ok (.str (namelessStr d idx)) := by
  obtain ⟨f1, _, _⟩ := clsName_facts d
  have hneg : ¬ ((idx : Int) < 0) := by omega
  have ht := tableName_eq d idx
  rw [h] at ht
  simp only [tableName, Option.map_none, Option.map_eq_none_iff] at ht
  simp only [strOf, f1, hneg, if_false, Int.toNat_natCast, ht, decStr_nat, namelessStr]

/-- `….replace(".", "_")` of that string -/
theorem replace_nameless (d : Bool) (idx : Nat) (h : C02.enumName d idx = none) :
    strReplace (.str (namelessStr d idx)) (lit ".") (lit "_") = .ok (encAscii (C02.nameKey d idx)) := by
  obtain ⟨_, f2, f3⟩ := clsName_facts d
  have e1 : cps "." = [46] := by decide
  have e2 : cps "_" = [95] := by decide
  have hd : (46 : Nat) ∉ (C02.decimal idx).map (·.toNat) := by
    intro hm
    have := decimal_digits idx 46 hm
    omega
  simp only [strReplace, lit, namelessStr, e1, e2, List.isEmpty_cons, Bool.false_eq_true, if_false, List.append_assoc, List.singleton_append,
    replaceGo_dot 46 95 _ _ f2, replaceGo_notin 46 95 _ hd, C02.nameKey, h, encAscii, List.map_append, ← f3]

/-! ### dictionaries -/

theorem toNat_map_inj {a b : Bytes} (h : a.map (·.toNat) = b.map (·.toNat)) : a = b := by
  induction a generalizing b with
  | nil => cases b <;> simp_all
  | cons x xs ih =>
    cases b with
    | nil => simp at h
    | cons y ys =>
      simp only [List.map_cons, List.cons.injEq] at h
      rw [UInt8.toNat_inj.mp h.1, ih h.2]

theorem indexCls_cid (d d' : Bool) : ((indexCls d).cid == (indexCls d').cid) = (d == d') := by
  cases d <;> cases d' <;> decide

theorem keyEq_enc (a b : C02.Key) : keyEq (encKey a) (encKey b) = decide (a = b) := by
  cases a <;> cases b <;> simp only [encKey, encAscii, keyEq, PyU.eq, Bool.and_true, Bool.and_false, reduceCtorEq, decide_false]
  · rename_i x y
    by_cases h : x = y
    · simp [h]
    · have : ¬ (x.map (·.toNat) = y.map (·.toNat)) := fun e => h (toNat_map_inj e)
      simp [h, this]
  · rename_i x y
    by_cases h : x = y
    · simp [h]
    · have : ¬ ((x : Int) = (y : Int)) := by omega
      simp [h, this]
  · rename_i d x d' y
    rw [indexCls_cid]
    by_cases h : x = y
    · cases d <;> cases d' <;> simp [h]
    · have : ¬ ((x : Int) = (y : Int)) := by omega
      simp [h, this]

theorem hashable_encKey (k : C02.Key) : hashable (encKey k) = true := by
  cases k <;> simp [encKey, encAscii, hashable]

def ek (p : C02.Key × C02.Val) : V := encKey p.1
def ev (p : C02.Key × C02.Val) : V := encVal p.2

theorem encMap_eq (m : List (C02.Key × C02.Val)) : encMap m = .dict (m.map ek) (m.map ev) := rfl

theorem dictInsert_enc (m : List (C02.Key × C02.Val)) (k : C02.Key) (v : C02.Val) :
    dictInsert (m.map ek, m.map ev) (encKey k) (encVal v) = ((C02.dictSet m k v).map ek, (C02.dictSet m k v).map ev) := by
  have key : (findKey (encKey k) (m.map ek) (m.map ev) = none ∧ C02.dictSet m k v = m ++ [(k, v)]) ∨
      (∃ x, findKey (encKey k) (m.map ek) (m.map ev) = some x ∧ (C02.dictSet m k v).map ek = m.map ek ∧
        setKey (encKey k) (encVal v) (m.map ek) (m.map ev) = (C02.dictSet m k v).map ev) := by
    induction m with
    | nil => left; exact ⟨rfl, rfl⟩
    | cons p ps ih =>
      obtain ⟨k', v'⟩ := p
      by_cases h : k' = k
      · right
        subst h
        refine ⟨encVal v', ?_, ?_, ?_⟩ <;> simp [findKey, setKey, C02.dictSet, ek, ev, keyEq_enc]
      · have h' : ¬ (k = k') := fun e => h e.symm
        rcases ih with ⟨h1, h2⟩ | ⟨x, h1, h2, h3⟩
        · left
          refine ⟨?_, ?_⟩
          · simp [findKey, ek, keyEq_enc, h']
            exact h1
          · simp [C02.dictSet, h, h2]
        · right
          refine ⟨x, ?_, ?_, ?_⟩
          · simp [findKey, ek, keyEq_enc, h']
            exact h1
          · simp [C02.dictSet, h, h2]
          · simp [setKey, C02.dictSet, h, ek, ev, keyEq_enc, h']
            exact h3
  rcases key with ⟨h1, h2⟩ | ⟨x, h1, h2, h3⟩
  · simp [dictInsert, h1, h2, ek, ev]
  · simp [dictInsert, h1, h2, h3]

theorem setItem_enc (m : List (C02.Key × C02.Val)) (k : C02.Key) (v : C02.Val) :
    setItem (encMap m) (encKey k) (encVal v) = .ok (encMap (C02.dictSet m k v)) := by
  simp only [encMap_eq, setItem, hashable_encKey, if_true, dictInsert_enc]

/-! ### SETTING_TO_PRETTYFUNC -/

theorem findKey_pretty (d : Bool) (idx : Nat) (l : List Nat) :
    findKey (.enum (indexCls d) (idx : Int)) (l.map fun (k : Nat) => V.enum Gen.PyBeaconCfg.BeaconSetting (k : Int))
        (l.map fun (k : Nat) => V.inst Gen.PyBeaconCfg.PrettyFn [V.int (k : Int)])
      = if !d && l.contains idx then some (V.inst Gen.PyBeaconCfg.PrettyFn [V.int (idx : Int)]) else none := by
  induction l with
  | nil => simp [findKey]
  | cons x xs ih =>
    simp only [List.map_cons, findKey, keyEq, PyU.eq, Bool.and_true, ih, List.contains_cons]
    cases d
    · by_cases h : idx = x
      · subst h; simp [indexCls]
      · have h1 : ¬ ((idx : Int) = (x : Int)) := by omega
        simp [indexCls, h, h1]
    · have : ((indexCls true).cid == Gen.PyBeaconCfg.BeaconSetting.cid) = false := by decide
      simp [this]

theorem prettyGet (d : Bool) (idx : Nat) :
    dictGet Gen.PyBeaconCfg.prettyTable (.enum (indexCls d) (idx : Int)) .none
      = .ok (if !d && prettyKeys.contains idx then V.inst Gen.PyBeaconCfg.PrettyFn [V.int (idx : Int)] else .none) := by
  simp only [dictGet, Gen.PyBeaconCfg.prettyTable, hashable, if_true, findKey_pretty]
  split <;> rfl

theorem decArg_convert (p q : Bool) (s : C02.Setting) : decArg (encVal (C02.convert p q s)) = some (C02.convert p q s) := by
  unfold C02.convert
  split
  · split
    · simp [encVal, decArg]
    · split <;> simp [encVal, decArg]
  · simp [encVal, decArg]

theorem callX_pretty (content : Nat → C02.Val → Py C02.Val) (idx : Nat) (p q : Bool) (s : C02.Setting) :
    callX content (V.inst Gen.PyBeaconCfg.PrettyFn [V.int (idx : Int)]) (encVal (C02.convert p q s))
      = (content idx (C02.convert p q s)).map encVal := by
  have h : (0 : Int) ≤ (idx : Int) := by omega
  simp only [callX, h, and_self, if_true, decArg_convert, Int.toNat_natCast]


/-! ### settings_map -/

theorem truthy_encAscii (n : Bytes) (h : n ≠ []) : truthy (encAscii n) = true := by
  cases n with
  | nil => exact absurd rfl h
  | cons _ _ => rfl

theorem enumName_nonempty {d : Bool} {v : Nat} {n : Bytes} (h : C02.enumName d v = some n) : n ≠ [] := by
  have hm := C02.enumName_mem h
  have := C02.allNames_head _ hm
  intro e; rw [e] at this; simp at this

theorem eq_type_enum (a b : Nat) :
    PyU.eq (.enum Gen.PyBeaconCfg.SettingsType (a : Int)) (.enum Gen.PyBeaconCfg.SettingsType (b : Int)) = decide (a = b) :=
  eq_enum_same _ a b

/-- the three ways `settings_map` computes the key collapse to the model's `keyOf`; `F`: the rest of the loop body -/
theorem key_collapse {α : Type} (it : V) (s : C02.Setting) (F : V → Py α) :
    (if PyU.eq it (lit "name") = true then
      if (!truthy (match C02.enumName s.deprecated s.index with | some n => encAscii n | none => V.none)) = true then do
        let t9 ← strOf Gen.PyBeaconCfg.enumNames (V.enum (indexCls s.deprecated) (s.index : Int))
        let t10 ← strReplace t9 (lit ".") (lit "_")
        F t10
      else F (match C02.enumName s.deprecated s.index with | some n => encAscii n | none => V.none)
    else if PyU.eq it (lit "const") = true then F (V.int (s.index : Int))
    else F (V.enum (indexCls s.deprecated) (s.index : Int))) = F (encKey (C02.keyOf (itOf it) s)) := by
  unfold itOf
  by_cases h1 : PyU.eq it (lit "name") = true
  · simp only [h1, if_true, C02.keyOf, encKey]
    cases hn : C02.enumName s.deprecated s.index with
    | none =>
      simp only [truthy, Bool.not_false, if_true, strOf_nameless _ _ hn, PyRt.ok_bind, replace_nameless _ _ hn]
    | some n =>
      simp only [truthy_encAscii n (enumName_nonempty hn), Bool.not_true, Bool.false_eq_true, if_false, C02.nameKey, hn]
  · by_cases h2 : PyU.eq it (lit "const") = true
    · simp [h1, h2, C02.keyOf, encKey]
    · simp [h1, h2, C02.keyOf, encKey]

/-- the `TYPE_SHORT` / `TYPE_INT` conversion collapses to the model's `convert`; `G`: the rest of the loop body -/
theorem val_collapse {α : Type} (pretty parse : V) (s : C02.Setting) (G : V → Py α) :
    (if (truthy parse || truthy pretty) = true then
      if decide (s.type = typeShort) = true then do
        let t16 ← Gen.PyBeaconCfg.u16be (V.bytes s.value)
        G t16
      else if decide (s.type = typeInt) = true then do
        let t16 ← Gen.PyBeaconCfg.u32be (V.bytes s.value)
        G t16
      else G (V.bytes s.value)
    else G (V.bytes s.value)) = G (encVal (C02.convert (truthy pretty) (truthy parse) s)) := by
  unfold C02.convert
  by_cases h : (truthy parse || truthy pretty) = true
  · simp only [h, if_true]
    by_cases t1 : s.type = typeShort
    · simp [t1, u16be_bytes, encVal]
    · by_cases t2 : s.type = typeInt
      · have : ¬ (typeInt = typeShort) := by decide
        simp [t1, t2, this, u32be_bytes, encVal]
      · simp [t1, t2, encVal]
  · simp only [h, Bool.false_eq_true, if_false, encVal]

theorem truthy_prettyFn (k : Int) : truthy (V.inst Gen.PyBeaconCfg.PrettyFn [V.int k]) = true := rfl

/-- the call of the pretty function collapses to the model's `valueOf`; `H`: the rest of the loop body -/
theorem pretty_collapse {α : Type} (content : Nat → C02.Val → Py C02.Val) (p q : Bool) (s : C02.Setting) (H : V → Py α) :
    (if p = true then
      if truthy (if (!s.deprecated && prettyKeys.contains s.index) = true then V.inst Gen.PyBeaconCfg.PrettyFn [V.int (s.index : Int)]
          else V.none) = true then do
        let t22 ← callX content (if (!s.deprecated && prettyKeys.contains s.index) = true then V.inst Gen.PyBeaconCfg.PrettyFn [V.int (s.index : Int)]
          else V.none) (encVal (C02.convert p q s))
        H t22
      else H (encVal (C02.convert p q s))
    else H (encVal (C02.convert p q s)))
      = (match C02.valueOf (C02.dispatch content) p q s with
          | .error e => .error e
          | .ok v => H (encVal v)) := by
  unfold C02.valueOf C02.prettyLookup C02.dispatch
  cases p
  · simp
  · simp only [if_true]
    cases hd : s.deprecated
    · by_cases hc : prettyKeys.contains s.index = true
      · simp only [hc, Bool.not_false, Bool.and_self, if_true, truthy_prettyFn, callX_pretty, Bool.false_eq_true, if_false]
        cases content s.index (C02.convert true q s) <;> rfl
      · have hc' : prettyKeys.contains s.index = false := by simpa using hc
        have tn : truthy V.none = false := rfl
        simp only [hc', Bool.and_false, Bool.false_eq_true, if_false, tn]
    · have tn : truthy V.none = false := rfl
      simp only [Bool.not_true, Bool.false_and, Bool.false_eq_true, if_false, tn, if_true]

theorem gen_settings_map_loop1_spec (content : Nat → C02.Val → Py C02.Val) (it pretty parse : V) (s : C02.Setting) (m : List (C02.Key × C02.Val)) :
    Gen.PyBeaconCfg.settings_map_loop1 (callX content) it pretty parse (encSetting s) (encMap m)
      = (C02.valueOf (C02.dispatch content) (truthy pretty) (truthy parse) s).map
          (fun v => (Ctl.cont, encMap (C02.dictSet m (C02.keyOf (itOf it) s) v))) := by
  simp only [Gen.PyBeaconCfg.settings_map_loop1, encSetting, getAttr_index, getAttr_type, getAttr_value, PyRt.ok_bind, getAttr_name,
    getAttr_enum_value, member_short, member_int, eq_type_enum, prettyGet, pure_ok]
  rw [key_collapse, val_collapse, pretty_collapse]
  cases C02.valueOf (C02.dispatch content) (truthy pretty) (truthy parse) s with
  | error e => rfl
  | ok v => simp only [setItem_enc, PyRt.ok_bind, Except.map]

theorem gen_settings_map_loop (content : Nat → C02.Val → Py C02.Val) (it pretty parse : V) (ss : List C02.Setting) (m : List (C02.Key × C02.Val)) :
    forList (ss.map encSetting) (Gen.PyBeaconCfg.settings_map_loop1 (callX content) it pretty parse) (encMap m)
      = (C02.buildDict (C02.keyOf (itOf it)) (C02.valueOf (C02.dispatch content) (truthy pretty) (truthy parse)) ss m).map encMap := by
  induction ss generalizing m with
  | nil => rfl
  | cons s ss ih =>
    simp only [List.map_cons, forList, gen_settings_map_loop1_spec, C02.buildDict]
    cases C02.valueOf (C02.dispatch content) (truthy pretty) (truthy parse) s with
    | error e => rfl
    | ok v => simp only [Except.map, ih]

theorem gen_settings_map_spec (content : Nat → C02.Val → Py C02.Val) (self : V) (ss : List C02.Setting)
    (h : getAttr self "settings_tuple" = .ok (.tuple (ss.map encSetting))) (it pretty parse : V) :
    Gen.PyBeaconCfg.settings_map (callX content) self it pretty parse
      = (C02.settingsMap content ss (itOf it) (truthy pretty) (truthy parse)).map encMap := by
  have e : (V.dict [] [] : V) = encMap [] := rfl
  simp only [Gen.PyBeaconCfg.settings_map, h, PyRt.ok_bind, iterList, e, gen_settings_map_loop, C02.settingsMap, C02.settingsMapG]
  cases C02.buildDict (C02.keyOf (itOf it)) (C02.valueOf (C02.dispatch content) (truthy pretty) (truthy parse)) ss [] with
  | error e => rfl
  | ok m => rfl
end C02Gen

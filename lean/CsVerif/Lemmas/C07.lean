import CsVerif.Model.C07
import CsVerif.Props.C04
import CsVerif.Props.C05
import CsVerif.Props.C06
import CsVerif.Props.C16
/-! Helper lemmas and hypothesis vocabulary of the C07 theorems.  Everything about transforms, packet crypto, framing,
metadata and raw HTTP is taken from the theorems of C04 / C05 / C06 / C16 (imported), not re-proved. -/
namespace C07
open C04 (Step Enc Term Field Req Http C2Data Dict)
open C04.Ref (Program valid usesUri built compile normalise serverSteps)

/-! ### routing -/

theorem isPrefixOf_self (u : Bytes) : u.isPrefixOf u = true := by
  induction u with
  | nil => rfl
  | cons a u ih => simp [List.isPrefixOf, ih]

theorem startsWithAny_of_mem {u : Bytes} {us : List Bytes} (h : u ∈ us) : startsWithAny u us = true := by
  simp only [startsWithAny, List.any_eq_true]
  exact ⟨u, h, isPrefixOf_self u⟩

theorem startsWithAny_iff (uri : Bytes) (us : List Bytes) :
    startsWithAny uri us = true ↔ ∃ u ∈ us, u <+: uri := by
  simp only [startsWithAny, List.any_eq_true, List.isPrefixOf_iff_prefix]

theorem routeRequest_get {cfg : HttpCfg} {m u : Bytes} (hm : m = cfg.getVerb) (hu : startsWithAny u cfg.getUris = true) :
    routeRequest cfg m u = some .get := by
  simp [routeRequest, hm, hu]

theorem routeRequest_submit {cfg : HttpCfg} {m u : Bytes} (hm : m = cfg.submitVerb)
    (hu : cfg.submitUri.isPrefixOf u = true)
    (hd : ¬ (m = cfg.getVerb ∧ startsWithAny u cfg.getUris = true)) :
    routeRequest cfg m u = some .submit := by
  unfold routeRequest
  rw [if_neg (by simpa using hd)]
  simp [hm, hu]


/-! ### the packet layouts -/

theorem u32be_length (n : Nat) : (u32be n).length = 4 := C20.toBytesU_length .big 4 n

theorem u32At_zero (x : Nat) (rest : Bytes) (h : x < 2 ^ 32) : u32At (u32be x ++ rest) 0 = x := by
  unfold u32At
  rw [List.drop_zero, List.take_left' (u32be_length x)]
  exact C20.fromBytesU_toBytesU .big 4 x (by simpa using h)

theorem drop_add_append {α} (a rest : List α) (k : Nat) : (a ++ rest).drop (a.length + k) = rest.drop k := by
  simp [List.drop_append]

theorem u32At_skip (a rest : Bytes) (k : Nat) (ha : a.length = 4) : u32At (a ++ rest) (k + 4) = u32At rest k := by
  unfold u32At
  rw [show k + 4 = a.length + k by omega, drop_add_append]

/-- a task whose `size` field is the length of its data and whose integers fit 32 bits -/
def TaskOk (t : Task) : Prop :=
  t.epoch < 2 ^ 32 ∧ t.totalSize < 2 ^ 32 ∧ t.command < 2 ^ 32 ∧ t.size < 2 ^ 32 ∧ t.size = t.data.length

instance (t : Task) : Decidable (TaskOk t) := by unfold TaskOk; infer_instance

def CallbackOk (cb : Callback) : Prop :=
  cb.counter < 2 ^ 32 ∧ cb.size < 2 ^ 32 ∧ cb.callback < 2 ^ 32 ∧ cb.size = cb.data.length

instance (cb : Callback) : Decidable (CallbackOk cb) := by unfold CallbackOk; infer_instance

theorem task_dumps_ok (t : Task) (h : TaskOk t) :
    t.dumps = .ok (u32be t.epoch ++ (u32be t.totalSize ++ (u32be t.command ++ (u32be t.size ++ t.data)))) := by
  obtain ⟨h1, h2, h3, h4, _⟩ := h
  simp [Task.dumps, h1, h2, h3, h4]

/-- parsing the dumped task followed by anything (the AES padding) gives the task back -/
theorem parseTask_dumps (t : Task) (extra : Bytes) (h : TaskOk t) :
    parseTask (u32be t.epoch ++ (u32be t.totalSize ++ (u32be t.command ++ (u32be t.size ++ t.data))) ++ extra) = .ok t := by
  obtain ⟨h1, h2, h3, h4, h5⟩ := h
  have e0 : ∀ r, u32At (u32be t.epoch ++ r) 0 = t.epoch := fun r => u32At_zero _ r h1
  have l := u32be_length
  simp only [List.append_assoc]
  have e4 : u32At (u32be t.epoch ++ (u32be t.totalSize ++ (u32be t.command ++ (u32be t.size ++ (t.data ++ extra))))) 4 = t.totalSize := by
    rw [show (4 : Nat) = 0 + 4 from rfl, u32At_skip _ _ 0 (l _), u32At_zero _ _ h2]
  have e8 : u32At (u32be t.epoch ++ (u32be t.totalSize ++ (u32be t.command ++ (u32be t.size ++ (t.data ++ extra))))) 8 = t.command := by
    rw [show (8 : Nat) = 4 + 4 from rfl, u32At_skip _ _ 4 (l _), show (4 : Nat) = 0 + 4 from rfl, u32At_skip _ _ 0 (l _), u32At_zero _ _ h3]
  have e12 : u32At (u32be t.epoch ++ (u32be t.totalSize ++ (u32be t.command ++ (u32be t.size ++ (t.data ++ extra))))) 12 = t.size := by
    rw [show (12 : Nat) = 8 + 4 from rfl, u32At_skip _ _ 8 (l _), show (8 : Nat) = 4 + 4 from rfl, u32At_skip _ _ 4 (l _),
      show (4 : Nat) = 0 + 4 from rfl, u32At_skip _ _ 0 (l _), u32At_zero _ _ h4]
  have hd : (u32be t.epoch ++ (u32be t.totalSize ++ (u32be t.command ++ (u32be t.size ++ (t.data ++ extra))))).drop 16 = t.data ++ extra := by
    rw [show (16 : Nat) = (u32be t.epoch).length + 12 by rw [l], drop_add_append,
      show (12 : Nat) = (u32be t.totalSize).length + 8 by rw [l], drop_add_append,
      show (8 : Nat) = (u32be t.command).length + 4 by rw [l], drop_add_append,
      show (4 : Nat) = (u32be t.size).length + 0 by rw [l], drop_add_append, List.drop_zero]
  unfold parseTask
  rw [e0, e4, e8, e12, hd]
  have hlen : (u32be t.epoch ++ (u32be t.totalSize ++ (u32be t.command ++ (u32be t.size ++ (t.data ++ extra))))).length
      = 16 + t.data.length + extra.length := by
    simp only [List.length_append, l]; omega
  rw [if_neg (by omega), if_neg (by omega), h5, List.take_left' rfl]
  cases t; simp_all

theorem callback_dumps_ok (cb : Callback) (h : CallbackOk cb) :
    cb.dumps = .ok (u32be cb.counter ++ (u32be cb.size ++ (u32be cb.callback ++ cb.data))) := by
  obtain ⟨h1, h2, h3, _⟩ := h
  simp [Callback.dumps, h1, h2, h3]

theorem parseCallback_dumps (cb : Callback) (extra : Bytes) (h : CallbackOk cb) :
    parseCallback (u32be cb.counter ++ (u32be cb.size ++ (u32be cb.callback ++ cb.data)) ++ extra) = .ok cb := by
  obtain ⟨h1, h2, h3, h5⟩ := h
  have l := u32be_length
  simp only [List.append_assoc]
  have e0 : ∀ r, u32At (u32be cb.counter ++ r) 0 = cb.counter := fun r => u32At_zero _ r h1
  have e4 : u32At (u32be cb.counter ++ (u32be cb.size ++ (u32be cb.callback ++ (cb.data ++ extra)))) 4 = cb.size := by
    rw [show (4 : Nat) = 0 + 4 from rfl, u32At_skip _ _ 0 (l _), u32At_zero _ _ h2]
  have e8 : u32At (u32be cb.counter ++ (u32be cb.size ++ (u32be cb.callback ++ (cb.data ++ extra)))) 8 = cb.callback := by
    rw [show (8 : Nat) = 4 + 4 from rfl, u32At_skip _ _ 4 (l _), show (4 : Nat) = 0 + 4 from rfl, u32At_skip _ _ 0 (l _), u32At_zero _ _ h3]
  have hd : (u32be cb.counter ++ (u32be cb.size ++ (u32be cb.callback ++ (cb.data ++ extra)))).drop 12 = cb.data ++ extra := by
    rw [show (12 : Nat) = (u32be cb.counter).length + 8 by rw [l], drop_add_append,
      show (8 : Nat) = (u32be cb.size).length + 4 by rw [l], drop_add_append,
      show (4 : Nat) = (u32be cb.callback).length + 0 by rw [l], drop_add_append, List.drop_zero]
  unfold parseCallback
  rw [e0, e4, e8, hd]
  have hlen : (u32be cb.counter ++ (u32be cb.size ++ (u32be cb.callback ++ (cb.data ++ extra)))).length
      = 12 + cb.data.length + extra.length := by
    simp only [List.length_append, l]; omega
  rw [if_neg (by omega), if_neg (by omega), h5, List.take_left' rfl]
  cases cb; simp_all


/-! ### client transforms: the request keeps method and URI and is recovered -/

theorem client_transform_recover (p : Program) (hv : valid p = true) (hu : usesUri p = false)
    (c2 : C2Data) (rand : C04.Rand) (req : Req) :
    ∃ r, C04.transform (C04.mkTransform (compile p) false none) rand c2 (some req) = .ok r ∧
      r.method = req.method ∧ r.uri = req.uri ∧
      C04.recover (C04.mkTransform (compile p) false none) (.request r) = .ok (normalise p c2) := by
  obtain ⟨s', h1, hP⟩ := C04.transform_placed c2 req p hv (C04.TSt.init req rand)
    (fun h => by rw [hu] at h; cases h)
  refine ⟨s'.toReq req, ?_, rfl, ?_, ?_⟩
  · simp only [C04.transform, C04.mk_client, Option.getD_some, h1, Except.map]
  · have hw : ∀ st ∈ compile p, C04.writes st ≠ some Term.uriAppend := by
      intro st hs hw
      have := C04.writes_compile p hv st hs _ hw
      rw [← C04.usesUri_iff, hu] at this
      cases this
    have := C04.runT_frame c2 req (compile p) _ s' Term.uriAppend h1 hw
    simp only [C04.locate_http] at this
    injection this
  · simp only [C04.recover, C04.mk_rsteps, C04.mk_client]
    exact C04.recover_of_placed p hv c2 _ hP


/-! ### hypotheses of the end-to-end theorems -/

/-- a submit request is not caught by the get route (the get test comes first in the code) -/
def RoutingDisjoint (cfg : HttpCfg) : Prop :=
  ¬ (cfg.submitVerb = cfg.getVerb ∧ startsWithAny cfg.submitUri cfg.getUris = true)

instance (cfg : HttpCfg) : Decidable (RoutingDisjoint cfg) := by unfold RoutingDisjoint; infer_instance

/-- A well-formed HTTP configuration: the three step lists are what the profile compiler emits for valid
reference programs `pg` (http-get.client), `pp` (http-post.client) and the server output statements `es`;
no uri-append (known finding C04-uri-append-initial-uri); the get program carries the metadata, the post
program the output; routing is unambiguous. -/
structure WellFormedCfg (cfg : HttpCfg) (pg pp : Program) (es : List Enc) : Prop where
  getProg : cfg.getProg = compile pg
  postProg : cfg.postProg = compile pp
  recoverProg : cfg.recoverProg = serverSteps es
  getValid : valid pg = true
  postValid : valid pp = true
  serverOk : ∀ e ∈ es, C04.encOk e = true
  getNoUri : usesUri pg = false
  postNoUri : usesUri pp = false
  getMeta : built pg .metadata = true
  postOutput : built pp .output = true
  disjoint : RoutingDisjoint cfg

/-- the keys of the beacon session: both halves of SHA-256 over the metadata's random bytes -/
def sessionKeys (c : Crypto) (cl : Client) : Keys := derivedKeys c cl.metadata.aes_rand

/-- the metadata as it is sent (and as the client object holds it after the first check-in) -/
def sentMetadata (cl : Client) : C06.Metadata := { cl.metadata with size := 51 + cl.metadata.info.length }

structure WellFormedClient (c : Crypto) (cl : Client) : Prop where
  inWidth : C06.InWidth cl.metadata
  aesLen : cl.metadata.aes_rand.length = 16
  magic : cl.metadata.magic = 0xBEEF
  fits : 59 + cl.metadata.info.length ≤ c.asym.modulusBytes - 11
  infoSmall : 51 + cl.metadata.info.length < 2 ^ 32
  keys : cl.keys = sessionKeys c cl
  getUri : cl.getUri ∈ cl.cfg.getUris

theorem sized_eq (cl : Client) (hw : C06.InWidth cl.metadata) (ha : cl.metadata.aes_rand.length = 16) :
    C06.sized cl.metadata = .ok (sentMetadata cl) := by
  simp only [C06.sized, C06.dumps_ok _ hw, sentMetadata]
  rw [C06.rawDumps_length16 _ ha]
  have : 59 + cl.metadata.info.length - 8 = 51 + cl.metadata.info.length := by omega
  rw [this]

/-- the client's check-in request, what it recovers to, and what the blob decrypts to -/
theorem checkin_request (c : Crypto) (L : CryptoLaws c) {cfg : HttpCfg} {pg pp : Program} {es : List Enc}
    (wf : WellFormedCfg cfg pg pp es) (cl : Client) (hcl : cl.cfg = cfg) (wc : WellFormedClient c cl)
    (rr : C06.Rand) (rand : C04.Rand) :
    ∃ r blob, getTaskRequest c cl rr rand = .ok (r, { cl with metadata := sentMetadata cl }) ∧
      r.method = cfg.getVerb ∧ r.uri = cl.getUri ∧
      recoverStage cfg (.request r) = .ok (normalise pg ⟨none, some blob, none⟩) ∧ blob ≠ [] ∧
      C06.decryptMetadata c.asym blob = .ok (sentMetadata cl) := by
  obtain ⟨blob, hb1, hb2, hb3⟩ := C06.metadata_roundtrip c.asym L.asym cl.metadata rr wc.inWidth wc.aesLen wc.fits wc.infoSmall
  rw [if_pos wc.magic] at hb3
  obtain ⟨r, hr1, hr2, hr3, hr4⟩ := client_transform_recover pg wf.getValid wf.getNoUri ⟨none, some blob, none⟩ rand
    (initialGetRequest cl)
  have hne : blob ≠ [] := by
    intro h0; rw [h0] at hb2; simp at hb2; have := wc.fits; omega
  refine ⟨r, blob, ?_, ?_, ?_, ?_, hne, hb3⟩
  · simp only [getTaskRequest, sized_eq cl wc.inWidth wc.aesLen, hb1, ofC06, transformGet, hcl, wf.getProg, hr1, ofC04,
      Except.map]
  · rw [hr2]; simp [initialGetRequest, hcl]
  · rw [hr3]; rfl
  · have hroute : routeHttp cfg (.request r) = some .get := by
      simp only [routeHttp]
      apply routeRequest_get
      · rw [hr2]; simp [initialGetRequest, hcl]
      · rw [hr3]; simp only [initialGetRequest]
        apply startsWithAny_of_mem
        rw [← hcl]; exact wc.getUri
    simp only [recoverStage, hroute, transformOf, transformGet, wf.getProg, hr4, ofC04]


/-! ### evaluation of the decoder's stages -/

theorem iterRecoverMsg_of_recover (c : Crypto) (dec : Decoder) (http : Http) (c2 : C2Data)
    (h : recoverStage dec.cfg http = .ok c2) :
    iterRecoverMsg c dec none http =
      match (metadataStep c dec c2.metadata).exc with
      | some e => ⟨(metadataStep c dec c2.metadata).items, some e, (metadataStep c dec c2.metadata).dec,
                   (metadataStep c dec c2.metadata).calls⟩
      | none =>
        ⟨(metadataStep c dec c2.metadata).items ++
           (decodePackets c dec.keys dec.verify (isRequest http) (frames (isRequest http) c2.output).1).items,
         match (decodePackets c dec.keys dec.verify (isRequest http) (frames (isRequest http) c2.output).1).exc with
         | some e => some e
         | none => (frames (isRequest http) c2.output).2.map Exc.py,
         (metadataStep c dec c2.metadata).dec,
         (metadataStep c dec c2.metadata).calls ++
           (decodePackets c dec.keys dec.verify (isRequest http) (frames (isRequest http) c2.output).1).calls⟩ := by
  simp only [iterRecoverMsg, h, Option.getD_none]
  rfl

theorem iterRecoverMsg_of_error (c : Crypto) (dec : Decoder) (http : Http) (e : Exc)
    (h : recoverStage dec.cfg http = .error e) :
    iterRecoverMsg c dec none http = ⟨[], some e, dec, []⟩ := by
  simp only [iterRecoverMsg, h]

theorem metadataStep_skip (c : Crypto) (dec : Decoder) (md : Option Bytes)
    (h : (truthy md && dec.hasPriv) = false) : metadataStep c dec md = ⟨[], none, dec, []⟩ := by
  simp only [metadataStep, h]; rfl

theorem truthy_some_ne {b : Bytes} (h : b ≠ []) : truthy (some b) = true := by
  cases b with
  | nil => exact absurd rfl h
  | cons _ _ => rfl

theorem defaultIv_length : Gen.C2Struct.defaultAesIv.length = 16 := by decide

theorem sessionKeys_facts (c : Crypto) (L : CryptoLaws c) (cl : Client) :
    ∃ k hk, sessionKeys c cl = ⟨some k, some hk, Gen.C2Struct.defaultAesIv⟩ ∧ k.length = 16 ∧ hk.length = 16 := by
  obtain ⟨_, h1, h2⟩ := C06.derive_split c.asym L.asym cl.metadata.aes_rand
  exact ⟨_, _, rfl, h1, h2⟩

/-- with no keys at all the first packet is refused (whatever `verify_hmac` says) and nothing is yielded -/
theorem decodePackets_nokeys (c : Crypto) (iv : Bytes) (verify isReq : Bool) (p : C05.Packet) (ps : List C05.Packet) :
    (decodePackets c ⟨none, none, iv⟩ verify isReq (p :: ps)).items = [] ∧
    (decodePackets c ⟨none, none, iv⟩ verify isReq (p :: ps)).exc = some (.py .valueError) ∧
    (decodePackets c ⟨none, none, iv⟩ verify isReq (p :: ps)).calls = [] := by
  cases verify <;> simp [decodePackets, C05.decryptPacketT, C05.decryptDataT]

/-! ### callbacks: what the client encrypts is what the decoder's packet loop yields -/

theorem callbackPackets_ok (counter : Nat) (cbs : List (Nat × Bytes))
    (hc : counter + cbs.length < 2 ^ 32) (hcb : ∀ cb ∈ cbs, cb.1 < 2 ^ 32 ∧ cb.2.length + 64 < 2 ^ 32) :
    ∀ p ∈ callbackPackets counter cbs, CallbackOk p ∧ p.data.length + 64 < 2 ^ 32 := by
  induction cbs generalizing counter with
  | nil => intro p hp; simp [callbackPackets] at hp
  | cons cb rest ih =>
    obtain ⟨id, data⟩ := cb
    intro p hp
    simp only [callbackPackets, List.mem_cons] at hp
    have h0 := hcb (id, data) (by simp)
    simp only [List.length_cons] at hc
    rcases hp with rfl | hp
    · refine ⟨⟨?_, ?_, h0.1, rfl⟩, h0.2⟩
      · show counter + 1 < 2 ^ 32
        omega
      · show data.length < 2 ^ 32
        have := h0.2
        simp only at this
        omega
    · exact ih (counter + 1) (by omega) (fun cb h => hcb cb (by simp [h])) p hp

theorem dumpsAll_cons_ok (p : C05.Packet) (pkts : List C05.Packet) (frame bs : Bytes) (hdump : C05.dumps p = .ok frame)
    (h2 : C05.dumpsAll pkts = .ok bs) : C05.dumpsAll (p :: pkts) = .ok (frame ++ bs) := by
  rw [C05.dumpsAll, hdump, h2]; rfl

theorem encryptCallbacks_cons_ok (c : Crypto) (keys : Keys) (cb : Callback) (rest : List Callback) (frame bs : Bytes)
    (h0 : encryptCallback c keys cb = .ok frame) (h1 : encryptCallbacks c keys rest = .ok bs) :
    encryptCallbacks c keys (cb :: rest) = .ok (frame ++ bs) := by
  simp only [encryptCallbacks, h0, h1, Except.map]

theorem encryptCallback_eq (c : Crypto) (k hk iv : Bytes) (cb : Callback) (pt : Bytes) (pkt : C05.Packet)
    (hd : cb.dumps = .ok pt)
    (henc : C05.encryptPacket c.sym pt (some k) (some hk) iv = .ok pkt) :
    encryptCallback c ⟨some k, some hk, iv⟩ cb = ofPy (C05.dumps pkt) := by
  unfold encryptCallback
  rw [hd]
  dsimp only
  rw [henc]
  rfl

/-- one callback: the frame the client produces is the `dumps()` of a packet that decrypts (with the same keys,
with or without HMAC verification) to the padded plaintext, which parses back to the callback -/
theorem encryptCallback_spec (c : Crypto) (L : CryptoLaws c) (k hk : Bytes) (hk16 : k.length = 16) (hne : hk ≠ [])
    (verify : Bool) (cb : Callback) (hcb : CallbackOk cb) (hlen : cb.data.length + 64 < 2 ^ 32) :
    ∃ pkt frame pt, encryptCallback c ⟨some k, some hk, Gen.C2Struct.defaultAesIv⟩ cb = .ok frame ∧
      C05.dumps pkt = .ok frame ∧ pkt.signature.length = 16 ∧ pkt.ciphertext.length + 16 < 2 ^ 32 ∧
      (C05.decryptPacketT c.sym pkt (some k) (some hk) Gen.C2Struct.defaultAesIv verify).1 = .ok pt ∧
      parseItem true pt = .ok (.callback cb) := by
  have hd := callback_dumps_ok cb hcb
  obtain ⟨ct, hct1, hct2, hct3, hct4⟩ := C05.encrypt_packet_ok c.sym L.sym
    (u32be cb.counter ++ (u32be cb.size ++ (u32be cb.callback ++ cb.data))) k hk Gen.C2Struct.defaultAesIv
    (Or.inl hk16) defaultIv_length
  have hsig : (C05.mac16 c.sym hk ct).length = 16 := by
    simp only [C05.mac16, List.length_take, L.sym.hmac_len]; rfl
  obtain ⟨kpad, hp1, _, hp3, _, hp5, _⟩ := C05.pad_spec (u32be cb.counter ++ (u32be cb.size ++ (u32be cb.callback ++ cb.data)))
  have hctlen : ct.length + 16 < 2 ^ 32 := by
    rw [hct2, hp5]; simp only [List.length_append, u32be_length]; omega
  have hdump := C05.dumps_ok ⟨ct, C05.mac16 c.sym hk ct⟩ (by simp only [hsig]; exact hctlen)
  have henc : C05.encryptPacket c.sym (u32be cb.counter ++ (u32be cb.size ++ (u32be cb.callback ++ cb.data)))
      (some k) (some hk) Gen.C2Struct.defaultAesIv = .ok ⟨ct, C05.mac16 c.sym hk ct⟩ := by
    simp [C05.encryptPacket, hct4]
  refine ⟨⟨ct, C05.mac16 c.sym hk ct⟩, _, C05.pad (u32be cb.counter ++ (u32be cb.size ++ (u32be cb.callback ++ cb.data))), ?_, hdump, hsig, hctlen, ?_, ?_⟩
  · rw [encryptCallback_eq c k hk _ cb _ _ hd henc, hdump]; rfl
  · show C05.decryptPacket c.sym ⟨ct, C05.mac16 c.sym hk ct⟩ (some k) (some hk) Gen.C2Struct.defaultAesIv verify = .ok _
    cases verify with
    | true =>
      rw [C05.verify_decision, if_pos ⟨hne, rfl⟩]
      simpa [C05.decryptData, C05.decryptDataT] using hct3
    | false => simpa [C05.decryptPacket, C05.decryptPacketT, C05.decryptDataT] using hct3
  · rw [hp1]
    simp only [parseItem, if_true, parseCallback_dumps cb _ hcb, Except.map]

theorem decodePackets_cons_ok (c : Crypto) (keys : Keys) (verify isReq : Bool) (p : C05.Packet) (ps : List C05.Packet)
    (pt : Bytes) (it : Item)
    (hd : (C05.decryptPacketT c.sym p keys.aesKey keys.hmacKey keys.iv verify).1 = .ok pt)
    (hp : parseItem isReq pt = .ok it) :
    (decodePackets c keys verify isReq (p :: ps)).items = it :: (decodePackets c keys verify isReq ps).items ∧
    (decodePackets c keys verify isReq (p :: ps)).exc = (decodePackets c keys verify isReq ps).exc := by
  simp only [decodePackets, hd, hp, and_self]

theorem encryptCallbacks_spec (c : Crypto) (L : CryptoLaws c) (k hk : Bytes) (hk16 : k.length = 16) (hne : hk ≠ [])
    (verify : Bool) (cbs : List Callback) (hok : ∀ cb ∈ cbs, CallbackOk cb ∧ cb.data.length + 64 < 2 ^ 32) :
    ∃ pkts bs, encryptCallbacks c ⟨some k, some hk, Gen.C2Struct.defaultAesIv⟩ cbs = .ok bs ∧
      C05.dumpsAll pkts = .ok bs ∧ pkts.length = cbs.length ∧
      (∀ p ∈ pkts, p.signature.length = 16 ∧ p.ciphertext.length + 16 < 2 ^ 32) ∧
      (decodePackets c ⟨some k, some hk, Gen.C2Struct.defaultAesIv⟩ verify true pkts).items = cbs.map Item.callback ∧
      (decodePackets c ⟨some k, some hk, Gen.C2Struct.defaultAesIv⟩ verify true pkts).exc = none := by
  induction cbs with
  | nil => exact ⟨[], [], rfl, rfl, rfl, by simp, rfl, rfl⟩
  | cons cb rest ih =>
    obtain ⟨pkts, bs, h1, h2, h3, h4, h5, h6⟩ := ih (fun x hx => hok x (by simp [hx]))
    obtain ⟨hcb, hlen⟩ := hok cb (by simp)
    obtain ⟨pkt, frame, pt, e1, e2, e3, e4, e5, e6⟩ := encryptCallback_spec c L k hk hk16 hne verify cb hcb hlen
    obtain ⟨d1, d2⟩ := decodePackets_cons_ok c ⟨some k, some hk, Gen.C2Struct.defaultAesIv⟩ verify true pkt pkts pt _ e5 e6
    refine ⟨pkt :: pkts, frame ++ bs, encryptCallbacks_cons_ok c _ cb rest frame bs e1 h1,
      dumpsAll_cons_ok pkt pkts frame bs e2 h2, by simp [h3], ?_, ?_, ?_⟩
    · intro p hp
      simp only [List.mem_cons] at hp
      rcases hp with rfl | hp
      · exact ⟨e3, e4⟩
      · exact h4 p hp
    · rw [d1, h5]; rfl
    · rw [d2, h6]

/-! ### what `recover` returns for the two client programs -/

theorem normalise_output (p : Program) (c2 : C2Data) :
    (normalise p c2).output = if built p .output then some (c2.output.getD []) else none := rfl

theorem normalise_metadata (p : Program) (c2 : C2Data) :
    (normalise p c2).metadata = if built p .metadata then some (c2.metadata.getD []) else none := rfl

theorem callbackPackets_length (n : Nat) (cbs : List (Nat × Bytes)) : (callbackPackets n cbs).length = cbs.length := by
  induction cbs generalizing n with
  | nil => rfl
  | cons cb rest ih => obtain ⟨a, b⟩ := cb; simp [callbackPackets, ih]

/-- the client's POST request with the given callbacks, what it recovers to, and how the recovered output frames and
decrypts (with the session keys, HMAC verified or not) -/
theorem callback_request (c : Crypto) (L : CryptoLaws c) {cfg : HttpCfg} {pg pp : Program} {es : List Enc}
    (wf : WellFormedCfg cfg pg pp es) (cl : Client) (hcl : cl.cfg = cfg) (wc : WellFormedClient c cl)
    (cbs : List (Nat × Bytes)) (rand : C04.Rand) (verify : Bool)
    (hc : cl.counter + cbs.length < 2 ^ 32) (hcb : ∀ cb ∈ cbs, cb.1 < 2 ^ 32 ∧ cb.2.length + 64 < 2 ^ 32) :
    ∃ r out pkts, callbackRequest c cl cbs rand = .ok (r, { cl with counter := cl.counter + cbs.length }) ∧
      r.method = cfg.submitVerb ∧ r.uri = cfg.submitUri ∧
      recoverStage cfg (.request r) = .ok (normalise pp ⟨some out, none, some (idBytes cl)⟩) ∧
      C05.iterClient (some out) = (pkts, none) ∧ pkts.length = cbs.length ∧
      (decodePackets c (sessionKeys c cl) verify true pkts).items = (callbackPackets cl.counter cbs).map Item.callback ∧
      (decodePackets c (sessionKeys c cl) verify true pkts).exc = none := by
  obtain ⟨k, hk, hkeys, hk16, hhk16⟩ := sessionKeys_facts c L cl
  have hne : hk ≠ [] := by intro h0; rw [h0] at hhk16; cases hhk16
  obtain ⟨pkts, bs, h1, h2, h3, h4, h5, h6⟩ := encryptCallbacks_spec c L k hk hk16 hne verify
    (callbackPackets cl.counter cbs) (callbackPackets_ok cl.counter cbs hc hcb)
  obtain ⟨bs', hb1, hb2⟩ := C05.client_frames_roundtrip pkts h4
  rw [h2] at hb1
  injection hb1 with hb1
  subst hb1
  obtain ⟨r, hr1, hr2, hr3, hr4⟩ := client_transform_recover pp wf.postValid wf.postNoUri
    ⟨some bs, none, some (idBytes cl)⟩ rand (initialPostRequest cl)
  have hlen := callbackPackets_length cl.counter cbs
  refine ⟨r, bs, pkts, ?_, ?_, ?_, ?_, hb2, by rw [h3, hlen], ?_, ?_⟩
  · simp only [callbackRequest, wc.keys, hkeys, h1, transformSubmit, hcl, wf.postProg, hr1, ofC04, Except.map]
  · rw [hr2]; simp [initialPostRequest, hcl]
  · rw [hr3]; simp [initialPostRequest, hcl]
  · have hroute : routeHttp cfg (.request r) = some .submit := by
      simp only [routeHttp]
      apply routeRequest_submit
      · rw [hr2]; simp [initialPostRequest, hcl]
      · rw [hr3]; simp only [initialPostRequest, hcl]; exact isPrefixOf_self _
      · rw [hr2, hr3]; simp only [initialPostRequest, hcl]; exact wf.disjoint
    simp only [recoverStage, hroute, transformOf, transformSubmit, wf.postProg, hr4, ofC04]
  · rw [hkeys]; exact h5
  · rw [hkeys]; exact h6

/-! ### the server side -/

theorem rstep_response_irrel (hs hs' : Dict) (b : Bytes) (st : Step) (s : C04.RSt) (h : ∀ k, st ≠ .term (.header k)) :
    C04.rstep (.response hs b) st s = C04.rstep (.response hs' b) st s := by
  cases st with
  | term t =>
    cases t with
    | header k => exact absurd rfl (h k)
    | _ => rfl
  | build f => cases f <;> rfl
  | _ => rfl

theorem runR_response_irrel (hs hs' : Dict) (b : Bytes) (steps : List Step) (s : C04.RSt)
    (h : ∀ st ∈ steps, ∀ k, st ≠ .term (.header k)) :
    C04.runR (.response hs b) steps s = C04.runR (.response hs' b) steps s := by
  induction steps generalizing s with
  | nil => rfl
  | cons st rest ih =>
    simp only [C04.runR]
    rw [rstep_response_irrel hs hs' b st s (h st (by simp))]
    cases C04.rstep (.response hs' b) st s with
    | error e => rfl
    | ok s1 => exact ih s1 (fun st' hst => h st' (by simp [hst]))

/-- recovering a response never looks at its headers when the program is a server output block -/
theorem recover_response_headers (es : List Enc) (hs hs' : Dict) (b : Bytes) :
    C04.recover (C04.mkTransform (serverSteps es) true (some (some .output))) (.response hs b) =
      C04.recover (C04.mkTransform (serverSteps es) true (some (some .output))) (.response hs' b) := by
  unfold C04.recover
  rw [runR_response_irrel hs hs' b]
  intro st hst k
  have hst' : st = .term .print ∨ (∃ e, st = .enc e) ∨ st = .build (some .output) := by
    have hr : (C04.mkTransform (serverSteps es) true (some (some .output))).rsteps =
        (Step.term .print :: (es.map fun e => Step.enc (C04.Ref.intForm e)).reverse) ++ [Step.build (some .output)] := rfl
    rw [hr] at hst
    rw [List.mem_append, List.mem_cons, List.mem_reverse, List.mem_map, List.mem_singleton] at hst
    rcases hst with (h | ⟨e, _, h⟩) | h
    · exact Or.inl h
    · exact Or.inr (Or.inl ⟨_, h.symm⟩)
    · exact Or.inr (Or.inr h)
  rcases hst' with rfl | ⟨e, rfl⟩ | rfl <;> simp

/-- a body made by the reference team server for the output `out` is recovered, whatever headers the response has -/
theorem server_body_recover {cfg : HttpCfg} {pg pp : Program} {es : List Enc} (wf : WellFormedCfg cfg pg pp es)
    (out : Bytes) (rand : C04.Rand) (hs : Dict) :
    recoverStage cfg (.response hs
      (C04.Ref.encode [.block ⟨.output, es, .print⟩] rand ⟨some out, none, none⟩ C04.emptyReq).body) =
      .ok ⟨some out, none, none⟩ := by
  have h := C04.model_decodes_ref_server es wf.serverOk ⟨some out, none, none⟩ rand C04.emptyReq
  simp only at h
  simp only [recoverStage, routeHttp, transformOf, transformResponse, wf.recoverProg]
  rw [recover_response_headers es hs _ _, h]
  rfl

/-! ### the decoder-state invariant of a session -/

/-- What is true of the decoder object along a session of the client `cl`.  `known` says whether the session keys
are in `self.beacon_keys`; while they are not, there are no keys at all and the metadata cache is still empty
(keys are derived in the same step that fills the cache). -/
structure Inv (c : Crypto) (cl : Client) (dec : Decoder) (known : Bool) : Prop where
  cfg : dec.cfg = cl.cfg
  cacheOk : ∀ blob m, dec.cache.lookup blob = some m → C06.decryptMetadata c.asym blob = .ok m
  keysKnown : known = true → dec.keys = sessionKeys c cl
  keysUnknown : known = false → dec.keys.aesKey = none ∧ dec.keys.hmacKey = none ∧ dec.cache = []

theorem frames_request_empty (o : Option Bytes) (h : o = none ∨ o = some []) : frames true o = ([], none) := by
  rcases h with rfl | rfl
  · rfl
  · simp only [frames, if_true, C05.iterClient, C05.iterClientPackets_nil]

theorem sessionKeys_truthy (c : Crypto) (L : CryptoLaws c) (cl : Client) :
    truthy (sessionKeys c cl).aesKey = true ∧ truthy (sessionKeys c cl).hmacKey = true := by
  obtain ⟨k, hk, h, h1, h2⟩ := sessionKeys_facts c L cl
  rw [h]
  constructor
  · apply truthy_some_ne; intro h0; rw [h0] at h1; cases h1
  · apply truthy_some_ne; intro h0; rw [h0] at h2; cases h2

theorem lookup_append_single (l : List (Bytes × C06.Metadata)) (b b' : Bytes) (m m' : C06.Metadata)
    (h : (l ++ [(b', m')]).lookup b = some m) : l.lookup b = some m ∨ (b = b' ∧ m = m') := by
  induction l with
  | nil =>
    simp only [List.nil_append, List.lookup] at h
    split at h
    · rename_i heq
      injection h with h
      exact Or.inr ⟨by simpa using heq, h.symm⟩
    · cases h
  | cons x xs ih =>
    obtain ⟨k, v⟩ := x
    rw [List.cons_append, List.lookup] at h
    rw [List.lookup]
    split at h
    · exact Or.inl h
    · exact ih h

/-- the `if c2data.metadata and self.priv:` block on a blob that decrypts to the client's metadata -/
theorem metadataStep_checkin (c : Crypto) (L : CryptoLaws c) (cl : Client) (dec : Decoder) (known : Bool)
    (inv : Inv c cl dec known) (blob : Bytes)
    (hne : blob ≠ []) (hdec : C06.decryptMetadata c.asym blob = .ok (sentMetadata cl)) :
    ∃ dec' calls, metadataStep c dec (some blob) =
        ⟨if dec.hasPriv then [.metadata (sentMetadata cl)] else [], none, dec', calls⟩ ∧
      Inv c { cl with metadata := sentMetadata cl } dec' (known || dec.hasPriv) ∧
      dec'.hasPriv = dec.hasPriv ∧ dec'.verify = dec.verify := by
  cases hp : dec.hasPriv with
  | false =>
    refine ⟨dec, [], metadataStep_skip c dec _ (by simp [hp]), ?_, hp, rfl⟩
    rw [Bool.or_false]
    exact ⟨inv.cfg, inv.cacheOk, inv.keysKnown, inv.keysUnknown⟩
  | true =>
    have ht : (truthy (some blob) && dec.hasPriv) = true := by simp [truthy_some_ne hne, hp]
    rw [Bool.or_true]
    cases hl : dec.cache.lookup blob with
    | some m =>
      have hm : m = sentMetadata cl := by
        have := inv.cacheOk blob m hl
        rw [hdec] at this; injection this with this; exact this.symm
      have hk : known = true := by
        cases known with
        | true => rfl
        | false => have := (inv.keysUnknown rfl).2.2; rw [this] at hl; cases hl
      refine ⟨dec, [], ?_, ⟨inv.cfg, inv.cacheOk, fun _ => inv.keysKnown hk, fun h => by cases h⟩, hp, rfl⟩
      simp only [metadataStep, ht, if_true, Option.getD_some, hl, hm]
    | none =>
      cases hkn : known with
      | true =>
        have hkeys := inv.keysKnown hkn
        obtain ⟨t1, t2⟩ := sessionKeys_truthy c L cl
        rw [← hkeys] at t1 t2
        refine ⟨{ dec with cache := dec.cache ++ [(blob, sentMetadata cl)] }, [.rsaDec blob], ?_,
          ⟨inv.cfg, ?_, fun _ => hkeys, fun h => by cases h⟩, hp, rfl⟩
        · simp only [metadataStep, ht, if_true, Option.getD_some, hl, hdec, t1, t2, Bool.and_self]
        · intro b m hb
          rcases lookup_append_single _ _ _ _ _ hb with h | ⟨rfl, rfl⟩
          · exact inv.cacheOk b m h
          · exact hdec
      | false =>
        obtain ⟨u1, u2, _⟩ := inv.keysUnknown hkn
        have t1 : truthy dec.keys.aesKey = false := by rw [u1]; rfl
        refine ⟨{ dec with cache := dec.cache ++ [(blob, sentMetadata cl)], keys := derivedKeys c (sentMetadata cl).aes_rand },
          [.rsaDec blob, .sha256 (sentMetadata cl).aes_rand], ?_, ⟨inv.cfg, ?_, fun _ => rfl, fun h => by cases h⟩, hp, rfl⟩
        · simp only [metadataStep, ht, if_true, Option.getD_some, hl, hdec, t1, Bool.false_and, Bool.false_eq_true, if_false]
        · intro b m hb
          rcases lookup_append_single _ _ _ _ _ hb with h | ⟨rfl, rfl⟩
          · exact inv.cacheOk b m h
          · exact hdec

/-- the decoder's reaction to a check-in request whose recovered metadata blob decrypts to the client's metadata -/
theorem checkin_step (c : Crypto) (L : CryptoLaws c) (cl : Client) (dec : Decoder) (known : Bool)
    (inv : Inv c cl dec known) (r : Req) (blob : Bytes) (out : Option Bytes) (id : Option Bytes)
    (hrec : recoverStage dec.cfg (.request r) = .ok ⟨out, some blob, id⟩) (hout : out = none ∨ out = some [])
    (hne : blob ≠ []) (hdec : C06.decryptMetadata c.asym blob = .ok (sentMetadata cl)) :
    (iterRecoverMsg c dec none (.request r)).items = (if dec.hasPriv then [.metadata (sentMetadata cl)] else []) ∧
    (iterRecoverMsg c dec none (.request r)).exc = none ∧
    Inv c { cl with metadata := sentMetadata cl } (iterRecoverMsg c dec none (.request r)).dec (known || dec.hasPriv) ∧
    (iterRecoverMsg c dec none (.request r)).dec.hasPriv = dec.hasPriv ∧
    (iterRecoverMsg c dec none (.request r)).dec.verify = dec.verify := by
  obtain ⟨dec', calls, hms, hinv, h1, h2⟩ := metadataStep_checkin c L cl dec known inv blob hne hdec
  rw [iterRecoverMsg_of_recover c dec _ _ hrec, hms]
  simp only [isRequest, frames_request_empty out hout, decodePackets, List.append_nil, Option.map_none]
  exact ⟨trivial, trivial, hinv, h1, h2⟩


/-! ### messages without metadata: the packet loop -/

theorem iterRecoverMsg_packets (c : Crypto) (dec : Decoder) (http : Http) (c2 : C2Data)
    (hrec : recoverStage dec.cfg http = .ok c2) (hmeta : truthy c2.metadata = false) :
    (iterRecoverMsg c dec none http).items =
        (decodePackets c dec.keys dec.verify (isRequest http) (frames (isRequest http) c2.output).1).items ∧
    (iterRecoverMsg c dec none http).exc =
        (match (decodePackets c dec.keys dec.verify (isRequest http) (frames (isRequest http) c2.output).1).exc with
         | some e => some e
         | none => (frames (isRequest http) c2.output).2.map Exc.py) ∧
    (iterRecoverMsg c dec none http).dec = dec := by
  rw [iterRecoverMsg_of_recover c dec _ _ hrec, metadataStep_skip c dec _ (by simp [hmeta])]
  exact ⟨rfl, rfl, rfl⟩

/-- keys known: every packet of the message is yielded -/
theorem packets_step_known (c : Crypto) (cl : Client) (dec : Decoder) (inv : Inv c cl dec true) (http : Http)
    (c2 : C2Data) (hrec : recoverStage dec.cfg http = .ok c2) (hmeta : truthy c2.metadata = false)
    (pkts : List C05.Packet) (hfr : frames (isRequest http) c2.output = (pkts, none)) (items : List Item)
    (hdecode : (decodePackets c (sessionKeys c cl) dec.verify (isRequest http) pkts).items = items ∧
      (decodePackets c (sessionKeys c cl) dec.verify (isRequest http) pkts).exc = none) :
    (iterRecoverMsg c dec none http).items = items ∧ (iterRecoverMsg c dec none http).exc = none ∧
      (iterRecoverMsg c dec none http).dec = dec := by
  obtain ⟨h1, h2, h3⟩ := iterRecoverMsg_packets c dec http c2 hrec hmeta
  rw [hfr, inv.keysKnown rfl] at h1 h2
  rw [hdecode.1] at h1
  rw [hdecode.2] at h2
  exact ⟨h1, h2, h3⟩

/-- no keys yet: the first packet is refused with ValueError and nothing is yielded; no packet: nothing happens -/
theorem packets_step_unknown (c : Crypto) (cl : Client) (dec : Decoder) (inv : Inv c cl dec false) (http : Http)
    (c2 : C2Data) (hrec : recoverStage dec.cfg http = .ok c2) (hmeta : truthy c2.metadata = false)
    (pkts : List C05.Packet) (hfr : frames (isRequest http) c2.output = (pkts, none)) :
    (iterRecoverMsg c dec none http).items = [] ∧
      (iterRecoverMsg c dec none http).exc = (if pkts = [] then none else some (.py .valueError)) ∧
      (iterRecoverMsg c dec none http).dec = dec := by
  obtain ⟨h1, h2, h3⟩ := iterRecoverMsg_packets c dec http c2 hrec hmeta
  obtain ⟨u1, u2, _⟩ := inv.keysUnknown rfl
  have hk : dec.keys = ⟨none, none, dec.keys.iv⟩ := by
    cases hkk : dec.keys with
    | mk a h iv => rw [hkk] at u1 u2; simp only at u1 u2; rw [u1, u2]
  rw [hfr, hk] at h1 h2
  cases pkts with
  | nil =>
    simp only [decodePackets] at h1 h2
    exact ⟨h1, by simpa using h2, h3⟩
  | cons p ps =>
    obtain ⟨d1, d2, _⟩ := decodePackets_nokeys c dec.keys.iv dec.verify (isRequest http) p ps
    rw [d1] at h1
    rw [d2] at h2
    exact ⟨h1, by simpa using h2, h3⟩

/-! ### the wire: parse ∘ render is the identity on well-formed message objects (C16) -/

/-- the hypotheses of C16's round-trip theorems for a message object -/
def MsgWireOk : Http → Prop
  | .request r => C16.WellFormedReq httpVersion r.method r.uri r.params r.headers
  | .response hs _ => C16.WellFormedHeaders hs

theorem parse_wireOf (h : Http) (hw : MsgWireOk h) : parseInput (.raw (wireOf h)) = .ok h := by
  cases h with
  | request r =>
    have hr := C16.request_roundtrip httpVersion r.method r.uri r.params r.headers r.body hw
    simp only [parseInput, wireOf, wireRequest, hr, ofPy, Except.map, msgToHttp]
  | response hs b =>
    have hr : C16.WellFormedResp httpVersion [50, 48, 48] [79, 75] hs :=
      ⟨by decide, by decide, ⟨by decide, by decide, by decide⟩, by decide, hw⟩
    simp only [parseInput, wireOf, wireResponse, C16.response_roundtrip _ _ _ _ _ hr, ofPy, Except.map, msgToHttp]

theorem iterRecoverHttp_msg (c : Crypto) (dec : Decoder) (h : Http) :
    iterRecoverHttp c dec (.msg h) = iterRecoverMsg c dec none h := rfl

theorem iterRecoverHttp_wire (c : Crypto) (dec : Decoder) (h : Http) (hw : MsgWireOk h) :
    iterRecoverHttp c dec (.raw (wireOf h)) = iterRecoverMsg c dec none h := by
  simp only [iterRecoverHttp, parse_wireOf h hw]

theorem decodeAll_wire (c : Crypto) (dec : Decoder) (msgs : List Http) (hw : ∀ m ∈ msgs, MsgWireOk m) :
    decodeAll c dec (msgs.map fun m => .raw (wireOf m)) = decodeAll c dec (msgs.map Input.msg) := by
  induction msgs generalizing dec with
  | nil => rfl
  | cons m ms ih =>
    simp only [List.map_cons, decodeAll, iterRecoverHttp_wire c dec m (hw m (by simp)), iterRecoverHttp_msg]
    rw [ih _ (fun m' h' => hw m' (by simp [h']))]

/-! ### sessions -/

/-- what a history may contain: tasks whose size field is right, callback counters / ids / lengths that fit 32 bits -/
def EventOk (counter : Nat) : Event → Prop
  | .checkin _ _ => True
  | .task none _ => True
  | .task (some t) _ => TaskOk t
  | .callbacks cbs _ => counter + cbs.length < 2 ^ 32 ∧ ∀ cb ∈ cbs, cb.1 < 2 ^ 32 ∧ cb.2.length + 64 < 2 ^ 32

/-- the client's callback counter after an event -/
def counterAfter (counter : Nat) : Event → Nat
  | .callbacks cbs _ => counter + cbs.length
  | _ => counter

def EventsOk : Nat → List Event → Prop
  | _, [] => True
  | n, ev :: evs => EventOk n ev ∧ EventsOk (counterAfter n ev) evs

/-- What decoding the message of one event must give: `sent` = the packets sent in it.  A check-in yields its metadata iff
the RSA private key is there; tasks and callbacks are yielded iff the session keys are known, else ValueError and nothing. -/
def expected (hasPriv known : Bool) (sent : List Item) : Event → List Item × Option Exc
  | .checkin _ _ => (if hasPriv then sent else [], none)
  | _ => if known || sent.isEmpty then (sent, none) else ([], some (.py .valueError))

/-- the keys are known after the first check-in seen by a decoder that has the RSA private key -/
def knownAfter (hasPriv known : Bool) : Event → Bool
  | .checkin _ _ => known || hasPriv
  | _ => known

def expectedTrace (hasPriv : Bool) : Bool → List Event → List (Http × List Item) → List (List Item × Option Exc)
  | known, ev :: evs, (_, sent) :: rest =>
    expected hasPriv known sent ev :: expectedTrace hasPriv (knownAfter hasPriv known ev) evs rest
  | _, _, _ => []

theorem packet_roundtrip (c : Crypto) (L : CryptoLaws c) (k hk : Bytes) (hk16 : k.length = 16) (hne : hk ≠ [])
    (verify : Bool) (pt : Bytes) :
    ∃ pkt, C05.encryptPacket c.sym pt (some k) (some hk) Gen.C2Struct.defaultAesIv = .ok pkt ∧
      pkt.signature.length = 16 ∧
      (C05.decryptPacketT c.sym pkt (some k) (some hk) Gen.C2Struct.defaultAesIv verify).1 = .ok (C05.pad pt) := by
  obtain ⟨ct, _, _, hct3, hct4⟩ := C05.encrypt_packet_ok c.sym L.sym pt k hk Gen.C2Struct.defaultAesIv
    (Or.inl hk16) defaultIv_length
  have hsig : (C05.mac16 c.sym hk ct).length = 16 := by
    simp only [C05.mac16, List.length_take, L.sym.hmac_len]; rfl
  refine ⟨⟨ct, C05.mac16 c.sym hk ct⟩, by simp [C05.encryptPacket, hct4], hsig, ?_⟩
  show C05.decryptPacket c.sym ⟨ct, C05.mac16 c.sym hk ct⟩ (some k) (some hk) Gen.C2Struct.defaultAesIv verify = .ok _
  cases verify with
  | true =>
    rw [C05.verify_decision, if_pos ⟨hne, rfl⟩]
    simpa [C05.decryptData, C05.decryptDataT] using hct3
  | false => simpa [C05.decryptPacket, C05.decryptPacketT, C05.decryptDataT] using hct3

theorem wellFormedClient_sent (c : Crypto) (cl : Client) (wc : WellFormedClient c cl) :
    WellFormedClient c { cl with metadata := sentMetadata cl } :=
  ⟨C06.inWidth_setSize _ _ wc.inWidth wc.infoSmall, wc.aesLen, wc.magic, wc.fits, wc.infoSmall, wc.keys, wc.getUri⟩

theorem wellFormedClient_counter (c : Crypto) (cl : Client) (wc : WellFormedClient c cl) (n : Nat) :
    WellFormedClient c { cl with counter := n } :=
  ⟨wc.inWidth, wc.aesLen, wc.magic, wc.fits, wc.infoSmall, wc.keys, wc.getUri⟩

theorem inv_counter (c : Crypto) (cl : Client) (dec : Decoder) (known : Bool) (inv : Inv c cl dec known) (n : Nat) :
    Inv c { cl with counter := n } dec known :=
  ⟨inv.cfg, inv.cacheOk, inv.keysKnown, inv.keysUnknown⟩

/-- a check-in: the request the client builds, and the decoder's reaction to it -/
theorem emit_checkin (c : Crypto) (L : CryptoLaws c) {cfg : HttpCfg} {pg pp : Program} {es : List Enc}
    (wf : WellFormedCfg cfg pg pp es) (hs : Dict) (cl : Client) (hcl : cl.cfg = cfg) (wc : WellFormedClient c cl)
    (dec : Decoder) (known : Bool) (inv : Inv c cl dec known) (rr : C06.Rand) (rand : C04.Rand) :
    ∃ r, emit c ⟨cl, es, hs⟩ (.checkin rr rand) =
        .ok (.request r, ⟨{ cl with metadata := sentMetadata cl }, es, hs⟩, [.metadata (sentMetadata cl)]) ∧
      r.method = cfg.getVerb ∧ r.uri = cl.getUri ∧
      (iterRecoverMsg c dec none (.request r)).items = (if dec.hasPriv then [.metadata (sentMetadata cl)] else []) ∧
      (iterRecoverMsg c dec none (.request r)).exc = none ∧
      Inv c { cl with metadata := sentMetadata cl } (iterRecoverMsg c dec none (.request r)).dec (known || dec.hasPriv) ∧
      (iterRecoverMsg c dec none (.request r)).dec.hasPriv = dec.hasPriv ∧
      (iterRecoverMsg c dec none (.request r)).dec.verify = dec.verify := by
  obtain ⟨r, blob, h1, h2, h3, h4, h5, h6⟩ := checkin_request c L wf cl hcl wc rr rand
  have hn : normalise pg ⟨none, some blob, none⟩ =
      ⟨(normalise pg ⟨none, some blob, none⟩).output, some blob, (normalise pg ⟨none, some blob, none⟩).id⟩ := by
    have : (normalise pg ⟨none, some blob, none⟩).metadata = some blob := by
      rw [normalise_metadata, wf.getMeta]; rfl
    calc normalise pg ⟨none, some blob, none⟩
        = ⟨(normalise pg ⟨none, some blob, none⟩).output, (normalise pg ⟨none, some blob, none⟩).metadata,
            (normalise pg ⟨none, some blob, none⟩).id⟩ := rfl
      _ = _ := by rw [this]
  have hout : (normalise pg ⟨none, some blob, none⟩).output = none ∨ (normalise pg ⟨none, some blob, none⟩).output = some [] := by
    rw [normalise_output]
    cases built pg .output
    · exact Or.inl rfl
    · exact Or.inr rfl
  rw [hn, ← hcl, ← inv.cfg] at h4
  obtain ⟨s1, s2, s3, s4, s5⟩ := checkin_step c L cl dec known inv r blob _ _ h4 hout h5 h6
  refine ⟨r, ?_, h2, h3, s1, s2, s3, s4, s5⟩
  simp only [emit, h1, Except.map]

theorem frames_response_single (ct sig : Bytes) (hs : sig.length = 16) :
    frames false (some (ct ++ sig)) = ([⟨ct, sig⟩], none) := by
  simp only [frames, Bool.false_eq_true, if_false, C05.server_frame_roundtrip ct sig hs]

theorem frames_response_empty : frames false (some []) = ([], none) := rfl

/-- a server response (a task or nothing): the body the reference team server sends, and the decoder's reaction -/
theorem emit_task (c : Crypto) (L : CryptoLaws c) {cfg : HttpCfg} {pg pp : Program} {es : List Enc}
    (wf : WellFormedCfg cfg pg pp es) (hs : Dict) (cl : Client) (hcl : cl.cfg = cfg) (wc : WellFormedClient c cl)
    (dec : Decoder) (known : Bool) (inv : Inv c cl dec known) (t : Option Task) (rand : C04.Rand)
    (ht : ∀ t', t = some t' → TaskOk t') :
    ∃ body, emit c ⟨cl, es, hs⟩ (.task t rand) =
        .ok (.response hs body, ⟨cl, es, hs⟩, (match t with | none => [] | some t' => [.task t'])) ∧
      ((iterRecoverMsg c dec none (.response hs body)).items, (iterRecoverMsg c dec none (.response hs body)).exc) =
        expected dec.hasPriv known (match t with | none => [] | some t' => [.task t']) (.task t rand) ∧
      (iterRecoverMsg c dec none (.response hs body)).dec = dec := by
  cases t with
  | none =>
    refine ⟨_, rfl, ?_⟩
    have hrec : recoverStage dec.cfg (.response hs
        (C04.Ref.encode [.block ⟨.output, es, .print⟩] rand ⟨some [], none, none⟩ C04.emptyReq).body) =
        .ok ⟨some [], none, none⟩ := by
      rw [inv.cfg, hcl]; exact server_body_recover wf [] rand hs
    cases known with
    | true =>
      obtain ⟨a, b, d⟩ := packets_step_known c cl dec inv _ _ hrec rfl [] frames_response_empty [] ⟨rfl, rfl⟩
      exact ⟨by rw [a, b]; rfl, d⟩
    | false =>
      obtain ⟨a, b, d⟩ := packets_step_unknown c cl dec inv _ _ hrec rfl [] frames_response_empty
      exact ⟨by rw [a, b]; rfl, d⟩
  | some t =>
    have htk := ht t rfl
    obtain ⟨k, hk, hkeys, hk16, hhk16⟩ := sessionKeys_facts c L cl
    have hne : hk ≠ [] := by intro h0; rw [h0] at hhk16; cases hhk16
    obtain ⟨pkt, e1, e2, e3⟩ := packet_roundtrip c L k hk hk16 hne dec.verify
      (u32be t.epoch ++ (u32be t.totalSize ++ (u32be t.command ++ (u32be t.size ++ t.data))))
    refine ⟨(C04.Ref.encode [.block ⟨.output, es, .print⟩] rand ⟨some (pkt.ciphertext ++ pkt.signature), none, none⟩
      C04.emptyReq).body, ?_, ?_⟩
    · simp only [emit, task_dumps_ok t htk, serverBody, wc.keys, hkeys, e1, ofPy, Except.map]
    · have hrec : recoverStage dec.cfg (.response hs
          (C04.Ref.encode [.block ⟨.output, es, .print⟩] rand ⟨some (pkt.ciphertext ++ pkt.signature), none, none⟩
            C04.emptyReq).body) = .ok ⟨some (pkt.ciphertext ++ pkt.signature), none, none⟩ := by
        rw [inv.cfg, hcl]; exact server_body_recover wf _ rand hs
      have hfr := frames_response_single pkt.ciphertext pkt.signature e2
      cases known with
      | true =>
        have hparse : parseItem false (C05.pad (u32be t.epoch ++ (u32be t.totalSize ++ (u32be t.command ++ (u32be t.size ++ t.data)))))
            = .ok (.task t) := by
          obtain ⟨kpad, hp1, _⟩ := C05.pad_spec (u32be t.epoch ++ (u32be t.totalSize ++ (u32be t.command ++ (u32be t.size ++ t.data))))
          rw [hp1]
          simp only [parseItem, Bool.false_eq_true, if_false, parseTask_dumps t _ htk, Except.map]
        have hd := decodePackets_cons_ok c (sessionKeys c cl) dec.verify false ⟨pkt.ciphertext, pkt.signature⟩ [] _ _
          (by rw [hkeys]; exact e3) hparse
        obtain ⟨a, b, d⟩ := packets_step_known c cl dec inv _ _ hrec rfl _ hfr [.task t]
          ⟨by show (decodePackets c (sessionKeys c cl) dec.verify false _).items = _; rw [hd.1]; rfl,
           by show (decodePackets c (sessionKeys c cl) dec.verify false _).exc = _; rw [hd.2]; rfl⟩
        exact ⟨by rw [a, b]; rfl, d⟩
      | false =>
        obtain ⟨a, b, d⟩ := packets_step_unknown c cl dec inv _ _ hrec rfl _ hfr
        exact ⟨by rw [a, b]; rfl, d⟩

/-- a POST with callbacks: the request the client builds, and the decoder's reaction -/
theorem emit_callbacks (c : Crypto) (L : CryptoLaws c) {cfg : HttpCfg} {pg pp : Program} {es : List Enc}
    (wf : WellFormedCfg cfg pg pp es) (hs : Dict) (cl : Client) (hcl : cl.cfg = cfg) (wc : WellFormedClient c cl)
    (dec : Decoder) (known : Bool) (inv : Inv c cl dec known) (cbs : List (Nat × Bytes)) (rand : C04.Rand)
    (hc : cl.counter + cbs.length < 2 ^ 32) (hcb : ∀ cb ∈ cbs, cb.1 < 2 ^ 32 ∧ cb.2.length + 64 < 2 ^ 32) :
    ∃ r, emit c ⟨cl, es, hs⟩ (.callbacks cbs rand) =
        .ok (.request r, ⟨{ cl with counter := cl.counter + cbs.length }, es, hs⟩,
          (callbackPackets cl.counter cbs).map Item.callback) ∧
      r.method = cfg.submitVerb ∧ r.uri = cfg.submitUri ∧
      ((iterRecoverMsg c dec none (.request r)).items, (iterRecoverMsg c dec none (.request r)).exc) =
        expected dec.hasPriv known ((callbackPackets cl.counter cbs).map Item.callback) (.callbacks cbs rand) ∧
      (iterRecoverMsg c dec none (.request r)).dec = dec := by
  obtain ⟨r, out, pkts, h1, h2, h3, h4, h5, h6, h7, h8⟩ := callback_request c L wf cl hcl wc cbs rand dec.verify hc hcb
  refine ⟨r, by simp only [emit, h1, Except.map], h2, h3, ?_⟩
  have hmeta : truthy (normalise pp ⟨some out, none, some (idBytes cl)⟩).metadata = false := by
    rw [normalise_metadata]
    cases built pp .metadata <;> rfl
  have hout : (normalise pp ⟨some out, none, some (idBytes cl)⟩).output = some out := by
    rw [normalise_output, wf.postOutput]; rfl
  have hfr : frames (isRequest (.request r)) (normalise pp ⟨some out, none, some (idBytes cl)⟩).output = (pkts, none) := by
    rw [hout]; exact h5
  rw [← hcl, ← inv.cfg] at h4
  cases known with
  | true =>
    obtain ⟨a, b, d⟩ := packets_step_known c cl dec inv _ _ h4 hmeta pkts hfr _ ⟨h7, h8⟩
    exact ⟨by rw [a, b]; rfl, d⟩
  | false =>
    obtain ⟨a, b, d⟩ := packets_step_unknown c cl dec inv _ _ h4 hmeta pkts hfr
    refine ⟨?_, d⟩
    rw [a, b]
    have hl := callbackPackets_length cl.counter cbs
    cases cbs with
    | nil =>
      have : pkts = [] := by cases pkts with
        | nil => rfl
        | cons _ _ => simp at h6
      simp [this, expected, callbackPackets]
    | cons cb rest =>
      have : pkts ≠ [] := by intro h0; rw [h0] at h6; simp at h6
      obtain ⟨i, d⟩ := cb
      simp [this, expected, callbackPackets]

theorem emitAll_cons_ok (c : Crypto) (s s' : Sender) (ev : Event) (evs : List Event) (h : Http) (sent : List Item)
    (msgs : List (Http × List Item)) (h1 : emit c s ev = .ok (h, s', sent)) (h2 : emitAll c s' evs = .ok msgs) :
    emitAll c s (ev :: evs) = .ok ((h, sent) :: msgs) := by
  simp only [emitAll, h1, h2, Except.map]

theorem decodeAll_cons (c : Crypto) (dec : Decoder) (h : Http) (rest : List Input) :
    (decodeAll c dec (.msg h :: rest)).1 =
      iterRecoverMsg c dec none h :: (decodeAll c (iterRecoverMsg c dec none h).dec rest).1 := rfl

/-- the history theorem at the level of message objects, by induction over the events -/
theorem session_induction (c : Crypto) (L : CryptoLaws c) {cfg : HttpCfg} {pg pp : Program} {es : List Enc}
    (wf : WellFormedCfg cfg pg pp es) (hs : Dict) :
    ∀ (evs : List Event) (cl : Client) (dec : Decoder) (known : Bool),
      cl.cfg = cfg → WellFormedClient c cl → Inv c cl dec known → EventsOk cl.counter evs →
      ∃ msgs, emitAll c ⟨cl, es, hs⟩ evs = .ok msgs ∧
        (decodeAll c dec (msgs.map fun m => Input.msg m.1)).1.map (fun o => (o.items, o.exc)) =
          expectedTrace dec.hasPriv known evs msgs := by
  intro evs
  induction evs with
  | nil => intro cl dec known _ _ _ _; exact ⟨[], rfl, rfl⟩
  | cons ev evs ih =>
    intro cl dec known hcl wc inv hok
    obtain ⟨hev, hrest⟩ := hok
    cases ev with
    | checkin rr rand =>
      obtain ⟨r, e1, _, _, s1, s2, s3, s4, _⟩ := emit_checkin c L wf hs cl hcl wc dec known inv rr rand
      obtain ⟨msgs, m1, m2⟩ := ih { cl with metadata := sentMetadata cl } _ _ hcl (wellFormedClient_sent c cl wc) s3 hrest
      refine ⟨_, emitAll_cons_ok c _ _ _ evs _ _ msgs e1 m1, ?_⟩
      rw [List.map_cons, decodeAll_cons, List.map_cons, m2, s4]
      simp only [expectedTrace, expected, knownAfter, s1, s2]
    | task t rand =>
      obtain ⟨body, e1, e2, e3⟩ := emit_task c L wf hs cl hcl wc dec known inv t rand
        (fun t' ht' => by subst ht'; exact hev)
      rw [← e3] at inv
      obtain ⟨msgs, m1, m2⟩ := ih cl _ known hcl wc inv hrest
      refine ⟨_, emitAll_cons_ok c _ _ _ evs _ _ msgs e1 m1, ?_⟩
      rw [List.map_cons, decodeAll_cons, List.map_cons, m2, e3]
      simp only [expectedTrace, knownAfter, e2]
    | callbacks cbs rand =>
      obtain ⟨r, e1, _, _, e2, e3⟩ := emit_callbacks c L wf hs cl hcl wc dec known inv cbs rand hev.1 hev.2
      rw [← e3] at inv
      obtain ⟨msgs, m1, m2⟩ := ih { cl with counter := cl.counter + cbs.length } _ known hcl
        (wellFormedClient_counter c cl wc _) (inv_counter c cl _ known inv _) hrest
      refine ⟨_, emitAll_cons_ok c _ _ _ evs _ _ msgs e1 m1, ?_⟩
      rw [List.map_cons, decodeAll_cons, List.map_cons, m2, e3]
      simp only [expectedTrace, knownAfter, e2]

/-! ### the three kinds of sufficient key material give a decoder satisfying the invariant -/

theorem mkDecoder_rsa (c : Crypto) (cl : Client) (verify : Bool) :
    ∃ dec, mkDecoder c cl.cfg { priv := some true, verify := verify } true false = .ok dec ∧
      Inv c cl dec false ∧ dec.hasPriv = true ∧ dec.verify = verify :=
  ⟨_, rfl, ⟨rfl, fun _ _ h => (by cases h), fun h => (by cases h), fun _ => ⟨rfl, rfl, rfl⟩⟩, rfl, rfl⟩

theorem truthy_none : truthy none = false := rfl

theorem any_length_ne_false (b : Bytes) (h : b.length = 16) : (some b).any (fun x => x.length != 16) = false := by
  simp [h]

theorem mkDecoder_keys (c : Crypto) (L : CryptoLaws c) (cl : Client) (verify : Bool) (priv : Bool) :
    ∃ k hk dec, sessionKeys c cl = ⟨some k, some hk, Gen.C2Struct.defaultAesIv⟩ ∧
      mkDecoder c cl.cfg { aesKey := some k, hmacKey := some hk, priv := if priv then some true else none, verify := verify }
        true false = .ok dec ∧
      Inv c cl dec true ∧ dec.hasPriv = priv ∧ dec.verify = verify := by
  obtain ⟨k, hk, hkeys, h1, h2⟩ := sessionKeys_facts c L cl
  have t1 : truthy (some k) = true := truthy_some_ne (by intro h0; rw [h0] at h1; cases h1)
  refine ⟨k, hk, ⟨cl.cfg, ⟨some k, some hk, Gen.C2Struct.defaultAesIv⟩, priv, verify, []⟩, hkeys, ?_,
    ⟨rfl, fun _ _ h => (by cases h), fun _ => hkeys.symm, fun h => (by cases h)⟩, rfl, rfl⟩
  cases priv <;>
    simp [mkDecoder, t1, any_length_ne_false k h1, any_length_ne_false hk h2, truthy_none]

theorem mkDecoder_rand (c : Crypto) (L : CryptoLaws c) (cl : Client) (hlen : cl.metadata.aes_rand.length = 16)
    (verify : Bool) (priv : Bool) :
    ∃ dec, mkDecoder c cl.cfg { aesRand := some cl.metadata.aes_rand, priv := if priv then some true else none, verify := verify }
        true false = .ok dec ∧
      Inv c cl dec true ∧ dec.hasPriv = priv ∧ dec.verify = verify := by
  obtain ⟨k, hk, hkeys, h1, h2⟩ := sessionKeys_facts c L cl
  have t1 : truthy (some cl.metadata.aes_rand) = true := truthy_some_ne (by intro h0; rw [h0] at hlen; cases hlen)
  have hk' : (C06.deriveKeys c.asym cl.metadata.aes_rand).1 = k ∧ (C06.deriveKeys c.asym cl.metadata.aes_rand).2 = hk := by
    simp only [sessionKeys, derivedKeys] at hkeys
    injection hkeys with a b _
    injection a with a
    injection b with b
    exact ⟨a, b⟩
  refine ⟨⟨cl.cfg, ⟨some k, some hk, Gen.C2Struct.defaultAesIv⟩, priv, verify, []⟩, ?_,
    ⟨rfl, fun _ _ h => (by cases h), fun _ => hkeys.symm, fun h => (by cases h)⟩, rfl, rfl⟩
  cases priv <;>
    simp [mkDecoder, t1, hk'.1, hk'.2, any_length_ne_false k h1, any_length_ne_false hk h2, truthy_none]

/-! ### the wire form of what the client transforms produce: encoder outputs -/

/-- CR-freeness of the output of an encoder chain, whatever the payload: tracks whether the data is known to be CR-free
(`base64`, `base64url`, `netbios`, `netbiosu` make it so, `mask` destroys it, prepend/append keep it iff their string is
CR-free).  This is the "printable placement" condition needed for header terminations. -/
def cleanGo : Bool → List Enc → Bool
  | clean, [] => clean
  | clean, .append a :: es => cleanGo (clean && C16.noCR a.toBytes) es
  | clean, .prepend a :: es => cleanGo (clean && C16.noCR a.toBytes) es
  | _, .base64 :: es => cleanGo true es
  | _, .base64url :: es => cleanGo true es
  | _, .netbios :: es => cleanGo true es
  | _, .netbiosu :: es => cleanGo true es
  | _, .mask :: es => cleanGo false es

def cleanOut (es : List Enc) : Bool := cleanGo false es

theorem noCR_append (a b : Bytes) : C16.noCR (a ++ b) = (C16.noCR a && C16.noCR b) := by
  simp [C16.noCR, List.all_append]

theorem alpha_ne_cr : ∀ n, n < 64 → ∀ u, C04.Ref.alpha u n ≠ 13 := by decide

theorem noCR_b64chars (url : Bool) (x : Bytes) : C16.noCR (C04.Ref.b64chars url x) = true := by
  rw [C16.noCR_iff]
  intro b hb
  simp only [C04.Ref.b64chars, List.mem_map] at hb
  obtain ⟨s, hs, rfl⟩ := hb
  exact alpha_ne_cr s (C04.sextets_lt x s hs) url

theorem noCR_replicate61 (k : Nat) : C16.noCR (List.replicate k 61) = true := by
  rw [C16.noCR_iff]
  intro b hb
  rw [List.mem_replicate] at hb
  rw [hb.2]; decide

theorem ofNat_ne_cr (n : Nat) (h1 : 14 ≤ n) (h2 : n < 256) : UInt8.ofNat n ≠ 13 := by
  intro h
  have := congrArg UInt8.toNat h
  simp at this
  omega

theorem noCR_nbEnc (base : Nat) (hb1 : 14 ≤ base) (hb2 : base ≤ 240) (x : Bytes) : C16.noCR (C04.Ref.nbEnc base x) = true := by
  rw [C16.noCR_iff]
  intro b hb
  simp only [C04.Ref.nbEnc, List.mem_flatMap, List.mem_cons, List.not_mem_nil, or_false] at hb
  obtain ⟨c, _, rfl | rfl⟩ := hb
  · have := c.toNat_lt; exact ofNat_ne_cr _ (by omega) (by omega)
  · have := c.toNat_lt; exact ofNat_ne_cr _ (by omega) (by omega)

/-- one statement: the data is CR-free afterwards if the tracking says so -/
theorem enc1_clean (e : Enc) (x w : Bytes) (clean : Bool) (h : C04.Enc1 e x w) (hx : clean = true → C16.noCR x = true) :
    ∀ es, cleanGo clean (e :: es) = true → ∃ clean', cleanGo clean (e :: es) = cleanGo clean' es ∧
      (clean' = true → C16.noCR w = true) := by
  intro es _
  rcases h with ⟨r, rfl⟩ | ⟨rfl, rfl⟩
  · cases e with
    | append a =>
      refine ⟨clean && C16.noCR a.toBytes, rfl, fun hc => ?_⟩
      simp only [Bool.and_eq_true] at hc
      simp only [C04.Ref.encStep, noCR_append, hx hc.1, hc.2, Bool.and_self]
    | prepend a =>
      refine ⟨clean && C16.noCR a.toBytes, rfl, fun hc => ?_⟩
      simp only [Bool.and_eq_true] at hc
      simp only [C04.Ref.encStep, noCR_append, hx hc.1, hc.2, Bool.and_self]
    | base64 =>
      refine ⟨true, rfl, fun _ => ?_⟩
      simp only [C04.Ref.encStep, C04.Ref.b64enc, noCR_append, noCR_b64chars, noCR_replicate61, Bool.and_self]
    | base64url => exact ⟨true, rfl, fun _ => noCR_b64chars true x⟩
    | netbios => exact ⟨true, rfl, fun _ => noCR_nbEnc 97 (by omega) (by omega) x⟩
    | netbiosu => exact ⟨true, rfl, fun _ => noCR_nbEnc 65 (by omega) (by omega) x⟩
    | mask => exact ⟨false, rfl, fun h => by cases h⟩
  · refine ⟨true, rfl, fun _ => ?_⟩
    simp only [C04.Ref.b64urlenc, noCR_append, noCR_b64chars, noCR_replicate61, Bool.and_self]

theorem encN_clean (es : List Enc) (x v : Bytes) (clean : Bool) (h : C04.EncN es x v)
    (hx : clean = true → C16.noCR x = true) (hc : cleanGo clean es = true) : C16.noCR v = true := by
  induction es generalizing x clean with
  | nil => simp only [C04.EncN] at h; subst h; exact hx hc
  | cons e es ih =>
    obtain ⟨w, h1, h2⟩ := h
    obtain ⟨clean', e1, e2⟩ := enc1_clean e x w clean h1 hx es hc
    exact ih w clean' h2 e2 (by rw [← e1]; exact hc)

theorem sextets_ne_nil (x : Bytes) (h : x ≠ []) : C04.Ref.sextets x ≠ [] := by
  match x, h with
  | [_], _ => simp [C04.Ref.sextets]
  | [_, _], _ => simp [C04.Ref.sextets]
  | _ :: _ :: _ :: _, _ => simp [C04.Ref.sextets]

theorem enc1_nonempty (e : Enc) (x w : Bytes) (h : C04.Enc1 e x w) (hx : x ≠ []) : w ≠ [] := by
  have hs := sextets_ne_nil x hx
  rcases h with ⟨r, rfl⟩ | ⟨rfl, rfl⟩
  · cases e with
    | append a => simp [C04.Ref.encStep, hx]
    | prepend a => simp [C04.Ref.encStep, hx]
    | base64 => simp [C04.Ref.encStep, C04.Ref.b64enc, C04.Ref.b64chars, hs]
    | base64url => simp [C04.Ref.encStep, C04.Ref.b64urlenc, C04.Ref.b64chars, hs]
    | netbios =>
      cases x with
      | nil => exact absurd rfl hx
      | cons a t => simp [C04.Ref.encStep, C04.Ref.nbEnc]
    | netbiosu =>
      cases x with
      | nil => exact absurd rfl hx
      | cons a t => simp [C04.Ref.encStep, C04.Ref.nbEnc]
    | mask => simp [C04.Ref.encStep, C04.Ref.key32]
  · simp [C04.Ref.b64urlenc, C04.Ref.b64chars, hs]

theorem encN_nonempty (es : List Enc) (x v : Bytes) (h : C04.EncN es x v) (hx : x ≠ []) : v ≠ [] := by
  induction es generalizing x with
  | nil => simp only [C04.EncN] at h; subst h; exact hx
  | cons e es ih =>
    obtain ⟨w, h1, h2⟩ := h
    exact ih w h2 (enc1_nonempty e x w h1 hx)

/-! ### the wire form of what the client transforms produce: dictionaries -/

theorem set_keys (d : Dict) (k v : Bytes) :
    (d.set k v).map Prod.fst = if k ∈ d.map Prod.fst then d.map Prod.fst else d.map Prod.fst ++ [k] := by
  induction d with
  | nil => simp [C04.Dict.set]
  | cons kv rest ih =>
    obtain ⟨k', v'⟩ := kv
    by_cases h : k' = k
    · subst h; simp [C04.Dict.set]
    · have h' : ¬ k = k' := fun e => h e.symm
      simp only [C04.Dict.set, h, if_false, List.map_cons, ih, List.mem_cons, h', false_or]
      split <;> simp

theorem set_keys_nodup (d : Dict) (k v : Bytes) (h : (d.map Prod.fst).Nodup) : ((d.set k v).map Prod.fst).Nodup := by
  rw [set_keys]
  split
  · exact h
  · rename_i hk
    exact List.nodup_append.2 ⟨h, by simp, fun a ha b hb => by
      rw [List.mem_singleton] at hb; subst hb; exact fun e => hk (e ▸ ha)⟩

theorem mem_set (d : Dict) (k v : Bytes) (p : Bytes × Bytes) (h : p ∈ d.set k v) : p = (k, v) ∨ p ∈ d := by
  induction d with
  | nil => simp only [C04.Dict.set, List.mem_singleton] at h; exact Or.inl h
  | cons kv rest ih =>
    obtain ⟨k', v'⟩ := kv
    by_cases hk : k' = k
    · subst hk
      simp only [C04.Dict.set, if_true, List.mem_cons] at h
      rcases h with h | h
      · exact Or.inl h
      · exact Or.inr (by simp [h])
    · simp only [C04.Dict.set, hk, if_false, List.mem_cons] at h
      rcases h with h | h
      · exact Or.inr (by simp [h])
      · rcases ih h with h | h
        · exact Or.inl h
        · exact Or.inr (by simp [h])

/-- what C16's request round trip needs of the two dictionaries -/
structure DictsOk (params headers : Dict) : Prop where
  pk : (params.map Prod.fst).Nodup
  pv : ∀ p ∈ params, p.2 ≠ []
  hk : (headers.map Prod.fst).Nodup
  hv : ∀ h ∈ headers, C16.wellFormedHeader h = true

theorem dictsOk_setParam {ps hs : Dict} (h : DictsOk ps hs) (k v : Bytes) (hv : v ≠ []) : DictsOk (ps.set k v) hs :=
  ⟨set_keys_nodup ps k v h.pk, fun p hp => by
    rcases mem_set ps k v p hp with rfl | hp
    · exact hv
    · exact h.pv p hp, h.hk, h.hv⟩

theorem dictsOk_setHeader {ps hs : Dict} (h : DictsOk ps hs) (k v : Bytes) (hw : C16.wellFormedHeader (k, v) = true) :
    DictsOk ps (hs.set k v) :=
  ⟨h.pk, h.pv, set_keys_nodup hs k v h.hk, fun p hp => by
    rcases mem_set hs k v p hp with rfl | hp
    · exact hw
    · exact h.hv p hp⟩

/-- which field a block of this program may carry -/
def itemWireOk (allowed : Field → Bool) : C04.Ref.Item → Bool
  | .deco (.header n v) => C16.wellFormedHeader (n, v)
  | .deco (.hostheader n v) => C16.wellFormedHeader (n, v)
  | .deco (.parameter _ v) => !v.isEmpty
  | .block b =>
    allowed b.field &&
    match b.term with
    | .header k => C16.wellFormedHeader (k, []) && cleanOut b.encs
    | .parameter _ => true
    | .print => true
    | .uriAppend => false

/-- Printable placements: static headers are well-formed header lines, static parameters have non-empty values, a block
terminating in `header` has a well-formed header name and an encoder chain with CR-free output, no uri-append. -/
def progWireOk (allowed : Field → Bool) (p : Program) : Bool := p.all (itemWireOk allowed)

theorem wellFormedHeader_value (k v : Bytes) (hk : C16.wellFormedHeader (k, []) = true) (hv : C16.noCR v = true) :
    C16.wellFormedHeader (k, v) = true := by
  simp only [C16.wellFormedHeader, Bool.and_eq_true] at hk ⊢
  exact ⟨hk.1, hv⟩

/-- a block run in one piece: the data placed is an admissible encoding of the payload -/
theorem block_run (c2 : C2Data) (b : C04.Ref.Block) (s : C04.TSt) :
    ∃ v r', C04.EncN b.encs (C04.payload c2 b.field) v ∧
      C04.runT c2 b.toSteps s = C04.tstep c2 (.term b.term) { s with data := v, rand := r' } := by
  obtain ⟨v, r', hc, hN⟩ := C04.encChain_spec b.encs s.rand (C04.payload c2 b.field)
  refine ⟨v, r', hN, ?_⟩
  have h0 : C04.runT c2 (Step.build (some b.field) :: b.encs.map Step.enc) s
      = .ok { s with data := v, rand := r' } := by
    rw [C04.runT]
    show (Except.ok ({ s with data := C04.payload c2 b.field } : C04.TSt)).bind _ = _
    simp only [Except.bind]
    rw [C04.runT_encs]
    simp [hc, Except.map]
  rw [C04.Ref.Block.toSteps, C04.runT_append, h0]
  simp only [Except.bind]
  rw [C04.runT_single]

theorem transform_dictsOk (c2 : C2Data) (allowed : Field → Bool) (p : Program) (hv : valid p = true)
    (hw : progWireOk allowed p = true) (hpay : ∀ f, allowed f = true → C04.payload c2 f ≠ []) :
    ∀ (s s' : C04.TSt), DictsOk s.params s.headers → C04.runT c2 (compile p) s = .ok s' → DictsOk s'.params s'.headers := by
  induction p with
  | nil => intro s s' hs h; simp only [compile, C04.runT, Except.ok.injEq] at h; subst h; exact hs
  | cons it rest ih =>
    intro s s' hs h
    simp only [progWireOk, List.all_cons, Bool.and_eq_true] at hw
    obtain ⟨hit, hrest⟩ := hw
    cases it with
    | deco d =>
      obtain ⟨hn, hv2⟩ := C04.valid_cons_deco hv
      simp only [compile, C04.runT] at h
      cases d with
      | header n v =>
        have hp := C04.partition_name 58 [32] n v (by simpa [C04.Ref.Deco.nameOk] using hn)
        simp only [List.cons_append, List.nil_append] at hp
        simp only [C04.Ref.Deco.toStep, C04.tstep, List.append_assoc, List.cons_append, List.nil_append, hp, Except.bind] at h
        exact ih hv2 hrest _ s' (dictsOk_setHeader hs n v hit) h
      | hostheader n v =>
        have hp := C04.partition_name 58 [32] n v (by simpa [C04.Ref.Deco.nameOk] using hn)
        simp only [List.cons_append, List.nil_append] at hp
        simp only [C04.Ref.Deco.toStep, C04.tstep, List.append_assoc, List.cons_append, List.nil_append, hp, Except.bind] at h
        exact ih hv2 hrest _ s' (dictsOk_setHeader hs n v hit) h
      | parameter n v =>
        have hp := C04.partition_name 61 [] n v (by simpa [C04.Ref.Deco.nameOk] using hn)
        simp only [List.nil_append] at hp
        simp only [C04.Ref.Deco.toStep, C04.tstep, List.append_assoc, List.cons_append, List.nil_append, hp, Except.bind] at h
        have hne : v ≠ [] := by
          intro h0; subst h0; simp [itemWireOk] at hit
        exact ih hv2 hrest _ s' (dictsOk_setParam hs n v hne) h
    | block b =>
      obtain ⟨_, _, hv2⟩ := C04.valid_cons_block hv
      obtain ⟨v, r', hN, hrun⟩ := block_run c2 b s
      simp only [compile, C04.runT_append, hrun] at h
      simp only [itemWireOk, Bool.and_eq_true] at hit
      obtain ⟨hal, hterm⟩ := hit
      have hvne : v ≠ [] := encN_nonempty b.encs _ v hN (hpay _ hal)
      cases hb : b.term with
      | print =>
        rw [hb] at h
        simp only [C04.tstep, Except.bind] at h
        exact ih hv2 hrest _ s' (by exact hs) h
      | uriAppend => rw [hb] at hterm; cases hterm
      | header k =>
        rw [hb] at h hterm
        simp only [Bool.and_eq_true] at hterm
        simp only [C04.tstep, Except.bind] at h
        have hclean := encN_clean b.encs _ v false hN (fun hf => by cases hf) hterm.2
        exact ih hv2 hrest _ s' (dictsOk_setHeader hs k v (wellFormedHeader_value k v hterm.1 hclean)) h
      | parameter k =>
        rw [hb] at h
        simp only [C04.tstep, Except.bind] at h
        exact ih hv2 hrest _ s' (dictsOk_setParam hs k v hvne) h

/-! ### the wire form of what the client transforms produce: requests -/

/-- a verb that survives the request line: one token, not starting with `HTTP/` in any case -/
def verbOk (v : Bytes) : Bool := C16.isToken v && !C16.startsWithHTTP v

/-- The configuration-level hypotheses under which every request of the client meets C16's round-trip hypotheses:
token verbs, clean absolute paths, printable placements (`progWireOk`), the get program only carries the metadata and
the post program only id and output. -/
structure WireCfg (cfg : HttpCfg) (pg pp : Program) : Prop where
  getVerb : verbOk cfg.getVerb = true
  submitVerb : verbOk cfg.submitVerb = true
  getUris : ∀ u ∈ cfg.getUris, C16.wellFormedPath u = true
  submitUri : C16.wellFormedPath cfg.submitUri = true
  getItems : progWireOk (fun f => f == .metadata) pg = true
  postItems : progWireOk (fun f => f == .id || f == .output) pp = true

/-- User-Agent and Host values of the client are CR-free -/
structure WireClient (cl : Client) : Prop where
  ua : C16.noCR cl.userAgent = true
  host : C16.noCR cl.hostHeader = true

theorem initialHeaders_ok (cl : Client) (w : WireClient cl) : DictsOk [] (initialHeaders cl) := by
  refine ⟨by simp, by simp, by simp [initialHeaders, hUserAgent, hHost], ?_⟩
  intro h hh
  simp only [initialHeaders, List.mem_cons, List.not_mem_nil, or_false] at hh
  rcases hh with rfl | rfl
  · simp only [C16.wellFormedHeader, w.ua, Bool.and_true]; decide
  · simp only [C16.wellFormedHeader, w.host, Bool.and_true]; decide

theorem client_transform_wireOk (p : Program) (hv : valid p = true) (allowed : Field → Bool)
    (hw : progWireOk allowed p = true) (c2 : C2Data) (hpay : ∀ f, allowed f = true → C04.payload c2 f ≠ [])
    (rand : C04.Rand) (req r : Req) (hreq : DictsOk req.params req.headers) (hverb : verbOk req.method = true)
    (hpath : C16.wellFormedPath req.uri = true)
    (hr : C04.transform (C04.mkTransform (compile p) false none) rand c2 (some req) = .ok r)
    (hm : r.method = req.method) (hu : r.uri = req.uri) : MsgWireOk (.request r) := by
  simp only [C04.transform, C04.mk_client, Option.getD_some] at hr
  cases hrun : C04.runT c2 (compile p) (C04.TSt.init req rand) with
  | error e => rw [hrun] at hr; cases hr
  | ok s' =>
    rw [hrun] at hr
    simp only [Except.map, Except.ok.injEq] at hr
    have hd := transform_dictsOk c2 allowed p hv hw hpay _ s' hreq hrun
    have hp : r.params = s'.params := by rw [← hr]; rfl
    have hh : r.headers = s'.headers := by rw [← hr]; rfl
    simp only [verbOk, Bool.and_eq_true, Bool.not_eq_true'] at hverb
    show C16.WellFormedReq httpVersion r.method r.uri r.params r.headers
    rw [hm, hu, hp, hh]
    exact ⟨by decide, hverb.1, hverb.2, hpath, hd.pk, hd.pv, ⟨hd.hv, hd.hk⟩⟩

theorem getTaskRequest_wireOk (c : Crypto) (L : CryptoLaws c) {cfg : HttpCfg} {pg pp : Program} {es : List Enc}
    (wf : WellFormedCfg cfg pg pp es) (wcfg : WireCfg cfg pg pp) (cl : Client) (hcl : cl.cfg = cfg)
    (wc : WellFormedClient c cl) (wcl : WireClient cl) (rr : C06.Rand) (rand : C04.Rand) (r : Req) (cl' : Client)
    (h : getTaskRequest c cl rr rand = .ok (r, cl')) : MsgWireOk (.request r) := by
  obtain ⟨blob, hb1, hb2, _⟩ := C06.metadata_roundtrip c.asym L.asym cl.metadata rr wc.inWidth wc.aesLen wc.fits wc.infoSmall
  have hne : blob ≠ [] := by
    intro h0; rw [h0] at hb2; simp at hb2; have := wc.fits; omega
  obtain ⟨r1, hr1, hr2, hr3, _⟩ := client_transform_recover pg wf.getValid wf.getNoUri ⟨none, some blob, none⟩ rand
    (initialGetRequest cl)
  simp only [getTaskRequest, sized_eq cl wc.inWidth wc.aesLen, hb1, ofC06, transformGet, hcl, wf.getProg, hr1, ofC04,
    Except.map, Except.ok.injEq, Prod.mk.injEq] at h
  obtain ⟨rfl, _⟩ := h
  refine client_transform_wireOk pg wf.getValid _ wcfg.getItems _ ?_ rand (initialGetRequest cl) r1
    (initialHeaders_ok cl wcl) (by simpa [initialGetRequest, hcl] using wcfg.getVerb)
    (wcfg.getUris _ (by rw [← hcl]; exact wc.getUri)) hr1 hr2 hr3
  intro f hf
  have : f = .metadata := by simpa using hf
  subst this
  exact hne

theorem iterClient_nil : C05.iterClient (some []) = ([], none) := by
  simp only [C05.iterClient, C05.iterClientPackets_nil]

theorem callbackRequest_wireOk (c : Crypto) (L : CryptoLaws c) {cfg : HttpCfg} {pg pp : Program} {es : List Enc}
    (wf : WellFormedCfg cfg pg pp es) (wcfg : WireCfg cfg pg pp) (cl : Client) (hcl : cl.cfg = cfg)
    (wc : WellFormedClient c cl) (wcl : WireClient cl) (cbs : List (Nat × Bytes)) (rand : C04.Rand)
    (hne : cbs ≠ []) (hc : cl.counter + cbs.length < 2 ^ 32) (hcb : ∀ cb ∈ cbs, cb.1 < 2 ^ 32 ∧ cb.2.length + 64 < 2 ^ 32)
    (r : Req) (cl' : Client) (h : callbackRequest c cl cbs rand = .ok (r, cl')) : MsgWireOk (.request r) := by
  obtain ⟨k, hk, hkeys, hk16, hhk16⟩ := sessionKeys_facts c L cl
  have hkne : hk ≠ [] := by intro h0; rw [h0] at hhk16; cases hhk16
  obtain ⟨pkts, bs, h1, h2, h3, h4, _, _⟩ := encryptCallbacks_spec c L k hk hk16 hkne true
    (callbackPackets cl.counter cbs) (callbackPackets_ok cl.counter cbs hc hcb)
  obtain ⟨bs', hb1, hb2⟩ := C05.client_frames_roundtrip pkts h4
  rw [h2] at hb1
  injection hb1 with hb1
  subst hb1
  have hbs : bs ≠ [] := by
    intro h0
    rw [h0, iterClient_nil] at hb2
    injection hb2 with hb2 _
    rw [← hb2, callbackPackets_length] at h3
    cases cbs with
    | nil => exact hne rfl
    | cons _ _ => simp at h3
  obtain ⟨r1, hr1, hr2, hr3, _⟩ := client_transform_recover pp wf.postValid wf.postNoUri
    ⟨some bs, none, some (idBytes cl)⟩ rand (initialPostRequest cl)
  simp only [callbackRequest, wc.keys, hkeys, h1, transformSubmit, hcl, wf.postProg, hr1, ofC04, Except.map,
    Except.ok.injEq, Prod.mk.injEq] at h
  obtain ⟨rfl, _⟩ := h
  refine client_transform_wireOk pp wf.postValid _ wcfg.postItems _ ?_ rand (initialPostRequest cl) r1
    (initialHeaders_ok cl wcl) (by simpa [initialPostRequest, hcl] using wcfg.submitVerb)
    (by simpa [initialPostRequest, hcl] using wcfg.submitUri) hr1 hr2 hr3
  intro f hf
  simp only [Bool.or_eq_true, beq_iff_eq] at hf
  rcases hf with rfl | rfl
  · exact C16.natDigits_ne_nil _
  · exact hbs

theorem emitAll_cons_inv (c : Crypto) (s s' : Sender) (ev : Event) (evs : List Event) (h : Http) (sent : List Item)
    (msgs : List (Http × List Item)) (h1 : emit c s ev = .ok (h, s', sent)) (h2 : emitAll c s (ev :: evs) = .ok msgs) :
    ∃ msgs', emitAll c s' evs = .ok msgs' ∧ msgs = (h, sent) :: msgs' := by
  simp only [emitAll, h1] at h2
  cases hr : emitAll c s' evs with
  | error e => rw [hr] at h2; cases h2
  | ok msgs' =>
    rw [hr] at h2
    simp only [Except.map, Except.ok.injEq] at h2
    exact ⟨msgs', rfl, h2.symm⟩

/-- every message of a session over a wire-safe configuration meets C16's round-trip hypotheses -/
theorem emitAll_wireOk (c : Crypto) (L : CryptoLaws c) {cfg : HttpCfg} {pg pp : Program} {es : List Enc}
    (wf : WellFormedCfg cfg pg pp es) (wcfg : WireCfg cfg pg pp) (hs : Dict) (hhs : C16.WellFormedHeaders hs) :
    ∀ (evs : List Event) (cl : Client), cl.cfg = cfg → WellFormedClient c cl → WireClient cl →
      EventsOk cl.counter evs → (∀ cbs rand, Event.callbacks cbs rand ∈ evs → cbs ≠ []) →
      ∀ msgs, emitAll c ⟨cl, es, hs⟩ evs = .ok msgs → ∀ m ∈ msgs, MsgWireOk m.1 := by
  intro evs
  induction evs with
  | nil =>
    intro cl _ _ _ _ _ msgs h m hm
    simp only [emitAll, Except.ok.injEq] at h
    subst h
    cases hm
  | cons ev evs ih =>
    intro cl hcl wc wcl hok hne msgs h m hm
    obtain ⟨hev, hrest⟩ := hok
    have hne' : ∀ cbs rand, Event.callbacks cbs rand ∈ evs → cbs ≠ [] := fun cbs rand hm' => hne cbs rand (by simp [hm'])
    cases ev with
    | checkin rr rand =>
      obtain ⟨r, blob, h1, _⟩ := checkin_request c L wf cl hcl wc rr rand
      have he : emit c ⟨cl, es, hs⟩ (.checkin rr rand) =
          .ok (.request r, ⟨{ cl with metadata := sentMetadata cl }, es, hs⟩, [.metadata (sentMetadata cl)]) := by
        simp only [emit, h1, Except.map]
      obtain ⟨msgs', m1, rfl⟩ := emitAll_cons_inv c _ _ _ evs _ _ msgs he h
      rcases List.mem_cons.1 hm with rfl | hm
      · exact getTaskRequest_wireOk c L wf wcfg cl hcl wc wcl rr rand r _ h1
      · exact ih { cl with metadata := sentMetadata cl } hcl (wellFormedClient_sent c cl wc) ⟨wcl.ua, wcl.host⟩ hrest hne'
          msgs' m1 m hm
    | task t rand =>
      obtain ⟨dec0, _, inv0, _⟩ := mkDecoder_rsa c cl true
      obtain ⟨body, he, _⟩ := emit_task c L wf hs cl hcl wc dec0 false inv0 t rand (fun t' ht' => by subst ht'; exact hev)
      obtain ⟨msgs', m1, hmsgs⟩ := emitAll_cons_inv c _ _ _ evs _ _ msgs he h
      rw [hmsgs] at hm
      rcases List.mem_cons.1 hm with rfl | hm
      · exact hhs
      · exact ih cl hcl wc wcl hrest hne' msgs' m1 m hm
    | callbacks cbs rand =>
      obtain ⟨r, out, pkts, h1, _⟩ := callback_request c L wf cl hcl wc cbs rand true hev.1 hev.2
      have he : emit c ⟨cl, es, hs⟩ (.callbacks cbs rand) =
          .ok (.request r, ⟨{ cl with counter := cl.counter + cbs.length }, es, hs⟩,
            (callbackPackets cl.counter cbs).map Item.callback) := by
        simp only [emit, h1, Except.map]
      obtain ⟨msgs', m1, rfl⟩ := emitAll_cons_inv c _ _ _ evs _ _ msgs he h
      rcases List.mem_cons.1 hm with rfl | hm
      · exact callbackRequest_wireOk c L wf wcfg cl hcl wc wcl cbs rand (hne cbs rand (by simp)) hev.1 hev.2 r _ h1
      · exact ih { cl with counter := cl.counter + cbs.length } hcl (wellFormedClient_counter c cl wc _) ⟨wcl.ua, wcl.host⟩
          hrest hne' msgs' m1 m hm

end C07

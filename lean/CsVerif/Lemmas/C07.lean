import CsVerif.Model.C07
import CsVerif.Props.C04
import CsVerif.Props.C05
import CsVerif.Props.C06
import CsVerif.Props.C16
/-! Helper lemmas and hypothesis vocabulary of the C07 theorems.  Everything about transforms, packet crypto, framing,
metadata and raw HTTP is taken from the theorems of C04 / C05 / C06 / C16 (imported), not re-proved. -/
namespace C07
open C04 (Step Enc Term Field Req Http C2Data Dict)
open C04.Ref (Program valid usesUri built compile normalise serverSteps)

/-! ### routing -/

theorem isPrefixOf_self (u : Bytes) : u.isPrefixOf u = true := by
  induction u with
  | nil => rfl
  | cons a u ih => simp [List.isPrefixOf, ih]

theorem startsWithAny_of_mem {u : Bytes} {us : List Bytes} (h : u ∈ us) : startsWithAny u us = true := by
  simp only [startsWithAny, List.any_eq_true]
  exact ⟨u, h, isPrefixOf_self u⟩

theorem startsWithAny_iff (uri : Bytes) (us : List Bytes) :
    startsWithAny uri us = true ↔ ∃ u ∈ us, u <+: uri := by
  simp only [startsWithAny, List.any_eq_true, List.isPrefixOf_iff_prefix]

theorem routeRequest_get {cfg : HttpCfg} {m u : Bytes} (hm : m = cfg.getVerb) (hu : startsWithAny u cfg.getUris = true) :
    routeRequest cfg m u = some .get := by
  simp [routeRequest, hm, hu]

theorem routeRequest_submit {cfg : HttpCfg} {m u : Bytes} (hm : m = cfg.submitVerb)
    (hu : cfg.submitUri.isPrefixOf u = true)
    (hd : ¬ (m = cfg.getVerb ∧ startsWithAny u cfg.getUris = true)) :
    routeRequest cfg m u = some .submit := by
  unfold routeRequest
  rw [if_neg (by simpa using hd)]
  simp [hm, hu]


/-! ### the packet layouts -/

theorem u32be_length (n : Nat) : (u32be n).length = 4 := C20.toBytesU_length .big 4 n

theorem u32At_zero (x : Nat) (rest : Bytes) (h : x < 2 ^ 32) : u32At (u32be x ++ rest) 0 = x := by
  unfold u32At
  rw [List.drop_zero, List.take_left' (u32be_length x)]
  exact C20.fromBytesU_toBytesU .big 4 x (by simpa using h)

theorem drop_add_append {α} (a rest : List α) (k : Nat) : (a ++ rest).drop (a.length + k) = rest.drop k := by
  simp [List.drop_append]

theorem u32At_skip (a rest : Bytes) (k : Nat) (ha : a.length = 4) : u32At (a ++ rest) (k + 4) = u32At rest k := by
  unfold u32At
  rw [show k + 4 = a.length + k by omega, drop_add_append]

/-- a task whose `size` field is the length of its data and whose integers fit 32 bits -/
def TaskOk (t : Task) : Prop :=
  t.epoch < 2 ^ 32 ∧ t.totalSize < 2 ^ 32 ∧ t.command < 2 ^ 32 ∧ t.size < 2 ^ 32 ∧ t.size = t.data.length

instance (t : Task) : Decidable (TaskOk t) := by unfold TaskOk; infer_instance

def CallbackOk (cb : Callback) : Prop :=
  cb.counter < 2 ^ 32 ∧ cb.size < 2 ^ 32 ∧ cb.callback < 2 ^ 32 ∧ cb.size = cb.data.length

instance (cb : Callback) : Decidable (CallbackOk cb) := by unfold CallbackOk; infer_instance

theorem task_dumps_ok (t : Task) (h : TaskOk t) :
    t.dumps = .ok (u32be t.epoch ++ (u32be t.totalSize ++ (u32be t.command ++ (u32be t.size ++ t.data)))) := by
  obtain ⟨h1, h2, h3, h4, _⟩ := h
  simp [Task.dumps, h1, h2, h3, h4]

/-- parsing the dumped task followed by anything (the AES padding) gives the task back -/
theorem parseTask_dumps (t : Task) (extra : Bytes) (h : TaskOk t) :
    parseTask (u32be t.epoch ++ (u32be t.totalSize ++ (u32be t.command ++ (u32be t.size ++ t.data))) ++ extra) = .ok t := by
  obtain ⟨h1, h2, h3, h4, h5⟩ := h
  have e0 : ∀ r, u32At (u32be t.epoch ++ r) 0 = t.epoch := fun r => u32At_zero _ r h1
  have l := u32be_length
  simp only [List.append_assoc]
  have e4 : u32At (u32be t.epoch ++ (u32be t.totalSize ++ (u32be t.command ++ (u32be t.size ++ (t.data ++ extra))))) 4 = t.totalSize := by
    rw [show (4 : Nat) = 0 + 4 from rfl, u32At_skip _ _ 0 (l _), u32At_zero _ _ h2]
  have e8 : u32At (u32be t.epoch ++ (u32be t.totalSize ++ (u32be t.command ++ (u32be t.size ++ (t.data ++ extra))))) 8 = t.command := by
    rw [show (8 : Nat) = 4 + 4 from rfl, u32At_skip _ _ 4 (l _), show (4 : Nat) = 0 + 4 from rfl, u32At_skip _ _ 0 (l _), u32At_zero _ _ h3]
  have e12 : u32At (u32be t.epoch ++ (u32be t.totalSize ++ (u32be t.command ++ (u32be t.size ++ (t.data ++ extra))))) 12 = t.size := by
    rw [show (12 : Nat) = 8 + 4 from rfl, u32At_skip _ _ 8 (l _), show (8 : Nat) = 4 + 4 from rfl, u32At_skip _ _ 4 (l _),
      show (4 : Nat) = 0 + 4 from rfl, u32At_skip _ _ 0 (l _), u32At_zero _ _ h4]
  have hd : (u32be t.epoch ++ (u32be t.totalSize ++ (u32be t.command ++ (u32be t.size ++ (t.data ++ extra))))).drop 16 = t.data ++ extra := by
    rw [show (16 : Nat) = (u32be t.epoch).length + 12 by rw [l], drop_add_append,
      show (12 : Nat) = (u32be t.totalSize).length + 8 by rw [l], drop_add_append,
      show (8 : Nat) = (u32be t.command).length + 4 by rw [l], drop_add_append,
      show (4 : Nat) = (u32be t.size).length + 0 by rw [l], drop_add_append, List.drop_zero]
  unfold parseTask
  rw [e0, e4, e8, e12, hd]
  have hlen : (u32be t.epoch ++ (u32be t.totalSize ++ (u32be t.command ++ (u32be t.size ++ (t.data ++ extra))))).length
      = 16 + t.data.length + extra.length := by
    simp only [List.length_append, l]; omega
  rw [if_neg (by omega), if_neg (by omega), h5, List.take_left' rfl]
  cases t; simp_all

theorem callback_dumps_ok (cb : Callback) (h : CallbackOk cb) :
    cb.dumps = .ok (u32be cb.counter ++ (u32be cb.size ++ (u32be cb.callback ++ cb.data))) := by
  obtain ⟨h1, h2, h3, _⟩ := h
  simp [Callback.dumps, h1, h2, h3]

theorem parseCallback_dumps (cb : Callback) (extra : Bytes) (h : CallbackOk cb) :
    parseCallback (u32be cb.counter ++ (u32be cb.size ++ (u32be cb.callback ++ cb.data)) ++ extra) = .ok cb := by
  obtain ⟨h1, h2, h3, h5⟩ := h
  have l := u32be_length
  simp only [List.append_assoc]
  have e0 : ∀ r, u32At (u32be cb.counter ++ r) 0 = cb.counter := fun r => u32At_zero _ r h1
  have e4 : u32At (u32be cb.counter ++ (u32be cb.size ++ (u32be cb.callback ++ (cb.data ++ extra)))) 4 = cb.size := by
    rw [show (4 : Nat) = 0 + 4 from rfl, u32At_skip _ _ 0 (l _), u32At_zero _ _ h2]
  have e8 : u32At (u32be cb.counter ++ (u32be cb.size ++ (u32be cb.callback ++ (cb.data ++ extra)))) 8 = cb.callback := by
    rw [show (8 : Nat) = 4 + 4 from rfl, u32At_skip _ _ 4 (l _), show (4 : Nat) = 0 + 4 from rfl, u32At_skip _ _ 0 (l _), u32At_zero _ _ h3]
  have hd : (u32be cb.counter ++ (u32be cb.size ++ (u32be cb.callback ++ (cb.data ++ extra)))).drop 12 = cb.data ++ extra := by
    rw [show (12 : Nat) = (u32be cb.counter).length + 8 by rw [l], drop_add_append,
      show (8 : Nat) = (u32be cb.size).length + 4 by rw [l], drop_add_append,
      show (4 : Nat) = (u32be cb.callback).length + 0 by rw [l], drop_add_append, List.drop_zero]
  unfold parseCallback
  rw [e0, e4, e8, hd]
  have hlen : (u32be cb.counter ++ (u32be cb.size ++ (u32be cb.callback ++ (cb.data ++ extra)))).length
      = 12 + cb.data.length + extra.length := by
    simp only [List.length_append, l]; omega
  rw [if_neg (by omega), if_neg (by omega), h5, List.take_left' rfl]
  cases cb; simp_all


/-! ### client transforms: the request keeps method and URI and is recovered -/

theorem client_transform_recover (p : Program) (hv : valid p = true) (hu : usesUri p = false)
    (c2 : C2Data) (rand : C04.Rand) (req : Req) :
    ∃ r, C04.transform (C04.mkTransform (compile p) false none) rand c2 (some req) = .ok r ∧
      r.method = req.method ∧ r.uri = req.uri ∧
      C04.recover (C04.mkTransform (compile p) false none) (.request r) = .ok (normalise p c2) := by
  obtain ⟨s', h1, hP⟩ := C04.transform_placed c2 req p hv (C04.TSt.init req rand)
    (fun h => by rw [hu] at h; cases h)
  refine ⟨s'.toReq req, ?_, rfl, ?_, ?_⟩
  · simp only [C04.transform, C04.mk_client, Option.getD_some, h1, Except.map]
  · have hw : ∀ st ∈ compile p, C04.writes st ≠ some Term.uriAppend := by
      intro st hs hw
      have := C04.writes_compile p hv st hs _ hw
      rw [← C04.usesUri_iff, hu] at this
      cases this
    have := C04.runT_frame c2 req (compile p) _ s' Term.uriAppend h1 hw
    simp only [C04.locate_http] at this
    injection this
  · simp only [C04.recover, C04.mk_rsteps, C04.mk_client]
    exact C04.recover_of_placed p hv c2 _ hP


/-! ### hypotheses of the end-to-end theorems -/

/-- a submit request is not caught by the get route (the get test comes first in the code) -/
def RoutingDisjoint (cfg : HttpCfg) : Prop :=
  ¬ (cfg.submitVerb = cfg.getVerb ∧ startsWithAny cfg.submitUri cfg.getUris = true)

instance (cfg : HttpCfg) : Decidable (RoutingDisjoint cfg) := by unfold RoutingDisjoint; infer_instance

/-- A well-formed HTTP configuration: the three step lists are what the profile compiler emits for valid
reference programs `pg` (http-get.client), `pp` (http-post.client) and the server output statements `es`;
no uri-append (known finding C04-uri-append-initial-uri); the get program carries the metadata, the post
program the output; routing is unambiguous. -/
structure WellFormedCfg (cfg : HttpCfg) (pg pp : Program) (es : List Enc) : Prop where
  getProg : cfg.getProg = compile pg
  postProg : cfg.postProg = compile pp
  recoverProg : cfg.recoverProg = serverSteps es
  getValid : valid pg = true
  postValid : valid pp = true
  serverOk : ∀ e ∈ es, C04.encOk e = true
  getNoUri : usesUri pg = false
  postNoUri : usesUri pp = false
  getMeta : built pg .metadata = true
  postOutput : built pp .output = true
  disjoint : RoutingDisjoint cfg

/-- the keys of the beacon session: both halves of SHA-256 over the metadata's random bytes -/
def sessionKeys (c : Crypto) (cl : Client) : Keys := derivedKeys c cl.metadata.aes_rand

/-- the metadata as it is sent (and as the client object holds it after the first check-in) -/
def sentMetadata (cl : Client) : C06.Metadata := { cl.metadata with size := 51 + cl.metadata.info.length }

structure WellFormedClient (c : Crypto) (cl : Client) : Prop where
  inWidth : C06.InWidth cl.metadata
  aesLen : cl.metadata.aes_rand.length = 16
  magic : cl.metadata.magic = 0xBEEF
  fits : 59 + cl.metadata.info.length ≤ c.asym.modulusBytes - 11
  infoSmall : 51 + cl.metadata.info.length < 2 ^ 32
  keys : cl.keys = sessionKeys c cl
  getUri : cl.getUri ∈ cl.cfg.getUris

theorem sized_eq (cl : Client) (hw : C06.InWidth cl.metadata) (ha : cl.metadata.aes_rand.length = 16) :
    C06.sized cl.metadata = .ok (sentMetadata cl) := by
  simp only [C06.sized, C06.dumps_ok _ hw, sentMetadata]
  rw [C06.rawDumps_length16 _ ha]
  have : 59 + cl.metadata.info.length - 8 = 51 + cl.metadata.info.length := by omega
  rw [this]

/-- the client's check-in request, what it recovers to, and what the blob decrypts to -/
theorem checkin_request (c : Crypto) (L : CryptoLaws c) {cfg : HttpCfg} {pg pp : Program} {es : List Enc}
    (wf : WellFormedCfg cfg pg pp es) (cl : Client) (hcl : cl.cfg = cfg) (wc : WellFormedClient c cl)
    (rr : C06.Rand) (rand : C04.Rand) :
    ∃ r blob, getTaskRequest c cl rr rand = .ok (r, { cl with metadata := sentMetadata cl }) ∧
      r.method = cfg.getVerb ∧ r.uri = cl.getUri ∧
      recoverStage cfg (.request r) = .ok (normalise pg ⟨none, some blob, none⟩) ∧ blob ≠ [] ∧
      C06.decryptMetadata c.asym blob = .ok (sentMetadata cl) := by
  obtain ⟨blob, hb1, hb2, hb3⟩ := C06.metadata_roundtrip c.asym L.asym cl.metadata rr wc.inWidth wc.aesLen wc.fits wc.infoSmall
  rw [if_pos wc.magic] at hb3
  obtain ⟨r, hr1, hr2, hr3, hr4⟩ := client_transform_recover pg wf.getValid wf.getNoUri ⟨none, some blob, none⟩ rand
    (initialGetRequest cl)
  have hne : blob ≠ [] := by
    intro h0; rw [h0] at hb2; simp at hb2; have := wc.fits; omega
  refine ⟨r, blob, ?_, ?_, ?_, ?_, hne, hb3⟩
  · simp only [getTaskRequest, sized_eq cl wc.inWidth wc.aesLen, hb1, ofC06, transformGet, hcl, wf.getProg, hr1, ofC04,
      Except.map]
  · rw [hr2]; simp [initialGetRequest, hcl]
  · rw [hr3]; rfl
  · have hroute : routeHttp cfg (.request r) = some .get := by
      simp only [routeHttp]
      apply routeRequest_get
      · rw [hr2]; simp [initialGetRequest, hcl]
      · rw [hr3]; simp only [initialGetRequest]
        apply startsWithAny_of_mem
        rw [← hcl]; exact wc.getUri
    simp only [recoverStage, hroute, transformOf, transformGet, wf.getProg, hr4, ofC04]


/-! ### evaluation of the decoder's stages -/

theorem iterRecoverMsg_of_recover (c : Crypto) (dec : Decoder) (http : Http) (c2 : C2Data)
    (h : recoverStage dec.cfg http = .ok c2) :
    iterRecoverMsg c dec none http =
      match (metadataStep c dec c2.metadata).exc with
      | some e => ⟨(metadataStep c dec c2.metadata).items, some e, (metadataStep c dec c2.metadata).dec,
                   (metadataStep c dec c2.metadata).calls⟩
      | none =>
        ⟨(metadataStep c dec c2.metadata).items ++
           (decodePackets c dec.keys dec.verify (isRequest http) (frames (isRequest http) c2.output).1).items,
         match (decodePackets c dec.keys dec.verify (isRequest http) (frames (isRequest http) c2.output).1).exc with
         | some e => some e
         | none => (frames (isRequest http) c2.output).2.map Exc.py,
         (metadataStep c dec c2.metadata).dec,
         (metadataStep c dec c2.metadata).calls ++
           (decodePackets c dec.keys dec.verify (isRequest http) (frames (isRequest http) c2.output).1).calls⟩ := by
  simp only [iterRecoverMsg, h, Option.getD_none]
  rfl

theorem iterRecoverMsg_of_error (c : Crypto) (dec : Decoder) (http : Http) (e : Exc)
    (h : recoverStage dec.cfg http = .error e) :
    iterRecoverMsg c dec none http = ⟨[], some e, dec, []⟩ := by
  simp only [iterRecoverMsg, h]

theorem metadataStep_skip (c : Crypto) (dec : Decoder) (md : Option Bytes)
    (h : (truthy md && dec.hasPriv) = false) : metadataStep c dec md = ⟨[], none, dec, []⟩ := by
  simp only [metadataStep, h]; rfl

theorem truthy_some_ne {b : Bytes} (h : b ≠ []) : truthy (some b) = true := by
  cases b with
  | nil => exact absurd rfl h
  | cons _ _ => rfl

theorem defaultIv_length : Gen.C2Struct.defaultAesIv.length = 16 := by decide

theorem sessionKeys_facts (c : Crypto) (L : CryptoLaws c) (cl : Client) :
    ∃ k hk, sessionKeys c cl = ⟨some k, some hk, Gen.C2Struct.defaultAesIv⟩ ∧ k.length = 16 ∧ hk.length = 16 := by
  obtain ⟨_, h1, h2⟩ := C06.derive_split c.asym L.asym cl.metadata.aes_rand
  exact ⟨_, _, rfl, h1, h2⟩

/-- with no keys at all the first packet is refused (whatever `verify_hmac` says) and nothing is yielded -/
theorem decodePackets_nokeys (c : Crypto) (iv : Bytes) (verify isReq : Bool) (p : C05.Packet) (ps : List C05.Packet) :
    (decodePackets c ⟨none, none, iv⟩ verify isReq (p :: ps)).items = [] ∧
    (decodePackets c ⟨none, none, iv⟩ verify isReq (p :: ps)).exc = some (.py .valueError) ∧
    (decodePackets c ⟨none, none, iv⟩ verify isReq (p :: ps)).calls = [] := by
  cases verify <;> simp [decodePackets, C05.decryptPacketT, C05.decryptDataT]

/-! ### callbacks: what the client encrypts is what the decoder's packet loop yields -/

theorem callbackPackets_ok (counter : Nat) (cbs : List (Nat × Bytes))
    (hc : counter + cbs.length < 2 ^ 32) (hcb : ∀ cb ∈ cbs, cb.1 < 2 ^ 32 ∧ cb.2.length + 64 < 2 ^ 32) :
    ∀ p ∈ callbackPackets counter cbs, CallbackOk p ∧ p.data.length + 64 < 2 ^ 32 := by
  induction cbs generalizing counter with
  | nil => intro p hp; simp [callbackPackets] at hp
  | cons cb rest ih =>
    obtain ⟨id, data⟩ := cb
    intro p hp
    simp only [callbackPackets, List.mem_cons] at hp
    have h0 := hcb (id, data) (by simp)
    simp only [List.length_cons] at hc
    rcases hp with rfl | hp
    · refine ⟨⟨?_, ?_, h0.1, rfl⟩, h0.2⟩
      · show counter + 1 < 2 ^ 32
        omega
      · show data.length < 2 ^ 32
        have := h0.2
        simp only at this
        omega
    · exact ih (counter + 1) (by omega) (fun cb h => hcb cb (by simp [h])) p hp

theorem dumpsAll_cons_ok (p : C05.Packet) (pkts : List C05.Packet) (frame bs : Bytes) (hdump : C05.dumps p = .ok frame)
    (h2 : C05.dumpsAll pkts = .ok bs) : C05.dumpsAll (p :: pkts) = .ok (frame ++ bs) := by
  rw [C05.dumpsAll, hdump, h2]; rfl

theorem encryptCallbacks_cons_ok (c : Crypto) (keys : Keys) (cb : Callback) (rest : List Callback) (frame bs : Bytes)
    (h0 : encryptCallback c keys cb = .ok frame) (h1 : encryptCallbacks c keys rest = .ok bs) :
    encryptCallbacks c keys (cb :: rest) = .ok (frame ++ bs) := by
  simp only [encryptCallbacks, h0, h1, Except.map]

theorem encryptCallback_eq (c : Crypto) (k hk iv : Bytes) (cb : Callback) (pt : Bytes) (pkt : C05.Packet)
    (hd : cb.dumps = .ok pt)
    (henc : C05.encryptPacket c.sym pt (some k) (some hk) iv = .ok pkt) :
    encryptCallback c ⟨some k, some hk, iv⟩ cb = ofPy (C05.dumps pkt) := by
  unfold encryptCallback
  rw [hd]
  dsimp only
  rw [henc]
  rfl

/-- one callback: the frame the client produces is the `dumps()` of a packet that decrypts (with the same keys,
with or without HMAC verification) to the padded plaintext, which parses back to the callback -/
theorem encryptCallback_spec (c : Crypto) (L : CryptoLaws c) (k hk : Bytes) (hk16 : k.length = 16) (hne : hk ≠ [])
    (verify : Bool) (cb : Callback) (hcb : CallbackOk cb) (hlen : cb.data.length + 64 < 2 ^ 32) :
    ∃ pkt frame pt, encryptCallback c ⟨some k, some hk, Gen.C2Struct.defaultAesIv⟩ cb = .ok frame ∧
      C05.dumps pkt = .ok frame ∧ pkt.signature.length = 16 ∧ pkt.ciphertext.length + 16 < 2 ^ 32 ∧
      (C05.decryptPacketT c.sym pkt (some k) (some hk) Gen.C2Struct.defaultAesIv verify).1 = .ok pt ∧
      parseItem true pt = .ok (.callback cb) := by
  have hd := callback_dumps_ok cb hcb
  obtain ⟨ct, hct1, hct2, hct3, hct4⟩ := C05.encrypt_packet_ok c.sym L.sym
    (u32be cb.counter ++ (u32be cb.size ++ (u32be cb.callback ++ cb.data))) k hk Gen.C2Struct.defaultAesIv
    (Or.inl hk16) defaultIv_length
  have hsig : (C05.mac16 c.sym hk ct).length = 16 := by
    simp only [C05.mac16, List.length_take, L.sym.hmac_len]; rfl
  obtain ⟨kpad, hp1, _, hp3, _, hp5, _⟩ := C05.pad_spec (u32be cb.counter ++ (u32be cb.size ++ (u32be cb.callback ++ cb.data)))
  have hctlen : ct.length + 16 < 2 ^ 32 := by
    rw [hct2, hp5]; simp only [List.length_append, u32be_length]; omega
  have hdump := C05.dumps_ok ⟨ct, C05.mac16 c.sym hk ct⟩ (by simp only [hsig]; exact hctlen)
  have henc : C05.encryptPacket c.sym (u32be cb.counter ++ (u32be cb.size ++ (u32be cb.callback ++ cb.data)))
      (some k) (some hk) Gen.C2Struct.defaultAesIv = .ok ⟨ct, C05.mac16 c.sym hk ct⟩ := by
    simp [C05.encryptPacket, hct4]
  refine ⟨⟨ct, C05.mac16 c.sym hk ct⟩, _, C05.pad (u32be cb.counter ++ (u32be cb.size ++ (u32be cb.callback ++ cb.data))), ?_, hdump, hsig, hctlen, ?_, ?_⟩
  · rw [encryptCallback_eq c k hk _ cb _ _ hd henc, hdump]; rfl
  · show C05.decryptPacket c.sym ⟨ct, C05.mac16 c.sym hk ct⟩ (some k) (some hk) Gen.C2Struct.defaultAesIv verify = .ok _
    cases verify with
    | true =>
      rw [C05.verify_decision, if_pos ⟨hne, rfl⟩]
      simpa [C05.decryptData, C05.decryptDataT] using hct3
    | false => simpa [C05.decryptPacket, C05.decryptPacketT, C05.decryptDataT] using hct3
  · rw [hp1]
    simp only [parseItem, if_true, parseCallback_dumps cb _ hcb, Except.map]

theorem decodePackets_cons_ok (c : Crypto) (keys : Keys) (verify isReq : Bool) (p : C05.Packet) (ps : List C05.Packet)
    (pt : Bytes) (it : Item)
    (hd : (C05.decryptPacketT c.sym p keys.aesKey keys.hmacKey keys.iv verify).1 = .ok pt)
    (hp : parseItem isReq pt = .ok it) :
    (decodePackets c keys verify isReq (p :: ps)).items = it :: (decodePackets c keys verify isReq ps).items ∧
    (decodePackets c keys verify isReq (p :: ps)).exc = (decodePackets c keys verify isReq ps).exc := by
  simp only [decodePackets, hd, hp, and_self]

theorem encryptCallbacks_spec (c : Crypto) (L : CryptoLaws c) (k hk : Bytes) (hk16 : k.length = 16) (hne : hk ≠ [])
    (verify : Bool) (cbs : List Callback) (hok : ∀ cb ∈ cbs, CallbackOk cb ∧ cb.data.length + 64 < 2 ^ 32) :
    ∃ pkts bs, encryptCallbacks c ⟨some k, some hk, Gen.C2Struct.defaultAesIv⟩ cbs = .ok bs ∧
      C05.dumpsAll pkts = .ok bs ∧ pkts.length = cbs.length ∧
      (∀ p ∈ pkts, p.signature.length = 16 ∧ p.ciphertext.length + 16 < 2 ^ 32) ∧
      (decodePackets c ⟨some k, some hk, Gen.C2Struct.defaultAesIv⟩ verify true pkts).items = cbs.map Item.callback ∧
      (decodePackets c ⟨some k, some hk, Gen.C2Struct.defaultAesIv⟩ verify true pkts).exc = none := by
  induction cbs with
  | nil => exact ⟨[], [], rfl, rfl, rfl, by simp, rfl, rfl⟩
  | cons cb rest ih =>
    obtain ⟨pkts, bs, h1, h2, h3, h4, h5, h6⟩ := ih (fun x hx => hok x (by simp [hx]))
    obtain ⟨hcb, hlen⟩ := hok cb (by simp)
    obtain ⟨pkt, frame, pt, e1, e2, e3, e4, e5, e6⟩ := encryptCallback_spec c L k hk hk16 hne verify cb hcb hlen
    obtain ⟨d1, d2⟩ := decodePackets_cons_ok c ⟨some k, some hk, Gen.C2Struct.defaultAesIv⟩ verify true pkt pkts pt _ e5 e6
    refine ⟨pkt :: pkts, frame ++ bs, encryptCallbacks_cons_ok c _ cb rest frame bs e1 h1,
      dumpsAll_cons_ok pkt pkts frame bs e2 h2, by simp [h3], ?_, ?_, ?_⟩
    · intro p hp
      simp only [List.mem_cons] at hp
      rcases hp with rfl | hp
      · exact ⟨e3, e4⟩
      · exact h4 p hp
    · rw [d1, h5]; rfl
    · rw [d2, h6]

/-! ### what `recover` returns for the two client programs -/

theorem normalise_output (p : Program) (c2 : C2Data) :
    (normalise p c2).output = if built p .output then some (c2.output.getD []) else none := rfl

theorem normalise_metadata (p : Program) (c2 : C2Data) :
    (normalise p c2).metadata = if built p .metadata then some (c2.metadata.getD []) else none := rfl

theorem callbackPackets_length (n : Nat) (cbs : List (Nat × Bytes)) : (callbackPackets n cbs).length = cbs.length := by
  induction cbs generalizing n with
  | nil => rfl
  | cons cb rest ih => obtain ⟨a, b⟩ := cb; simp [callbackPackets, ih]

/-- the client's POST request with the given callbacks, what it recovers to, and how the recovered output frames and
decrypts (with the session keys, HMAC verified or not) -/
theorem callback_request (c : Crypto) (L : CryptoLaws c) {cfg : HttpCfg} {pg pp : Program} {es : List Enc}
    (wf : WellFormedCfg cfg pg pp es) (cl : Client) (hcl : cl.cfg = cfg) (wc : WellFormedClient c cl)
    (cbs : List (Nat × Bytes)) (rand : C04.Rand) (verify : Bool)
    (hc : cl.counter + cbs.length < 2 ^ 32) (hcb : ∀ cb ∈ cbs, cb.1 < 2 ^ 32 ∧ cb.2.length + 64 < 2 ^ 32) :
    ∃ r out pkts, callbackRequest c cl cbs rand = .ok (r, { cl with counter := cl.counter + cbs.length }) ∧
      r.method = cfg.submitVerb ∧ r.uri = cfg.submitUri ∧
      recoverStage cfg (.request r) = .ok (normalise pp ⟨some out, none, some (idBytes cl)⟩) ∧
      C05.iterClient (some out) = (pkts, none) ∧ pkts.length = cbs.length ∧
      (decodePackets c (sessionKeys c cl) verify true pkts).items = (callbackPackets cl.counter cbs).map Item.callback ∧
      (decodePackets c (sessionKeys c cl) verify true pkts).exc = none := by
  obtain ⟨k, hk, hkeys, hk16, hhk16⟩ := sessionKeys_facts c L cl
  have hne : hk ≠ [] := by intro h0; rw [h0] at hhk16; cases hhk16
  obtain ⟨pkts, bs, h1, h2, h3, h4, h5, h6⟩ := encryptCallbacks_spec c L k hk hk16 hne verify
    (callbackPackets cl.counter cbs) (callbackPackets_ok cl.counter cbs hc hcb)
  obtain ⟨bs', hb1, hb2⟩ := C05.client_frames_roundtrip pkts h4
  rw [h2] at hb1
  injection hb1 with hb1
  subst hb1
  obtain ⟨r, hr1, hr2, hr3, hr4⟩ := client_transform_recover pp wf.postValid wf.postNoUri
    ⟨some bs, none, some (idBytes cl)⟩ rand (initialPostRequest cl)
  have hlen := callbackPackets_length cl.counter cbs
  refine ⟨r, bs, pkts, ?_, ?_, ?_, ?_, hb2, by rw [h3, hlen], ?_, ?_⟩
  · simp only [callbackRequest, wc.keys, hkeys, h1, transformSubmit, hcl, wf.postProg, hr1, ofC04, Except.map]
  · rw [hr2]; simp [initialPostRequest, hcl]
  · rw [hr3]; simp [initialPostRequest, hcl]
  · have hroute : routeHttp cfg (.request r) = some .submit := by
      simp only [routeHttp]
      apply routeRequest_submit
      · rw [hr2]; simp [initialPostRequest, hcl]
      · rw [hr3]; simp only [initialPostRequest, hcl]; exact isPrefixOf_self _
      · rw [hr2, hr3]; simp only [initialPostRequest, hcl]; exact wf.disjoint
    simp only [recoverStage, hroute, transformOf, transformSubmit, wf.postProg, hr4, ofC04]
  · rw [hkeys]; exact h5
  · rw [hkeys]; exact h6

/-! ### the server side -/

theorem rstep_response_irrel (hs hs' : Dict) (b : Bytes) (st : Step) (s : C04.RSt) (h : ∀ k, st ≠ .term (.header k)) :
    C04.rstep (.response hs b) st s = C04.rstep (.response hs' b) st s := by
  cases st with
  | term t =>
    cases t with
    | header k => exact absurd rfl (h k)
    | _ => rfl
  | build f => cases f <;> rfl
  | _ => rfl

theorem runR_response_irrel (hs hs' : Dict) (b : Bytes) (steps : List Step) (s : C04.RSt)
    (h : ∀ st ∈ steps, ∀ k, st ≠ .term (.header k)) :
    C04.runR (.response hs b) steps s = C04.runR (.response hs' b) steps s := by
  induction steps generalizing s with
  | nil => rfl
  | cons st rest ih =>
    simp only [C04.runR]
    rw [rstep_response_irrel hs hs' b st s (h st (by simp))]
    cases C04.rstep (.response hs' b) st s with
    | error e => rfl
    | ok s1 => exact ih s1 (fun st' hst => h st' (by simp [hst]))

/-- recovering a response never looks at its headers when the program is a server output block -/
theorem recover_response_headers (es : List Enc) (hs hs' : Dict) (b : Bytes) :
    C04.recover (C04.mkTransform (serverSteps es) true (some (some .output))) (.response hs b) =
      C04.recover (C04.mkTransform (serverSteps es) true (some (some .output))) (.response hs' b) := by
  unfold C04.recover
  rw [runR_response_irrel hs hs' b]
  intro st hst k
  have hst' : st = .term .print ∨ (∃ e, st = .enc e) ∨ st = .build (some .output) := by
    have hr : (C04.mkTransform (serverSteps es) true (some (some .output))).rsteps =
        (Step.term .print :: (es.map fun e => Step.enc (C04.Ref.intForm e)).reverse) ++ [Step.build (some .output)] := rfl
    rw [hr] at hst
    rw [List.mem_append, List.mem_cons, List.mem_reverse, List.mem_map, List.mem_singleton] at hst
    rcases hst with (h | ⟨e, _, h⟩) | h
    · exact Or.inl h
    · exact Or.inr (Or.inl ⟨_, h.symm⟩)
    · exact Or.inr (Or.inr h)
  rcases hst' with rfl | ⟨e, rfl⟩ | rfl <;> simp

/-- a body made by the reference team server for the output `out` is recovered, whatever headers the response has -/
theorem server_body_recover {cfg : HttpCfg} {pg pp : Program} {es : List Enc} (wf : WellFormedCfg cfg pg pp es)
    (out : Bytes) (rand : C04.Rand) (hs : Dict) :
    recoverStage cfg (.response hs
      (C04.Ref.encode [.block ⟨.output, es, .print⟩] rand ⟨some out, none, none⟩ C04.emptyReq).body) =
      .ok ⟨some out, none, none⟩ := by
  have h := C04.model_decodes_ref_server es wf.serverOk ⟨some out, none, none⟩ rand C04.emptyReq
  simp only at h
  simp only [recoverStage, routeHttp, transformOf, transformResponse, wf.recoverProg]
  rw [recover_response_headers es hs _ _, h]
  rfl

/-! ### the decoder-state invariant of a session -/

/-- What is true of the decoder object along a session of the client `cl`.  `known` says whether the session keys
are in `self.beacon_keys`; while they are not, there are no keys at all and the metadata cache is still empty
(keys are derived in the same step that fills the cache). -/
structure Inv (c : Crypto) (cl : Client) (dec : Decoder) (known : Bool) : Prop where
  cfg : dec.cfg = cl.cfg
  cacheOk : ∀ blob m, dec.cache.lookup blob = some m → C06.decryptMetadata c.asym blob = .ok m
  keysKnown : known = true → dec.keys = sessionKeys c cl
  keysUnknown : known = false → dec.keys.aesKey = none ∧ dec.keys.hmacKey = none ∧ dec.cache = []

theorem frames_request_empty (o : Option Bytes) (h : o = none ∨ o = some []) : frames true o = ([], none) := by
  rcases h with rfl | rfl
  · rfl
  · simp only [frames, if_true, C05.iterClient, C05.iterClientPackets_nil]

theorem sessionKeys_truthy (c : Crypto) (L : CryptoLaws c) (cl : Client) :
    truthy (sessionKeys c cl).aesKey = true ∧ truthy (sessionKeys c cl).hmacKey = true := by
  obtain ⟨k, hk, h, h1, h2⟩ := sessionKeys_facts c L cl
  rw [h]
  constructor
  · apply truthy_some_ne; intro h0; rw [h0] at h1; cases h1
  · apply truthy_some_ne; intro h0; rw [h0] at h2; cases h2

theorem lookup_append_single (l : List (Bytes × C06.Metadata)) (b b' : Bytes) (m m' : C06.Metadata)
    (h : (l ++ [(b', m')]).lookup b = some m) : l.lookup b = some m ∨ (b = b' ∧ m = m') := by
  induction l with
  | nil =>
    simp only [List.nil_append, List.lookup] at h
    split at h
    · rename_i heq
      injection h with h
      exact Or.inr ⟨by simpa using heq, h.symm⟩
    · cases h
  | cons x xs ih =>
    obtain ⟨k, v⟩ := x
    rw [List.cons_append, List.lookup] at h
    rw [List.lookup]
    split at h
    · exact Or.inl h
    · exact ih h

/-- the `if c2data.metadata and self.priv:` block on a blob that decrypts to the client's metadata -/
theorem metadataStep_checkin (c : Crypto) (L : CryptoLaws c) (cl : Client) (dec : Decoder) (known : Bool)
    (inv : Inv c cl dec known) (blob : Bytes)
    (hne : blob ≠ []) (hdec : C06.decryptMetadata c.asym blob = .ok (sentMetadata cl)) :
    ∃ dec' calls, metadataStep c dec (some blob) =
        ⟨if dec.hasPriv then [.metadata (sentMetadata cl)] else [], none, dec', calls⟩ ∧
      Inv c { cl with metadata := sentMetadata cl } dec' (known || dec.hasPriv) ∧
      dec'.hasPriv = dec.hasPriv ∧ dec'.verify = dec.verify := by
  cases hp : dec.hasPriv with
  | false =>
    refine ⟨dec, [], metadataStep_skip c dec _ (by simp [hp]), ?_, hp, rfl⟩
    rw [Bool.or_false]
    exact ⟨inv.cfg, inv.cacheOk, inv.keysKnown, inv.keysUnknown⟩
  | true =>
    have ht : (truthy (some blob) && dec.hasPriv) = true := by simp [truthy_some_ne hne, hp]
    rw [Bool.or_true]
    cases hl : dec.cache.lookup blob with
    | some m =>
      have hm : m = sentMetadata cl := by
        have := inv.cacheOk blob m hl
        rw [hdec] at this; injection this with this; exact this.symm
      have hk : known = true := by
        cases known with
        | true => rfl
        | false => have := (inv.keysUnknown rfl).2.2; rw [this] at hl; cases hl
      refine ⟨dec, [], ?_, ⟨inv.cfg, inv.cacheOk, fun _ => inv.keysKnown hk, fun h => by cases h⟩, hp, rfl⟩
      simp only [metadataStep, ht, if_true, Option.getD_some, hl, hm]
    | none =>
      cases hkn : known with
      | true =>
        have hkeys := inv.keysKnown hkn
        obtain ⟨t1, t2⟩ := sessionKeys_truthy c L cl
        rw [← hkeys] at t1 t2
        refine ⟨{ dec with cache := dec.cache ++ [(blob, sentMetadata cl)] }, [.rsaDec blob], ?_,
          ⟨inv.cfg, ?_, fun _ => hkeys, fun h => by cases h⟩, hp, rfl⟩
        · simp only [metadataStep, ht, if_true, Option.getD_some, hl, hdec, t1, t2, Bool.and_self]
        · intro b m hb
          rcases lookup_append_single _ _ _ _ _ hb with h | ⟨rfl, rfl⟩
          · exact inv.cacheOk b m h
          · exact hdec
      | false =>
        obtain ⟨u1, u2, _⟩ := inv.keysUnknown hkn
        have t1 : truthy dec.keys.aesKey = false := by rw [u1]; rfl
        refine ⟨{ dec with cache := dec.cache ++ [(blob, sentMetadata cl)], keys := derivedKeys c (sentMetadata cl).aes_rand },
          [.rsaDec blob, .sha256 (sentMetadata cl).aes_rand], ?_, ⟨inv.cfg, ?_, fun _ => rfl, fun h => by cases h⟩, hp, rfl⟩
        · simp only [metadataStep, ht, if_true, Option.getD_some, hl, hdec, t1, Bool.false_and, Bool.false_eq_true, if_false]
        · intro b m hb
          rcases lookup_append_single _ _ _ _ _ hb with h | ⟨rfl, rfl⟩
          · exact inv.cacheOk b m h
          · exact hdec

/-- the decoder's reaction to a check-in request whose recovered metadata blob decrypts to the client's metadata -/
theorem checkin_step (c : Crypto) (L : CryptoLaws c) (cl : Client) (dec : Decoder) (known : Bool)
    (inv : Inv c cl dec known) (r : Req) (blob : Bytes) (out : Option Bytes) (id : Option Bytes)
    (hrec : recoverStage dec.cfg (.request r) = .ok ⟨out, some blob, id⟩) (hout : out = none ∨ out = some [])
    (hne : blob ≠ []) (hdec : C06.decryptMetadata c.asym blob = .ok (sentMetadata cl)) :
    (iterRecoverMsg c dec none (.request r)).items = (if dec.hasPriv then [.metadata (sentMetadata cl)] else []) ∧
    (iterRecoverMsg c dec none (.request r)).exc = none ∧
    Inv c { cl with metadata := sentMetadata cl } (iterRecoverMsg c dec none (.request r)).dec (known || dec.hasPriv) ∧
    (iterRecoverMsg c dec none (.request r)).dec.hasPriv = dec.hasPriv ∧
    (iterRecoverMsg c dec none (.request r)).dec.verify = dec.verify := by
  obtain ⟨dec', calls, hms, hinv, h1, h2⟩ := metadataStep_checkin c L cl dec known inv blob hne hdec
  rw [iterRecoverMsg_of_recover c dec _ _ hrec, hms]
  simp only [isRequest, frames_request_empty out hout, decodePackets, List.append_nil, Option.map_none]
  exact ⟨trivial, trivial, hinv, h1, h2⟩


/-! ### messages without metadata: the packet loop -/

theorem iterRecoverMsg_packets (c : Crypto) (dec : Decoder) (http : Http) (c2 : C2Data)
    (hrec : recoverStage dec.cfg http = .ok c2) (hmeta : truthy c2.metadata = false) :
    (iterRecoverMsg c dec none http).items =
        (decodePackets c dec.keys dec.verify (isRequest http) (frames (isRequest http) c2.output).1).items ∧
    (iterRecoverMsg c dec none http).exc =
        (match (decodePackets c dec.keys dec.verify (isRequest http) (frames (isRequest http) c2.output).1).exc with
         | some e => some e
         | none => (frames (isRequest http) c2.output).2.map Exc.py) ∧
    (iterRecoverMsg c dec none http).dec = dec := by
  rw [iterRecoverMsg_of_recover c dec _ _ hrec, metadataStep_skip c dec _ (by simp [hmeta])]
  exact ⟨rfl, rfl, rfl⟩

/-- keys known: every packet of the message is yielded -/
theorem packets_step_known (c : Crypto) (cl : Client) (dec : Decoder) (inv : Inv c cl dec true) (http : Http)
    (c2 : C2Data) (hrec : recoverStage dec.cfg http = .ok c2) (hmeta : truthy c2.metadata = false)
    (pkts : List C05.Packet) (hfr : frames (isRequest http) c2.output = (pkts, none)) (items : List Item)
    (hdecode : (decodePackets c (sessionKeys c cl) dec.verify (isRequest http) pkts).items = items ∧
      (decodePackets c (sessionKeys c cl) dec.verify (isRequest http) pkts).exc = none) :
    (iterRecoverMsg c dec none http).items = items ∧ (iterRecoverMsg c dec none http).exc = none ∧
      (iterRecoverMsg c dec none http).dec = dec := by
  obtain ⟨h1, h2, h3⟩ := iterRecoverMsg_packets c dec http c2 hrec hmeta
  rw [hfr, inv.keysKnown rfl] at h1 h2
  rw [hdecode.1] at h1
  rw [hdecode.2] at h2
  exact ⟨h1, h2, h3⟩

/-- no keys yet: the first packet is refused with ValueError and nothing is yielded; no packet: nothing happens -/
theorem packets_step_unknown (c : Crypto) (cl : Client) (dec : Decoder) (inv : Inv c cl dec false) (http : Http)
    (c2 : C2Data) (hrec : recoverStage dec.cfg http = .ok c2) (hmeta : truthy c2.metadata = false)
    (pkts : List C05.Packet) (hfr : frames (isRequest http) c2.output = (pkts, none)) :
    (iterRecoverMsg c dec none http).items = [] ∧
      (iterRecoverMsg c dec none http).exc = (if pkts = [] then none else some (.py .valueError)) ∧
      (iterRecoverMsg c dec none http).dec = dec := by
  obtain ⟨h1, h2, h3⟩ := iterRecoverMsg_packets c dec http c2 hrec hmeta
  obtain ⟨u1, u2, _⟩ := inv.keysUnknown rfl
  have hk : dec.keys = ⟨none, none, dec.keys.iv⟩ := by
    cases hkk : dec.keys with
    | mk a h iv => rw [hkk] at u1 u2; simp only at u1 u2; rw [u1, u2]
  rw [hfr, hk] at h1 h2
  cases pkts with
  | nil =>
    simp only [decodePackets] at h1 h2
    exact ⟨h1, by simpa using h2, h3⟩
  | cons p ps =>
    obtain ⟨d1, d2, _⟩ := decodePackets_nokeys c dec.keys.iv dec.verify (isRequest http) p ps
    rw [d1] at h1
    rw [d2] at h2
    exact ⟨h1, by simpa using h2, h3⟩

/-! ### the wire: parse ∘ render is the identity on well-formed message objects (C16) -/

/-- the hypotheses of C16's round-trip theorems for a message object -/
def MsgWireOk : Http → Prop
  | .request r => C16.WellFormedReq httpVersion r.method r.uri r.params r.headers
  | .response hs _ => C16.WellFormedHeaders hs

theorem parse_wireOf (h : Http) (hw : MsgWireOk h) : parseInput (.raw (wireOf h)) = .ok h := by
  cases h with
  | request r =>
    have hr := C16.request_roundtrip httpVersion r.method r.uri r.params r.headers r.body hw
    simp only [parseInput, wireOf, wireRequest, hr, ofPy, Except.map, msgToHttp]
  | response hs b =>
    have hr : C16.WellFormedResp httpVersion [50, 48, 48] [79, 75] hs :=
      ⟨by decide, by decide, ⟨by decide, by decide, by decide⟩, by decide, hw⟩
    simp only [parseInput, wireOf, wireResponse, C16.response_roundtrip _ _ _ _ _ hr, ofPy, Except.map, msgToHttp]

theorem iterRecoverHttp_msg (c : Crypto) (dec : Decoder) (h : Http) :
    iterRecoverHttp c dec (.msg h) = iterRecoverMsg c dec none h := rfl

theorem iterRecoverHttp_wire (c : Crypto) (dec : Decoder) (h : Http) (hw : MsgWireOk h) :
    iterRecoverHttp c dec (.raw (wireOf h)) = iterRecoverMsg c dec none h := by
  simp only [iterRecoverHttp, parse_wireOf h hw]

theorem decodeAll_wire (c : Crypto) (dec : Decoder) (msgs : List Http) (hw : ∀ m ∈ msgs, MsgWireOk m) :
    decodeAll c dec (msgs.map fun m => .raw (wireOf m)) = decodeAll c dec (msgs.map Input.msg) := by
  induction msgs generalizing dec with
  | nil => rfl
  | cons m ms ih =>
    simp only [List.map_cons, decodeAll, iterRecoverHttp_wire c dec m (hw m (by simp)), iterRecoverHttp_msg]
    rw [ih _ (fun m' h' => hw m' (by simp [h']))]

/-! ### sessions -/

/-- what a history may contain: tasks whose size field is right, callback counters / ids / lengths that fit 32 bits -/
def EventOk (counter : Nat) : Event → Prop
  | .checkin _ _ => True
  | .task none _ => True
  | .task (some t) _ => TaskOk t
  | .callbacks cbs _ => counter + cbs.length < 2 ^ 32 ∧ ∀ cb ∈ cbs, cb.1 < 2 ^ 32 ∧ cb.2.length + 64 < 2 ^ 32

/-- the client's callback counter after an event -/
def counterAfter (counter : Nat) : Event → Nat
  | .callbacks cbs _ => counter + cbs.length
  | _ => counter

def EventsOk : Nat → List Event → Prop
  | _, [] => True
  | n, ev :: evs => EventOk n ev ∧ EventsOk (counterAfter n ev) evs

/-- What decoding the message of one event must give: `sent` = the packets sent in it.  A check-in yields its metadata iff
the RSA private key is there; tasks and callbacks are yielded iff the session keys are known, else ValueError and nothing. -/
def expected (hasPriv known : Bool) (sent : List Item) : Event → List Item × Option Exc
  | .checkin _ _ => (if hasPriv then sent else [], none)
  | _ => if known || sent.isEmpty then (sent, none) else ([], some (.py .valueError))

/-- the keys are known after the first check-in seen by a decoder that has the RSA private key -/
def knownAfter (hasPriv known : Bool) : Event → Bool
  | .checkin _ _ => known || hasPriv
  | _ => known

def expectedTrace (hasPriv : Bool) : Bool → List Event → List (Http × List Item) → List (List Item × Option Exc)
  | known, ev :: evs, (_, sent) :: rest =>
    expected hasPriv known sent ev :: expectedTrace hasPriv (knownAfter hasPriv known ev) evs rest
  | _, _, _ => []

theorem packet_roundtrip (c : Crypto) (L : CryptoLaws c) (k hk : Bytes) (hk16 : k.length = 16) (hne : hk ≠ [])
    (verify : Bool) (pt : Bytes) :
    ∃ pkt, C05.encryptPacket c.sym pt (some k) (some hk) Gen.C2Struct.defaultAesIv = .ok pkt ∧
      pkt.signature.length = 16 ∧
      (C05.decryptPacketT c.sym pkt (some k) (some hk) Gen.C2Struct.defaultAesIv verify).1 = .ok (C05.pad pt) := by
  obtain ⟨ct, _, _, hct3, hct4⟩ := C05.encrypt_packet_ok c.sym L.sym pt k hk Gen.C2Struct.defaultAesIv
    (Or.inl hk16) defaultIv_length
  have hsig : (C05.mac16 c.sym hk ct).length = 16 := by
    simp only [C05.mac16, List.length_take, L.sym.hmac_len]; rfl
  refine ⟨⟨ct, C05.mac16 c.sym hk ct⟩, by simp [C05.encryptPacket, hct4], hsig, ?_⟩
  show C05.decryptPacket c.sym ⟨ct, C05.mac16 c.sym hk ct⟩ (some k) (some hk) Gen.C2Struct.defaultAesIv verify = .ok _
  cases verify with
  | true =>
    rw [C05.verify_decision, if_pos ⟨hne, rfl⟩]
    simpa [C05.decryptData, C05.decryptDataT] using hct3
  | false => simpa [C05.decryptPacket, C05.decryptPacketT, C05.decryptDataT] using hct3

theorem wellFormedClient_sent (c : Crypto) (cl : Client) (wc : WellFormedClient c cl) :
    WellFormedClient c { cl with metadata := sentMetadata cl } :=
  ⟨C06.inWidth_setSize _ _ wc.inWidth wc.infoSmall, wc.aesLen, wc.magic, wc.fits, wc.infoSmall, wc.keys, wc.getUri⟩

theorem wellFormedClient_counter (c : Crypto) (cl : Client) (wc : WellFormedClient c cl) (n : Nat) :
    WellFormedClient c { cl with counter := n } :=
  ⟨wc.inWidth, wc.aesLen, wc.magic, wc.fits, wc.infoSmall, wc.keys, wc.getUri⟩

theorem inv_counter (c : Crypto) (cl : Client) (dec : Decoder) (known : Bool) (inv : Inv c cl dec known) (n : Nat) :
    Inv c { cl with counter := n } dec known :=
  ⟨inv.cfg, inv.cacheOk, inv.keysKnown, inv.keysUnknown⟩

end C07

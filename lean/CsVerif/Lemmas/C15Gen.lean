import CsVerif.Model.C15Gen
import CsVerif.Lemmas.PyUFile
import CsVerif.Lemmas.C15
import CsVerif.Props.C20Gen
import Mathlib.Tactic.SplitIfs
/-! Helper lemmas for Props/C15Gen.lean: the file-object operations of `PyU` (Model/PyU_T15.lean) against `PyFile`, `PyU.find`
against `C15.bytesFind?`, and the definitions of `Gen/PyScan.lean` translated from `utils.iter_find_needle` /
`artifact.iter_artifactkit_payloads` against `C15.iterFindNeedle` / `C15.iterArtifactkit` (loop by loop: `gen_iter_find_needle_loop2` the inner
`find` loop against `findLoop`, `gen_iter_find_needle_loop1` the block loop against `needleLoop`, `gen_iter_artifactkit_payloads_body` one iteration of the ArtifactKit loop
against `artStep`, `gen_iter_artifactkit_payloads_loop` that loop against `artLoop`).  No property statements. -/
namespace C15Gen
open PyU
set_option linter.unusedSimpArgs false

/-! find -/
theorem findFrom_eq (needle hay : Bytes) (i : Nat) : findFrom needle hay i = C15.findAux needle hay i := by
  induction hay generalizing i with
  | nil => unfold findFrom C15.findAux; rfl
  | cons x t ih => unfold findFrom C15.findAux; simp only [ih]

theorem findList_nat (hay needle : Bytes) (s : Nat) :
    findList hay needle (s : Int) = (match C15.bytesFind? hay needle s with | some i => (i : Int) | none => -1) := by
  have h : ¬ ((s : Int) < 0) := by omega
  simp only [findList, h, if_false, Int.toNat_natCast, C15.bytesFind?, findFrom_eq]
  split <;> rfl

theorem find_bytes (hay needle : Bytes) (s : Nat) :
    PyU.find (.bytes hay) (.bytes needle) (.int (s : Int))
      = .ok (.int (match C15.bytesFind? hay needle s with | some i => (i : Int) | none => -1)) := by
  simp only [PyU.find, bound, asInt, Option.getD, findList_nat]

/-- the inner `find` loop -/
theorem gen_iter_find_needle_loop2 (B : V) (d needle saved : Bytes) (maxOff pos : Nat) (start : Nat) :
    ∀ (ys : List V) (p : Int) (fuel : Nat), p + 1 = start → d.length + 2 - start < fuel →
    ∃ p', whileFuel fuel (Gen.PyScan.iter_find_needle_loop2 B (.bytes needle) (.int (maxOff : Int)) (.bytes saved)
        (.int (pos : Int)) (.bytes d)) (.list ys, .int p)
      = .ok (.list (ys ++ (C15.findLoop d needle maxOff pos saved.length start).map .int), p') := by
  fun_induction C15.findLoop d needle maxOff pos saved.length start with
  | case1 start h =>
    intro ys p fuel hp hf
    obtain ⟨fu, rfl⟩ : ∃ fu, fuel = fu + 1 := ⟨fuel - 1, by omega⟩
    refine ⟨.int (-1), ?_⟩
    simp only [whileFuel, Gen.PyScan.iter_find_needle_loop2, PyU.add, asInt, hp, find_bytes, h, PyRt.ok_bind, PyU.eq, pure_ok]
    simp
  | case2 start q h hcut =>
    intro ys p fuel hp hf
    obtain ⟨fu, rfl⟩ : ∃ fu, fuel = fu + 1 := ⟨fuel - 1, by omega⟩
    refine ⟨.int q, ?_⟩
    simp only [whileFuel, Gen.PyScan.iter_find_needle_loop2, PyU.add, asInt, hp, find_bytes, h, PyRt.ok_bind, PyU.eq, pure_ok]
    have h1 : decide (maxOff ≠ 0) = true := by simpa using hcut.1
    have h2 : maxOff < q := hcut.2
    simp [nat_ne_neg1, truthy_nat, gt_int, h1, h2]
  | case3 start q h hcut ih =>
    intro ys p fuel hp hf
    obtain ⟨fu, rfl⟩ : ∃ fu, fuel = fu + 1 := ⟨fuel - 1, by omega⟩
    have hb := C15.bytesFind?_bounds _ _ _ _ h
    obtain ⟨p', hp'⟩ := ih (ys ++ [.int ((pos : Int) + (q : Int) - (saved.length : Int))]) (q : Int) fu rfl (by omega)
    refine ⟨p', ?_⟩
    simp only [whileFuel, Gen.PyScan.iter_find_needle_loop2, PyU.add, asInt, hp, find_bytes, h, PyRt.ok_bind, PyU.eq, pure_ok]
    simp only [nat_ne_neg1, truthy_nat, gt_int, len_bytes, sub_int, PyRt.ok_bind, yieldTo, Bool.not_false, if_true]
    rw [List.append_assoc, List.singleton_append] at hp'
    by_cases hm : maxOff = 0
    · subst hm
      simpa using hp'
    · have h2 : ¬ maxOff < q := by omega
      simpa [hm, h2] using hp'


theorem nextSaved_gen (needle d : Bytes) :
    (do
      let t18 ← PyU.gt (.int ((needle.length : Int) - 1)) (V.int 0)
      let mut t23 := V.none
      if t18 then
        let t22 ← PyU.neg (.int ((needle.length : Int) - 1))
        let t21 ← PyU.slice (.bytes d) t22 V.none
        t23 := t21
      else
        t23 := (V.bytes [])
      pure t23 : Py V) = .ok (.bytes (C15.nextSaved needle d)) := by
  simp only [gt_int, PyRt.ok_bind, C15.nextSaved, C15.overlapLen, PyU.neg, asInt]
  by_cases h : (0 : Int) < (needle.length : Int) - 1
  · have h' : (needle.length : Int) - 1 > 0 := h
    simp only [h, h', decide_true, if_true, slice_from_neg d (-((needle.length : Int) - 1)) (by omega), PyRt.ok_bind, pure_ok]
  · have h' : ¬ (needle.length : Int) - 1 > 0 := h
    simp only [h, h', decide_false, Bool.false_eq_true, if_false, pure_ok]


theorem gen_iter_find_needle_loop1 (B : Nat) (needle : Bytes) (maxOff : Nat) (fuel0 : Nat) (f : PyFile) (saved : Bytes) :
    ∀ (ys : List V) (fuel : Nat),
      saved.length + (f.data.length - f.pos) + 2 < fuel0 → (f.data.length - f.pos) < fuel →
      ∃ s', whileFuel fuel (Gen.PyScan.iter_find_needle_loop1 (.int (B : Int)) fuel0 (.bytes needle) (.int (maxOff : Int))
          (.int ((needle.length : Int) - 1))) (encFile f, .list ys, .bytes saved)
        = .ok (encFile (C15.needleLoop B needle maxOff f saved).2,
               .list (ys ++ (C15.needleLoop B needle maxOff f saved).1.map .int), s') := by
  fun_induction C15.needleLoop B needle maxOff f saved with
  | case1 f saved pos hlim =>
    intro ys fuel h0 hf
    obtain ⟨fu, rfl⟩ : ∃ fu, fuel = fu + 1 := ⟨fuel - 1, by omega⟩
    have h1 : decide (maxOff ≠ 0) = true := by simpa using hlim.1
    have h2 : maxOff < f.pos := hlim.2
    refine ⟨.bytes saved, ?_⟩
    simp [whileFuel, Gen.PyScan.iter_find_needle_loop1, fileTell_enc, truthy_nat, gt_int, h1, h2, pure_ok]
  | case2 f saved pos hlim hemp =>
    intro ys fuel h0 hf
    obtain ⟨fu, rfl⟩ : ∃ fu, fuel = fu + 1 := ⟨fuel - 1, by omega⟩
    refine ⟨.bytes saved, ?_⟩
    have hl : ¬ (maxOff ≠ 0 ∧ maxOff < f.pos) := hlim
    simp only [whileFuel, Gen.PyScan.iter_find_needle_loop1, fileTell_enc, truthy_nat, gt_int, fileRead_nat, hemp, truthy_bytes, pure_ok, PyRt.ok_bind]
    by_cases hm : maxOff = 0
    · simp [hm]
    · have h2 : ¬ maxOff < f.pos := by omega
      simp [hm, h2]
  | case3 f saved pos hlim hne block d offs rest ih =>
    intro ys fuel h0 hf
    obtain ⟨fu, rfl⟩ : ∃ fu, fuel = fu + 1 := ⟨fuel - 1, by omega⟩
    have hprog := C15.read_progress f B hne
    have hpos : (f.read (B : Int)).2.pos = f.pos + block.length := PyFile.read_pos f B
    have hdata : (f.read (B : Int)).2.data = f.data := PyFile.read_data f B
    have hblk : 0 < block.length := List.length_pos_iff.mpr hne
    have hdl : d.length = saved.length + block.length := List.length_append
    have hns : (C15.nextSaved needle d).length ≤ d.length := by
      rw [C15.nextSaved_eq]; simp only [List.length_drop]; omega
    rw [hpos, hdata] at hprog
    have hble : block.length ≤ f.data.length - f.pos := by
      have : block = (f.data.drop f.pos).take B := PyFile.read_nonneg f B
      rw [this]; simp only [List.length_take, List.length_drop]; omega
    have hfu0 : (saved ++ block).length + 2 - 0 < fuel0 := by
      simp only [List.length_append]; omega
    have hfu1 : (C15.nextSaved needle (saved ++ block)).length + (f.data.length - (f.pos + block.length)) + 2 < fuel0 := by
      have : (C15.nextSaved needle (saved ++ block)).length ≤ saved.length + block.length := by
        rw [← List.length_append]; exact hns
      omega
    obtain ⟨p', hp'⟩ := gen_iter_find_needle_loop2 (.int (B : Int)) d needle saved maxOff f.pos 0 ys (-1) fuel0 (by rfl) hfu0
    obtain ⟨s', hs'⟩ := ih (ys ++ offs.map .int) fu (by rw [hpos, hdata]; exact hfu1) (by rw [hpos, hdata]; omega)
    refine ⟨s', ?_⟩
    have hl : ¬ (maxOff ≠ 0 ∧ maxOff < f.pos) := hlim
    have hbe : block.isEmpty = false := by
      cases hb : block with
      | nil => rw [hb] at hblk; simp at hblk
      | cons _ _ => rfl
    have hlim' : (if decide (maxOff ≠ 0) = true then decide ((maxOff : Int) < (f.pos : Int)) else decide (maxOff ≠ 0)) = false := by
      by_cases hm : maxOff = 0
      · simp [hm]
      · have h2 : ¬ maxOff < f.pos := by omega
        simp [hm, h2]
    simp only [whileFuel, Gen.PyScan.iter_find_needle_loop1, fileTell_enc, truthy_nat, gt_int, fileRead_nat, truthy_bytes, pure_ok, PyRt.ok_bind,
      add_bytes]
    have hbe' : List.isEmpty (f.read (B : Int)).fst = false := hbe
    have hp'' : whileFuel fuel0
      (Gen.PyScan.iter_find_needle_loop2 (V.int ↑B) (V.bytes needle) (V.int ↑maxOff) (V.bytes saved) (V.int ↑f.pos)
        (V.bytes (saved ++ (f.read (B : Int)).fst)))
      (V.list ys, V.int (-1)) =
      Except.ok (V.list (ys ++ List.map V.int (C15.findLoop (saved ++ (f.read (B : Int)).fst) needle maxOff f.pos (List.length saved) 0)), p') := hp'
    have hs'' : whileFuel fu
      (Gen.PyScan.iter_find_needle_loop1 (V.int ↑B) fuel0 (V.bytes needle) (V.int ↑maxOff)
        (V.int (↑(List.length needle) - 1)))
      (encFile (f.read ↑B).snd, V.list (ys ++ List.map V.int (C15.findLoop (saved ++ (f.read (B : Int)).fst) needle maxOff f.pos (List.length saved) 0)),
        V.bytes (C15.nextSaved needle (saved ++ (f.read (B : Int)).fst))) =
      Except.ok (encFile rest.snd, V.list (ys ++ List.map V.int (offs ++ rest.fst)), s') := by
      refine hs'.trans ?_
      simp only [List.map_append, List.append_assoc]; rfl
    have hbody : ∀ (X : V), (if decide (0 < (needle.length : Int) - 1) = true then do
                let t22 ← neg (V.int (↑(List.length needle) - 1))
                let t21 ← slice (V.bytes (saved ++ (f.read ↑B).fst)) t22 V.none
                (Except.ok (Ctl.cont, encFile (f.read ↑B).snd, X, t21) : Py (Ctl × V × V × V))
              else Except.ok (Ctl.cont, encFile (f.read ↑B).snd, X, V.bytes []))
        = .ok (Ctl.cont, encFile (f.read ↑B).snd, X, V.bytes (C15.nextSaved needle (saved ++ (f.read (B : Int)).fst))) := by
      intro X
      simp only [C15.nextSaved, C15.overlapLen, PyU.neg, asInt]
      by_cases h : (0 : Int) < (needle.length : Int) - 1
      · have h' : (needle.length : Int) - 1 > 0 := h
        simp only [h, h', decide_true, if_true, slice_from_neg _ (-((needle.length : Int) - 1)) (by omega), PyRt.ok_bind]
      · have h' : ¬ (needle.length : Int) - 1 > 0 := h
        simp only [h, h', decide_false, Bool.false_eq_true, if_false]
    simp only [hbe', hp'', PyRt.ok_bind, hbody, Bool.not_false, Bool.not_true, Bool.false_eq_true, if_false]
    by_cases hm : maxOff = 0
    · have hd : decide (maxOff ≠ 0) = false := by simp [hm]
      simp only [hd, Bool.false_eq_true, if_false]
      exact hs''
    · have h2 : ¬ maxOff < f.pos := by omega
      have h3 : ¬ ((maxOff : Int) < (f.pos : Int)) := by omega
      simp only [hm, ne_eq, not_false_eq_true, decide_true, if_true, h3, decide_false, Bool.false_eq_true, if_false]
      exact hs''


theorem gen_iter_find_needle_proof (B : Nat) (f : PyFile) (needle : Bytes) (start : Option Int) (maxOff : Nat) (fuel : Nat)
    (hf : f.data.length + 3 ≤ fuel) :
    Gen.PyScan.iter_find_needle (.int (B : Int)) fuel (encFile f) (.bytes needle) (encOptInt start) (.int (maxOff : Int))
      = (C15.iterFindNeedle B f needle start maxOff).map encNeedle := by
  unfold Gen.PyScan.iter_find_needle
  cases start with
  | none =>
    obtain ⟨s', hs'⟩ := gen_iter_find_needle_loop1 B needle maxOff fuel f [] [] fuel (by simp; omega) (by omega)
    simp only [encOptInt, isNone, len_bytes, sub_int, PyRt.ok_bind, Bool.not_true, Bool.false_eq_true, if_false, hs', pure_ok,
      C15.iterFindNeedle, Except.map, encNeedle, List.nil_append]
  | some s =>
    simp only [encOptInt, isNone, len_bytes, sub_int, PyRt.ok_bind, Bool.not_false, if_true, fileSeek_set, C15.iterFindNeedle]
    cases hsk : f.seekSet s with
    | error e => rfl
    | ok r =>
      obtain ⟨n, f'⟩ := r
      have hd : f'.data = f.data := by
        unfold PyFile.seekSet at hsk
        split at hsk
        · cases hsk
        · injection hsk with hsk; injection hsk with _ h2; rw [← h2]
      obtain ⟨s', hs'⟩ := gen_iter_find_needle_loop1 B needle maxOff fuel f' [] [] fuel (by rw [hd]; simp; omega) (by rw [hd]; omega)
      simp only [Except.map, PyRt.ok_bind, hs', pure_ok, encNeedle, List.nil_append]


/-! ### iter_artifactkit_payloads -/

theorem u32_bytes (d : Bytes) : Gen.PyScan.u32 (.bytes d) = .ok (.int (C15.u32 d)) := by
  have := C20Gen.gen_u32 d .little false
  simp only [C20Gen.orderStr] at this
  simp only [Gen.PyScan.u32, liftBytesInt, this, Except.map, C15.u32]

theorem xor_bytes (d k : Bytes) : Gen.PyScan.xor (.bytes d) (.bytes k) = .ok (.bytes (C20.xor d k)) := by
  simp only [Gen.PyScan.xor, liftXor, C20Gen.gen_xor, Except.map]

theorem u32_nonneg (d : Bytes) : 0 ≤ C15.u32 d := by rw [C15.u32_eq]; omega

/-- the loop body after the `maxrange` test and `fobj.seek(pos)` -/
theorem gen_iter_artifactkit_payloads_body_aux (g : PyFile) (pos : Nat) (ys : List V) :
    (do
        let t6 ← fileRead (encFile g) (V.int 4)
        if (!!truthy t6.fst) = true then do
            let t7 ← len t6.fst
            if (!eq t7 (V.int 4)) = true then pure (Ctl.brk, t6.snd, V.list ys, V.int ↑pos)
              else do
                let t9 ← add (V.int ↑pos) (V.int 16)
                let t10 ← Gen.PyScan.u32 t6.fst
                if eq t9 t10 = true then do
                    let t11 ← fileRead t6.snd (V.int 4)
                    let t12 ← Gen.PyScan.u32 t11.fst
                    let t13 ← fileRead t11.snd (V.int 4)
                    let t14 ← fileRead t13.snd (V.int 8)
                    let t15 ← fileRead t14.snd t12
                    let t16 ← Gen.PyScan.xor t15.fst t13.fst
                    let t17 ← iadd (V.int ↑pos) (V.int 1)
                    pure
                        (Ctl.cont, t15.snd,
                          yieldTo (V.list ys)
                            (V.inst Gen.PyScan.ArtifactKitPayload [V.int ↑pos, t12, t13.fst, t14.fst, t16]),
                          t17)
                  else do
                    let t17 ← iadd (V.int ↑pos) (V.int 1)
                    pure (Ctl.cont, t6.snd, V.list ys, t17)
          else
            if (!truthy t6.fst) = true then pure (Ctl.brk, t6.snd, V.list ys, V.int ↑pos)
            else do
              let t9 ← add (V.int ↑pos) (V.int 16)
              let t10 ← Gen.PyScan.u32 t6.fst
              if eq t9 t10 = true then do
                  let t11 ← fileRead t6.snd (V.int 4)
                  let t12 ← Gen.PyScan.u32 t11.fst
                  let t13 ← fileRead t11.snd (V.int 4)
                  let t14 ← fileRead t13.snd (V.int 8)
                  let t15 ← fileRead t14.snd t12
                  let t16 ← Gen.PyScan.xor t15.fst t13.fst
                  let t17 ← iadd (V.int ↑pos) (V.int 1)
                  pure
                      (Ctl.cont, t15.snd,
                        yieldTo (V.list ys)
                          (V.inst Gen.PyScan.ArtifactKitPayload [V.int ↑pos, t12, t13.fst, t14.fst, t16]),
                        t17)
                else do
                  let t17 ← iadd (V.int ↑pos) (V.int 1)
                  pure (Ctl.cont, t6.snd, V.list ys, t17) : Py (Ctl × V × V × V)) =
    match
      (if List.length (g.read 4).fst ≠ 4 then
        Except.ok (none, (g.read 4).snd)
      else
        if ↑pos + 16 = C15.u32 (g.read 4).fst then
          Except.ok
            (some [(C15.readHit (g.read 4).snd pos).fst],
              (C15.readHit (g.read 4).snd pos).snd)
        else Except.ok (some [], (g.read 4).snd) : Py (Option (List C15.Hit) × PyFile)) with
    | Except.error e => Except.error e
    | Except.ok (none, f') => Except.ok (Ctl.brk, encFile f', V.list ys, V.int ↑pos)
    | Except.ok (some hs, f') => Except.ok (Ctl.cont, encFile f', V.list (ys ++ List.map encHit hs), V.int (↑pos + 1)) := by
  simp only [fileRead_4, PyRt.ok_bind, truthy_bytes, len_bytes, eq_int, add_int, u32_bytes, iadd_int, pure_ok, Bool.not_not]
  by_cases hl : (g.read 4).1.length = 4
  · have hne : (g.read 4).1.isEmpty = false := by
      cases hb : (g.read 4).1 with
      | nil => rw [hb] at hl; simp at hl
      | cons _ _ => rfl
    simp only [hne, hl, Bool.not_false, if_true, ne_eq, not_true_eq_false, if_false]
    by_cases hu : (pos : Int) + 16 = C15.u32 (g.read 4).1
    · have hb : (((pos : Int) + 16) == C15.u32 (g.read 4).1) = true := by simpa using hu
      have hsz := u32_nonneg ((g.read 4).2.read 4).1
      simp only [hb, hu, if_true, C15.readHit, fileRead_8, u32_bytes, PyRt.ok_bind, xor_bytes, yieldTo, List.map_cons, List.map_nil, encHit,
        fileRead_enc _ (C15.u32 ((g.read 4).2.read 4).1) (Or.inl (by omega)), Int.toNat_of_nonneg hsz]
      simp
    · have hb : (((pos : Int) + 16) == C15.u32 (g.read 4).1) = false := by simpa using hu
      simp only [hb, hu, if_false, Bool.false_eq_true, List.map_nil, List.append_nil]
      simp
  · have hl' : (((g.read 4).1.length : Int) == 4) = false := by
      simp only [beq_eq_false_iff_ne, ne_eq]; omega
    simp only [hl, hl', ne_eq, not_false_eq_true, if_true, Bool.not_false]
    cases (g.read 4).1.isEmpty <;> simp

theorem gen_iter_artifactkit_payloads_body (mr : Option Nat) (f : PyFile) (pos : Nat) (ys : List V) (hpr : C15.pastRange mr pos = false) :
    Gen.PyScan.iter_artifactkit_payloads_loop1 (encOptNat mr) (encFile f, .list ys, .int (pos : Int)) =
      match C15.artStep f pos with
      | .error e => .error e
      | .ok (none, f') => .ok (.brk, encFile f', .list ys, .int (pos : Int))
      | .ok (some hs, f') => .ok (.cont, encFile f', .list (ys ++ hs.map encHit), .int ((pos : Int) + 1)) := by
  have hgt : (!(isNone (encOptNat mr))) = true → PyU.gt (.int (pos : Int)) (encOptNat mr) = .ok false := by
    cases mr with
    | none => intro h; simp [encOptNat, isNone] at h
    | some m =>
      intro _
      simp only [C15.pastRange, decide_eq_false_iff_not] at hpr
      simp only [encOptNat, gt_int]
      congr 1
      simp only [decide_eq_false_iff_not]; omega
  have hsk : fileSeek (encFile f) (.int (pos : Int)) (.int 0) = .ok (.int (pos : Int), encFile { f with pos := pos }) := by
    rw [fileSeek_set, PyFile.seekSet_ok]; rfl
  unfold Gen.PyScan.iter_artifactkit_payloads_loop1 C15.artStep
  rw [PyFile.seekSet_ok]
  simp only [hsk, PyRt.ok_bind]
  generalize ({ f with pos := pos } : PyFile) = g
  by_cases hn : (!isNone (encOptNat mr)) = true
  · simp only [hn, if_true, hgt hn, PyRt.ok_bind, Bool.false_eq_true, if_false]
    exact gen_iter_artifactkit_payloads_body_aux g pos ys
  · simp only [hn, if_false]
    exact gen_iter_artifactkit_payloads_body_aux g pos ys


theorem gen_iter_artifactkit_payloads_loop (mr : Option Nat) (f : PyFile) (pos : Nat) :
    ∀ (ys : List V) (fuel : Nat), f.data.length - pos < fuel →
      match C15.artLoop mr f pos with
      | .error e => whileFuel fuel (Gen.PyScan.iter_artifactkit_payloads_loop1 (encOptNat mr)) (encFile f, .list ys, .int (pos : Int)) = .error e
      | .ok r => ∃ s', whileFuel fuel (Gen.PyScan.iter_artifactkit_payloads_loop1 (encOptNat mr)) (encFile f, .list ys, .int (pos : Int))
          = .ok (encFile r.2, .list (ys ++ r.1.map encHit), s') := by
  fun_induction C15.artLoop mr f pos with
  | case1 f pos hpr =>
    intro ys fuel hf
    obtain ⟨fu, rfl⟩ : ∃ fu, fuel = fu + 1 := ⟨fuel - 1, by omega⟩
    refine ⟨.int (pos : Int), ?_⟩
    cases mr with
    | none => simp [C15.pastRange] at hpr
    | some m =>
      have : m < pos := by simpa [C15.pastRange] using hpr
      simp [whileFuel, Gen.PyScan.iter_artifactkit_payloads_loop1, encOptNat, isNone, gt_int, this, pure_ok]
  | case2 f pos hpr e h =>
    intro ys fuel hf
    obtain ⟨fu, rfl⟩ : ∃ fu, fuel = fu + 1 := ⟨fuel - 1, by omega⟩
    have hpr' : C15.pastRange mr pos = false := by simpa using hpr
    simp only [whileFuel, gen_iter_artifactkit_payloads_body mr f pos ys hpr', h]
  | case3 f pos hpr f' h =>
    intro ys fuel hf
    obtain ⟨fu, rfl⟩ : ∃ fu, fuel = fu + 1 := ⟨fuel - 1, by omega⟩
    have hpr' : C15.pastRange mr pos = false := by simpa using hpr
    refine ⟨.int (pos : Int), ?_⟩
    simp only [whileFuel, gen_iter_artifactkit_payloads_body mr f pos ys hpr', h, List.map_nil, List.append_nil]
  | case4 f pos hpr hs f' h e hrec ih =>
    intro ys fuel hf
    obtain ⟨fu, rfl⟩ : ∃ fu, fuel = fu + 1 := ⟨fuel - 1, by omega⟩
    have hpr' : C15.pastRange mr pos = false := by simpa using hpr
    have h1 := C15.artStep_data h
    have h2 := C15.artStep_some h
    have := ih (ys ++ hs.map encHit) fu (by rw [h1]; omega)
    rw [hrec] at this
    simp only [whileFuel, gen_iter_artifactkit_payloads_body mr f pos ys hpr', h]
    exact this
  | case5 f pos hpr hs f' h rest ff hrec ih =>
    intro ys fuel hf
    obtain ⟨fu, rfl⟩ : ∃ fu, fuel = fu + 1 := ⟨fuel - 1, by omega⟩
    have hpr' : C15.pastRange mr pos = false := by simpa using hpr
    have h1 := C15.artStep_data h
    have h2 := C15.artStep_some h
    have := ih (ys ++ hs.map encHit) fu (by rw [h1]; omega)
    rw [hrec] at this
    obtain ⟨s', hs'⟩ := this
    refine ⟨s', ?_⟩
    simp only [whileFuel, gen_iter_artifactkit_payloads_body mr f pos ys hpr', h]
    rw [show ((pos : Int) + 1) = ((pos + 1 : Nat) : Int) by omega, hs']
    simp only [List.map_append, List.append_assoc]

theorem gen_iter_artifactkit_payloads_proof (f : PyFile) (start : Option Int) (maxrange : Option Nat) (fuel : Nat)
    (hf : f.data.length + 1 ≤ fuel) :
    Gen.PyScan.iter_artifactkit_payloads fuel (encFile f) (encOptInt start) (encOptNat maxrange)
      = (C15.iterArtifactkit f start maxrange).map encArt := by
  unfold Gen.PyScan.iter_artifactkit_payloads
  cases start with
  | none =>
    have := gen_iter_artifactkit_payloads_loop maxrange f f.tell [] fuel (by omega)
    simp only [encOptInt, isNone, Bool.not_true, Bool.false_eq_true, if_false, fileTell_enc, PyRt.ok_bind, C15.iterArtifactkit]
    cases hl : C15.artLoop maxrange f f.tell with
    | error e => rw [hl] at this; simp only [PyFile.tell] at this; rw [this]; rfl
    | ok r =>
      rw [hl] at this
      obtain ⟨s', hs'⟩ := this
      simp only [PyFile.tell] at hs'
      simp only [hs', PyRt.ok_bind, pure_ok, Except.map, encArt, List.nil_append]
  | some s =>
    simp only [encOptInt, isNone, Bool.not_false, if_true, fileSeek_set, C15.iterArtifactkit]
    cases hsk : f.seekSet s with
    | error e => rfl
    | ok r =>
      obtain ⟨n, f'⟩ := r
      have hd : f'.data = f.data := by
        unfold PyFile.seekSet at hsk
        split at hsk
        · cases hsk
        · injection hsk with hsk; injection hsk with _ h2; rw [← h2]
      have := gen_iter_artifactkit_payloads_loop maxrange f' f'.tell [] fuel (by rw [hd]; omega)
      simp only [Except.map, PyRt.ok_bind, fileTell_enc]
      cases hl : C15.artLoop maxrange f' f'.tell with
      | error e => rw [hl] at this; simp only [PyFile.tell] at this; rw [this]; rfl
      | ok r =>
        rw [hl] at this
        obtain ⟨s', hs'⟩ := this
        simp only [PyFile.tell] at hs'
        simp only [hs', PyRt.ok_bind, pure_ok, encArt, List.nil_append]

end C15Gen

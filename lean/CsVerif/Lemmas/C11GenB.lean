import CsVerif.Lemmas.C11Gen
/-! Helper lemmas for Props/C11Gen.lean, second part: the block-builder methods of `Gen/PyC2Dict.lean` (translated from `ConfigBlock`,
`C2Profile.set_option`, `DataTransformBlock`, `from_execute_list`, `from_beacon_gate_option_strings`) against the nodes the model
appends (`C11.optNode`, `globalOptNode`, `pairNodes`, `enableNode`, `dtForest`, `execForest`, `gateForest`, `buildCalls`).
No property statements. -/
namespace C11Gen
open PyU
set_option linter.unusedSimpArgs false

/-! ### `value_to_string` as the external function of the builders -/
def V2sSpec (f : V → Py V) : Prop := ∀ v : C11.PyVal, f (encPyVal v) = .ok (.str (C11.valueToString v))

theorem replaceGo_eq (old new : C10.Text) : ∀ (s : C10.Text) (k : Nat), PyU.replaceGo old new s k = C11.replaceGo old new s k
  | [], k => by simp [PyU.replaceGo, C11.replaceGo]
  | c :: cs, k + 1 => by simp only [PyU.replaceGo, C11.replaceGo, replaceGo_eq old new cs k]
  | c :: cs, 0 => by
    simp only [PyU.replaceGo, C11.replaceGo, replaceGo_eq old new cs (old.length - 1), replaceGo_eq old new cs 0]

theorem value_to_string_str (s : C10.Text) : Gen.PyC2Prof.value_to_string (.str s) = .ok (.str (C11.valueToStringStr s)) := by
  have h1 : PyU.lit "\"" = .str [34] := by decide
  have h2 : PyU.lit "\\\"" = .str [92, 34] := by decide
  have h3 : PyU.lit "\\'" = .str [92, 39] := by decide
  have h4 : PyU.lit "'" = .str [39] := by decide
  have h5 : PyU.cps "\"" = [34] := by decide
  simp only [Gen.PyC2Prof.value_to_string, PyU.isInstance, List.any, PyU.isInst1, Bool.or_false, Bool.false_eq_true, if_false,
    if_true, h1, h2, h3, h4, h5, PyU.strReplace, PyRt.ok_bind, PyU.fmt, beq_self_eq_true, PyU.replaceL, List.isEmpty_cons,
    replaceGo_eq, C11.valueToStringStr, C11.strReplace]
  rfl

theorem v2sG_spec : V2sSpec v2sG := by
  intro v
  cases v with
  | str s => exact value_to_string_str s
  | bytes b =>
    simp only [v2sG, encPyVal, C12Gen.gen_value_to_string_proof, C12Gen.latin, C11.valueToString]


/-! ### the builder methods -/
/-- `mk kids` is an object whose attribute `tree` is the Lark tree with the label `lbl` and the children `kids` -/
structure Holder (lbl : V) (mk : List V → V) : Prop where
  get : ∀ k, PyU.getAttr (mk k) "tree" = .ok (treeV lbl k)
  set : ∀ k k', PyU.setAttrObj (mk k) "tree" (treeV lbl k') = .ok (mk k')

theorem holder_block (lbl : V) : Holder lbl (blockV lbl) := ⟨fun _ => rfl, fun _ _ => rfl⟩
theorem holder_profile (lbl c h : V) : Holder lbl (fun k => profileV (treeV lbl k) c h) := ⟨fun _ => rfl, fun _ _ => rfl⟩

theorem getAttr_children (l : V) (k : List V) : PyU.getAttr (treeV l k) "children" = .ok (.list k) := rfl
theorem setAttr_children (l : V) (k k' : List V) : PyU.setAttrObj (treeV l k) "children" (.list k') = .ok (treeV l k') := rfl

/-- appending one node to `self.tree.children` -/
theorem append_child {lbl : V} {mk : List V → V} (h : Holder lbl mk) (kids : List V) (x : V) :
    (do let t1 ← PyU.getAttr (mk kids) "tree"
        let t2 ← PyU.getAttr t1 "children"
        let t3 ← PyU.append t2 x
        let t4 ← PyU.setAttrObj t1 "children" t3
        PyU.setAttrObj (mk kids) "tree" t4) = .ok (mk (kids ++ [x])) := by
  simp only [h.get, PyRt.ok_bind, getAttr_children, append_list, setAttr_children, h.set]

theorem gen_set_option_proof {lbl : V} {mk : List V → V} (h : Holder lbl mk) (f : V → Py V) (hf : V2sSpec f)
    (kids : List V) (name : V) (v : C11.PyVal) :
    Gen.PyC2Dict.ConfigBlock_set_option f (mk kids) name (encPyVal v)
      = .ok (.tuple [.none, mk (kids ++ [optNodeV name (C11.valueToString v)])]) := by
  simp only [Gen.PyC2Dict.ConfigBlock_set_option, hf v, PyRt.ok_bind, h.get, getAttr_children, append_list, setAttr_children, h.set,
    pure, Except.pure]
  rfl


theorem gen_profile_set_option_proof {lbl : V} {mk : List V → V} (h : Holder lbl mk) (f : V → Py V) (hf : V2sSpec f)
    (kids : List V) (name : V) (v : C11.PyVal) :
    Gen.PyC2Dict.C2Profile_set_option f (mk kids) name (encPyVal v)
      = .ok (.tuple [.none, mk (kids ++ [globalOptNodeV name (C11.valueToString v)])]) := by
  simp only [Gen.PyC2Dict.C2Profile_set_option, hf v, PyRt.ok_bind, h.get, getAttr_children, append_list, setAttr_children, h.set,
    pure, Except.pure]
  rfl

theorem gen_enable_proof {lbl : V} {mk : List V → V} (h : Holder lbl mk) (kids : List V) (name value : V) :
    Gen.PyC2Dict.ConfigBlock__enable (mk kids) name value = .ok (.tuple [.none, mk (kids ++ [enableNodeV name])]) := by
  simp only [Gen.PyC2Dict.ConfigBlock__enable, PyRt.ok_bind, h.get, getAttr_children, append_list, setAttr_children, h.set,
    pure, Except.pure]
  rfl

/-- the children of the argument block are attached under the new label (the list is COPIED here; the real code shares it) -/
theorem gen_set_config_block_proof {lbl : V} {mk : List V → V} (h : Holder lbl mk) (kids : List V) (name : V)
    (blk : V) (bl : V) (bkids : List V) (hb : PyU.getAttr blk "tree" = .ok (treeV bl bkids)) :
    Gen.PyC2Dict.ConfigBlock_set_config_block (mk kids) name blk = .ok (.tuple [.none, mk (kids ++ [treeV name bkids])]) := by
  simp only [Gen.PyC2Dict.ConfigBlock_set_config_block, PyRt.ok_bind, h.get, getAttr_children, hb, append_list, setAttr_children, h.set,
    pure, Except.pure]
  rfl

theorem truthy_list (l : List V) : PyU.truthy (.list l) = !l.isEmpty := rfl

theorem gen_set_non_empty_config_block_proof {lbl : V} {mk : List V → V} (h : Holder lbl mk) (kids : List V) (name : V)
    (blk : V) (bl : V) (bkids : List V) (hb : PyU.getAttr blk "tree" = .ok (treeV bl bkids)) :
    Gen.PyC2Dict.ConfigBlock_set_non_empty_config_block (mk kids) name blk
      = .ok (.tuple [.none, mk (if bkids.isEmpty then kids else kids ++ [treeV name bkids])]) := by
  simp only [Gen.PyC2Dict.ConfigBlock_set_non_empty_config_block, PyRt.ok_bind, hb, getAttr_children, truthy_list,
    gen_set_config_block_proof h kids name blk bl bkids hb]
  cases bkids with
  | nil => rfl
  | cons x xs => rfl

/-! #### `_pair`, `_header`, `_parameter` -/
def pairNodesV (lbl : V) : List (C11.PyVal × C11.PyVal) → List V
  | [] => []
  | (a, b) :: ps => pairNodeV lbl (C11.valueToString a) (C11.valueToString b) :: pairNodesV lbl ps

theorem unpack2_pair (a b : V) : PyU.unpack2 (.tuple [a, b]) = .ok (a, b) := rfl

theorem pair_loop {lbl : V} {mk : List V → V} (h : Holder lbl mk) (f : V → Py V) (hf : V2sSpec f) (name : V) :
    ∀ (ps : List (C11.PyVal × C11.PyVal)) (kids : List V),
    PyU.forList (ps.map fun p => V.tuple [encPyVal p.1, encPyVal p.2]) (Gen.PyC2Dict._pair_loop1 f name) (mk kids)
      = .ok (mk (kids ++ pairNodesV name ps))
  | [], kids => by simp [PyU.forList, pairNodesV]
  | (a, b) :: ps, kids => by
    have ih := pair_loop h f hf name ps (kids ++ [pairNodeV name (C11.valueToString a) (C11.valueToString b)])
    simp only [List.map_cons, PyU.forList, Gen.PyC2Dict._pair_loop1, unpack2_pair, PyRt.ok_bind, hf a, hf b, h.get, getAttr_children,
      append_list, setAttr_children, h.set, pure, Except.pure]
    simp only [pairNodesV, List.append_assoc, List.singleton_append] at ih ⊢
    exact ih

theorem gen_pair_proof {lbl : V} {mk : List V → V} (h : Holder lbl mk) (f : V → Py V) (hf : V2sSpec f)
    (kids : List V) (name : V) (ps : List (C11.PyVal × C11.PyVal)) :
    Gen.PyC2Dict.ConfigBlock__pair f (mk kids) name (encPairs ps) = .ok (.tuple [.none, mk (kids ++ pairNodesV name ps)]) := by
  simp only [Gen.PyC2Dict.ConfigBlock__pair, encPairs, PyU.iterList, PyRt.ok_bind, pair_loop h f hf name ps kids, pure, Except.pure]

theorem header_loop {lbl : V} {mk : List V → V} (h : Holder lbl mk) (f : V → Py V) (hf : V2sSpec f) :
    ∀ (ps : List (C11.PyVal × C11.PyVal)) (kids : List V),
    PyU.forList (ps.map fun p => V.tuple [encPyVal p.1, encPyVal p.2]) (Gen.PyC2Dict._header_loop1 f) (mk kids)
      = .ok (mk (kids ++ pairNodesV (PyU.lit "header") ps))
  | [], kids => by simp [PyU.forList, pairNodesV]
  | (a, b) :: ps, kids => by
    have ih := header_loop h f hf ps (kids ++ [pairNodeV (PyU.lit "header") (C11.valueToString a) (C11.valueToString b)])
    simp only [List.map_cons, PyU.forList, Gen.PyC2Dict._header_loop1, unpack2_pair, PyRt.ok_bind, hf a, hf b, h.get, getAttr_children,
      append_list, setAttr_children, h.set, pure, Except.pure]
    simp only [pairNodesV, List.append_assoc, List.singleton_append] at ih ⊢
    exact ih

theorem gen_header_proof {lbl : V} {mk : List V → V} (h : Holder lbl mk) (f : V → Py V) (hf : V2sSpec f)
    (kids : List V) (name : V) (ps : List (C11.PyVal × C11.PyVal)) :
    Gen.PyC2Dict.ConfigBlock__header f (mk kids) name (encPairs ps)
      = .ok (.tuple [.none, mk (kids ++ pairNodesV (PyU.lit "header") ps)]) := by
  simp only [Gen.PyC2Dict.ConfigBlock__header, encPairs, PyU.iterList, PyRt.ok_bind, header_loop h f hf ps kids, pure, Except.pure]

theorem parameter_loop {lbl : V} {mk : List V → V} (h : Holder lbl mk) (f : V → Py V) (hf : V2sSpec f) :
    ∀ (ps : List (C11.PyVal × C11.PyVal)) (kids : List V),
    PyU.forList (ps.map fun p => V.tuple [encPyVal p.1, encPyVal p.2]) (Gen.PyC2Dict._parameter_loop1 f) (mk kids)
      = .ok (mk (kids ++ pairNodesV (PyU.lit "parameter") ps))
  | [], kids => by simp [PyU.forList, pairNodesV]
  | (a, b) :: ps, kids => by
    have ih := parameter_loop h f hf ps (kids ++ [pairNodeV (PyU.lit "parameter") (C11.valueToString a) (C11.valueToString b)])
    simp only [List.map_cons, PyU.forList, Gen.PyC2Dict._parameter_loop1, unpack2_pair, PyRt.ok_bind, hf a, hf b, h.get, getAttr_children,
      append_list, setAttr_children, h.set, pure, Except.pure]
    simp only [pairNodesV, List.append_assoc, List.singleton_append] at ih ⊢
    exact ih

theorem gen_parameter_proof {lbl : V} {mk : List V → V} (h : Holder lbl mk) (f : V → Py V) (hf : V2sSpec f)
    (kids : List V) (name : V) (ps : List (C11.PyVal × C11.PyVal)) :
    Gen.PyC2Dict.ConfigBlock__parameter f (mk kids) name (encPairs ps)
      = .ok (.tuple [.none, mk (kids ++ pairNodesV (PyU.lit "parameter") ps)]) := by
  simp only [Gen.PyC2Dict.ConfigBlock__parameter, encPairs, PyU.iterList, PyRt.ok_bind, parameter_loop h f hf ps kids, pure, Except.pure]


/-! ### the nodes the methods append are the model's nodes -/
theorem lit_string : PyU.lit "string" = .str C11.nmString := by decide
theorem lit_option : PyU.lit "option" = .str C11.nmOption := by decide
theorem lit_OPTION : PyU.lit "OPTION" = .str C11.nmOPTION := by decide
theorem lit_header : PyU.lit "header" = .str C11.nmHeader := by decide
theorem lit_parameter : PyU.lit "parameter" = .str C11.nmParameter := by decide

theorem absChild_tree (G : C10.Table) (name : C10.Text) (kids : List V) :
    absChild G (treeV (.str name) kids) = (absKids G kids).map fun ks => fun r => C10.Forest.node (C11.nameId G name) ks r := by
  simp only [treeV, absChild, Gen.PyC2Dict.TreeCls, beq_self_eq_true, if_true, absTreeParts, absListV]
  cases absKids G kids <;> rfl

theorem absChild_token (G : C10.Table) (ty s : C10.Text) :
    absChild G (tokenV (.str ty) (.str s)) = some fun r => C10.Forest.leaf (C11.nameId G ty) s r := by
  simp [tokenV, C12Gen.tokenV, absChild, Gen.PyC2Dict.TreeCls, Gen.PyC2Prof.Token]

theorem absKids_cons (G : C10.Table) (x : V) (xs : List V) :
    absKids G (x :: xs) = (match absChild G x, absKids G xs with
      | some f, some r => some (f r)
      | _, _ => none) := by
  cases hx : absChild G x <;> cases hr : absKids G xs <;> simp [absKids, hx, hr]

theorem absKids_nil (G : C10.Table) : absKids G [] = some .nil := by simp only [absKids]

theorem absChild_strNode (G : C10.Table) (v : C11.PyVal) :
    absChild G (strNodeV (C11.valueToString v)) = some (C11.strNode G v) := by
  simp only [strNodeV, lit_string, strName_eq, absChild_tree, absKids_cons, absChild_token, absKids_nil, Option.map_some, C11.strNode]
  rfl

theorem abs_optNode (G : C10.Table) (name : C10.Text) (v : C11.PyVal) :
    absKids G [optNodeV (.str name) (C11.valueToString v)] = some (C11.optNode G name v) := by
  simp only [optNodeV, absKids_cons, absChild_tree, absChild_strNode, absKids_nil, Option.map_some, C11.optNode]

theorem abs_globalOptNode (G : C10.Table) (name : C10.Text) (v : C11.PyVal) :
    absKids G [globalOptNodeV (.str name) (C11.valueToString v)] = some (C11.globalOptNode G name v) := by
  simp only [globalOptNodeV, lit_option, lit_OPTION, absKids_cons, absChild_tree, absChild_token, absChild_strNode, absKids_nil,
    Option.map_some, C11.globalOptNode]

theorem abs_enableNode (G : C10.Table) (name : C10.Text) : absKids G [enableNodeV (.str name)] = some (C11.enableNode G name) := by
  simp only [enableNodeV, absKids_cons, absChild_tree, absKids_nil, Option.map_some, C11.enableNode]

theorem abs_pairNodes (G : C10.Table) (name : C10.Text) : ∀ ps : List (C11.PyVal × C11.PyVal),
    absKids G (pairNodesV (.str name) ps) = some (C11.pairNodes G name ps)
  | [] => by simp only [pairNodesV, absKids_nil, C11.pairNodes]
  | (a, b) :: ps => by
    simp only [pairNodesV, pairNodeV, absKids_cons, absChild_tree, absChild_strNode, absKids_nil, Option.map_some, abs_pairNodes G name ps,
      C11.pairNodes]

theorem abs_blockNode (G : C10.Table) (name : C10.Text) (bkids : List V) :
    absKids G [treeV (.str name) bkids] = (absKids G bkids).map fun ks => C10.Forest.node (C11.nameId G name) ks .nil := by
  simp only [absKids_cons, absChild_tree, absKids_nil]
  cases absKids G bkids <;> rfl

theorem absChild_prefix (G : C10.Table) (x : V) (f : C10.Forest → C10.Forest) (h : absChild G x = some f) (a b : C10.Forest) :
    f (C11.Forest.append a b) = C11.Forest.append (f a) b := by
  cases x with
  | inst c vals =>
    simp only [absChild] at h
    split at h
    · split at h
      · cases h; rfl
      · cases h
    · split at h
      · split at h
        · cases h; rfl
        · cases h
      · cases h
  | _ => simp [absChild] at h

theorem absKids_append (G : C10.Table) : ∀ (a b : List V),
    absKids G (a ++ b) = (match absKids G a, absKids G b with
      | some x, some y => some (C11.Forest.append x y)
      | _, _ => none)
  | [], b => by
    simp only [List.nil_append, absKids_nil]
    cases absKids G b <;> rfl
  | x :: xs, b => by
    have ih := absKids_append G xs b
    simp only [List.cons_append, absKids_cons, ih]
    cases hx : absChild G x <;> cases absKids G xs <;> cases absKids G b <;> simp [C11.Forest.append]
    exact absChild_prefix G x _ hx _ _



/-! ### DataTransformBlock -/
def dtV (sk tk : List V) : V := .inst Gen.PyC2Dict.DataTransformBlockCls [.list sk, .list tk]

theorem dt_getSteps (sk tk : List V) : PyU.getAttr (dtV sk tk) "steps" = .ok (.list sk) := rfl
theorem dt_getTerm (sk tk : List V) : PyU.getAttr (dtV sk tk) "termination" = .ok (.list tk) := rfl
theorem dt_setSteps (sk tk sk' : List V) : PyU.setAttrObj (dtV sk tk) "steps" (.list sk') = .ok (dtV sk' tk) := rfl
theorem dt_setTerm (sk tk tk' : List V) : PyU.setAttrObj (dtV sk tk) "termination" (.list tk') = .ok (dtV sk tk') := rfl

/-- what `add_step` / `add_termination` append: `Tree(option, [])` or `Tree(option, [string value])` -/
def stepNodeV (name : V) (v : Option C11.PyVal) : V :=
  treeV name (match v with
    | some x => [strNodeV (C11.valueToString x)]
    | none => [])

def encOptVal : Option C11.PyVal → V
  | none => .none
  | some x => encPyVal x

theorem isNone_enc (x : C11.PyVal) : PyU.isNone (encPyVal x) = false := by cases x <;> rfl

theorem gen_add_step_proof (f : V → Py V) (hf : V2sSpec f) (sk tk : List V) (name : V) (v : Option C11.PyVal) :
    Gen.PyC2Dict.DataTransformBlock_add_step f (dtV sk tk) name (encOptVal v)
      = .ok (.tuple [.none, dtV (sk ++ [stepNodeV name v]) tk]) := by
  cases v with
  | none =>
    simp only [Gen.PyC2Dict.DataTransformBlock_add_step, encOptVal, PyU.isNone, Bool.not_true, Bool.false_eq_true, if_false,
      dt_getSteps, PyRt.ok_bind, append_list, dt_setSteps, pure, Except.pure, stepNodeV]
    rfl
  | some x =>
    simp only [Gen.PyC2Dict.DataTransformBlock_add_step, encOptVal, isNone_enc, Bool.not_false, if_true, hf x, PyRt.ok_bind, append_list,
      dt_getSteps, dt_setSteps, pure, Except.pure, stepNodeV, List.nil_append]
    rfl

theorem gen_add_termination_proof (f : V → Py V) (hf : V2sSpec f) (sk tk : List V) (name : V) (v : Option C11.PyVal) :
    Gen.PyC2Dict.DataTransformBlock_add_termination f (dtV sk tk) name (encOptVal v)
      = .ok (.tuple [.none, dtV sk (tk ++ [stepNodeV name v])]) := by
  cases v with
  | none =>
    simp only [Gen.PyC2Dict.DataTransformBlock_add_termination, encOptVal, PyU.isNone, Bool.not_true, Bool.false_eq_true, if_false,
      dt_getTerm, PyRt.ok_bind, append_list, dt_setTerm, pure, Except.pure, stepNodeV]
    rfl
  | some x =>
    simp only [Gen.PyC2Dict.DataTransformBlock_add_termination, encOptVal, isNone_enc, Bool.not_false, if_true, hf x, PyRt.ok_bind, append_list,
      dt_getTerm, dt_setTerm, pure, Except.pure, stepNodeV, List.nil_append]
    rfl


/-- the loop body of `DataTransformBlock.__init__` on the two node lists -/
def dtAddV (st : List V × List V) : C11.Step → List V × List V
  | .bare name =>
    if ProfileApi.dtBareSteps.contains name then (st.1 ++ [stepNodeV (.str name) none], st.2)
    else if ProfileApi.dtBareTerminations.contains name then (st.1, st.2 ++ [stepNodeV (.str (C11.dashToUnderscore name)) none])
    else
      match name with
      | [c0, c1] =>
        if ProfileApi.dtArgTerminations.contains [c0] then (st.1, st.2 ++ [stepNodeV (.str [c0]) (some (.str [c1]))])
        else (st.1 ++ [stepNodeV (.str [c0]) (some (.str [c1]))], st.2)
      | _ => st
  | .arg name v =>
    if ProfileApi.dtArgTerminations.contains name then (st.1, st.2 ++ [stepNodeV (.str name) (some v)])
    else (st.1 ++ [stepNodeV (.str name) (some v)], st.2)

theorem bareSteps_lit : V.tuple [(PyU.lit "base64"), (PyU.lit "base64url"), (PyU.lit "mask"), (PyU.lit "netbios"), (PyU.lit "netbiosu")]
    = .tuple (ProfileApi.dtBareSteps.map .str) := by decide +kernel
theorem bareTerms_lit : V.tuple [(PyU.lit "print"), (PyU.lit "uri-append"), (PyU.lit "uri_append")]
    = .tuple (ProfileApi.dtBareTerminations.map .str) := by decide +kernel
theorem argTerms_lit : V.tuple [(PyU.lit "header"), (PyU.lit "parameter")] = .tuple (ProfileApi.dtArgTerminations.map .str) := by
  decide +kernel

theorem contains_tuple_str (l : List C10.Text) (k : C10.Text) :
    t11Contains TOK (.tuple (l.map V.str)) (.str k) = .ok (l.contains k) := by
  simp only [t11Contains, t11View, any_t11Eq_str]

theorem contains_tuple_tuple (l : List C10.Text) (xs : List V) :
    t11Contains TOK (.tuple (l.map V.str)) (.tuple xs) = .ok false := by
  simp only [t11Contains, t11View]
  congr 1
  induction l with
  | nil => rfl
  | cons x l ih =>
    have : t11Eq TOK (.tuple xs) (.str x) = false := by simp [t11Eq, t11View, PyU.eq]
    simp only [List.map_cons, List.any_cons, this, ih, Bool.false_or]

theorem replaceGo_dash : ∀ (s : C10.Text), PyU.replaceGo [45] [95] s 0 = C11.dashToUnderscore s
  | [] => rfl
  | c :: cs => by
    have ih := replaceGo_dash cs
    simp only [PyU.replaceGo, List.isPrefixOf, List.length_cons, List.length_nil, C11.dashToUnderscore, List.map_cons] at ih ⊢
    by_cases h : c = 45
    · subst h; simp [ih]
    · have h1 : ((45 : Nat) == c) = false := beq_eq_false_iff_ne.mpr (Ne.symm h)
      have h2 : (c == 45) = false := beq_eq_false_iff_ne.mpr h
      simp [h1, h2, ih]

theorem strReplace_dash (s : C10.Text) : PyU.strReplace (.str s) (PyU.lit "-") (PyU.lit "_") = .ok (.str (C11.dashToUnderscore s)) := by
  have h1 : PyU.lit "-" = .str [45] := by decide
  have h2 : PyU.lit "_" = .str [95] := by decide
  simp only [h1, h2, PyU.strReplace, PyU.replaceL, List.isEmpty_cons, Bool.false_eq_true, if_false, replaceGo_dash]

theorem len_str (s : C10.Text) : PyU.len (.str s) = .ok (.int (s.length : Nat)) := rfl
theorem eq_int_two (n : Nat) : t11Eq TOK (.int (n : Nat)) (V.int 2) = (n == 2) := by
  simp only [t11Eq, t11View, PyU.eq]
  by_cases h : n = 2
  · subst h; rfl
  · have : ¬ ((n : Int) = 2) := by omega
    rw [beq_eq_false_iff_ne.mpr this, beq_eq_false_iff_ne.mpr h]

theorem dt_loop_step (f : V → Py V) (hf : V2sSpec f) (sk tk : List V) (s : C11.Step) :
    Gen.PyC2Dict.__init___loop1 f (encStep s) (dtV sk tk)
      = .ok (Ctl.cont, dtV (dtAddV (sk, tk) s).1 (dtAddV (sk, tk) s).2) := by
  cases s with
  | bare name =>
    simp only [Gen.PyC2Dict.__init___loop1, encStep, bareSteps_lit, bareTerms_lit, argTerms_lit, contains_tuple_str, PyRt.ok_bind, dtAddV]
    by_cases h1 : ProfileApi.dtBareSteps.contains name = true
    · have := gen_add_step_proof f hf sk tk (.str name) none
      simp only [encOptVal] at this
      simp only [h1, if_true, this, PyRt.ok_bind, unpack2_pair, pure, Except.pure]
    · by_cases h2 : ProfileApi.dtBareTerminations.contains name = true
      · have := gen_add_termination_proof f hf sk tk (.str (C11.dashToUnderscore name)) none
        simp only [encOptVal] at this
        simp only [h1, h2, Bool.false_eq_true, if_false, if_true, strReplace_dash, this, PyRt.ok_bind, unpack2_pair, pure, Except.pure]
      · simp only [h1, h2, Bool.false_eq_true, if_false, len_str, PyRt.ok_bind, eq_int_two]
        match name with
        | [c0, c1] =>
          have hu : PyU.unpack2 (.str [c0, c1]) = .ok (.str [c0], .str [c1]) := rfl
          simp only [List.length_cons, List.length_nil, show ((0 + 1 + 1 : Nat) == 2) = true from rfl, if_true, hu, PyRt.ok_bind,
            contains_tuple_str]
          by_cases h3 : ProfileApi.dtArgTerminations.contains [c0] = true
          · have := gen_add_termination_proof f hf sk tk (.str [c0]) (some (.str [c1]))
            simp only [encOptVal, encPyVal] at this
            simp only [h3, if_true, this, PyRt.ok_bind, unpack2_pair, pure, Except.pure]
          · have := gen_add_step_proof f hf sk tk (.str [c0]) (some (.str [c1]))
            simp only [encOptVal, encPyVal] at this
            simp only [h3, Bool.false_eq_true, if_false, this, PyRt.ok_bind, unpack2_pair, pure, Except.pure]
        | [] => simp [pure, Except.pure]
        | [_] => simp [pure, Except.pure]
        | _ :: _ :: _ :: _ => simp [pure, Except.pure]
  | arg name v =>
    have hu : PyU.unpack2 (.tuple [.str name, encPyVal v]) = .ok (.str name, encPyVal v) := rfl
    have hl : PyU.len (.tuple [.str name, encPyVal v]) = .ok (.int ((2 : Nat) : Int)) := rfl
    simp only [Gen.PyC2Dict.__init___loop1, encStep, bareSteps_lit, bareTerms_lit, argTerms_lit, contains_tuple_tuple, PyRt.ok_bind,
      Bool.false_eq_true, if_false, hl, eq_int_two, show ((2 : Nat) == 2) = true from rfl, if_true, hu, contains_tuple_str, dtAddV]
    by_cases h3 : ProfileApi.dtArgTerminations.contains name = true
    · have := gen_add_termination_proof f hf sk tk (.str name) (some v)
      simp only [encOptVal] at this
      simp only [h3, if_true, this, PyRt.ok_bind, unpack2_pair, pure, Except.pure]
    · have := gen_add_step_proof f hf sk tk (.str name) (some v)
      simp only [encOptVal] at this
      simp only [h3, Bool.false_eq_true, if_false, this, PyRt.ok_bind, unpack2_pair, pure, Except.pure]


theorem dt_forList (f : V → Py V) (hf : V2sSpec f) : ∀ (steps : List C11.Step) (sk tk : List V),
    PyU.forList (steps.map encStep) (Gen.PyC2Dict.__init___loop1 f) (dtV sk tk)
      = .ok (dtV (steps.foldl dtAddV (sk, tk)).1 (steps.foldl dtAddV (sk, tk)).2)
  | [], sk, tk => rfl
  | s :: ss, sk, tk => by
    simp only [List.map_cons, PyU.forList, dt_loop_step f hf sk tk s, List.foldl_cons]
    exact dt_forList f hf ss _ _

theorem truthy_or_list (l : List V) :
    PyU.iterList (if (!PyU.truthy (V.list l)) = true then V.list [] else V.list l) = .ok l := by
  cases l with
  | nil => rfl
  | cons x xs => rfl

/-- `DataTransformBlock(steps)`: the object after the constructor -/
theorem gen_data_transform_block_init_proof (f : V → Py V) (hf : V2sSpec f) (steps : List C11.Step) :
    Gen.PyC2Dict.DataTransformBlock___init__ f dtBlank (.list (steps.map encStep))
      = .ok (.tuple [.none, dtV (steps.foldl dtAddV ([], [])).1 (steps.foldl dtAddV ([], [])).2]) := by
  have h1 : PyU.setAttrObj dtBlank "steps" (V.list []) = .ok (.inst Gen.PyC2Dict.DataTransformBlockCls [.list [], .none]) := rfl
  have h2 : PyU.setAttrObj (.inst Gen.PyC2Dict.DataTransformBlockCls [.list [], .none]) "termination" (V.list []) = .ok (dtV [] []) := rfl
  simp only [Gen.PyC2Dict.DataTransformBlock___init__, h1, h2, PyRt.ok_bind]
  cases hs : steps with
  | nil => rfl
  | cons s ss =>
    have ht : PyU.truthy (V.list ((s :: ss).map encStep)) = true := rfl
    simp only [ht, Bool.not_true, Bool.false_eq_true, if_false, PyU.iterList, PyRt.ok_bind, dt_forList f hf (s :: ss) [] [], pure, Except.pure]

/-- the one child of a `DataTransformBlock`'s tree -/
def dtNodeV (sk tk : List V) : V :=
  treeV (PyU.lit "data_transform") [treeV (PyU.lit "steps") sk, treeV (PyU.lit "termination") tk]

theorem gen_data_transform_tree_proof (sk tk : List V) :
    Gen.PyC2Dict.DataTransformBlock_tree (dtV sk tk)
      = .ok (.tuple [treeV (PyU.lit "DataTransformBlock") [dtNodeV sk tk], dtV sk tk]) := rfl

theorem dtBlockG_eq (steps : List C11.Step) :
    dtBlockG steps = .ok (blockV (PyU.lit "DataTransformBlock")
      [dtNodeV (steps.foldl dtAddV ([], [])).1 (steps.foldl dtAddV ([], [])).2]) := by
  simp only [dtBlockG, gen_data_transform_block_init_proof v2sG v2sG_spec steps, selfAfter, PyRt.ok_bind, gen_data_transform_tree_proof]
  rfl

/-! #### … and the model's forest -/
theorem abs_stepNode (G : C10.Table) (name : C10.Text) (v : Option C11.PyVal) :
    absKids G [stepNodeV (.str name) v] = some (C11.stepNode G name v) := by
  cases v with
  | none => simp only [stepNodeV, absKids_cons, absChild_tree, absKids_nil, Option.map_some, C11.stepNode]
  | some x => simp only [stepNodeV, absKids_cons, absChild_tree, absChild_strNode, absKids_nil, Option.map_some, C11.stepNode]

theorem absKids_snoc (G : C10.Table) (kids : List V) (a : C10.Forest) (x : V) (g : C10.Forest)
    (hk : absKids G kids = some a) (hx : absKids G [x] = some g) : absKids G (kids ++ [x]) = some (C11.Forest.append a g) := by
  rw [absKids_append, hk, hx]

theorem abs_dtAdd (G : C10.Table) (sk tk : List V) (a b : C10.Forest) (hs : absKids G sk = some a) (ht : absKids G tk = some b)
    (s : C11.Step) :
    absKids G (dtAddV (sk, tk) s).1 = some (C11.dtAdd G (a, b) s).1 ∧ absKids G (dtAddV (sk, tk) s).2 = some (C11.dtAdd G (a, b) s).2 := by
  cases s with
  | bare name =>
    by_cases h1 : ProfileApi.dtBareSteps.contains name = true
    · simp only [dtAddV, C11.dtAdd, h1, if_true]
      exact ⟨absKids_snoc G sk a _ _ hs (abs_stepNode G name none), ht⟩
    · by_cases h2 : ProfileApi.dtBareTerminations.contains name = true
      · simp only [dtAddV, C11.dtAdd, h1, h2, Bool.false_eq_true, if_false, if_true]
        exact ⟨hs, absKids_snoc G tk b _ _ ht (abs_stepNode G _ none)⟩
      · match name with
        | [c0, c1] =>
          by_cases h3 : ProfileApi.dtArgTerminations.contains [c0] = true
          · simp only [dtAddV, C11.dtAdd, h1, h2, h3, Bool.false_eq_true, if_false, if_true]
            exact ⟨hs, absKids_snoc G tk b _ _ ht (abs_stepNode G _ _)⟩
          · simp only [dtAddV, C11.dtAdd, h1, h2, h3, Bool.false_eq_true, if_false]
            exact ⟨absKids_snoc G sk a _ _ hs (abs_stepNode G _ _), ht⟩
        | [] => simp only [dtAddV, C11.dtAdd, h1, h2, Bool.false_eq_true, if_false]; exact ⟨hs, ht⟩
        | [_] => simp only [dtAddV, C11.dtAdd, h1, h2, Bool.false_eq_true, if_false]; exact ⟨hs, ht⟩
        | _ :: _ :: _ :: _ => simp only [dtAddV, C11.dtAdd, h1, h2, Bool.false_eq_true, if_false]; exact ⟨hs, ht⟩
  | arg name v =>
    by_cases h3 : ProfileApi.dtArgTerminations.contains name = true
    · simp only [dtAddV, C11.dtAdd, h3, if_true]
      exact ⟨hs, absKids_snoc G tk b _ _ ht (abs_stepNode G _ _)⟩
    · simp only [dtAddV, C11.dtAdd, h3, Bool.false_eq_true, if_false]
      exact ⟨absKids_snoc G sk a _ _ hs (abs_stepNode G _ _), ht⟩

theorem abs_dtFold (G : C10.Table) : ∀ (steps : List C11.Step) (sk tk : List V) (a b : C10.Forest),
    absKids G sk = some a → absKids G tk = some b →
    absKids G (steps.foldl dtAddV (sk, tk)).1 = some (steps.foldl (C11.dtAdd G) (a, b)).1 ∧
    absKids G (steps.foldl dtAddV (sk, tk)).2 = some (steps.foldl (C11.dtAdd G) (a, b)).2
  | [], _, _, _, _, hs, ht => ⟨hs, ht⟩
  | s :: ss, sk, tk, a, b, hs, ht => by
    obtain ⟨h1, h2⟩ := abs_dtAdd G sk tk a b hs ht s
    simp only [List.foldl_cons]
    exact abs_dtFold G ss _ _ _ _ h1 h2

theorem lit_data_transform : PyU.lit "data_transform" = .str C11.nmDataTransform := by decide
theorem lit_steps : PyU.lit "steps" = .str C11.nmSteps := by decide
theorem lit_termination : PyU.lit "termination" = .str C11.nmTermination := by decide

theorem abs_dtForest (G : C10.Table) (steps : List C11.Step) :
    absKids G [dtNodeV (steps.foldl dtAddV ([], [])).1 (steps.foldl dtAddV ([], [])).2] = some (C11.dtForest G steps) := by
  obtain ⟨h1, h2⟩ := abs_dtFold G steps [] [] .nil .nil (absKids_nil G) (absKids_nil G)
  simp only [dtNodeV, lit_data_transform, lit_steps, lit_termination, absKids_cons, absChild_tree, h1, h2, absKids_nil, Option.map_some,
    C11.dtForest]


/-! ### `from_execute_list`, `from_beacon_gate_option_strings` -/
theorem lowCp_eq (t : C10.Text) : t.map PyU.lowCp = C11.lowerAscii t := by
  simp only [C11.lowerAscii]
  apply List.map_congr_left
  intro c _
  simp only [PyU.lowCp, Bool.and_eq_true, decide_eq_true_eq]

theorem lower_ascii (t : C10.Text) (h : t.all (· < 128) = true) : PyU.lower (.str t) = .ok (.str (C11.lowerAscii t)) := by
  simp only [PyU.lower, h, if_true, lowCp_eq]

/-- the nodes one element of the list handed to `from_execute_list` appends -/
def execOneV : C11.ExecItem → Py (List V)
  | .pair name v =>
    match ProfileApi.executeSpecial.lookup name with
    | some label => .ok [optNodeV (.str label) (C11.valueToString v)]
    | none => .error .valueError
  | .bare name =>
    if ProfileApi.executeBare.contains name then .ok [enableNodeV (.str (C11.dashToUnderscore (C11.lowerAscii name)))]
    else .error .valueError

def execNodesV : List C11.ExecItem → Py (List V)
  | [] => .ok []
  | x :: xs =>
    match execOneV x with
    | .error e => .error e
    | .ok a =>
      match execNodesV xs with
      | .error e => .error e
      | .ok r => .ok (a ++ r)

theorem executeSpecial_lit : ProfileApi.executeSpecial =
    [(PyU.cps "CreateThread", PyU.cps "createthread_special"), (PyU.cps "CreateRemoteThread", PyU.cps "createremotethread_special")] := by
  decide +kernel
theorem executeBare_lit : V.list [(PyU.lit "CreateThread"), (PyU.lit "SetThreadContext"), (PyU.lit "CreateRemoteThread"),
    (PyU.lit "NtQueueApcThread"), (PyU.lit "NtQueueApcThread-s"), (PyU.lit "RtlCreateUserThread")]
    = .list (ProfileApi.executeBare.map .str) := by decide +kernel
theorem executeBare_ascii : ProfileApi.executeBare.all (fun n => n.all (· < 128)) = true := by decide +kernel

theorem contains_list_str (l : List C10.Text) (k : C10.Text) :
    t11Contains TOK (.list (l.map V.str)) (.str k) = .ok (l.contains k) := by
  simp only [t11Contains, t11View, any_t11Eq_str]

theorem eq_str_lit (a : C10.Text) (s : String) : t11Eq TOK (.str a) (PyU.lit s) = (a == PyU.cps s) := by
  simp [t11Eq, t11View, PyU.eq, PyU.lit]

theorem fmt_str (a : C10.Text) : PyU.fmt (.str a) "" = .ok a := by simp [PyU.fmt]

theorem exec_loop_step {lbl : V} {mk : List V → V} (h : Holder lbl mk) (f : V → Py V) (hf : V2sSpec f) (kids : List V)
    (x : C11.ExecItem) :
    Gen.PyC2Dict.ExecuteOptionsBlock_from_execute_list_loop1 f (encExecItem x) (mk kids)
      = (execOneV x).map fun ns => (Ctl.cont, mk (kids ++ ns)) := by
  cases x with
  | pair name v =>
    have hi : PyU.isInstance (V.tuple [V.str name, encPyVal v]) [Ty.list, Ty.tuple] = true := rfl
    have hu : PyU.unpack2 (.tuple [.str name, encPyVal v]) = .ok (.str name, encPyVal v) := rfl
    simp only [Gen.PyC2Dict.ExecuteOptionsBlock_from_execute_list_loop1, encExecItem, hi, if_true, hu, PyRt.ok_bind, eq_str_lit, execOneV,
      executeSpecial_lit, List.lookup]
    by_cases h1 : (name == PyU.cps "CreateThread") = true
    · simp only [h1, if_true, gen_set_option_proof h f hf kids _ v, PyRt.ok_bind, unpack2_pair, pure, Except.pure, Except.map]
      rfl
    · have h1' : (name == PyU.cps "CreateThread") = false := Bool.eq_false_iff.mpr h1
      by_cases h2 : (name == PyU.cps "CreateRemoteThread") = true
      · simp only [h1', h2, Bool.false_eq_true, if_false, if_true, gen_set_option_proof h f hf kids _ v, PyRt.ok_bind, unpack2_pair, pure,
          Except.pure, Except.map]
        rfl
      · have h2' : (name == PyU.cps "CreateRemoteThread") = false := Bool.eq_false_iff.mpr h2
        simp only [h1', h2', Bool.false_eq_true, if_false, fmt_str, PyRt.ok_bind, Except.map]
        rfl
  | bare name =>
    have hi : PyU.isInstance (V.str name) [Ty.list, Ty.tuple] = false := rfl
    simp only [Gen.PyC2Dict.ExecuteOptionsBlock_from_execute_list_loop1, encExecItem, hi, Bool.false_eq_true, if_false, executeBare_lit,
      contains_list_str, PyRt.ok_bind, execOneV]
    by_cases hc : ProfileApi.executeBare.contains name = true
    · have hm : name ∈ ProfileApi.executeBare := by simpa using hc
      have ha : name.all (· < 128) = true := by
        have := executeBare_ascii
        rw [List.all_eq_true] at this
        exact this name hm
      simp only [hc, if_true, lower_ascii name ha, PyRt.ok_bind, strReplace_dash, gen_enable_proof h kids _ _, unpack2_pair, pure,
        Except.pure, Except.map]
    · have hc' : ProfileApi.executeBare.contains name = false := Bool.eq_false_iff.mpr hc
      simp only [hc', Bool.false_eq_true, if_false, fmt_str, PyRt.ok_bind, Except.map]
      rfl

theorem exec_forList {lbl : V} {mk : List V → V} (h : Holder lbl mk) (f : V → Py V) (hf : V2sSpec f) :
    ∀ (xs : List C11.ExecItem) (kids : List V),
    PyU.forList (xs.map encExecItem) (Gen.PyC2Dict.ExecuteOptionsBlock_from_execute_list_loop1 f) (mk kids)
      = (execNodesV xs).map fun ns => mk (kids ++ ns)
  | [], kids => by simp [PyU.forList, execNodesV, Except.map]
  | x :: xs, kids => by
    simp only [List.map_cons, PyU.forList, exec_loop_step h f hf kids x, execNodesV]
    cases hx : execOneV x with
    | error e => rfl
    | ok a =>
      simp only [Except.map, exec_forList h f hf xs (kids ++ a)]
      cases execNodesV xs <;> simp [Except.map]

theorem gen_from_execute_list_proof {lbl : V} {mk : List V → V} (h : Holder lbl mk) (f : V → Py V) (hf : V2sSpec f)
    (kids : List V) (xs : List C11.ExecItem) :
    Gen.PyC2Dict.ExecuteOptionsBlock_from_execute_list f (mk kids) (.list (xs.map encExecItem))
      = (execNodesV xs).map fun ns => .tuple [.none, mk (kids ++ ns)] := by
  simp only [Gen.PyC2Dict.ExecuteOptionsBlock_from_execute_list, PyU.iterList, PyRt.ok_bind, exec_forList h f hf xs kids]
  cases execNodesV xs <;> rfl

/-- what the model appends for one element (the `one` of `C11.execForest`) -/
def execOneM (G : C10.Table) : C11.ExecItem → Py C10.Forest
  | .pair name v =>
    match ProfileApi.executeSpecial.lookup name with
    | some label => .ok (C11.optNode G label v)
    | none => .error .valueError
  | .bare name =>
    if ProfileApi.executeBare.contains name then .ok (C11.enableNode G (C11.dashToUnderscore (C11.lowerAscii name)))
    else .error .valueError

theorem execForest_cons (G : C10.Table) (x : C11.ExecItem) (xs : List C11.ExecItem) :
    C11.execForest G (x :: xs) = (match execOneM G x with
      | .error e => .error e
      | .ok f =>
        match C11.execForest G xs with
        | .error e => .error e
        | .ok r => .ok (C11.Forest.append f r)) := by
  cases x <;> rfl

/-- the model's result for one element, with the abstraction of the translated nodes -/
def AbsRes (G : C10.Table) (rv : Py (List V)) (rm : Py C10.Forest) : Prop :=
  match rv with
  | .error e => rm = .error e
  | .ok ns => ∃ g, rm = .ok g ∧ absKids G ns = some g

theorem abs_execOne (G : C10.Table) (x : C11.ExecItem) : AbsRes G (execOneV x) (execOneM G x) := by
  cases x with
  | pair name v =>
    simp only [execOneV, execOneM]
    cases ProfileApi.executeSpecial.lookup name with
    | none => exact rfl
    | some label => exact ⟨_, rfl, abs_optNode G label v⟩
  | bare name =>
    simp only [execOneV, execOneM]
    by_cases hc : ProfileApi.executeBare.contains name = true
    · simp only [hc, if_true]
      exact ⟨_, rfl, abs_enableNode G _⟩
    · simp only [hc, Bool.false_eq_true, if_false]
      exact rfl

theorem abs_execNodes (G : C10.Table) : ∀ xs : List C11.ExecItem, AbsRes G (execNodesV xs) (C11.execForest G xs)
  | [] => ⟨.nil, rfl, absKids_nil G⟩
  | x :: xs => by
    have ih := abs_execNodes G xs
    have h1 := abs_execOne G x
    simp only [execNodesV, execForest_cons]
    cases hx : execOneV x with
    | error e =>
      rw [hx] at h1
      simp only [AbsRes] at h1 ⊢
      rw [h1]
    | ok a =>
      rw [hx] at h1
      obtain ⟨g, hg, ha⟩ := h1
      cases hr : execNodesV xs with
      | error e =>
        rw [hr] at ih
        simp only [AbsRes] at ih ⊢
        rw [hg, ih]
      | ok r =>
        rw [hr] at ih
        obtain ⟨g2, hg2, hr2⟩ := ih
        simp only [AbsRes]
        refine ⟨C11.Forest.append g g2, by rw [hg, hg2], ?_⟩
        rw [absKids_append, ha, hr2]

/-! #### `from_beacon_gate_option_strings` -/
def gateNodesV (xs : List C10.Text) : List V := xs.map fun x => enableNodeV (.str (C11.lowerAscii x))

theorem gate_forList {lbl : V} {mk : List V → V} (h : Holder lbl mk) :
    ∀ (xs : List C10.Text) (kids : List V), (∀ x ∈ xs, x.all (· < 128) = true) →
    PyU.forList (xs.map V.str) Gen.PyC2Dict.BeaconGateBlock_from_beacon_gate_option_strings_loop1 (mk kids)
      = .ok (mk (kids ++ gateNodesV xs))
  | [], kids, _ => by simp [PyU.forList, gateNodesV]
  | x :: xs, kids, ha => by
    have hx := ha x List.mem_cons_self
    have ih := gate_forList h xs (kids ++ [enableNodeV (.str (C11.lowerAscii x))]) (fun y hy => ha y (List.mem_cons_of_mem _ hy))
    simp only [List.map_cons, PyU.forList, Gen.PyC2Dict.BeaconGateBlock_from_beacon_gate_option_strings_loop1, lower_ascii x hx,
      PyRt.ok_bind, gen_enable_proof h kids _ _, unpack2_pair, pure, Except.pure]
    simp only [gateNodesV, List.map_cons, List.append_assoc, List.singleton_append] at ih ⊢
    exact ih

theorem gen_from_beacon_gate_proof {lbl : V} {mk : List V → V} (h : Holder lbl mk) (kids : List V) (xs : List C10.Text)
    (ha : ∀ x ∈ xs, x.all (· < 128) = true) :
    Gen.PyC2Dict.BeaconGateBlock_from_beacon_gate_option_strings (mk kids) (.list (xs.map V.str))
      = .ok (.tuple [.none, mk (kids ++ gateNodesV xs)]) := by
  simp only [Gen.PyC2Dict.BeaconGateBlock_from_beacon_gate_option_strings, PyU.iterList, PyRt.ok_bind, gate_forList h xs kids ha, pure,
    Except.pure]

theorem abs_gateNodes (G : C10.Table) : ∀ xs : List C10.Text, absKids G (gateNodesV xs) = some (C11.gateForest G xs)
  | [] => absKids_nil G
  | x :: xs => by
    have ih := abs_gateNodes G xs
    have h1 := abs_enableNode G (C11.lowerAscii x)
    have : gateNodesV (x :: xs) = [enableNodeV (.str (C11.lowerAscii x))] ++ gateNodesV xs := rfl
    rw [this, absKids_append, h1, ih]
    rfl



theorem forest_append_nil : ∀ f : C10.Forest, C11.Forest.append f .nil = f
  | .nil => rfl
  | .leaf t s r => by simp only [C11.Forest.append, forest_append_nil r]
  | .node l k r => by simp only [C11.Forest.append, forest_append_nil r]

theorem forest_append_assoc : ∀ a b c : C10.Forest,
    C11.Forest.append (C11.Forest.append a b) c = C11.Forest.append a (C11.Forest.append b c)
  | .nil, _, _ => rfl
  | .leaf t s r, b, c => by simp only [C11.Forest.append, forest_append_assoc r b c]
  | .node l k r, b, c => by simp only [C11.Forest.append, forest_append_assoc r b c]

mutual
/-- every name handed to `from_beacon_gate_option_strings` is ASCII (`str.lower()` is modelled for ASCII only) -/
def gateOKC : C11.Calls → Bool
  | .done => true
  | .kwVal _ _ r => gateOKC r
  | .kwPairs _ _ r => gateOKC r
  | .kwBlock _ b r => gateOKB b && gateOKC r
  | .setOption _ _ r => gateOKC r
  | .pair _ _ r => gateOKC r
  | .enable _ r => gateOKC r
  | .headerC _ r => gateOKC r
  | .parameterC _ r => gateOKC r
  | .setConfigBlock _ b r => gateOKB b && gateOKC r
  | .setNonEmptyConfigBlock _ b r => gateOKB b && gateOKC r
def gateOKB : C11.BlockV → Bool
  | .cls _ calls => gateOKC calls
  | .dt _ => true
  | .exec _ => true
  | .gate xs => xs.all fun x => x.all (· < 128)
end

/-- the translated calls on `mk kids` against the model's forest of appended children -/
def CallsRel (G : C10.Table) (mk : List V → V) (f : C10.Forest) (rv : Py V) (rm : Py C10.Forest) : Prop :=
  match rm with
  | .error e => rv = .error e
  | .ok g => ∃ kids', rv = .ok (mk kids') ∧ absKids G kids' = some (C11.Forest.append f g)

/-- a block object built by the translated methods against the model's children of that block -/
def BlockRel (G : C10.Table) (rv : Py V) (rm : Py C10.Forest) : Prop :=
  match rm with
  | .error e => rv = .error e
  | .ok g => ∃ blk bl bkids, rv = .ok blk ∧ PyU.getAttr blk "tree" = .ok (treeV bl bkids) ∧ absKids G bkids = some g

/-- one call, then the rest -/
theorem seq_rel (G : C10.Table) (mk : List V → V) (f : C10.Forest) (kids : List V) (hk : absKids G kids = some f)
    (one_v : Py V) (one_m : Py C10.Forest) (rest_v : V → Py V) (rest_m : Py C10.Forest)
    (h1 : match one_m with
      | .error e => one_v = .error e
      | .ok g1 => ∃ ns, one_v = .ok (mk (kids ++ ns)) ∧ absKids G ns = some g1)
    (h2 : ∀ kids' f', absKids G kids' = some f' → CallsRel G mk f' (rest_v (mk kids')) rest_m) :
    CallsRel G mk f (one_v >>= rest_v) (C11.seqF one_m rest_m) := by
  cases one_m with
  | error e =>
    simp only at h1
    simp only [h1, C11.seqF, CallsRel, PyRt.error_bind]
  | ok g1 =>
    obtain ⟨ns, hv, hn⟩ := h1
    have hk' : absKids G (kids ++ ns) = some (C11.Forest.append f g1) := by rw [absKids_append, hk, hn]
    have := h2 (kids ++ ns) _ hk'
    simp only [hv, PyRt.ok_bind, C11.seqF]
    cases rest_m with
    | error e => simpa [CallsRel] using this
    | ok g2 =>
      simp only [CallsRel] at this ⊢
      obtain ⟨kids', h3, h4⟩ := this
      exact ⟨kids', h3, by rw [h4, forest_append_assoc]⟩


/-! #### a `str` / `bytes` VALUE where pairs are expected -/
theorem pair_on_val (loop : V → V → Py (Ctl × V)) (self : V)
    (hstr : ∀ c st, loop (.str [c]) st = .error .valueError) (hint : ∀ n st, loop (.int n) st = .error .typeError) (v : C11.PyVal) :
    (do let t1 ← PyU.iterList (encPyVal v); PyU.forList t1 loop self)
      = (C11.pairsFromVal v).map fun _ => self := by
  cases v with
  | str s =>
    cases s with
    | nil => rfl
    | cons c cs => simp only [encPyVal, PyU.iterList, List.map_cons, PyRt.ok_bind, PyU.forList, hstr, C11.pairsFromVal, Except.map]
  | bytes b =>
    cases b with
    | nil => rfl
    | cons c cs => simp only [encPyVal, PyU.iterList, List.map_cons, PyRt.ok_bind, PyU.forList, hint, C11.pairsFromVal, Except.map]

theorem unpack2_char (c : Nat) : PyU.unpack2 (.str [c]) = .error .valueError := rfl
theorem unpack2_int (n : Int) : PyU.unpack2 (.int n) = .error .typeError := rfl

theorem gen_pair_on_val (f : V → Py V) (self name : V) (v : C11.PyVal) :
    Gen.PyC2Dict.ConfigBlock__pair f self name (encPyVal v) = (C11.pairsFromVal v).map fun _ => .tuple [.none, self] := by
  have := pair_on_val (Gen.PyC2Dict._pair_loop1 f name) self
    (fun c st => by simp only [Gen.PyC2Dict._pair_loop1, unpack2_char, PyRt.error_bind])
    (fun n st => by simp only [Gen.PyC2Dict._pair_loop1, unpack2_int, PyRt.error_bind]) v
  simp only [Gen.PyC2Dict.ConfigBlock__pair]
  simp only [bind, Except.bind] at this ⊢
  cases hv : C11.pairsFromVal v <;> rw [hv] at this <;> revert this <;>
    cases PyU.iterList (encPyVal v) <;> simp [Except.map, pure, Except.pure] <;> intro h <;> simp [h]


theorem gen_header_on_val (f : V → Py V) (self name : V) (v : C11.PyVal) :
    Gen.PyC2Dict.ConfigBlock__header f self name (encPyVal v) = (C11.pairsFromVal v).map fun _ => .tuple [.none, self] := by
  have := pair_on_val (Gen.PyC2Dict._header_loop1 f) self
    (fun c st => by simp only [Gen.PyC2Dict._header_loop1, unpack2_char, PyRt.error_bind])
    (fun n st => by simp only [Gen.PyC2Dict._header_loop1, unpack2_int, PyRt.error_bind]) v
  simp only [Gen.PyC2Dict.ConfigBlock__header]
  simp only [bind, Except.bind] at this ⊢
  cases hv : C11.pairsFromVal v <;> rw [hv] at this <;> revert this <;>
    cases PyU.iterList (encPyVal v) <;> simp [Except.map, pure, Except.pure] <;> intro h <;> simp [h]

theorem gen_parameter_on_val (f : V → Py V) (self name : V) (v : C11.PyVal) :
    Gen.PyC2Dict.ConfigBlock__parameter f self name (encPyVal v) = (C11.pairsFromVal v).map fun _ => .tuple [.none, self] := by
  have := pair_on_val (Gen.PyC2Dict._parameter_loop1 f) self
    (fun c st => by simp only [Gen.PyC2Dict._parameter_loop1, unpack2_char, PyRt.error_bind])
    (fun n st => by simp only [Gen.PyC2Dict._parameter_loop1, unpack2_int, PyRt.error_bind]) v
  simp only [Gen.PyC2Dict.ConfigBlock__parameter]
  simp only [bind, Except.bind] at this ⊢
  cases hv : C11.pairsFromVal v <;> rw [hv] at this <;> revert this <;>
    cases PyU.iterList (encPyVal v) <;> simp [Except.map, pure, Except.pure] <;> intro h <;> simp [h]

/-- one call on `mk kids` against the nodes the model appends for it -/
def OneRel (G : C10.Table) (mk : List V → V) (kids : List V) (one_v : Py V) (one_m : Py C10.Forest) : Prop :=
  match one_m with
  | .error e => one_v = .error e
  | .ok g1 => ∃ ns, one_v = .ok (mk (kids ++ ns)) ∧ absKids G ns = some g1

section one
variable (G : C10.Table) {lbl : V} {mk : List V → V} (h : Holder lbl mk) (kids : List V)
include h

theorem one_setOption (name : C10.Text) (v : C11.PyVal) :
    OneRel G mk kids (selfAfter (Gen.PyC2Dict.ConfigBlock_set_option v2sG (mk kids) (.str name) (encPyVal v))) (.ok (C11.optNode G name v)) :=
  ⟨_, by rw [gen_set_option_proof h v2sG v2sG_spec kids _ v]; rfl, abs_optNode G name v⟩

theorem one_globalOption (name : C10.Text) (v : C11.PyVal) :
    OneRel G mk kids (selfAfter (Gen.PyC2Dict.C2Profile_set_option v2sG (mk kids) (.str name) (encPyVal v)))
      (.ok (C11.globalOptNode G name v)) :=
  ⟨_, by rw [gen_profile_set_option_proof h v2sG v2sG_spec kids _ v]; rfl, abs_globalOptNode G name v⟩

theorem one_enable (name : C10.Text) (value : V) :
    OneRel G mk kids (selfAfter (Gen.PyC2Dict.ConfigBlock__enable (mk kids) (.str name) value)) (.ok (C11.enableNode G name)) :=
  ⟨_, by rw [gen_enable_proof h kids _ _]; rfl, abs_enableNode G name⟩

theorem one_pair (name : C10.Text) (ps : List (C11.PyVal × C11.PyVal)) :
    OneRel G mk kids (selfAfter (Gen.PyC2Dict.ConfigBlock__pair v2sG (mk kids) (.str name) (encPairs ps))) (.ok (C11.pairNodes G name ps)) :=
  ⟨_, by rw [gen_pair_proof h v2sG v2sG_spec kids _ ps]; rfl, abs_pairNodes G name ps⟩

theorem one_header (name : V) (ps : List (C11.PyVal × C11.PyVal)) :
    OneRel G mk kids (selfAfter (Gen.PyC2Dict.ConfigBlock__header v2sG (mk kids) name (encPairs ps)))
      (.ok (C11.pairNodes G C11.nmHeader ps)) :=
  ⟨pairNodesV (PyU.lit "header") ps, by rw [gen_header_proof h v2sG v2sG_spec kids _ ps]; rfl, by rw [lit_header]; exact abs_pairNodes G _ ps⟩

theorem one_parameter (name : V) (ps : List (C11.PyVal × C11.PyVal)) :
    OneRel G mk kids (selfAfter (Gen.PyC2Dict.ConfigBlock__parameter v2sG (mk kids) name (encPairs ps)))
      (.ok (C11.pairNodes G C11.nmParameter ps)) :=
  ⟨pairNodesV (PyU.lit "parameter") ps, by rw [gen_parameter_proof h v2sG v2sG_spec kids _ ps]; rfl,
    by rw [lit_parameter]; exact abs_pairNodes G _ ps⟩

omit h in
theorem one_val (r : Py V) (v : C11.PyVal) (hr : r = (C11.pairsFromVal v).map fun _ => .tuple [.none, mk kids]) :
    OneRel G mk kids (selfAfter r) (match C11.pairsFromVal v with
      | .ok _ => .ok .nil
      | .error e => .error e) := by
  rw [hr]
  cases C11.pairsFromVal v with
  | error e => rfl
  | ok u => exact ⟨[], by simp [Except.map, selfAfter], absKids_nil G⟩

theorem one_setConfigBlock (name : C10.Text) (blk bl : V) (bkids : List V) (g : C10.Forest)
    (hb : PyU.getAttr blk "tree" = .ok (treeV bl bkids)) (hg : absKids G bkids = some g) :
    OneRel G mk kids (selfAfter (Gen.PyC2Dict.ConfigBlock_set_config_block (mk kids) (.str name) blk))
      (.ok (.node (C11.nameId G name) g .nil)) :=
  ⟨_, by rw [gen_set_config_block_proof h kids _ blk bl bkids hb]; rfl, by rw [abs_blockNode, hg]; rfl⟩

end one

theorem absKids_ne_nil (G : C10.Table) (x : V) (xs : List V) (g : C10.Forest) (h : absKids G (x :: xs) = some g) : g ≠ .nil := by
  rw [absKids_cons] at h
  cases hx : absChild G x with
  | none => simp [hx] at h
  | some fx =>
    cases hr : absKids G xs with
    | none => simp [hx, hr] at h
    | some r =>
      simp only [hx, hr, Option.some.injEq] at h
      subst h
      cases x with
      | inst c vals =>
        simp only [absChild] at hx
        split at hx
        · split at hx
          · cases hx; simp
          · cases hx
        · split at hx
          · split at hx
            · cases hx; simp
            · cases hx
          · cases hx
      | _ => simp [absChild] at hx

mutual
theorem buildCallsG_rel (api : List ProfileApi.Cls) (G : C10.Table) (c : ProfileApi.Cls) (lbl : V) (mk : List V → V) (h : Holder lbl mk) :
    ∀ (calls : C11.Calls) (kids : List V) (f : C10.Forest), gateOKC calls = true → absKids G kids = some f →
    CallsRel G mk f (buildCallsG api c (mk kids) calls) (C11.buildCalls api G c calls)
  | .done, kids, f, _, hk => by
    simp only [buildCallsG, C11.buildCalls, CallsRel]
    exact ⟨kids, rfl, by rw [hk, forest_append_nil]⟩
  | .kwVal name v rest, kids, f, hg, hk => by
    simp only [gateOKC] at hg
    simp only [buildCallsG, C11.buildCalls]
    refine seq_rel G mk f kids hk _ _ _ _ ?_ (fun kids' f' hk' => buildCallsG_rel api G c lbl mk h rest kids' f' hg hk')
    cases hl : c.attrs.lookup name with
    | none =>
      simp only [setOptionG, C11.setOptionNode]
      cases c.attrs.lookup C11.nmSetOption with
      | none => exact one_setOption G h kids name v
      | some k => cases k <;> first | exact one_setOption G h kids name v | exact one_globalOption G h kids name v
    | some k =>
      cases k with
      | setOption => exact one_setOption G h kids name v
      | globalOption => exact one_globalOption G h kids name v
      | enable => exact one_enable G h kids name _
      | pair => exact one_val G kids _ v (gen_pair_on_val _ _ _ v)
      | header => exact one_val G kids _ v (gen_header_on_val _ _ _ v)
      | parameter => exact one_val G kids _ v (gen_parameter_on_val _ _ _ v)
      | other => exact rfl
  | .kwPairs name ps rest, kids, f, hg, hk => by
    simp only [gateOKC] at hg
    simp only [buildCallsG, C11.buildCalls]
    refine seq_rel G mk f kids hk _ _ _ _ ?_ (fun kids' f' hk' => buildCallsG_rel api G c lbl mk h rest kids' f' hg hk')
    cases hl : c.attrs.lookup name with
    | none => exact rfl
    | some k =>
      cases k with
      | pair => exact one_pair G h kids name ps
      | header => exact one_header G h kids _ ps
      | parameter => exact one_parameter G h kids _ ps
      | enable => exact one_enable G h kids name _
      | setOption => exact rfl
      | globalOption => exact rfl
      | other => exact rfl
  | .kwBlock name b rest, kids, f, hg, hk => by
    simp only [gateOKC, Bool.and_eq_true] at hg
    have hb := buildBlockG_rel api G b hg.1
    simp only [buildCallsG, C11.buildCalls]
    cases hm : C11.buildBlock api G b with
    | error e =>
      rw [hm] at hb
      simp only [BlockRel] at hb
      simp only [hb, PyRt.error_bind, CallsRel]
    | ok g =>
      rw [hm] at hb
      obtain ⟨blk, bl, bkids, hv, ht, ha⟩ := hb
      simp only [hv, PyRt.ok_bind]
      cases hl : c.attrs.lookup name with
      | none =>
        exact seq_rel G mk f kids hk _ _ _ _ (one_setConfigBlock G h kids name blk bl bkids g ht ha)
          (fun kids' f' hk' => buildCallsG_rel api G c lbl mk h rest kids' f' hg.2 hk')
      | some k =>
        cases k with
        | enable =>
          exact seq_rel G mk f kids hk _ _ _ _ (one_enable G h kids name _)
            (fun kids' f' hk' => buildCallsG_rel api G c lbl mk h rest kids' f' hg.2 hk')
        | pair => simp only [PyRt.error_bind, CallsRel]
        | header => simp only [PyRt.error_bind, CallsRel]
        | parameter => simp only [PyRt.error_bind, CallsRel]
        | setOption => simp only [PyRt.error_bind, CallsRel]
        | globalOption => simp only [PyRt.error_bind, CallsRel]
        | other => simp only [PyRt.error_bind, CallsRel]
  | .setOption name v rest, kids, f, hg, hk => by
    simp only [gateOKC] at hg
    simp only [buildCallsG, C11.buildCalls]
    refine seq_rel G mk f kids hk _ _ _ _ ?_ (fun kids' f' hk' => buildCallsG_rel api G c lbl mk h rest kids' f' hg hk')
    simp only [setOptionG, C11.setOptionNode]
    cases c.attrs.lookup C11.nmSetOption with
    | none => exact one_setOption G h kids name v
    | some k => cases k <;> first | exact one_setOption G h kids name v | exact one_globalOption G h kids name v
  | .pair name ps rest, kids, f, hg, hk => by
    simp only [gateOKC] at hg
    simp only [buildCallsG, C11.buildCalls]
    exact seq_rel G mk f kids hk _ _ _ _ (one_pair G h kids name ps) (fun kids' f' hk' => buildCallsG_rel api G c lbl mk h rest kids' f' hg hk')
  | .enable name rest, kids, f, hg, hk => by
    simp only [gateOKC] at hg
    simp only [buildCallsG, C11.buildCalls]
    exact seq_rel G mk f kids hk _ _ _ _ (one_enable G h kids name _) (fun kids' f' hk' => buildCallsG_rel api G c lbl mk h rest kids' f' hg hk')
  | .headerC ps rest, kids, f, hg, hk => by
    simp only [gateOKC] at hg
    simp only [buildCallsG, C11.buildCalls]
    exact seq_rel G mk f kids hk _ _ _ _ (one_header G h kids _ ps) (fun kids' f' hk' => buildCallsG_rel api G c lbl mk h rest kids' f' hg hk')
  | .parameterC ps rest, kids, f, hg, hk => by
    simp only [gateOKC] at hg
    simp only [buildCallsG, C11.buildCalls]
    exact seq_rel G mk f kids hk _ _ _ _ (one_parameter G h kids _ ps) (fun kids' f' hk' => buildCallsG_rel api G c lbl mk h rest kids' f' hg hk')
  | .setConfigBlock name b rest, kids, f, hg, hk => by
    simp only [gateOKC, Bool.and_eq_true] at hg
    have hb := buildBlockG_rel api G b hg.1
    simp only [buildCallsG, C11.buildCalls]
    cases hm : C11.buildBlock api G b with
    | error e =>
      rw [hm] at hb
      simp only [BlockRel] at hb
      simp only [hb, PyRt.error_bind, CallsRel]
    | ok g =>
      rw [hm] at hb
      obtain ⟨blk, bl, bkids, hv, ht, ha⟩ := hb
      simp only [hv, PyRt.ok_bind]
      exact seq_rel G mk f kids hk _ _ _ _ (one_setConfigBlock G h kids name blk bl bkids g ht ha)
        (fun kids' f' hk' => buildCallsG_rel api G c lbl mk h rest kids' f' hg.2 hk')
  | .setNonEmptyConfigBlock name b rest, kids, f, hg, hk => by
    simp only [gateOKC, Bool.and_eq_true] at hg
    have hb := buildBlockG_rel api G b hg.1
    have ih := fun kids' f' hk' => buildCallsG_rel api G c lbl mk h rest kids' f' hg.2 hk'
    simp only [buildCallsG, C11.buildCalls]
    cases hm : C11.buildBlock api G b with
    | error e =>
      rw [hm] at hb
      simp only [BlockRel] at hb
      simp only [hb, PyRt.error_bind, CallsRel]
    | ok g =>
      rw [hm] at hb
      obtain ⟨blk, bl, bkids, hv, ht, ha⟩ := hb
      simp only [hv, PyRt.ok_bind, gen_set_non_empty_config_block_proof h kids _ blk bl bkids ht]
      cases bkids with
      | nil =>
        have hgn : g = .nil := by
          rw [absKids_nil] at ha
          exact (Option.some.inj ha).symm
        subst hgn
        simp only [List.isEmpty_nil, if_true, selfAfter, PyRt.ok_bind]
        exact ih kids f hk
      | cons x xs =>
        have hne := absKids_ne_nil G x xs g ha
        have hone : OneRel G mk kids (.ok (mk (kids ++ [treeV (.str name) (x :: xs)]))) (.ok (.node (C11.nameId G name) g .nil)) :=
          ⟨_, rfl, by rw [abs_blockNode, ha]; rfl⟩
        have := seq_rel G mk f kids hk (.ok (mk (kids ++ [treeV (.str name) (x :: xs)]))) (.ok (.node (C11.nameId G name) g .nil))
          (fun s => buildCallsG api c s rest) (C11.buildCalls api G c rest) hone ih
        simp only [List.isEmpty_cons, Bool.false_eq_true, if_false, selfAfter, PyRt.ok_bind] at this ⊢
        cases g with
        | nil => exact absurd rfl hne
        | leaf t s r => exact this
        | node l k r => exact this
theorem buildBlockG_rel (api : List ProfileApi.Cls) (G : C10.Table) :
    ∀ (b : C11.BlockV), gateOKB b = true → BlockRel G (buildBlockG api b) (C11.buildBlock api G b)
  | .cls c calls, hg => by
    simp only [gateOKB] at hg
    simp only [buildBlockG, C11.buildBlock]
    cases hc : api[c]? with
    | none => exact rfl
    | some cl =>
      have := buildCallsG_rel api G cl (.str cl.treeName) (blockV (.str cl.treeName)) (holder_block _) calls [] .nil hg (absKids_nil G)
      simp only
      cases hm : C11.buildCalls api G cl calls with
      | error e =>
        rw [hm] at this
        exact this
      | ok g =>
        rw [hm] at this
        obtain ⟨kids', h1, h2⟩ := this
        exact ⟨_, _, kids', h1, rfl, h2⟩
  | .dt steps, _ => by
    simp only [buildBlockG, C11.buildBlock, dtBlockG_eq]
    exact ⟨_, _, _, rfl, rfl, abs_dtForest G steps⟩
  | .exec xs, _ => by
    simp only [buildBlockG, C11.buildBlock, gen_from_execute_list_proof (holder_block _) v2sG v2sG_spec [] xs]
    have := abs_execNodes G xs
    cases hv : execNodesV xs with
    | error e =>
      rw [hv] at this
      simp only [AbsRes] at this
      rw [this]
      rfl
    | ok ns =>
      rw [hv] at this
      obtain ⟨g, h1, h2⟩ := this
      rw [h1]
      exact ⟨_, _, ns, rfl, rfl, h2⟩
  | .gate xs, hg => by
    simp only [gateOKB] at hg
    have hg' : ∀ x ∈ xs, x.all (· < 128) = true := List.all_eq_true.mp hg
    simp only [buildBlockG, C11.buildBlock, gen_from_beacon_gate_proof (holder_block _) [] xs hg']
    exact ⟨blockV (PyU.lit "BeaconGateBlock") ([] ++ gateNodesV xs), _, _, rfl, rfl, by simpa using abs_gateNodes G xs⟩
end

theorem absTreeOf_profile (G : C10.Table) (nm : C10.Text) (kids : List V) (c h : V) :
    absTreeOf G (profileV (treeV (.str nm) kids) c h) = (absKids G kids).map fun ks => ⟨C11.nameId G nm, ks⟩ := by
  simp [absTreeOf, profileV, treeV, PyU.getAttr, Gen.PyC2Dict.C2ProfileCls, PyU.lookupField, Gen.PyC2Dict.TreeCls]

/-- the whole call sequence on a `C2Profile`, through the translated methods, against the model's tree -/
theorem buildProfileG_rel (G : C10.Table) (calls : C11.Calls) (hg : gateOKC calls = true) :
    (match C11.buildProfile ProfileApi.classes G calls with
      | .error e => buildProfileG ProfileApi.classes calls = .error e
      | .ok t => ∃ obj, buildProfileG ProfileApi.classes calls = .ok obj ∧ absTreeOf G obj = some t) := by
  simp only [C11.buildProfile, buildProfileG]
  cases hc : ProfileApi.classes.find? (·.pyName == C11.nmC2Profile) with
  | none => rfl
  | some c =>
    have := buildCallsG_rel ProfileApi.classes G c (.str c.treeName) (fun k => profileV (treeV (.str c.treeName) k) (.dict [] []) .none)
      (holder_profile _ _ _) calls [] .nil hg (absKids_nil G)
    simp only [profileBlockV]
    cases hm : C11.buildCalls ProfileApi.classes G c calls with
    | error e =>
      rw [hm] at this
      exact this
    | ok g =>
      rw [hm] at this
      obtain ⟨kids', h1, h2⟩ := this
      refine ⟨_, h1, ?_⟩
      rw [absTreeOf_profile, h2]
      rfl

end C11Gen

import CsVerif.Model.C10Gen
/-! Helper lemmas for Props/C10Gen.lean: the operations of `PyU` / `PyU_T12` / `PyU_T15` (run-time library of the untyped translator)
against the primitives of the C10 model, and the definitions of `Gen/PyC2Text.lean` translated from the generator `postproc` of
`C2Profile.as_text` against `C10.postproc` (`postprocGo`, `renderLine`).  No property statements. -/
namespace C10Gen
open PyU
set_option linter.unusedSimpArgs false

theorem pure_ok {α : Type} (a : α) : (pure a : Py α) = .ok a := rfl

theorem contains_substr (y t : C10.Text) : (y.isEmpty || (PyU.splitAt? y t).isSome) = C10.isSubstr y t := by
  induction t with
  | nil => simp [PyU.splitAt?, C10.isSubstr]
  | cons c cs ih =>
    simp only [PyU.splitAt?, C10.isSubstr]
    by_cases hp : y.isPrefixOf (c :: cs) = true
    · simp [hp]
    · have hp' : y.isPrefixOf (c :: cs) = false := Bool.eq_false_iff.mpr hp
      have hy : y.isEmpty = false := by
        cases y with
        | nil => simp [List.isPrefixOf] at hp'
        | cons _ _ => rfl
      simp only [hp', Bool.false_eq_true, if_false, Option.isSome_map, Bool.false_or, ← ih, hy]

theorem contains_flush (item : C10.Text) : PyU.contains (PyU.lit "{};") (.str item) = .ok (C10.isFlush item) := by
  have : PyU.lit "{};" = .str [123, 125, 59] := by decide
  simp only [this, PyU.contains, contains_substr, C10.isFlush]

theorem any_eq_str (r : C10.Text) (l : List C10.Text) : (l.map V.str).any (PyU.eq (.str r)) = l.contains r := by
  induction l with
  | nil => rfl
  | cons x xs ih =>
    have e : PyU.eq (.str r) (.str x) = (r == x) := by simp only [PyU.eq]
    simp only [List.map_cons, List.any_cons, e, List.contains_cons]
    rw [ih]

theorem contains_line (l : List C10.Text) :
    PyU.contains (encItems l) (PyU.lit "}") = .ok (l.contains C10.rbrace) ∧
    PyU.contains (encItems l) (PyU.lit "{") = .ok (l.contains C10.lbrace) := by
  have h1 : PyU.lit "}" = .str C10.rbrace := by decide
  have h2 : PyU.lit "{" = .str C10.lbrace := by decide
  simp only [h1, h2, PyU.contains, encItems, any_eq_str, and_self]


theorem rep4 : ∀ k : Nat, (List.replicate k ([32, 32, 32, 32] : List Nat)).flatten = List.replicate (4 * k) 32
  | 0 => rfl
  | k + 1 => by
    rw [List.replicate_succ, List.flatten_cons, rep4 k, show 4 * (k + 1) = (4 * k) + 4 from by omega]
    simp only [List.replicate_succ, List.cons_append, List.nil_append]

theorem mul_space4 : PyU.mul (PyU.lit " ") (V.int 4) = .ok (.str [32, 32, 32, 32]) := by decide
theorem mul_str4 (n : Int) : PyU.mul (.str [32, 32, 32, 32]) (V.int n) = .ok (.str (List.replicate (4 * n).toNat 32)) := by
  simp only [PyU.mul, PyU.asInt]
  rw [rep4, show 4 * n.toNat = (4 * n).toNat from by omega]

/-! ### the inner loop: `for i, x in enumerate(line)` -/
theorem enumFrom_map (k : Nat) (l : List C10.Text) :
    PyU.enumFrom k (l.map V.str) = (l.zipIdx k).map fun p => V.tuple [.int p.2, .str p.1] := by
  induction l generalizing k with
  | nil => rfl
  | cons x xs ih => simp only [List.map_cons, PyU.enumFrom, ih, List.zipIdx_cons]

theorem add_int (a b : Int) : PyU.add (.int a) (.int b) = .ok (.int (a + b)) := rfl
theorem gt_int (a b : Int) : PyU.gt (.int a) (.int b) = .ok (decide (b < a)) := rfl
theorem len_items (l : List C10.Text) : PyU.len (encItems l) = .ok (.int (l.length : Int)) := by simp [PyU.len, encItems]
theorem unpack2_tuple (a b : V) : PyU.unpack2 (.tuple [a, b]) = .ok (a, b) := rfl
theorem getItem_items (l : List C10.Text) (k : Nat) (h : k < l.length) : PyU.getItem (encItems l) (.int (k : Int)) = .ok (.str l[k]) := by
  have h1 : ¬ ((k : Int) < 0) := by omega
  have h2 : (0 ≤ (k : Int) ∧ (k : Int) < ((l.map V.str).length : Int)) := by simp only [List.length_map]; omega
  simp only [PyU.getItem, encItems, PyU.asInt, PyRt.normIdx, h1, if_false, h2, and_self, if_true, Except.map, Int.toNat_natCast]
  simp [List.getD_eq_getElem?_getD, h]
theorem eq_semi (y : C10.Text) : PyU.eq (.str y) (PyU.lit ";") = decide (y = C10.semi) := by
  have : PyU.lit ";" = .str C10.semi := by decide
  rw [this]; simp only [PyU.eq]
  by_cases h : y = C10.semi
  · simp [h]
  · simp [h]

/-- what one run of the inner loop yields: the item, and a blank unless it is the last one or `;` follows -/
def unitOf (x : C10.Text) : List C10.Text → List C10.Text
  | [] => [x]
  | y :: _ => if y = C10.semi then [x] else [x, [32]]

theorem renderLine_cons (x : C10.Text) (rest : List C10.Text) : C10.renderLine (x :: rest) = unitOf x rest ++ C10.renderLine rest := by
  cases rest with
  | nil => rfl
  | cons y r => simp only [C10.renderLine, unitOf]; split <;> rfl

theorem gen_as_text_postproc_loop2_step (pre : List C10.Text) (x : C10.Text) (rest : List C10.Text) (ys : List V) :
    Gen.PyC2Text.postproc_loop2 (encItems (pre ++ x :: rest)) (.tuple [.int pre.length, .str x]) (.list ys)
      = .ok (.cont, .list (ys ++ (unitOf x rest).map V.str)) := by
  simp only [Gen.PyC2Text.postproc_loop2, unpack2_tuple, PyRt.ok_bind, len_items, add_int, gt_int, PyU.yieldTo]
  cases rest with
  | nil =>
    have : ¬ ((pre.length : Int) + 1 < ((pre ++ [x]).length : Int)) := by simp only [List.length_append, List.length_cons, List.length_nil]; omega
    simp only [this, decide_false, Bool.false_eq_true, if_false, pure_ok, unitOf, List.map_cons, List.map_nil]
  | cons y r =>
    have h1 : ((pre.length : Int) + 1 < ((pre ++ x :: y :: r).length : Int)) := by simp only [List.length_append, List.length_cons]; omega
    have hk : pre.length + 1 < (pre ++ x :: y :: r).length := by simp only [List.length_append, List.length_cons]; omega
    have hg := getItem_items (pre ++ x :: y :: r) (pre.length + 1) hk
    have he : (pre ++ x :: y :: r)[pre.length + 1] = y := by simp
    rw [he] at hg
    rw [show (((pre.length + 1 : Nat)) : Int) = (pre.length : Int) + 1 from by omega] at hg
    simp only [h1, decide_true, if_true, hg, PyRt.ok_bind, eq_semi, unitOf]
    by_cases hy : y = C10.semi
    · simp [hy, pure_ok]
    · simp [hy, pure_ok]; rfl

theorem gen_as_text_postproc_loop2 : ∀ (s : List C10.Text) (pre : List C10.Text) (ys : List V),
    PyU.forList (PyU.enumFrom pre.length (s.map V.str)) (Gen.PyC2Text.postproc_loop2 (encItems (pre ++ s))) (.list ys)
      = (.ok (.list (ys ++ (C10.renderLine s).map V.str)) : Py V) := by
  intro s
  induction s with
  | nil => intro pre ys; simp [PyU.enumFrom, PyU.forList, C10.renderLine]
  | cons x rest ih =>
    intro pre ys
    have ih' := ih (pre ++ [x]) (ys ++ (unitOf x rest).map V.str)
    simp only [List.length_append, List.length_cons, List.length_nil, List.append_assoc, List.singleton_append, Nat.zero_add] at ih'
    simp only [List.map_cons, PyU.enumFrom, PyU.forList, gen_as_text_postproc_loop2_step, ih', renderLine_cons, List.map_append, List.append_assoc]


/-! ### the outer loop -/
theorem append_items (l : List C10.Text) (x : C10.Text) : PyU.append (encItems l) (.str x) = .ok (encItems (l ++ [x])) := by
  simp [PyU.append, encItems]
theorem sub_int (a b : Int) : PyU.sub (.int a) (.int b) = .ok (.int (a - b)) := rfl
theorem iadd_int (a b : Int) : PyU.iadd (.int a) (.int b) = .ok (.int (a + b)) := rfl
theorem enumerate_items (l : List C10.Text) : PyU.enumerate (encItems l) = .ok (.list (PyU.enumFrom 0 (l.map V.str))) := rfl
theorem iterList_list (l : List V) : PyU.iterList (.list l) = .ok l := rfl
theorem lit_nl : PyU.lit "\u000a" = .str [10] := by decide

theorem gen_as_text_postproc_loop1 : ∀ (items line : List C10.Text) (indent : Int) (ys : List V),
    ∃ l' i', PyU.forList (items.map V.str) Gen.PyC2Text.postproc_loop1 (.list ys, encItems line, .int indent)
      = (.ok (.list (ys ++ (C10.postprocGo line indent items).map V.str), l', i') : Py (V × V × V)) := by
  intro items
  induction items with
  | nil => intro line indent ys; exact ⟨encItems line, .int indent, by simp [PyU.forList, C10.postprocGo]⟩
  | cons item rest ih =>
    intro line indent ys
    have h2 := gen_as_text_postproc_loop2 (line ++ [item]) []
    simp only [List.length_nil, List.nil_append] at h2
    simp only [List.map_cons, PyU.forList, Gen.PyC2Text.postproc_loop1, append_items, PyRt.ok_bind, contains_flush, C10.postprocGo]
    by_cases hf : C10.isFlush item = true
    · simp only [hf, if_true, (contains_line _).1, (contains_line _).2, PyRt.ok_bind]
      cases hr : (line ++ [item]).contains C10.rbrace <;> cases hl : (line ++ [item]).contains C10.lbrace
      all_goals
        simp only [Bool.false_eq_true, if_false, if_true, pure_ok, PyRt.ok_bind, sub_int, iadd_int, mul_space4, mul_str4, PyU.yieldTo,
          enumerate_items, iterList_list, h2, lit_nl]
      · obtain ⟨l', i', h⟩ := ih [] indent (ys ++ [V.str (List.replicate (4 * indent).toNat 32)] ++ List.map V.str (C10.renderLine (line ++ [item])) ++ [V.str [10]])
        refine ⟨l', i', ?_⟩
        rw [show encItems [] = V.list [] from rfl] at h
        simp only [List.append_assoc, List.nil_append, List.cons_append] at h
        simp only [List.map_append, List.map_cons, List.map_nil, List.append_assoc, List.nil_append, List.cons_append]
        exact h
      · obtain ⟨l', i', h⟩ := ih [] (indent + 1) (ys ++ [V.str [10]] ++ [V.str (List.replicate (4 * indent).toNat 32)] ++ List.map V.str (C10.renderLine (line ++ [item])) ++ [V.str [10]])
        refine ⟨l', i', ?_⟩
        rw [show encItems [] = V.list [] from rfl] at h
        simp only [List.append_assoc, List.nil_append, List.cons_append] at h
        simp only [List.map_append, List.map_cons, List.map_nil, List.append_assoc, List.nil_append, List.cons_append]
        exact h
      · obtain ⟨l', i', h⟩ := ih [] (indent - 1) (ys ++ [V.str (List.replicate (4 * (indent - 1)).toNat 32)] ++ List.map V.str (C10.renderLine (line ++ [item])) ++ [V.str [10]])
        refine ⟨l', i', ?_⟩
        rw [show encItems [] = V.list [] from rfl] at h
        simp only [List.append_assoc, List.nil_append, List.cons_append] at h
        simp only [List.map_append, List.map_cons, List.map_nil, List.append_assoc, List.nil_append, List.cons_append]
        exact h
      · obtain ⟨l', i', h⟩ := ih [] (indent - 1 + 1) (ys ++ [V.str [10]] ++ [V.str (List.replicate (4 * (indent - 1)).toNat 32)] ++ List.map V.str (C10.renderLine (line ++ [item])) ++ [V.str [10]])
        refine ⟨l', i', ?_⟩
        rw [show encItems [] = V.list [] from rfl] at h
        simp only [List.append_assoc, List.nil_append, List.cons_append] at h
        simp only [List.map_append, List.map_cons, List.map_nil, List.append_assoc, List.nil_append, List.cons_append]
        exact h
    · have hf' : C10.isFlush item = false := Bool.eq_false_iff.mpr hf
      obtain ⟨l', i', h⟩ := ih (line ++ [item]) indent ys
      refine ⟨l', i', ?_⟩
      simp only [hf', Bool.false_eq_true, if_false, pure_ok, h]


theorem gen_as_text_postproc_proof (ts : List C10.Text) :
    Gen.PyC2Text.as_text_postproc (encItems ts) = .ok (encItems (C10.postproc ts)) := by
  obtain ⟨l', i', h⟩ := gen_as_text_postproc_loop1 ts [] 0 []
  rw [show encItems [] = V.list [] from rfl] at h
  simp only [Gen.PyC2Text.as_text_postproc, encItems, iterList_list, PyRt.ok_bind, h, List.nil_append, C10.postproc, pure_ok]

end C10Gen

import CsVerif.Model.C16Gen
import CsVerif.Lemmas.C16
import Mathlib.Tactic.SplitIfs
/-! Helper lemmas for Props/C16Gen.lean: the operations of `PyU` (run-time library of the untyped translator) against the
primitives of the C16 model, and the definition of `Gen/PyC2U.lean` translated from `parse_raw_http` against `C16.parseRawHttp`.
No property statements. -/
namespace C16Gen
open PyU
set_option linter.unusedSimpArgs false

/-! ### monad plumbing -/

theorem pure_ok {α : Type} (a : α) : (pure a : Py α) = .ok a := rfl
theorem throw_err {α : Type} (e : PyExc) : (throw e : Py α) = .error e := rfl

/-! ### bytes.partition -/

theorem splitAt_eq_partitionAt (sep d : Bytes) : splitAt? sep d = C16.partitionAt sep d := by
  induction d with
  | nil => rfl
  | cons b bs ih => simp only [splitAt?, C16.partitionAt, ih]

/-- the middle component of `d.partition(sep)` -/
def mid (sep d : Bytes) : Bytes := if (C16.partitionAt sep d).isSome then sep else []

theorem partition_bytes (sep d : Bytes) (h : sep ≠ []) :
    PyU.partition (.bytes d) (.bytes sep)
      = .ok (.tuple [.bytes (C16.partition sep d).1, .bytes (mid sep d), .bytes (C16.partition sep d).2]) := by
  have hs : sep.isEmpty = false := by cases sep with | nil => exact absurd rfl h | cons _ _ => rfl
  simp only [PyU.partition, hs, Bool.false_eq_true, if_false, splitAt_eq_partitionAt, C16.partition, mid]
  cases C16.partitionAt sep d <;> rfl

theorem unpack3_tuple (a b c : V) : unpack3 (.tuple [a, b, c]) = .ok (a, b, c) := rfl
theorem unpack3_list (a b c : V) : unpack3 (.list [a, b, c]) = .ok (a, b, c) := rfl
theorem unpack2_tuple (a b : V) : unpack2 (.tuple [a, b]) = .ok (a, b) := rfl

/-! ### bytes.split(b"\r\n") -/

theorem splitSepGo_crlf : ∀ (d cur : Bytes), splitSepGo [13, 10] d 0 cur = C16.splitCRLFGo d cur
  | [], cur => rfl
  | [b], cur => by simp [splitSepGo, List.isPrefixOf, C16.splitCRLFGo]
  | a :: b :: rest, cur => by
    have ih1 := splitSepGo_crlf rest []
    have ih2 := splitSepGo_crlf (b :: rest) (cur ++ [a])
    by_cases h : a = 13 ∧ b = 10
    · obtain ⟨ha, hb⟩ := h
      subst ha; subst hb
      simp [splitSepGo, List.isPrefixOf, ih1, C16.splitCRLFGo]
    · have hp : ([13, 10] : Bytes).isPrefixOf (a :: b :: rest) = false := by
        simp only [List.isPrefixOf, Bool.and_true, Bool.and_eq_false_imp, beq_iff_eq, beq_eq_false_iff_ne, ne_eq]
        intro h1 h2
        exact h ⟨h1.symm, h2.symm⟩
      rw [C16.splitCRLFGo]
      simp only [h, if_false, ← ih2]
      rw [splitSepGo]
      simp only [hp, Bool.false_eq_true, if_false]

theorem split_crlf (d : Bytes) :
    PyU.split (.bytes d) (.bytes [13, 10]) = .ok (.list ((C16.splitCRLF d).map .bytes)) := by
  simp [PyU.split, splitSepGo_crlf, C16.splitCRLF]

/-! ### whitespace: rstrip(), split() -/

theorem isSpace_toNat : ∀ b : UInt8, PyU.isSpace b.toNat = C16.isWs b := by
  apply C16.forall_byte; decide +kernel

theorem isSpace_fun : (fun (c : UInt8) => PyU.isSpace c.toNat) = C16.isWs := funext isSpace_toNat

theorem rstrip_bytes (s : Bytes) : PyU.rstrip (.bytes s) .none = .ok (.bytes (C16.rstrip s)) := by
  simp only [PyU.rstrip, rstripL, isSpace_fun, C16.rstrip]

theorem splitWsGo_eq (s cur : Bytes) : PyU.splitWsGo C16.isWs s cur = C16.splitWsGo s cur := by
  induction s generalizing cur with
  | nil => rfl
  | cons b rest ih => simp only [PyU.splitWsGo, C16.splitWsGo, ih]

theorem split_ws (s : Bytes) : PyU.split (.bytes s) .none = .ok (.list ((C16.splitWs s).map .bytes)) := by
  simp only [PyU.split, isSpace_fun, splitWsGo_eq, C16.splitWs]

/-! ### upper().startswith(b"HTTP/") -/

theorem upByte_eq : PyU.upByte = C16.upByte := rfl

theorem upper_bytes (s : Bytes) : PyU.upper (.bytes s) = .ok (.bytes (C16.upper s)) := rfl

theorem startswith_http (s : Bytes) :
    PyU.startswith (.bytes (C16.upper s)) (.bytes [72, 84, 84, 80, 47]) = .ok (.bool (C16.startsWithHTTP s)) := rfl

/-! ### dict[bytes, bytes] -/

theorem findKey_enc (d : List (Bytes × Bytes)) (k : Bytes) :
    findKey (.bytes k) (d.map fun p => V.bytes p.1) (d.map fun p => V.bytes p.2)
      = ((d.find? fun p => p.1 == k).map fun p => V.bytes p.2) := by
  induction d with
  | nil => rfl
  | cons p rest ih =>
    simp only [List.map_cons, findKey, keyEq, PyU.eq, Bool.and_true, List.find?_cons]
    by_cases h : k = p.1
    · subst h; simp
    · have h1 : (k == p.1) = false := by simpa using h
      have h2 : (p.1 == k) = false := by simpa using fun e => h e.symm
      simp only [h1, h2, Bool.false_eq_true, if_false, ih]

theorem setKey_enc (d : List (Bytes × Bytes)) (k v : Bytes) (h : (d.find? fun p => p.1 == k).isSome) :
    setKey (.bytes k) (.bytes v) (d.map fun p => V.bytes p.1) (d.map fun p => V.bytes p.2)
      = (C16.dictSet d k v).map (fun p => V.bytes p.2) ∧
    (C16.dictSet d k v).map (fun p => V.bytes p.1) = d.map fun p => V.bytes p.1 := by
  induction d with
  | nil => simp at h
  | cons p rest ih =>
    simp only [List.map_cons, setKey, keyEq, PyU.eq, Bool.and_true, C16.dictSet]
    by_cases hk : p.1 = k
    · subst hk; simp
    · have h1 : (k == p.1) = false := by simpa using fun e => hk e.symm
      have h2 : (p.1 == k) = false := by simpa using hk
      simp only [List.find?_cons, h2] at h
      obtain ⟨i1, i2⟩ := ih h
      simp only [h1, Bool.false_eq_true, if_false, hk, i1, List.map_cons, i2, and_self]

theorem dictSet_append (d : List (Bytes × Bytes)) (k v : Bytes) (h : (d.find? fun p => p.1 == k) = none) :
    C16.dictSet d k v = d ++ [(k, v)] := by
  induction d with
  | nil => rfl
  | cons p rest ih =>
    simp only [List.find?_cons] at h
    by_cases hk : p.1 = k
    · simp [hk] at h
    · have h2 : (p.1 == k) = false := by simpa using hk
      simp only [h2] at h
      simp only [C16.dictSet, hk, if_false, ih h, List.cons_append]

theorem setItem_enc (d : List (Bytes × Bytes)) (k v : Bytes) :
    setItem (encDict d) (.bytes k) (.bytes v) = .ok (encDict (C16.dictSet d k v)) := by
  simp only [setItem, encDict, hashable, if_true, dictInsert, findKey_enc]
  cases h : d.find? fun p => p.1 == k with
  | none =>
    simp only [Option.map_none, dictSet_append d k v h, List.map_append, List.map_cons, List.map_nil]
  | some q =>
    have hs : (d.find? fun p => p.1 == k).isSome := by simp [h]
    obtain ⟨i1, i2⟩ := setKey_enc d k v hs
    simp only [Option.map_some, i1, i2]

theorem mkDict_nil : mkDict [] = .ok (encDict []) := rfl

/-! ### the header loop -/

theorem truthy_bytes (b : Bytes) : truthy (.bytes b) = !b.isEmpty := rfl

theorem gen_parse_raw_http_loop1_eq (X : V → Py V) (Y : V → V → Py V) (lines : List Bytes) :
    ∀ (u : V) (d : List (Bytes × Bytes)),
    ∃ u', forList (lines.map .bytes) (Gen.PyC2U.parse_raw_http_loop1 X Y) (u, encDict d)
      = .ok (u', encDict ((C16.headerPairs lines).foldl (fun d p => C16.dictSet d p.1 p.2) d)) := by
  induction lines with
  | nil => intro u d; exact ⟨u, rfl⟩
  | cons l rest ih =>
    intro u d
    by_cases hl : l = []
    · subst hl
      obtain ⟨u', hu⟩ := ih u d
      refine ⟨u', ?_⟩
      simp only [List.map_cons, forList, Gen.PyC2U.parse_raw_http_loop1, truthy_bytes, List.isEmpty_nil, Bool.not_true,
        Bool.not_false, if_true, pure_ok, hu, C16.headerPairs, List.filter_cons, Bool.false_eq_true, if_false]
    · have he : l.isEmpty = false := by cases l with | nil => exact absurd rfl hl | cons _ _ => rfl
      obtain ⟨u', hu⟩ := ih (.bytes (mid C16.colonSpace l)) (C16.dictSet d (C16.partition C16.colonSpace l).1 (C16.partition C16.colonSpace l).2)
      refine ⟨u', ?_⟩
      have hp := partition_bytes C16.colonSpace l (by decide)
      simp only [C16.colonSpace] at hp
      simp only [List.map_cons, forList, Gen.PyC2U.parse_raw_http_loop1, truthy_bytes, he, Bool.not_false, Bool.not_true,
        Bool.false_eq_true, if_false, hp, PyRt.ok_bind, unpack3_tuple, setItem_enc, pure_ok]
      simp only [C16.colonSpace] at hu
      simp only [hu, C16.headerPairs, List.filter_cons, he, Bool.not_false, if_true, List.map_cons, List.foldl_cons, C16.colonSpace]

theorem iterList_list (l : List V) : iterList (.list l) = .ok l := rfl


/-! ### int(status.decode()) -/

/-- the model's `Option` as the translation's `Py` -/
def optPy {α : Type} : Option α → Py α
  | some a => .ok a
  | none => .error .valueError

theorem map_optPy {α β : Type} (f : α → β) (o : Option α) : Except.map f (optPy o) = optPy (o.map f) := by
  cases o <;> rfl

theorem isCont_eq : PyU.isCont = C16.isCont := rfl

theorem cond3 (b0 b1 b2 : UInt8) (lo hi : UInt8) (x y : UInt8) :
    (C16.isCont b1 = true ∧ C16.isCont b2 = true ∧ (b0 = x → lo ≤ b1) ∧ (b0 = y → b1 ≤ hi))
      ↔ ((C16.isCont b1 && C16.isCont b2 && (b0 != x || decide (lo ≤ b1)) && (b0 != y || decide (b1 ≤ hi))) = true) := by
  simp only [Bool.and_eq_true, Bool.or_eq_true, bne_iff_ne, ne_eq, decide_eq_true_eq]
  constructor
  · rintro ⟨h1, h2, h3, h4⟩
    exact ⟨⟨⟨h1, h2⟩, by by_cases e : b0 = x; exact Or.inr (h3 e); exact Or.inl e⟩,
      by by_cases e : b0 = y; exact Or.inr (h4 e); exact Or.inl e⟩
  · rintro ⟨⟨⟨h1, h2⟩, h3⟩, h4⟩
    exact ⟨h1, h2, fun e => h3.resolve_left (fun n => n e), fun e => h4.resolve_left (fun n => n e)⟩

theorem cond4 (b0 b1 b2 b3 : UInt8) (lo hi : UInt8) (x y : UInt8) :
    (C16.isCont b1 = true ∧ C16.isCont b2 = true ∧ C16.isCont b3 = true ∧ (b0 = x → lo ≤ b1) ∧ (b0 = y → b1 ≤ hi))
      ↔ ((C16.isCont b1 && C16.isCont b2 && C16.isCont b3 && (b0 != x || decide (lo ≤ b1)) && (b0 != y || decide (b1 ≤ hi))) = true) := by
  simp only [Bool.and_eq_true, Bool.or_eq_true, bne_iff_ne, ne_eq, decide_eq_true_eq]
  constructor
  · rintro ⟨h1, h2, h2', h3, h4⟩
    exact ⟨⟨⟨⟨h1, h2⟩, h2'⟩, by by_cases e : b0 = x; exact Or.inr (h3 e); exact Or.inl e⟩,
      by by_cases e : b0 = y; exact Or.inr (h4 e); exact Or.inl e⟩
  · rintro ⟨⟨⟨⟨h1, h2⟩, h2'⟩, h3⟩, h4⟩
    exact ⟨h1, h2, h2', fun e => h3.resolve_left (fun n => n e), fun e => h4.resolve_left (fun n => n e)⟩

theorem utf8_eq_aux (n : Nat) : ∀ s : Bytes, s.length ≤ n → PyU.utf8 s = optPy (C16.utf8Decode s) := by
  induction n with
  | zero =>
    intro s h
    have : s = [] := List.eq_nil_of_length_eq_zero (by omega)
    subst this
    rw [PyU.utf8.eq_def, C16.utf8Decode.eq_def]; rfl
  | succ n ih =>
    intro s h
    match s, h with
    | [], _ => rw [PyU.utf8.eq_def, C16.utf8Decode.eq_def]; rfl
    | [b0], _ =>
      rw [PyU.utf8.eq_def, C16.utf8Decode.eq_def]
      simp only [ih [] (by simp), map_optPy]
      split_ifs <;> rfl
    | [b0, b1], h =>
      rw [PyU.utf8.eq_def, C16.utf8Decode.eq_def]
      simp only [ih [b1] (by simp at h ⊢; omega), ih [] (by simp), isCont_eq, map_optPy]
      split_ifs <;> rfl
    | [b0, b1, b2], h =>
      rw [PyU.utf8.eq_def, C16.utf8Decode.eq_def]
      simp only [ih [b1, b2] (by simp at h ⊢; omega), ih [b2] (by simp at h ⊢; omega), ih [] (by simp), isCont_eq, map_optPy,
        cond3]
      split_ifs <;> rfl
    | b0 :: b1 :: b2 :: b3 :: r, h =>
      rw [PyU.utf8.eq_def, C16.utf8Decode.eq_def]
      simp only [ih (b1 :: b2 :: b3 :: r) (by simp at h ⊢; omega), ih (b2 :: b3 :: r) (by simp at h ⊢; omega),
        ih (b3 :: r) (by simp at h ⊢; omega), ih r (by simp at h ⊢; omega), isCont_eq, map_optPy, cond3, cond4]
      split_ifs <;> rfl

theorem utf8_eq (s : Bytes) : PyU.utf8 s = optPy (C16.utf8Decode s) := utf8_eq_aux s.length s (Nat.le_refl _)

theorem decodeUtf8_bytes (b : Bytes) : decodeUtf8 (.bytes b) = (optPy (C16.utf8Decode b)).map .str := by
  simp only [decodeUtf8, utf8_eq]

theorem isSpace_eq : PyU.isSpace = C16.isAsciiSpaceN := rfl

theorem hasDoubleUnderscore_eq (l : List Nat) : PyU.hasDoubleUnderscore l = C16.hasDoubleUnderscore l := by
  fun_induction PyU.hasDoubleUnderscore l <;> simp_all [C16.hasDoubleUnderscore]

theorem isDigitOrUnderscoreN_eq : PyU.isDigitOrUnderscoreN = C16.isDigitOrUnderscoreN := rfl
theorem decimalValueN_eq : PyU.decimalValueN = C16.decimalValueN := rfl

theorem parseDecimalBody_eq (neg : Bool) (l : List Nat) : PyU.parseDecimalBody neg l = C16.parseDecimalBody neg l := by
  simp only [PyU.parseDecimalBody, C16.parseDecimalBody, hasDoubleUnderscore_eq, isDigitOrUnderscoreN_eq, decimalValueN_eq,
    isSpace_eq, PyU.maxStrDigits, C16.maxStrDigits]
  rfl

theorem parseDecimal_eq (l : List Nat) : PyU.parseDecimal l = C16.parseDecimal l := by
  simp only [PyU.parseDecimal, C16.parseDecimal, parseDecimalBody_eq, isSpace_eq]
  rfl

theorem toAsciiDigitSpace_eq : PyU.toAsciiDigitSpace Gen.PyC2U.intTables = C16.toAsciiDigitSpace := rfl

theorem intOf_str (cs : List Nat) : intOf Gen.PyC2U.intTables (.str cs) = (C16.pyIntOfStr cs).map .int := by
  simp only [intOf, parseDecimal_eq, toAsciiDigitSpace_eq, C16.pyIntOfStr]

/-! ### the query of `urlsplit` consists of bytes of its argument -/

theorem cutAt_mem {c : UInt8} : ∀ {s p q : Bytes}, C16.cutAt c s = some (p, q) → (∀ b ∈ p, b ∈ s) ∧ (∀ b ∈ q, b ∈ s) := by
  intro s
  induction s with
  | nil => intro p q h; simp [C16.cutAt] at h
  | cons x rest ih =>
    intro p q h
    simp only [C16.cutAt] at h
    by_cases hx : x = c
    · simp only [hx, if_true, Option.some.injEq, Prod.mk.injEq] at h
      obtain ⟨rfl, rfl⟩ := h
      exact ⟨by simp, fun b hb => List.mem_cons_of_mem _ hb⟩
    · simp only [hx, if_false] at h
      cases hc : C16.cutAt c rest with
      | none => simp [hc] at h
      | some pq =>
        obtain ⟨p', q'⟩ := pq
        simp only [hc, Option.map_some, Option.some.injEq, Prod.mk.injEq] at h
        obtain ⟨rfl, rfl⟩ := h
        obtain ⟨i1, i2⟩ := ih hc
        refine ⟨?_, fun b hb => List.mem_cons_of_mem _ (i2 b hb)⟩
        intro b hb
        rcases List.mem_cons.1 hb with rfl | hb
        · exact List.mem_cons_self
        · exact List.mem_cons_of_mem _ (i1 b hb)

theorem partitionByte_mem (c : UInt8) (s : Bytes) :
    (∀ b ∈ (C16.partitionByte c s).1, b ∈ s) ∧ (∀ b ∈ (C16.partitionByte c s).2, b ∈ s) := by
  simp only [C16.partitionByte]
  cases h : C16.cutAt c s with
  | none => exact ⟨fun b hb => hb, by simp⟩
  | some pq => obtain ⟨p, q⟩ := pq; exact cutAt_mem h

theorem splitScheme_mem (url : Bytes) : ∀ b ∈ (C16.splitScheme url).2, b ∈ url := by
  simp only [C16.splitScheme]
  cases h : C16.cutAt 58 url with
  | none => exact fun b hb => hb
  | some pq =>
    obtain ⟨p, q⟩ := pq
    cases p with
    | nil => exact fun b hb => hb
    | cons c pre =>
      simp only
      split_ifs
      · exact (cutAt_mem h).2
      · exact fun b hb => hb

theorem mem_dropWhile {α : Type} {p : α → Bool} {l : List α} {x : α} (h : x ∈ l.dropWhile p) : x ∈ l :=
  (List.dropWhile_sublist p).subset h

theorem urlsplit_query_mem {u : Bytes} {r : C16.SplitResult} (h : C16.urlsplit u = .ok r) : ∀ b ∈ r.query, b ∈ u := by
  have h1 : ∀ b ∈ C16.removeUnsafe (C16.lstripC0 u), b ∈ u := by
    intro b hb
    simp only [C16.removeUnsafe, C16.lstripC0] at hb
    exact mem_dropWhile (List.mem_filter.1 hb).1
  have h2 := splitScheme_mem (C16.removeUnsafe (C16.lstripC0 u))
  unfold C16.urlsplit at h
  simp only at h
  generalize C16.splitScheme (C16.removeUnsafe (C16.lstripC0 u)) = sp at h h2
  obtain ⟨scheme, url2⟩ := sp
  simp only at h h2
  have key : ∀ url3 : Bytes, (∀ b ∈ url3, b ∈ url2) →
      ∀ b ∈ (C16.partitionByte 63 (C16.partitionByte 35 url3).1).2, b ∈ u := by
    intro url3 h3 b hb
    exact h1 b (h2 b (h3 b ((partitionByte_mem 35 url3).1 b ((partitionByte_mem 63 _).2 b hb))))
  split_ifs at h with hs
  · simp only [C16.splitNetloc] at h
    cases hc : C16.checkNetloc (List.takeWhile (fun b => !C16.isNetlocDelim b) (List.drop 2 url2)) with
    | error e => simp [hc] at h
    | ok _ =>
      simp only [hc, Except.ok.injEq] at h
      subst h
      exact key _ (fun b hb => List.mem_of_mem_drop (mem_dropWhile hb))
  · simp only [Except.ok.injEq] at h
    subst h
    exact key _ (fun b hb => hb)

/-! ### codecs -/

theorem ofNat_toNat_map (l : Bytes) : (l.map (·.toNat)).map UInt8.ofNat = l := by
  induction l with
  | nil => rfl
  | cons b bs ih => simp only [List.map_cons, ih, UInt8.ofNat_toNat]

theorem all_lt_toNat (l : Bytes) (n : Nat) (h : ∀ b ∈ l, b.toNat < n) : (l.map (·.toNat)).all (· < n) = true := by
  simp only [List.all_map, List.all_eq_true, Function.comp, decide_eq_true_eq]
  exact h

theorem utf8Enc_ascii (l : Bytes) (h : ∀ b ∈ l, b < 128) : utf8Enc (l.map (·.toNat)) = .ok l := by
  induction l with
  | nil => rfl
  | cons b bs ih =>
    have hb : b.toNat < 128 := by have := h b List.mem_cons_self; rwa [UInt8.lt_iff_toNat_lt] at this
    simp only [List.map_cons, utf8Enc, utf8Enc1, hb, if_true, ih (fun x hx => h x (List.mem_cons_of_mem _ hx)), Except.map,
      UInt8.ofNat_toNat, List.singleton_append]

theorem ascii_roundtrip (u : Bytes) :
    (do let t ← decodeAsciiIgnore (.bytes u); encodeUtf8 t) = .ok (.bytes (C16.asciiIgnore u)) := by
  simp only [decodeAsciiIgnore, PyRt.ok_bind, encodeUtf8, C16.asciiIgnore]
  rw [utf8Enc_ascii _ (fun b hb => by simpa using (List.mem_filter.1 hb).2)]
  rfl

theorem asciiIgnore_all (u : Bytes) : (C16.asciiIgnore u).all (· < 128) = true := by
  simp only [C16.asciiIgnore, List.all_eq_true]
  intro b hb
  exact (List.mem_filter.1 hb).2

theorem encodeLatin1_latin (b : Bytes) : encodeLatin1 (latin b) = .ok (.bytes b) := by
  have : (b.map (·.toNat)).all (· < 256) = true := all_lt_toNat b 256 (fun x _ => x.toNat_lt)
  simp only [encodeLatin1, latin, this, if_true, ofNat_toNat_map]

/-! ### the parameter comprehension -/

theorem gen_parse_raw_http_comp1_eq (X : V → Py V) (Y : V → V → Py V) (ps : List (Bytes × Bytes)) : ∀ d : List (Bytes × Bytes),
    forList (ps.map fun p => V.tuple [latin p.1, latin p.2]) (Gen.PyC2U.parse_raw_http_comp1 X Y) (encDict d)
      = .ok (encDict (ps.foldl (fun d p => C16.dictSet d p.1 p.2) d)) := by
  induction ps with
  | nil => intro d; rfl
  | cons p rest ih =>
    intro d
    simp only [List.map_cons, forList, Gen.PyC2U.parse_raw_http_comp1, unpack2_tuple, PyRt.ok_bind, encodeLatin1_latin,
      setItem_enc, pure_ok, ih, List.foldl_cons]

/-! ### parse_raw_http -/

theorem len_list (l : List V) : PyU.len (.list l) = .ok (.int l.length) := rfl

theorem eq_int (a b : Int) : PyU.eq (.int a) (.int b) = (a == b) := rfl

theorem getAttr_path (a b c d e : V) : getAttr (.inst Gen.PyC2U.SplitResultBytes [a, b, c, d, e]) "path" = .ok c := by
  simp [getAttr, Gen.PyC2U.SplitResultBytes, lookupField]

theorem getAttr_query (a b c d e : V) : getAttr (.inst Gen.PyC2U.SplitResultBytes [a, b, c, d, e]) "query" = .ok d := by
  simp [getAttr, Gen.PyC2U.SplitResultBytes, lookupField]

theorem fmtR_bytes (b : Bytes) : fmtR (.bytes b) = .ok (reprBytes b) := by simp only [fmtR, PyU.repr]

theorem decodeAsciiIgnore_bytes (u : Bytes) : decodeAsciiIgnore (.bytes u) = .ok (latin (C16.asciiIgnore u)) := rfl

theorem encodeUtf8_asciiIgnore (u : Bytes) : encodeUtf8 (latin (C16.asciiIgnore u)) = .ok (.bytes (C16.asciiIgnore u)) := by
  simp only [encodeUtf8, latin, C16.asciiIgnore]
  rw [utf8Enc_ascii _ (fun b hb => by simpa using (List.mem_filter.1 hb).2)]
  rfl

theorem decodeAscii_ascii (q : Bytes) (h : ∀ b ∈ q, b < 128) : decodeAscii (.bytes q) = .ok (latin q) := by
  have : q.all (· < 128) = true := by simpa [List.all_eq_true] using h
  simp only [decodeAscii, this, if_true, latin]

theorem parseQslX_latin (q : Bytes) (h : ∀ b ∈ q, b < 128) :
    parseQslX (latin q) (lit "latin-1")
      = .ok (.list ((C16.parseQsl q).map fun p => V.tuple [latin p.1, latin p.2])) := by
  have h2 : (q.map (·.toNat)).all (· < 128) = true :=
    all_lt_toNat q 128 (fun b hb => by have := h b hb; rwa [UInt8.lt_iff_toNat_lt] at this)
  simp only [parseQslX, latin, lit, h2, ofNat_toNat_map, beq_self_eq_true, Bool.and_self, if_true]

theorem encDict_nil : V.dict [] [] = encDict [] := rfl

/-- the translated `parse_raw_http` (external functions instantiated) computes the encoding of the model's result -/
theorem gen_parse_raw_http_proof (data : Bytes) :
    Gen.PyC2U.parse_raw_http urlsplitX parseQslX (.bytes data) = (C16.parseRawHttp data).map encMsg := by
  have hp1 := partition_bytes C16.CRLFCRLF data (by decide)
  have hp2 := partition_bytes C16.CRLF (C16.partition C16.CRLFCRLF data).1 (by decide)
  simp only [C16.CRLFCRLF, C16.CRLF] at hp1 hp2
  obtain ⟨u', hloop⟩ := gen_parse_raw_http_loop1_eq urlsplitX parseQslX
    (C16.splitCRLF (C16.partition [13, 10] (C16.partition [13, 10, 13, 10] data).1).2)
    (.bytes (mid [13, 10] (C16.partition [13, 10, 13, 10] data).1)) []
  simp only [Gen.PyC2U.parse_raw_http, hp1, PyRt.ok_bind, unpack3_tuple, hp2, mkDict_nil, split_crlf, iterList_list, hloop,
    upper_bytes, startswith_http, truthy, rstrip_bytes, split_ws, len_list, eq_int]
  simp only [C16.parseRawHttp, C16.firstLine, C16.startTokens, C16.parseHeaders, C16.dictOfList, C16.CRLF, C16.CRLFCRLF]
  obtain ⟨fl, hd, hP⟩ : ∃ fl hd, C16.partition [13, 10] (C16.partition [13, 10, 13, 10] data).fst = (fl, hd) := ⟨_, _, rfl⟩
  simp only [hP]
  generalize (C16.partition [13, 10, 13, 10] data).snd = body
  generalize List.foldl (fun d p => C16.dictSet d p.fst p.snd) [] (C16.headerPairs (C16.splitCRLF hd)) = H
  obtain ⟨toks, hT⟩ : ∃ toks, C16.splitWs (C16.rstrip fl) = toks := ⟨_, rfl⟩
  simp only [hT]
  have hr := fmtR_bytes
  clear hp1 hp2 hloop
  by_cases hh : C16.startsWithHTTP fl = true
  · simp only [hh, if_true]
    rcases toks with _ | ⟨a, _ | ⟨b, _ | ⟨c, _ | ⟨d, r⟩⟩⟩⟩
    · simp [hr, throw_err, Except.map]
    · simp [hr, throw_err, Except.map]
    · simp [hr, throw_err, Except.map]
    · simp only [List.map_cons, List.map_nil, List.length_cons, List.length_nil, unpack3_list, PyRt.ok_bind, decodeUtf8_bytes,
        C16.pyIntOfBytes]
      cases C16.utf8Decode b with
      | none => simp [optPy, Except.map]
      | some cs =>
        simp only [optPy, Except.map, PyRt.ok_bind, intOf_str]
        cases C16.pyIntOfStr cs with
        | error e => rfl
        | ok n => simp [Except.map, pure_ok, encMsg]
    · simp [hr, throw_err, Except.map]; intro h; omega
  · simp only [hh, if_false]
    rcases toks with _ | ⟨a, _ | ⟨b, _ | ⟨c, _ | ⟨d, r⟩⟩⟩⟩
    · simp [hr, throw_err, Except.map]
    · simp [hr, throw_err, Except.map]
    · simp [hr, throw_err, Except.map]
    · simp only [List.map_cons, List.map_nil, List.length_cons, List.length_nil, unpack3_list, PyRt.ok_bind,
        decodeAsciiIgnore_bytes, encodeUtf8_asciiIgnore, urlsplitX, asciiIgnore_all, if_true]
      cases hu : C16.urlsplit (C16.asciiIgnore b) with
      | error e => rfl
      | ok r =>
        have hq : ∀ x ∈ r.query, x < 128 := fun x hx => by
          have := urlsplit_query_mem hu x hx
          simp only [C16.asciiIgnore, List.mem_filter, decide_eq_true_eq] at this
          exact this.2
        simp only [Except.map, PyRt.ok_bind, getAttr_path, getAttr_query, decodeAscii_ascii _ hq, parseQslX_latin _ hq,
          iterList_list, encDict_nil, gen_parse_raw_http_comp1_eq, pure_ok]
        simp [encMsg]
    · simp [hr, throw_err, Except.map]; intro h; omega

end C16Gen

import CsVerif.Model.C09Gen
import CsVerif.Lemmas.PyUFile
import CsVerif.Lemmas.C09
import CsVerif.Props.C20Gen
/-! Helper lemmas for Props/C09Gen.lean: the definitions of `Gen/PyXor.lean` translated from `xordecode.iter_nonce_offsets` and the
methods of `XorEncodedFile` against the hand-written model of `Model/C09.lean` (`gen_iter_nonce_offsets_loop` the `for` loop against `nonceLoop`,
`gen_seek_last_line` the last line of `seek`, `gen_read_loop` the chunk loop of `read` against `readLoop`, `stepG_eq` / `runG_eq` /
`runTraceG_eq` operation histories through the translated methods against `stepOp` / `run` / `runTrace`).  The lemmas about file
objects are in Lemmas/PyUFile.lean.  No property statements. -/
namespace C09Gen
open PyU C15Gen
set_option linter.unusedSimpArgs false

theorem u32_bytes (d : Bytes) : Gen.PyXor.u32 (.bytes d) = .ok (.int (C09.u32 d)) := by
  have := C20Gen.gen_u32 d .little false
  simp only [C20Gen.orderStr] at this
  simp only [Gen.PyXor.u32, liftBytesInt, this, Except.map, C09.u32]

theorem xor_bytes (d k : Bytes) : Gen.PyXor.xor (.bytes d) (.bytes k) = .ok (.bytes (C20.xor d k)) := by
  simp only [Gen.PyXor.xor, liftXor, C20Gen.gen_xor, Except.map]

/-! ### iter_nonce_offsets -/

theorem gen_iter_nonce_offsets_body (rs : Int) (i : Nat) (f : PyFile) (ys : List V) :
    Gen.PyXor.iter_nonce_offsets_loop1 (.int rs) (.int (i : Int)) (encFile f, .list ys)
      = (let f1 : PyFile := { f with pos := i }
         let r1 := f1.read 4
         let r2 := r1.2.read 4
         if r1.1.length ≠ 4 ∨ r2.1.length ≠ 4 then .ok (.brk, encFile r2.2, .list ys)
         else if C09.u32 (C20.xor r1.1 r2.1) + (i : Int) + 8 = rs then .ok (.cont, encFile r2.2, .list (ys ++ [.int (i : Int)]))
         else .ok (.cont, encFile r2.2, .list ys)) := by
  simp only [Gen.PyXor.iter_nonce_offsets_loop1, fileSeek_nat, PyRt.ok_bind, fileRead_4, len_bytes, eq_int, xor_bytes, u32_bytes,
    add_int, pure_ok, yieldTo]
  generalize ({ f with pos := i } : PyFile) = g
  by_cases h1 : (g.read 4).1.length = 4
  · by_cases h2 : ((g.read 4).2.read 4).1.length = 4
    · simp only [h1, h2, ne_eq, not_true_eq_false, or_self, if_false]
      by_cases h3 : C09.u32 (C20.xor (g.read 4).1 ((g.read 4).2.read 4).1) + (i : Int) + 8 = rs
      · simp [h3]
      · have : (C09.u32 (C20.xor (g.read 4).1 ((g.read 4).2.read 4).1) + (i : Int) + 8 == rs) = false := by simpa using h3
        simp [h3, this]
    · have : ((((g.read 4).2.read 4).1.length : Int) == 4) = false := by simp only [beq_eq_false_iff_ne, ne_eq]; omega
      simp [h1, h2, this]
  · have : (((g.read 4).1.length : Int) == 4) = false := by simp only [beq_eq_false_iff_ne, ne_eq]; omega
    simp [h1, this]

theorem gen_iter_nonce_offsets_loop (rs : Int) : ∀ (k i : Nat) (f : PyFile) (ys : List V),
    forList ((List.range' i k).map (fun (n : Nat) => V.int (n : Int))) (Gen.PyXor.iter_nonce_offsets_loop1 (.int rs)) (encFile f, V.list ys)
      = (C09.nonceLoop rs k i f).map (fun r => (encFile r.2, V.list (ys ++ r.1.map (fun (n : Nat) => V.int (n : Int))))) := by
  intro k
  induction k with
  | zero => intro i f ys; simp [forList, C09.nonceLoop, Except.map]
  | succ k ih =>
    intro i f ys
    simp only [List.range'_succ, List.map_cons, forList, gen_iter_nonce_offsets_body, C09.nonceLoop, PyFile.seekSet_ok]
    generalize ({ f with pos := i } : PyFile) = g
    by_cases hc : (g.read 4).1.length ≠ 4 ∨ ((g.read 4).2.read 4).1.length ≠ 4
    · simp [hc, Except.map]
    · simp only [hc, if_false]
      by_cases h3 : C09.u32 (C20.xor (g.read 4).1 ((g.read 4).2.read 4).1) + (i : Int) + 8 = rs
      · simp only [h3, if_true, ih]
        cases C09.nonceLoop rs k (i + 1) ((g.read 4).2.read 4).2 with
        | error e => rfl
        | ok r => simp [Except.map]
      · simp only [h3, if_false, ih]
        cases C09.nonceLoop rs k (i + 1) ((g.read 4).2.read 4).2 with
        | error e => rfl
        | ok r => simp [Except.map]


theorem rangeV_nat (n : Nat) : rangeV (.int (n : Int)) = .ok (.list ((List.range' 0 n).map (fun (i : Nat) => V.int (i : Int)))) := by
  simp [rangeV, asInt, List.range_eq_range']

theorem gen_iter_nonce_offsets_proof (f : PyFile) (rs : Option Int) (maxrange : Nat) :
    Gen.PyXor.iter_nonce_offsets (encFile f) (encOptInt rs) (.int (maxrange : Int))
      = (C09.iterNonceOffsets f rs maxrange).map encOffsets := by
  unfold Gen.PyXor.iter_nonce_offsets C09.iterNonceOffsets
  cases rs with
  | some r =>
    have := gen_iter_nonce_offsets_loop r maxrange 0 f []
    simp only [encOptInt, isNone, Bool.false_eq_true, if_false, rangeV_nat, PyRt.ok_bind, iterList, this]
    cases C09.nonceLoop r maxrange 0 f with
    | error e => rfl
    | ok q => simp [Except.map, encOffsets, pure_ok]
  | none =>
    simp only [encOptInt, isNone, if_true, fileSeek_end]
    cases hs : f.seekEnd 0 with
    | error e => rfl
    | ok q =>
      obtain ⟨v, f1⟩ := q
      have := gen_iter_nonce_offsets_loop (f1.tell : Int) maxrange 0 f1 []
      simp only [Except.map, PyRt.ok_bind, fileTell_enc, rangeV_nat, iterList, PyFile.tell] at this ⊢
      rw [this]
      cases C09.nonceLoop (f1.pos : Int) maxrange 0 f1 with
      | error e => rfl
      | ok q => simp [Except.map, encOffsets, pure_ok]

/-! ### the constructor, tell -/

theorem gen_new_proof (fh : PyFile) (off : Nat) :
    Gen.PyXor.XorEncodedFile_new (encFile fh) (.int (off : Int)) = (C09.mk' fh off).map encXor := by
  simp only [Gen.PyXor.XorEncodedFile_new, fileSeek_nat, PyRt.ok_bind, fileRead_4, pure_ok, C09.mk', PyFile.seekSet_ok, Except.map,
    encXor]

theorem getAttr_fh (x : C09.XorFile) : getAttr (encXor x) "fh" = .ok (encFile x.fh) := by
  simp [getAttr, encXor, Gen.PyXor.XorEncodedFile, lookupField]
theorem getAttr_off (x : C09.XorFile) : getAttr (encXor x) "nonce_offset" = .ok (.int (x.nonceOff : Int)) := by
  simp [getAttr, encXor, Gen.PyXor.XorEncodedFile, lookupField]
theorem getAttr_nonce (x : C09.XorFile) : getAttr (encXor x) "initial_nonce" = .ok (.bytes x.initialNonce) := by
  simp [getAttr, encXor, Gen.PyXor.XorEncodedFile, lookupField]
theorem setAttr_fh (x : C09.XorFile) (f : PyFile) : setAttr (encXor x) "fh" (encFile f) = .ok (encXor { x with fh := f }) := by
  simp [setAttr, encXor, Gen.PyXor.XorEncodedFile, setField]

theorem gen_tell_proof (x : C09.XorFile) :
    Gen.PyXor.XorEncodedFile_tell (encXor x) = .ok (encRes (.int (C09.tell x)) x) := by
  simp only [Gen.PyXor.XorEncodedFile_tell, getAttr_fh, getAttr_off, fileTell_enc, PyRt.ok_bind, add_int, sub_int, pure_ok, encRes,
    C09.tell, PyFile.tell]


/-! ### seek -/

theorem max2_int0 (t : Int) : max2 (.int t) (.int 0) = .ok (.int (max t 0)) := by
  simp only [max2, gt_int]
  by_cases h : t < 0
  · simp [h, Int.max_eq_right (Int.le_of_lt h)]
  · simp [h, Int.max_eq_left (Int.not_lt.mp h)]

theorem unpack2_tuple (a b : V) : unpack2 (.tuple [a, b]) = .ok (a, b) := rfl

theorem fmt_int (n : Int) : ∃ s, fmt (.int n) "" = .ok s := ⟨_, rfl⟩

/-- the last line of `seek`: `return self.fh.seek(max(target, 0) + base)` -/
theorem gen_seek_last_line (x : C09.XorFile) (t : Int) :
    (do
      let t14 ← getAttr (encXor x) "fh"
      let t15 ← max2 (.int t) (V.int 0)
      let t16 ← PyU.add t15 (.int ((x.nonceOff : Int) + 8))
      let t17 ← fileSeek t14 t16 (V.int 0)
      let t18 ← setAttr (encXor x) "fh" t17.2
      pure (V.tuple [t17.1, t18]) : Py V) = (C09.seekTo x t).map (fun r => encRes (.int (r.1 : Int)) r.2) := by
  simp only [getAttr_fh, max2_int0, add_int, PyRt.ok_bind, fileSeek_set, C09.seekTo]
  cases x.fh.seekSet (max t 0 + ((x.nonceOff : Int) + 8)) with
  | error e => rfl
  | ok r => simp [Except.map, setAttr_fh, pure_ok, encRes]

theorem gen_seek_proof (x : C09.XorFile) (off : Int) (wh : Nat) :
    Gen.PyXor.XorEncodedFile_seek (encXor x) (.int off) (.int (wh : Int))
      = (C09.seek x off wh).map (fun r => encRes (.int (r.1 : Int)) r.2) := by
  unfold Gen.PyXor.XorEncodedFile_seek
  simp only [getAttr_off, add_int, PyRt.ok_bind, eq_int]
  match wh with
  | 0 =>
    simp only [Int.natCast_zero, beq_self_eq_true, if_true, lt_int, PyRt.ok_bind, C09.seek]
    by_cases h : off < 0
    · simp [h, fmt, throw_err, Except.map]
    · have := gen_seek_last_line x off
      simp only [h, decide_false, Bool.false_eq_true, if_false] at this ⊢
      simpa [pure_ok] using this
  | 1 =>
    have h10 : (((1 : Nat) : Int) == 0) = false := by decide
    have := gen_seek_last_line x (C09.tell x + off)
    simp only [h10, Bool.false_eq_true, if_false, Int.natCast_one, beq_self_eq_true, if_true, gen_tell_proof, encRes, unpack2_tuple, PyRt.ok_bind,
      add_int, C09.seek] at this ⊢
    simpa [pure_ok] using this
  | 2 =>
    have h20 : (((2 : Nat) : Int) == 0) = false := by decide
    have h21 : (((2 : Nat) : Int) == 1) = false := by decide
    have h22 : (((2 : Nat) : Int) == 2) = true := by decide
    simp only [h20, h21, h22, Bool.false_eq_true, if_false, if_true, getAttr_fh, PyRt.ok_bind, fileSeek_end, C09.seek]
    cases x.fh.seekEnd 0 with
    | error e => rfl
    | ok r =>
      obtain ⟨v, f1⟩ := r
      have := gen_seek_last_line { x with fh := f1 } ((v : Int) - ((x.nonceOff : Int) + 8) + off)
      simp only [Except.map, PyRt.ok_bind, setAttr_fh, sub_int, add_int] at this ⊢
      simpa [pure_ok] using this
  | k + 3 =>
    have h0 : ((((k + 3 : Nat) : Int)) == 0) = false := by simp only [beq_eq_false_iff_ne, ne_eq]; omega
    have h1 : ((((k + 3 : Nat) : Int)) == 1) = false := by simp only [beq_eq_false_iff_ne, ne_eq]; omega
    have h2 : ((((k + 3 : Nat) : Int)) == 2) = false := by simp only [beq_eq_false_iff_ne, ne_eq]; omega
    simp only [h0, h1, h2, Bool.false_eq_true, if_false, fmt, throw_err, C09.seek, Except.map]
    simp


/-! ### read_nonce -/

theorem tryCatch_ok {α : Type} (a : α) (h : PyExc → Py α) : tryCatch (Except.ok a : Py α) h = .ok a := rfl
theorem tryCatch_err {α : Type} (e : PyExc) (h : PyExc → Py α) : tryCatch (Except.error e : Py α) h = h e := rfl

theorem slice_from (d : Bytes) (n : Int) : PyU.slice (.bytes d) (.int n) .none = .ok (.bytes (pySliceFrom d n)) := by
  by_cases h : n < 0
  · exact slice_from_neg d n h
  · have h1 : n ≥ 0 := by omega
    simp only [PyU.slice, bound, asInt, PyRt.ok_bind, pure_ok, PyRt.slice, PyRt.Bound.bound, PyRt.clampIdx, h, if_false, pySliceFrom, h1, if_true,
      id, List.take_length]
    congr 2
    by_cases hc : n.toNat ≤ d.length
    · rw [Nat.min_eq_left hc]
    · rw [Nat.min_eq_right (by omega), List.drop_eq_nil_of_le (Nat.le_refl _), List.drop_eq_nil_of_le (by omega)]

theorem gen_read_nonce_proof (x : C09.XorFile) :
    Gen.PyXor.XorEncodedFile_read_nonce (encXor x) = (C09.readNonce x).map (fun r => encRes (.bytes r.1) r.2) := by
  unfold Gen.PyXor.XorEncodedFile_read_nonce
  simp only [getAttr_fh, fileTell_enc, PyRt.ok_bind, fileSeek_cur]
  unfold C09.readNonce C09.rawNonce
  have hfin : ∀ (f2 : PyFile) (nonce : Bytes), (do
      let t9 ← getAttr (encXor { x with fh := f2 }) "fh"
      let t10 ← fileSeek t9 (V.int ↑x.fh.pos) (V.int 0)
      let t11 ← setAttr (encXor { x with fh := f2 }) "fh" t10.snd
      let t12 ← getAttr t11 "nonce_offset"
      let t13 ← add t12 (V.int 12)
      let t14 ← lt (V.int ↑x.fh.pos) t13
      if t14 = true then do
          let t15 ← getAttr t11 "nonce_offset"
          let t16 ← add t15 (V.int 8)
          let t17 ← sub (V.int ↑x.fh.pos) t16
          let t18 ← getAttr t11 "initial_nonce"
          let t19 ← slice t18 t17 V.none
          let t21 ← sub (V.int 4) t17
          let t20 ← slice (V.bytes nonce) t21 V.none
          let t22 ← add t19 t20
          pure (V.tuple [t22, t11])
        else pure (V.tuple [V.bytes nonce, t11]) : Py V)
      = .ok (encRes (.bytes (C09.spliceNonce x x.fh.pos nonce)) { x with fh := { f2 with pos := x.fh.pos } }) := by
    intro f2 nonce
    simp only [PyRt.ok_bind, getAttr_fh, fileSeek_nat, setAttr_fh, getAttr_off, getAttr_nonce, add_int, lt_int, sub_int,
      slice_from, add_bytes, pure_ok, C09.spliceNonce, encRes]
    by_cases hp : x.fh.pos < x.nonceOff + 12
    · have : (x.fh.pos : Int) < (x.nonceOff : Int) + 12 := by omega
      simp [hp, this]
    · have : ¬ (x.fh.pos : Int) < (x.nonceOff : Int) + 12 := by omega
      simp [hp, this]
  cases hsc : x.fh.seekCur (-4) with
  | error e =>
    simp only [Except.map, PyRt.error_bind, tryCatch_err]
    by_cases he : e = PyExc.osError
    · have := hfin x.fh [0, 0, 0, 0]
      simp only [he, if_true, pure_ok, PyRt.ok_bind, PyFile.tell, PyFile.seekSet_ok] at this ⊢
      exact this
    · simp [he, throw_err]
  | ok r =>
    obtain ⟨v, f1⟩ := r
    have := hfin (f1.read 4).2 (f1.read 4).1
    simp only [Except.map, PyRt.ok_bind, setAttr_fh, getAttr_fh, fileRead_4, pure_ok, tryCatch_ok, PyFile.tell, PyFile.seekSet_ok] at this ⊢
    exact this


/-! ### read -/

theorem iadd_bytes (a b : Bytes) : PyU.iadd (.bytes a) (.bytes b) = .ok (.bytes (a ++ b)) := rfl
theorem ge_int (a b : Int) : PyU.ge (.int a) (.int b) = .ok (!decide (a < b)) := rfl

theorem gen_read_loop (n : Int) (x : C09.XorFile) (f : PyFile) (nonce : Bytes) (got : Nat) :
    ∀ (data : Bytes) (fuel : Nat), got = data.length → f.data.length - f.pos < fuel →
    ∃ nonce', whileFuel fuel (Gen.PyXor.read_loop1 (.int n)) (encXor { x with fh := f }, .bytes data, .bytes nonce)
      = .ok (encXor { x with fh := (C09.readLoop n f nonce got).2 }, .bytes (data ++ (C09.readLoop n f nonce got).1), nonce') := by
  fun_induction C09.readLoop n f nonce got with
  | case1 f nonce got hemp =>
    intro data fuel hg hf
    obtain ⟨fu, rfl⟩ : ∃ fu, fuel = fu + 1 := ⟨fuel - 1, by omega⟩
    refine ⟨.bytes nonce, ?_⟩
    simp [whileFuel, Gen.PyXor.read_loop1, getAttr_fh, fileRead_4, setAttr_fh, truthy_bytes, hemp, pure_ok]
  | case2 f nonce got hne chunk dec hbrk =>
    intro data fuel hg hf
    obtain ⟨fu, rfl⟩ : ∃ fu, fuel = fu + 1 := ⟨fuel - 1, by omega⟩
    refine ⟨.bytes chunk, ?_⟩
    have hce : (f.read 4).1.isEmpty = false := by
      cases hb : (f.read 4).1 with
      | nil => exact absurd hb hne
      | cons _ _ => rfl
    have h1 : (0 : Int) < n := hbrk.1
    have h2 : ¬ (((data ++ C20.xor (f.read 4).1 nonce).length : Nat) : Int) < n := by
      have hb2 : ((got + (C20.xor (f.read 4).1 nonce).length : Nat) : Int) ≥ n := hbrk.2
      simp only [List.length_append]
      subst hg
      omega
    simp only [whileFuel, Gen.PyXor.read_loop1, getAttr_fh, fileRead_4, setAttr_fh, truthy_bytes, hce, PyRt.ok_bind, xor_bytes, iadd_bytes,
      gt_int, len_bytes, ge_int, pure_ok, h1, h2, decide_true, decide_false, Bool.not_false, if_true, Bool.false_eq_true, if_false, Bool.not_true]
    rfl
  | case3 f nonce got hne chunk dec hcont r ih =>
    intro data fuel hg hf
    obtain ⟨fu, rfl⟩ : ∃ fu, fuel = fu + 1 := ⟨fuel - 1, by omega⟩
    have hprog := C09.readLoop_progress f hne
    obtain ⟨nonce', hn'⟩ := ih (data ++ dec) fu (by subst hg; simp [List.length_append]) (by omega)
    refine ⟨nonce', ?_⟩
    have hn'' : whileFuel fu (Gen.PyXor.read_loop1 (V.int n))
        (encXor { x with fh := (f.read 4).2 }, V.bytes (data ++ C20.xor (f.read 4).1 nonce), V.bytes (f.read 4).1)
        = .ok (encXor { x with fh := (C09.readLoop n (f.read 4).2 (f.read 4).1 (got + (C20.xor (f.read 4).1 nonce).length)).2 },
               V.bytes (data ++ (C20.xor (f.read 4).1 nonce ++ (C09.readLoop n (f.read 4).2 (f.read 4).1 (got + (C20.xor (f.read 4).1 nonce).length)).1)), nonce') := by
      rw [← List.append_assoc]; exact hn'
    have hce : (f.read 4).1.isEmpty = false := by
      cases hb : (f.read 4).1 with
      | nil => exact absurd hb hne
      | cons _ _ => rfl
    have hc : (if decide ((0 : Int) < n) = true then (!decide ((((data ++ C20.xor (f.read 4).1 nonce).length : Nat) : Int) < n)) else decide ((0 : Int) < n)) = false := by
      by_cases h1 : (0 : Int) < n
      · have h2 : (((data ++ C20.xor (f.read 4).1 nonce).length : Nat) : Int) < n := by
          have hc' : ¬ (n > 0 ∧ ((got + (C20.xor (f.read 4).1 nonce).length : Nat) : Int) ≥ n) := hcont
          simp only [List.length_append]
          subst hg
          omega
        simp only [h1, decide_true, if_true, h2, Bool.not_true]
      · simp [h1]
    simp only [whileFuel, Gen.PyXor.read_loop1, getAttr_fh, fileRead_4, setAttr_fh, truthy_bytes, hce, PyRt.ok_bind, xor_bytes, iadd_bytes,
      gt_int, len_bytes, ge_int, pure_ok, Bool.not_false, Bool.false_eq_true, if_false]
    by_cases h1 : (0 : Int) < n
    · simp only [h1, decide_true, if_true] at hc ⊢
      simp only [hc, Bool.false_eq_true, if_false]
      exact hn''
    · simp only [h1, decide_false, Bool.false_eq_true, if_false]
      exact hn''


theorem slice_to (d : Bytes) (n : Int) (h : 0 ≤ n) : PyU.slice (.bytes d) .none (.int n) = .ok (.bytes (d.take n.toNat)) := by
  have h1 : ¬ n < 0 := by omega
  simp only [PyU.slice, bound, asInt, PyRt.ok_bind, pure_ok, PyRt.slice, PyRt.Bound.bound, PyRt.clampIdx, h1, if_false, id, List.drop_zero]
  congr 2
  exact C09.take_min_length d n.toNat

theorem slice_all (d : Bytes) : PyU.slice (.bytes d) .none .none = .ok (.bytes d) := by
  simp [PyU.slice, bound, PyRt.slice, PyRt.Bound.bound, pure_ok]

theorem gen_read_norm (fuel : Nat) (s : V) (n : Option Int) :
    Gen.PyXor.XorEncodedFile_read fuel s (encOptInt n) = Gen.PyXor.XorEncodedFile_read fuel s (.int (C09.normN n)) := by
  cases n with
  | none => simp [Gen.PyXor.XorEncodedFile_read, encOptInt, isNone, lt_int, C09.normN]
  | some v =>
    by_cases hv : v < 0
    · simp [Gen.PyXor.XorEncodedFile_read, encOptInt, isNone, lt_int, C09.normN, hv]
    · simp [Gen.PyXor.XorEncodedFile_read, encOptInt, isNone, lt_int, C09.normN, hv]

theorem gen_read_proof (x : C09.XorFile) (n : Option Int) (fuel : Nat) (hf : x.fh.data.length + 1 ≤ fuel) :
    Gen.PyXor.XorEncodedFile_read fuel (encXor x) (encOptInt n) = (C09.read x n).map (fun r => encRes (.bytes r.1) r.2) := by
  rw [C09.read_unfold, gen_read_norm]
  have hm := C09.normN_cases n
  generalize C09.normN n = m at hm ⊢
  unfold Gen.PyXor.XorEncodedFile_read
  have hlt : (decide (m < 0)) = decide (m = -1) := by
    rcases hm with h | h
    · subst h; rfl
    · have h1 : ¬ m < 0 := by omega
      have h2 : ¬ m = -1 := by omega
      simp [h1, h2]
  by_cases h0 : m = 0
  · subst h0
    simp [isNone, lt_int, eq_int, pure_ok, Except.map, encRes]
  · have hb0 : (m == 0) = false := by simpa using h0
    obtain ⟨nonce, hrn⟩ := C09.readNonce_restores x
    obtain ⟨nonce', hloop⟩ := gen_read_loop m x x.fh nonce 0 [] fuel rfl (by omega)
    have hloop' : whileFuel fuel (Gen.PyXor.read_loop1 (V.int m)) (encXor x, V.bytes [], V.bytes nonce)
        = .ok (encXor { x with fh := (C09.readLoop m x.fh nonce 0).2 }, V.bytes (C09.readLoop m x.fh nonce 0).1, nonce') := by
      simpa using hloop
    rcases hm with hm | hm
    · subst hm
      simp only [isNone, lt_int, eq_int, gen_read_nonce_proof, hrn, Except.map, encRes, unpack2_tuple, PyRt.ok_bind, hloop', slice_all, pure_ok]
      simp
    · have h1 : ¬ m < 0 := by omega
      have h2 : ¬ m = -1 := by omega
      have hb1 : (m == -1) = false := by simpa using h2
      simp only [isNone, lt_int, eq_int, gen_read_nonce_proof, hrn, Except.map, encRes, unpack2_tuple, PyRt.ok_bind, hloop', pure_ok,
        h1, decide_false, Bool.false_eq_true, if_false, hb0, hb1, h0, h2, Bool.not_false, if_true, len_bytes, gt_int, getAttr_fh, sub_int,
        fileSeek_cur, slice_to _ m hm]
      by_cases hgt : m < ((C09.readLoop m x.fh nonce 0).1.length : Int)
      · have hgt' : ((C09.readLoop m x.fh nonce 0).1.length : Int) > m := hgt
        simp only [hgt, hgt', decide_true, if_true]
        cases (C09.readLoop m x.fh nonce 0).2.seekCur (m - ((C09.readLoop m x.fh nonce 0).1.length : Int)) with
        | error e => rfl
        | ok r => simp [setAttr_fh, slice_to _ m hm]
      · have hgt' : ¬ ((C09.readLoop m x.fh nonce 0).1.length : Int) > m := hgt
        simp [hgt, hgt', slice_to _ m hm]


/-! ### histories through the translated methods -/

theorem unpackRes_map {α : Type} (r : Py α) (g : α → V) (h : α → C09.XorFile) :
    unpackRes (r.map (fun a => encRes (g a) (h a))) = r.map (fun a => (g a, encXor (h a))) := by
  cases r <;> rfl

theorem stepG_eq (x : C09.XorFile) (op : C09.Op) (fuel : Nat) (hf : x.fh.data.length + 1 ≤ fuel) :
    stepG fuel (encXor x) op = (C09.stepOp x op).map (fun r => (encOut r.1, encXor r.2)) := by
  cases op with
  | seek off wh =>
    simp only [stepG, gen_seek_proof, C09.stepOp]
    cases C09.seek x off wh <;> rfl
  | read n =>
    simp only [stepG, gen_read_proof x n fuel hf, C09.stepOp]
    cases C09.read x n <;> rfl
  | tell => simp only [stepG, gen_tell_proof, C09.stepOp]; rfl

theorem stepOp_data {x x' : C09.XorFile} {op : C09.Op} {o : C09.Out} (h : C09.stepOp x op = .ok (o, x')) :
    x'.fh.data = x.fh.data := by
  cases op with
  | seek off wh =>
    simp only [C09.stepOp] at h
    rcases C09.seek_frame x off wh with he | ⟨v, hv⟩
    · rw [he] at h; cases h
    · rw [hv] at h; simp only [Except.map] at h; injection h with h; injection h with _ h; subst h; rfl
  | read n =>
    simp only [C09.stepOp] at h
    obtain ⟨out, q, hr⟩ := C09.read_total x n
    rw [hr] at h; simp only [Except.map] at h; injection h with h; injection h with _ h; subst h; rfl
  | tell =>
    simp only [C09.stepOp] at h
    injection h with h; injection h with _ h; subst h; rfl

theorem runG_eq (ops : List C09.Op) : ∀ (x : C09.XorFile) (fuel : Nat), x.fh.data.length + 1 ≤ fuel →
    runG fuel (encXor x) ops = (C09.run x ops).map (fun r => (r.1.map encOut, encXor r.2)) := by
  induction ops with
  | nil => intro x fuel _; rfl
  | cons op ops ih =>
    intro x fuel hf
    simp only [runG, stepG_eq x op fuel hf, C09.run]
    cases hs : C09.stepOp x op with
    | error e => rfl
    | ok r =>
      obtain ⟨o, x'⟩ := r
      have hd := stepOp_data hs
      simp only [Except.map, ih x' fuel (by rw [hd]; exact hf)]
      cases C09.run x' ops with
      | error e => rfl
      | ok r => rfl

theorem runTraceG_eq (ops : List C09.Op) : ∀ (x : C09.XorFile) (fuel : Nat), x.fh.data.length + 1 ≤ fuel →
    runTraceG fuel (encXor x) ops = (C09.runTrace x ops).map (fun r => r.map encOut) := by
  induction ops with
  | nil => intro x fuel _; rfl
  | cons op ops ih =>
    intro x fuel hf
    simp only [runTraceG, stepG_eq x op fuel hf, C09.runTrace]
    cases hs : C09.stepOp x op with
    | error e => simp only [Except.map, List.map_cons, ih x fuel hf]
    | ok r =>
      obtain ⟨o, x'⟩ := r
      have hd := stepOp_data hs
      simp only [Except.map, List.map_cons, ih x' fuel (by rw [hd]; exact hf)]

end C09Gen

import CsVerif.Model.C12Gen
import CsVerif.Lemmas.C12
/-! Helper lemmas for Props/C12Gen.lean: the operations of `PyU` / `PyU_T12` (run-time library of the untyped translator) against
the primitives of the C12 model, and the definitions of `Gen/PyC2Prof.lean` translated from `value_to_string`,
`string_token_to_bytes` and `StringIterator` against `C12.valueToString`, `C12.valueToStringStr`, `C12.decodeLoop`.
No property statements. -/
namespace C12Gen
open PyU
set_option linter.unusedSimpArgs false

theorem take_min_len {α : Type} (xs : List α) (j : Nat) : xs.take (min j xs.length) = xs.take j := by
  by_cases h : j ≤ xs.length
  · rw [Nat.min_eq_left h]
  · rw [Nat.min_eq_right (by omega), List.take_length, List.take_of_length_le (by omega)]

theorem drop_min_len {α : Type} (xs ys : List α) (i : Nat) (h : ys.length ≤ xs.length) : ys.drop (min i xs.length) = ys.drop i := by
  by_cases h' : i ≤ xs.length
  · rw [Nat.min_eq_left h']
  · rw [Nat.min_eq_right (by omega), List.drop_of_length_le h, List.drop_of_length_le (by omega)]

/-! ### slices -/
theorem slice_nat {α : Type} (xs : List α) (i j : Nat) :
    PyRt.slice xs (some (i : Int)) (some (j : Int)) = (xs.take j).drop i := by
  simp only [PyRt.slice, PyRt.Bound.bound, id, PyRt.clampIdx]
  have h1 : ¬ ((i : Int) < 0) := by omega
  have h2 : ¬ ((j : Int) < 0) := by omega
  simp only [h1, h2, if_false, Int.toNat_natCast]
  rw [take_min_len, drop_min_len]
  simp [List.length_take]; omega

theorem slice_nat_m1 {α : Type} (xs : List α) (k : Nat) :
    PyRt.slice xs (some (k : Int)) (some (-1 : Int)) = (xs.take (xs.length - 1)).drop k := by
  simp only [PyRt.slice, PyRt.Bound.bound, id, PyRt.clampIdx]
  have h1 : ¬ ((k : Int) < 0) := by omega
  have e : ((-1 : Int) + (xs.length : Int)).toNat = xs.length - 1 := by omega
  simp only [h1, if_false, Int.toNat_natCast, show ((-1 : Int) < 0) from by decide, if_true, e]
  rw [drop_min_len]
  simp [List.length_take]

theorem slice_1_m1 {α : Type} (xs : List α) :
    PyRt.slice xs (some (1 : Int)) (some (-1 : Int)) = pySliceTo (pySliceFrom xs 1) (some (-1)) := by
  have := slice_nat_m1 xs 1
  rw [show ((1 : Nat) : Int) = 1 from rfl] at this
  rw [this]
  simp [pySliceTo, pySliceFrom, List.drop_take]

theorem slice_3_m1 {α : Type} (xs : List α) :
    PyRt.slice xs (some (3 : Int)) (some (-1 : Int)) = pySliceFrom (pySliceTo xs (some (-1))) 3 := by
  have := slice_nat_m1 xs 3
  rw [show ((3 : Nat) : Int) = 3 from rfl] at this
  rw [this]
  simp [pySliceTo, pySliceFrom]

/-! ### repr(bytes) -/
theorem beq_toNat (x y : UInt8) : (x.toNat == y.toNat) = (x == y) := by
  by_cases h : x = y
  · subst h; rw [beq_self_eq_true, beq_self_eq_true]
  · have : x.toNat ≠ y.toNat := fun e => h (UInt8.toNat_inj.mp e)
    rw [beq_eq_false_iff_ne.mpr h, beq_eq_false_iff_ne.mpr this]

theorem contains_map_toNat (b : Bytes) (x : UInt8) : (b.map (·.toNat)).contains x.toNat = b.contains x := by
  induction b with
  | nil => rfl
  | cons y ys ih => simp only [List.map_cons, List.contains_cons, ih, beq_toNat]

theorem reprQuote_eq (b : Bytes) : PyU.reprQuote (b.map (·.toNat)) = (C12.reprQuote b).toNat := by
  have h1 := contains_map_toNat b 39
  have h2 := contains_map_toNat b 34
  simp only [show (39 : UInt8).toNat = 39 from rfl, show (34 : UInt8).toNat = 34 from rfl] at h1 h2
  simp only [PyU.reprQuote, C12.reprQuote, h1, h2, C12.sq, C12.dq]
  split <;> rfl

set_option maxRecDepth 100000 in
theorem reprUnit_eq (q : UInt8) (hq : q = 39 ∨ q = 34) (x : UInt8) :
    (if x.toNat ≥ 128 then [92, 120, PyU.hexDigit (x.toNat / 16), PyU.hexDigit (x.toNat % 16)] else PyU.reprByte q.toNat x.toNat)
      = (C12.reprUnit q x).map (·.toNat) := by
  rcases hq with rfl | rfl <;> (revert x; apply C12.forall_byte; decide +kernel)

theorem reprQuote_cases (b : Bytes) : C12.reprQuote b = 39 ∨ C12.reprQuote b = 34 := by
  simp only [C12.reprQuote, C12.sq, C12.dq]; split <;> simp

theorem reprBytes_eq (b : Bytes) : PyU.reprBytes b = (C12.reprBytes b).map (·.toNat) := by
  simp only [PyU.reprBytes, C12.reprBytes, reprQuote_eq, List.map_append, List.map_cons, List.map_nil, List.cons_append, List.nil_append,
    List.map_flatMap, List.flatMap_map]
  have hf : (fun (a : UInt8) => if a.toNat ≥ 128 then [92, 120, hexDigit (a.toNat / 16), hexDigit (a.toNat % 16)]
              else reprByte (C12.reprQuote b).toNat a.toNat) = fun a => List.map (fun x => x.toNat) (C12.reprUnit (C12.reprQuote b) a) :=
    funext fun a => reprUnit_eq _ (reprQuote_cases b) a
  rw [hf]; rfl

/-! ### str.replace -/
abbrev tn (t : C12.Txt) : List Nat := t.map (·.toNat)

theorem isPrefixOf_tn : ∀ (a b : C12.Txt), (tn a).isPrefixOf (tn b) = a.isPrefixOf b
  | [], _ => by simp [tn]
  | _ :: _, [] => by simp [tn]
  | x :: a, y :: b => by
    have ih := isPrefixOf_tn a b
    simp only [tn, List.map_cons, List.isPrefixOf] at ih ⊢
    rw [ih, beq_toNat]

theorem replaceGo_tn (old new : C12.Txt) : ∀ (s : C12.Txt) (k : Nat),
    PyU.replaceGo (tn old) (tn new) (tn s) k = tn (C12.replaceGo old new s k)
  | [], k => by simp [tn, PyU.replaceGo, C12.replaceGo]
  | c :: cs, k + 1 => by
    have ih := replaceGo_tn old new cs k
    simp only [tn, List.map_cons] at ih ⊢
    simp only [PyU.replaceGo, C12.replaceGo, ih]
  | c :: cs, 0 => by
    have ih1 := replaceGo_tn old new cs (old.length - 1)
    have ih2 := replaceGo_tn old new cs 0
    have hp := isPrefixOf_tn old (c :: cs)
    simp only [tn, List.map_cons] at ih1 ih2 hp ⊢
    simp only [PyU.replaceGo, C12.replaceGo, hp, List.length_map, ih1, ih2]
    split <;> simp

theorem replaceL_tn (old new s : C12.Txt) : PyU.replaceL (tn old) (tn new) (tn s) = tn (C12.strReplace old new s) := by
  simp only [PyU.replaceL, C12.strReplace]
  by_cases h : old = []
  · subst h
    simp [tn, List.map_flatMap, List.flatMap_map]
  · have : (tn old).isEmpty = false := by cases old with | nil => exact absurd rfl h | cons _ _ => rfl
    simp only [this, h, if_false, Bool.false_eq_true, replaceGo_tn]

/-! ### value_to_string -/
theorem lit_dq : PyU.lit "\"" = .str (tn [C12.dq]) := by decide
theorem lit_bsl_dq : PyU.lit "\\\"" = .str (tn [C12.bsl, C12.dq]) := by decide
theorem lit_bsl_sq : PyU.lit "\\'" = .str (tn [C12.bsl, C12.sq]) := by decide
theorem lit_sq : PyU.lit "'" = .str (tn [C12.sq]) := by decide
theorem cps_dq : PyU.cps "\"" = tn [C12.dq] := by decide

theorem gen_value_to_string_str_proof (t : C12.Txt) :
    Gen.PyC2Prof.value_to_string (latin t) = .ok (latin (C12.valueToStringStr t)) := by
  simp only [Gen.PyC2Prof.value_to_string, latin, PyU.isInstance, List.any, PyU.isInst1, Bool.or_false, Bool.false_eq_true, if_false,
    if_true, lit_dq, lit_bsl_dq, lit_bsl_sq, lit_sq, PyU.strReplace, replaceL_tn, PyRt.ok_bind, PyU.fmt, beq_self_eq_true, cps_dq,
    C12.valueToStringStr, tn, List.map_append]
  rfl

theorem pySliceTo_map {α β : Type} (f : α → β) (xs : List α) (o : Option Int) : pySliceTo (xs.map f) o = (pySliceTo xs o).map f := by
  cases o with
  | none => rfl
  | some n => simp only [pySliceTo, List.length_map]; split <;> simp [List.map_take]

theorem pySliceFrom_map {α β : Type} (f : α → β) (xs : List α) (n : Int) : pySliceFrom (xs.map f) n = (pySliceFrom xs n).map f := by
  simp only [pySliceFrom, List.length_map]; split <;> simp [List.map_drop]

theorem gen_value_to_string_proof (bs : Bytes) :
    Gen.PyC2Prof.value_to_string (.bytes bs) = .ok (latin (C12.valueToString bs)) := by
  simp only [Gen.PyC2Prof.value_to_string, latin, PyU.isInstance, List.any, PyU.isInst1, Bool.or_false, Bool.false_eq_true, if_false,
    if_true, PyRt.ok_bind, PyU.add, PyU.asInt, PyU.reprV, PyU.repr, reprBytes_eq, Except.map, PyU.slice, PyU.bound, pure, Except.pure,
    bind, Except.bind, slice_3_m1, pySliceTo_map, pySliceFrom_map,
    lit_dq, lit_bsl_dq, lit_bsl_sq, lit_sq, PyU.strReplace, replaceL_tn, PyU.fmt, beq_self_eq_true, cps_dq,
    C12.valueToStringStr, C12.valueToString, tn, List.map_append]

/-! ### StringIterator -/
def encBuf (b : C12.Txt) : V := .list (b.map fun c => .str [c.toNat])
def encIt (b : C12.Txt) (i : Nat) : V := .inst Gen.PyC2Prof.StringIteratorCls [encBuf b, .int i]
def encOut (out : List Int) : V := .list (out.map .int)
def maskCP (s : List Nat) : C12.Txt := s.map fun c => UInt8.ofNat (c &&& 0xFF)

theorem band255 (c : Nat) : PyRt.band (c : Int) 255 = ((c &&& 255 : Nat) : Int) := rfl

theorem chr_small (n : Nat) (h : n < 256) : PyU.chr (.int n) = .ok (.str [n]) := by
  simp only [PyU.chr, PyU.asInt]
  have h1 : ¬ ((n : Int) < -2147483648 ∨ 2147483647 < (n : Int)) := by omega
  have h2 : (0 ≤ (n : Int) ∧ (n : Int) < 0x110000) := by omega
  simp only [h1, h2, if_false, if_true, and_self, Int.toNat_natCast]

theorem gen_StringIterator_init_comp1 (c : Nat) (acc : List V) :
    Gen.PyC2Prof.__init___comp1 (.str [c]) (.list acc) = .ok (.cont, .list (acc ++ [.str [(UInt8.ofNat (c &&& 0xFF)).toNat]])) := by
  have hlt : c &&& 255 < 256 := Nat.lt_succ_of_le Nat.and_le_right
  have e : (UInt8.ofNat (c &&& 255)).toNat = c &&& 255 := UInt8.toNat_ofNat_of_lt' hlt
  simp only [Gen.PyC2Prof.__init___comp1, PyU.ord, PyRt.ok_bind, PyU.band, PyU.bitop, PyU.ints2, PyU.asInt, Except.map, band255,
    chr_small _ hlt, PyU.append, e]
  rfl

theorem gen_StringIterator_init_forList (s : List Nat) : ∀ acc : List V,
    PyU.forList (s.map fun c => V.str [c]) Gen.PyC2Prof.__init___comp1 (.list acc)
      = (.ok (.list (acc ++ (maskCP s).map fun c => .str [c.toNat])) : Py V)  := by
  induction s with
  | nil => intro acc; simp [PyU.forList, maskCP]
  | cons c cs ih =>
    intro acc
    simp only [List.map_cons, PyU.forList, gen_StringIterator_init_comp1, ih, maskCP, List.append_assoc, List.singleton_append]

theorem gen_StringIterator_init (s : List Nat) : Gen.PyC2Prof.StringIterator (.str s) = .ok (encIt (maskCP s) 0) := by
  simp only [Gen.PyC2Prof.StringIterator, PyU.iterList, PyRt.ok_bind, gen_StringIterator_init_forList, List.nil_append]
  rfl

theorem getAttr_index (b : C12.Txt) (i : Nat) : PyU.getAttr (encIt b i) "index" = .ok (.int i) := by
  simp [PyU.getAttr, encIt, Gen.PyC2Prof.StringIteratorCls, PyU.lookupField]
theorem getAttr_buffer (b : C12.Txt) (i : Nat) : PyU.getAttr (encIt b i) "buffer" = .ok (encBuf b) := by
  simp [PyU.getAttr, encIt, Gen.PyC2Prof.StringIteratorCls, PyU.lookupField]
theorem setAttr_index (b : C12.Txt) (i j : Nat) : PyU.setAttrObj (encIt b i) "index" (.int j) = .ok (encIt b j) := by
  simp [PyU.setAttrObj, encIt, Gen.PyC2Prof.StringIteratorCls, PyU.setField]
theorem len_encBuf (b : C12.Txt) : PyU.len (encBuf b) = .ok (.int b.length) := by
  simp [PyU.len, encBuf]

theorem add_nat (i k : Nat) : PyU.add (.int i) (.int k) = .ok (.int ((i + k : Nat) : Int)) := by
  simp [PyU.add, PyU.asInt]
theorem iadd_nat (i k : Nat) : PyU.iadd (.int i) (.int k) = .ok (.int ((i + k : Nat) : Int)) := by
  simp [PyU.iadd, add_nat]

theorem gen_StringIterator_has_next (b : C12.Txt) (i k : Nat) :
    Gen.PyC2Prof.StringIterator_has_next (encIt b i) (.int k) = .ok (.bool (C12.hasNext b i k)) := by
  simp only [Gen.PyC2Prof.StringIterator_has_next, getAttr_index, getAttr_buffer, len_encBuf, add_nat, PyRt.ok_bind, PyU.le, PyU.lt,
    PyU.asInt, Except.map, C12.hasNext]
  congr 3
  by_cases h : i + k ≤ b.length
  · have : ¬ ((b.length : Int) < ((i + k : Nat) : Int)) := by omega
    rw [decide_eq_false this, decide_eq_true h]; rfl
  · have : ((b.length : Int) < ((i + k : Nat) : Int)) := by omega
    rw [decide_eq_true this, decide_eq_false h]; rfl

def encStrs (t : C12.Txt) : V := .list (t.map fun c => .str [c.toNat])

theorem gen_StringIterator_next (b : C12.Txt) (i k : Nat) :
    Gen.PyC2Prof.StringIterator_next (encIt b i) (.int k) = .ok (.tuple [encStrs (C12.nextN b i k).1, encIt b (i + k)]) := by
  simp only [Gen.PyC2Prof.StringIterator_next, getAttr_index, getAttr_buffer, add_nat, iadd_nat, setAttr_index, PyRt.ok_bind,
    encBuf, PyU.slice, PyU.bound, PyU.asInt, bind, Except.bind, pure, Except.pure, slice_nat, C12.nextN, encStrs, List.map_drop, List.map_take]

theorem gen_StringIterator_iter (b : C12.Txt) (i : Nat) :
    Gen.PyC2Prof.StringIterator___iter__ (encIt b i) = .ok (.tuple [encIt b 0, encIt b 0]) := by
  have := setAttr_index b i 0
  simp only [Gen.PyC2Prof.StringIterator___iter__, PyRt.ok_bind]
  rw [show (V.int 0) = V.int ((0 : Nat) : Int) from rfl, this]
  rfl

@[simp] theorem lift_ok {α : Type} (a : α) : (monadLift (Except.ok a : Py α) : PyS α) = .ok a := rfl
@[simp] theorem lift_err {α : Type} (e : PyExc) : (monadLift (Except.error e : Py α) : PyS α) = .error (.py e) := rfl
@[simp] theorem okS_bind {α β : Type} (a : α) (f : α → PyS β) : (Except.ok a >>= f) = f a := rfl
@[simp] theorem errS_bind {α β : Type} (e : ExcS) (f : α → PyS β) : ((Except.error e : PyS α) >>= f) = .error e := rfl

theorem getItem_encBuf (b : C12.Txt) (i : Nat) (h : i < b.length) : PyU.getItem (encBuf b) (.int i) = .ok (.str [(b[i]).toNat]) := by
  have h1 : ¬ ((i : Int) < 0) := by omega
  have h2 : (0 ≤ (i : Int) ∧ (i : Int) < ((b.map fun c => V.str [c.toNat]).length : Int)) := by simp only [List.length_map]; omega
  simp only [PyU.getItem, encBuf, PyU.asInt, PyRt.normIdx, h1, if_false, h2, and_self, if_true, Except.map, Int.toNat_natCast]
  simp [List.getD_eq_getElem?_getD, h]

theorem gen_StringIterator_next_ (b : C12.Txt) (i : Nat) :
    Gen.PyC2Prof.StringIterator___next__ (encIt b i)
      = if h : i < b.length then .ok (.tuple [.str [(b[i]).toNat], encIt b (i + 1)]) else .error .stop := by
  simp only [Gen.PyC2Prof.StringIterator___next__, getAttr_index, getAttr_buffer, len_encBuf, lift_ok, okS_bind, PyU.lt, PyU.asInt]
  by_cases h : i < b.length
  · have h' : ((i : Int) < (b.length : Int)) := by omega
    have := iadd_nat i 1
    rw [show (((1 : Nat) : Int)) = 1 from rfl] at this
    simp only [h, h', decide_true, if_true, dite_true, getItem_encBuf b i h, lift_ok, okS_bind, this, setAttr_index]
    rfl
  · have h' : ¬ ((i : Int) < (b.length : Int)) := by omega
    simp only [h, h', decide_false, if_false, dite_false, Bool.false_eq_true]
    rfl


/-! ### int(hexstr, 16) on two masked characters -/
def hexValN (c : Nat) : Option Nat :=
  if 48 ≤ c ∧ c ≤ 57 then some (c - 48)
  else if 97 ≤ c ∧ c ≤ 102 then some (c - 87)
  else if 65 ≤ c ∧ c ≤ 70 then some (c - 55)
  else none
def pyIntHexN (a b : Nat) : Py Int :=
    match hexValN a, hexValN b with
    | some x, some y => .ok ((16 * x + y : Nat) : Int)
    | none, some y =>
      if PyU.isSpace a ∨ a = 43 then .ok (y : Int)
      else if a = 45 then .ok (-(y : Int))
      else .error .valueError
    | some x, none => if PyU.isSpace b then .ok (x : Int) else .error .valueError
    | none, none => .error .valueError
/-- `_PyUnicode_TransformDecimalAndSpaceToASCII` on latin-1 -/
def tr (c : Nat) : Nat := if c < 127 then c else if c = 133 ∨ c = 160 then 32 else 63

set_option maxRecDepth 100000 in
theorem parse16_first_special : ∀ x ∈ [9, 10, 11, 12, 13, 32, 43, 45], ∀ y, y < 128 → PyU.parseBase 16 [x, y] = pyIntHexN x y := by
  decide +kernel

set_option maxRecDepth 100000 in
theorem parse16_first_digit : ∀ x ∈ [48, 49, 50, 51, 52, 53, 54, 55, 56, 57], ∀ y, y < 128 → PyU.parseBase 16 [x, y] = pyIntHexN x y := by
  decide +kernel
set_option maxRecDepth 100000 in
theorem parse16_first_lower : ∀ x ∈ [97, 98, 99, 100, 101, 102], ∀ y, y < 128 → PyU.parseBase 16 [x, y] = pyIntHexN x y := by
  decide +kernel
set_option maxRecDepth 100000 in
theorem parse16_first_upper : ∀ x ∈ [65, 66, 67, 68, 69, 70], ∀ y, y < 128 → PyU.parseBase 16 [x, y] = pyIntHexN x y := by
  decide +kernel

theorem parse16_first_other (x y : Nat) (h1 : PyU.isSpace x = false) (h2 : x ≠ 43) (h3 : x ≠ 45) (h4 : hexValN x = none) :
    PyU.parseBase 16 [x, y] = .error .valueError := by
  have h48 : x ≠ 48 := by intro e; subst e; simp [hexValN] at h4
  have hp : PyU.dropBasePrefix 16 [x, y] = [x, y] := by
    unfold PyU.dropBasePrefix
    split
    · rename_i heq; simp at heq; omega
    · rfl
  have hd : PyU.isDigitOrUnderscoreB 16 x = (x == 95) := by
    simp only [hexValN] at h4
    simp only [PyU.isDigitOrUnderscoreB, PyU.digitValN]
    by_cases c1 : 48 ≤ x ∧ x ≤ 57
    · simp [c1] at h4
    · by_cases c2 : 97 ≤ x ∧ x ≤ 102
      · simp [c1, c2] at h4
      · by_cases c3 : 65 ≤ x ∧ x ≤ 70
        · simp [c1, c2, c3] at h4
        · simp only [c1, if_false]
          by_cases d2 : 97 ≤ x ∧ x ≤ 122
          · have : ¬ (x - 87 < 16) := by omega
            simp [d2, this]
          · by_cases d3 : 65 ≤ x ∧ x ≤ 90
            · have : ¬ (x - 55 < 16) := by omega
              simp [d2, d3, this]
            · simp [d2, d3]
  have hs : ((some x : Option Nat) == some 45) = false := by simpa using h3
  have hs' : ((some x : Option Nat) == some 43) = false := by simpa using h2
  simp only [PyU.parseBase, List.dropWhile_cons, h1, Bool.false_eq_true, if_false, List.head?_cons, hs, hs', Bool.or_self,
    PyU.parseBaseBody, hp, List.takeWhile_cons, hd]
  by_cases h95 : x = 95
  · subst h95; simp
  · have : (x == 95) = false := by simpa using h95
    simp [this]

theorem parse16_two (x y : Nat) (hy : y < 128) : PyU.parseBase 16 [x, y] = pyIntHexN x y := by
  by_cases a1 : x ∈ [9, 10, 11, 12, 13, 32, 43, 45]
  · exact parse16_first_special x a1 y hy
  by_cases a2 : x ∈ [48, 49, 50, 51, 52, 53, 54, 55, 56, 57]
  · exact parse16_first_digit x a2 y hy
  by_cases a3 : x ∈ [97, 98, 99, 100, 101, 102]
  · exact parse16_first_lower x a3 y hy
  by_cases a4 : x ∈ [65, 66, 67, 68, 69, 70]
  · exact parse16_first_upper x a4 y hy
  simp only [List.mem_cons, List.not_mem_nil, or_false, not_or] at a1 a2 a3 a4
  have h1 : PyU.isSpace x = false := by
    simp only [PyU.isSpace, Bool.or_eq_false_iff, beq_eq_false_iff_ne, ne_eq, Bool.and_eq_false_iff, decide_eq_false_iff_not]
    omega
  have h4 : hexValN x = none := by
    have c1 : ¬ (48 ≤ x ∧ x ≤ 57) := by omega
    have c2 : ¬ (97 ≤ x ∧ x ≤ 102) := by omega
    have c3 : ¬ (65 ≤ x ∧ x ≤ 70) := by omega
    simp only [hexValN, c1, c2, c3, if_false]
  rw [parse16_first_other x y h1 a1.2.2.2.2.2.2.1 a1.2.2.2.2.2.2.2 h4]
  have n43 : ¬ x = 43 := a1.2.2.2.2.2.2.1
  have n45 : ¬ x = 45 := a1.2.2.2.2.2.2.2
  cases hv : hexValN y <;> simp [pyIntHexN, h4, hv, h1, n43, n45]

theorem tr_lt (c : Nat) : tr c < 128 := by
  unfold tr; split
  · omega
  · split <;> omega

set_option maxRecDepth 100000 in
theorem toAscii_eq (a : UInt8) : PyU.toAsciiDigitSpace Gen.PyC2Prof.intTables a.toNat = tr a.toNat := by
  revert a; apply C12.forall_byte; decide +kernel
set_option maxRecDepth 100000 in
theorem hexVal_tr (a : UInt8) : C12.hexVal a = hexValN (tr a.toNat) := by
  revert a; apply C12.forall_byte; decide +kernel
set_option maxRecDepth 100000 in
theorem intSpace_tr (a : UInt8) : C12.intSpace a = PyU.isSpace (tr a.toNat) := by
  revert a; apply C12.forall_byte; decide +kernel
set_option maxRecDepth 100000 in
theorem eq43_tr (a : UInt8) : (a = 43) = (tr a.toNat = 43) := by
  revert a; apply C12.forall_byte; decide +kernel
set_option maxRecDepth 100000 in
theorem eq45_tr (a : UInt8) : (a = 45) = (tr a.toNat = 45) := by
  revert a; apply C12.forall_byte; decide +kernel

theorem pyIntHex_tr (a b : UInt8) : C12.pyIntHex [a, b] = pyIntHexN (tr a.toNat) (tr b.toNat) := by
  simp only [C12.pyIntHex, pyIntHexN, hexVal_tr, intSpace_tr, eq43_tr, eq45_tr]
  cases hexValN (tr a.toNat) <;> cases hexValN (tr b.toNat) <;> rfl

theorem intBase_two (a b : UInt8) :
    PyU.intBase Gen.PyC2Prof.intTables (.str [a.toNat, b.toNat]) (.int 16) = (C12.pyIntHex [a, b]).map .int := by
  simp only [PyU.intBase, PyU.asInt, List.map_cons, List.map_nil, toAscii_eq]
  rw [pyIntHex_tr, ← parse16_two _ _ (tr_lt _)]
  rfl

/-! ### one run of the loop body: model side -/
/-- one run of the loop body of `C12.decodeLoop` at a position inside the buffer: the new index and output -/
def stepM (b : C12.Txt) (i : Nat) (out : List Int) (h : i < b.length) : Py (Nat × List Int) :=
  let c := b[i]
  if h1 : c = C12.bsl ∧ C12.hasNext b (i + 1) = true then
    let next2 := b[i + 1]'(by simp only [C12.hasNext, decide_eq_true_eq] at h1; omega)
    if next2 = 117 then
      if C12.hasNext b (i + 2) 4 = true then
        match C12.pyIntHex (C12.nextN b (i + 2 + 2) 2).1 with
        | .error e => .error e
        | .ok v => .ok (i + 2 + 2 + 2, out ++ [v])
      else .error .valueError
    else if next2 = 120 then
      if C12.hasNext b (i + 2) 2 = true then
        match C12.pyIntHex (C12.nextN b (i + 2) 2).1 with
        | .error e => .error e
        | .ok v => .ok (i + 2 + 2, out ++ [v])
      else .error .valueError
    else if next2 = 110 then .ok (i + 2, out ++ [10])
    else if next2 = 114 then .ok (i + 2, out ++ [13])
    else if next2 = 116 then .ok (i + 2, out ++ [9])
    else if next2 = C12.bsl then .ok (i + 2, out ++ [0x5c])
    else if next2 = C12.dq then .ok (i + 2, out ++ [0x22])
    else if next2 = C12.sq then .ok (i + 2, out ++ [0x27])
    else .ok (i + 2, out)
  else .ok (i + 1, out ++ [(c.toNat : Int)])

theorem decodeLoop_step (b : C12.Txt) (i : Nat) (out : List Int) :
    C12.decodeLoop b i out = if h : i < b.length then
      (match stepM b i out h with
       | .error e => .error e
       | .ok p => C12.decodeLoop b p.1 p.2) else .ok out := by
  rw [C12.decodeLoop]
  by_cases h : i < b.length
  · simp only [h, dite_true, stepM, C12.nextN]
    split
    · split
      · split
        · cases hx : C12.pyIntHex (List.drop (i + 2 + 2) (List.take (i + 2 + 2 + 2) b)) <;> rfl
        · rfl
      · split
        · split
          · cases hx : C12.pyIntHex (List.drop (i + 2) (List.take (i + 2 + 2) b)) <;> rfl
          · rfl
        · iterate 6 (split; rfl)
          rfl
    · rfl
  · simp only [h, dite_false]


/-! ### the loop body of `string_token_to_bytes` -/
set_option maxRecDepth 100000 in
theorem eq_lits (c : UInt8) :
    PyU.eq (.str [c.toNat]) (PyU.lit "\\") = decide (c = C12.bsl) ∧ PyU.eq (.str [c.toNat]) (PyU.lit "u") = decide (c = 117) ∧
    PyU.eq (.str [c.toNat]) (PyU.lit "x") = decide (c = 120) ∧ PyU.eq (.str [c.toNat]) (PyU.lit "n") = decide (c = 110) ∧
    PyU.eq (.str [c.toNat]) (PyU.lit "r") = decide (c = 114) ∧ PyU.eq (.str [c.toNat]) (PyU.lit "t") = decide (c = 116) ∧
    PyU.eq (.str [c.toNat]) (PyU.lit "\"") = decide (c = C12.dq) ∧ PyU.eq (.str [c.toNat]) (PyU.lit "'") = decide (c = C12.sq) := by
  revert c; apply C12.forall_byte; decide +kernel

theorem ord_lits : PyU.ord (PyU.lit "\u000a") = .ok (.int 10) ∧ PyU.ord (PyU.lit "\u000d") = .ok (.int 13) ∧
    PyU.ord (PyU.lit "\u0009") = .ok (.int 9) ∧ PyU.ord (PyU.lit "\\") = .ok (.int 0x5c) ∧ PyU.ord (PyU.lit "\"") = .ok (.int 0x22) ∧
    PyU.ord (PyU.lit "'") = .ok (.int 0x27) := by decide

theorem ord_str1 (c : UInt8) : PyU.ord (.str [c.toNat]) = .ok (.int (c.toNat : Int)) := rfl

theorem append_out (out : List Int) (v : Int) : PyU.append (encOut out) (.int v) = .ok (encOut (out ++ [v])) := by
  simp [PyU.append, encOut]

theorem joinStrs_enc : ∀ t : C12.Txt, PyU.joinStrs [] (t.map fun c => V.str [c.toNat]) = .ok (tn t)
  | [] => rfl
  | [c] => rfl
  | c :: d :: r => by
    have ih := joinStrs_enc (d :: r)
    simp only [List.map_cons] at ih ⊢
    simp only [PyU.joinStrs, ih, Except.map, tn, List.map_cons, List.append_nil, List.singleton_append]

theorem join_enc (t : C12.Txt) : PyU.join (PyU.lit "") (encStrs t) = .ok (.str (tn t)) := by
  simp only [PyU.join, show PyU.lit "" = .str [] from rfl, encStrs, PyU.iterList, joinStrs_enc, Except.map]

theorem nextN_two (b : C12.Txt) (j : Nat) (h : j + 2 ≤ b.length) : ∃ x y, (C12.nextN b j 2).1 = [x, y] := by
  have hl : ((b.take (j + 2)).drop j).length = 2 := by simp [List.length_drop, List.length_take]; omega
  simp only [C12.nextN]
  match hm : (b.take (j + 2)).drop j, hl with
  | [x, y], _ => exact ⟨x, y, rfl⟩

theorem intBase_nextN (b : C12.Txt) (j : Nat) (h : j + 2 ≤ b.length) :
    PyU.intBase Gen.PyC2Prof.intTables (.str (tn (C12.nextN b j 2).1)) (.int 16) = (C12.pyIntHex (C12.nextN b j 2).1).map .int := by
  obtain ⟨x, y, e⟩ := nextN_two b j h
  rw [e]; exact intBase_two x y

theorem gen_StringIterator_has_next_lit (b : C12.Txt) (i : Nat) :
    Gen.PyC2Prof.StringIterator_has_next (encIt b i) (.int 1) = .ok (.bool (C12.hasNext b i 1)) ∧
    Gen.PyC2Prof.StringIterator_has_next (encIt b i) (.int 2) = .ok (.bool (C12.hasNext b i 2)) ∧
    Gen.PyC2Prof.StringIterator_has_next (encIt b i) (.int 4) = .ok (.bool (C12.hasNext b i 4)) :=
  ⟨gen_StringIterator_has_next b i 1, gen_StringIterator_has_next b i 2, gen_StringIterator_has_next b i 4⟩

theorem gen_StringIterator_next_lit (b : C12.Txt) (i : Nat) :
    Gen.PyC2Prof.StringIterator_next (encIt b i) (.int 2) = .ok (.tuple [encStrs (C12.nextN b i 2).1, encIt b (i + 2)]) :=
  gen_StringIterator_next b i 2

theorem unpack2_tuple (a b : V) : PyU.unpack2 (.tuple [a, b]) = .ok (a, b) := rfl

theorem gen_string_token_to_bytes_loop1_end (b : C12.Txt) (i : Nat) (out : List Int) (h : ¬ i < b.length) :
    Gen.PyC2Prof.string_token_to_bytes_loop1 (encOut out, encIt b i) = .ok (.brk, (encOut out, encIt b i)) := by
  simp only [Gen.PyC2Prof.string_token_to_bytes_loop1, gen_StringIterator_next_, h, dite_false, PyU.catchStop, okS_bind, if_true]
  rfl


theorem truthy_bool (x : Bool) : PyU.truthy (.bool x) = x := rfl
theorem throwS_bind {α β : Type} (e : ExcS) (f : α → PyS β) : ((throw e : PyS α) >>= f) = .error e := rfl
theorem throwS {α : Type} (e : ExcS) : (throw e : PyS α) = .error e := rfl
theorem pureS {α : Type} (a : α) : (pure a : PyS α) = .ok a := rfl

theorem gen_string_token_to_bytes_loop1_step (b : C12.Txt) (i : Nat) (out : List Int) (h : i < b.length) :
    Gen.PyC2Prof.string_token_to_bytes_loop1 (encOut out, encIt b i)
      = match stepM b i out h with
        | .error e => .error (.py e)
        | .ok p => .ok (.cont, (encOut p.2, encIt b p.1)) := by
  simp only [Gen.PyC2Prof.string_token_to_bytes_loop1, gen_StringIterator_next_, h, dite_true, PyU.catchStop, okS_bind, Bool.false_eq_true, if_false,
    unpack2_tuple, lift_ok, (eq_lits _).1, (gen_StringIterator_has_next_lit _ _).1, truthy_bool]
  by_cases hc : b[i] = C12.bsl
  · by_cases hn : C12.hasNext b (i + 1) = true
    · have hlt : i + 1 < b.length := by simp only [C12.hasNext, decide_eq_true_eq] at hn; omega
      have h1 : (b[i] = C12.bsl ∧ C12.hasNext b (i + 1) = true) := ⟨hc, hn⟩
      have e2 : i + 1 + 1 = i + 2 := rfl
      simp only [stepM, dif_pos h1]
      simp only [hc, hn, decide_true, if_true, okS_bind, lift_ok, gen_StringIterator_next_, hlt, dite_true, unpack2_tuple, e2,
        (eq_lits _).2.1, (eq_lits _).2.2.1, (eq_lits _).2.2.2.1, (eq_lits _).2.2.2.2.1, (eq_lits _).2.2.2.2.2.1, (eq_lits _).2.2.2.2.2.2.1,
        (eq_lits _).2.2.2.2.2.2.2, (eq_lits _).1, decide_eq_true_eq, (gen_StringIterator_has_next_lit _ _).2.1, (gen_StringIterator_has_next_lit _ _).2.2, truthy_bool,
        ord_lits.1, ord_lits.2.1, ord_lits.2.2.1, ord_lits.2.2.2.1, ord_lits.2.2.2.2.1, ord_lits.2.2.2.2.2, append_out, pureS]
      by_cases hu : b[i + 1] = 117
      · simp only [hu, if_true]
        by_cases h4 : C12.hasNext b (i + 2) 4 = true
        · have hb : i + 2 + 2 + 2 ≤ b.length := by simp only [C12.hasNext, decide_eq_true_eq] at h4; omega
          simp only [h4, Bool.not_true, Bool.false_eq_true, if_false, if_true, gen_StringIterator_next_lit, lift_ok, okS_bind, unpack2_tuple, join_enc,
            intBase_nextN b (i + 2 + 2) hb]
          cases C12.pyIntHex (C12.nextN b (i + 2 + 2) 2).1 with
          | error e => rfl
          | ok v => simp only [Except.map, lift_ok, okS_bind, append_out, pureS]
        · simp only [h4, Bool.not_false, if_true, Bool.false_eq_true, if_false, throwS_bind]
      · simp only [hu, if_false]
        by_cases hx : b[i + 1] = 120
        · simp only [hx, if_true]
          by_cases h4 : C12.hasNext b (i + 2) 2 = true
          · have hb : i + 2 + 2 ≤ b.length := by simp only [C12.hasNext, decide_eq_true_eq] at h4; omega
            simp only [h4, Bool.not_true, Bool.false_eq_true, if_false, if_true, gen_StringIterator_next_lit, lift_ok, okS_bind, unpack2_tuple, join_enc,
              intBase_nextN b (i + 2) hb]
            cases C12.pyIntHex (C12.nextN b (i + 2) 2).1 with
            | error e => rfl
            | ok v => simp only [Except.map, lift_ok, okS_bind, append_out, pureS]
          · simp only [h4, Bool.not_false, if_true, Bool.false_eq_true, if_false, throwS_bind]
        · simp only [hx, if_false]
          iterate 6 (split; rfl)
          rfl
    · have h1 : ¬ (b[i] = C12.bsl ∧ C12.hasNext b (i + 1) = true) := fun x => hn x.2
      simp only [stepM, dif_neg h1]
      simp only [hc, hn, decide_true, if_true, okS_bind, lift_ok, Bool.false_eq_true, if_false]
      simp only [← hc, ord_str1, lift_ok, okS_bind, append_out]
      rfl
  · have h1 : ¬ (b[i] = C12.bsl ∧ C12.hasNext b (i + 1) = true) := fun x => hc x.1
    simp only [hc, decide_false, Bool.false_eq_true, if_false, stepM, h1, dite_false, ord_str1, lift_ok, okS_bind, append_out]
    rfl


theorem stepM_progress (b : C12.Txt) (i : Nat) (out : List Int) (h : i < b.length) (p : Nat × List Int)
    (hs : stepM b i out h = .ok p) : i < p.1 ∧ p.1 ≤ b.length := by
  unfold stepM at hs
  simp only at hs
  split at hs
  · rename_i h1
    have hn := h1.2
    simp only [C12.hasNext, decide_eq_true_eq] at hn
    split at hs
    · split at hs
      · rename_i h4
        simp only [C12.hasNext, decide_eq_true_eq] at h4
        split at hs
        · cases hs
        · cases hs; simp only; omega
      · cases hs
    · split at hs
      · split at hs
        · rename_i h4
          simp only [C12.hasNext, decide_eq_true_eq] at h4
          split at hs
          · cases hs
          · cases hs; simp only; omega
        · cases hs
      · iterate 6 (split at hs; (cases hs; simp only; omega))
        cases hs; simp only; omega
  · cases hs; simp only; omega

theorem gen_string_token_to_bytes_loop (b : C12.Txt) : ∀ (n i : Nat) (out : List Int) (fuel : Nat), b.length - i ≤ n → i ≤ b.length → b.length - i < fuel →
    PyU.whileFuelS fuel Gen.PyC2Prof.string_token_to_bytes_loop1 (encOut out, encIt b i)
      = match C12.decodeLoop b i out with
        | .error e => .error (.py e)
        | .ok o => .ok (encOut o, encIt b b.length) := by
  intro n
  induction n with
  | zero =>
    intro i out fuel h1 h2 h3
    have hi : i = b.length := by omega
    have hlt : ¬ i < b.length := by omega
    cases fuel with
    | zero => omega
    | succ f =>
      rw [decodeLoop_step]
      subst hi
      simp only [PyU.whileFuelS, gen_string_token_to_bytes_loop1_end b _ out (Nat.lt_irrefl _), Nat.lt_irrefl, dite_false]
  | succ n ih =>
    intro i out fuel h1 h2 h3
    cases fuel with
    | zero => omega
    | succ f =>
      rw [decodeLoop_step]
      by_cases hlt : i < b.length
      · simp only [PyU.whileFuelS, gen_string_token_to_bytes_loop1_step b i out hlt, hlt, dite_true]
        cases hs : stepM b i out hlt with
        | error e => rfl
        | ok p =>
          have hp := stepM_progress b i out hlt p hs
          simp only
          exact ih p.1 p.2 f (by omega) hp.2 (by omega)
      · have hi : i = b.length := by omega
        subst hi
        simp only [PyU.whileFuelS, gen_string_token_to_bytes_loop1_end b _ out (Nat.lt_irrefl _), Nat.lt_irrefl, dite_false]


/-! ### string_token_to_bytes -/
theorem bytesItems_ints : ∀ out : List Int, PyU.bytesItems (out.map V.int) = C12.pyBytes out
  | [] => rfl
  | v :: vs => by
    have ih := bytesItems_ints vs
    simp only [List.map_cons, PyU.bytesItems, PyU.asInt, C12.pyBytes, ih]
    split
    · cases C12.pyBytes vs <;> rfl
    · rfl

theorem bytesOf_out (out : List Int) : PyU.bytesOf (encOut out) = (C12.pyBytes out).map .bytes := by
  simp only [PyU.bytesOf, encOut, bytesItems_ints]

theorem body_length (text : List Nat) : (pySliceTo (pySliceFrom text 1) (some (-1))).length = text.length - 2 := by
  simp [pySliceTo, pySliceFrom]; omega

theorem isInstance_token (a b : V) : PyU.isInstance (tokenV a b) [PyU.Ty.cls Gen.PyC2Prof.Token] = true := by
  simp [PyU.isInstance, PyU.isInst1, tokenV]

theorem slice_str_body (t : List Nat) :
    PyU.slice (.str t) (.int 1) (.int (-1)) = .ok (.str (pySliceTo (pySliceFrom t 1) (some (-1)))) := by
  simp only [PyU.slice, PyU.bound, PyU.asInt, bind, Except.bind, pure, Except.pure, slice_1_m1]

theorem gen_string_token_to_bytes_proof (text : List Nat) (fuel : Nat) (hf : text.length - 2 < fuel) :
    Gen.PyC2Prof.string_token_to_bytes fuel (stringToken text) = liftS ((C12.stringTokenToBytesCP text).map .bytes) := by
  have hin : PyU.isInstance (stringToken text) [PyU.Ty.cls Gen.PyC2Prof.Token] = true := isInstance_token _ _
  have hty : PyU.getAttr (stringToken text) "type" = .ok (PyU.lit "STRING") := by
    simp [PyU.getAttr, stringToken, tokenV, Gen.PyC2Prof.Token, PyU.lookupField]
  have hval : PyU.getAttr (stringToken text) "value" = .ok (.str text) := by
    simp [PyU.getAttr, stringToken, tokenV, Gen.PyC2Prof.Token, PyU.lookupField]
  have heq : PyU.eq (PyU.lit "STRING") (PyU.lit "STRING") = true := by decide
  have hlen : (maskCP (pySliceTo (pySliceFrom text 1) (some (-1)))).length - 0 < fuel := by
    simp only [maskCP, List.length_map, body_length]; omega
  have hloop := gen_string_token_to_bytes_loop (maskCP (pySliceTo (pySliceFrom text 1) (some (-1)))) _ 0 [] fuel (Nat.le_refl _) (Nat.zero_le _) hlen
  rw [show encOut [] = V.list [] from rfl] at hloop
  have hm : C12.stringTokenToBytesCP text = (match C12.decodeLoop (maskCP (pySliceTo (pySliceFrom text 1) (some (-1)))) 0 [] with
      | .error e => .error e
      | .ok out => C12.pyBytes out) := rfl
  simp only [Gen.PyC2Prof.string_token_to_bytes, hin, if_true, lift_ok, okS_bind, hty, hval, heq, slice_str_body,
    gen_StringIterator_init, gen_StringIterator_iter, unpack2_tuple, hloop, hm]
  cases C12.decodeLoop (maskCP (pySliceTo (pySliceFrom text 1) (some (-1)))) 0 [] with
  | error e => rfl
  | ok o =>
    simp only [okS_bind, bytesOf_out, pureS]
    cases C12.pyBytes o <;> rfl


theorem gen_string_token_to_bytes_not_token_proof (v : V) (fuel : Nat) (h : PyU.isInstance v [PyU.Ty.cls Gen.PyC2Prof.Token] = false) :
    Gen.PyC2Prof.string_token_to_bytes fuel v = .ok v := by
  simp only [Gen.PyC2Prof.string_token_to_bytes, h, Bool.false_eq_true, if_false]
  rfl

theorem gen_string_token_to_bytes_other_type_proof (ty value : V) (fuel : Nat) (h : PyU.eq ty (PyU.lit "STRING") = false) :
    Gen.PyC2Prof.string_token_to_bytes fuel (tokenV ty value) = .ok (tokenV ty value) := by
  have hty : PyU.getAttr (tokenV ty value) "type" = .ok ty := by
    simp [PyU.getAttr, tokenV, Gen.PyC2Prof.Token, PyU.lookupField]
  simp only [Gen.PyC2Prof.string_token_to_bytes, isInstance_token, if_true, hty, lift_ok, okS_bind, h, Bool.false_eq_true, if_false]
  rfl

end C12Gen
